/-
  HOW MANY PACKETS ONE FLUSH EMITS — helper lemmas for Props/C01KD.lean (item (C) of Props/C01KC.lean).

  `chanLoop_budget` gives `seq' = seq + |ps|` for the channel loop of `get_packets_to_send`, but no bound on `|ps|`
  (the byte budget does not bound it: empty messages are free).  Here:

  Part 1  UNITS.  `entryUnits` (a stored small message: 1; a stored sliced message: its number of slices `n` — an
          upper bound of the un-acknowledged ones), `relUnits s = Σ entryUnits + 1` (the `+ 1`: the small-message
          accumulator is flushed once more at the end, and the FIRST small message can flush an EMPTY accumulator
          when its serialised size alone exceeds `SLICE_SIZE`), `unrelUnits s = Σ over the queue (slices of a sliced
          message, 1 for a small one) + 1`, `Conn.units c = Σ over c.order` of the units of the channel found there.
          `chanLoop_count`: the channel loop appends at most `ordUnits order sr su` packets — NO hypothesis.
          `flushSeq_le_units`: `c.flushSeq ≤ c.packetSeq + c.units + 1` from `c.SendInv` alone (no counter hypothesis).
  Part 2  units do not grow: `process_packet` (ack loop), `update`, `get_packets_to_send` (`UnitsLe`), and at system
          level every operation other than `sendA` (`units_step`, `units_run`).
  Part 3  a reliable channel with a non-empty due backlog that is offered `SLICE_SIZE` bytes emits a packet
          (`getPackets_ne_nil`), hence the flush of the connection is non-empty (`flushPk_ne_nil`).
  Part 4  `TickSched3` / `RoundsSched3` (schedule facts; `r.ks ≠ []` demanded ONLY for a round that starts with an
          EMPTY backlog), `HeadRoom3` (`packetSeq + k * (units + 1) ≤ 2^62`), `rounds_of_sched3`.
-/
import RenetVerif.Lemmas.LivenessKClosed2
namespace RenetVerif.FlushCount
open RenetVerif C RenetVerif.System RenetVerif.DataPath RenetVerif.Live RenetVerif.LiveK RenetVerif.LiveKC

/-! ## Part 1 — units, and the number of packets of one flush -/

/-- packets one stored entry can cause in one flush: a small message at most one flush of the accumulator, a sliced
    message at most one packet per slice -/
def entryUnits : Unacked → Nat
  | .small .. => 1
  | .sliced _ n .. => n

def mapUnits : SMap Unacked → Nat
  | [] => 0
  | (_, u) :: r => entryUnits u + mapUnits r

@[simp] theorem mapUnits_nil : mapUnits [] = 0 := rfl
@[simp] theorem mapUnits_cons (k : Nat) (u : Unacked) (r : SMap Unacked) :
    mapUnits ((k, u) :: r) = entryUnits u + mapUnits r := rfl

/-- units of a reliable send channel -/
def relUnits (s : SendRel) : Nat := mapUnits s.unacked + 1

/-- packets one queued unreliable message can cause: its slices, or one flush of the accumulator -/
def msgUnits (m : Bytes) : Nat := if m.length > SLICE_SIZE then divCeil m.length SLICE_SIZE else 1

def queueUnits : List Bytes → Nat
  | [] => 0
  | m :: r => msgUnits m + queueUnits r

/-- units of an unreliable send channel -/
def unrelUnits (s : SendUnrel) : Nat := queueUnits s.queue + 1

def optRel (o : Option SendRel) : Nat := match o with | some s => relUnits s | none => 0
def optUnrel (o : Option SendUnrel) : Nat := match o with | some s => unrelUnits s | none => 0

/-- units of the channel served at one position of the channel order -/
def chanUnits (sr : SMap SendRel) (su : SMap SendUnrel) : Bool × Nat → Nat
  | (true, ch) => optRel (SMap.find? sr ch)
  | (false, ch) => optUnrel (SMap.find? su ch)

def ordUnits (sr : SMap SendRel) (su : SMap SendUnrel) : List (Bool × Nat) → Nat
  | [] => 0
  | x :: r => chanUnits sr su x + ordUnits sr su r

/-- **units of a connection**: over the channel order, stored small messages + slices of stored sliced messages + 1
    per reliable channel, queued unreliable messages (slices for a sliced one) + 1 per unreliable channel -/
def _root_.RenetVerif.Conn.units (c : Conn) : Nat := ordUnits c.sendRel c.sendUnrel c.order

/-! ### the slice loop and the reliable loop -/

theorem slicedLoop_count (ch id now resend : Nat) (msg : Bytes) (n start : Nat) (acked : List Bool) :
    ∀ (l : List Nat) (ls : List (Option Nat)) (next : Nat) (gp : GP),
    (slicedLoop ch id now resend msg n start acked l (ls, next, gp)).2.2.packets.length ≤ gp.packets.length + l.length ∧
    (slicedLoop ch id now resend msg n start acked l (ls, next, gp)).2.2.small = gp.small
  | [], ls, next, gp => by rw [slicedLoop_nil]; exact ⟨Nat.le_add_right _ _, rfl⟩
  | i0 :: rest, ls, next, gp => by
    rw [slicedLoop_cons]
    simp only [List.length_cons]
    split
    · exact ⟨Nat.le_add_right _ _, rfl⟩
    · split
      · obtain ⟨h1, h2⟩ := slicedLoop_count ch id now resend msg n start acked rest ls next gp
        exact ⟨by omega, h2⟩
      · obtain ⟨h1, h2⟩ := slicedLoop_count ch id now resend msg n start acked rest
          (ls.set ((start + i0) % n) (some now)) ((start + i0) % n + 1 % n) (sliceStep ch id msg n ((start + i0) % n) gp)
        have e1 : (sliceStep ch id msg n ((start + i0) % n) gp).packets.length = gp.packets.length + 1 := by
          simp [sliceStep]
        have e2 : (sliceStep ch id msg n ((start + i0) % n) gp).small = gp.small := rfl
        rw [e1] at h1
        rw [e2] at h2
        exact ⟨by omega, h2⟩

/-- 1 when the accumulator holds something (it will be flushed), else 0 -/
def pend (l : List (Nat × Bytes)) : Nat := if l.isEmpty then 0 else 1

theorem pend_le (l : List (Nat × Bytes)) : pend l ≤ 1 := by unfold pend; split <;> omega

theorem relLoop_count (ch now resend : Nat) : ∀ (un : SMap Unacked) (gp : GP),
    (relLoop ch now resend un gp).2.packets.length + pend (relLoop ch now resend un gp).2.small ≤
      gp.packets.length + 1 + mapUnits un
  | [], gp => by
    rw [relLoop_nil]
    have := pend_le gp.small
    simp only [mapUnits_nil]; omega
  | (id, .small m ls) :: rest, gp => by
    rw [relLoop_small]
    simp only [mapUnits_cons, entryUnits]
    split
    · have := relLoop_count ch now resend rest gp
      dsimp only; omega
    · have := relLoop_count ch now resend rest (takeSmall ch id m gp)
      dsimp only
      rcases packets_takeSmall ch id m gp with e | e <;> rw [e] at this
      · omega
      · simp only [List.length_append, List.length_cons, List.length_nil] at this; omega
  | (id, .sliced m n na nx ak ls) :: rest, gp => by
    rw [relLoop_sliced]
    simp only [mapUnits_cons, entryUnits]
    have h1 := (slicedLoop_count ch id now resend m n nx ak (List.range n) ls nx gp).1
    rw [List.length_range] at h1
    have := relLoop_count ch now resend rest (slicedLoop ch id now resend m n nx ak (List.range n) (ls, nx, gp)).2.2
    omega

theorem finishRel_count (ch : Nat) (g : GP) : (finishRel ch g).packets.length = g.packets.length + pend g.small := by
  unfold finishRel pend
  split
  · rfl
  · simp [flushSmall]

/-- **one flush of a reliable send channel emits at most `relUnits` packets** (no hypothesis) -/
theorem getPackets_rel_count (s : SendRel) (seq avail now : Nat) :
    (s.getPackets seq avail now).2.1.length ≤ relUnits s := by
  rw [SendRel.getPackets_eq]
  dsimp only
  rw [finishRel_count]
  have := relLoop_count s.ch now s.resend s.unacked ⟨[], [], 0, seq, avail⟩
  simp only [List.length_nil] at this
  unfold relUnits; omega

/-- the loop rewrites time stamps and cursors only: the units of the stored entries are unchanged -/
theorem relLoop_units (ch now resend : Nat) : ∀ (un : SMap Unacked) (gp : GP),
    mapUnits (relLoop ch now resend un gp).1 = mapUnits un
  | [], gp => by rw [relLoop_nil]
  | (id, .small m ls) :: rest, gp => by
    rw [relLoop_small]
    split
    · simp only [mapUnits_cons, entryUnits, relLoop_units ch now resend rest gp]
    · simp only [mapUnits_cons, entryUnits, relLoop_units ch now resend rest (takeSmall ch id m gp)]
  | (id, .sliced m n na nx ak ls) :: rest, gp => by
    rw [relLoop_sliced]
    simp only [mapUnits_cons, entryUnits, relLoop_units ch now resend rest _]

theorem getPackets_rel_units (s : SendRel) (seq avail now : Nat) :
    relUnits (s.getPackets seq avail now).1 = relUnits s := by
  rw [SendRel.getPackets_eq]
  unfold relUnits
  dsimp only
  rw [relLoop_units]

/-! ### the unreliable loop -/

def pendU (l : List Bytes) : Nat := if l.isEmpty then 0 else 1

theorem pendU_le (l : List Bytes) : pendU l ≤ 1 := by unfold pendU; split <;> omega

theorem unrelLoop_count (ch : Nat) : ∀ (q : List Bytes) (g : GPU),
    (unrelLoop ch q g).packets.length + pendU (unrelLoop ch q g).small ≤ g.packets.length + 1 + queueUnits q
  | [], g => by
    have := pendU_le g.small
    simp only [unrelLoop, queueUnits]; omega
  | m :: rest, g => by
    rw [unrelLoop_cons]
    simp only [queueUnits, msgUnits]
    split
    · have := unrelLoop_count ch rest (unrelDrop m g)
      have e : (unrelDrop m g).packets = g.packets := rfl
      rw [e] at this
      split <;> omega
    · split
      · next h2 =>
        have := unrelLoop_count ch rest (unrelSliced ch m g)
        have e : (unrelSliced ch m g).packets.length = g.packets.length + divCeil m.length SLICE_SIZE := by
          simp only [unrelSliced, List.length_append, unrelSlices_length, List.length_range]
        rw [e] at this
        omega
      · next h2 =>
        have := unrelLoop_count ch rest (unrelSmall ch m g)
        have e : (unrelSmall ch m g).packets.length ≤ g.packets.length + 1 := by
          unfold unrelSmall
          split
          · simp [pushUnrel, flushUnrel, chargeU]
          · simp [pushUnrel, chargeU]
        omega

theorem finishUnrel_count (ch : Nat) (g : GPU) : (finishUnrel ch g).packets.length = g.packets.length + pendU g.small := by
  unfold finishUnrel pendU
  split
  · rfl
  · simp

/-- **one flush of an unreliable send channel emits at most `unrelUnits` packets**, and leaves an empty queue -/
theorem getPackets_unrel_count (s : SendUnrel) (seq avail : Nat) :
    (s.getPackets seq avail).2.1.length ≤ unrelUnits s ∧ unrelUnits (s.getPackets seq avail).1 ≤ unrelUnits s := by
  rw [SendUnrel.getPackets_eq]
  dsimp only
  rw [finishUnrel_count]
  have := unrelLoop_count s.ch s.queue ⟨[], [], 0, seq, avail, s.slicedId, s.mem⟩
  simp only [List.length_nil] at this
  unfold unrelUnits
  dsimp only [queueUnits]
  omega

/-! ### the channel loop -/

/-- pointwise comparison of the units of two pairs of channel maps -/
def UnitsLe (sr' : SMap SendRel) (su' : SMap SendUnrel) (sr : SMap SendRel) (su : SMap SendUnrel) : Prop :=
  (∀ ch, optRel (SMap.find? sr' ch) ≤ optRel (SMap.find? sr ch)) ∧
  (∀ ch, optUnrel (SMap.find? su' ch) ≤ optUnrel (SMap.find? su ch))

theorem UnitsLe.refl (sr : SMap SendRel) (su : SMap SendUnrel) : UnitsLe sr su sr su :=
  ⟨fun _ => Nat.le_refl _, fun _ => Nat.le_refl _⟩

theorem UnitsLe.trans {a1 b1 c1 : SMap SendRel} {a2 b2 c2 : SMap SendUnrel} (h1 : UnitsLe a1 a2 b1 b2)
    (h2 : UnitsLe b1 b2 c1 c2) : UnitsLe a1 a2 c1 c2 :=
  ⟨fun ch => Nat.le_trans (h1.1 ch) (h2.1 ch), fun ch => Nat.le_trans (h1.2 ch) (h2.2 ch)⟩

theorem UnitsLe.insert_rel {sr : SMap SendRel} {su : SMap SendUnrel} {ch : Nat} {s s' : SendRel}
    (hf : SMap.find? sr ch = some s) (h : relUnits s' ≤ relUnits s) : UnitsLe (SMap.insert sr ch s') su sr su := by
  refine ⟨?_, fun _ => Nat.le_refl _⟩
  intro k
  rw [SMap.find?_insert]
  split
  · next e => subst e; rw [hf]; exact h
  · exact Nat.le_refl _

theorem UnitsLe.insert_unrel {sr : SMap SendRel} {su : SMap SendUnrel} {ch : Nat} {s s' : SendUnrel}
    (hf : SMap.find? su ch = some s) (h : unrelUnits s' ≤ unrelUnits s) : UnitsLe sr (SMap.insert su ch s') sr su := by
  refine ⟨fun _ => Nat.le_refl _, ?_⟩
  intro k
  rw [SMap.find?_insert]
  split
  · next e => subst e; rw [hf]; exact h
  · exact Nat.le_refl _

theorem ordUnits_mono {sr' sr : SMap SendRel} {su' su : SMap SendUnrel} (h : UnitsLe sr' su' sr su) :
    ∀ (ord : List (Bool × Nat)), ordUnits sr' su' ord ≤ ordUnits sr su ord
  | [] => Nat.le_refl _
  | (true, ch) :: r => by
    have := ordUnits_mono h r
    have := h.1 ch
    simp only [ordUnits, chanUnits]; omega
  | (false, ch) :: r => by
    have := ordUnits_mono h r
    have := h.2 ch
    simp only [ordUnits, chanUnits]; omega

/-- **the channel loop appends at most `ordUnits` packets, and the units of no channel grow** (no hypothesis) -/
theorem chanLoop_count (now : Nat) : ∀ (ord : List (Bool × Nat)) (sr : SMap SendRel) (su : SMap SendUnrel)
    (pk : List Packet) (seq avail : Nat) (sr' : SMap SendRel) (su' : SMap SendUnrel) (pk' : List Packet)
    (seq' avail' : Nat),
    Conn.chanLoop now ord (sr, su, pk, seq, avail) = .ok (sr', su', pk', seq', avail') →
    pk'.length ≤ pk.length + ordUnits sr su ord ∧ UnitsLe sr' su' sr su
  | [], sr, su, pk, seq, avail, sr', su', pk', seq', avail', h => by
    simp only [Conn.chanLoop, Res.ok.injEq, Prod.mk.injEq] at h
    obtain ⟨rfl, rfl, rfl, -, -⟩ := h
    exact ⟨Nat.le_add_right _ _, UnitsLe.refl _ _⟩
  | (true, ch0) :: rest, sr, su, pk, seq, avail, sr', su', pk', seq', avail', h => by
    rw [chanLoop_rel_step] at h
    split at h
    · cases h
    · rename_i s hs
      obtain ⟨i1, i2⟩ := chanLoop_count now rest _ _ _ _ _ _ _ _ _ _ h
      have hle : UnitsLe (SMap.insert sr ch0 (s.getPackets seq avail now).1) su sr su :=
        UnitsLe.insert_rel hs (Nat.le_of_eq (getPackets_rel_units s seq avail now))
      have h1 := getPackets_rel_count s seq avail now
      have h2 := ordUnits_mono hle rest
      refine ⟨?_, i2.trans hle⟩
      simp only [ordUnits, chanUnits, hs, optRel, List.length_append] at i1 ⊢
      omega
  | (false, ch0) :: rest, sr, su, pk, seq, avail, sr', su', pk', seq', avail', h => by
    rw [chanLoop_unrel_step] at h
    split at h
    · cases h
    · rename_i s hs
      obtain ⟨i1, i2⟩ := chanLoop_count now rest _ _ _ _ _ _ _ _ _ _ h
      obtain ⟨h1, h3⟩ := getPackets_unrel_count s seq avail
      have hle : UnitsLe sr (SMap.insert su ch0 (s.getPackets seq avail).1) sr su := UnitsLe.insert_unrel hs h3
      have h2 := ordUnits_mono hle rest
      refine ⟨?_, i2.trans hle⟩
      simp only [ordUnits, chanUnits, hs, optUnrel, List.length_append] at i1 ⊢
      omega

/-- **the sequence number after a flush**, ack packet included: `flushSeq ≤ packetSeq + units + 1`.  The only
    hypothesis is the send-side invariant (for `seq' = seq + |ps|`); NO counter hypothesis, no non-emptiness. -/
theorem flushSeq_le_units {c : Conn} (hinv : c.SendInv) : c.flushSeq ≤ c.packetSeq + c.units + 1 := by
  unfold Conn.flushSeq
  cases hl : Conn.chanLoop c.now c.order (c.sendRel, c.sendUnrel, [], c.packetSeq, c.budget) with
  | ok r =>
    obtain ⟨sr, su, pk0, seq0, avail⟩ := r
    obtain ⟨ps, hps, -, hseq, -, -⟩ := chanLoop_budget _ _ _ _ _ _ _ _ _ _ _ _ (relMapFit_of_inv hinv) hl
    obtain ⟨hcnt, -⟩ := chanLoop_count _ _ _ _ _ _ _ _ _ _ _ _ hl
    simp only [List.nil_append] at hps
    subst hps
    simp only [List.length_nil, Nat.zero_add] at hcnt
    dsimp only
    unfold Conn.units
    omega
  | err e => exact e.elim
  | panic m => exact Nat.zero_le _

/-- the packets of a flush: at most `units + 1` -/
theorem flushPk_length_le (c : Conn) : (flushPk c).length ≤ c.units + 1 := by
  unfold flushPk
  split
  · exact Nat.zero_le _
  · cases hl : Conn.chanLoop c.now c.order (c.sendRel, c.sendUnrel, [], c.packetSeq, c.budget) with
    | ok r =>
      obtain ⟨sr, su, pk0, seq0, avail⟩ := r
      obtain ⟨hcnt, -⟩ := chanLoop_count _ _ _ _ _ _ _ _ _ _ _ _ hl
      simp only [List.length_nil, Nat.zero_add] at hcnt
      dsimp only
      unfold Conn.units
      split
      · split
        · omega
        · simp only [List.length_append, List.length_cons, List.length_nil]; omega
      · exact Nat.zero_le _
    | err e => exact e.elim
    | panic m => exact Nat.zero_le _

/-! ## Part 2 — units do not grow (everything but `send_message`) -/

theorem kin_units : ∀ {a b : Unacked}, a.Kin b → entryUnits a = entryUnits b
  | .small .., .small .., _ => rfl
  | .sliced .., .sliced .., h => h.2
  | .small .., .sliced .., h => h.elim
  | .sliced .., .small .., h => h.elim

theorem mapUnits_append : ∀ (a b : SMap Unacked), mapUnits (a ++ b) = mapUnits a + mapUnits b
  | [], b => by simp
  | (k, u) :: a, b => by simp only [List.cons_append, mapUnits_cons, mapUnits_append a b]; omega

theorem mapUnits_le_of_embed : ∀ (l1 l2 : SMap Unacked), SI.Sorted l1 → SI.Sorted l2 →
    (∀ x ∈ l1, ∃ u0, (x.1, u0) ∈ l2 ∧ entryUnits x.2 ≤ entryUnits u0) → mapUnits l1 ≤ mapUnits l2
  | [], _, _, _, _ => Nat.zero_le _
  | (k, u) :: r1, l2, hs1, hs2, h => by
    obtain ⟨u0, hm, hc⟩ := h (k, u) (List.mem_cons_self ..)
    obtain ⟨a, b, rfl⟩ := List.append_of_mem hm
    obtain ⟨-, hsb, hab⟩ := sorted_append hs2
    rw [SI.sorted_cons] at hs1 hsb
    have ih := mapUnits_le_of_embed r1 b hs1.2 hsb.2 (by
      intro y hy
      obtain ⟨v0, hv, hcv⟩ := h y (List.mem_cons_of_mem _ hy)
      have hky := hs1.1 y hy
      refine ⟨v0, ?_, hcv⟩
      rcases List.mem_append.mp hv with e | e
      · have := hab _ e (k, u0) (List.mem_cons_self ..)
        dsimp only at this; omega
      · rcases List.mem_cons.mp e with e' | e'
        · have : y.1 = k := congrArg Prod.fst e'
          omega
        · exact e')
    rw [mapUnits_append]
    simp only [mapUnits_cons] at ih ⊢
    dsimp only at hc
    omega

/-- acknowledgements only release: the units of a reliable send channel do not grow -/
theorem ackMono_units {s s' : SendRel} (hi : s.Inv) (hi' : s'.Inv) (hm : AckMono s s') : relUnits s' ≤ relUnits s := by
  unfold relUnits
  have := mapUnits_le_of_embed s'.unacked s.unacked hi'.sorted hi.sorted (by
    intro x hx
    obtain ⟨u, hu, hk⟩ := hm.2.2 x.1 x.2 (SI.mem_find?_of_sorted hi'.sorted hx)
    exact ⟨u, SI.find?_some_mem hu, Nat.le_of_eq (kin_units hk).symm⟩)
  omega

theorem ackOne_order {c c' : Conn} {seq : Nat} (h : Conn.ackOne c seq = .ok c') : c'.order = c.order := by
  unfold Conn.ackOne at h
  split at h
  · cases h
  · next t info hf =>
    dsimp only at h
    split at h
    · next ch ids =>
      split at h
      · cases h
      · next s hs =>
        cases h1 : Conn.ackMsgLoop s ids with
        | ok s1 =>
          rw [h1] at h
          simp only [Res.bind_ok, Res.pure_eq, Res.ok.injEq] at h
          subst h; rfl
        | err e => exact e.elim
        | panic m => rw [h1] at h; cases h
    · next ch id idx =>
      split at h
      · cases h
      · next s hs =>
        cases h1 : s.processSliceAck id idx with
        | ok s1 =>
          rw [h1] at h
          simp only [Res.bind_ok, Res.pure_eq, Res.ok.injEq] at h
          subst h; rfl
        | err e => exact e.elim
        | panic m => rw [h1] at h; cases h
    · simp only [Res.ok.injEq] at h; subst h; rfl
    · simp only [Res.ok.injEq] at h; subst h; rfl

theorem ackOne_found {c c' : Conn} {seq : Nat} (h : Conn.ackOne c seq = .ok c') :
    ∃ t info, SMap.find? c.sent seq = some (t, info) := by
  cases hv : SMap.find? c.sent seq with
  | none => unfold Conn.ackOne at h; rw [hv] at h; cases h
  | some v => exact ⟨v.1, v.2, rfl⟩

theorem ackLoop_conn : ∀ (L : List Nat) (c c' : Conn), c.SendInv → Conn.ackLoop c L = .ok c' →
    c'.SendInv ∧ ConnAckMono c c' ∧ c'.order = c.order
  | [], c, c', hinv, h => by
    simp only [Conn.ackLoop, Res.ok.injEq] at h; subst h
    exact ⟨hinv, ConnAckMono.refl _, rfl⟩
  | seq :: rest, c, c', hinv, h => by
    simp only [Conn.ackLoop] at h
    cases h1 : Conn.ackOne c seq with
    | ok c1 =>
      rw [h1] at h
      simp only [Res.bind_ok] at h
      obtain ⟨t, info, hv⟩ := ackOne_found h1
      obtain ⟨i1, -, m1, -⟩ := ackOne_forward hinv hv h1
      obtain ⟨i2, m2, o2⟩ := ackLoop_conn rest c1 c' i1 h
      exact ⟨i2, m1.trans m2, o2.trans (ackOne_order h1)⟩
    | err e => exact e.elim
    | panic m => rw [h1] at h; cases h

theorem units_congr {c c' : Conn} (h1 : c'.sendRel = c.sendRel) (h2 : c'.sendUnrel = c.sendUnrel) (h3 : c'.order = c.order) :
    c'.units = c.units := by unfold Conn.units; rw [h1, h2, h3]

/-- `process_packet` does not raise the units of the send side -/
theorem packet_units {c c' : Conn} {bytes : Bytes} (hinv : c.SendInv) (h : c.processPacket bytes = .ok c') :
    c'.units ≤ c.units := by
  rcases SI.Conn.processPacket_cases h with ⟨hs1, -, -⟩ | ⟨p, -, -, hs1, -⟩ | ⟨aseq, ranges, L, -, -, -, hloop⟩
  · exact Nat.le_of_eq (units_congr hs1.1 hs1.2.1 hs1.2.2.2.2)
  · exact Nat.le_of_eq (units_congr hs1.1 hs1.2.1 hs1.2.2.2.2)
  · have hinv0 : ({ c with pendingAcks := Acks.add ACK_RANGE_CAP aseq c.pendingAcks } : Conn).SendInv :=
      ⟨hinv.chans, hinv.sentSorted, hinv.sentOK, hinv.order⟩
    obtain ⟨i2, m2, o2⟩ := ackLoop_conn L _ c' hinv0 hloop
    obtain ⟨a1, a2, -⟩ := ackLoop_same L _ c' hloop
    unfold Conn.units
    rw [o2]
    refine ordUnits_mono ⟨?_, ?_⟩ c.order
    · intro ch
      cases hf' : SMap.find? c'.sendRel ch with
      | none => exact Nat.zero_le _
      | some s' =>
        obtain ⟨s, hf, -, -⟩ := a1 ch s' hf'
        obtain ⟨s'', hf'', hm⟩ := m2 ch s hf
        rw [hf'] at hf''; cases hf''
        have hf0 : SMap.find? c.sendRel ch = some s := hf
        rw [hf0]
        exact ackMono_units (hinv.chans ch s hf0).1 (i2.chans ch s' hf').1 hm
    · intro ch
      rw [a2]
      exact Nat.le_refl _

/-- `get_packets_to_send` does not raise the units of the send side -/
theorem flush_units {c c' : Conn} {out : List Bytes} (h : c.getPacketsToSend = .ok (c', out)) : c'.units ≤ c.units := by
  cases hd : c.isDisconnected with
  | true =>
    unfold Conn.getPacketsToSend at h
    rw [hd] at h
    simp only [if_true, Res.ok.injEq, Prod.mk.injEq] at h
    obtain ⟨rfl, -⟩ := h
    exact Nat.le_refl _
  | false =>
    obtain ⟨sr, su, pk, seq, avail, hl, e1, -, -, -, -, e2, e3⟩ := CI.getPacketsToSend_shape hd h
    obtain ⟨-, a2⟩ := chanLoop_count _ _ _ _ _ _ _ _ _ _ _ _ hl
    unfold Conn.units
    rw [e1, e2, e3]
    exact ordUnits_mono a2 c.order

/-- what one operation other than `sendA` does to the units of A: nothing, or it lowers them -/
theorem units_step {cfg : Cfg} {s s' : Sys} {pk : List Packet} {op : SysOp} (h1 : Inv1 cfg s pk)
    (hs : s.step op = some s') (hop : ∀ ch m, op ≠ .sendA ch m) : s'.a.units ≤ s.a.units := by
  cases op with
  | sendA ch m => exact absurd rfl (hop ch m)
  | recvB ch =>
    simp only [Sys.step] at hs
    split at hs
    · cases hs; exact Nat.le_refl _
    · cases hs; exact Nat.le_refl _
    · cases hs
  | updA dt =>
    simp only [Sys.step] at hs
    split at hs
    · next a' hm =>
      cases hs
      obtain ⟨e1, e2, -, e4, -⟩ := SI.Conn.update_spec hm
      exact Nat.le_of_eq (units_congr e1 e2 e4)
    · cases hs
  | updB dt =>
    simp only [Sys.step] at hs
    split at hs
    · cases hs; exact Nat.le_refl _
    · cases hs
  | flushA =>
    simp only [Sys.step] at hs
    split at hs
    · next a' bs hm => cases hs; exact flush_units hm
    · cases hs
  | flushB =>
    simp only [Sys.step] at hs
    split at hs
    · cases hs; exact Nat.le_refl _
    · cases hs
  | deliverToB k =>
    simp only [Sys.step] at hs
    split at hs
    · cases hs
    · split at hs
      · cases hs; exact Nat.le_refl _
      · cases hs
  | deliverToA k =>
    simp only [Sys.step] at hs
    split at hs
    · cases hs
    · split at hs
      · next a' hm => cases hs; exact packet_units h1.invA.1 hm
      · cases hs

theorem units_run (cfg : Cfg) : ∀ (ops : List SysOp) (s s' : Sys) (pk : List Packet), Inv1 cfg s pk →
    s.run ops = some s' → (∀ op ∈ ops, ∀ ch m, op ≠ .sendA ch m) → s'.a.units ≤ s.a.units
  | [], s, s', _, _, h, _ => by
    simp only [Sys.run, Option.some.injEq] at h; subst h; exact Nat.le_refl _
  | op :: ops, s, s', pk, h1, h, hno => by
    simp only [Sys.run] at h
    cases hs : s.step op with
    | none => rw [hs] at h; cases h
    | some s1 =>
      rw [hs] at h
      have a := units_step h1 hs (hno op (List.mem_cons_self ..))
      have b := units_run cfg ops s1 s' _ (inv1_step h1 hs) h (fun o ho => hno o (List.mem_cons_of_mem _ ho))
      omega

/-! ## Part 3 — a non-empty due backlog that is offered `SLICE_SIZE` bytes emits a packet -/

theorem exists_unacked : ∀ (l : List Bool), l.count true < l.length → ∃ i, i < l.length ∧ l.getD i false = false
  | [], h => by simp at h
  | false :: r, _ => ⟨0, by simp, rfl⟩
  | true :: r, h => by
    simp only [List.count_cons_self, List.length_cons] at h
    obtain ⟨i, hi, hg⟩ := exists_unacked r (by omega)
    exact ⟨i + 1, by simp only [List.length_cons]; omega, by simpa using hg⟩

theorem slicedLoop_emits (ch id now resend : Nat) (msg : Bytes) (n start : Nat) (acked : List Bool) (hn : 0 < n) :
    ∀ (l : List Nat) (ls : List (Option Nat)) (next : Nat) (gp : GP), SLICE_SIZE ≤ gp.avail →
    (∀ i, i < n → acked.getD i false = false → smallDue now resend (ls.getD i none) = true) →
    (∃ i0 ∈ l, acked.getD ((start + i0) % n) false = false) →
    (slicedLoop ch id now resend msg n start acked l (ls, next, gp)).2.2.packets ≠ []
  | [], _, _, _, _, _, h => by obtain ⟨i0, hi0, -⟩ := h; cases hi0
  | i0 :: rest, ls, next, gp, hav, hdue, hw => by
    rw [slicedLoop_cons, if_neg (by omega)]
    cases ha : acked.getD ((start + i0) % n) false with
    | true =>
      simp only [true_or, ↓reduceIte]
      obtain ⟨j, hj, hjk⟩ := hw
      rcases List.mem_cons.mp hj with e | hj'
      · subst e; rw [ha] at hjk; cases hjk
      · exact slicedLoop_emits ch id now resend msg n start acked hn rest ls next gp hav hdue ⟨j, hj', hjk⟩
    | false =>
      have hd := hdue _ (Nat.mod_lt _ hn) ha
      rw [hd]
      simp only [Bool.false_eq_true]
      have hm := (slicedLoop_mono ch id now resend msg n start acked rest (ls.set ((start + i0) % n) (some now))
        ((start + i0) % n + 1 % n) (sliceStep ch id msg n ((start + i0) % n) gp)).1
        (Packet.reliableSlice gp.seq ch ⟨id, (start + i0) % n, n, sliceBytes msg n ((start + i0) % n)⟩)
        (by simp [sliceStep])
      exact List.ne_nil_of_mem hm

theorem finishRel_small (ch : Nat) (g : GP) : (finishRel ch g).small = [] := by
  unfold finishRel
  split
  · next h => exact List.isEmpty_iff.mp h
  · rfl

/-- **a reliable send channel with a non-empty, due backlog that is offered at least `SLICE_SIZE` bytes emits a packet** -/
theorem getPackets_ne_nil {s : SendRel} (hi : s.Inv) (hne : s.unacked ≠ []) {now : Nat}
    (hdue : AllDue now s.resend s.unacked) {avail : Nat} (hav : SLICE_SIZE ≤ avail) (seq : Nat) :
    (s.getPackets seq avail now).2.1 ≠ [] := by
  rw [SendRel.getPackets_eq]
  dsimp only
  cases hu : s.unacked with
  | nil => exact absurd hu hne
  | cons x rest =>
    obtain ⟨id, u⟩ := x
    have hmem : (id, u) ∈ s.unacked := by rw [hu]; exact List.mem_cons_self ..
    have hok := hi.entries _ hmem
    have hd := hdue _ hmem
    cases u with
    | small m ls =>
      have hlen : m.length ≤ SLICE_SIZE := hok
      have hin := relLoop_small_live s.ch now s.resend [] rest id m ls ⟨[], [], 0, seq, avail⟩ hd
        (by rw [relLoop_nil]; dsimp only; omega)
      rw [List.nil_append] at hin
      rw [← finishRel_msgs s.ch] at hin
      unfold GP.msgs at hin
      rw [finishRel_small, List.append_nil] at hin
      intro e
      rw [e] at hin
      simp at hin
    | sliced m n na nx ak ls =>
      obtain ⟨-, -, o3, -, o5, o6⟩ := hok
      obtain ⟨i, hil, hig⟩ := exists_unacked ak (by omega)
      have hn : 0 < n := by omega
      obtain ⟨i0, hi0, hi0e⟩ := exists_loop_index nx n i (by omega)
      have hem := slicedLoop_emits s.ch id now s.resend m n nx ak hn (List.range n) ls nx ⟨[], [], 0, seq, avail⟩ hav hd
        ⟨i0, List.mem_range.mpr hi0, by rw [hi0e]; exact hig⟩
      obtain ⟨p, hp⟩ := List.exists_mem_of_ne_nil _ hem
      rw [relLoop_sliced]
      dsimp only
      exact List.ne_nil_of_mem ((Mono_finishRel s.ch _).1 p ((relLoop_mono s.ch now s.resend rest _).1 p hp))

/-- **the flush of a live connection is non-empty** when a reliable channel in the channel order has a non-empty due
    backlog and at least `SLICE_SIZE` bytes of budget are left at its turn -/
theorem flushPk_ne_nil {c : Conn} (hinv : c.Inv) (hcnt : c.CountersOK) (hd : c.isDisconnected = false) {ch : Nat}
    {sA : SendRel} (hf : SMap.find? c.sendRel ch = some sA) (hord : (true, ch) ∈ c.order)
    (hne : sA.unacked ≠ []) (hdue : AllDue c.now sA.resend sA.unacked) (hav : SLICE_SIZE ≤ availAtTurn c ch) :
    flushPk c ≠ [] := by
  obtain ⟨c', bs, seq1, -, -, -, hcont⟩ := flush_contains hinv hcnt hd hf hord
  obtain ⟨p, hp⟩ := List.exists_mem_of_ne_nil _ (getPackets_ne_nil (hinv.send.chans ch sA hf).1 hne hdue hav seq1)
  exact List.ne_nil_of_mem (hcont p hp)

/-! ## Part 4 — schedule facts WITHOUT "the round hands B a datagram"; head-room in units -/

/-- the schedule facts of one round, seen from the state `su` A's flush starts from.  Differs from `TickSched2` in
    `nonempty0`: `r.ks ≠ []` is demanded ONLY when the round starts with an EMPTY backlog on channel `ch` (then A's flush
    need not emit anything, but `Rounds.back` still wants B to hold something to acknowledge); for a round that starts
    with a non-empty backlog it is derived (`flushPk_ne_nil`). -/
structure TickSched3 (ch : Nat) (Sched : Sys → Prop) (su : Sys) (r : RoundP) : Prop where
  sched : Sched su
  all : ∀ k ∈ newIdx su, k ∈ r.ks
  exact : ∀ k ∈ r.ks, k ∈ newIdx su
  nonempty0 : (∀ sA, SMap.find? su.a.sendRel ch = some sA → sA.unacked = []) → r.ks ≠ []
  back : ∀ u, su.run (roundOps ch r.ks r.n) = some u → r.ai = ackIdx u

structure RoundSched3 (ch : Nat) (Sched : Sys → Prop) (s : Sys) (r : RoundP) : Prop where
  timer : ∀ sA, SMap.find? s.a.sendRel ch = some sA → sA.resend ≤ r.dt
  drain : (s.submitted ch).length ≤ (s.obtained ch).length + r.n
  tick : ∀ su, s.step (.updA r.dt) = some su → TickSched3 ch Sched su r

def RoundsSched3 (ch : Nat) (Sched : Sys → Prop) : Sys → List RoundP → Prop
  | _, [] => True
  | s, r :: rs => RoundSched3 ch Sched s r ∧ ∀ v, s.run (r.ops ch) = some v → RoundsSched3 ch Sched v rs

/-- head-room on the initial state; differs from `HeadRoom2` in `seqA`: `units + 1` sequence numbers per round, where
    `units` is read off the INITIAL state (instead of one per datagram the schedule hands over, plus one per round) -/
structure HeadRoom3 (cfg : Cfg) (s : Sys) (rs : List RoundP) : Prop where
  sys : CountersOK cfg s
  staticA : StaticOK s.a
  staticB : StaticOK s.b
  seqA : s.a.packetSeq + rs.length * (s.a.units + 1) ≤ Varint.MAX + 1
  seqB : s.b.packetSeq + rs.length ≤ Varint.MAX + 1
  acks : s.b.pendingAcks.length + kTotal rs < ACK_RANGE_CAP

theorem roundP_ops_nosend (ch : Nat) (r : RoundP) : ∀ op ∈ r.ops ch, ∀ c m, op ≠ .sendA c m := by
  intro op hop c m e
  subst e
  simp [RoundP.ops, fullRoundOps, roundOps] at hop

/-- **A's counters and the non-emptiness of its flush, for one round** — the step that breaks the circle of note (C):
    `su.a.CountersOK` from the unit bound (no non-emptiness needed), then the flush is non-empty. -/
theorem tick_facts (cfg : Cfg) (ch : Nat) (ops : List SysOp) (s : Sys) (hr : (Sys.init cfg).run ops = some s)
    (hda : s.a.isDisconnected = false) (sA : SendRel) (hfA : SMap.find? s.a.sendRel ch = some sA)
    (dt : Nat) (hdt : sA.resend ≤ dt) (su : Sys) (hsu : s.step (.updA dt) = some su)
    (hst : StaticOK s.a) (hseq : s.a.packetSeq + s.a.units + 1 ≤ Varint.MAX + 1) :
    su.a.CountersOK ∧ su.a.units ≤ s.a.units ∧ su.a.flushSeq ≤ s.a.packetSeq + s.a.units + 1 ∧
    (sA.unacked ≠ [] → SLICE_SIZE ≤ availAtTurn su.a ch → flushPk su.a ≠ []) := by
  obtain ⟨pk, h1, -⟩ := system_inv cfg ops s hr
  have hrsu := run_snoc hr hsu
  obtain ⟨pku, h1u, -⟩ := system_inv cfg _ su hrsu
  obtain ⟨-, -, e3, e4, -⟩ := updA_frame hsu
  have hun := units_step h1 hsu (by intro c m e; cases e)
  have hfs := flushSeq_le_units h1u.invA.1
  have hcA : su.a.CountersOK :=
    countersOK_of_static ((step_frame h1 hsu (by intro c m e; cases e)).1 hst) (by omega)
  refine ⟨hcA, hun, by omega, ?_⟩
  intro hne hav
  obtain ⟨hfu, hdue⟩ := due_after_update cfg ops s hr ch sA hfA dt hdt su hsu
  exact flushPk_ne_nil (reach_conn h1u.reachA).1 hcA (by rw [e3]; exact hda) hfu (order_mem h1u.reachA hfu) hne hdue hav

theorem ks_ne_of_flush {su : Sys} {ks : List Nat} (hall : ∀ k ∈ newIdx su, k ∈ ks) (hne : flushPk su.a ≠ []) : ks ≠ [] := by
  have hk : su.outA.length ∈ newIdx su := by
    unfold newIdx
    rw [List.mem_range'_1]
    have : 0 < (flushPk su.a).length := List.length_pos_iff.mpr hne
    omega
  exact List.ne_nil_of_mem (hall _ hk)

/-- **Closing the side conditions, third step**: as `rounds_of_sched2`, but `r.ks ≠ []` is derived for every round that
    starts with a non-empty backlog (`hS`: the scheduling hypothesis yields H4 and `SLICE_SIZE` bytes at the channel's
    turn), and A's head-room is `packetSeq + k * (units + 1) ≤ 2^62` on the initial state. -/
theorem rounds_of_sched3 (cfg : Cfg) (ch : Nat) (ord : Bool) (ho : KindOf cfg ch ord) (Sched : Sys → Prop)
    (hS : ∀ ops' su, (Sys.init cfg).run ops' = some su → Sched su →
      (∀ p ∈ flushPk su.a, OnlyCh ch p) ∧ SLICE_SIZE ≤ availAtTurn su.a ch) :
    ∀ (rs : List RoundP) (ops : List SysOp) (s : Sys) (sA : SendRel) (rB : RecvRel),
      (Sys.init cfg).run ops = some s → s.a.isDisconnected = false → s.b.isDisconnected = false →
      SMap.find? s.a.sendRel ch = some sA → SMap.find? s.b.recvRel ch = some rB → Room (s.submitted ch) rB →
      RoundsSched3 ch Sched s rs → HeadRoom3 cfg s rs → Rounds cfg ch Sched s rs
  | [], _, _, _, _, _, _, _, _, _, _, _, _ => trivial
  | r :: rs, ops, s, sA, rB, hr, hda, hdb, hfA, hfB, H3, hRS, hH => by
    obtain ⟨hsch, hnext⟩ := hRS
    obtain ⟨pk, h1, -⟩ := system_inv cfg ops s hr
    obtain ⟨su, hsu⟩ := updA_step h1 r.dt
    have tk := hsch.tick su hsu
    obtain ⟨-, e2, e3, e4, e5, e6, e7, -, -⟩ := updA_frame hsu
    have hrsu := run_snoc hr hsu
    obtain ⟨pku, h1u, -⟩ := system_inv cfg _ su hrsu
    have hkT : kTotal (r :: rs) = r.ks.length + kTotal rs := rfl
    have hseqA := hH.seqA
    have hseqB := hH.seqB
    have hacks := hH.acks
    rw [hkT] at hacks
    simp only [List.length_cons] at hseqA hseqB
    rw [Nat.succ_mul] at hseqA
    generalize hX : rs.length * (s.a.units + 1) = X at hseqA
    -- A's flush: counters from the unit bound, then non-empty
    obtain ⟨H4, hav⟩ := hS _ su hrsu tk.sched
    obtain ⟨hcA, hunu, hfs, hne⟩ := tick_facts cfg ch ops s hr hda sA hfA r.dt (hsch.timer sA hfA) su hsu hH.staticA (by omega)
    have hfu : SMap.find? su.a.sendRel ch = some sA := by rw [e2]; exact hfA
    have hks : r.ks ≠ [] := by
      by_cases hemp : sA.unacked = []
      · exact tk.nonempty0 (fun sA' hf' => by rw [hfu] at hf'; cases hf'; exact hemp)
      · exact ks_ne_of_flush tk.all (hne hemp hav)
    obtain ⟨p0, hp0⟩ := flushPk_ne_of_ks hks tk.exact
    have hc : CountersOK cfg su := countersOK_congr e4 e6 e7 hH.sys
    have hcap : su.b.pendingAcks.length + r.ks.length < ACK_RANGE_CAP := by rw [e5]; omega
    have hdau : su.a.isDisconnected = false := by rw [e3]; exact hda
    -- the way back
    have hback : ∀ u, su.run (roundOps ch r.ks r.n) = some u →
        u.b.CountersOK ∧ u.b.pendingAcks ≠ [] ∧ r.ai = ackIdx u ∧ u.b.flushSeq ≤ s.b.packetSeq + 1 ∧
        u.b.pendingAcks.length ≤ s.b.pendingAcks.length + r.ks.length := by
      intro u hu
      obtain ⟨hlu, -, -, -⟩ := round_facts cfg _ su hrsu hc hcA hdau (by rw [e5]; exact hdb) ch sA hfu rB
        (by rw [e5]; exact hfB) (by rw [e6]; exact H3) H4 r.ks tk.exact r.n u hu
      obtain ⟨hmem, hlenu⟩ := round_pending cfg _ su hrsu hc hcA hdau ch sA hfu r.ks tk.all r.n u hu hlu hcap
      obtain ⟨hbs, -, hstB, -⟩ := round_headroom cfg ops s hr r.dt su hsu ch r.ks r.n u hu
      have hai := tk.back u hu
      have hru : (Sys.init cfg).run ((ops ++ [SysOp.updA r.dt]) ++ roundOps ch r.ks r.n) = some u := by
        rw [Sys.run_append, hrsu]; exact hu
      have hfsB := flushSeq_idle (idleB_reach cfg _ u hru)
      rw [e5] at hlenu
      exact ⟨countersOK_of_static (hstB hH.staticB) (by omega), mem_ne_nil (hmem p0 hp0), hai, by omega, hlenu⟩
    have hok : RoundOK cfg ch Sched s r := by
      refine ⟨hsch.timer, hsch.drain, ?_⟩
      intro su' hsu'
      have e := Option.some.inj (hsu'.symm.trans hsu)
      subst e
      exact ⟨hc, hcA, tk.sched, tk.all, tk.exact, hcap, fun u hu => ⟨(hback u hu).1, (hback u hu).2.1, (hback u hu).2.2.1⟩⟩
    refine ⟨hok, ?_⟩
    intro v hv
    -- the state after the round
    obtain ⟨v', hv', hlva, hlvb, hsub, -, -, ⟨rB', hfB', H3'⟩, ⟨sA', hfA', -⟩, -⟩ :=
      full_round cfg ops s hr hda hdb ch ord ho sA hfA rB hfB H3 r.dt (hsch.timer sA hfA) su hsu hc hcA 0
        (by simp only [List.take_zero, backlog_nil]; exact Nat.zero_le _) H4 r.ks tk.all tk.exact r.n hsch.drain hcap r.ai
        (fun u hu => ⟨(hback u hu).1, (hback u hu).2.1, (hback u hu).2.2.1⟩)
    have e := Option.some.inj (hv'.symm.trans hv)
    subst e
    have hrv : (Sys.init cfg).run (ops ++ r.ops ch) = some v' := by rw [Sys.run_append, hr]; exact hv
    refine rounds_of_sched3 cfg ch ord ho Sched hS rs _ v' sA' rB' hrv hlva hlvb hfA' hfB' (by rw [hsub]; exact H3')
      (hnext v' hv) ?_
    -- head-room for the next round
    have hunv := units_run cfg (r.ops ch) s v' _ h1 hv (roundP_ops_nosend ch r)
    have hmul : rs.length * (v'.a.units + 1) ≤ X := by
      rw [← hX]; exact Nat.mul_le_mul_left _ (by omega)
    have hv2 := hv
    simp only [RoundP.ops, fullRoundOps, Sys.run, hsu] at hv2
    rw [Sys.run_append] at hv2
    cases hu : su.run (roundOps ch r.ks r.n) with
    | none => rw [hu] at hv2; cases hv2
    | some u =>
      rw [hu] at hv2
      simp only [Option.bind_some] at hv2
      obtain ⟨hcB, -, -, hfB2, hlenu⟩ := hback u hu
      obtain ⟨-, -, -, hrest⟩ := round_headroom cfg ops s hr r.dt su hsu ch r.ks r.n u hu
      obtain ⟨x1, x2, x3, x4, x5, x6, x7⟩ := hrest r.ai v' hv2 hcA hcB
      have hva : v'.a.packetSeq ≤ Varint.MAX + 1 := by omega
      exact ⟨⟨hH.sys.chan, hva, by rw [x6]; exact hH.sys.ids, by rw [x6]; exact hH.sys.lens,
          by rw [x7]; exact hH.sys.lensU⟩, x4 hH.staticA, x5 hH.staticB, by omega, by omega, by rw [x3]; omega⟩

/-! ### executable checkers -/

def headRoom3b (cfg : Cfg) (s : Sys) (rs : List RoundP) : Bool :=
  countersSysb cfg s && staticb s.a && staticb s.b &&
  decide (s.a.packetSeq + rs.length * (s.a.units + 1) ≤ Varint.MAX + 1) &&
  decide (s.b.packetSeq + rs.length ≤ Varint.MAX + 1) &&
  decide (s.b.pendingAcks.length + kTotal rs < ACK_RANGE_CAP)

theorem headRoom3_of_b {cfg : Cfg} {s : Sys} {rs : List RoundP} (h : headRoom3b cfg s rs = true) : HeadRoom3 cfg s rs := by
  simp only [headRoom3b, Bool.and_eq_true, decide_eq_true_eq] at h
  obtain ⟨⟨⟨⟨⟨h1, h2⟩, h3⟩, h4⟩, h5⟩, h6⟩ := h
  exact ⟨countersSys_of_b h1, static_of_b h2, static_of_b h3, h4, h5, h6⟩

/-- the checker asks for `r.ks ≠ []` only when channel `ch` stores nothing in `su` (round starting with an empty backlog) -/
def tickSched3b (ch : Nat) (schedb : Sys → Bool) (su : Sys) (r : RoundP) : Bool :=
  schedb su && decide (∀ k ∈ newIdx su, k ∈ r.ks) && decide (∀ k ∈ r.ks, k ∈ newIdx su) &&
  (match SMap.find? su.a.sendRel ch with
   | some sA => !sA.unacked.isEmpty || !r.ks.isEmpty
   | none => !r.ks.isEmpty) &&
  (match su.run (roundOps ch r.ks r.n) with
   | some u => decide (r.ai = ackIdx u)
   | none => true)

def roundSched3b (ch : Nat) (schedb : Sys → Bool) (s : Sys) (r : RoundP) : Bool :=
  (match SMap.find? s.a.sendRel ch with
   | some sA => decide (sA.resend ≤ r.dt)
   | none => true) &&
  decide ((s.submitted ch).length ≤ (s.obtained ch).length + r.n) &&
  (match s.step (.updA r.dt) with
   | some su => tickSched3b ch schedb su r
   | none => true)

def roundsSched3b (ch : Nat) (schedb : Sys → Bool) : Sys → List RoundP → Bool
  | _, [] => true
  | s, r :: rs => roundSched3b ch schedb s r &&
    (match s.run (r.ops ch) with
     | some v => roundsSched3b ch schedb v rs
     | none => true)

theorem tickSched3_of_b {ch : Nat} {Sched : Sys → Prop} {schedb : Sys → Bool}
    (hS : ∀ su, schedb su = true → Sched su) {su : Sys} {r : RoundP} (h : tickSched3b ch schedb su r = true) :
    TickSched3 ch Sched su r := by
  simp only [tickSched3b, Bool.and_eq_true, decide_eq_true_eq] at h
  obtain ⟨⟨⟨⟨h1, h2⟩, h3⟩, h4⟩, h5⟩ := h
  refine ⟨hS su h1, h2, h3, ?_, ?_⟩
  · intro hall
    cases hf : SMap.find? su.a.sendRel ch with
    | none =>
      rw [hf] at h4
      dsimp only at h4
      intro e; rw [e] at h4; cases h4
    | some sA =>
      rw [hf] at h4
      dsimp only at h4
      rw [hall sA hf] at h4
      intro e; rw [e] at h4; cases h4
  · intro u hu
    rw [hu] at h5
    simpa using h5

theorem roundSched3_of_b {ch : Nat} {Sched : Sys → Prop} {schedb : Sys → Bool}
    (hS : ∀ su, schedb su = true → Sched su) {s : Sys} {r : RoundP} (h : roundSched3b ch schedb s r = true) :
    RoundSched3 ch Sched s r := by
  simp only [roundSched3b, Bool.and_eq_true, decide_eq_true_eq] at h
  obtain ⟨⟨h1, h2⟩, h3⟩ := h
  refine ⟨?_, h2, ?_⟩
  · intro sA hf
    rw [hf] at h1
    simpa using h1
  · intro su hsu
    rw [hsu] at h3
    exact tickSched3_of_b hS h3

theorem roundsSched3_of_b {ch : Nat} {Sched : Sys → Prop} {schedb : Sys → Bool}
    (hS : ∀ su, schedb su = true → Sched su) : ∀ (rs : List RoundP) (s : Sys), roundsSched3b ch schedb s rs = true →
    RoundsSched3 ch Sched s rs
  | [], _, _ => trivial
  | r :: rs, s, h => by
    simp only [roundsSched3b, Bool.and_eq_true] at h
    refine ⟨roundSched3_of_b hS h.1, ?_⟩
    intro v hv
    have h2 := h.2
    rw [hv] at h2
    exact roundsSched3_of_b hS rs v h2

/-- the second-step predicate is a special case: `RoundsSched2` (with `r.ks ≠ []` in every round) gives `RoundsSched3` -/
theorem roundsSched3_of_roundsSched2 {ch : Nat} {Sched : Sys → Prop} : ∀ (rs : List RoundP) (s : Sys),
    RoundsSched2 ch Sched s rs → RoundsSched3 ch Sched s rs
  | [], _, _ => trivial
  | r :: rs, s, h => by
    refine ⟨⟨h.1.timer, h.1.drain, fun su hsu => ?_⟩, fun v hv => roundsSched3_of_roundsSched2 rs v (h.2 v hv)⟩
    have tk := h.1.tick su hsu
    exact ⟨tk.sched, tk.all, tk.exact, fun _ => tk.nonempty, tk.back⟩

/-! ### one round that starts with a non-empty backlog: no clause about `r.ks` at all -/

structure TickSched0 (ch : Nat) (Sched : Sys → Prop) (su : Sys) (r : RoundP) : Prop where
  sched : Sched su
  all : ∀ k ∈ newIdx su, k ∈ r.ks
  exact : ∀ k ∈ r.ks, k ∈ newIdx su
  back : ∀ u, su.run (roundOps ch r.ks r.n) = some u → r.ai = ackIdx u

structure RoundSched0 (ch : Nat) (Sched : Sys → Prop) (s : Sys) (r : RoundP) : Prop where
  timer : ∀ sA, SMap.find? s.a.sendRel ch = some sA → sA.resend ≤ r.dt
  drain : (s.submitted ch).length ≤ (s.obtained ch).length + r.n
  tick : ∀ su, s.step (.updA r.dt) = some su → TickSched0 ch Sched su r

theorem roundsSched3_one {ch : Nat} {Sched : Sys → Prop} {s : Sys} {r : RoundP} (h : RoundSched0 ch Sched s r)
    {sA : SendRel} (hfA : SMap.find? s.a.sendRel ch = some sA) (hne : sA.unacked ≠ []) : RoundsSched3 ch Sched s [r] := by
  refine ⟨⟨h.timer, h.drain, fun su hsu => ?_⟩, fun _ _ => trivial⟩
  have tk := h.tick su hsu
  obtain ⟨-, e2, -⟩ := updA_frame hsu
  exact ⟨tk.sched, tk.all, tk.exact, fun hall => absurd (hall sA (by rw [e2]; exact hfA)) hne, tk.back⟩

def roundSched0b (ch : Nat) (schedb : Sys → Bool) (s : Sys) (r : RoundP) : Bool :=
  (match SMap.find? s.a.sendRel ch with
   | some sA => decide (sA.resend ≤ r.dt)
   | none => true) &&
  decide ((s.submitted ch).length ≤ (s.obtained ch).length + r.n) &&
  (match s.step (.updA r.dt) with
   | some su => schedb su && decide (∀ k ∈ newIdx su, k ∈ r.ks) && decide (∀ k ∈ r.ks, k ∈ newIdx su) &&
      (match su.run (roundOps ch r.ks r.n) with
       | some u => decide (r.ai = ackIdx u)
       | none => true)
   | none => true)

theorem roundSched0_of_b {ch : Nat} {Sched : Sys → Prop} {schedb : Sys → Bool}
    (hS : ∀ su, schedb su = true → Sched su) {s : Sys} {r : RoundP} (h : roundSched0b ch schedb s r = true) :
    RoundSched0 ch Sched s r := by
  simp only [roundSched0b, Bool.and_eq_true, decide_eq_true_eq] at h
  obtain ⟨⟨h1, h2⟩, h3⟩ := h
  refine ⟨?_, h2, ?_⟩
  · intro sA hf
    rw [hf] at h1
    simpa using h1
  · intro su hsu
    rw [hsu] at h3
    simp only [Bool.and_eq_true, decide_eq_true_eq] at h3
    obtain ⟨⟨⟨a1, a2⟩, a3⟩, a4⟩ := h3
    refine ⟨hS su a1, a2, a3, ?_⟩
    intro u hu
    rw [hu] at a4
    simpa using a4

end RenetVerif.FlushCount
