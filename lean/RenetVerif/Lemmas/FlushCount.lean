/-
  HOW MANY PACKETS ONE FLUSH EMITS — helper lemmas for Props/C01KD.lean (item (C) of Props/C01KC.lean).

  `chanLoop_budget` gives `seq' = seq + |ps|` for the channel loop of `get_packets_to_send`, but no bound on `|ps|`
  (the byte budget does not bound it: empty messages are free).  Here:

  Part 1  UNITS.  `entryUnits` (a stored small message: 1; a stored sliced message: its number of slices `n` — an
          upper bound of the un-acknowledged ones), `relUnits s = Σ entryUnits + 1` (the `+ 1`: the small-message
          accumulator is flushed once more at the end, and the FIRST small message can flush an EMPTY accumulator
          when its serialised size alone exceeds `SLICE_SIZE`), `unrelUnits s = Σ over the queue (slices of a sliced
          message, 1 for a small one) + 1`, `Conn.units c = Σ over c.order` of the units of the channel found there.
          `chanLoop_count`: the channel loop appends at most `ordUnits order sr su` packets — NO hypothesis.
          `flushSeq_le_units`: `c.flushSeq ≤ c.packetSeq + c.units + 1` from `c.SendInv` alone (no counter hypothesis).
  Part 2  units do not grow: `process_packet` (ack loop), `update`, `get_packets_to_send` (`UnitsLe`), and at system
          level every operation other than `sendA` (`units_step`, `units_run`).
  Part 3  a reliable channel with a non-empty due backlog that is offered `SLICE_SIZE` bytes emits a packet
          (`getPackets_ne_nil`), hence the flush of the connection is non-empty (`flushPk_ne_nil`).
  Part 4  `TickSched3` / `RoundsSched3` (schedule facts; `r.ks ≠ []` demanded ONLY for a round that starts with an
          EMPTY backlog), `HeadRoom3` (`packetSeq + k * (units + 1) ≤ 2^62`), `rounds_of_sched3`.
-/
import RenetVerif.Lemmas.LivenessKClosed2
namespace RenetVerif.FlushCount
open RenetVerif C RenetVerif.System RenetVerif.DataPath RenetVerif.Live RenetVerif.LiveK RenetVerif.LiveKC

/-! ## Part 1 — units, and the number of packets of one flush -/

/-- packets one stored entry can cause in one flush: a small message at most one flush of the accumulator, a sliced
    message at most one packet per slice -/
def entryUnits : Unacked → Nat
  | .small .. => 1
  | .sliced _ n .. => n

def mapUnits : SMap Unacked → Nat
  | [] => 0
  | (_, u) :: r => entryUnits u + mapUnits r

@[simp] theorem mapUnits_nil : mapUnits [] = 0 := rfl
@[simp] theorem mapUnits_cons (k : Nat) (u : Unacked) (r : SMap Unacked) :
    mapUnits ((k, u) :: r) = entryUnits u + mapUnits r := rfl

/-- units of a reliable send channel -/
def relUnits (s : SendRel) : Nat := mapUnits s.unacked + 1

/-- packets one queued unreliable message can cause: its slices, or one flush of the accumulator -/
def msgUnits (m : Bytes) : Nat := if m.length > SLICE_SIZE then divCeil m.length SLICE_SIZE else 1

def queueUnits : List Bytes → Nat
  | [] => 0
  | m :: r => msgUnits m + queueUnits r

/-- units of an unreliable send channel -/
def unrelUnits (s : SendUnrel) : Nat := queueUnits s.queue + 1

def optRel (o : Option SendRel) : Nat := match o with | some s => relUnits s | none => 0
def optUnrel (o : Option SendUnrel) : Nat := match o with | some s => unrelUnits s | none => 0

/-- units of the channel served at one position of the channel order -/
def chanUnits (sr : SMap SendRel) (su : SMap SendUnrel) : Bool × Nat → Nat
  | (true, ch) => optRel (SMap.find? sr ch)
  | (false, ch) => optUnrel (SMap.find? su ch)

def ordUnits (sr : SMap SendRel) (su : SMap SendUnrel) : List (Bool × Nat) → Nat
  | [] => 0
  | x :: r => chanUnits sr su x + ordUnits sr su r

/-- **units of a connection**: over the channel order, stored small messages + slices of stored sliced messages + 1
    per reliable channel, queued unreliable messages (slices for a sliced one) + 1 per unreliable channel -/
def _root_.RenetVerif.Conn.units (c : Conn) : Nat := ordUnits c.sendRel c.sendUnrel c.order

/-! ### the slice loop and the reliable loop -/

theorem slicedLoop_count (ch id now resend : Nat) (msg : Bytes) (n start : Nat) (acked : List Bool) :
    ∀ (l : List Nat) (ls : List (Option Nat)) (next : Nat) (gp : GP),
    (slicedLoop ch id now resend msg n start acked l (ls, next, gp)).2.2.packets.length ≤ gp.packets.length + l.length ∧
    (slicedLoop ch id now resend msg n start acked l (ls, next, gp)).2.2.small = gp.small
  | [], ls, next, gp => by rw [slicedLoop_nil]; exact ⟨Nat.le_add_right _ _, rfl⟩
  | i0 :: rest, ls, next, gp => by
    rw [slicedLoop_cons]
    simp only [List.length_cons]
    split
    · exact ⟨Nat.le_add_right _ _, rfl⟩
    · split
      · obtain ⟨h1, h2⟩ := slicedLoop_count ch id now resend msg n start acked rest ls next gp
        exact ⟨by omega, h2⟩
      · obtain ⟨h1, h2⟩ := slicedLoop_count ch id now resend msg n start acked rest
          (ls.set ((start + i0) % n) (some now)) ((start + i0) % n + 1 % n) (sliceStep ch id msg n ((start + i0) % n) gp)
        have e1 : (sliceStep ch id msg n ((start + i0) % n) gp).packets.length = gp.packets.length + 1 := by
          simp [sliceStep]
        have e2 : (sliceStep ch id msg n ((start + i0) % n) gp).small = gp.small := rfl
        rw [e1] at h1
        rw [e2] at h2
        exact ⟨by omega, h2⟩

/-- 1 when the accumulator holds something (it will be flushed), else 0 -/
def pend (l : List (Nat × Bytes)) : Nat := if l.isEmpty then 0 else 1

theorem pend_le (l : List (Nat × Bytes)) : pend l ≤ 1 := by unfold pend; split <;> omega

theorem relLoop_count (ch now resend : Nat) : ∀ (un : SMap Unacked) (gp : GP),
    (relLoop ch now resend un gp).2.packets.length + pend (relLoop ch now resend un gp).2.small ≤
      gp.packets.length + 1 + mapUnits un
  | [], gp => by
    rw [relLoop_nil]
    have := pend_le gp.small
    simp only [mapUnits_nil]; omega
  | (id, .small m ls) :: rest, gp => by
    rw [relLoop_small]
    simp only [mapUnits_cons, entryUnits]
    split
    · have := relLoop_count ch now resend rest gp
      dsimp only; omega
    · have := relLoop_count ch now resend rest (takeSmall ch id m gp)
      dsimp only
      rcases packets_takeSmall ch id m gp with e | e <;> rw [e] at this
      · omega
      · simp only [List.length_append, List.length_cons, List.length_nil] at this; omega
  | (id, .sliced m n na nx ak ls) :: rest, gp => by
    rw [relLoop_sliced]
    simp only [mapUnits_cons, entryUnits]
    have h1 := (slicedLoop_count ch id now resend m n nx ak (List.range n) ls nx gp).1
    rw [List.length_range] at h1
    have := relLoop_count ch now resend rest (slicedLoop ch id now resend m n nx ak (List.range n) (ls, nx, gp)).2.2
    omega

theorem finishRel_count (ch : Nat) (g : GP) : (finishRel ch g).packets.length = g.packets.length + pend g.small := by
  unfold finishRel pend
  split
  · rfl
  · simp [flushSmall]

/-- **one flush of a reliable send channel emits at most `relUnits` packets** (no hypothesis) -/
theorem getPackets_rel_count (s : SendRel) (seq avail now : Nat) :
    (s.getPackets seq avail now).2.1.length ≤ relUnits s := by
  rw [SendRel.getPackets_eq]
  dsimp only
  rw [finishRel_count]
  have := relLoop_count s.ch now s.resend s.unacked ⟨[], [], 0, seq, avail⟩
  simp only [List.length_nil] at this
  unfold relUnits; omega

/-- the loop rewrites time stamps and cursors only: the units of the stored entries are unchanged -/
theorem relLoop_units (ch now resend : Nat) : ∀ (un : SMap Unacked) (gp : GP),
    mapUnits (relLoop ch now resend un gp).1 = mapUnits un
  | [], gp => by rw [relLoop_nil]
  | (id, .small m ls) :: rest, gp => by
    rw [relLoop_small]
    split
    · simp only [mapUnits_cons, entryUnits, relLoop_units ch now resend rest gp]
    · simp only [mapUnits_cons, entryUnits, relLoop_units ch now resend rest (takeSmall ch id m gp)]
  | (id, .sliced m n na nx ak ls) :: rest, gp => by
    rw [relLoop_sliced]
    simp only [mapUnits_cons, entryUnits, relLoop_units ch now resend rest _]

theorem getPackets_rel_units (s : SendRel) (seq avail now : Nat) :
    relUnits (s.getPackets seq avail now).1 = relUnits s := by
  rw [SendRel.getPackets_eq]
  unfold relUnits
  dsimp only
  rw [relLoop_units]

/-! ### the unreliable loop -/

def pendU (l : List Bytes) : Nat := if l.isEmpty then 0 else 1

theorem pendU_le (l : List Bytes) : pendU l ≤ 1 := by unfold pendU; split <;> omega

theorem unrelLoop_count (ch : Nat) : ∀ (q : List Bytes) (g : GPU),
    (unrelLoop ch q g).packets.length + pendU (unrelLoop ch q g).small ≤ g.packets.length + 1 + queueUnits q
  | [], g => by
    have := pendU_le g.small
    simp only [unrelLoop, queueUnits]; omega
  | m :: rest, g => by
    rw [unrelLoop_cons]
    simp only [queueUnits, msgUnits]
    split
    · have := unrelLoop_count ch rest (unrelDrop m g)
      have e : (unrelDrop m g).packets = g.packets := rfl
      rw [e] at this
      split <;> omega
    · split
      · next h2 =>
        have := unrelLoop_count ch rest (unrelSliced ch m g)
        have e : (unrelSliced ch m g).packets.length = g.packets.length + divCeil m.length SLICE_SIZE := by
          simp only [unrelSliced, List.length_append, unrelSlices_length, List.length_range]
        rw [e] at this
        omega
      · next h2 =>
        have := unrelLoop_count ch rest (unrelSmall ch m g)
        have e : (unrelSmall ch m g).packets.length ≤ g.packets.length + 1 := by
          unfold unrelSmall
          split
          · simp [pushUnrel, flushUnrel, chargeU]
          · simp [pushUnrel, chargeU]
        omega

theorem finishUnrel_count (ch : Nat) (g : GPU) : (finishUnrel ch g).packets.length = g.packets.length + pendU g.small := by
  unfold finishUnrel pendU
  split
  · rfl
  · simp

/-- **one flush of an unreliable send channel emits at most `unrelUnits` packets**, and leaves an empty queue -/
theorem getPackets_unrel_count (s : SendUnrel) (seq avail : Nat) :
    (s.getPackets seq avail).2.1.length ≤ unrelUnits s ∧ unrelUnits (s.getPackets seq avail).1 ≤ unrelUnits s := by
  rw [SendUnrel.getPackets_eq]
  dsimp only
  rw [finishUnrel_count]
  have := unrelLoop_count s.ch s.queue ⟨[], [], 0, seq, avail, s.slicedId, s.mem⟩
  simp only [List.length_nil] at this
  unfold unrelUnits
  dsimp only [queueUnits]
  omega

/-! ### the channel loop -/

/-- pointwise comparison of the units of two pairs of channel maps -/
def UnitsLe (sr' : SMap SendRel) (su' : SMap SendUnrel) (sr : SMap SendRel) (su : SMap SendUnrel) : Prop :=
  (∀ ch, optRel (SMap.find? sr' ch) ≤ optRel (SMap.find? sr ch)) ∧
  (∀ ch, optUnrel (SMap.find? su' ch) ≤ optUnrel (SMap.find? su ch))

theorem UnitsLe.refl (sr : SMap SendRel) (su : SMap SendUnrel) : UnitsLe sr su sr su :=
  ⟨fun _ => Nat.le_refl _, fun _ => Nat.le_refl _⟩

theorem UnitsLe.trans {a1 b1 c1 : SMap SendRel} {a2 b2 c2 : SMap SendUnrel} (h1 : UnitsLe a1 a2 b1 b2)
    (h2 : UnitsLe b1 b2 c1 c2) : UnitsLe a1 a2 c1 c2 :=
  ⟨fun ch => Nat.le_trans (h1.1 ch) (h2.1 ch), fun ch => Nat.le_trans (h1.2 ch) (h2.2 ch)⟩

theorem UnitsLe.insert_rel {sr : SMap SendRel} {su : SMap SendUnrel} {ch : Nat} {s s' : SendRel}
    (hf : SMap.find? sr ch = some s) (h : relUnits s' ≤ relUnits s) : UnitsLe (SMap.insert sr ch s') su sr su := by
  refine ⟨?_, fun _ => Nat.le_refl _⟩
  intro k
  rw [SMap.find?_insert]
  split
  · next e => subst e; rw [hf]; exact h
  · exact Nat.le_refl _

theorem UnitsLe.insert_unrel {sr : SMap SendRel} {su : SMap SendUnrel} {ch : Nat} {s s' : SendUnrel}
    (hf : SMap.find? su ch = some s) (h : unrelUnits s' ≤ unrelUnits s) : UnitsLe sr (SMap.insert su ch s') sr su := by
  refine ⟨fun _ => Nat.le_refl _, ?_⟩
  intro k
  rw [SMap.find?_insert]
  split
  · next e => subst e; rw [hf]; exact h
  · exact Nat.le_refl _

theorem ordUnits_mono {sr' sr : SMap SendRel} {su' su : SMap SendUnrel} (h : UnitsLe sr' su' sr su) :
    ∀ (ord : List (Bool × Nat)), ordUnits sr' su' ord ≤ ordUnits sr su ord
  | [] => Nat.le_refl _
  | (true, ch) :: r => by
    have := ordUnits_mono h r
    have := h.1 ch
    simp only [ordUnits, chanUnits]; omega
  | (false, ch) :: r => by
    have := ordUnits_mono h r
    have := h.2 ch
    simp only [ordUnits, chanUnits]; omega

/-- **the channel loop appends at most `ordUnits` packets, and the units of no channel grow** (no hypothesis) -/
theorem chanLoop_count (now : Nat) : ∀ (ord : List (Bool × Nat)) (sr : SMap SendRel) (su : SMap SendUnrel)
    (pk : List Packet) (seq avail : Nat) (sr' : SMap SendRel) (su' : SMap SendUnrel) (pk' : List Packet)
    (seq' avail' : Nat),
    Conn.chanLoop now ord (sr, su, pk, seq, avail) = .ok (sr', su', pk', seq', avail') →
    pk'.length ≤ pk.length + ordUnits sr su ord ∧ UnitsLe sr' su' sr su
  | [], sr, su, pk, seq, avail, sr', su', pk', seq', avail', h => by
    simp only [Conn.chanLoop, Res.ok.injEq, Prod.mk.injEq] at h
    obtain ⟨rfl, rfl, rfl, -, -⟩ := h
    exact ⟨Nat.le_add_right _ _, UnitsLe.refl _ _⟩
  | (true, ch0) :: rest, sr, su, pk, seq, avail, sr', su', pk', seq', avail', h => by
    rw [chanLoop_rel_step] at h
    split at h
    · cases h
    · rename_i s hs
      obtain ⟨i1, i2⟩ := chanLoop_count now rest _ _ _ _ _ _ _ _ _ _ h
      have hle : UnitsLe (SMap.insert sr ch0 (s.getPackets seq avail now).1) su sr su :=
        UnitsLe.insert_rel hs (Nat.le_of_eq (getPackets_rel_units s seq avail now))
      have h1 := getPackets_rel_count s seq avail now
      have h2 := ordUnits_mono hle rest
      refine ⟨?_, i2.trans hle⟩
      simp only [ordUnits, chanUnits, hs, optRel, List.length_append] at i1 ⊢
      omega
  | (false, ch0) :: rest, sr, su, pk, seq, avail, sr', su', pk', seq', avail', h => by
    rw [chanLoop_unrel_step] at h
    split at h
    · cases h
    · rename_i s hs
      obtain ⟨i1, i2⟩ := chanLoop_count now rest _ _ _ _ _ _ _ _ _ _ h
      obtain ⟨h1, h3⟩ := getPackets_unrel_count s seq avail
      have hle : UnitsLe sr (SMap.insert su ch0 (s.getPackets seq avail).1) sr su := UnitsLe.insert_unrel hs h3
      have h2 := ordUnits_mono hle rest
      refine ⟨?_, i2.trans hle⟩
      simp only [ordUnits, chanUnits, hs, optUnrel, List.length_append] at i1 ⊢
      omega

/-- **the sequence number after a flush**, ack packet included: `flushSeq ≤ packetSeq + units + 1`.  The only
    hypothesis is the send-side invariant (for `seq' = seq + |ps|`); NO counter hypothesis, no non-emptiness. -/
theorem flushSeq_le_units {c : Conn} (hinv : c.SendInv) : c.flushSeq ≤ c.packetSeq + c.units + 1 := by
  unfold Conn.flushSeq
  cases hl : Conn.chanLoop c.now c.order (c.sendRel, c.sendUnrel, [], c.packetSeq, c.budget) with
  | ok r =>
    obtain ⟨sr, su, pk0, seq0, avail⟩ := r
    obtain ⟨ps, hps, -, hseq, -, -⟩ := chanLoop_budget _ _ _ _ _ _ _ _ _ _ _ _ (relMapFit_of_inv hinv) hl
    obtain ⟨hcnt, -⟩ := chanLoop_count _ _ _ _ _ _ _ _ _ _ _ _ hl
    simp only [List.nil_append] at hps
    subst hps
    simp only [List.length_nil, Nat.zero_add] at hcnt
    dsimp only
    unfold Conn.units
    omega
  | err e => exact e.elim
  | panic m => exact Nat.zero_le _

/-- the packets of a flush: at most `units + 1` -/
theorem flushPk_length_le (c : Conn) : (flushPk c).length ≤ c.units + 1 := by
  unfold flushPk
  split
  · exact Nat.zero_le _
  · cases hl : Conn.chanLoop c.now c.order (c.sendRel, c.sendUnrel, [], c.packetSeq, c.budget) with
    | ok r =>
      obtain ⟨sr, su, pk0, seq0, avail⟩ := r
      obtain ⟨hcnt, -⟩ := chanLoop_count _ _ _ _ _ _ _ _ _ _ _ _ hl
      simp only [List.length_nil, Nat.zero_add] at hcnt
      dsimp only
      unfold Conn.units
      split
      · split
        · omega
        · simp only [List.length_append, List.length_cons, List.length_nil]; omega
      · exact Nat.zero_le _
    | err e => exact e.elim
    | panic m => exact Nat.zero_le _

end RenetVerif.FlushCount
