/-
  k-ROUND DELIVERY — helper lemmas for Props/C01K.lean.

  Lemmas/Liveness.lean proves what ONE lossless round does (`round_progress`, `round_live`) and what ONE
  acknowledgement round does (`acks_release`, `acks_release_after_round`).  Here they are iterated.

  Parts:
    1  lists: sorted maps, embeddings of one `unacked` map into another, the greedy prefix a budget covers
    2  a stored entry only shrinks under a flush followed by ack processing (`Shrunk`)
    3  the receiver keeps `Room` (H3) along a round (`round_facts`); frame of the acknowledgement leg;
       `acks_release_carried`: after round + acknowledgement round, whatever the flush carried is released at A
    4  ONE FULL ROUND (`full_round`): updA ; flushA ; deliverToB* ; recvB* ; flushB ; deliverToA
    5  the iteration: `RoundP`, `RoundOK`, `Rounds`; `RoundStep`, `rounds_of_step`; whole-entry coverage
       (`step_of_cover`, `rounds_count`, `rounds_bytes`, `rounds_bytes_single`)
    6  executable checkers for the side conditions (`roundsb`, `rounds_of_b`)
    7  slice granularity: a flush that covers only SOME slices of a sliced entry (`getPackets_cover_part`,
       `flush_contains`), counting slices (`leftover_count`)
    8  `full_round_part`, and the general byte bound `rounds_bytes_any` (any messages, `B ≥ SLICE_SIZE`)
-/
import RenetVerif.Lemmas.Liveness
namespace RenetVerif.LiveK
open RenetVerif C RenetVerif.System RenetVerif.DataPath RenetVerif.Live

/-! ## Part 1 — lists -/

theorem nodup_subset_length : ∀ (l2 l1 : List Nat), l1.Nodup → (∀ x ∈ l1, x ∈ l2) → l1.length ≤ l2.length
  | [], l1, _, hs => by
    cases l1 with
    | nil => exact Nat.le_refl _
    | cons a r => exact absurd (hs a (List.mem_cons_self ..)) (by simp)
  | a :: l2, l1, hn, hs => by
    have ih := nodup_subset_length l2 (l1.erase a) (hn.erase a) (by
      intro x hx
      obtain ⟨hne, hx1⟩ := (List.Nodup.mem_erase_iff hn).mp hx
      rcases List.mem_cons.mp (hs x hx1) with e | e
      · exact absurd e hne
      · exact e)
    have := List.length_erase (a := a) (l := l1)
    simp only [List.length_cons]
    split at this <;> omega

theorem sorted_keys_nodup {α : Type} {m : SMap α} (h : SI.Sorted m) : (m.map (·.1)).Nodup := by
  unfold List.Nodup
  exact List.pairwise_map.mpr (h.imp (fun hlt => Nat.ne_of_lt hlt))

/-- a sorted map all of whose keys occur in `l2` is at most as long -/
theorem keys_length_le {α : Type} {l1 l2 : SMap α} (hs : SI.Sorted l1) (h : ∀ x ∈ l1, ∃ u0, (x.1, u0) ∈ l2) :
    l1.length ≤ l2.length := by
  have := nodup_subset_length (l2.map (·.1)) (l1.map (·.1)) (sorted_keys_nodup hs) (by
    intro k hk
    obtain ⟨x, hx, rfl⟩ := List.mem_map.mp hk
    obtain ⟨u0, h0⟩ := h x hx
    exact List.mem_map.mpr ⟨_, h0, rfl⟩)
  simpa using this

theorem sorted_append {α : Type} {a b : SMap α} (h : SI.Sorted (a ++ b)) :
    SI.Sorted a ∧ SI.Sorted b ∧ ∀ x ∈ a, ∀ y ∈ b, x.1 < y.1 := by
  unfold SI.Sorted at h ⊢
  exact List.pairwise_append.mp h

theorem sorted_take_drop {α : Type} {m : SMap α} (h : SI.Sorted m) (q : Nat) :
    SI.Sorted (m.take q) ∧ SI.Sorted (m.drop q) ∧ ∀ x ∈ m.take q, ∀ y ∈ m.drop q, x.1 < y.1 :=
  sorted_append (by rw [List.take_append_drop]; exact h)

/-- the id below which everything is covered when the first `q` entries are: the smallest uncovered id -/
def cut (L : Nat) : SMap Unacked → Nat
  | [] => L
  | x :: _ => x.1

theorem cut_le {L : Nat} {post : SMap Unacked} (hs : SI.Sorted post) : ∀ x ∈ post, cut L post ≤ x.1 := by
  cases post with
  | nil => intro x hx; cases hx
  | cons a r =>
    intro x hx
    obtain ⟨k, v⟩ := a
    rw [SI.sorted_cons] at hs
    rcases List.mem_cons.mp hx with e | e
    · subst e; exact Nat.le_refl _
    · exact Nat.le_of_lt (hs.1 x e)

theorem cut_le_len {L : Nat} {post : SMap Unacked} (hb : ∀ x ∈ post, x.1 < L) : cut L post ≤ L := by
  cases post with
  | nil => exact Nat.le_refl _
  | cons a r => exact Nat.le_of_lt (hb a (List.mem_cons_self ..))

/-- `l1` embeds into the sorted map `l2` key by key, every entry at most as expensive: its backlog is at most `l2`'s -/
theorem backlog_le_of_embed : ∀ (l1 l2 : SMap Unacked), SI.Sorted l1 → SI.Sorted l2 →
    (∀ x ∈ l1, ∃ u0, (x.1, u0) ∈ l2 ∧ entryCost x.2 ≤ entryCost u0) → backlog l1 ≤ backlog l2
  | [], _, _, _, _ => Nat.zero_le _
  | (k, u) :: r1, l2, hs1, hs2, h => by
    obtain ⟨u0, hm, hc⟩ := h (k, u) (List.mem_cons_self ..)
    obtain ⟨a, b, rfl⟩ := List.append_of_mem hm
    obtain ⟨-, hsb, hab⟩ := sorted_append hs2
    rw [SI.sorted_cons] at hs1 hsb
    have ih := backlog_le_of_embed r1 b hs1.2 hsb.2 (by
      intro y hy
      obtain ⟨v0, hv, hcv⟩ := h y (List.mem_cons_of_mem _ hy)
      have hky := hs1.1 y hy
      refine ⟨v0, ?_, hcv⟩
      rcases List.mem_append.mp hv with e | e
      · have := hab _ e (k, u0) (List.mem_cons_self ..)
        dsimp only at this; omega
      · rcases List.mem_cons.mp e with e' | e'
        · have : y.1 = k := congrArg Prod.fst e'
          omega
        · exact e')
    rw [backlog_append]
    simp only [backlog_cons] at ih ⊢
    dsimp only at hc
    omega

theorem backlog_take_drop (un : SMap Unacked) (q : Nat) : backlog (un.take q) + backlog (un.drop q) = backlog un := by
  rw [← backlog_append, List.take_append_drop]

/-- every entry costs at most `c`: the first `q` entries cost at most `q * c` -/
theorem backlog_take_le {c : Nat} : ∀ (un : SMap Unacked) (q : Nat), (∀ x ∈ un, entryCost x.2 ≤ c) →
    backlog (un.take q) ≤ q * c
  | [], q, _ => by simp
  | _, 0, _ => by simp
  | (k, u) :: r, q + 1, h => by
    have h1 := h (k, u) (List.mem_cons_self ..)
    have h2 := backlog_take_le r q (fun x hx => h x (List.mem_cons_of_mem _ hx))
    simp only [List.take_succ_cons, backlog_cons]
    dsimp only at h1
    rw [Nat.succ_mul]; omega

/-! ## Part 2 — a stored entry only shrinks -/

theorem filter_length_mono {p q : Nat → Bool} {l : List Nat} (h : ∀ x ∈ l, p x = true → q x = true) :
    (l.filter p).length ≤ (l.filter q).length := by
  rw [← List.countP_eq_length_filter, ← List.countP_eq_length_filter]
  exact List.countP_mono_left h

/-- what a flush followed by ack processing may do to a stored entry: same payload, same slice count, and no slice
    that was acknowledged becomes un-acknowledged -/
def Shrunk : Unacked → Unacked → Prop
  | .small m _, .small m' _ => m = m'
  | .sliced m n _ _ ak _, .sliced m' n' _ _ ak' _ =>
    m = m' ∧ n = n' ∧ ak'.length = n ∧ ∀ i, i < n → ak'.getD i false = false → ak.getD i false = false
  | _, _ => False

theorem entryCost_le_of_shrunk : ∀ {a b : Unacked}, Shrunk a b → entryCost b ≤ entryCost a
  | .small .., .small .., h => by simp only [Shrunk] at h; subst h; exact Nat.le_refl _
  | .sliced m n _ _ ak _, .sliced m' n' _ _ ak' _, h => by
    obtain ⟨rfl, rfl, -, hsub⟩ := h
    simp only [entryCost]
    apply Nat.mul_le_mul_left
    unfold unackedIdx
    apply filter_length_mono
    intro i hi hp
    have := hsub i (List.mem_range.mp hi) (by simpa using hp)
    rw [this]; rfl
  | .small .., .sliced .., h => h.elim
  | .sliced .., .small .., h => h.elim

theorem shrunk_of_sim : ∀ {a b c : Unacked}, a.Sim b → Shrunk b c → Shrunk a c
  | .small .., .small .., .small .., h1, h2 => by
    simp only [Unacked.Sim] at h1; simp only [Shrunk] at h2 ⊢; exact h1.trans h2
  | .sliced .., .sliced .., .sliced .., h1, h2 => by
    obtain ⟨rfl, rfl, rfl, rfl, -⟩ := h1; exact h2
  | .small .., .sliced .., _, h1, _ => h1.elim
  | .sliced .., .small .., _, h1, _ => h1.elim
  | .small .., .small .., .sliced .., _, h2 => h2.elim
  | .sliced .., .sliced .., .small .., _, h2 => h2.elim

/-- ack processing (`AckMono`) only shrinks a stored entry -/
theorem shrunk_of_ack {s1 s' : SendRel} (hi' : s'.Inv) (hm : AckMono s1 s') {id : Nat} {u' : Unacked}
    (hf : SMap.find? s'.unacked id = some u') :
    ∃ u1, SMap.find? s1.unacked id = some u1 ∧ Shrunk u1 u' := by
  obtain ⟨u1, hf1, hkin⟩ := hm.2.2 id u' hf
  refine ⟨u1, hf1, ?_⟩
  cases u' with
  | small m' ls' =>
    cases u1 with
    | small m1 ls1 => exact hkin
    | sliced => exact hkin.elim
  | sliced m' n' k' nx' ak' ls' =>
    cases u1 with
    | small => exact hkin.elim
    | sliced m1 n1 k1 nx1 ak1 ls1 =>
      obtain ⟨rfl, rfl⟩ := hkin
      obtain ⟨-, -, o3, -⟩ := hi'.find_ok hf
      refine ⟨rfl, rfl, o3, ?_⟩
      intro i hin hfalse
      have hget : ak'[i]? = some false := by
        rw [List.getD_eq_getElem?_getD, List.getElem?_eq_getElem (by omega)] at hfalse
        rw [List.getElem?_eq_getElem (by omega)]
        simpa using hfalse
      obtain ⟨m3, n3, k3, nx3, a3, ls3, hf3, ha3⟩ := hm.2.1 id i ⟨_, _, _, _, _, _, hf, hget⟩
      rw [hf1] at hf3; cases hf3
      rw [List.getD_eq_getElem?_getD, ha3]; rfl

/-! ## Part 3 — the receiver keeps `Room` along a round; frames -/

/-- draining keeps the room (H3) -/
theorem drain_room (cfg : Cfg) (ch : Nat) (L : List Bytes) : ∀ (n : Nat) (t u : Sys) (pk : List Packet) (rt : RecvRel),
    AllInv cfg t pk → CountersOK cfg t → t.b.isDisconnected = false → SMap.find? t.b.recvRel ch = some rt →
    Room L rt → t.run (List.replicate n (SysOp.recvB ch)) = some u →
    ∃ ru, SMap.find? u.b.recvRel ch = some ru ∧ Room L ru
  | 0, t, u, pk, rt, _, _, _, hrt, hroom, hrun => by
    simp only [List.replicate_zero, Sys.run, Option.some.injEq] at hrun; subst hrun
    exact ⟨rt, hrt, hroom⟩
  | n + 1, t, u, pk, rt, hA, hc, hlive, hrt, hroom, hrun => by
    simp only [List.replicate_succ, Sys.run] at hrun
    cases hs : t.step (.recvB ch) with
    | none => rw [hs] at hrun; cases hrun
    | some t1 =>
      rw [hs] at hrun
      obtain ⟨b1, b2, b3, b4, b5, b6⟩ := recv_step_frame hs
      have hc1 : CountersOK cfg t1 := countersOK_congr (by rw [b1]) b4 b5 hc
      have hA1 : AllInv cfg t1 pk := allInv_step hA hs hc1
      have key : ∃ r' m, rt.receive = .ok (r', m) ∧ SMap.find? t1.b.recvRel ch = some r' ∧ t1.b.isDisconnected = false := by
        simp only [Sys.step] at hs
        have aux : ∀ b' m, t.b.receiveMessage ch = .ok (b', m) →
            ∃ r', rt.receive = .ok (r', m) ∧ SMap.find? b'.recvRel ch = some r' ∧ b'.isDisconnected = false := by
          intro b' m hm
          rcases receiveMessage_cases hm with ⟨hd, -, -⟩ | ⟨hd, r, r', hf, hr, rfl⟩ | ⟨-, hn, -, -⟩
          · rw [hlive] at hd; cases hd
          · rw [hrt] at hf; cases hf
            exact ⟨r', hr, by dsimp only; rw [SMap.find?_insert, if_pos rfl], hlive⟩
          · rw [hrt] at hn; cases hn
        split at hs
        · next b' m hm => cases hs; obtain ⟨r', x1, x2, x3⟩ := aux b' _ hm; exact ⟨r', _, x1, x2, x3⟩
        · next b' hm => cases hs; obtain ⟨r', x1, x2, x3⟩ := aux b' _ hm; exact ⟨r', _, x1, x2, x3⟩
        · cases hs
      obtain ⟨r', m, hrec, hf1, hlive1⟩ := key
      have hbs := (hA.i2.recvB hlive).2 ch rt hrt
      obtain ⟨hroom1, -⟩ := receive_room (wf_of_chanBS hbs) hroom hrec
      exact drain_room cfg ch L n t1 u pk r' hA1 hc1 hlive1 hf1 hroom1 hrun

/-- `obtained` only grows along a run -/
theorem obtained_mono (ch : Nat) : ∀ (ops : List SysOp) (x y : Sys), x.run ops = some y → x.obtained ch <+: y.obtained ch
  | [], x, y, h => by simp only [Sys.run, Option.some.injEq] at h; subst h; exact List.prefix_refl _
  | op :: rest, x, y, h => by
    simp only [Sys.run] at h
    cases hs : x.step op with
    | none => rw [hs] at h; cases h
    | some x1 =>
      rw [hs] at h
      refine List.IsPrefix.trans ?_ (obtained_mono ch rest x1 y h)
      cases op with
      | recvB c =>
        simp only [Sys.step] at hs
        split at hs
        · cases hs
          dsimp only
          unfold push
          split
          · next e => subst e; exact List.prefix_append _ _
          · exact List.prefix_refl _
        · cases hs; exact List.prefix_refl _
        · cases hs
      | sendA c m => simp only [Sys.step] at hs; split at hs <;> cases hs; exact List.prefix_refl _
      | updA d => simp only [Sys.step] at hs; split at hs <;> cases hs; exact List.prefix_refl _
      | updB d => simp only [Sys.step] at hs; split at hs <;> cases hs; exact List.prefix_refl _
      | flushA => simp only [Sys.step] at hs; split at hs <;> cases hs; exact List.prefix_refl _
      | flushB => simp only [Sys.step] at hs; split at hs <;> cases hs; exact List.prefix_refl _
      | deliverToB k =>
        simp only [Sys.step] at hs
        split at hs
        · cases hs
        · split at hs <;> cases hs; exact List.prefix_refl _
      | deliverToA k =>
        simp only [Sys.step] at hs
        split at hs
        · cases hs
        · split at hs <;> cases hs; exact List.prefix_refl _

/-- **What a lossless round leaves behind** (H3 + H4, any prefix of the backlog covered or not): B is live and
    still has room, the counters of the system are in range, and A's channel after the flush holds the same entries
    as before up to send times (`MapSim`). -/
theorem round_facts (cfg : Cfg) (ops : List SysOp) (s : Sys) (hr : (Sys.init cfg).run ops = some s)
    (hc : CountersOK cfg s) (hcA : s.a.CountersOK) (hda : s.a.isDisconnected = false) (hdb : s.b.isDisconnected = false)
    (ch : Nat) (sA : SendRel) (hfA : SMap.find? s.a.sendRel ch = some sA)
    (rB : RecvRel) (hfB : SMap.find? s.b.recvRel ch = some rB)
    (H3 : Room (s.submitted ch) rB) (H4 : ∀ p ∈ flushPk s.a, OnlyCh ch p)
    (ks : List Nat) (hks : ∀ k ∈ ks, k ∈ newIdx s) (n : Nat) (u : Sys)
    (hu : s.run (roundOps ch ks n) = some u) :
    u.b.isDisconnected = false ∧ CountersOK cfg u ∧
    (∃ ru, SMap.find? u.b.recvRel ch = some ru ∧ Room (s.submitted ch) ru) ∧
    (∃ sA1, SMap.find? u.a.sendRel ch = some sA1 ∧ SI.MapSim sA.unacked sA1.unacked) := by
  obtain ⟨pkA, hA⟩ := allInv_reach cfg ops s hr hc
  obtain ⟨a1, bs, e, hd1, hseq1, -, -⟩ :=
    flush_covers (pre := []) (post := sA.unacked) (reach_conn hA.i1.reachA).1 hcA hda hfA (order_mem hA.i1.reachA hfA) rfl
      (fun _ h => by cases h) (Nat.zero_le _)
  have hs1 : s.step .flushA = some { s with a := a1, outA := s.outA ++ bs } := by simp only [Sys.step, e]
  generalize hs1d : ({ s with a := a1, outA := s.outA ++ bs } : Sys) = s1 at hs1
  have f1 : s1.a = a1 := by rw [← hs1d]
  have f3 : s1.submitted = s.submitted := by rw [← hs1d]
  have f4 : s1.submittedU = s.submittedU := by rw [← hs1d]
  have f7 : s1.b = s.b := by rw [← hs1d]
  have hc1 : CountersOK cfg s1 :=
    ⟨hc.chan, by rw [f1]; exact hseq1, by rw [f3]; exact hc.ids, by rw [f3]; exact hc.lens, by rw [f4]; exact hc.lensU⟩
  have hA1 : AllInv cfg s1 (pkA ++ flushPk s.a) := allInv_step hA hs1 hc1
  -- decompose the round
  simp only [roundOps, Sys.run, hs1] at hu
  rw [Sys.run_append] at hu
  cases ht : s1.run (ks.map SysOp.deliverToB) with
  | none => rw [ht] at hu; cases hu
  | some t =>
    rw [ht] at hu
    simp only [Option.bind_some] at hu
    have hFack : ∀ sq l, Packet.ack sq l ∈ flushPk s.a → Acks.WF l := by
      intro sq l hm
      obtain ⟨sq', e'⟩ := flush_acks e _ hm rfl
      cases e'
      exact hA.i1.invA.2
    obtain ⟨hlt, rt, hrt, hroomt⟩ := deliver_live cfg ch (flushPk s.a) H4 hFack ks s1 t _ rB hA1 hc1
      (by
        intro k hk
        have := hks k hk
        unfold newIdx at this
        rw [List.mem_range'_1, ← pk_len hA.i1] at this
        have hlt : k - pkA.length < (flushPk s.a).length := by omega
        refine ⟨(flushPk s.a)[k - pkA.length], List.getElem_mem _, ?_⟩
        rw [List.getElem?_append_right (by omega)]
        exact List.getElem?_eq_getElem hlt)
      (by rw [f7]; exact hdb) (by rw [f7]; exact hfB) (by rw [f3]; exact H3) ht
    rw [f3] at hroomt
    obtain ⟨g1, g2, g3, g4, g5, g6, g7⟩ := deliver_frame ks s1 t ht
    have hct : CountersOK cfg t := countersOK_congr (by rw [g1]) g4 g5 hc1
    have hAt : AllInv cfg t (pkA ++ flushPk s.a) := by
      have := allInv_run cfg _ s1 t _ hA1 ht hct
      rwa [runPk_noflush _ _ _ (by intro op hop; obtain ⟨k, -, rfl⟩ := List.mem_map.mp hop; exact fun h => by cases h)] at this
    obtain ⟨r1, r2⟩ := recv_run_b ch n t u hu
    have hua : u.a = a1 := by rw [recv_run_frame ch n t u hu, g1, f1]
    -- the frame of the drain, by determinism
    have hcu : CountersOK cfg u := by
      obtain ⟨u', hu', u1, u2, u3, -, -⟩ := drain_total cfg ch n t _ hAt.i1 (by
        left; rw [hrt]; exact fun h => by cases h)
      rw [hu] at hu'; cases hu'
      exact countersOK_congr (by rw [u1]) u2 u3 hct
    refine ⟨by rw [r2]; exact hlt, hcu, drain_room cfg ch _ n t u _ rt hAt hct hlt hrt hroomt hu, ?_⟩
    obtain ⟨-, -, hget, -⟩ := SI.Conn.getPacketsToSend_spec hA.i1.invA.1 hA.i1.invA.2 e
    obtain ⟨sA1, hf1, -⟩ := hget.keeps hfA
    obtain ⟨hsim, -⟩ := hget.2 ch sA sA1 hfA hf1
    exact ⟨sA1, by rw [hua]; exact hf1, hsim⟩

/-- the acknowledgement leg leaves B live and does not touch its receive channels -/
theorem ack_leg_frame {cfg : Cfg} {u v : Sys} {pk : List Packet} (h1 : Inv1 cfg u pk) (hdb : u.b.isDisconnected = false)
    (hcB : u.b.CountersOK) {k : Nat} (hv : u.run [.flushB, .deliverToA k] = some v) :
    v.b.isDisconnected = false ∧ v.b.recvRel = u.b.recvRel := by
  obtain ⟨b1, bs, e, -, hst, -⟩ := CI.getPacketsToSend_totalP (reach_conn h1.reachB).1 hcB
  have hlive1 : b1.isDisconnected = false := by rw [isDisconnected_congr hst]; exact hdb
  have hrec : b1.recvRel = u.b.recvRel := by
    rcases getPacketsToSend_unfold e with ⟨-, rfl, -⟩ | ⟨-, sr, su, pk0, seq0, avail, sent, -, -, hser⟩
    · rfl
    · rcases hser with ⟨-, rfl⟩ | ⟨er, -, -, rfl⟩
      · rfl
      · rw [disconnectWith_isDisconnected] at hlive1; cases hlive1
  have hs1 : u.step .flushB = some { u with b := b1, outB := u.outB ++ bs } := by simp only [Sys.step, e]
  simp only [Sys.run, hs1] at hv
  cases hs2 : ({ u with b := b1, outB := u.outB ++ bs } : Sys).step (.deliverToA k) with
  | none => rw [hs2] at hv; cases hv
  | some v' =>
    rw [hs2] at hv
    cases hv
    simp only [Sys.step] at hs2
    split at hs2
    · cases hs2
    · split at hs2
      · cases hs2; exact ⟨hlive1, hrec⟩
      · cases hs2

/-! ### the acknowledgement round releases whatever the flush carried -/

/-- **After a lossless round and the acknowledgement round, everything the flush of the round CARRIED on channel
    `ch` is released at A** — whichever part of the backlog that was: a small message that was in a packet of the flush
    has left `unacked`; a slice that was in a packet of the flush is no longer pending.  (Generalises
    `Live.acks_release_after_round`, which states this for the entries of a covered prefix.) -/
theorem acks_release_carried (cfg : Cfg) (ops : List SysOp) (s : Sys) (hr : (Sys.init cfg).run ops = some s)
    (hc : CountersOK cfg s) (hcA : s.a.CountersOK) (hda : s.a.isDisconnected = false)
    (ch : Nat) (sA : SendRel) (hfA : SMap.find? s.a.sendRel ch = some sA)
    (ks : List Nat) (hks1 : ∀ k ∈ newIdx s, k ∈ ks) (n : Nat) (u : Sys) (hu : s.run (roundOps ch ks n) = some u)
    (hdb : u.b.isDisconnected = false) (hcB : u.b.CountersOK) (hne : u.b.pendingAcks ≠ [])
    (hcap : s.b.pendingAcks.length + ks.length < ACK_RANGE_CAP) :
    ∃ v, u.run [.flushB, .deliverToA (ackIdx u)] = some v ∧
      ∃ sA', SMap.find? v.a.sendRel ch = some sA' ∧
        (∀ id m, SmallIn (flushPk s.a) ch id m → SMap.find? sA'.unacked id = none) ∧
        (∀ id i n' m, SliceIn (flushPk s.a) ch id i n' m → ¬ sA'.Pending id i) := by
  obtain ⟨pkA, hA⟩ := allInv_reach cfg ops s hr hc
  have h1 := hA.i1
  have hL := invL_reach cfg ops s hr
  obtain ⟨a1, bs, e, hd1, hseq1, -, -⟩ :=
    flush_covers (pre := []) (post := sA.unacked) (reach_conn hA.i1.reachA).1 hcA hda hfA (order_mem hA.i1.reachA hfA) rfl
      (fun _ h => by cases h) (Nat.zero_le _)
  have hs1 : s.step .flushA = some { s with a := a1, outA := s.outA ++ bs } := by simp only [Sys.step, e]
  generalize hs1d : ({ s with a := a1, outA := s.outA ++ bs } : Sys) = s1 at hs1
  have f1 : s1.a = a1 := by rw [← hs1d]
  have f7 : s1.b = s.b := by rw [← hs1d]
  -- decompose the round
  have hu' := hu
  simp only [roundOps, Sys.run, hs1] at hu'
  rw [Sys.run_append] at hu'
  cases ht : s1.run (ks.map SysOp.deliverToB) with
  | none => rw [ht] at hu'; cases hu'
  | some t =>
    rw [ht] at hu'
    simp only [Option.bind_some] at hu'
    have hua : u.a = a1 := by
      rw [recv_run_frame ch n t u hu', (deliver_frame ks s1 t ht).1, f1]
    have hreach : (Sys.init cfg).run (ops ++ roundOps ch ks n) = some u := by
      rw [Sys.run_append, hr]; exact hu
    obtain ⟨v, hv, hlv, -, -, hmono, hinvv, heff⟩ := acks_release cfg _ u hreach (by rw [hua]; exact hd1) hdb hcB hne
    -- B holds the sequence numbers of the flush in its pending list
    obtain ⟨r1, r2⟩ := recv_run_b ch n t u hu'
    have hlt : t.b.isDisconnected = false := by rw [← r2]; exact hdb
    have h11 : Inv1 cfg s1 (pkA ++ flushPk s.a) := inv1_step h1 hs1
    have hl1 : s1.b.isDisconnected = false := deliver_live_back cfg ks s1 t _ h11 ht hlt
    have hbound : ∀ seq tt largest, SMap.find? s1.b.sent seq = some (tt, SentInfo.ack largest) → largest < s.a.packetSeq := by
      rw [f7]
      exact hL (by rw [← f7]; exact hl1)
    obtain ⟨-, hnew⟩ := deliver_pending cfg s.a.packetSeq ks s1 t _ h11 hbound (by rw [f7]; exact hcap) ht hlt
    have hpend : ∀ p ∈ flushPk s.a, Acks.Mem p.sequence u.b.pendingAcks := by
      intro p hp
      obtain ⟨i, hi⟩ := List.mem_iff_getElem?.mp hp
      have hil : i < (flushPk s.a).length := (List.getElem?_eq_some_iff.mp hi).1
      have hk : pkA.length + i ∈ ks := by
        apply hks1
        unfold newIdx
        rw [List.mem_range'_1, pk_len h1]; omega
      have hpk : (pkA ++ flushPk s.a)[pkA.length + i]? = some p := by
        rw [List.getElem?_append_right (by omega)]
        have : pkA.length + i - pkA.length = i := by omega
        rw [this]; exact hi
      have hlo : s.a.packetSeq ≤ p.sequence := ((flush_facts h1.invA.1 e).2.2.1 p hp).1
      have := hnew _ hk p hpk hlo
      rw [← r1] at this
      exact this
    -- A's channel after the flush, and what the ack does to a packet of the flush
    obtain ⟨-, -, hget, -⟩ := SI.Conn.getPacketsToSend_spec hA.i1.invA.1 hA.i1.invA.2 e
    obtain ⟨sA1, hf1, -⟩ := hget.keeps hfA
    obtain ⟨sA', hf', -⟩ := hmono ch sA1 (by rw [hua]; exact hf1)
    have hrec := flush_records hA.i1.invA.1 e hd1
    have effOf : ∀ p ∈ flushPk s.a, ∀ info, Conn.sentInfoOf p = .ok info → Eff v.a info := by
      intro p hp info hinfo
      obtain ⟨info', hi', hfs⟩ := hrec p hp
      rw [hinfo] at hi'; cases hi'
      exact heff p.sequence _ info (hpend p hp) (by rw [hua]; exact hfs)
    refine ⟨v, hv, sA', hf', ?_, ?_⟩
    · intro id m ⟨sq, msgs, hp, hin⟩
      obtain ⟨s2, hs2, hgone⟩ := effOf _ hp (.relMsgs ch (msgs.map (·.1))) rfl
      rw [hf'] at hs2; cases hs2
      exact hgone id (List.mem_map.mpr ⟨(id, m), hin, rfl⟩)
    · intro id i n' m ⟨sq, hp⟩
      obtain ⟨s2, hs2, hnp⟩ := effOf _ hp (.relSlice ch id i) rfl
      rw [hf'] at hs2; cases hs2
      exact hnp

/-! ### channel kinds -/

/-- `ch` is a reliable channel from A to B of kind `ord`: `true` = ReliableOrdered, `false` = ReliableUnordered -/
def KindOf (cfg : Cfg) (ch : Nat) : Bool → Prop
  | true => cfg.Ordered ch
  | false => cfg.Unordered ch

/-- what "delivered" means on a channel of kind `ord`: B's application has obtained exactly the submitted messages,
    in order (ordered) resp. each exactly once, in some order (unordered) -/
def Delivered : Bool → List Bytes → List Bytes → Prop
  | true, obt, sub => obt = sub
  | false, obt, sub => obt.Perm sub

theorem relKind_of_kind {cfg : Cfg} {ch : Nat} : ∀ {ord : Bool}, KindOf cfg ch ord → RelKind cfg ch = some ord
  | true, h => relKind_ordered h
  | false, h => relKind_unordered h

/-- the forward leg of a round runs to completion on a reliable channel of either kind: nothing panics, A stays live -/
theorem round_runs (cfg : Cfg) (ops : List SysOp) (s : Sys) (hr : (Sys.init cfg).run ops = some s)
    (hc : CountersOK cfg s) (hcA : s.a.CountersOK) (hda : s.a.isDisconnected = false)
    (ch : Nat) {ord : Bool} (hrk : RelKind cfg ch = some ord) (sA : SendRel) (hfA : SMap.find? s.a.sendRel ch = some sA)
    (ks : List Nat) (hks2 : ∀ k ∈ ks, k < s.outA.length + (flushPk s.a).length) (n : Nat) :
    ∃ u, s.run (roundOps ch ks n) = some u ∧ u.submitted = s.submitted ∧ u.a.isDisconnected = false := by
  obtain ⟨pkA, hA⟩ := allInv_reach cfg ops s hr hc
  obtain ⟨a1, bs, e, hd1, hseq1, -, -⟩ :=
    flush_covers (pre := []) (post := sA.unacked) (reach_conn hA.i1.reachA).1 hcA hda hfA (order_mem hA.i1.reachA hfA) rfl
      (fun _ h => by cases h) (Nat.zero_le _)
  have hs1 : s.step .flushA = some { s with a := a1, outA := s.outA ++ bs } := by simp only [Sys.step, e]
  generalize hs1d : ({ s with a := a1, outA := s.outA ++ bs } : Sys) = s1 at hs1
  have f1 : s1.a = a1 := by rw [← hs1d]
  have f2 : s1.outA = s.outA ++ bs := by rw [← hs1d]
  have f3 : s1.submitted = s.submitted := by rw [← hs1d]
  have f4 : s1.submittedU = s.submittedU := by rw [← hs1d]
  have hc1 : CountersOK cfg s1 :=
    ⟨hc.chan, by rw [f1]; exact hseq1, by rw [f3]; exact hc.ids, by rw [f3]; exact hc.lens, by rw [f4]; exact hc.lensU⟩
  have hA1 : AllInv cfg s1 (pkA ++ flushPk s.a) := allInv_step hA hs1 hc1
  have hbl := flush_len hA.i1 e
  obtain ⟨t, ht⟩ := deliver_total cfg ks s1 _ hA1.i1 (by
    intro k hk; rw [f2, List.length_append, hbl]; exact hks2 k hk)
  obtain ⟨g1, -, -, g4, g5, -, -⟩ := deliver_frame ks s1 t ht
  have hct : CountersOK cfg t := countersOK_congr (by rw [g1]) g4 g5 hc1
  have hAt := allInv_run cfg _ s1 t _ hA1 ht hct
  obtain ⟨u, hu, u1, u2, -, -, -⟩ := drain_total cfg ch n t _ hAt.i1 (hasRecv_of_relKind hAt.i1 hrk)
  refine ⟨u, ?_, by rw [u2, g4, f3], by rw [u1, g1, f1]; exact hd1⟩
  simp only [roundOps, Sys.run, hs1]
  rw [Sys.run_append, ht]; exact hu

/-! ## Part 4 — one full round -/

/-- the operations of one full lossless round for channel `ch`:
    A's clock advances by `dt`; A flushes; the datagrams `ks` of `outA` are handed to B; B's application asks `n` times
    for a message of channel `ch`; B flushes; datagram `ai` of `outB` is handed to A -/
def fullRoundOps (ch dt : Nat) (ks : List Nat) (n ai : Nat) : List SysOp :=
  SysOp.updA dt :: (roundOps ch ks n ++ [SysOp.flushB, SysOp.deliverToA ai])

/-- **One full round** on a reliable channel of kind `ord`.  `q` = number of entries of A's `unacked` (those with the
    smallest ids) whose total cost the budget offered to channel `ch` covers.  After the round both endpoints are
    live, B still has room (H3), what B's application obtained has only grown (on an ordered channel it is a prefix of
    what was submitted), and A's `unacked` holds only entries that were NOT among the first `q` — each `Shrunk`, hence
    at most as expensive as before —; whatever the flush carried is released; if the first `q` entries were all,
    everything is `Delivered`. -/
theorem full_round (cfg : Cfg) (ops : List SysOp) (s : Sys) (hr : (Sys.init cfg).run ops = some s)
    (hda : s.a.isDisconnected = false) (hdb : s.b.isDisconnected = false)
    (ch : Nat) (ord : Bool) (ho : KindOf cfg ch ord) (sA : SendRel) (hfA : SMap.find? s.a.sendRel ch = some sA)
    (rB : RecvRel) (hfB : SMap.find? s.b.recvRel ch = some rB) (H3 : Room (s.submitted ch) rB)
    (dt : Nat) (hdt : sA.resend ≤ dt) (su : Sys) (hsu : s.step (.updA dt) = some su)
    (hc : CountersOK cfg su) (hcA : su.a.CountersOK)
    (q : Nat) (H2 : backlog (sA.unacked.take q) ≤ availAtTurn su.a ch)
    (H4 : ∀ p ∈ flushPk su.a, OnlyCh ch p)
    (ks : List Nat) (hks1 : ∀ k ∈ newIdx su, k ∈ ks) (hks2 : ∀ k ∈ ks, k ∈ newIdx su)
    (n : Nat) (hn : (s.submitted ch).length ≤ (s.obtained ch).length + n)
    (hcap : su.b.pendingAcks.length + ks.length < ACK_RANGE_CAP)
    (ai : Nat)
    (hB : ∀ u, su.run (roundOps ch ks n) = some u → u.b.CountersOK ∧ u.b.pendingAcks ≠ [] ∧ ai = ackIdx u) :
    ∃ v, s.run (fullRoundOps ch dt ks n ai) = some v ∧
      v.a.isDisconnected = false ∧ v.b.isDisconnected = false ∧ v.submitted = s.submitted ∧
      s.obtained ch <+: v.obtained ch ∧ (ord = true → v.obtained ch <+: s.submitted ch) ∧
      (∃ rB', SMap.find? v.b.recvRel ch = some rB' ∧ Room (s.submitted ch) rB') ∧
      (∃ sA', SMap.find? v.a.sendRel ch = some sA' ∧ sA'.Inv ∧
        (∀ x ∈ sA'.unacked, ∃ u0, (x.1, u0) ∈ sA.unacked.drop q ∧ Shrunk u0 x.2) ∧
        (∀ id m, SmallIn (flushPk su.a) ch id m → SMap.find? sA'.unacked id = none) ∧
        (∀ id i n' m, SliceIn (flushPk su.a) ch id i n' m → ¬ sA'.Pending id i)) ∧
      (sA.unacked.drop q = [] → Delivered ord (v.obtained ch) (s.submitted ch)) := by
  obtain ⟨hfu, hdue⟩ := due_after_update cfg ops s hr ch sA hfA dt hdt su hsu
  obtain ⟨-, -, e3, -, e5, e6, -, e8, -⟩ := updA_frame hsu
  have hrsu := run_snoc hr hsu
  have hdau : su.a.isDisconnected = false := by rw [e3]; exact hda
  obtain ⟨pkA, hA⟩ := allInv_reach cfg _ su hrsu hc
  obtain ⟨hinvA, -⟩ := hA.i1.invA.1.chans ch sA hfu
  obtain ⟨-, hsd, -⟩ := sorted_take_drop hinvA.sorted q
  have hun : sA.unacked = sA.unacked.take q ++ sA.unacked.drop q := (List.take_append_drop q _).symm
  -- the id below which everything is covered
  have hbound : ∀ x ∈ sA.unacked.drop q, x.1 < (su.submitted ch).length := by
    intro x hx
    have := (hA.i1.chanA ch sA hfu).1.gen _ (List.mem_of_mem_drop hx)
    exact (List.getElem?_eq_some_iff.mp this).1
  have hks2' : ∀ k ∈ ks, k < su.outA.length + (flushPk su.a).length := by
    intro k hk
    have := hks2 k hk
    unfold newIdx at this
    rw [List.mem_range'_1] at this; exact this.2
  obtain ⟨u, hu, a1, a2⟩ := round_runs cfg _ su hrsu hc hcA hdau ch (relKind_of_kind ho) sA hfu ks hks2' n
  obtain ⟨hlu, hcu, ⟨ru, hru, hroomu⟩, sA1, hf1, hsim⟩ := round_facts cfg _ su hrsu hc hcA hdau (by rw [e5]; exact hdb)
    ch sA hfu rB (by rw [e5]; exact hfB) (by rw [e6]; exact H3) H4 ks hks2 n u hu
  -- what B's application has obtained
  have hdel : (ord = true → u.obtained ch <+: su.submitted ch) ∧
      (sA.unacked.drop q = [] → Delivered ord (u.obtained ch) (su.submitted ch)) := by
    cases ord with
    | true =>
      obtain ⟨t, u', -, -, hu', -, -, -, a4⟩ := round_progress cfg _ su hrsu hc hcA hdau ch ho sA hfu
        (sA.unacked.take q) (sA.unacked.drop q) hun (cut (su.submitted ch).length (sA.unacked.drop q)) (cut_le hsd)
        (cut_le_len hbound) (fun x hx => hdue x (List.mem_of_mem_take hx)) H2 ks hks1 hks2'
        n (by
          have := cut_le_len (L := (su.submitted ch).length) hbound
          rw [e6] at this ⊢; rw [e8]; omega)
      rw [hu] at hu'; cases hu'
      obtain ⟨p1, p2⟩ := a4 hlu
      refine ⟨fun _ => p2, fun hnil => ?_⟩
      rw [hnil] at p1
      simp only [cut] at p1
      rw [List.take_length] at p1
      exact p2.eq_of_length (Nat.le_antisymm p2.length_le p1.length_le)
    | false =>
      refine ⟨fun h => (by cases h), fun hnil => ?_⟩
      have hall := List.take_append_drop q sA.unacked
      rw [hnil, List.append_nil] at hall
      obtain ⟨t, u', -, -, hu', -, -, -, hcon⟩ := round_delivers_unordered cfg _ su hrsu hc hcA hdau ch ho sA hfu hdue
        (by rw [← hall]; exact H2) ks hks1 hks2' n (by rw [e6, e8]; exact hn)
      rw [hu] at hu'; cases hu'
      exact hcon hlu
  -- the acknowledgement leg
  obtain ⟨hcB, hne, rfl⟩ := hB u hu
  have hreach : (Sys.init cfg).run ((ops ++ [SysOp.updA dt]) ++ roundOps ch ks n) = some u := by
    rw [Sys.run_append, hrsu]; exact hu
  obtain ⟨v, hv, hlv, sA', hf', hall⟩ := acks_release_after_round cfg _ su hrsu hc hcA hdau ch sA hfu
    (sA.unacked.take q) (sA.unacked.drop q) hun (fun x hx => hdue x (List.mem_of_mem_take hx)) H2 ks hks1 n u hu
    hlu hcB hne hcap
  obtain ⟨v', hv', -, hsub, hobt, hmono, hinvv, -⟩ := acks_release cfg _ u hreach a2 hlu hcB hne
  rw [hv] at hv'; cases hv'
  obtain ⟨v'', hv'', sA'', hf'', hcs, hcl⟩ := acks_release_carried cfg _ su hrsu hc hcA hdau ch sA hfu ks hks1 n u hu
    hlu hcB hne hcap
  rw [hv] at hv''; cases hv''
  rw [hf'] at hf''; cases hf''
  obtain ⟨pkU, hU1, -⟩ := system_inv cfg _ u hreach
  obtain ⟨hlvb, hrecv⟩ := ack_leg_frame hU1 hlu hcB hv
  have hrun : s.run (fullRoundOps ch dt ks n (ackIdx u)) = some v := by
    simp only [fullRoundOps, Sys.run, hsu]
    rw [Sys.run_append, hu]; exact hv
  refine ⟨v, hrun, hlv, hlvb, by rw [hsub, a1, e6], ?_, fun ho' => by rw [hobt, ← e6]; exact hdel.1 ho',
    ⟨ru, by rw [hrecv]; exact hru, by rw [← e6]; exact hroomu⟩,
    ⟨sA', hf', (hinvv.chans ch sA' hf').1, ?_, hcs, hcl⟩, ?_⟩
  · exact obtained_mono ch _ s v hrun
  · -- cost of what is left
    rintro ⟨id, u'⟩ hx
    obtain ⟨u0, h0⟩ := hall _ hx
    refine ⟨u0, h0, ?_⟩
    obtain ⟨hinv', -⟩ := hinvv.chans ch sA' hf'
    have hfind' : SMap.find? sA'.unacked id = some u' := SI.mem_find?_of_sorted hinv'.sorted hx
    obtain ⟨sA3, hf3, hm'⟩ := hmono ch sA1 hf1
    rw [hf'] at hf3; cases hf3
    obtain ⟨u1, hfind1, hcost⟩ := shrunk_of_ack hinv' hm' hfind'
    have hfind0 : SMap.find? sA.unacked id = some u0 :=
      SI.mem_find?_of_sorted hinvA.sorted (List.mem_of_mem_drop h0)
    rcases hsim.find id with ⟨h1, -⟩ | ⟨w0, w1, h1, h2, hs01⟩
    · rw [hfind0] at h1; cases h1
    · rw [hfind0] at h1; cases h1
      rw [hfind1] at h2; cases h2
      exact shrunk_of_sim hs01 hcost
  · intro hnil
    rw [hobt, ← e6]
    exact hdel.2 hnil

/-! ## Part 5 — the iteration -/

/-- the parameters of one full round: what the environment chooses -/
structure RoundP where
  /-- A's clock advances by `dt` (≥ the channel's resend time) -/
  dt : Nat
  /-- the datagrams of `outA` handed to B: those of this round's flush, in any order, repetitions allowed -/
  ks : List Nat
  /-- number of `receive_message ch` calls of B's application -/
  n : Nat
  /-- the datagram of `outB` handed to A: the last one of B's flush (its ack packet) -/
  ai : Nat

def RoundP.ops (ch : Nat) (r : RoundP) : List SysOp := fullRoundOps ch r.dt r.ks r.n r.ai

/-- the operations of the rounds `rs`, one after the other -/
def roundsOps (ch : Nat) : List RoundP → List SysOp
  | [] => []
  | r :: rs => r.ops ch ++ roundsOps ch rs

/-- side conditions of one full round, on the state `su` the flush of A starts from (i.e. after `updA r.dt`).
    `Sched su` is the scheduling hypothesis of the round (budget H2, other channels idle H4), a parameter. -/
structure TickOK (cfg : Cfg) (ch : Nat) (Sched : Sys → Prop) (su : Sys) (r : RoundP) : Prop where
  /-- counters in range (C01S / C06): nothing reaches 2^62 in A's flush -/
  counters : CountersOK cfg su
  countersA : su.a.CountersOK
  sched : Sched su
  /-- lossless: every datagram of this flush is handed to B … -/
  all : ∀ k ∈ newIdx su, k ∈ r.ks
  /-- … and nothing else -/
  exact : ∀ k ∈ r.ks, k ∈ newIdx su
  /-- B's pending-ack list stays below ACK_RANGE_CAP = 64 ranges (beyond it B forgets to acknowledge) -/
  cap : su.b.pendingAcks.length + r.ks.length < ACK_RANGE_CAP
  /-- the way back: in the state `u` after the drain, B's counters are in range, B has something to acknowledge,
      and the datagram handed to A is the last one of B's flush -/
  back : ∀ u, su.run (roundOps ch r.ks r.n) = some u → u.b.CountersOK ∧ u.b.pendingAcks ≠ [] ∧ r.ai = ackIdx u

/-- side conditions of one full round `r` started in state `s` -/
structure RoundOK (cfg : Cfg) (ch : Nat) (Sched : Sys → Prop) (s : Sys) (r : RoundP) : Prop where
  /-- the clock advances by at least the resend time of the channel -/
  timer : ∀ sA, SMap.find? s.a.sendRel ch = some sA → sA.resend ≤ r.dt
  /-- B's application asks often enough -/
  drain : (s.submitted ch).length ≤ (s.obtained ch).length + r.n
  tick : ∀ su, s.step (.updA r.dt) = some su → TickOK cfg ch Sched su r

/-- the side conditions hold for every round of `rs`, each in the state the previous rounds lead to -/
def Rounds (cfg : Cfg) (ch : Nat) (Sched : Sys → Prop) : Sys → List RoundP → Prop
  | _, [] => True
  | s, r :: rs => RoundOK cfg ch Sched s r ∧ ∀ v, s.run (r.ops ch) = some v → Rounds cfg ch Sched v rs

/-- `RoundOK` from the two intermediate states (for concrete runs) -/
theorem roundOK_of {cfg : Cfg} {ch : Nat} {Sched : Sys → Prop} {s : Sys} {r : RoundP} {su u : Sys}
    (hsu : s.step (.updA r.dt) = some su) (hu : su.run (roundOps ch r.ks r.n) = some u)
    (timer : ∀ sA, SMap.find? s.a.sendRel ch = some sA → sA.resend ≤ r.dt)
    (drain : (s.submitted ch).length ≤ (s.obtained ch).length + r.n)
    (counters : CountersOK cfg su) (countersA : su.a.CountersOK) (sched : Sched su)
    (all : ∀ k ∈ newIdx su, k ∈ r.ks) (exact : ∀ k ∈ r.ks, k ∈ newIdx su)
    (cap : su.b.pendingAcks.length + r.ks.length < ACK_RANGE_CAP)
    (hcB : u.b.CountersOK) (hne : u.b.pendingAcks ≠ []) (hai : r.ai = ackIdx u) : RoundOK cfg ch Sched s r := by
  refine ⟨timer, drain, ?_⟩
  intro su' hsu'
  have e := Option.some.inj (hsu'.symm.trans hsu)
  subst e
  refine ⟨counters, countersA, sched, all, exact, cap, ?_⟩
  intro u' hu'
  have e := Option.some.inj (hu'.symm.trans hu)
  subst e
  exact ⟨hcB, hne, hai⟩

theorem rounds_cons_of {cfg : Cfg} {ch : Nat} {Sched : Sys → Prop} {s v : Sys} {r : RoundP} {rs : List RoundP}
    (h : RoundOK cfg ch Sched s r) (hv : s.run (r.ops ch) = some v) (hrest : Rounds cfg ch Sched v rs) :
    Rounds cfg ch Sched s (r :: rs) := by
  refine ⟨h, ?_⟩
  intro v' hv'
  have e := Option.some.inj (hv'.symm.trans hv)
  subst e
  exact hrest

/-- what ONE round must achieve for the iteration.  `Good k un`: with `k` rounds to go, A's `unacked` map `un` is
    small enough.  A round started with `Good (k + 1)` must end live, with room at B, in a state that is `Good k`, and
    with everything obtained when `k = 0`. -/
def RoundStep (cfg : Cfg) (ch : Nat) (ord : Bool) (Sched : Sys → Prop) (Good : Nat → SMap Unacked → Prop) : Prop :=
  ∀ (k : Nat) (ops : List SysOp) (s : Sys) (sA : SendRel) (rB : RecvRel) (r : RoundP),
    (Sys.init cfg).run ops = some s → s.a.isDisconnected = false → s.b.isDisconnected = false →
    SMap.find? s.a.sendRel ch = some sA → SMap.find? s.b.recvRel ch = some rB → Room (s.submitted ch) rB →
    RoundOK cfg ch Sched s r → Good (k + 1) sA.unacked →
    ∃ v, s.run (r.ops ch) = some v ∧ v.a.isDisconnected = false ∧ v.b.isDisconnected = false ∧
      v.submitted = s.submitted ∧ (∃ rB', SMap.find? v.b.recvRel ch = some rB' ∧ Room (s.submitted ch) rB') ∧
      (∃ sA', SMap.find? v.a.sendRel ch = some sA' ∧ Good k sA'.unacked) ∧
      (k = 0 → Delivered ord (v.obtained ch) (s.submitted ch))

/-- **The iteration**: `k ≥ 1` rounds, each achieving `RoundStep`, started `Good k`, deliver everything. -/
theorem rounds_of_step {cfg : Cfg} {ch : Nat} {ord : Bool} {Sched : Sys → Prop} {Good : Nat → SMap Unacked → Prop}
    (hstep : RoundStep cfg ch ord Sched Good) :
    ∀ (rs : List RoundP) (ops : List SysOp) (s : Sys) (sA : SendRel) (rB : RecvRel),
      (Sys.init cfg).run ops = some s → s.a.isDisconnected = false → s.b.isDisconnected = false →
      SMap.find? s.a.sendRel ch = some sA → SMap.find? s.b.recvRel ch = some rB → Room (s.submitted ch) rB →
      Rounds cfg ch Sched s rs → rs ≠ [] → Good rs.length sA.unacked →
      ∃ u, s.run (roundsOps ch rs) = some u ∧ u.a.isDisconnected = false ∧ u.b.isDisconnected = false ∧
        u.submitted ch = s.submitted ch ∧ Delivered ord (u.obtained ch) (s.submitted ch)
  | [], _, _, _, _, _, _, _, _, _, _, _, hne, _ => absurd rfl hne
  | r :: rs, ops, s, sA, rB, hr, hda, hdb, hfA, hfB, H3, hR, _, hgood => by
    obtain ⟨hok, hnext⟩ := hR
    obtain ⟨v, hv, hlva, hlvb, hsub, ⟨rB', hfB', H3'⟩, ⟨sA', hfA', hgood'⟩, hfin⟩ :=
      hstep rs.length ops s sA rB r hr hda hdb hfA hfB H3 hok (by simpa using hgood)
    cases rs with
    | nil =>
      refine ⟨v, ?_, hlva, hlvb, by rw [hsub], hfin rfl⟩
      simp only [roundsOps, List.append_nil]; exact hv
    | cons r2 rs2 =>
      have hrv : (Sys.init cfg).run (ops ++ r.ops ch) = some v := by rw [Sys.run_append, hr]; exact hv
      obtain ⟨w, hw, w1, w2, w3, w4⟩ := rounds_of_step hstep (r2 :: rs2) _ v sA' rB' hrv hlva hlvb
        hfA' hfB' (by rw [hsub]; exact H3') (hnext v hv) (by simp) hgood'
      refine ⟨w, ?_, w1, w2, by rw [w3, hsub], by rw [hsub] at w4; exact w4⟩
      simp only [roundsOps] at hw ⊢
      rw [Sys.run_append, hv]; exact hw

/-- `RoundStep` from whole-entry coverage.  `hcover`: in a round with `k + 1` rounds to go the scheduling hypothesis
    yields H4 and a number `q` of oldest entries that the budget covers (H2) such that what can be left afterwards is
    `Good k` — and nothing is left when `k = 0`. -/
theorem step_of_cover (cfg : Cfg) (ch : Nat) (ord : Bool) (ho : KindOf cfg ch ord) (Sched : Sys → Prop) (Good : Nat → SMap Unacked → Prop)
    (hcover : ∀ (k : Nat) (ops' : List SysOp) (su : Sys) (sA : SendRel), (Sys.init cfg).run ops' = some su → Sched su →
      SMap.find? su.a.sendRel ch = some sA → Good (k + 1) sA.unacked →
      (∀ p ∈ flushPk su.a, OnlyCh ch p) ∧
      ∃ q, backlog (sA.unacked.take q) ≤ availAtTurn su.a ch ∧ (k = 0 → sA.unacked.drop q = []) ∧
        ∀ un', SI.Sorted un' → (∀ x ∈ un', ∃ u0, (x.1, u0) ∈ sA.unacked.drop q ∧ entryCost x.2 ≤ entryCost u0) →
          Good k un') :
    RoundStep cfg ch ord Sched Good := by
  intro k ops s sA rB r hr hda hdb hfA hfB H3 hok hgood
  obtain ⟨pk, h1, -⟩ := system_inv cfg ops s hr
  obtain ⟨su, hsu⟩ := updA_step h1 r.dt
  obtain ⟨hc, hcA, hsched, hall, hexact, hcap, hback⟩ := hok.tick su hsu
  obtain ⟨-, e2, -⟩ := updA_frame hsu
  obtain ⟨H4, q, H2, hlast, hleft⟩ := hcover k _ su sA (run_snoc hr hsu) hsched (by rw [e2]; exact hfA) hgood
  obtain ⟨v, hv, hlva, hlvb, hsub, -, -, hroom, ⟨sA', hfA', hinv', hemb0, -, -⟩, hfin⟩ :=
    full_round cfg ops s hr hda hdb ch ord ho sA hfA rB hfB H3 r.dt (hok.timer sA hfA) su hsu hc hcA q H2 H4 r.ks hall hexact
      r.n hok.drain hcap r.ai hback
  refine ⟨v, hv, hlva, hlvb, hsub, hroom, ⟨sA', hfA', hleft _ hinv'.sorted ?_⟩, fun hk => hfin (hlast hk)⟩
  intro x hx
  obtain ⟨u0, h0, hs0⟩ := hemb0 x hx
  exact ⟨u0, h0, entryCost_le_of_shrunk hs0⟩

/-- the iteration for whole-entry coverage -/
theorem rounds_generic (cfg : Cfg) (ch : Nat) (ord : Bool) (ho : KindOf cfg ch ord) (Sched : Sys → Prop) (Good : Nat → SMap Unacked → Prop)
    (hcover : ∀ (k : Nat) (ops' : List SysOp) (su : Sys) (sA : SendRel), (Sys.init cfg).run ops' = some su → Sched su →
      SMap.find? su.a.sendRel ch = some sA → Good (k + 1) sA.unacked →
      (∀ p ∈ flushPk su.a, OnlyCh ch p) ∧
      ∃ q, backlog (sA.unacked.take q) ≤ availAtTurn su.a ch ∧ (k = 0 → sA.unacked.drop q = []) ∧
        ∀ un', SI.Sorted un' → (∀ x ∈ un', ∃ u0, (x.1, u0) ∈ sA.unacked.drop q ∧ entryCost x.2 ≤ entryCost u0) →
          Good k un') :
    ∀ (rs : List RoundP) (ops : List SysOp) (s : Sys) (sA : SendRel) (rB : RecvRel),
      (Sys.init cfg).run ops = some s → s.a.isDisconnected = false → s.b.isDisconnected = false →
      SMap.find? s.a.sendRel ch = some sA → SMap.find? s.b.recvRel ch = some rB → Room (s.submitted ch) rB →
      Rounds cfg ch Sched s rs → rs ≠ [] → Good rs.length sA.unacked →
      ∃ u, s.run (roundsOps ch rs) = some u ∧ u.a.isDisconnected = false ∧ u.b.isDisconnected = false ∧
        u.submitted ch = s.submitted ch ∧ Delivered ord (u.obtained ch) (s.submitted ch) :=
  rounds_of_step (step_of_cover cfg ch ord ho Sched Good hcover)

/-! ### instances of the scheduling hypothesis -/

/-- H4 and H2 for the `q` oldest entries: the flush carries only channel `ch` (and acks), and the budget left at the
    channel's turn covers the first `q` entries of its `unacked` map (or all, when there are fewer) -/
def SchedCount (ch q : Nat) (su : Sys) : Prop :=
  (∀ p ∈ flushPk su.a, OnlyCh ch p) ∧
  ∀ sA, SMap.find? su.a.sendRel ch = some sA → backlog (sA.unacked.take q) ≤ availAtTurn su.a ch

/-- H4 and at least `B` bytes of budget left at the channel's turn -/
def SchedBytes (ch B : Nat) (su : Sys) : Prop :=
  (∀ p ∈ flushPk su.a, OnlyCh ch p) ∧ B ≤ availAtTurn su.a ch

/-- **k rounds, entry count.**  Every round covers the `q` oldest entries: `k` rounds with `k * q ≥` number of stored
    entries (and `k ≥ 1`) deliver everything. -/
theorem rounds_count (cfg : Cfg) (ops : List SysOp) (s : Sys) (hr : (Sys.init cfg).run ops = some s)
    (hda : s.a.isDisconnected = false) (hdb : s.b.isDisconnected = false)
    (ch : Nat) (ord : Bool) (ho : KindOf cfg ch ord) (sA : SendRel) (hfA : SMap.find? s.a.sendRel ch = some sA)
    (rB : RecvRel) (hfB : SMap.find? s.b.recvRel ch = some rB) (H3 : Room (s.submitted ch) rB)
    (q : Nat) (rs : List RoundP) (hR : Rounds cfg ch (SchedCount ch q) s rs)
    (hk1 : rs ≠ []) (hk : sA.unacked.length ≤ rs.length * q) :
    ∃ u, s.run (roundsOps ch rs) = some u ∧ u.a.isDisconnected = false ∧ u.b.isDisconnected = false ∧
      u.submitted ch = s.submitted ch ∧ Delivered ord (u.obtained ch) (s.submitted ch) := by
  refine rounds_generic cfg ch ord ho (SchedCount ch q) (fun k un => un.length ≤ k * q) ?_ rs ops s sA rB hr hda hdb hfA hfB H3
    hR hk1 hk
  intro k ops' su sA' _ hs hf hg
  refine ⟨hs.1, q, hs.2 sA' hf, ?_, ?_⟩
  · intro hk0
    subst hk0
    apply List.drop_eq_nil_of_le
    simpa using hg
  · intro un' hsort hemb
    have h1 := keys_length_le hsort (fun x hx => by obtain ⟨u0, h0, -⟩ := hemb x hx; exact ⟨u0, h0⟩)
    rw [List.length_drop] at h1
    rw [Nat.succ_mul] at hg
    omega

/-- the greedy prefix, with the entry that stops it -/
theorem exists_greedy {B : Nat} : ∀ (un : SMap Unacked),
    ∃ q, backlog (un.take q) ≤ B ∧ (un.drop q = [] ∨ ∃ x rest, un.drop q = x :: rest ∧ B < backlog (un.take q) + entryCost x.2)
  | [] => ⟨0, by simp, Or.inl rfl⟩
  | (k, u) :: r => by
    by_cases hfit : entryCost u ≤ B
    · obtain ⟨q, hq1, hq2⟩ := exists_greedy (B := B - entryCost u) r
      refine ⟨q + 1, ?_, ?_⟩
      · simp only [List.take_succ_cons, backlog_cons]; omega
      · simp only [List.drop_succ_cons, List.take_succ_cons, backlog_cons]
        rcases hq2 with e | ⟨x, rest, e, hlt⟩
        · exact Or.inl e
        · exact Or.inr ⟨x, rest, e, by omega⟩
    · exact ⟨0, by simp, Or.inr ⟨(k, u), r, rfl, by simp only [List.take_zero, backlog_nil]; omega⟩⟩

/-- **k rounds, bytes.**  Every stored entry costs at most `c ≤ B` bytes and every round offers the channel at least
    `B` bytes: each round that does not finish reduces the backlog by at least `B - c + 1` bytes, so `k` rounds with
    `k * (B - c + 1) ≥ backlog` (and `k ≥ 1`) deliver everything. -/
theorem rounds_bytes (cfg : Cfg) (ops : List SysOp) (s : Sys) (hr : (Sys.init cfg).run ops = some s)
    (hda : s.a.isDisconnected = false) (hdb : s.b.isDisconnected = false)
    (ch : Nat) (ord : Bool) (ho : KindOf cfg ch ord) (sA : SendRel) (hfA : SMap.find? s.a.sendRel ch = some sA)
    (rB : RecvRel) (hfB : SMap.find? s.b.recvRel ch = some rB) (H3 : Room (s.submitted ch) rB)
    (B c : Nat) (hcB : c ≤ B) (hcost : ∀ x ∈ sA.unacked, entryCost x.2 ≤ c)
    (Sched : Sys → Prop)
    (hS : ∀ ops' su, (Sys.init cfg).run ops' = some su → Sched su →
      (∀ p ∈ flushPk su.a, OnlyCh ch p) ∧ B ≤ availAtTurn su.a ch)
    (rs : List RoundP) (hR : Rounds cfg ch Sched s rs)
    (hk1 : rs ≠ []) (hk : backlog sA.unacked ≤ rs.length * (B - c + 1)) :
    ∃ u, s.run (roundsOps ch rs) = some u ∧ u.a.isDisconnected = false ∧ u.b.isDisconnected = false ∧
      u.submitted ch = s.submitted ch ∧ Delivered ord (u.obtained ch) (s.submitted ch) := by
  refine rounds_generic cfg ch ord ho Sched
    (fun k un => (∀ x ∈ un, entryCost x.2 ≤ c) ∧ backlog un ≤ k * (B - c + 1)) ?_ rs ops s sA rB hr hda hdb hfA hfB H3
    hR hk1 ⟨hcost, hk⟩
  intro k ops' su sA' hr' hs hf hg
  obtain ⟨hg1, hg2⟩ := hg
  obtain ⟨H4, hB⟩ := hS ops' su hr' hs
  obtain ⟨pk, h1, -⟩ := system_inv cfg ops' su hr'
  obtain ⟨hinv, -⟩ := h1.invA.1.chans ch sA' hf
  obtain ⟨q, hq1, hq2⟩ := exists_greedy (B := B) sA'.unacked
  obtain ⟨-, hsd, -⟩ := sorted_take_drop hinv.sorted q
  have hsum := backlog_take_drop sA'.unacked q
  refine ⟨H4, q, Nat.le_trans hq1 hB, ?_, ?_⟩
  · intro hk0
    subst hk0
    rcases hq2 with e | ⟨⟨kx, ux⟩, rest, e, hlt⟩
    · exact e
    · exfalso
      rw [e] at hsum
      simp only [backlog_cons] at hsum
      simp only [Nat.zero_add, Nat.one_mul] at hg2
      have hxc : entryCost ux ≤ c := hg1 (kx, ux) (List.mem_of_mem_drop (by rw [e]; exact List.mem_cons_self ..))
      dsimp only at hlt
      omega
  · intro un' hsort hemb
    refine ⟨?_, ?_⟩
    · intro x hx
      obtain ⟨u0, h0, hc0⟩ := hemb x hx
      exact Nat.le_trans hc0 (hg1 _ (List.mem_of_mem_drop h0))
    · have hle := backlog_le_of_embed un' _ hsort hsd hemb
      rcases hq2 with e | ⟨⟨kx, ux⟩, rest, e, hlt⟩
      · rw [e] at hle
        simp only [backlog_nil] at hle
        omega
      · have hxc : entryCost ux ≤ c := hg1 (kx, ux) (List.mem_of_mem_drop (by rw [e]; exact List.mem_cons_self ..))
        rw [Nat.succ_mul] at hg2
        dsimp only at hlt
        omega

/-- the same for a configuration whose only A → B channel is the ReliableOrdered channel `ch`: the budget offered
    to the channel is `available_bytes_per_tick`, and the flush carries nothing else (H2/H4 need no hypothesis) -/
theorem rounds_bytes_single (cfg : Cfg) (ops : List SysOp) (s : Sys) (hr : (Sys.init cfg).run ops = some s)
    (hda : s.a.isDisconnected = false) (hdb : s.b.isDisconnected = false)
    (ch : Nat) (hsingle : Single cfg ch) (sA : SendRel) (hfA : SMap.find? s.a.sendRel ch = some sA)
    (rB : RecvRel) (hfB : SMap.find? s.b.recvRel ch = some rB) (H3 : Room (s.submitted ch) rB)
    (c : Nat) (hcB : c ≤ cfg.budget) (hcost : ∀ x ∈ sA.unacked, entryCost x.2 ≤ c)
    (rs : List RoundP) (hR : Rounds cfg ch (fun _ => True) s rs)
    (hk1 : rs ≠ []) (hk : backlog sA.unacked ≤ rs.length * (cfg.budget - c + 1)) :
    ∃ u, s.run (roundsOps ch rs) = some u ∧ u.a.isDisconnected = false ∧ u.b.isDisconnected = false ∧
      u.submitted ch = s.submitted ch ∧ u.obtained ch = s.submitted ch := by
  refine rounds_bytes cfg ops s hr hda hdb ch true (single_ordered hsingle) sA hfA rB hfB H3 cfg.budget c hcB hcost
    (fun _ => True) ?_ rs hR hk1 hk
  intro ops' su hr' _
  obtain ⟨pkU, hU, -⟩ := system_inv cfg ops' su hr'
  exact ⟨single_only hU.invA.1 (single_order hsingle hU), by rw [single_avail hsingle hU]; exact Nat.le_refl _⟩

/-! ## Part 6 — executable checkers for the side conditions (used for concrete examples) -/

instance (L : List Bytes) (r : RecvRel) : Decidable (Room L r) := by unfold Room; infer_instance

instance (ch : Nat) (p : Packet) : Decidable (OnlyCh ch p) := by
  cases p <;> unfold OnlyCh <;> infer_instance

def countersSysb (cfg : Cfg) (s : Sys) : Bool :=
  decide (∀ c ∈ cfg.send, c.id < 256) && decide (s.a.packetSeq ≤ Varint.MAX + 1) &&
  decide (∀ c ∈ cfg.send, (s.submitted c.id).length ≤ Varint.MAX + 1) &&
  decide (∀ c ∈ cfg.send, ∀ m ∈ s.submitted c.id, m.length ≤ MAX_NUM_SLICES * SLICE_SIZE) &&
  decide (∀ c ∈ cfg.send, ∀ m ∈ s.submittedU c.id, m.length ≤ MAX_NUM_SLICES * SLICE_SIZE)

theorem countersSys_of_b {cfg : Cfg} {s : Sys} (h : countersSysb cfg s = true) : CountersOK cfg s := by
  simp only [countersSysb, Bool.and_eq_true, decide_eq_true_eq] at h
  obtain ⟨⟨⟨⟨h1, h2⟩, h3⟩, h4⟩, h5⟩ := h
  exact ⟨h1, h2, h3, h4, h5⟩

def tickOKb (cfg : Cfg) (ch : Nat) (schedb : Sys → Bool) (su : Sys) (r : RoundP) : Bool :=
  countersSysb cfg su && CI.countersOKb su.a && schedb su &&
  decide (∀ k ∈ newIdx su, k ∈ r.ks) && decide (∀ k ∈ r.ks, k ∈ newIdx su) &&
  decide (su.b.pendingAcks.length + r.ks.length < ACK_RANGE_CAP) &&
  (match su.run (roundOps ch r.ks r.n) with
   | some u => CI.countersOKb u.b && !u.b.pendingAcks.isEmpty && decide (r.ai = ackIdx u)
   | none => true)

def roundOKb (cfg : Cfg) (ch : Nat) (schedb : Sys → Bool) (s : Sys) (r : RoundP) : Bool :=
  (match SMap.find? s.a.sendRel ch with
   | some sA => decide (sA.resend ≤ r.dt)
   | none => true) &&
  decide ((s.submitted ch).length ≤ (s.obtained ch).length + r.n) &&
  (match s.step (.updA r.dt) with
   | some su => tickOKb cfg ch schedb su r
   | none => true)

def roundsb (cfg : Cfg) (ch : Nat) (schedb : Sys → Bool) : Sys → List RoundP → Bool
  | _, [] => true
  | s, r :: rs => roundOKb cfg ch schedb s r &&
    (match s.run (r.ops ch) with
     | some v => roundsb cfg ch schedb v rs
     | none => true)

theorem tickOK_of_b {cfg : Cfg} {ch : Nat} {Sched : Sys → Prop} {schedb : Sys → Bool}
    (hS : ∀ su, schedb su = true → Sched su) {su : Sys} {r : RoundP} (h : tickOKb cfg ch schedb su r = true) :
    TickOK cfg ch Sched su r := by
  simp only [tickOKb, Bool.and_eq_true, decide_eq_true_eq] at h
  obtain ⟨⟨⟨⟨⟨⟨h1, h2⟩, h3⟩, h4⟩, h5⟩, h6⟩, h7⟩ := h
  refine ⟨countersSys_of_b h1, CI.countersOK_of_b h2, hS su h3, h4, h5, h6, ?_⟩
  intro u hu
  rw [hu] at h7
  simp only [Bool.and_eq_true, decide_eq_true_eq, Bool.not_eq_true', List.isEmpty_eq_false_iff] at h7
  exact ⟨CI.countersOK_of_b h7.1.1, h7.1.2, h7.2⟩

theorem roundOK_of_b {cfg : Cfg} {ch : Nat} {Sched : Sys → Prop} {schedb : Sys → Bool}
    (hS : ∀ su, schedb su = true → Sched su) {s : Sys} {r : RoundP} (h : roundOKb cfg ch schedb s r = true) :
    RoundOK cfg ch Sched s r := by
  simp only [roundOKb, Bool.and_eq_true, decide_eq_true_eq] at h
  obtain ⟨⟨h1, h2⟩, h3⟩ := h
  refine ⟨?_, h2, ?_⟩
  · intro sA hf
    rw [hf] at h1
    simpa using h1
  · intro su hsu
    rw [hsu] at h3
    exact tickOK_of_b hS h3

/-- soundness of the checker: `roundsb … = true` (by `decide +kernel` on a concrete state) gives `Rounds` -/
theorem rounds_of_b {cfg : Cfg} {ch : Nat} {Sched : Sys → Prop} {schedb : Sys → Bool}
    (hS : ∀ su, schedb su = true → Sched su) : ∀ (rs : List RoundP) (s : Sys), roundsb cfg ch schedb s rs = true →
    Rounds cfg ch Sched s rs
  | [], _, _ => trivial
  | r :: rs, s, h => by
    simp only [roundsb, Bool.and_eq_true] at h
    refine ⟨roundOK_of_b hS h.1, ?_⟩
    intro v hv
    have h2 := h.2
    rw [hv] at h2
    exact rounds_of_b hS rs v h2

def schedCountb (ch q : Nat) (su : Sys) : Bool :=
  decide (∀ p ∈ flushPk su.a, OnlyCh ch p) &&
  (match SMap.find? su.a.sendRel ch with
   | some sA => decide (backlog (sA.unacked.take q) ≤ availAtTurn su.a ch)
   | none => true)

theorem schedCount_of_b (ch q : Nat) (su : Sys) (h : schedCountb ch q su = true) : SchedCount ch q su := by
  simp only [schedCountb, Bool.and_eq_true, decide_eq_true_eq] at h
  refine ⟨h.1, ?_⟩
  intro sA hf
  have h2 := h.2
  rw [hf] at h2
  simpa using h2

def schedBytesb (ch B : Nat) (su : Sys) : Bool :=
  decide (∀ p ∈ flushPk su.a, OnlyCh ch p) && decide (B ≤ availAtTurn su.a ch)

theorem schedBytes_of_b (ch B : Nat) (su : Sys) (h : schedBytesb ch B su = true) : SchedBytes ch B su := by
  simp only [schedBytesb, Bool.and_eq_true, decide_eq_true_eq] at h
  exact h

/-! ## Part 7 — slice granularity: a flush that covers only SOME slices of a sliced entry -/

/-- the slice loop over a longer list emits at least what it emits over a prefix of the list -/
theorem slicedLoop_append_mono (ch id now resend : Nat) (m : Bytes) (n start : Nat) (ak : List Bool) (l2 : List Nat) :
    ∀ (l1 : List Nat) (ls : List (Option Nat)) (next : Nat) (gp : GP),
    Mono (slicedLoop ch id now resend m n start ak l1 (ls, next, gp)).2.2
      (slicedLoop ch id now resend m n start ak (l1 ++ l2) (ls, next, gp)).2.2
  | [], ls, next, gp => by
    rw [slicedLoop_nil, List.nil_append]
    exact slicedLoop_mono ch id now resend m n start ak l2 ls next gp
  | i0 :: rest, ls, next, gp => by
    rw [List.cons_append, slicedLoop_cons, slicedLoop_cons]
    split
    · exact Mono.refl _
    · split
      · exact slicedLoop_append_mono ch id now resend m n start ak l2 rest ls next gp
      · exact slicedLoop_append_mono ch id now resend m n start ak l2 rest _ _ _

/-- the first `n1` positions of the slice loop are transmitted when the budget covers the un-acknowledged ones -/
theorem slicedLoop_cover_part (ch id now resend : Nat) (m : Bytes) (n start : Nat) (ak : List Bool)
    (hfit : m.length ≤ n * SLICE_SIZE) (n1 : Nat) (hn1 : n1 ≤ n) (ls : List (Option Nat)) (next : Nat) (gp : GP)
    (hav : SLICE_SIZE * cntLoop n start ak (List.range n1) ≤ gp.avail)
    (hdue : ∀ i, i < n → ak.getD i false = false → smallDue now resend (ls.getD i none) = true) :
    ∀ i0, i0 < n1 → ak.getD ((start + i0) % n) false = false →
      SliceIn (slicedLoop ch id now resend m n start ak (List.range n) (ls, next, gp)).2.2.packets ch id ((start + i0) % n) n m := by
  intro i0 hi0 hak
  have hnpos : 0 < n := by omega
  obtain ⟨-, h2⟩ := slicedLoop_cover ch id now resend m n start ak hfit (List.range n1) ls next gp hav
    (fun j0 _ hj => Or.inl (hdue _ (Nat.mod_lt _ hnpos) hj))
  have hsplit : List.range n = List.range n1 ++ (List.range (n - n1)).map (n1 + ·) := by
    have : n = n1 + (n - n1) := by omega
    conv => lhs; rw [this]
    exact List.range_add
  rw [hsplit]
  exact (h2 i0 (List.mem_range.mpr hi0) hak).mono (slicedLoop_append_mono ch id now resend m n start ak _ _ ls next gp).1

/-- **One flush of a reliable send channel, slice form.**  The entries `pre` with the smallest ids AND the
    un-acknowledged slices at the first `n1` loop positions of the next entry (a sliced message; the loop starts at
    its round-robin cursor `nx`) are transmitted when they are due and the budget covers them. -/
theorem getPackets_cover_part {s s' : SendRel} {seq avail now seq' avail' : Nat} {ps : List Packet}
    (h : s.getPackets seq avail now = (s', ps, seq', avail')) (hi : s.Inv)
    {pre post : SMap Unacked} {id : Nat} {m : Bytes} {n na nx : Nat} {ak : List Bool} {ls : List (Option Nat)}
    (hun : s.unacked = pre ++ (id, Unacked.sliced m n na nx ak ls) :: post)
    (hdue : AllDue now s.resend (pre ++ [(id, Unacked.sliced m n na nx ak ls)]))
    (n1 : Nat) (hn1 : n1 ≤ n) (hav : backlog pre + SLICE_SIZE * cntLoop n nx ak (List.range n1) ≤ avail) :
    ∀ i0, i0 < n1 → ak.getD ((nx + i0) % n) false = false → SliceIn ps s.ch id ((nx + i0) % n) n m := by
  rw [SendRel.getPackets_eq] at h
  simp only [Prod.mk.injEq] at h
  obtain ⟨_, rfl, _, _⟩ := h
  have hfitpre : SlicedFit pre := by
    intro id' m' n' na' nx' ak' ls' hx
    obtain ⟨-, o2, -⟩ := hi.entries _ (by rw [hun]; exact List.mem_append_left _ hx)
    rw [o2]; exact divCeil_mul_ge _
  have hfit : m.length ≤ n * SLICE_SIZE := by
    obtain ⟨-, o2, -⟩ := hi.entries (id, Unacked.sliced m n na nx ak ls)
      (by rw [hun]; exact List.mem_append_right _ (List.mem_cons_self ..))
    rw [o2]; exact divCeil_mul_ge _
  obtain ⟨hb, -⟩ := relLoop_cover s.ch now s.resend pre ⟨[], [], 0, seq, avail⟩ hfitpre
    (fun x hx => hdue x (List.mem_append_left _ hx)) (by dsimp only; omega)
  dsimp only at hb
  have hd0 : EntryDue now s.resend (Unacked.sliced m n na nx ak ls) :=
    hdue (id, _) (List.mem_append_right _ (List.mem_singleton.mpr rfl))
  simp only [EntryDue] at hd0
  intro i0 hi0 hak
  have hcov := slicedLoop_cover_part s.ch id now s.resend m n nx ak hfit n1 hn1 ls nx
    (relLoop s.ch now s.resend pre ⟨[], [], 0, seq, avail⟩).2 (by omega) hd0 i0 hi0 hak
  refine SliceIn.mono (Mono_finishRel s.ch _).1 ?_
  rw [hun, relLoop_append, relLoop_sliced]
  dsimp only
  exact hcov.mono (relLoop_mono s.ch now s.resend post _).1

/-- **One flush of a live connection whose counters are in range**, generic form: it returns normally, leaves the
    connection live, and contains every packet that channel `ch` emits when it is offered `availAtTurn c ch` bytes. -/
theorem flush_contains {c : Conn} (hinv : c.Inv) (hcnt : c.CountersOK) (hd : c.isDisconnected = false) {ch : Nat}
    {sA : SendRel} (hf : SMap.find? c.sendRel ch = some sA) (hord : (true, ch) ∈ c.order) :
    ∃ c' bs seq1, c.getPacketsToSend = .ok (c', bs) ∧ c'.isDisconnected = false ∧ c'.packetSeq ≤ Varint.MAX + 1 ∧
      ∀ p ∈ (sA.getPackets seq1 (availAtTurn c ch) c.now).2.1, p ∈ flushPk c := by
  obtain ⟨c', bs, e, hst, -, hps⟩ := Conn.getPacketsToSend_fits c (CI.flushInv_of hinv hcnt) hcnt.seq
  have hd' : c'.isDisconnected = false := by rw [isDisconnected_congr hst]; exact hd
  rcases getPacketsToSend_unfold e with ⟨hd1, -, -⟩ | ⟨-, sr, su, pk0, seq0, avail, sent, hl, -, hser⟩
  · rw [hd] at hd1; cases hd1
  · have hfp : flushPk c = (if c.pendingAcks.isEmpty then pk0 else pk0 ++ [Packet.ack seq0 c.pendingAcks]) := by
      rcases hser with ⟨hok, -⟩ | ⟨er, -, -, rfl⟩
      · unfold flushPk; rw [hd]; simp only [Bool.false_eq_true, ↓reduceIte, hl, hok]
      · rw [disconnectWith_isDisconnected] at hd'; cases hd'
    have hsub : ∀ p ∈ pk0, p ∈ flushPk c := by
      intro p hp; rw [hfp]; split
      · exact hp
      · exact List.mem_append_left _ hp
    obtain ⟨posto, hdrop⟩ := dropWhile_of_mem hord
    have hsplit : c.order = c.order.takeWhile (fun x => x != (true, ch)) ++ (true, ch) :: posto := by
      rw [← hdrop]; exact (List.takeWhile_append_dropWhile ..).symm
    have hnot : (true, ch) ∉ c.order.takeWhile (fun x => x != (true, ch)) := not_mem_takeWhile_ne _
    unfold availAtTurn
    rw [hsplit] at hl
    generalize c.order.takeWhile (fun x => x != (true, ch)) = preo at *
    obtain ⟨sr1, su1, pk1, seq1, avail1, hl1, -, -, hl2⟩ :=
      chanLoop_offered c.now preo posto (true, ch) _ _ _ _ _ (relMapFit_of_inv hinv.send) hl
    rw [hl1]
    dsimp only
    have hf1 : SMap.find? sr1 ch = some sA := by
      have := chanLoop_find_other c.now ch preo _ _ hnot hl1
      dsimp only at this; rw [this]; exact hf
    have hfit1 : RelMapFit sr1 := by
      obtain ⟨_, _, _, _, _, h5⟩ := chanLoop_budget c.now preo _ _ _ _ _ _ _ _ _ _ (relMapFit_of_inv hinv.send) hl1
      exact h5
    rw [chanLoop_rel_step, hf1] at hl2
    dsimp only at hl2
    obtain ⟨ps, hps', -⟩ := chanLoop_budget c.now posto _ _ _ _ _ _ _ _ _ _
      (RelMapFit_insert sr1 ch _ hfit1 (SendRel.getPackets_fit sA seq1 avail1 c.now (hfit1 ch sA hf1))) hl2
    refine ⟨c', bs, seq1, e, hd', Nat.le_trans hps hcnt.seq, ?_⟩
    intro p hp
    apply hsub
    rw [hps']
    exact List.mem_append_left _ (List.mem_append_right _ hp)

/-! ### counting slices -/

theorem loop_nodup (n nx : Nat) (l : List Nat) (hl : l.Nodup) (hb : ∀ x ∈ l, x < n) :
    (l.map (fun i0 => (nx + i0) % n)).Nodup := by
  rw [List.Nodup, List.pairwise_map]
  refine hl.imp_of_mem ?_
  intro a b ha hb' hne he
  exact hne (mod_inj nx n a b (hb a ha) (hb b hb') he)

/-- every un-acknowledged slice is met by the slice loop -/
theorem unackedIdx_le_cntLoop (n nx : Nat) (ak : List Bool) : (unackedIdx n ak).length ≤ cntLoop n nx ak (List.range n) := by
  have h := nodup_subset_length
    (((List.range n).filter (fun i0 => !(ak.getD ((nx + i0) % n) false))).map (fun i0 => (nx + i0) % n))
    (unackedIdx n ak) ((List.nodup_range (n := n)).filter _) (by
      intro i hi
      unfold unackedIdx at hi
      obtain ⟨h1, h2⟩ := List.mem_filter.mp hi
      obtain ⟨i0, hi0, rfl⟩ := exists_loop_index nx n i (List.mem_range.mp h1)
      exact List.mem_map.mpr ⟨i0, List.mem_filter.mpr ⟨List.mem_range.mpr hi0, h2⟩, rfl⟩)
  rw [List.length_map] at h
  exact h

/-- what is left un-acknowledged (`ak'`) after the un-acknowledged slices at the first `n1` loop positions have been
    acknowledged, plus those slices, is at most what was un-acknowledged before (`ak`) -/
theorem leftover_count (n nx n1 : Nat) (hn1 : n1 ≤ n) (ak ak' : List Bool)
    (hsub : ∀ i, i < n → ak'.getD i false = false → ak.getD i false = false)
    (hcov : ∀ i0, i0 < n1 → ak.getD ((nx + i0) % n) false = false → ak'.getD ((nx + i0) % n) false = true) :
    (unackedIdx n ak').length + cntLoop n nx ak (List.range n1) ≤ (unackedIdx n ak).length := by
  by_cases hn : n = 0
  · subst hn
    have : n1 = 0 := by omega
    subst this
    simp [unackedIdx, cntLoop]
  have hpos : 0 < n := by omega
  have hnd2 : (((List.range n1).filter (fun i0 => !(ak.getD ((nx + i0) % n) false))).map (fun i0 => (nx + i0) % n)).Nodup :=
    loop_nodup n nx _ ((List.nodup_range (n := n1)).filter _) (by
      intro x hx
      have := List.mem_range.mp (List.mem_filter.mp hx).1
      omega)
  have hnd : (unackedIdx n ak' ++
      ((List.range n1).filter (fun i0 => !(ak.getD ((nx + i0) % n) false))).map (fun i0 => (nx + i0) % n)).Nodup := by
    rw [List.nodup_append]
    refine ⟨(List.nodup_range (n := n)).filter _, hnd2, ?_⟩
    intro a ha b hb hab
    subst hab
    unfold unackedIdx at ha
    obtain ⟨-, h2⟩ := List.mem_filter.mp ha
    obtain ⟨i0, hi0, rfl⟩ := List.mem_map.mp hb
    obtain ⟨h3, h4⟩ := List.mem_filter.mp hi0
    have := hcov i0 (List.mem_range.mp h3) (by simpa using h4)
    rw [this] at h2
    cases h2
  have hlen := filter_len_le (fun i => !(ak.getD i false)) n _ hnd (by
    intro x hx
    rcases List.mem_append.mp hx with h | h
    · unfold unackedIdx at h
      exact List.mem_range.mp (List.mem_filter.mp h).1
    · obtain ⟨i0, -, rfl⟩ := List.mem_map.mp h
      exact Nat.mod_lt _ hpos)
  rw [List.filter_eq_self.mpr (by
    intro x hx
    rcases List.mem_append.mp hx with h | h
    · unfold unackedIdx at h
      obtain ⟨h1, h2⟩ := List.mem_filter.mp h
      have := hsub x (List.mem_range.mp h1) (by simpa using h2)
      rw [this]; rfl
    · obtain ⟨i0, hi0, rfl⟩ := List.mem_map.mp h
      exact (List.mem_filter.mp hi0).2)] at hlen
  rw [List.length_append, List.length_map] at hlen
  exact hlen

/-- discrete intermediate value: a property that holds at 0 and fails at `n` holds at some `j < n` and fails at `j + 1` -/
theorem exists_last {P : Nat → Prop} : ∀ (n : Nat), P 0 → ¬ P n → ∃ j, j < n ∧ P j ∧ ¬ P (j + 1)
  | 0, h0, hn => absurd h0 hn
  | n + 1, h0, hn => by
    by_cases h : P n
    · exact ⟨n, Nat.lt_succ_self n, h, hn⟩
    · obtain ⟨j, hj, h1, h2⟩ := exists_last n h0 h
      exact ⟨j, by omega, h1, h2⟩

/-! ## Part 8 — one full round at slice granularity, and the general byte bound -/

theorem cntLoop_succ_le (n nx : Nat) (ak : List Bool) (j : Nat) :
    cntLoop n nx ak (List.range (j + 1)) ≤ cntLoop n nx ak (List.range j) + 1 := by
  unfold cntLoop
  rw [List.range_succ, List.filter_append, List.length_append]
  have := List.length_filter_le (fun i0 => !(ak.getD ((nx + i0) % n) false)) [j]
  simp only [List.length_singleton] at this
  omega

/-- **One full round, slice form.**  The budget offered to channel `ch` covers the entries `pre` (smallest ids) and the
    un-acknowledged slices at the first `n1` loop positions of the NEXT entry, a sliced message.  After the round
    A's `unacked` holds entries of the uncovered rest `post`, none more expensive than before, and possibly that
    sliced entry — cheaper by `SLICE_SIZE` for every slice that was covered. -/
theorem full_round_part (cfg : Cfg) (ops : List SysOp) (s : Sys) (hr : (Sys.init cfg).run ops = some s)
    (hda : s.a.isDisconnected = false) (hdb : s.b.isDisconnected = false)
    (ch : Nat) (ord : Bool) (ho : KindOf cfg ch ord) (sA : SendRel) (hfA : SMap.find? s.a.sendRel ch = some sA)
    (rB : RecvRel) (hfB : SMap.find? s.b.recvRel ch = some rB) (H3 : Room (s.submitted ch) rB)
    (dt : Nat) (hdt : sA.resend ≤ dt) (su : Sys) (hsu : s.step (.updA dt) = some su)
    (hc : CountersOK cfg su) (hcA : su.a.CountersOK)
    (pre post : SMap Unacked) (id : Nat) (m : Bytes) (n na nx : Nat) (ak : List Bool) (ls : List (Option Nat))
    (hun : sA.unacked = pre ++ (id, Unacked.sliced m n na nx ak ls) :: post)
    (n1 : Nat) (hn1 : n1 ≤ n)
    (H2 : backlog pre + SLICE_SIZE * cntLoop n nx ak (List.range n1) ≤ availAtTurn su.a ch)
    (H4 : ∀ p ∈ flushPk su.a, OnlyCh ch p)
    (ks : List Nat) (hks1 : ∀ k ∈ newIdx su, k ∈ ks) (hks2 : ∀ k ∈ ks, k ∈ newIdx su)
    (nr : Nat) (hn : (s.submitted ch).length ≤ (s.obtained ch).length + nr)
    (hcap : su.b.pendingAcks.length + ks.length < ACK_RANGE_CAP)
    (ai : Nat)
    (hB : ∀ u, su.run (roundOps ch ks nr) = some u → u.b.CountersOK ∧ u.b.pendingAcks ≠ [] ∧ ai = ackIdx u) :
    ∃ v, s.run (fullRoundOps ch dt ks nr ai) = some v ∧
      v.a.isDisconnected = false ∧ v.b.isDisconnected = false ∧ v.submitted = s.submitted ∧
      (∃ rB', SMap.find? v.b.recvRel ch = some rB' ∧ Room (s.submitted ch) rB') ∧
      (∃ sA', SMap.find? v.a.sendRel ch = some sA' ∧ sA'.Inv ∧
        ∀ x ∈ sA'.unacked, (∃ u0, (x.1, u0) ∈ post ∧ entryCost x.2 ≤ entryCost u0) ∨
          (x.1 = id ∧ entryCost x.2 + SLICE_SIZE * cntLoop n nx ak (List.range n1) ≤
            SLICE_SIZE * (unackedIdx n ak).length)) := by
  have htake : sA.unacked.take pre.length = pre := by rw [hun]; simp
  have hdrop : sA.unacked.drop pre.length = (id, Unacked.sliced m n na nx ak ls) :: post := by rw [hun]; simp
  obtain ⟨v, hv, hlva, hlvb, hsub, -, -, hroom, ⟨sA', hfA', hinv', hemb, -, hcl⟩, -⟩ :=
    full_round cfg ops s hr hda hdb ch ord ho sA hfA rB hfB H3 dt hdt su hsu hc hcA pre.length
      (by rw [htake]; omega) H4 ks hks1 hks2 nr hn hcap ai hB
  refine ⟨v, hv, hlva, hlvb, hsub, hroom, sA', hfA', hinv', ?_⟩
  -- the slices the flush carried
  obtain ⟨hfu, hdue⟩ := due_after_update cfg ops s hr ch sA hfA dt hdt su hsu
  obtain ⟨-, -, e3, -⟩ := updA_frame hsu
  have hrsu := run_snoc hr hsu
  obtain ⟨pkA, hA⟩ := allInv_reach cfg _ su hrsu hc
  obtain ⟨hinvA, hch⟩ := hA.i1.invA.1.chans ch sA hfu
  obtain ⟨c', bs, seq1, -, -, -, hcont⟩ := flush_contains (reach_conn hA.i1.reachA).1 hcA (by rw [e3]; exact hda) hfu
    (order_mem hA.i1.reachA hfu)
  have hcov : ∀ i0, i0 < n1 → ak.getD ((nx + i0) % n) false = false →
      SliceIn (flushPk su.a) ch id ((nx + i0) % n) n m := by
    intro i0 hi0 hak
    have := getPackets_cover_part (s := sA) (seq := seq1) (avail := availAtTurn su.a ch) (now := su.a.now)
      (s' := (sA.getPackets seq1 (availAtTurn su.a ch) su.a.now).1)
      (ps := (sA.getPackets seq1 (availAtTurn su.a ch) su.a.now).2.1)
      (seq' := (sA.getPackets seq1 (availAtTurn su.a ch) su.a.now).2.2.1)
      (avail' := (sA.getPackets seq1 (availAtTurn su.a ch) su.a.now).2.2.2) rfl hinvA hun
      (fun x hx => hdue x (by
        rw [hun]
        rcases List.mem_append.mp hx with h | h
        · exact List.mem_append_left _ h
        · exact List.mem_append_right _ (List.mem_cons.mpr (Or.inl (List.mem_singleton.mp h)))))
      n1 hn1 H2 i0 hi0 hak
    rw [hch] at this
    exact this.mono hcont
  rintro ⟨kx, ux⟩ hx
  obtain ⟨u0, h0, hs0⟩ := hemb _ hx
  rw [hdrop] at h0
  rcases List.mem_cons.mp h0 with e | h0
  · right
    simp only [Prod.mk.injEq] at e
    obtain ⟨rfl, rfl⟩ := e
    refine ⟨rfl, ?_⟩
    cases ux with
    | small _ _ => exact hs0.elim
    | sliced m' n' k' nx' ak' ls' =>
      obtain ⟨rfl, rfl, hlen, hsubs⟩ := hs0
      have hfind' : SMap.find? sA'.unacked kx = some (Unacked.sliced m n k' nx' ak' ls') :=
        SI.mem_find?_of_sorted hinv'.sorted hx
      have hcnt := leftover_count n nx n1 hn1 ak ak' hsubs (by
        intro i0 hi0 hak
        have hnp := hcl kx _ n m (hcov i0 hi0 hak)
        have hpos : (nx + i0) % n < ak'.length := by rw [hlen]; exact Nat.mod_lt _ (by omega)
        cases hb : ak'[(nx + i0) % n] with
        | true => rw [List.getD_eq_getElem?_getD, List.getElem?_eq_getElem hpos, hb]; rfl
        | false =>
          exact absurd ⟨_, _, _, _, _, _, hfind', by rw [List.getElem?_eq_getElem hpos, hb]⟩ hnp)
      simp only [entryCost]
      rw [← Nat.mul_add]
      exact Nat.mul_le_mul_left _ hcnt
  · exact Or.inl ⟨u0, h0, entryCost_le_of_shrunk hs0⟩

/-- **`RoundStep` for the general byte bound.**  Every round offers channel `ch` at least `B ≥ SLICE_SIZE` bytes (and
    carries nothing else, H4).  A round either covers everything or shrinks the backlog by at least
    `B - SLICE_SIZE + 1` bytes: the greedy prefix of UNITS (small messages; single slices, in the order of the slice
    loop) leaves less than one unit — at most `SLICE_SIZE` bytes — of the budget unused. -/
theorem step_bytes_any (cfg : Cfg) (ch : Nat) (ord : Bool) (ho : KindOf cfg ch ord) (B : Nat) (hSB : SLICE_SIZE ≤ B)
    (Sched : Sys → Prop)
    (hS : ∀ ops' su, (Sys.init cfg).run ops' = some su → Sched su →
      (∀ p ∈ flushPk su.a, OnlyCh ch p) ∧ B ≤ availAtTurn su.a ch) :
    RoundStep cfg ch ord Sched (fun k un => backlog un ≤ k * (B - SLICE_SIZE + 1)) := by
  intro k ops s sA rB r hr hda hdb hfA hfB H3 hok hgood
  dsimp only at hgood ⊢
  obtain ⟨pk, h1, -⟩ := system_inv cfg ops s hr
  obtain ⟨su, hsu⟩ := updA_step h1 r.dt
  obtain ⟨hc, hcA, hsched, hall, hexact, hcap, hback⟩ := hok.tick su hsu
  obtain ⟨H4, hB⟩ := hS _ su (run_snoc hr hsu) hsched
  obtain ⟨hinvA, -⟩ := h1.invA.1.chans ch sA hfA
  have hSpos : 0 < SLICE_SIZE := by decide
  obtain ⟨q, hq1, hq2⟩ := exists_greedy (B := B) sA.unacked
  obtain ⟨-, hsd, -⟩ := sorted_take_drop hinvA.sorted q
  have hsum := backlog_take_drop sA.unacked q
  rw [Nat.succ_mul] at hgood
  rcases hq2 with e | ⟨⟨kx, ux⟩, rest, e, hlt⟩
  · -- everything is covered
    obtain ⟨v, hv, hlva, hlvb, hsub, -, -, hroom, ⟨sA', hfA', hinv', hemb0, -, -⟩, hfin⟩ :=
      full_round cfg ops s hr hda hdb ch ord ho sA hfA rB hfB H3 r.dt (hok.timer sA hfA) su hsu hc hcA q
        (Nat.le_trans hq1 hB) H4 r.ks hall hexact r.n hok.drain hcap r.ai hback
    refine ⟨v, hv, hlva, hlvb, hsub, hroom, ⟨sA', hfA', ?_⟩, fun _ => hfin e⟩
    have : sA'.unacked = [] := by
      rw [List.eq_nil_iff_forall_not_mem]
      intro x hx
      obtain ⟨u0, h0, -⟩ := hemb0 x hx
      rw [e] at h0; cases h0
    rw [this]; exact Nat.zero_le _
  · dsimp only at hlt
    have hmemx : (kx, ux) ∈ sA.unacked := List.mem_of_mem_drop (by rw [e]; exact List.mem_cons_self ..)
    have hk0 : k ≠ 0 := by
      intro hk
      subst hk
      rw [e] at hsum
      simp only [backlog_cons] at hsum
      omega
    cases ux with
    | small mx lsx =>
      have hlen : mx.length ≤ SLICE_SIZE := hinvA.entries _ hmemx
      simp only [entryCost] at hlt
      obtain ⟨v, hv, hlva, hlvb, hsub, -, -, hroom, ⟨sA', hfA', hinv', hemb0, -, -⟩, -⟩ :=
        full_round cfg ops s hr hda hdb ch ord ho sA hfA rB hfB H3 r.dt (hok.timer sA hfA) su hsu hc hcA q
          (Nat.le_trans hq1 hB) H4 r.ks hall hexact r.n hok.drain hcap r.ai hback
      refine ⟨v, hv, hlva, hlvb, hsub, hroom, ⟨sA', hfA', ?_⟩, fun hk => absurd hk hk0⟩
      have hle := backlog_le_of_embed sA'.unacked _ hinv'.sorted hsd (by
        intro x hx
        obtain ⟨u0, h0, hs0⟩ := hemb0 x hx
        exact ⟨u0, h0, entryCost_le_of_shrunk hs0⟩)
      omega
    | sliced mx nn na nx ak lsx =>
      simp only [entryCost] at hlt
      have hun : sA.unacked = sA.unacked.take q ++ (kx, Unacked.sliced mx nn na nx ak lsx) :: rest := by
        rw [← e, List.take_append_drop]
      -- the last loop position the budget reaches
      obtain ⟨n1, hn1, hP, hnP⟩ := exists_last
        (P := fun j => backlog (sA.unacked.take q) + SLICE_SIZE * cntLoop nn nx ak (List.range j) ≤ B) nn
        (by simp only [List.range_zero, cntLoop, List.filter_nil, List.length_nil, Nat.mul_zero, Nat.add_zero]; exact hq1)
        (by
          have := Nat.mul_le_mul_left SLICE_SIZE (unackedIdx_le_cntLoop nn nx ak)
          omega)
      have hstepc := Nat.mul_le_mul_left SLICE_SIZE (cntLoop_succ_le nn nx ak n1)
      rw [Nat.mul_add, Nat.mul_one] at hstepc
      obtain ⟨v, hv, hlva, hlvb, hsub, hroom, sA', hfA', hinv', hemb⟩ :=
        full_round_part cfg ops s hr hda hdb ch ord ho sA hfA rB hfB H3 r.dt (hok.timer sA hfA) su hsu hc hcA
          (sA.unacked.take q) rest kx mx nn na nx ak lsx hun n1 (Nat.le_of_lt hn1) (Nat.le_trans hP hB) H4 r.ks hall hexact
          r.n hok.drain hcap r.ai hback
      refine ⟨v, hv, hlva, hlvb, hsub, hroom, ⟨sA', hfA', ?_⟩, fun hk => absurd hk hk0⟩
      -- what is left embeds into `rest` plus a stand-in for the cheaper sliced entry
      rw [e] at hsd hsum
      rw [SI.sorted_cons] at hsd
      have hle := backlog_le_of_embed sA'.unacked
        ((kx, Unacked.small (List.replicate
          (SLICE_SIZE * (unackedIdx nn ak).length - SLICE_SIZE * cntLoop nn nx ak (List.range n1)) 0) none) :: rest)
        hinv'.sorted (SI.sorted_cons.mpr hsd) (by
          intro x hx
          rcases hemb x hx with ⟨u0, h0, hc0⟩ | ⟨hk, hc0⟩
          · exact ⟨u0, List.mem_cons_of_mem _ h0, hc0⟩
          · refine ⟨_, List.mem_cons.mpr (Or.inl (by rw [hk])), ?_⟩
            show entryCost x.2 ≤ List.length (List.replicate _ _)
            rw [List.length_replicate]
            omega)
      simp only [backlog_cons, entryCost, List.length_replicate] at hle hsum
      omega

/-- **k rounds, bytes, any messages.**  Every round offers channel `ch` at least `B ≥ SLICE_SIZE` bytes:
    `k ≥ 1` rounds with `k * (B - SLICE_SIZE + 1) ≥ backlog` deliver everything — small and sliced messages alike,
    a sliced message possibly over several rounds. -/
theorem rounds_bytes_any (cfg : Cfg) (ops : List SysOp) (s : Sys) (hr : (Sys.init cfg).run ops = some s)
    (hda : s.a.isDisconnected = false) (hdb : s.b.isDisconnected = false)
    (ch : Nat) (ord : Bool) (ho : KindOf cfg ch ord) (sA : SendRel) (hfA : SMap.find? s.a.sendRel ch = some sA)
    (rB : RecvRel) (hfB : SMap.find? s.b.recvRel ch = some rB) (H3 : Room (s.submitted ch) rB)
    (B : Nat) (hSB : SLICE_SIZE ≤ B) (Sched : Sys → Prop)
    (hS : ∀ ops' su, (Sys.init cfg).run ops' = some su → Sched su →
      (∀ p ∈ flushPk su.a, OnlyCh ch p) ∧ B ≤ availAtTurn su.a ch)
    (rs : List RoundP) (hR : Rounds cfg ch Sched s rs)
    (hk1 : rs ≠ []) (hk : backlog sA.unacked ≤ rs.length * (B - SLICE_SIZE + 1)) :
    ∃ u, s.run (roundsOps ch rs) = some u ∧ u.a.isDisconnected = false ∧ u.b.isDisconnected = false ∧
      u.submitted ch = s.submitted ch ∧ Delivered ord (u.obtained ch) (s.submitted ch) :=
  rounds_of_step (step_bytes_any cfg ch ord ho B hSB Sched hS) rs ops s sA rB hr hda hdb hfA hfB H3 hR hk1 hk

/-- the same for a configuration whose only A → B channel is the ReliableOrdered channel `ch` -/
theorem rounds_bytes_any_single (cfg : Cfg) (ops : List SysOp) (s : Sys) (hr : (Sys.init cfg).run ops = some s)
    (hda : s.a.isDisconnected = false) (hdb : s.b.isDisconnected = false)
    (ch : Nat) (hsingle : Single cfg ch) (sA : SendRel) (hfA : SMap.find? s.a.sendRel ch = some sA)
    (rB : RecvRel) (hfB : SMap.find? s.b.recvRel ch = some rB) (H3 : Room (s.submitted ch) rB)
    (hSB : SLICE_SIZE ≤ cfg.budget)
    (rs : List RoundP) (hR : Rounds cfg ch (fun _ => True) s rs)
    (hk1 : rs ≠ []) (hk : backlog sA.unacked ≤ rs.length * (cfg.budget - SLICE_SIZE + 1)) :
    ∃ u, s.run (roundsOps ch rs) = some u ∧ u.a.isDisconnected = false ∧ u.b.isDisconnected = false ∧
      u.submitted ch = s.submitted ch ∧ u.obtained ch = s.submitted ch := by
  refine rounds_bytes_any cfg ops s hr hda hdb ch true (single_ordered hsingle) sA hfA rB hfB H3 cfg.budget hSB
    (fun _ => True) ?_ rs hR hk1 hk
  intro ops' su hr' _
  obtain ⟨pkU, hU, -⟩ := system_inv cfg ops' su hr'
  exact ⟨single_only hU.invA.1 (single_order hsingle hU), by rw [single_avail hsingle hU]; exact Nat.le_refl _⟩

end RenetVerif.LiveK
