/-
  Every output of the packet decoder is well-formed (`Packet.WF`), hence re-encodes and decodes
  to itself.
-/
import RenetVerif.Lemmas.PacketRT
namespace RenetVerif
open Varint

/-! ### inversion of `Except` binds -/
theorem Except.bind_eq_ok' {ε α β : Type} {x : Except ε α} {f : α → Except ε β} {y : β} :
    (x >>= f) = .ok y ↔ ∃ a, x = .ok a ∧ f a = .ok y := by
  cases x with
  | error e => simp [bind, Except.bind]
  | ok a => simp [bind, Except.bind]

/-! ### primitive readers -/
namespace Varint

theorem get_aux {b : Bytes} {v : Nat} {r : Bytes} (len : Nat)
    (hlen : len = 1 ∨ len = 2 ∨ len = 4 ∨ len = 8)
    (h : (if len > b.length then none else some (beVal (b.take len) 0 % 2 ^ (8 * len - 2), b.drop len))
      = some (v, r)) : v ≤ MAX ∧ r.length < b.length := by
  split at h
  · cases h
  · rename_i hle
    simp only [Option.some.injEq, Prod.mk.injEq] at h
    obtain ⟨rfl, rfl⟩ := h
    refine ⟨?_, ?_⟩
    · have hm : ∀ x k : Nat, 0 < k → x % k ≤ k - 1 := by
        intro x k hk; have := Nat.mod_lt x hk; omega
      rcases hlen with rfl | rfl | rfl | rfl
      · have := hm (beVal (List.take 1 b) 0) 64 (by decide)
        simp only [MAX, show (2:Nat) ^ (8 * 1 - 2) = 64 from by decide]; omega
      · have := hm (beVal (List.take 2 b) 0) 16384 (by decide)
        simp only [MAX, show (2:Nat) ^ (8 * 2 - 2) = 16384 from by decide]; omega
      · have := hm (beVal (List.take 4 b) 0) 1073741824 (by decide)
        simp only [MAX, show (2:Nat) ^ (8 * 4 - 2) = 1073741824 from by decide]; omega
      · have := hm (beVal (List.take 8 b) 0) 4611686018427387904 (by decide)
        simp only [MAX, show (2:Nat) ^ (8 * 8 - 2) = 4611686018427387904 from by decide]; omega
    · simp only [List.length_drop]
      omega

theorem get_bound {b : Bytes} {v : Nat} {r : Bytes} (h : get b = some (v, r)) :
    v ≤ MAX ∧ r.length < b.length := by
  cases b with
  | nil => simp [get] at h
  | cons first tl =>
    unfold get at h
    simp only [] at h
    split at h
    · exact get_aux 1 (by simp) h
    · exact get_aux 2 (by simp) h
    · exact get_aux 4 (by simp) h
    · exact get_aux 8 (by simp) h

end Varint

theorem getVarint_bound {b : Bytes} {v : Nat} {r : Bytes} (h : getVarint b = .ok (v, r)) :
    v ≤ MAX ∧ r.length < b.length := by
  unfold getVarint at h
  split at h
  · cases h
  · rename_i x hx
    cases h
    exact Varint.get_bound hx

theorem getU8_bound {b : Bytes} {v : Nat} {r : Bytes} (h : getU8 b = .ok (v, r)) : v < 256 := by
  cases b with
  | nil => cases h
  | cons x tl =>
    simp only [getU8] at h
    cases h
    exact x.toNat_lt

theorem getU16_bound {b : Bytes} {v : Nat} {r : Bytes} (h : getU16 b = .ok (v, r)) : v < 65536 := by
  unfold getU16 at h
  split at h
  · rename_i a c r'
    cases h
    have := a.toNat_lt
    have := c.toNat_lt
    omega
  · cases h

theorem getBytesVar_bound {b : Bytes} {m : Bytes} {r : Bytes} (h : getBytesVar b = .ok (m, r)) :
    m.length ≤ MAX := by
  unfold getBytesVar at h
  split at h
  · cases h
  · rename_i len r' hg
    have hb := (getVarint_bound hg).1
    split at h
    · cases h
    · cases h
      simp only [List.length_take]
      omega

/-! ### small messages -/
theorem decSmallRel_wf : ∀ (n : Nat) (b : Bytes) (msgs : List (Nat × Bytes)) (r : Bytes),
    decSmallRel n b = .ok (msgs, r) → msgs.length = n ∧ SmallRelWF msgs
  | 0, b, msgs, r, h => by
    simp only [decSmallRel] at h
    cases h
    exact ⟨rfl, fun x hx => by cases hx⟩
  | n + 1, b, msgs, r, h => by
    simp only [decSmallRel, Except.bind_eq_ok'] at h
    obtain ⟨⟨id, b1⟩, h1, h⟩ := h
    obtain ⟨⟨m, b2⟩, h2, h⟩ := h
    obtain ⟨⟨rest, b3⟩, h3, h⟩ := h
    cases h
    obtain ⟨ihl, ihw⟩ := decSmallRel_wf n b2 rest b3 h3
    refine ⟨by simp [ihl], ?_⟩
    intro x hx
    rcases List.mem_cons.mp hx with rfl | hx
    · exact ⟨(getVarint_bound h1).1, getBytesVar_bound h2⟩
    · exact ihw x hx

theorem decSmallUnrel_wf : ∀ (n : Nat) (b : Bytes) (msgs : List Bytes) (r : Bytes),
    decSmallUnrel n b = .ok (msgs, r) → msgs.length = n ∧ SmallUnrelWF msgs
  | 0, b, msgs, r, h => by
    simp only [decSmallUnrel] at h
    cases h
    exact ⟨rfl, fun x hx => by cases hx⟩
  | n + 1, b, msgs, r, h => by
    simp only [decSmallUnrel, Except.bind_eq_ok'] at h
    obtain ⟨⟨m, b2⟩, h2, h⟩ := h
    obtain ⟨⟨rest, b3⟩, h3, h⟩ := h
    cases h
    obtain ⟨ihl, ihw⟩ := decSmallUnrel_wf n b2 rest b3 h3
    refine ⟨by simp [ihl], ?_⟩
    intro x hx
    rcases List.mem_cons.mp hx with rfl | hx
    · exact getBytesVar_bound h2
    · exact ihw x hx

/-! ### ack ranges -/
theorem decAckRest_wf : ∀ (n prev : Nat) (b : Bytes) (acc res : List AckRange) (r : Bytes),
    decAckRest n prev b acc = .ok (res, r) →
    ∃ d, res = d.reverse ++ acc ∧ d.length = n ∧ DescWF prev d
  | 0, prev, b, acc, res, r, h => by
    simp only [decAckRest] at h
    cases h
    exact ⟨[], rfl, rfl, trivial⟩
  | n + 1, prev, b, acc, res, r, h => by
    simp only [decAckRest, Except.bind_eq_ok'] at h
    obtain ⟨⟨gap, b1⟩, h1, h⟩ := h
    simp only [] at h
    split at h
    · cases h
    · rename_i hg
      simp only [Except.bind_eq_ok'] at h
      obtain ⟨⟨size, b2⟩, h2, h⟩ := h
      simp only [] at h
      split at h
      · cases h
      · rename_i hs
        obtain ⟨d, hres, hlen, hw⟩ := decAckRest_wf n _ b2 _ res r h
        refine ⟨(prev - gap - 2 - size, prev - gap - 2 + 1) :: d, ?_, by simp [hlen], ?_⟩
        · simp [hres]
        · exact ⟨by omega, by omega, hw⟩

/-! ### packets -/
theorem Packet.decode_wf (b : Bytes) (p : Packet) (rest : Bytes)
    (h : Packet.decode b = .ok (p, rest)) : p.WF := by
  simp only [Packet.decode, Except.bind_eq_ok'] at h
  obtain ⟨⟨ty, b0⟩, h0, h⟩ := h
  simp only [] at h
  split at h
  · -- small reliable
    simp only [Except.bind_eq_ok'] at h
    obtain ⟨⟨seq, b1⟩, h1, h⟩ := h
    obtain ⟨⟨ch, b2⟩, h2, h⟩ := h
    obtain ⟨⟨n, b3⟩, h3, h⟩ := h
    obtain ⟨⟨msgs, b4⟩, h4, h⟩ := h
    cases h
    obtain ⟨hl, hw⟩ := decSmallRel_wf _ _ _ _ h4
    have := getU16_bound h3
    exact ⟨(getVarint_bound h1).1, getU8_bound h2, by rw [hl]; exact this, hw⟩
  · -- small unreliable
    simp only [Except.bind_eq_ok'] at h
    obtain ⟨⟨seq, b1⟩, h1, h⟩ := h
    obtain ⟨⟨ch, b2⟩, h2, h⟩ := h
    obtain ⟨⟨n, b3⟩, h3, h⟩ := h
    obtain ⟨⟨msgs, b4⟩, h4, h⟩ := h
    cases h
    obtain ⟨hl, hw⟩ := decSmallUnrel_wf _ _ _ _ h4
    have := getU16_bound h3
    exact ⟨(getVarint_bound h1).1, getU8_bound h2, by rw [hl]; exact this, hw⟩
  · -- reliable slice
    simp only [Except.bind_eq_ok'] at h
    obtain ⟨⟨seq, b1⟩, h1, h⟩ := h
    obtain ⟨⟨ch, b2⟩, h2, h⟩ := h
    obtain ⟨⟨id, b3⟩, h3, h⟩ := h
    obtain ⟨⟨idx, b4⟩, h4, h⟩ := h
    obtain ⟨⟨n, b5⟩, h5, h⟩ := h
    simp only [] at h
    split at h
    · cases h
    · rename_i hn
      simp only [Except.bind_eq_ok'] at h
      obtain ⟨⟨payload, b6⟩, h6, h⟩ := h
      simp only [] at h
      split at h
      · cases h
      · rename_i he
        split at h
        · cases h
        · rename_i hs
          cases h
          have hpl : 1 ≤ payload.length := by
            cases payload with
            | nil => simp at he
            | cons _ _ => simp
          exact ⟨(getVarint_bound h1).1, getU8_bound h2, (getVarint_bound h3).1, (getVarint_bound h4).1,
            by dsimp only; omega, by dsimp only; omega, hpl, by dsimp only; omega⟩
  · -- unreliable slice
    simp only [Except.bind_eq_ok'] at h
    obtain ⟨⟨seq, b1⟩, h1, h⟩ := h
    obtain ⟨⟨ch, b2⟩, h2, h⟩ := h
    obtain ⟨⟨id, b3⟩, h3, h⟩ := h
    obtain ⟨⟨idx, b4⟩, h4, h⟩ := h
    obtain ⟨⟨n, b5⟩, h5, h⟩ := h
    simp only [] at h
    split at h
    · cases h
    · rename_i hn
      simp only [Except.bind_eq_ok'] at h
      obtain ⟨⟨payload, b6⟩, h6, h⟩ := h
      cases h
      exact ⟨(getVarint_bound h1).1, getU8_bound h2, (getVarint_bound h3).1, (getVarint_bound h4).1,
        by dsimp only; omega, by dsimp only; omega, getBytesVar_bound h6⟩
  · -- ack
    simp only [Except.bind_eq_ok'] at h
    obtain ⟨⟨seq, b1⟩, h1, h⟩ := h
    obtain ⟨⟨firstEnd, b2⟩, h2, h⟩ := h
    obtain ⟨⟨firstSize, b3⟩, h3, h⟩ := h
    obtain ⟨⟨nRest, b4⟩, h4, h⟩ := h
    simp only [] at h
    split at h
    · cases h
    · rename_i hf
      simp only [Except.bind_eq_ok'] at h
      obtain ⟨⟨ranges, b5⟩, h5, h⟩ := h
      cases h
      obtain ⟨d, hres, _, hw⟩ := decAckRest_wf _ _ _ _ _ _ h5
      have hfe := (getVarint_bound h2).1
      refine ⟨(getVarint_bound h1).1, firstEnd - firstSize, firstEnd + 1, d, ?_, by omega, by omega, hw⟩
      simp [hres]
  · cases h

/-- Whatever `from_bytes` accepts can be serialised again (no panic, no error), and the new bytes
    deserialise to the same packet. -/
theorem Packet.fromBytes_reencode (b : Bytes) (p : Packet) (h : Packet.fromBytes b = .ok p) :
    ∃ b', p.enc = .ok b' ∧ Packet.fromBytes b' = .ok p := by
  unfold Packet.fromBytes at h
  split at h
  · rename_i p' rest hd
    cases h
    exact Packet.fromBytes_enc _ (Packet.decode_wf b _ rest hd)
  · cases h

end RenetVerif
