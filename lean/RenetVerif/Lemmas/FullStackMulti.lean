/-
  FULL STACK, SEVERAL CLIENTS: the system of `Lemmas/FullStack.lean` (`FS`: one observed session `cid`, the server glue
  possibly holding other clients, an adversarial network) extended by what `Props/C20F.lean` lists as NOT COVERED:

    * the server application's calls for OTHER client ids and for ALL clients:
        `RenetServer::send_message(id, ..)`, `receive_message(id, ..)`, `disconnect(id)` for any `id`,
        `broadcast_message`, `broadcast_message_except`;
    * a second, REAL client (`MS.o` : its own `NetcodeClientTransport` + `RenetClient`) whose handshake, traffic and
      disconnect run through the SAME `NetcodeServerTransport` (`update` / `send_packets` loop over all clients; the
      datagrams it emits reach the server through the adversary's inbox like everything else).

  Results (all for the observed client `cid`):
    `mstep_sim`          every `MS` step is matched by a `Duo` run (the simulation relation of `FullStack.Rel` on the `fs`
                         component): calls for another id and all calls of the other client by the EMPTY run (frame),
                         a broadcast by exactly the `Duo` run of a `srvSend`;
    `m_full_stack`       hence the three channel guarantees, both directions, after every `MS` run;
    `m_noForgery_of_D`   the keyed run hypothesis follows from the datagram-level one (`KeyInv` is untouched by the new ops);
    `mrun_emitted`       ghost records are records of emitted datagrams;
    `mrun_lockstep`      the server glue's `LockStep` (renet table ids = netcode slot ids, for `cid` and everybody else)
                         holds after every operation, `NoDead` after every transport `update`;
    `other_frame`, `broadcast_is_srvSend`, `broadcastExcept_is_srvSend`
                         the frame statements proper.
-/
import RenetVerif.Lemmas.FullStack
namespace RenetVerif.FullStackMulti
open RenetVerif C RenetVerif.System RenetVerif.Netcode RenetVerif.Transport RenetVerif.FullStack

/-! ### the system -/

/-- the server's `RenetServer` replaced (ghost `ySeq` follows the entry of `cid`) -/
def setRenet (cid : Nat) (fs : FS) (rs' : Server) : FS :=
  { fs with s := { fs.s with renet := rs' }, ySeq := trackSeq cid rs' fs.ySeq }

/-- the server's `RenetServer` replaced by the result of a call that offered `m` on channel `ch` to the connection of
    `cid` (if there is one): ghost logs exactly as `FS.step (.srvSend ch m)` writes them -/
def sendGhost (cid : Nat) (fs : FS) (rs' : Server) (ch : Nat) (m : Bytes) : FS :=
  let acc := match SMap.find? fs.s.renet.conns cid, SMap.find? rs'.conns cid with
    | some y0, some y1 => accepted y0 y1 ch
    | _, _ => false
  let off := match SMap.find? fs.s.renet.conns cid with
    | some y0 => offeredU y0 ch
    | none => false
  { fs with s := { fs.s with renet := rs' }, ySeq := trackSeq cid rs' fs.ySeq
            subS := if acc then push fs.subS ch m else fs.subS
            subSU := if off then push fs.subSU ch m else fs.subSU }

theorem step_srvSend {a : AEAD} {cid : Nat} {fs : FS} {ch : Nat} {m : Bytes} {rs' : Server}
    (h : fs.s.renet.sendMessage cid ch m = .ok rs') :
    fs.step a cid (.srvSend ch m) = some (sendGhost cid fs rs' ch m) := by
  simp only [FS.step, h]
  rfl

structure MS where
  /-- the observed session and the server (`FullStack.FS`) -/
  fs : FS
  /-- the other client: `NetcodeClientTransport` + `RenetClient` -/
  o : ClientGlue
  /-- ghost: every datagram the other client's `update` / `send_packets` / `disconnect` handed to its socket -/
  emO : List Dgram
  /-- ghost: every datagram the server's `update` / `disconnect_all` handed to the socket (handshake, keep-alive,
      disconnect datagrams; `FS.emS` has those of `send_packets`) -/
  updS : List Dgram
  /-- ghost: `(id, channel, message)` the server's application obtained from ids other than `cid` -/
  obtSO : List (Nat × Nat × Bytes)
  /-- ghost: `(channel, message)` the other client's application obtained -/
  obtO : List (Nat × Bytes)

inductive MOp where
  /-- every operation of the single-session system -/
  | base (op : FSOp)
  /-- `RenetServer::send_message(id, ch, m)`, any `id` -/
  | srvSendTo (id ch : Nat) (m : Bytes)
  /-- `RenetServer::receive_message(id, ch)`, any `id` -/
  | srvRecvFrom (id ch : Nat)
  /-- `RenetServer::disconnect(id)`, any `id` -/
  | srvDisconnectId (id : Nat)
  /-- `RenetServer::broadcast_message(ch, m)` -/
  | srvBroadcast (ch : Nat) (m : Bytes)
  /-- `RenetServer::broadcast_message_except(ex, ch, m)` -/
  | srvBroadcastExcept (ex ch : Nat) (m : Bytes)
  /-- the other client: `RenetClient::{send_message, receive_message, update, disconnect}`,
      `NetcodeClientTransport::{update, send_packets, disconnect}` -/
  | othSend (ch : Nat) (m : Bytes)
  | othRecv (ch : Nat)
  | othTick (dt : Nat)
  | othDisconnect
  | othUpdate (d : Nat) (inbox : List Dgram)
  | othSendPackets
  | othTransportDisconnect
  deriving Repr, DecidableEq

/-- what the server's `update` / `disconnect_all` handed to the socket -/
def srvUpdOut (a : AEAD) (fs : FS) : FSOp → List Dgram
  | .srvUpdate d inbox =>
    match serverUpdate a fs.s d inbox with
    | .ok (_, out) => out.toList
    | _ => []
  | .srvDisconnectAll =>
    match serverDisconnectAll a fs.s with
    | .ok (_, out) => out.toList
    | _ => []
  | _ => []

/-- the other client's own operations (they touch `o` and its ghosts only) -/
def MS.othStep (a : AEAD) (ms : MS) : MOp → Option MS
  | .othSend ch m =>
    match ms.o.renet.sendMessage ch m with
    | .ok r' => some { ms with o := { ms.o with renet := r' } }
    | _ => none
  | .othRecv ch =>
    match ms.o.renet.receiveMessage ch with
    | .ok (r', some m) => some { ms with o := { ms.o with renet := r' }, obtO := ms.obtO ++ [(ch, m)] }
    | .ok (r', none) => some { ms with o := { ms.o with renet := r' } }
    | _ => none
  | .othTick dt =>
    match ms.o.renet.update dt with
    | .ok r' => some { ms with o := { ms.o with renet := r' } }
    | _ => none
  | .othDisconnect => some { ms with o := { ms.o with renet := ms.o.renet.disconnectWith .byClient } }
  | .othUpdate d inbox =>
    match clientUpdate a ms.o d inbox with
    | .ok o => some { ms with o := o.g, emO := ms.emO ++ o.out.toList }
    | _ => none
  | .othSendPackets =>
    match clientSendPackets a ms.o with
    | .ok (_, g', out) => some { ms with o := g', emO := ms.emO ++ out.toList }
    | _ => none
  | .othTransportDisconnect =>
    match clientDisconnect a ms.o with
    | .ok (g', out) => some { ms with o := g', emO := ms.emO ++ out.toList }
    | _ => none
  | _ => none

/-- one operation; `none` = a model function panicked -/
def MS.step (a : AEAD) (cid : Nat) (ms : MS) : MOp → Option MS
  | .base op =>
    match ms.fs.step a cid op with
    | some fs' => some { ms with fs := fs', updS := ms.updS ++ srvUpdOut a ms.fs op }
    | none => none
  | .srvSendTo id ch m =>
    if id = cid then
      match ms.fs.step a cid (.srvSend ch m) with
      | some fs' => some { ms with fs := fs' }
      | none => none
    else
      match ms.fs.s.renet.sendMessage id ch m with
      | .ok rs' => some { ms with fs := setRenet cid ms.fs rs' }
      | _ => none
  | .srvRecvFrom id ch =>
    if id = cid then
      match ms.fs.step a cid (.srvRecv ch) with
      | some fs' => some { ms with fs := fs' }
      | none => none
    else
      match ms.fs.s.renet.receiveMessage id ch with
      | .ok (rs', some m) => some { ms with fs := setRenet cid ms.fs rs', obtSO := ms.obtSO ++ [(id, ch, m)] }
      | .ok (rs', none) => some { ms with fs := setRenet cid ms.fs rs' }
      | _ => none
  | .srvDisconnectId id =>
    if id = cid then
      match ms.fs.step a cid .srvDisconnect with
      | some fs' => some { ms with fs := fs' }
      | none => none
    else some { ms with fs := setRenet cid ms.fs (ms.fs.s.renet.disconnect id) }
  | .srvBroadcast ch m =>
    match ms.fs.s.renet.broadcast ch m with
    | .ok rs' => some { ms with fs := sendGhost cid ms.fs rs' ch m }
    | _ => none
  | .srvBroadcastExcept ex ch m =>
    match ms.fs.s.renet.broadcastExcept ex ch m with
    | .ok rs' => some { ms with fs := if ex = cid then setRenet cid ms.fs rs' else sendGhost cid ms.fs rs' ch m }
    | _ => none
  | op => ms.othStep a op

def MS.run (a : AEAD) (cid : Nat) (ms : MS) : List MOp → Option MS
  | [] => some ms
  | op :: ops =>
    match ms.step a cid op with
    | some ms' => ms'.run a cid ops
    | none => none

theorem MS.run_append (a : AEAD) (cid : Nat) (ms : MS) : ∀ (l1 l2 : List MOp),
    ms.run a cid (l1 ++ l2) = (ms.run a cid l1).bind (fun ms' => ms'.run a cid l2) := by
  intro l1
  induction l1 generalizing ms with
  | nil => intro l2; rfl
  | cons op l1 ih =>
    intro l2
    simp only [List.cons_append, MS.run]
    cases ms.step a cid op with
    | none => rfl
    | some ms' => exact ih ms' l2

/-! ### the run hypotheses: those of `FullStack`, at the `base` operations (the new operations surface no payload) -/

def mopOK (a : AEAD) (cid : Nat) (ms : MS) : MOp → Bool
  | .base op => opOK a cid ms.fs op
  | _ => true
def mopNF (a : AEAD) (cid : Nat) (ms : MS) : MOp → Bool
  | .base op => opNF a cid ms.fs op
  | _ => true
def mopSS (a : AEAD) (cid : Nat) (ms : MS) : MOp → Bool
  | .base op => opSS a cid ms.fs op
  | _ => true
def mopNFD (a : AEAD) (cid : Nat) (ms : MS) : MOp → Bool
  | .base op => opNFD a cid ms.fs op
  | _ => true

/-- a per-operation Bool condition holds along the run -/
def mrunB (P : MS → MOp → Bool) (a : AEAD) (cid : Nat) (ms : MS) : List MOp → Bool
  | [] => true
  | op :: ops =>
    P ms op &&
    match ms.step a cid op with
    | some ms' => mrunB P a cid ms' ops
    | none => true

theorem mrunB_prefix (P : MS → MOp → Bool) (a : AEAD) (cid : Nat) : ∀ (l1 l2 : List MOp) (ms : MS),
    mrunB P a cid ms (l1 ++ l2) = true → mrunB P a cid ms l1 = true
  | [], _, _, _ => rfl
  | op :: l1, l2, ms, h => by
    simp only [List.cons_append, mrunB, Bool.and_eq_true] at h ⊢
    refine ⟨h.1, ?_⟩
    cases hs : ms.step a cid op with
    | none => rfl
    | some ms' => rw [hs] at h; exact mrunB_prefix P a cid l1 l2 ms' h.2

/-- **`MNoForgeryRun`** (keyed form), **`MSingleSessionRun`**, **`MNoForgeryRunD`** (datagram form): the hypotheses of
    `FullStack` / C20F, word for word, for the observed session `cid` in a run of the several-client system.  They
    speak about `process_packet` results for `cid` only; the other client's datagrams are unconstrained. -/
def MNoForgeryRun (a : AEAD) (cid : Nat) (ms : MS) (ops : List MOp) : Prop := mrunB (mopNF a cid) a cid ms ops = true
def MSingleSessionRun (a : AEAD) (cid : Nat) (ms : MS) (ops : List MOp) : Prop := mrunB (mopSS a cid) a cid ms ops = true
def MNoForgeryRunD (a : AEAD) (cid : Nat) (ms : MS) (ops : List MOp) : Prop := mrunB (mopNFD a cid) a cid ms ops = true

instance (a : AEAD) (cid : Nat) (ms : MS) (ops : List MOp) : Decidable (MNoForgeryRun a cid ms ops) :=
  inferInstanceAs (Decidable (_ = true))
instance (a : AEAD) (cid : Nat) (ms : MS) (ops : List MOp) : Decidable (MSingleSessionRun a cid ms ops) :=
  inferInstanceAs (Decidable (_ = true))
instance (a : AEAD) (cid : Nat) (ms : MS) (ops : List MOp) : Decidable (MNoForgeryRunD a cid ms ops) :=
  inferInstanceAs (Decidable (_ = true))

theorem mopOK_eq (a : AEAD) (cid : Nat) (ms : MS) (op : MOp) :
    mopOK a cid ms op = (mopNF a cid ms op && mopSS a cid ms op) := by
  cases op <;> first | rfl | exact opOK_eq a cid ms.fs _

/-! ### frame: the other client's operations -/

theorem othStep_fs {a : AEAD} {ms ms' : MS} {op : MOp} (h : ms.othStep a op = some ms') :
    ms'.fs = ms.fs ∧ ms'.updS = ms.updS ∧ ms'.obtSO = ms.obtSO := by
  cases op <;> simp only [MS.othStep] at h
  case othSend ch m => split at h <;> cases h; exact ⟨rfl, rfl, rfl⟩
  case othRecv ch => split at h <;> cases h <;> exact ⟨rfl, rfl, rfl⟩
  case othTick dt => split at h <;> cases h; exact ⟨rfl, rfl, rfl⟩
  case othDisconnect => cases h; exact ⟨rfl, rfl, rfl⟩
  case othUpdate d inbox => split at h <;> cases h; exact ⟨rfl, rfl, rfl⟩
  case othSendPackets => split at h <;> cases h; exact ⟨rfl, rfl, rfl⟩
  case othTransportDisconnect => split at h <;> cases h; exact ⟨rfl, rfl, rfl⟩
  all_goals cases h

/-! ### frame: the simulation relation under changes to other table entries -/

theorem rel_setRenet {a : AEAD} {cid : Nat} {fs : FS} {d : Duo} {rs' : Server} (h : Rel a cid fs d)
    (hs : SL.SMap.Sorted rs'.conns) (hf : SMap.find? rs'.conns cid = SMap.find? fs.s.renet.conns cid) :
    Rel a cid (setRenet cid fs rs') d := by
  have hsr : SrvRel cid rs' d := ⟨hs, by rw [hf]; exact h.srv.conn⟩
  exact ⟨h.x, hsr, trackSeq_rel hsr h.yseq, h.subC, h.subCU, h.obtS, h.subS, h.subSU, h.obtC, h.sealC, h.sealS⟩

/-- a server call that offers `m` on `ch` to the connection of `cid` (and does whatever it likes to the others) is, for
    the observed session, the `Duo` step `Y.send ch m` -/
theorem sendLike_sim {a : AEAD} {cid : Nat} {fs : FS} {d : Duo} {rs' : Server} {ch : Nat} {m : Bytes}
    (h : Rel a cid fs d) (hs : SL.SMap.Sorted rs'.conns)
    (hn : SMap.find? fs.s.renet.conns cid = none → SMap.find? rs'.conns cid = none)
    (hc : ∀ c, SMap.find? fs.s.renet.conns cid = some c →
      ∃ c', c.sendMessage ch m = .ok c' ∧ SMap.find? rs'.conns cid = some c') :
    ∃ dops d', d.run dops = some d' ∧ Rel a cid (sendGhost cid fs rs' ch m) d' := by
  obtain ⟨x, y, outX, outY, subX, subXU, obtY, subY, subYU, obtX, delY, delX⟩ := d
  obtain ⟨hx, hsrv, hyseq, e1, e2, e3, e4, e5, e6, hsC, hsS⟩ := h
  dsimp only at hx hyseq e1 e2 e3 e4 e5 e6 hsC hsS
  subst hx e1 e2 e3 e4 e5 e6
  rcases hsrv.conn with hy | hn0
  · obtain ⟨c', hsm, hf'⟩ := hc _ hy
    refine ⟨[(.Y, .send ch m)], _, Duo.run_single (stepY_send hsm), ?_⟩
    simp only [sendGhost, hy, hf']
    exact ⟨rfl, ⟨hs, Or.inl hf'⟩, trackSeq_some hf' _, rfl, rfl, rfl, rfl, rfl, rfl, hsC, hsS⟩
  · have hf' := hn hn0
    refine ⟨[], _, rfl, ?_⟩
    simp only [sendGhost, hn0]
    exact ⟨rfl, ⟨hs, Or.inr hf'⟩, by rw [trackSeq_none hf']; exact hyseq, rfl, rfl, rfl, by simp, by simp, rfl,
      hsC, hsS⟩

/-! ### the step theorem -/

/-- **Simulation.**  Every step of the several-client system is matched, for the observed session, by a `Duo` run. -/
theorem mstep_sim {a : AEAD} (hl : a.Laws) {cfg : Cfg} {cid : Nat} {ms ms' : MS} {d : Duo} {op : MOp}
    (h : Rel a cid ms.fs d) (hi : DInv cfg d) (hok : mopOK a cid ms op = true) (hs : ms.step a cid op = some ms') :
    ∃ dops d', d.run dops = some d' ∧ Rel a cid ms'.fs d' := by
  cases op with
  | base op =>
    simp only [MS.step] at hs
    split at hs
    · rename_i fs' hf
      cases hs
      exact step_sim hl h hi hok hf
    · cases hs
  | srvSendTo id ch m =>
    simp only [MS.step] at hs
    split at hs
    · split at hs
      · rename_i fs' hf
        cases hs
        exact step_sim hl h hi rfl hf
      · cases hs
    · rename_i hne
      split at hs
      · rename_i rs' hm
        cases hs
        obtain ⟨ad, q, -⟩ := SL.Server.sendMessage_spec hm
        exact ⟨[], d, rfl, rel_setRenet h (q.sorted h.srv.sorted) (ad.others cid (fun e => hne e.symm))⟩
      · cases hs
  | srvRecvFrom id ch =>
    simp only [MS.step] at hs
    split at hs
    · split at hs
      · rename_i fs' hf
        cases hs
        exact step_sim hl h hi rfl hf
      · cases hs
    · rename_i hne
      split at hs
      · rename_i rs' m hm
        cases hs
        obtain ⟨ad, q, -⟩ := SL.Server.receiveMessage_spec hm
        exact ⟨[], d, rfl, rel_setRenet h (q.sorted h.srv.sorted) (ad.others cid (fun e => hne e.symm))⟩
      · rename_i rs' hm
        cases hs
        obtain ⟨ad, q, -⟩ := SL.Server.receiveMessage_spec hm
        exact ⟨[], d, rfl, rel_setRenet h (q.sorted h.srv.sorted) (ad.others cid (fun e => hne e.symm))⟩
      · cases hs
  | srvDisconnectId id =>
    simp only [MS.step] at hs
    split at hs
    · split at hs
      · rename_i fs' hf
        cases hs
        exact step_sim hl h hi rfl hf
      · cases hs
    · rename_i hne
      cases hs
      obtain ⟨ad, q, -⟩ := SL.Server.disconnect_spec ms.fs.s.renet id
      exact ⟨[], d, rfl, rel_setRenet h (q.sorted h.srv.sorted) (ad.others cid (fun e => hne e.symm))⟩
  | srvBroadcast ch m =>
    simp only [MS.step] at hs
    split at hs
    · rename_i rs' hm
      cases hs
      obtain ⟨-, q, hj⟩ := SL.Server.broadcast_spec hm
      exact sendLike_sim h (q.sorted h.srv.sorted) (hj cid).1 (hj cid).2
    · cases hs
  | srvBroadcastExcept ex ch m =>
    simp only [MS.step] at hs
    split at hs
    · rename_i rs' hm
      cases hs
      obtain ⟨-, q, hex, hj⟩ := SL.Server.broadcastExcept_spec hm
      by_cases e : ex = cid
      · simp only [if_pos e]
        subst e
        exact ⟨[], d, rfl, rel_setRenet h (q.sorted h.srv.sorted) hex⟩
      · simp only [if_neg e]
        exact sendLike_sim h (q.sorted h.srv.sorted) (hj cid (fun e' => e e'.symm)).1 (hj cid (fun e' => e e'.symm)).2
    · cases hs
  | othSend ch m => rw [(othStep_fs (a := a) (op := .othSend ch m) hs).1]; exact ⟨[], d, rfl, h⟩
  | othRecv ch => rw [(othStep_fs (a := a) (op := .othRecv ch) hs).1]; exact ⟨[], d, rfl, h⟩
  | othTick dt => rw [(othStep_fs (a := a) (op := .othTick dt) hs).1]; exact ⟨[], d, rfl, h⟩
  | othDisconnect => rw [(othStep_fs (a := a) (op := .othDisconnect) hs).1]; exact ⟨[], d, rfl, h⟩
  | othUpdate dt inbox => rw [(othStep_fs (a := a) (op := .othUpdate dt inbox) hs).1]; exact ⟨[], d, rfl, h⟩
  | othSendPackets => rw [(othStep_fs (a := a) (op := .othSendPackets) hs).1]; exact ⟨[], d, rfl, h⟩
  | othTransportDisconnect => rw [(othStep_fs (a := a) (op := .othTransportDisconnect) hs).1]; exact ⟨[], d, rfl, h⟩

theorem mrun_sim {a : AEAD} (hl : a.Laws) {cfg : Cfg} {cid : Nat} :
    ∀ (ops : List MOp) (ms ms' : MS) (d : Duo), Rel a cid ms.fs d → DInv cfg d →
    mrunB (mopOK a cid) a cid ms ops = true → ms.run a cid ops = some ms' → ∃ d', Rel a cid ms'.fs d' ∧ DInv cfg d'
  | [], ms, ms', d, h, hi, _, hr => by
    simp only [MS.run, Option.some.injEq] at hr
    subst hr
    exact ⟨d, h, hi⟩
  | op :: ops, ms, ms', d, h, hi, hok, hr => by
    simp only [MS.run] at hr
    simp only [mrunB, Bool.and_eq_true] at hok
    cases hs : ms.step a cid op with
    | none => rw [hs] at hr; cases hr
    | some ms1 =>
      rw [hs] at hr hok
      obtain ⟨l, d1, r1, h1⟩ := mstep_sim hl h hi hok.1 hs
      exact mrun_sim hl ops ms1 ms' d1 h1 (drun_inv l d d1 hi r1) hok.2 hr

theorem mrunOK_of {a : AEAD} {cid : Nat} : ∀ (ops : List MOp) (ms : MS), MNoForgeryRun a cid ms ops →
    MSingleSessionRun a cid ms ops → mrunB (mopOK a cid) a cid ms ops = true
  | [], _, _, _ => rfl
  | op :: ops, ms, h1, h2 => by
    simp only [MNoForgeryRun, MSingleSessionRun, mrunB, Bool.and_eq_true] at h1 h2 ⊢
    refine ⟨by rw [mopOK_eq, h1.1, h2.1]; rfl, ?_⟩
    cases hs : ms.step a cid op with
    | none => rfl
    | some ms' => rw [hs] at h1 h2; exact mrunOK_of ops ms' h1.2 h2.2

/-- **The composition, several clients.**  After every finite run of the several-client system from a state whose
    message layer for `cid` is freshly established, under the run hypotheses for `cid`, the channel guarantees of C01S
    hold end to end for `cid`'s link in both directions. -/
theorem m_full_stack {a : AEAD} (hl : a.Laws) {cfg : Cfg} {cid : Nat} {ms0 ms : MS} {ops : List MOp}
    (he : RenetFresh cfg cid ms0.fs) (hr : ms0.run a cid ops = some ms) (hnf : MNoForgeryRun a cid ms0 ops)
    (hss : MSingleSessionRun a cid ms0 ops) :
    (CountersUp cfg ms.fs → Guarantees cfg ms.fs.subC ms.fs.subCU ms.fs.obtS) ∧
    (CountersDown cfg ms.fs → Guarantees (Cfg.swap cfg) ms.fs.subS ms.fs.subSU ms.fs.obtC) := by
  obtain ⟨d0, h0, i0⟩ := rel_of_fresh a he
  obtain ⟨d, h, hi⟩ := mrun_sim hl ops ms0 ms d0 h0 i0 (mrunOK_of ops ms0 hnf hss) hr
  exact rel_concl h hi

/-! ### `KeyInv` and `Emitted` along several-client runs -/

theorem keyInv_setRenet {cid : Nat} {tok : ConnectToken} {fs : FS} (h : KeyInv cid tok fs) (rs' : Server) :
    KeyInv cid tok (setRenet cid fs rs') := ⟨h.tokC, h.srv, h.recC, h.recS⟩

theorem keyInv_sendGhost {cid : Nat} {tok : ConnectToken} {fs : FS} (h : KeyInv cid tok fs) (rs' : Server) (ch : Nat)
    (m : Bytes) : KeyInv cid tok (sendGhost cid fs rs' ch m) := ⟨h.tokC, h.srv, h.recC, h.recS⟩

theorem mstep_keyInv {a : AEAD} {cid : Nat} {tok : ConnectToken} {ms ms' : MS} {op : MOp} (h : KeyInv cid tok ms.fs)
    (hss : mopSS a cid ms op = true) (hs : ms.step a cid op = some ms') : KeyInv cid tok ms'.fs := by
  cases op with
  | base op =>
    simp only [MS.step] at hs
    split at hs
    · rename_i fs' hf
      cases hs
      exact step_keyInv h hss hf
    · cases hs
  | srvSendTo id ch m =>
    simp only [MS.step] at hs
    split at hs
    · split at hs
      · rename_i fs' hf
        cases hs
        exact step_keyInv h rfl hf
      · cases hs
    · split at hs <;> cases hs
      exact keyInv_setRenet h _
  | srvRecvFrom id ch =>
    simp only [MS.step] at hs
    split at hs
    · split at hs
      · rename_i fs' hf
        cases hs
        exact step_keyInv h rfl hf
      · cases hs
    · split at hs <;> cases hs <;> exact keyInv_setRenet h _
  | srvDisconnectId id =>
    simp only [MS.step] at hs
    split at hs
    · split at hs
      · rename_i fs' hf
        cases hs
        exact step_keyInv h rfl hf
      · cases hs
    · cases hs
      exact keyInv_setRenet h _
  | srvBroadcast ch m =>
    simp only [MS.step] at hs
    split at hs <;> cases hs
    exact keyInv_sendGhost h _ _ _
  | srvBroadcastExcept ex ch m =>
    simp only [MS.step] at hs
    split at hs <;> cases hs
    dsimp only
    split
    · exact keyInv_setRenet h _
    · exact keyInv_sendGhost h _ _ _
  | othSend ch m => rw [(othStep_fs (a := a) (op := .othSend ch m) hs).1]; exact h
  | othRecv ch => rw [(othStep_fs (a := a) (op := .othRecv ch) hs).1]; exact h
  | othTick dt => rw [(othStep_fs (a := a) (op := .othTick dt) hs).1]; exact h
  | othDisconnect => rw [(othStep_fs (a := a) (op := .othDisconnect) hs).1]; exact h
  | othUpdate dt inbox => rw [(othStep_fs (a := a) (op := .othUpdate dt inbox) hs).1]; exact h
  | othSendPackets => rw [(othStep_fs (a := a) (op := .othSendPackets) hs).1]; exact h
  | othTransportDisconnect => rw [(othStep_fs (a := a) (op := .othTransportDisconnect) hs).1]; exact h

theorem mopNF_of_D {a : AEAD} {cid : Nat} {tok : ConnectToken} {ms : MS} {op : MOp} (h : KeyInv cid tok ms.fs)
    (hss : mopSS a cid ms op = true) (hd : mopNFD a cid ms op = true) : mopNF a cid ms op = true := by
  cases op <;> first | rfl | exact opNF_of_D h hss hd

theorem mrunNF_of_D {a : AEAD} {cid : Nat} {tok : ConnectToken} : ∀ (ops : List MOp) (ms : MS), KeyInv cid tok ms.fs →
    MSingleSessionRun a cid ms ops → MNoForgeryRunD a cid ms ops → MNoForgeryRun a cid ms ops
  | [], _, _, _, _ => rfl
  | op :: ops, ms, h, hss, hd => by
    simp only [MSingleSessionRun, MNoForgeryRunD, MNoForgeryRun, mrunB, Bool.and_eq_true] at hss hd ⊢
    refine ⟨mopNF_of_D h hss.1 hd.1, ?_⟩
    cases hs : ms.step a cid op with
    | none => rfl
    | some ms' =>
      rw [hs] at hss hd
      exact mrunNF_of_D ops ms' (mstep_keyInv h hss.1 hs) hss.2 hd.2

/-- from an established session of `cid` the datagram-level hypothesis suffices, whatever the other client and the
    server application do -/
theorem m_noForgery_of_D {a : AEAD} {cfg : Cfg} {cid : Nat} {ms0 : MS} {ops : List MOp}
    (he : Established cfg cid ms0.fs) (hss : MSingleSessionRun a cid ms0 ops) (hd : MNoForgeryRunD a cid ms0 ops) :
    MNoForgeryRun a cid ms0 ops :=
  mrunNF_of_D ops ms0 (keyInv_of_established he) hss hd

theorem mstep_emitted {a : AEAD} {cid : Nat} {ms ms' : MS} {op : MOp} (h : Emitted ms.fs)
    (hs : ms.step a cid op = some ms') : Emitted ms'.fs := by
  cases op with
  | base op =>
    simp only [MS.step] at hs
    split at hs
    · rename_i fs' hf
      cases hs
      exact step_emitted h hf
    · cases hs
  | srvSendTo id ch m =>
    simp only [MS.step] at hs
    split at hs
    · split at hs
      · rename_i fs' hf
        cases hs
        exact step_emitted h hf
      · cases hs
    · split at hs <;> cases hs
      exact h
  | srvRecvFrom id ch =>
    simp only [MS.step] at hs
    split at hs
    · split at hs
      · rename_i fs' hf
        cases hs
        exact step_emitted h hf
      · cases hs
    · split at hs <;> cases hs <;> exact h
  | srvDisconnectId id =>
    simp only [MS.step] at hs
    split at hs
    · split at hs
      · rename_i fs' hf
        cases hs
        exact step_emitted h hf
      · cases hs
    · cases hs
      exact h
  | srvBroadcast ch m =>
    simp only [MS.step] at hs
    split at hs <;> cases hs
    exact h
  | srvBroadcastExcept ex ch m =>
    simp only [MS.step] at hs
    split at hs <;> cases hs
    dsimp only
    split <;> exact h
  | othSend ch m => rw [(othStep_fs (a := a) (op := .othSend ch m) hs).1]; exact h
  | othRecv ch => rw [(othStep_fs (a := a) (op := .othRecv ch) hs).1]; exact h
  | othTick dt => rw [(othStep_fs (a := a) (op := .othTick dt) hs).1]; exact h
  | othDisconnect => rw [(othStep_fs (a := a) (op := .othDisconnect) hs).1]; exact h
  | othUpdate dt inbox => rw [(othStep_fs (a := a) (op := .othUpdate dt inbox) hs).1]; exact h
  | othSendPackets => rw [(othStep_fs (a := a) (op := .othSendPackets) hs).1]; exact h
  | othTransportDisconnect => rw [(othStep_fs (a := a) (op := .othTransportDisconnect) hs).1]; exact h

theorem mrun_emitted {a : AEAD} {cid : Nat} : ∀ (ops : List MOp) (ms ms' : MS), Emitted ms.fs →
    ms.run a cid ops = some ms' → Emitted ms'.fs
  | [], ms, ms', h, hr => by simp only [MS.run, Option.some.injEq] at hr; subst hr; exact h
  | op :: ops, ms, ms', h, hr => by
    simp only [MS.run] at hr
    cases hs : ms.step a cid op with
    | none => rw [hs] at hr; cases hr
    | some ms1 => rw [hs] at hr; exact mrun_emitted ops ms1 ms' (mstep_emitted h hs) hr

/-! ### lock-step of the server glue along several-client runs -/

theorem lockstep_quiet {g : ServerGlue} {rs' : Server} (hl : GI.LockStep g) (q : SL.QuietC g.renet.conns rs'.conns) :
    GI.LockStep { g with renet := rs' } :=
  ⟨hl.nodup, q.sorted hl.sorted, fun j => by
    show SMap.contains rs'.conns j = true ↔ _
    rw [q.contains j]; exact hl.sync j⟩

/-- `FS.step` keeps the server glue in lock-step; a transport `update` leaves no disconnected connection behind -/
theorem fstep_lockstep {a : AEAD} {cid : Nat} {fs fs' : FS} {op : FSOp} (hl : GI.LockStep fs.s)
    (hs : fs.step a cid op = some fs') :
    GI.LockStep fs'.s ∧ (∀ d inbox, op = .srvUpdate d inbox → GI.NoDead fs'.s.renet) := by
  cases op with
  | cliSend ch m => simp only [FS.step] at hs; split at hs <;> cases hs; exact ⟨hl, fun _ _ e => by cases e⟩
  | cliRecv ch => simp only [FS.step] at hs; split at hs <;> cases hs <;> exact ⟨hl, fun _ _ e => by cases e⟩
  | cliTick dt => simp only [FS.step] at hs; split at hs <;> cases hs; exact ⟨hl, fun _ _ e => by cases e⟩
  | cliDisconnect => simp only [FS.step, Option.some.injEq] at hs; subst hs; exact ⟨hl, fun _ _ e => by cases e⟩
  | cliUpdate d inbox => simp only [FS.step] at hs; split at hs <;> cases hs; exact ⟨hl, fun _ _ e => by cases e⟩
  | cliSendPackets => simp only [FS.step] at hs; split at hs <;> cases hs; exact ⟨hl, fun _ _ e => by cases e⟩
  | cliTransportDisconnect =>
    simp only [FS.step] at hs; split at hs <;> cases hs; exact ⟨hl, fun _ _ e => by cases e⟩
  | srvSend ch m =>
    simp only [FS.step] at hs
    split at hs
    · rename_i rs' hm
      cases hs
      exact ⟨lockstep_quiet hl (SL.Server.sendMessage_spec hm).2.1, fun _ _ e => by cases e⟩
    · cases hs
  | srvRecv ch =>
    simp only [FS.step] at hs
    split at hs
    · rename_i rs' m hm
      cases hs
      exact ⟨lockstep_quiet hl (SL.Server.receiveMessage_spec hm).2.1, fun _ _ e => by cases e⟩
    · rename_i rs' hm
      cases hs
      exact ⟨lockstep_quiet hl (SL.Server.receiveMessage_spec hm).2.1, fun _ _ e => by cases e⟩
    · cases hs
  | srvTick dt =>
    simp only [FS.step] at hs
    split at hs
    · rename_i rs' hm
      cases hs
      exact ⟨lockstep_quiet hl (SL.Server.update_spec hm).2.1, fun _ _ e => by cases e⟩
    · cases hs
  | srvDisconnect =>
    simp only [FS.step, Option.some.injEq] at hs
    subst hs
    exact ⟨lockstep_quiet hl (SL.Server.disconnect_spec fs.s.renet cid).2.1, fun _ _ e => by cases e⟩
  | srvUpdate d inbox =>
    simp only [FS.step] at hs
    split at hs
    · rename_i g' out ho
      cases hs
      obtain ⟨h1, h2⟩ := GI.serverUpdate_lockstep ho hl
      exact ⟨h1, fun _ _ _ => h2⟩
    · cases hs
  | srvSendPackets =>
    simp only [FS.step] at hs
    split at hs
    · rename_i g' out ho
      cases hs
      exact ⟨(GI.serverSendPackets_lockstep ho hl).1, fun _ _ e => by cases e⟩
    · cases hs
  | srvDisconnectAll =>
    simp only [FS.step] at hs
    split at hs
    · rename_i g' out ho
      cases hs
      exact ⟨(GI.serverDisconnectAll_lockstep ho hl).1, fun _ _ e => by cases e⟩
    · cases hs

theorem mstep_lockstep {a : AEAD} {cid : Nat} {ms ms' : MS} {op : MOp} (hl : GI.LockStep ms.fs.s)
    (hs : ms.step a cid op = some ms') :
    GI.LockStep ms'.fs.s ∧ (∀ d inbox, op = .base (.srvUpdate d inbox) → GI.NoDead ms'.fs.s.renet) := by
  cases op with
  | base op =>
    simp only [MS.step] at hs
    split at hs
    · rename_i fs' hf
      cases hs
      obtain ⟨h1, h2⟩ := fstep_lockstep hl hf
      exact ⟨h1, fun d inbox e => h2 d inbox (by cases e; rfl)⟩
    · cases hs
  | srvSendTo id ch m =>
    refine ⟨?_, fun _ _ e => by cases e⟩
    simp only [MS.step] at hs
    split at hs
    · split at hs
      · rename_i fs' hf
        cases hs
        exact (fstep_lockstep hl hf).1
      · cases hs
    · split at hs
      · rename_i rs' hm
        cases hs
        exact lockstep_quiet hl (SL.Server.sendMessage_spec hm).2.1
      · cases hs
  | srvRecvFrom id ch =>
    refine ⟨?_, fun _ _ e => by cases e⟩
    simp only [MS.step] at hs
    split at hs
    · split at hs
      · rename_i fs' hf
        cases hs
        exact (fstep_lockstep hl hf).1
      · cases hs
    · split at hs
      · rename_i rs' m hm
        cases hs
        exact lockstep_quiet hl (SL.Server.receiveMessage_spec hm).2.1
      · rename_i rs' hm
        cases hs
        exact lockstep_quiet hl (SL.Server.receiveMessage_spec hm).2.1
      · cases hs
  | srvDisconnectId id =>
    refine ⟨?_, fun _ _ e => by cases e⟩
    simp only [MS.step] at hs
    split at hs
    · split at hs
      · rename_i fs' hf
        cases hs
        exact (fstep_lockstep hl hf).1
      · cases hs
    · cases hs
      exact lockstep_quiet hl (SL.Server.disconnect_spec ms.fs.s.renet id).2.1
  | srvBroadcast ch m =>
    refine ⟨?_, fun _ _ e => by cases e⟩
    simp only [MS.step] at hs
    split at hs
    · rename_i rs' hm
      cases hs
      exact lockstep_quiet hl (SL.Server.broadcast_spec hm).2.1
    · cases hs
  | srvBroadcastExcept ex ch m =>
    refine ⟨?_, fun _ _ e => by cases e⟩
    simp only [MS.step] at hs
    split at hs
    · rename_i rs' hm
      cases hs
      dsimp only
      split <;> exact lockstep_quiet hl (SL.Server.broadcastExcept_spec hm).2.1
    · cases hs
  | othSend ch m =>
    rw [(othStep_fs (a := a) (op := .othSend ch m) hs).1]; exact ⟨hl, fun _ _ e => by cases e⟩
  | othRecv ch =>
    rw [(othStep_fs (a := a) (op := .othRecv ch) hs).1]; exact ⟨hl, fun _ _ e => by cases e⟩
  | othTick dt =>
    rw [(othStep_fs (a := a) (op := .othTick dt) hs).1]; exact ⟨hl, fun _ _ e => by cases e⟩
  | othDisconnect =>
    rw [(othStep_fs (a := a) (op := .othDisconnect) hs).1]; exact ⟨hl, fun _ _ e => by cases e⟩
  | othUpdate dt inbox =>
    rw [(othStep_fs (a := a) (op := .othUpdate dt inbox) hs).1]; exact ⟨hl, fun _ _ e => by cases e⟩
  | othSendPackets =>
    rw [(othStep_fs (a := a) (op := .othSendPackets) hs).1]; exact ⟨hl, fun _ _ e => by cases e⟩
  | othTransportDisconnect =>
    rw [(othStep_fs (a := a) (op := .othTransportDisconnect) hs).1]; exact ⟨hl, fun _ _ e => by cases e⟩

theorem mrun_lockstep {a : AEAD} {cid : Nat} : ∀ (ops : List MOp) (ms ms' : MS), GI.LockStep ms.fs.s →
    ms.run a cid ops = some ms' → GI.LockStep ms'.fs.s
  | [], ms, ms', h, hr => by simp only [MS.run, Option.some.injEq] at hr; subst hr; exact h
  | op :: ops, ms, ms', h, hr => by
    simp only [MS.run] at hr
    cases hs : ms.step a cid op with
    | none => rw [hs] at hr; cases hr
    | some ms1 => rw [hs] at hr; exact mrun_lockstep ops ms1 ms' (mstep_lockstep h hs).1 hr

/-! ### the frame statements proper -/

/-- `fs'` is `fs` as far as the observed session `cid` is concerned: same client, same netcode server, same connection
    of `cid` in the server's renet table, same histories and ghost logs (`ySeq`, a ghost that follows the entry of `cid`,
    compared through `trackSeq`).  Other entries of the renet table are unconstrained. -/
structure SameForCid (cid : Nat) (fs fs' : FS) : Prop where
  c : fs'.c = fs.c
  netcode : fs'.s.netcode = fs.s.netcode
  conn : SMap.find? fs'.s.renet.conns cid = SMap.find? fs.s.renet.conns cid
  emC : fs'.emC = fs.emC
  emS : fs'.emS = fs.emS
  sealedC : fs'.sealedC = fs.sealedC
  sealedS : fs'.sealedS = fs.sealedS
  ySeq : trackSeq cid fs'.s.renet fs'.ySeq = trackSeq cid fs.s.renet fs.ySeq
  subC : fs'.subC = fs.subC
  subCU : fs'.subCU = fs.subCU
  obtS : fs'.obtS = fs.obtS
  subS : fs'.subS = fs.subS
  subSU : fs'.subSU = fs.subSU
  obtC : fs'.obtC = fs.obtC

theorem SameForCid.refl (cid : Nat) (fs : FS) : SameForCid cid fs fs :=
  ⟨rfl, rfl, rfl, rfl, rfl, rfl, rfl, rfl, rfl, rfl, rfl, rfl, rfl, rfl⟩

theorem trackSeq_congr {cid : Nat} {r1 r2 : Server} (h : SMap.find? r1.conns cid = SMap.find? r2.conns cid) (old : Nat) :
    trackSeq cid r1 (trackSeq cid r1 old) = trackSeq cid r2 old := by
  unfold trackSeq
  rw [h]
  cases SMap.find? r2.conns cid <;> rfl

theorem sameForCid_setRenet {cid : Nat} {fs : FS} {rs' : Server}
    (h : SMap.find? rs'.conns cid = SMap.find? fs.s.renet.conns cid) : SameForCid cid fs (setRenet cid fs rs') :=
  ⟨rfl, rfl, h, rfl, rfl, rfl, rfl, trackSeq_congr h _, rfl, rfl, rfl, rfl, rfl, rfl⟩

theorem sameForCid_sendGhost {cid : Nat} {fs : FS} {r1 r2 : Server} (ch : Nat) (m : Bytes)
    (h : SMap.find? r2.conns cid = SMap.find? r1.conns cid) :
    SameForCid cid (sendGhost cid fs r1 ch m) (sendGhost cid fs r2 ch m) := by
  refine ⟨rfl, rfl, h, rfl, rfl, rfl, rfl, ?_, rfl, rfl, rfl, ?_, rfl, rfl⟩
  · show trackSeq cid r2 (trackSeq cid r2 fs.ySeq) = trackSeq cid r1 (trackSeq cid r1 fs.ySeq)
    rw [trackSeq_congr h, trackSeq_congr rfl]
  · simp only [sendGhost, h]

/-- the operations that are addressed to somebody else -/
def isOther (cid : Nat) : MOp → Bool
  | .base _ => false
  | .srvBroadcast _ _ => false
  | .srvSendTo id _ _ => id ≠ cid
  | .srvRecvFrom id _ => id ≠ cid
  | .srvDisconnectId id => id ≠ cid
  | .srvBroadcastExcept ex _ _ => ex = cid
  | _ => true

/-- **Frame.**  `send_message(id, ..)`, `receive_message(id, ..)`, `disconnect(id)` for `id ≠ cid`,
    `broadcast_message_except(cid, ..)` and every call of the other client leave everything of the observed session
    as it was. -/
theorem other_frame {a : AEAD} {cid : Nat} {ms ms' : MS} {op : MOp} (ho : isOther cid op = true)
    (hs : ms.step a cid op = some ms') : SameForCid cid ms.fs ms'.fs := by
  cases op with
  | base op => cases ho
  | srvBroadcast ch m => cases ho
  | srvSendTo id ch m =>
    have hne : id ≠ cid := of_decide_eq_true ho
    simp only [MS.step, if_neg hne] at hs
    split at hs
    · rename_i rs' hm
      cases hs
      exact sameForCid_setRenet ((SL.Server.sendMessage_spec hm).1.others cid (fun e => hne e.symm))
    · cases hs
  | srvRecvFrom id ch =>
    have hne : id ≠ cid := of_decide_eq_true ho
    simp only [MS.step, if_neg hne] at hs
    split at hs
    · rename_i rs' m hm
      cases hs
      exact sameForCid_setRenet ((SL.Server.receiveMessage_spec hm).1.others cid (fun e => hne e.symm))
    · rename_i rs' hm
      cases hs
      exact sameForCid_setRenet ((SL.Server.receiveMessage_spec hm).1.others cid (fun e => hne e.symm))
    · cases hs
  | srvDisconnectId id =>
    have hne : id ≠ cid := of_decide_eq_true ho
    simp only [MS.step, if_neg hne, Option.some.injEq] at hs
    subst hs
    exact sameForCid_setRenet ((SL.Server.disconnect_spec ms.fs.s.renet id).1.others cid (fun e => hne e.symm))
  | srvBroadcastExcept ex ch m =>
    have he : ex = cid := of_decide_eq_true ho
    subst he
    simp only [MS.step, if_true] at hs
    split at hs
    · rename_i rs' hm
      cases hs
      exact sameForCid_setRenet (SL.Server.broadcastExcept_spec hm).2.2.1
    · cases hs
  | othSend ch m => rw [(othStep_fs (a := a) (op := .othSend ch m) hs).1]; exact .refl _ _
  | othRecv ch => rw [(othStep_fs (a := a) (op := .othRecv ch) hs).1]; exact .refl _ _
  | othTick dt => rw [(othStep_fs (a := a) (op := .othTick dt) hs).1]; exact .refl _ _
  | othDisconnect => rw [(othStep_fs (a := a) (op := .othDisconnect) hs).1]; exact .refl _ _
  | othUpdate dt inbox => rw [(othStep_fs (a := a) (op := .othUpdate dt inbox) hs).1]; exact .refl _ _
  | othSendPackets => rw [(othStep_fs (a := a) (op := .othSendPackets) hs).1]; exact .refl _ _
  | othTransportDisconnect => rw [(othStep_fs (a := a) (op := .othTransportDisconnect) hs).1]; exact .refl _ _

theorem sendMessage_some {s : Server} {i ch : Nat} {m : Bytes} {c c' : Conn} (hf : SMap.find? s.conns i = some c)
    (hc : c.sendMessage ch m = .ok c') :
    s.sendMessage i ch m = .ok { s with conns := SMap.insert s.conns i c' } := by
  simp [Server.sendMessage, hf, hc]

/-- a call that treats the entry of `cid` the way `send_message(cid, ch, m)` does has a `send_message(cid, ch, m)`
    that succeeds with the same entry -/
theorem sendMessage_matches {cid : Nat} {rs rs' : Server} {ch : Nat} {m : Bytes}
    (hn : SMap.find? rs.conns cid = none → SMap.find? rs'.conns cid = none)
    (hc : ∀ c, SMap.find? rs.conns cid = some c → ∃ c', c.sendMessage ch m = .ok c' ∧ SMap.find? rs'.conns cid = some c') :
    ∃ rs1, rs.sendMessage cid ch m = .ok rs1 ∧ SMap.find? rs'.conns cid = SMap.find? rs1.conns cid := by
  cases hf : SMap.find? rs.conns cid with
  | none =>
    refine ⟨rs, by simp [Server.sendMessage, hf], ?_⟩
    rw [hn hf, hf]
  | some c =>
    obtain ⟨c', hsm, hf'⟩ := hc c hf
    refine ⟨_, sendMessage_some hf hsm, ?_⟩
    rw [hf']
    exact (SL.SMap.find?_insert_self _ _ _).symm

/-- **A broadcast is, for the observed client, exactly a `srvSend`**: whenever `broadcast_message(ch, m)` returns,
    `send_message(cid, ch, m)` from the same state returns too, and the two resulting states are the same as far as the
    session of `cid` is concerned (its connection, its ghost submission logs, everything). -/
theorem broadcast_is_srvSend {a : AEAD} {cid : Nat} {ms ms' : MS} {ch : Nat} {m : Bytes}
    (hs : ms.step a cid (.srvBroadcast ch m) = some ms') :
    ∃ fs1, ms.fs.step a cid (.srvSend ch m) = some fs1 ∧ SameForCid cid fs1 ms'.fs := by
  simp only [MS.step] at hs
  split at hs
  · rename_i rs' hm
    cases hs
    obtain ⟨-, -, hj⟩ := SL.Server.broadcast_spec hm
    obtain ⟨rs1, h1, h2⟩ := sendMessage_matches (hj cid).1 (hj cid).2
    exact ⟨_, step_srvSend h1, sameForCid_sendGhost ch m h2⟩
  · cases hs

/-- the same for `broadcast_message_except(ex, ch, m)` with `ex ≠ cid` (for `ex = cid`: `other_frame`) -/
theorem broadcastExcept_is_srvSend {a : AEAD} {cid : Nat} {ms ms' : MS} {ex ch : Nat} {m : Bytes} (hne : ex ≠ cid)
    (hs : ms.step a cid (.srvBroadcastExcept ex ch m) = some ms') :
    ∃ fs1, ms.fs.step a cid (.srvSend ch m) = some fs1 ∧ SameForCid cid fs1 ms'.fs := by
  simp only [MS.step, if_neg hne] at hs
  split at hs
  · rename_i rs' hm
    cases hs
    obtain ⟨-, -, -, hj⟩ := SL.Server.broadcastExcept_spec hm
    obtain ⟨rs1, h1, h2⟩ := sendMessage_matches (hj cid (fun e => hne e.symm)).1 (hj cid (fun e => hne e.symm)).2
    exact ⟨_, step_srvSend h1, sameForCid_sendGhost ch m h2⟩
  · cases hs

/-- `send_message(id, ..)` … with `id = cid` ARE the single-session operations -/
theorem sendTo_cid {a : AEAD} {cid : Nat} {ms ms' : MS} {ch : Nat} {m : Bytes}
    (hs : ms.step a cid (.srvSendTo cid ch m) = some ms') : ms.fs.step a cid (.srvSend ch m) = some ms'.fs := by
  simp only [MS.step, if_true] at hs
  split at hs
  · rename_i fs' hf
    cases hs
    exact hf
  · cases hs

end RenetVerif.FullStackMulti
