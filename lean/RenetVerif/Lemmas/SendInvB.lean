import RenetVerif.Lemmas.SendInv
namespace RenetVerif
open C SMap

/-! ## Part 2 : SendChannelReliable -/

/-- total length of the stored messages -/
def msum : SMap Unacked → Nat
  | [] => 0
  | (_, u) :: r => u.msg.length + msum r

@[simp] theorem msum_nil : msum [] = 0 := rfl
@[simp] theorem msum_cons (k : Nat) (u : Unacked) (r : SMap Unacked) : msum ((k, u) :: r) = u.msg.length + msum r := rfl

theorem msum_append : ∀ (a b : SMap Unacked), msum (a ++ b) = msum a + msum b
  | [], b => by simp
  | (k, u) :: a, b => by simp only [List.cons_append, msum_cons, msum_append a b]; omega

theorem msum_erase : ∀ {m : SMap Unacked} {k : Nat} {u : Unacked}, find? m k = some u →
    msum (erase m k) + u.msg.length = msum m
  | [], _, _, h => by simp at h
  | (k0, u0) :: r, k, u, h => by
    rw [find?_cons] at h
    simp only [SMap.erase]
    by_cases c : k0 = k
    · rw [if_pos c] at h ⊢; cases h; simp only [msum_cons]; omega
    · rw [if_neg c] at h ⊢
      have := msum_erase h
      simp only [msum_cons]; omega

theorem msum_insert_replace : ∀ {m : SMap Unacked} {k : Nat} {u : Unacked} (v : Unacked), Sorted m → find? m k = some u →
    msum (insert m k v) + u.msg.length = msum m + v.msg.length
  | [], _, _, _, _, h => by simp at h
  | (k0, u0) :: r, k, u, v, hs, h => by
    rw [find?_cons] at h
    have hs' := sorted_cons.mp hs
    simp only [SMap.insert]
    by_cases c : k0 = k
    · rw [if_pos c] at h; cases h
      rw [if_neg (by omega), if_pos c.symm]
      simp only [msum_cons]; omega
    · rw [if_neg c] at h
      have hm := hs'.1 _ (find?_some_mem h)
      simp only at hm
      rw [if_neg (by omega), if_neg (by omega)]
      have := msum_insert_replace v hs'.2 h
      simp only [msum_cons]; omega

theorem msum_ge {m : SMap Unacked} {k : Nat} {u : Unacked} (h : find? m k = some u) : u.msg.length ≤ msum m := by
  have := msum_erase h; omega

/-! ### per-entry well-formedness -/
def Unacked.OK : Unacked → Prop
  | .small m _ => m.length ≤ SLICE_SIZE
  | .sliced m n numAcked _ acked lastSent =>
    SLICE_SIZE < m.length ∧ n = divCeil m.length SLICE_SIZE ∧ acked.length = n ∧ lastSent.length = n ∧
    numAcked = acked.count true ∧ numAcked < n

theorem Unacked.OK.two_le {m : Bytes} {n k nx : Nat} {a : List Bool} {ls : List (Option Nat)}
    (h : (Unacked.sliced m n k nx a ls).OK) : 2 ≤ n := by
  obtain ⟨h1, h2, -⟩ := h
  simp only [divCeil, SLICE_SIZE] at h1 h2
  omega

def Unacked.IsSmall : Unacked → Prop
  | .small .. => True
  | .sliced .. => False

def Unacked.SliceIdx (idx : Nat) : Unacked → Prop
  | .small .. => False
  | .sliced _ n .. => idx < n

/-- same kind, same payload, same slice count -/
def Unacked.Kin : Unacked → Unacked → Prop
  | .small m _, .small m' _ => m = m'
  | .sliced m n _ _ _ _, .sliced m' n' _ _ _ _ => m = m' ∧ n = n'
  | _, _ => False

theorem Unacked.Kin.refl : ∀ (u : Unacked), u.Kin u
  | .small .. => rfl
  | .sliced .. => ⟨rfl, rfl⟩

theorem Unacked.Kin.trans : ∀ {a b c : Unacked}, a.Kin b → b.Kin c → a.Kin c
  | .small .., .small .., .small .., h1, h2 => Eq.trans h1 h2
  | .sliced .., .sliced .., .sliced .., h1, h2 => ⟨h1.1.trans h2.1, h1.2.trans h2.2⟩
  | .small .., .sliced .., _, h1, _ => h1.elim
  | .sliced .., .small .., _, h1, _ => h1.elim
  | .small .., .small .., .sliced .., _, h2 => h2.elim
  | .sliced .., .sliced .., .small .., _, h2 => h2.elim

theorem Unacked.Kin.isSmall : ∀ {a b : Unacked}, a.Kin b → a.IsSmall → b.IsSmall
  | .small .., .small .., _, _ => trivial
  | .small .., .sliced .., h, _ => h.elim
  | .sliced .., _, _, h => h.elim

theorem Unacked.Kin.sliceIdx {idx : Nat} : ∀ {a b : Unacked}, a.Kin b → a.SliceIdx idx → b.SliceIdx idx
  | .sliced .., .sliced .., h, hi => by simp only [Unacked.SliceIdx] at hi ⊢; have := h.2; omega
  | .sliced .., .small .., h, _ => h.elim
  | .small .., _, _, h => h.elim

theorem Unacked.Kin.msg : ∀ {a b : Unacked}, a.Kin b → a.msg = b.msg
  | .small .., .small .., h => h
  | .sliced .., .sliced .., h => h.1
  | .small .., .sliced .., h => h.elim
  | .sliced .., .small .., h => h.elim

/-! ### the channel invariant -/
structure SendRel.Inv (s : SendRel) : Prop where
  sorted : Sorted s.unacked
  keys : ∀ x ∈ s.unacked, x.1 < s.nextId
  entries : ∀ x ∈ s.unacked, x.2.OK
  mem : s.mem = msum s.unacked
  bound : s.mem ≤ s.maxMem

theorem SendRel.Inv.find_lt {s : SendRel} (h : s.Inv) {id : Nat} {u : Unacked} (hf : find? s.unacked id = some u) :
    id < s.nextId := h.keys _ (find?_some_mem hf)

theorem SendRel.Inv.find_ok {s : SendRel} (h : s.Inv) {id : Nat} {u : Unacked} (hf : find? s.unacked id = some u) :
    u.OK := h.entries _ (find?_some_mem hf)

theorem SendRel.Inv.find_nextId {s : SendRel} (h : s.Inv) : find? s.unacked s.nextId = none := by
  apply find?_none_of_forall_ne
  intro x hx; have := h.keys x hx; omega

/-- available memory is exactly the budget minus the bytes of the messages still stored -/
theorem SendRel.Inv.available_eq {s : SendRel} (h : s.Inv) : s.available = s.maxMem - msum s.unacked := by
  unfold SendRel.available; rw [h.mem]

theorem SendRel.new_inv (ch resend maxMem : Nat) : (SendRel.new ch resend maxMem).Inv :=
  ⟨sorted_nil, fun _ h => (by cases h), fun _ h => (by cases h), rfl, Nat.zero_le _⟩

/-- what a recorded packet may say about a channel -/
def SendRel.InfoOK (s : SendRel) : SentInfo → Prop
  | .relMsgs _ ids => ∀ id ∈ ids, id < s.nextId ∧ ∀ u, find? s.unacked id = some u → u.IsSmall
  | .relSlice _ id idx => id < s.nextId ∧ ∀ u, find? s.unacked id = some u → u.SliceIdx idx
  | _ => True

/-- one or more channel operations later: ids below the old `nextId` are gone or bound to an entry
    of the same kind/payload/slice count; nothing else about the channel identity changed -/
def SendRel.Step (s s' : SendRel) : Prop :=
  s'.ch = s.ch ∧ s'.maxMem = s.maxMem ∧ s.nextId ≤ s'.nextId ∧
  ∀ id u', id < s.nextId → find? s'.unacked id = some u' → ∃ u, find? s.unacked id = some u ∧ u.Kin u'

theorem SendRel.Step.refl (s : SendRel) : s.Step s :=
  ⟨rfl, rfl, Nat.le_refl _, fun _ u' _ h => ⟨u', h, Unacked.Kin.refl _⟩⟩

theorem SendRel.Step.trans {a b c : SendRel} (h1 : a.Step b) (h2 : b.Step c) : a.Step c := by
  obtain ⟨a1, a2, a3, a4⟩ := h1
  obtain ⟨b1, b2, b3, b4⟩ := h2
  refine ⟨b1.trans a1, b2.trans a2, Nat.le_trans a3 b3, ?_⟩
  intro id u'' hid hf
  obtain ⟨u', hf', k'⟩ := b4 id u'' (by omega) hf
  obtain ⟨u, hf0, k0⟩ := a4 id u' hid hf'
  exact ⟨u, hf0, k0.trans k'⟩

theorem SendRel.InfoOK.step {s s' : SendRel} (h : s.Step s') : ∀ {i : SentInfo}, s.InfoOK i → s'.InfoOK i
  | .relMsgs _ ids, hi => by
    intro id hid
    obtain ⟨h1, h2⟩ := hi id hid
    refine ⟨Nat.lt_of_lt_of_le h1 h.2.2.1, ?_⟩
    intro u' hf
    obtain ⟨u, hf0, k⟩ := h.2.2.2 id u' h1 hf
    exact k.isSmall (h2 u hf0)
  | .relSlice _ id idx, hi => by
    obtain ⟨h1, h2⟩ := hi
    refine ⟨Nat.lt_of_lt_of_le h1 h.2.2.1, ?_⟩
    intro u' hf
    obtain ⟨u, hf0, k⟩ := h.2.2.2 id u' h1 hf
    exact k.sliceIdx (h2 u hf0)
  | .none, _ => trivial
  | .ack _, _ => trivial

/-! ### send_message -/
theorem newSliced_ok (m : Bytes) (h : SLICE_SIZE < m.length) : (Unacked.newSliced m).OK := by
  unfold Unacked.newSliced
  refine ⟨h, rfl, by simp, by simp, by simp [List.count_replicate], ?_⟩
  simp only [divCeil, SLICE_SIZE] at h ⊢; omega

theorem SendRel.sendMessage_spec {s s' : SendRel} {m : Bytes} (h : s.Inv) (hs : s.sendMessage m = .ok s') :
    s'.Inv ∧ s.Step s' ∧ s'.mem = s.mem + m.length ∧ s'.nextId = s.nextId + 1 ∧
    (∃ u, u.msg = m ∧ find? s'.unacked s.nextId = some u) ∧
    (∀ id, id ≠ s.nextId → find? s'.unacked id = find? s.unacked id) := by
  unfold SendRel.sendMessage at hs
  by_cases c : s.mem + m.length > s.maxMem
  · rw [if_pos c] at hs; cases hs
  · rw [if_neg c] at hs
    simp only [Except.ok.injEq] at hs
    subst hs
    have hu : (if m.length > SLICE_SIZE then Unacked.newSliced m else Unacked.small m none).OK ∧
        (if m.length > SLICE_SIZE then Unacked.newSliced m else Unacked.small m none).msg = m := by
      by_cases c2 : m.length > SLICE_SIZE
      · rw [if_pos c2]; exact ⟨newSliced_ok m c2, rfl⟩
      · rw [if_neg c2]; exact ⟨by simp only [Unacked.OK]; omega, rfl⟩
    generalize (if m.length > SLICE_SIZE then Unacked.newSliced m else Unacked.small m none) = u at hu
    refine ⟨⟨?_, ?_, ?_, ?_, ?_⟩, ⟨rfl, rfl, by dsimp only; omega, ?_⟩, rfl, rfl, ⟨u, hu.2, find?_insert_self _ _ _⟩, ?_⟩
    · exact sorted_insert _ _ h.sorted
    · intro x hx
      rcases mem_insert hx with rfl | hx
      · dsimp only; omega
      · have := h.keys x hx; dsimp only; omega
    · intro x hx
      rcases mem_insert hx with rfl | hx
      · exact hu.1
      · exact h.entries x hx
    · dsimp only
      rw [insert_above u h.keys, msum_append, h.mem]
      simp only [msum_cons, msum_nil, hu.2]; omega
    · dsimp only; omega
    · intro id u' hid hf
      dsimp only at hf
      rw [find?_insert_ne _ _ (by omega)] at hf
      exact ⟨u', hf, Unacked.Kin.refl _⟩
    · intro id hid
      exact find?_insert_ne _ _ (fun e => hid e.symm)

end RenetVerif
