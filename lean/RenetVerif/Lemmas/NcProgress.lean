/-
  Netcode handshake progress (the step lemmas of property C18) under `AEAD.Laws`:
  request ⇒ challenge + half-open session ⇒ (client) SendingConnectionResponse ⇒ response ⇒ ClientConnected + keep-alive
  ⇒ (client) Connected.  Uses the wire round-trip lemmas of Lemmas/NcWire.lean and the token round-trip lemmas of
  Lemmas/NcAead.lean.
-/
import RenetVerif.Lemmas.NcHandshake
import RenetVerif.Lemmas.NcTimeout
import RenetVerif.Lemmas.NcWire
import RenetVerif.Lemmas.NcAead
namespace RenetVerif.Netcode
namespace NS
open RenetVerif RenetVerif.NcAead.Token

/-! ## Part 11 : the datagrams of an honest handshake -/

/-- the private token `t` sealed under the server's connect key (what `ConnectToken::generate` puts in `private_data`) -/
def sealedPriv (a : AEAD) (s : NetcodeServer) (t : PrivateConnectToken) (expire : Nat) (xnonce : Bytes) : Bytes :=
  a.xseal s.connectKey xnonce (PrivateConnectToken.additionalData s.protocolId expire) (ptPlain t)

def requestPacket (a : AEAD) (s : NetcodeServer) (t : PrivateConnectToken) (expire : Nat) (xnonce : Bytes) : Packet :=
  .connectionRequest C.NETCODE_VERSION_INFO s.protocolId expire xnonce (sealedPriv a s t expire xnonce)

/-- the connection-request datagram -/
def requestBytes (a : AEAD) (s : NetcodeServer) (t : PrivateConnectToken) (expire : Nat) (xnonce : Bytes) : Bytes :=
  0 :: (requestPacket a s t expire xnonce).body

/-- the challenge token the server seals for `(id, ud)` with challenge sequence `cs` -/
def challengeToken (a : AEAD) (s : NetcodeServer) (id : Nat) (ud : Bytes) (cs : Nat) : Bytes :=
  a.seal s.challengeKey (Packet.nonce cs) [] (chPlain id ud)

/-- the challenge datagram answering a request for token `t` -/
def challengeBytes (a : AEAD) (s : NetcodeServer) (t : PrivateConnectToken) : Bytes :=
  Packet.sealedBytes a (.challenge (s.challengeSequence + 1)
      (challengeToken a s t.clientId t.userData (s.challengeSequence + 1)))
    s.protocolId s.globalSequence t.serverToClientKey

theorem sealedPriv_length (a : AEAD) (hl : a.Laws) (s : NetcodeServer) {t : PrivateConnectToken} (hwf : PTokenWF t)
    (expire : Nat) (xnonce : Bytes) : (sealedPriv a s t expire xnonce).length = 1024 := by
  unfold sealedPriv; rw [hl.xseal_length, ptPlain_length hwf]

theorem chPlain_length {id : Nat} {ud : Bytes} (hud : ud.length = 256) : (chPlain id ud).length = 284 := by
  unfold chPlain
  simp only [List.length_append, List.length_replicate, hud]
  have : (leBytes id 8).length = 8 := RenetVerif.Netcode.leBytes_length id 8
  omega

theorem challengeToken_length (a : AEAD) (hl : a.Laws) (s : NetcodeServer) (id : Nat) {ud : Bytes}
    (hud : ud.length = 256) (cs : Nat) : (challengeToken a s id ud cs).length = 300 := by
  unfold challengeToken; rw [hl.seal_length, chPlain_length hud]

theorem requestPacket_wf (a : AEAD) (hl : a.Laws) (s : NetcodeServer) {t : PrivateConnectToken} (hwf : PTokenWF t)
    {expire : Nat} {xnonce : Bytes} (hxn : xnonce.length = 24) (hexp : expire < 2 ^ 64) (hpid : s.protocolId < 2 ^ 64) :
    (requestPacket a s t expire xnonce).WF :=
  ⟨rfl, hpid, hexp, hxn, sealedPriv_length a hl s hwf expire xnonce⟩

/-- the sealed private token opens, under the server's key, to `t` -/
theorem sealedPriv_opens (a : AEAD) (hl : a.Laws) (s : NetcodeServer) {t : PrivateConnectToken} (hwf : PTokenWF t)
    (expire : Nat) (xnonce : Bytes) : TokenOpens a s expire xnonce (sealedPriv a s t expire xnonce) t := by
  refine ⟨ptPlain t, hl.xopen_xseal _ _ _ _, ?_⟩
  unfold ptPlain
  rw [List.append_assoc]
  exact pt_read_bytes hwf _

/-! ## Part 12 : server, step 1 — a valid request is answered with a challenge -/

/-- **Progress, request ⇒ challenge.**  A connection request carrying a well-formed token `t` sealed under the server's
    key, unexpired, (secure mode) listing a public address of the server, from an address that is neither connected
    nor half-open, for an id that is not connected, with room in the pending map, a token not bound to another
    address, and fewer than `max_clients` clients connected: the server answers `PacketToSend addr challenge` and a
    half-open session with the token's fields exists. -/
theorem progress_request (a : AEAD) (hl : a.Laws) {s : NetcodeServer} {addr : Addr} {t : PrivateConnectToken}
    {expire : Nat} {xnonce : Bytes} (hi : ServerInv s) (hg : s.globalSequence < U64_MAX)
    (hc : s.challengeSequence < U64_MAX) (hwf : PTokenWF t) (hxn : xnonce.length = 24) (hexp : expire < 2 ^ 64)
    (hpid : s.protocolId < 2 ^ 64) (hnow : asSecs s.currentTime < expire)
    (hhost : s.secure = true → ∃ x, some x ∈ t.serverAddresses ∧ x ∈ s.publicAddresses)
    (hfa : findClientByAddr s.clients addr = none) (hfi : findClientById s.clients t.clientId = none)
    (hpf : pendingFind s.pendingClients addr = none)
    (hroom : s.pendingClients.length < C.NETCODE_MAX_PENDING_CLIENTS)
    (hbind : (s.findOrAddConnectTokenEntry ⟨s.currentTime, addr, tokenMac (sealedPriv a s t expire xnonce)⟩).2 = true)
    (hlt : countConnected s.clients < s.maxClients) :
    ∃ s', s.processPacket a addr (requestBytes a s t expire xnonce) = .ok (.packetToSend addr (challengeBytes a s t), s') ∧
      pendingFind s'.pendingClients addr = some (mkPending s.currentTime addr expire t) ∧
      s'.clients = s.clients ∧ s'.challengeSequence = s.challengeSequence + 1 ∧
      s'.globalSequence = s.globalSequence + 1 ∧ s'.challengeKey = s.challengeKey ∧ s'.protocolId = s.protocolId ∧
      s'.maxClients = s.maxClients ∧ s'.currentTime = s.currentTime := by
  have hpwf := requestPacket_wf a hl s hwf hxn hexp hpid (t := t)
  have hdec := Packet.decode_request_bytes a (p := requestPacket a s t expire xnonce) rfl hpwf s.protocolId none none
  have hacc : Accepted a s addr C.NETCODE_VERSION_INFO s.protocolId expire xnonce (sealedPriv a s t expire xnonce) t :=
    ⟨rfl, rfl, hnow, sealedPriv_opens a hl s hwf expire xnonce, hhost, hfa, hfi, Or.inr hroom, hbind⟩
  have hgen := ch_generate_eq a t.clientId t.userData hwf.userData (s.challengeSequence + 1) s.challengeKey
  have hen : (Packet.challenge (s.challengeSequence + 1)
        (challengeToken a s t.clientId t.userData (s.challengeSequence + 1))).encode a C.NETCODE_MAX_PACKET_BYTES
        s.protocolId (some (s.globalSequence, t.serverToClientKey)) = .ok (challengeBytes a s t) := by
    rw [Packet.encode_sealed_eq a _ _ _ _ _ (by simp [Packet.packetType])]
    have h1 := Packet.sbr_le s.globalSequence
    have h2 := challengeToken_length a hl s t.clientId hwf.userData (s.challengeSequence + 1)
    rw [if_pos]
    · rfl
    · simp only [Packet.body, List.length_append, leBytes_length, h2]
      have : C.NETCODE_MAX_PACKET_BYTES = 1400 := rfl
      omega
  obtain ⟨r, s', hpp, hout⟩ := pp_spec a hi hg hc addr (requestBytes a s t expire xnonce)
  have hlen : ¬ (requestBytes a s t expire xnonce).length < 2 + C.NETCODE_MAC_BYTES := by
    have := sealedPriv_length a hl s hwf expire xnonce
    simp only [requestBytes, requestPacket, Packet.body, List.length_cons, List.length_append, leBytes_length, this, hxn]
    decide
  cases hout with
  | short h => exact absurd h hlen
  | connErr i c e w' hfa' => rw [hfa] at hfa'; cases hfa'
  | connDisconnect i c sq w' hfa' => rw [hfa] at hfa'; cases hfa'
  | connPayload i c sq p w' hfa' => rw [hfa] at hfa'; cases hfa'
  | connKeepAlive i c sq ci mc w' hfa' => rw [hfa] at hfa'; cases hfa'
  | connOther i c sq pk w' hfa' => rw [hfa] at hfa'; cases hfa'
  | pendErr p e w' _ hpf' => rw [hpf] at hpf'; cases hpf'
  | pendRequest p sq v pid expire' xnonce' data w' R _ _ _ hpf' => rw [hpf] at hpf'; cases hpf'
  | pendOther p sq pk w' _ hpf' => rw [hpf] at hpf'; cases hpf'
  | respRejected p sq ts td w' _ hpf' => rw [hpf] at hpf'; cases hpf'
  | respDropped p sq ts td w' _ hpf' => rw [hpf] at hpf'; cases hpf'
  | respFull p sq ts td w' out _ hpf' => rw [hpf] at hpf'; cases hpf'
  | respConnected p sq ts td w' i out _ hpf' => rw [hpf] at hpf'; cases hpf'
  | newErr e _ _ hd =>
    have : (Packet.decode a (requestBytes a s t expire xnonce) s.protocolId none none).1 =
        .ok (0, requestPacket a s t expire xnonce) := by
      unfold requestBytes; rw [hdec]
    rw [this] at hd; cases hd
  | newRequest sq v pid expire' xnonce' data R _ _ _ _ hd hcr hres =>
    have : (Packet.decode a (requestBytes a s t expire xnonce) s.protocolId none none).1 =
        .ok (0, requestPacket a s t expire xnonce) := by
      unfold requestBytes; rw [hdec]
    rw [this] at hd
    simp only [requestPacket, Res.ok.injEq, Prod.mk.injEq, Packet.connectionRequest.injEq] at hd
    obtain ⟨_, rfl, rfl, rfl, rfl, rfl⟩ := hd
    cases hcr with
    | err e hno => exact absurd hacc (hno t)
    | none hno => exact absurd hacc (hno t)
    | deniedErr t' s1 e _ _ hfull => omega
    | denied t' s1 out _ _ hfull => omega
    | challengeErr t' s1 e hacc' hstep _ hcause =>
      have := tokenOpens_unique hacc'.opens hacc.opens; subst this
      rcases hcause with h | ⟨pkt, h1, h2⟩
      · rw [hgen] at h; cases h
      · rw [hgen] at h1; cases h1
        have hen' := hen
        unfold challengeToken at hen'
        rw [hen'] at h2; cases h2
    | challenge t' s1 pkt out hacc' hstep _ hgen' hen' =>
      have := tokenOpens_unique hacc'.opens hacc.opens; subst this
      rw [hgen] at hgen'; cases hgen'
      have hen2 := hen
      unfold challengeToken at hen2
      rw [hen2] at hen'; cases hen'
      rcases hres with h | ⟨_, e, h⟩
      · cases h
        have hf := entryStep_fields hstep
        refine ⟨_, hpp, ?_, hf.1, rfl, rfl, hf.2.2.2.2.2.2.1, hf.2.2.1, hf.2.2.2.2.1, hf.2.2.2.2.2.2.2.2.1⟩
        simp only [pendingFind_set, if_true]
      · cases h

/-! ## Part 13 : client, step 2 — the challenge moves it to `SendingConnectionResponse` -/

/-- **Progress, challenge ⇒ SendingConnectionResponse.**  A client in `SendingConnectionRequest` whose token carries
    the server-to-client key sealed in `t` and the server's protocol id stores the challenge and changes state. -/
theorem progress_challenge (a : AEAD) (hl : a.Laws) {c : NetcodeClient} {s : NetcodeServer} {t : PrivateConnectToken}
    (hst : c.state = .sendingConnectionRequest) (hkey : c.connectToken.serverToClientKey = t.serverToClientKey)
    (hpid : c.connectToken.protocolId = s.protocolId) (hg : s.globalSequence < 2 ^ 64)
    (hcs : s.challengeSequence + 1 < 2 ^ 64) (hud : t.userData.length = 256) :
    c.processPacket a (challengeBytes a s t) =
      .ok (none, { c with challengeTokenSequence := s.challengeSequence + 1, lastPacketReceivedTime := c.currentTime
                          lastPacketSendTime := none
                          challengeTokenData := challengeToken a s t.clientId t.userData (s.challengeSequence + 1)
                          state := .sendingConnectionResponse }) := by
  have hdec := Packet.decode_sealedBytes a
    (.challenge (s.challengeSequence + 1) (challengeToken a s t.clientId t.userData (s.challengeSequence + 1)))
    s.protocolId s.globalSequence t.serverToClientKey hl hg (by simp [Packet.packetType])
    ⟨hcs, challengeToken_length a hl s t.clientId hud _⟩ (some c.replayProtection) rfl
  unfold NetcodeClient.processPacket
  rw [hkey, hpid]
  unfold challengeBytes
  rw [hdec]
  simp only [Packet.stepWindow, Packet.packetType, PacketType.applyReplayProtection, Option.map_some,
    Bool.false_eq_true, if_false, Option.getD_some, hst]

/-- the response datagram of a client that stored challenge `(cs, td)` -/
def responseBytes (a : AEAD) (c : NetcodeClient) : Bytes :=
  Packet.sealedBytes a (.response c.challengeTokenSequence c.challengeTokenData) c.connectToken.protocolId c.sequence
    c.connectToken.clientToServerKey

/-- **Progress, the client sends the response** (first packet after the challenge: the send timer was cleared). -/
theorem progress_send_response (a : AEAD) (hl : a.Laws) {c : NetcodeClient}
    (hst : c.state = .sendingConnectionResponse) (hsend : c.lastPacketSendTime = none)
    (hseq : c.sequence < U64_MAX) (htd : c.challengeTokenData.length = 300) :
    c.generatePacket a = .ok (some (responseBytes a c, c.serverAddr),
      { c with lastPacketSendTime := some c.currentTime, sequence := c.sequence + 1 }) := by
  have hen : (Packet.response c.challengeTokenSequence c.challengeTokenData).encode a C.NETCODE_MAX_PACKET_BYTES
      c.connectToken.protocolId (some (c.sequence, c.connectToken.clientToServerKey)) = .ok (responseBytes a c) := by
    rw [Packet.encode_sealed_eq a _ _ _ _ _ (by simp [Packet.packetType])]
    have h1 := Packet.sbr_le c.sequence
    rw [if_pos]
    · rfl
    · simp only [Packet.body, List.length_append, leBytes_length, htd]
      have : C.NETCODE_MAX_PACKET_BYTES = 1400 := rfl
      omega
  rcases c with ⟨st, f2, f3, ls, f5, f6, f7, f8, f9, f10, f11, f12, f13, f14, f15, f16⟩
  simp only at hst hsend hseq hen
  subst hst hsend
  unfold NetcodeClient.generatePacket
  simp only [pure_eq', bind_ok', Bool.false_eq_true, if_false, if_true, hen, incU64_ok _ hseq]

/-- … as part of `update(d)`, when the client is neither expired nor timed out -/
theorem progress_update_response (a : AEAD) (hl : a.Laws) {c : NetcodeClient} {d : Nat}
    (hst : c.state = .sendingConnectionResponse) (hsend : c.lastPacketSendTime = none)
    (hseq : c.sequence < U64_MAX) (htd : c.challengeTokenData.length = 300) (hok : ClockOK c d)
    (hwin : asSecs (c.currentTime + d - c.connectStartTime) < tokenWindow c)
    (hto : ¬ CTimedOut c (c.currentTime + d)) :
    c.update a d = .ok (some (responseBytes a c, c.serverAddr),
      { c with currentTime := c.currentTime + d, lastPacketSendTime := some (c.currentTime + d)
               sequence := c.sequence + 1 }) := by
  unfold NetcodeClient.update
  rw [client_connecting_continues (Or.inr hst) hok hwin hto]
  simp only [bind_ok']
  exact progress_send_response a hl (c := { c with currentTime := c.currentTime + d }) hst hsend hseq htd

/-! ## Part 14 : server, step 3 — the response connects -/

/-- the keep-alive that accompanies `ClientConnected` for slot `i` -/
def connectKeepAlive (a : AEAD) (s : NetcodeServer) (p : Connection) (i : Nat) : Bytes :=
  Packet.sealedBytes a (.keepAlive (i % 2 ^ 32) (s.maxClients % 2 ^ 32)) s.protocolId p.sequence p.sendKey

/-- **Progress, response ⇒ ClientConnected + keep-alive.**  The half-open session `p` of `addr`, a response sealed under
    its client-to-server key echoing the challenge token the server seals for `(p.clientId, p.userData)`, `p.clientId`
    not connected, slot `i` the first free one: `ClientConnected p.clientId addr p.userData keep-alive`. -/
theorem progress_response (a : AEAD) (hl : a.Laws) {s : NetcodeServer} {addr : Addr} {p : Connection} {i seq cs : Nat}
    (hi : ServerInv s) (hg : s.globalSequence < U64_MAX) (hc : s.challengeSequence < U64_MAX)
    (hfa : findClientByAddr s.clients addr = none) (hpf : pendingFind s.pendingClients addr = some p)
    (hid : findClientById s.clients p.clientId = none) (hff : firstFreeSlot s.clients = some i)
    (hud : p.userData.length = 256) (hcid : p.clientId < 2 ^ 64) (hcs : cs < 2 ^ 64) (hseq : seq < 2 ^ 64) :
    ∃ s', s.processPacket a addr
        (Packet.sealedBytes a (.response cs (challengeToken a s p.clientId p.userData cs)) s.protocolId seq p.receiveKey) =
      .ok (.clientConnected p.clientId addr p.userData (connectKeepAlive a s p i), s') ∧
      s'.clients = s.clients.set i (some (promoted p p.replayProtection s.currentTime)) ∧
      s'.pendingClients = pendingRemove s.pendingClients addr := by
  have hdec := Packet.decode_sealedBytes a (.response cs (challengeToken a s p.clientId p.userData cs))
    s.protocolId seq p.receiveKey hl hseq (by simp [Packet.packetType])
    ⟨hcs, challengeToken_length a hl s p.clientId hud _⟩ (some p.replayProtection) rfl
  simp only [Packet.stepWindow, Packet.packetType, PacketType.applyReplayProtection, Option.map_some,
    Bool.false_eq_true, if_false] at hdec
  have hct : ChallengeToken.decode a (challengeToken a s p.clientId p.userData cs) cs s.challengeKey =
      .ok ⟨p.clientId, p.userData⟩ := ch_decode_generate a hl p.clientId p.userData hcid hud cs s.challengeKey
  have hpok := hi.pend (addr, p) (pendingFind_mem hpf)
  have hka : (Packet.keepAlive (i % 2 ^ 32) (s.maxClients % 2 ^ 32)).encode a C.NETCODE_MAX_PACKET_BYTES s.protocolId
      (some (p.sequence, p.sendKey)) = .ok (connectKeepAlive a s p i) := by
    rw [Packet.encode_sealed_eq a _ _ _ _ _ (by simp [Packet.packetType])]
    have h1 := Packet.sbr_le p.sequence
    rw [if_pos]
    · rfl
    · simp only [Packet.body, List.length_append, leBytes_length]
      have : C.NETCODE_MAX_PACKET_BYTES = 1400 := rfl
      omega
  have hden : ∀ e, Packet.connectionDenied.encode a C.NETCODE_MAX_PACKET_BYTES s.protocolId
      (some (s.globalSequence, p.sendKey)) ≠ .err e := by
    intro e
    rw [Packet.encode_sealed_eq a _ _ _ _ _ (by simp [Packet.packetType])]
    have h1 := Packet.sbr_le s.globalSequence
    rw [if_pos]
    · simp
    · simp only [Packet.body, List.length_nil]
      have : C.NETCODE_MAX_PACKET_BYTES = 1400 := rfl
      omega
  obtain ⟨r, s', hpp, hout⟩ := pp_spec a hi hg hc addr
    (Packet.sealedBytes a (.response cs (challengeToken a s p.clientId p.userData cs)) s.protocolId seq p.receiveKey)
  cases hout with
  | short h =>
    exfalso
    rw [decode_eq, if_pos h] at hdec; cases hdec
  | connErr i' c e w' hfa' => rw [hfa] at hfa'; cases hfa'
  | connDisconnect i' c sq w' hfa' => rw [hfa] at hfa'; cases hfa'
  | connPayload i' c sq pl w' hfa' => rw [hfa] at hfa'; cases hfa'
  | connKeepAlive i' c sq ci mc w' hfa' => rw [hfa] at hfa'; cases hfa'
  | connOther i' c sq pk w' hfa' => rw [hfa] at hfa'; cases hfa'
  | pendErr p' e w' _ hpf' hd => rw [hpf] at hpf'; cases hpf'; rw [hdec] at hd; cases hd
  | pendRequest p' sq v pid expire' xnonce' data w' R _ _ _ hpf' hd =>
    rw [hpf] at hpf'; cases hpf'; rw [hdec] at hd; cases hd
  | pendOther p' sq pk w' _ hpf' hd _ h2 =>
    rw [hpf] at hpf'; cases hpf'; rw [hdec] at hd; cases hd
    exact absurd rfl h2
  | respRejected p' sq ts td w' _ hpf' hd hbad =>
    rw [hpf] at hpf'; cases hpf'; rw [hdec] at hd; cases hd
    rcases hbad _ hct with h | h <;> exact absurd rfl h
  | respDropped p' sq ts td w' _ hpf' hd _ hcause =>
    rw [hpf] at hpf'; cases hpf'
    rcases hcause with h | ⟨e, h⟩ | ⟨i', e, h1, h2⟩
    · rw [findSlot_isSome, hid] at h; cases h
    · exact absurd h (hden e)
    · rw [hff] at h1; cases h1
      rw [hka] at h2; cases h2
  | respFull p' sq ts td w' out _ hpf' hd _ _ hff' => rw [hff] at hff'; cases hff'
  | respConnected p' sq ts td w' i' out _ hpf' hd _ _ hff' hen =>
    rw [hpf] at hpf'; cases hpf'; rw [hdec] at hd; cases hd
    rw [hff] at hff'; cases hff'
    rw [hka] at hen; cases hen
    exact ⟨_, hpp, rfl, rfl⟩
  | newErr e _ hpf' => rw [hpf] at hpf'; cases hpf'
  | newRequest sq v pid expire' xnonce' data R _ _ _ hpf' => rw [hpf] at hpf'; cases hpf'

/-! ## Part 15 : client, step 4 — the keep-alive makes it `Connected` -/

/-- **Progress, keep-alive ⇒ Connected.** -/
theorem progress_keepalive (a : AEAD) (hl : a.Laws) {c : NetcodeClient} {s : NetcodeServer} {p : Connection} {i : Nat}
    (hst : c.state = .sendingConnectionResponse) (hkey : c.connectToken.serverToClientKey = p.sendKey)
    (hpid : c.connectToken.protocolId = s.protocolId) (hseq : p.sequence < 2 ^ 64)
    (hfresh : c.replayProtection.alreadyReceived p.sequence = false) :
    c.processPacket a (connectKeepAlive a s p i) =
      .ok (none, { c with replayProtection := c.replayProtection.advance p.sequence
                          lastPacketReceivedTime := c.currentTime, maxClients := s.maxClients % 2 ^ 32
                          clientIndex := i % 2 ^ 32, state := .connected }) := by
  have hdec := Packet.decode_sealedBytes a (.keepAlive (i % 2 ^ 32) (s.maxClients % 2 ^ 32))
    s.protocolId p.sequence p.sendKey hl hseq (by simp [Packet.packetType])
    ⟨Nat.mod_lt _ (by decide), Nat.mod_lt _ (by decide)⟩ (some c.replayProtection)
    (by simp [Packet.isDup, Packet.packetType, PacketType.applyReplayProtection, hfresh])
  unfold NetcodeClient.processPacket
  rw [hkey, hpid]
  unfold connectKeepAlive
  rw [hdec]
  simp only [Packet.stepWindow, Packet.packetType, PacketType.applyReplayProtection, Option.map_some,
    if_true, Option.getD_some, hst]

/-! ## Part 16 : client, step 0 — the request; and the lossless four-message exchange -/

/-- the client's token agrees with the private token `t` sealed for server `s` -/
structure TokenFor (a : AEAD) (s : NetcodeServer) (t : PrivateConnectToken) (expire : Nat) (xnonce : Bytes)
    (ct : ConnectToken) : Prop where
  pid : ct.protocolId = s.protocolId
  exp : ct.expireTimestamp = expire
  xn : ct.xnonce = xnonce
  priv : ct.privateData = sealedPriv a s t expire xnonce
  c2s : ct.clientToServerKey = t.clientToServerKey
  s2c : ct.serverToClientKey = t.serverToClientKey

/-- **Progress, the client sends the request** (no packet sent yet). -/
theorem progress_send_request (a : AEAD) (hl : a.Laws) {c : NetcodeClient} {s : NetcodeServer}
    {t : PrivateConnectToken} {expire : Nat} {xnonce : Bytes} (htok : TokenFor a s t expire xnonce c.connectToken)
    (hwf : PTokenWF t) (hxn : xnonce.length = 24)
    (hst : c.state = .sendingConnectionRequest) (hsend : c.lastPacketSendTime = none) (hseq : c.sequence < U64_MAX) :
    c.generatePacket a = .ok (some (requestBytes a s t expire xnonce, c.serverAddr),
      { c with lastPacketSendTime := some c.currentTime, sequence := c.sequence + 1 }) := by
  have hen : (Packet.connectionRequest C.NETCODE_VERSION_INFO c.connectToken.protocolId c.connectToken.expireTimestamp
      c.connectToken.xnonce c.connectToken.privateData).encode a C.NETCODE_MAX_PACKET_BYTES c.connectToken.protocolId
      (some (c.sequence, c.connectToken.clientToServerKey)) = .ok (requestBytes a s t expire xnonce) := by
    rw [Packet.encode_request_eq, htok.pid, htok.exp, htok.xn, htok.priv]
    have := sealedPriv_length a hl s hwf expire xnonce
    rw [if_pos]
    · rfl
    · simp only [Packet.body, List.length_append, leBytes_length, this, hxn]
      decide
  rcases c with ⟨st, f2, f3, ls, f5, f6, f7, f8, f9, f10, f11, f12, f13, f14, f15, f16⟩
  simp only at hst hsend hseq hen
  subst hst hsend
  unfold NetcodeClient.generatePacket
  simp only [pure_eq', bind_ok', Bool.false_eq_true, if_false, if_true, hen, incU64_ok _ hseq]

/-- the client after sending the request / storing the challenge / sending the response -/
abbrev clientSent (c : NetcodeClient) : NetcodeClient :=
  { c with lastPacketSendTime := some c.currentTime, sequence := c.sequence + 1 }
abbrev clientChallenged (a : AEAD) (s : NetcodeServer) (t : PrivateConnectToken) (c : NetcodeClient) : NetcodeClient :=
  { c with challengeTokenSequence := s.challengeSequence + 1, lastPacketReceivedTime := c.currentTime
           lastPacketSendTime := none
           challengeTokenData := challengeToken a s t.clientId t.userData (s.challengeSequence + 1)
           state := .sendingConnectionResponse }

theorem challengeToken_congr (a : AEAD) {s s' : NetcodeServer} (h : s'.challengeKey = s.challengeKey) (id : Nat)
    (ud : Bytes) (cs : Nat) : challengeToken a s' id ud cs = challengeToken a s id ud cs := by
  unfold challengeToken; rw [h]

/-- **`handshake_round_partial`** — the lossless four-message exchange connects both sides.  An honest client (state
    `SendingConnectionRequest`, nothing sent yet, window not containing sequence 0) holding a token for server `s`
    (private part `t`, well-formed, sealed under the server's key, unexpired, (secure) listing a public address of the
    server), talking from an address that is neither connected nor half-open, `t.clientId` not connected, room in the
    pending map, token not bound elsewhere, fewer than `max_clients` connected:
      request → `PacketToSend addr challenge` → client in `SendingConnectionResponse` → response →
      `ClientConnected t.clientId addr t.userData keep-alive` → client `Connected`,
    and the server's slot table then holds a session with exactly the token's id, that address and the token's user
    data.  MISSING (hence `_partial`): the `update(d)` wrappers with elapsed time and the send-rate gate (only
    `progress_update_response` is stated with `update`), retransmission after loss / duplication, and the bounded-time
    claim; the step lemmas `progress_*` apply to every retry individually. -/
theorem handshake_round_partial (a : AEAD) (hl : a.Laws) {s : NetcodeServer} {c0 : NetcodeClient} {addr : Addr}
    {t : PrivateConnectToken} {expire : Nat} {xnonce : Bytes}
    (hi : ServerInv s) (hg : s.globalSequence + 1 < U64_MAX) (hc : s.challengeSequence + 1 < U64_MAX)
    (hwf : PTokenWF t) (hxn : xnonce.length = 24) (hexp : expire < 2 ^ 64) (hpid : s.protocolId < 2 ^ 64)
    (hnow : asSecs s.currentTime < expire)
    (hhost : s.secure = true → ∃ x, some x ∈ t.serverAddresses ∧ x ∈ s.publicAddresses)
    (hfa : findClientByAddr s.clients addr = none) (hfi : findClientById s.clients t.clientId = none)
    (hpf : pendingFind s.pendingClients addr = none)
    (hroom : s.pendingClients.length < C.NETCODE_MAX_PENDING_CLIENTS)
    (hbind : (s.findOrAddConnectTokenEntry ⟨s.currentTime, addr, tokenMac (sealedPriv a s t expire xnonce)⟩).2 = true)
    (hlt : countConnected s.clients < s.maxClients)
    (htok : TokenFor a s t expire xnonce c0.connectToken) (hst : c0.state = .sendingConnectionRequest)
    (hsend : c0.lastPacketSendTime = none) (hseq : c0.sequence + 1 < U64_MAX)
    (hrp : c0.replayProtection.alreadyReceived 0 = false) :
    ∃ req c1 chal s1 c2 resp c3 ka s2 c4 i cn,
      c0.generatePacket a = .ok (some (req, c0.serverAddr), c1) ∧
      s.processPacket a addr req = .ok (.packetToSend addr chal, s1) ∧
      c1.processPacket a chal = .ok (none, c2) ∧ c2.state = .sendingConnectionResponse ∧
      c2.generatePacket a = .ok (some (resp, c0.serverAddr), c3) ∧
      s1.processPacket a addr resp = .ok (.clientConnected t.clientId addr t.userData ka, s2) ∧
      c3.processPacket a ka = .ok (none, c4) ∧ c4.state = .connected ∧
      At s2.clients i cn ∧ cn.clientId = t.clientId ∧ cn.addr = addr ∧ cn.userData = t.userData ∧
      s2.isClientConnected t.clientId = true := by
  have hU : U64_MAX = 2 ^ 64 - 1 := rfl
  -- 0. the request
  have h0 := progress_send_request a hl htok hwf hxn hst hsend (by omega)
  -- 1. the challenge
  obtain ⟨s1, h1, hp1, hcl1, hcs1, hgs1, hck1, hpid1, hmax1, hnow1⟩ :=
    progress_request a hl (addr := addr) hi (by omega) (by omega) hwf hxn hexp hpid hnow hhost hfa hfi hpf hroom hbind hlt
  have hi1 : ServerInv s1 := ppOut_inv hi (pp_ok hi h1)
  -- 2. the client stores the challenge
  have h2 := progress_challenge a hl (s := s) (t := t) (c := clientSent c0) hst htok.s2c htok.pid
    (by omega) (by omega) hwf.userData
  -- 3. the response
  have h3 := progress_send_response a hl (c := clientChallenged a s t (clientSent c0))
    rfl rfl (by show c0.sequence + 1 < U64_MAX; omega) (challengeToken_length a hl s t.clientId hwf.userData _)
  -- 4. the server connects
  obtain ⟨i, hff⟩ : ∃ i, firstFreeSlot s.clients = some i := by
    cases hf : firstFreeSlot s.clients with
    | some i => exact ⟨i, rfl⟩
    | none =>
      have := firstFree_none_count.mp hf
      have := hi.maxLe
      omega
  obtain ⟨s2, h4, hcl2, hpd2⟩ := progress_response a hl (s := s1) (addr := addr)
    (p := mkPending s.currentTime addr expire t) (i := i) (seq := c0.sequence + 1) (cs := s.challengeSequence + 1)
    hi1 (by rw [hgs1]; omega) (by rw [hcs1]; omega) (by rw [hcl1]; exact hfa) hp1 (by rw [hcl1]; exact hfi)
    (by rw [hcl1]; exact hff) hwf.userData hwf.clientId (by omega) (by omega)
  -- 5. the client connects
  have h5 := progress_keepalive a hl (s := s1) (p := mkPending s.currentTime addr expire t) (i := i)
    (c := clientSent (clientChallenged a s t (clientSent c0)))
    rfl htok.s2c (by rw [hpid1]; exact htok.pid) (by show (0 : Nat) < 2 ^ 64; decide) hrp
  have hlt_i : i < s1.clients.length := by
    rw [hcl1]; exact (List.getElem?_eq_some_iff.mp (firstFree_some hff)).1
  refine ⟨_, _, _, s1, _, _, _, _, s2, _, i, promoted (mkPending s.currentTime addr expire t) RP.new s1.currentTime,
    h0, h1, h2, rfl, h3, ?_, h5, rfl, ?_, rfl, rfl, rfl, ?_⟩
  · -- the response datagram of the client is the one `progress_response` talks about
    have : responseBytes a (clientChallenged a s t (clientSent c0)) =
        Packet.sealedBytes a (.response (s.challengeSequence + 1)
          (challengeToken a s1 t.clientId t.userData (s.challengeSequence + 1))) s1.protocolId (c0.sequence + 1)
          t.clientToServerKey := by
      unfold responseBytes
      simp only
      rw [htok.pid, htok.c2s, hpid1, challengeToken_congr a hck1]
    rw [this]
    exact h4
  · rw [hcl2]; exact at_set_self hlt_i
  · rw [isClientConnected_iff]
    exact ⟨i, _, by rw [hcl2]; exact at_set_self hlt_i, rfl⟩

end NS
end RenetVerif.Netcode
