/-
  The real cipher satisfies the AEAD laws.

  `chacha2 : AEAD` is ChaCha20-Poly1305 / XChaCha20-Poly1305 as implemented in
  `RenetVerif/Netcode/ChaCha2.lean`; `chacha2_laws : chacha2.Laws`.

  The laws are purely functional (round trip + lengths); they hold whatever the block function and
  the Poly1305 accumulator compute, because
    * `chacha20` XORs each data byte with a keystream byte that depends only on
      (key, nonce, counter, position)            → length preserving, involutive;
    * the tag is a literal 16-element list        → `|tag| = 16`;
    * `tagEq t t = true` whenever `|t| = 16`      → `open` accepts what `seal` produced.
  In addition `tagEq_iff` shows the comparison is exact (true iff the tags are EQUAL 16-byte strings),
  which gives the characterisation `openK_eq_some_iff`: `open` returns `some p` only on
  `ct ++ tagOf … ct` with `p` the decryption of `ct`.
-/
import RenetVerif.Netcode.Aead
import RenetVerif.Netcode.ChaCha2

namespace RenetVerif.ChaChaLaws
open RenetVerif RenetVerif.Netcode RenetVerif.ChaCha2

/-- The real AEAD, built from `ChaCha2`. -/
def chacha2 : AEAD where
  «seal» := ChaCha2.seal
  «open» := ChaCha2.open
  xseal := ChaCha2.xseal
  xopen := ChaCha2.xopen

/-! ## stream cipher -/

theorem xorGo_length (key nonce : ByteArray) (ctr : UInt32) (ks d : List UInt8) :
    (xorGo key nonce ctr ks d).length = d.length := by
  induction d generalizing ctr ks with
  | nil => cases ks <;> simp [xorGo]
  | cons x xs ih =>
    cases ks with
    | cons k ks => simp [xorGo, ih]
    | nil =>
      simp only [xorGo]
      split
      · simp [ih]
      · rfl

theorem xorGo_xorGo (key nonce : ByteArray) (ctr : UInt32) (ks d : List UInt8) :
    xorGo key nonce ctr ks (xorGo key nonce ctr ks d) = d := by
  induction d generalizing ctr ks with
  | nil => cases ks <;> simp [xorGo]
  | cons x xs ih =>
    cases ks with
    | cons k ks => simp [xorGo, ih, UInt8.xor_assoc]
    | nil =>
      simp only [xorGo]
      split
      · next k ks' hb => simp [xorGo, hb, ih, UInt8.xor_assoc]
      · next hb => simp [xorGo, hb]

theorem chacha20_length (key : ByteArray) (ctr : UInt32) (nonce : ByteArray) (d : List UInt8) :
    (chacha20 key ctr nonce d).length = d.length :=
  xorGo_length key nonce ctr [] d

/-- XOR with the keystream is an involution. -/
theorem chacha20_chacha20 (key : ByteArray) (ctr : UInt32) (nonce : ByteArray) (d : List UInt8) :
    chacha20 key ctr nonce (chacha20 key ctr nonce d) = d :=
  xorGo_xorGo key nonce ctr [] d

/-! ## tag -/

theorem tagBytes_length (t : Nat) : (tagBytes t).length = 16 := rfl

theorem poly1305_length (key msg : ByteArray) : (poly1305 key msg).length = 16 := rfl

theorem tagOf_length (key nonce : ByteArray) (aad ct : List UInt8) :
    (tagOf key nonce aad ct).length = 16 := rfl

theorem tagDiff_self (t : List UInt8) : tagDiff t t = 0 := by
  induction t with
  | nil => rfl
  | cons a as ih => simp [tagDiff, ih]

theorem tagEq_self (t : List UInt8) (h : t.length = 16) : tagEq t t = true := by
  simp [tagEq, tagDiff_self, h]

/-- On equal-length inputs the accumulated difference is zero iff the inputs are equal: every byte
    takes part in the comparison. -/
theorem tagDiff_eq_zero_iff (a b : List UInt8) (h : a.length = b.length) :
    tagDiff a b = 0 ↔ a = b := by
  induction a generalizing b with
  | nil => cases b with
    | nil => simp [tagDiff]
    | cons _ _ => simp at h
  | cons x xs ih =>
    cases b with
    | nil => simp at h
    | cons y ys =>
      have h' : xs.length = ys.length := by simpa using h
      simp [tagDiff, ih ys h']

/-- `tagEq` is exact equality of 16-byte strings. -/
theorem tagEq_iff (a b : List UInt8) : tagEq a b = true ↔ a = b ∧ a.length = 16 := by
  simp only [tagEq, Bool.and_eq_true, beq_iff_eq]
  constructor
  · rintro ⟨⟨hd, ha⟩, hb⟩
    exact ⟨(tagDiff_eq_zero_iff a b (by omega)).mp hd, ha⟩
  · rintro ⟨rfl, ha⟩
    exact ⟨⟨tagDiff_self a, ha⟩, ha⟩

/-! ## seal / open with a fixed 32-byte key and 12-byte nonce -/

theorem sealK_length (key nonce : ByteArray) (aad pt : List UInt8) :
    (sealK key nonce aad pt).length = pt.length + 16 := by
  simp [sealK, chacha20_length, tagOf_length]

theorem openK_sealK (key nonce : ByteArray) (aad pt : List UInt8) :
    openK key nonce aad (sealK key nonce aad pt) = some pt := by
  have hl := sealK_length key nonce aad pt
  have hct : (chacha20 key 1 nonce pt).length = pt.length := chacha20_length ..
  have htake : (sealK key nonce aad pt).take ((sealK key nonce aad pt).length - 16)
      = chacha20 key 1 nonce pt := by
    rw [hl, Nat.add_sub_cancel, ← hct]; simp [sealK]
  have hdrop : (sealK key nonce aad pt).drop ((sealK key nonce aad pt).length - 16)
      = tagOf key nonce aad (chacha20 key 1 nonce pt) := by
    rw [hl, Nat.add_sub_cancel, ← hct]; simp [sealK]
  unfold openK
  simp only [htake, hdrop]
  rw [if_neg (by omega), tagEq_self _ (tagOf_length ..)]
  simp [chacha20_chacha20]

theorem openK_length (key nonce : ByteArray) (aad c p : List UInt8)
    (h : openK key nonce aad c = some p) : p.length + 16 = c.length := by
  unfold openK at h
  simp only at h
  split at h
  · cases h
  · split at h
    · cases h
      rw [chacha20_length, List.length_take]; omega
    · cases h

/-- Exactly the outputs of `sealK` are accepted: `openK` returns `some p` iff the input is
    `ct ++ tagOf ct` for the encryption `ct` of `p`. -/
theorem openK_eq_some_iff (key nonce : ByteArray) (aad c p : List UInt8) :
    openK key nonce aad c = some p ↔ c = sealK key nonce aad p := by
  constructor
  · intro h
    have hlen := openK_length key nonce aad c p h
    unfold openK at h
    simp only at h
    rw [if_neg (by omega)] at h
    split at h
    · next ht =>
      cases h
      rw [tagEq_iff] at ht
      simp only [sealK, chacha20_chacha20]
      rw [← ht.1, List.take_append_drop]
    · cases h
  · rintro rfl; exact openK_sealK ..

/-! ## the laws -/

theorem chacha2_laws : chacha2.Laws where
  open_seal _ _ _ _ := openK_sealK ..
  seal_length _ _ _ _ := sealK_length ..
  open_length _ _ _ _ _ h := openK_length _ _ _ _ _ h
  xopen_xseal _ _ _ _ := openK_sealK ..
  xseal_length _ _ _ _ := sealK_length ..
  xopen_length _ _ _ _ _ h := openK_length _ _ _ _ _ h

/-- Stronger than the laws: `open` accepts exactly the sealed strings (for the same key/nonce/aad). -/
theorem open_eq_some_iff (k n ad c p : Bytes) :
    chacha2.open k n ad c = some p ↔ c = chacha2.seal k n ad p :=
  openK_eq_some_iff ..

theorem xopen_eq_some_iff (k n ad c p : Bytes) :
    chacha2.xopen k n ad c = some p ↔ c = chacha2.xseal k n ad p :=
  openK_eq_some_iff ..

/-- Switch-agnostic form: whichever implementation `AEAD.chacha` names, once it is (definitionally,
    after the switch in `Aead.lean`) `chacha2`, it satisfies the laws. -/
theorem chacha_laws_of_eq (h : AEAD.chacha = chacha2) : AEAD.chacha.Laws := h ▸ chacha2_laws

/-- **the real cipher of the driver (ChaCha20-Poly1305 / XChaCha20-Poly1305, `Netcode/ChaCha2.lean`, validated
    against the RFC vectors and differentially against the RustCrypto crate on every run) satisfies the functional
    laws every netcode theorem assumes** -/
theorem _root_.RenetVerif.Netcode.AEAD.chacha_laws : AEAD.chacha.Laws := chacha2_laws

#print axioms chacha2_laws
#print axioms open_eq_some_iff
#print axioms xopen_eq_some_iff

end RenetVerif.ChaChaLaws
