/-
  FULL STACK: renet channels over the netcode transport glue over an adversarial datagram network.

  Three families of results exist separately:
    (1) `Lemmas/System.lean` / `Props/C01S.lean` : channel guarantees for two `Conn`s exchanging the renet packets the
        peer emitted, in any order, any number of times or never (one direction of application traffic);
    (2) `Lemmas/NcAead.lean`, `Props/C04.lean`   : what a netcode endpoint surfaces opened under the session key;
    (3) `Lemmas/GlueInv.lean`, `Props/C20.lean`   : the UDP transport glue routes netcode payloads to the right
        `RenetClient` and seals exactly what `get_packets_to_send` returned.
  This file composes them by a simulation argument, in three layers:

    Part 1  `xstep`   the system of `Lemmas/System.lean` extended by the operations a bidirectional, transport-driven
                      session needs and `Sys` lacks: application `send` on B, application `receive` on A, and the
                      status-only calls `disconnect_with(reason)` / `set_connected` / `set_connecting` on either side.
                      All four invariant layers of `system_inv` are preserved (`xstep_inv`).
    Part 2  `Duo`     two `Conn`s X (the client's `RenetClient`) and Y (the server's `RenetClient` for that client)
                      with ghost logs for BOTH directions; its two views `v1` (A = X, B = Y) and `v2` (A = Y, B = X)
                      are `xstep` systems, so every `Duo` run satisfies the end-to-end conclusions in both directions.
    Part 3  `FS`      the full stack for one session: `ClientGlue` + `ServerGlue`, application calls, transport
                      `update` with an ADVERSARIAL inbox, transport `send_packets`; ghost logs.  Every `FS` step is
                      matched by a (possibly empty) `Duo` run (`step_sim`), under the per-run hypotheses `runOK`
                      (= `NoForgeryRun` + `SingleSessionRun`, see there); `full_stack` is the composition.
            3e        the ghost seal records are records of datagrams `send_packets` really emitted.
    Part 4  `KeyInv`  from an `Established` session (mirrored keys) the key part of `NoForgeryRun` is an invariant of
                      every run without re-connection, so the hypothesis can be stated on datagrams alone
                      (`NoForgeryRunD`, `noForgery_of_D`).
-/
import RenetVerif.Lemmas.System
import RenetVerif.Lemmas.GlueInv
import RenetVerif.Lemmas.NcAead
namespace RenetVerif.FullStack
open RenetVerif C RenetVerif.System

/-! ## Part 1 : the extended two-endpoint system -/

/-- the status-only calls on a `RenetClient` -/
inductive StOp where
  | dw (r : Reason)
  | conn
  | conning
  deriving Repr, DecidableEq

def StOp.ap : StOp → Conn → Conn
  | .dw r, c => c.disconnectWith r
  | .conn, c => c.setConnected
  | .conning, c => c.setConnecting

/-- `Sys` operations plus: B's application sends, A's application receives (their ghost logs belong to the OTHER
    direction, i.e. to the mirrored view), status-only calls on either side -/
inductive XOp where
  | sys (op : SysOp)
  | sendB (ch : Nat) (m : Bytes)
  | recvA (ch : Nat)
  | stA (o : StOp)
  | stB (o : StOp)
  deriving Repr, DecidableEq

def xstep (s : Sys) : XOp → Option Sys
  | .sys op => s.step op
  | .sendB ch m =>
    match s.b.sendMessage ch m with
    | .ok b' => some { s with b := b' }
    | _ => none
  | .recvA ch =>
    match s.a.receiveMessage ch with
    | .ok (a', _) => some { s with a := a' }
    | _ => none
  | .stA o => some { s with a := o.ap s.a }
  | .stB o => some { s with b := o.ap s.b }

def xrun (s : Sys) : List XOp → Option Sys
  | [] => some s
  | op :: ops =>
    match xstep s op with
    | some s' => xrun s' ops
    | none => none

theorem xrun_append (s : Sys) : ∀ (l1 l2 : List XOp), xrun s (l1 ++ l2) = (xrun s l1).bind (fun s' => xrun s' l2) := by
  intro l1
  induction l1 generalizing s with
  | nil => intro l2; rfl
  | cons op l1 ih =>
    intro l2
    simp only [List.cons_append, xrun]
    cases xstep s op with
    | none => rfl
    | some s' => exact ih s' l2

/-- the four invariant layers of `system_inv`, bundled -/
def SInv (cfg : Cfg) (s : Sys) : Prop :=
  ∃ pkA, Inv1 cfg s pkA ∧ (CountersOK cfg s → Inv2 cfg s pkA) ∧ InvR cfg s pkA ∧ InvU cfg s pkA

theorem sInv_init (cfg : Cfg) : SInv cfg (Sys.init cfg) :=
  ⟨[], inv1_init cfg, fun _ => inv2_init cfg, invR_init cfg, invU_init cfg⟩

theorem live_of_keeps {c c' : Conn} (hk : SL.Conn.Keeps c c') (h : c'.isDisconnected = false) : c.isDisconnected = false := by
  cases hd : c.isDisconnected with
  | false => rfl
  | true =>
    obtain ⟨r, hr⟩ := (SL.Conn.isDisconnected_iff c).mp hd
    rw [SL.Conn.isDisconnected_of_status (hk r hr)] at h
    cases h

/-- **Frame.**  Replacing A and B by connections that agree with the old ones on everything the invariants read
    (A: send channels, packet counter, and — while live — the sent-packet table; B: pending acks, and — while live —
    the receive channels) preserves all four layers and the counter hypothesis. -/
theorem frame_inv {cfg : Cfg} {s : Sys} {a' b' : Conn}
    (ra : C08.Reach cfg.budget cfg.send cfg.recv s.a → C08.Reach cfg.budget cfg.send cfg.recv a')
    (rb : C08.Reach cfg.budget cfg.recv cfg.send s.b → C08.Reach cfg.budget cfg.recv cfg.send b')
    (h1 : a'.sendRel = s.a.sendRel) (h2 : a'.sendUnrel = s.a.sendUnrel) (h3 : a'.packetSeq = s.a.packetSeq)
    (h4 : a'.isDisconnected = false → s.a.isDisconnected = false ∧ a'.sent = s.a.sent)
    (h5 : b'.pendingAcks = s.b.pendingAcks)
    (h6 : b'.isDisconnected = false →
      s.b.isDisconnected = false ∧ b'.recvRel = s.b.recvRel ∧ b'.recvUnrel = s.b.recvUnrel)
    (h : SInv cfg s) : SInv cfg { s with a := a', b := b' } := by
  obtain ⟨pkA, i1, i2, iR, Lg, iA, iB⟩ := h
  have hc : CountersOK cfg { s with a := a', b := b' } → CountersOK cfg s := fun c =>
    ⟨c.chan, by have := c.seq; dsimp only at this; rw [h3] at this; exact this, c.ids, c.lens, c.lensU⟩
  refine ⟨pkA, ?_, ?_, ?_, Lg, ?_, ?_⟩
  · exact ⟨ra i1.reachA, rb i1.reachB, by dsimp only; rw [h1]; exact i1.chanA, i1.encA,
      ⟨i1.seqA.1, by dsimp only; rw [h3]; exact i1.seqA.2⟩, i1.genA, i1.delivB⟩
  · intro c
    have j := i2 (hc c)
    refine ⟨j.wfA, ?_, j.concl⟩
    intro hl
    obtain ⟨l0, e1, _⟩ := h6 hl
    dsimp only
    rw [e1]
    exact j.recvB l0
  · refine ⟨?_, by dsimp only; rw [h5]; exact iR.ackB, iR.ackOutB, by dsimp only; rw [h1]; exact iR.relA⟩
    intro hl
    obtain ⟨l0, e1⟩ := h4 hl
    dsimp only
    rw [e1]
    exact iR.sentA l0
  · exact ⟨by dsimp only; rw [h2]; exact iA.chanU, iA.genU⟩
  · intro c
    have j := iB (hc c)
    refine ⟨?_, j.conclU⟩
    intro hl
    obtain ⟨l0, _, e2⟩ := h6 hl
    dsimp only
    rw [e2]
    exact j.recvBU l0

theorem stOp_fields (o : StOp) (c : Conn) :
    (o.ap c).sendRel = c.sendRel ∧ (o.ap c).sendUnrel = c.sendUnrel ∧ (o.ap c).packetSeq = c.packetSeq ∧
    (o.ap c).sent = c.sent ∧ (o.ap c).pendingAcks = c.pendingAcks ∧ (o.ap c).recvRel = c.recvRel ∧
    (o.ap c).recvUnrel = c.recvUnrel ∧ ((o.ap c).isDisconnected = false → c.isDisconnected = false) := by
  cases o with
  | dw r =>
    simp only [StOp.ap, Conn.disconnectWith]
    split
    · exact ⟨rfl, rfl, rfl, rfl, rfl, rfl, rfl, id⟩
    · rename_i hd
      exact ⟨rfl, rfl, rfl, rfl, rfl, rfl, rfl, fun _ => by simpa using hd⟩
  | conn =>
    simp only [StOp.ap, Conn.setConnected]
    split
    · exact ⟨rfl, rfl, rfl, rfl, rfl, rfl, rfl, id⟩
    · rename_i hd
      exact ⟨rfl, rfl, rfl, rfl, rfl, rfl, rfl, fun _ => by simpa using hd⟩
  | conning =>
    simp only [StOp.ap, Conn.setConnecting]
    split
    · exact ⟨rfl, rfl, rfl, rfl, rfl, rfl, rfl, id⟩
    · rename_i hd
      exact ⟨rfl, rfl, rfl, rfl, rfl, rfl, rfl, fun _ => by simpa using hd⟩

theorem stOp_reach {budget : Nat} {send recv : List ChanCfg} (o : StOp) {c : Conn}
    (h : C08.Reach budget send recv c) : C08.Reach budget send recv (o.ap c) := by
  cases o with
  | dw r => exact .disconnect h
  | conn => exact .connected h
  | conning => exact .connecting h

/-- every operation of the extended system preserves the four invariant layers -/
theorem xstep_inv {cfg : Cfg} {s s' : Sys} {op : XOp} (h : SInv cfg s) (hs : xstep s op = some s') : SInv cfg s' := by
  cases op with
  | sys op =>
    obtain ⟨pkA, h1, h2, h3, h4⟩ := h
    exact ⟨nextPk s op pkA, inv1_step h1 hs, fun hc => inv2_step h1 (h2 (counters_step h1 hs hc)) hs hc,
      invR_step h1 h3 hs, invU_step h1 h2 h4 hs⟩
  | sendB ch m =>
    simp only [xstep] at hs
    split at hs
    · rename_i b' hm
      cases hs
      obtain ⟨-, e1, e2, -, e4, -, -⟩ := SL.Conn.sendMessage_frame hm
      have := frame_inv (cfg := cfg) (s := s) (a' := s.a) (b' := b') id (fun r => .sendMessage r hm) rfl rfl rfl
        (fun hl => ⟨hl, rfl⟩) e4 (fun hl => ⟨live_of_keeps (SL.Conn.sendMessage_keeps hm) hl, e1, e2⟩) h
      exact this
    · cases hs
  | recvA ch =>
    simp only [xstep] at hs
    split at hs
    · rename_i a' m hm
      cases hs
      obtain ⟨-, ⟨e1, e2, e3, e4⟩, -, e6, -⟩ := SL.Conn.receiveMessage_frame hm
      have := frame_inv (cfg := cfg) (s := s) (a' := a') (b' := s.b) (fun r => .receiveMessage r hm) id e1 e2 e4
        (fun hl => ⟨by rw [← isDisconnected_congr e6]; exact hl, e3⟩) rfl (fun hl => ⟨hl, rfl, rfl⟩) h
      exact this
    · cases hs
  | stA o =>
    simp only [xstep, Option.some.injEq] at hs
    subst hs
    obtain ⟨e1, e2, e3, e4, -, -, -, e8⟩ := stOp_fields o s.a
    exact frame_inv (cfg := cfg) (s := s) (a' := o.ap s.a) (b' := s.b) (stOp_reach o) id e1 e2 e3
      (fun hl => ⟨e8 hl, e4⟩) rfl (fun hl => ⟨hl, rfl, rfl⟩) h
  | stB o =>
    simp only [xstep, Option.some.injEq] at hs
    subst hs
    obtain ⟨-, -, -, -, e5, e6, e7, e8⟩ := stOp_fields o s.b
    exact frame_inv (cfg := cfg) (s := s) (a' := s.a) (b' := o.ap s.b) id (stOp_reach o) rfl rfl rfl
      (fun hl => ⟨hl, rfl⟩) e5 (fun hl => ⟨e8 hl, e6, e7⟩) h

theorem xrun_inv {cfg : Cfg} : ∀ (ops : List XOp) (s s' : Sys), SInv cfg s → xrun s ops = some s' → SInv cfg s'
  | [], s, s', h, hr => by simp only [xrun, Option.some.injEq] at hr; subst hr; exact h
  | op :: ops, s, s', h, hr => by
    simp only [xrun] at hr
    cases hs : xstep s op with
    | none => rw [hs] at hr; cases hr
    | some s1 => rw [hs] at hr; exact xrun_inv ops s1 s' (xstep_inv h hs) hr

/-- the end-to-end conclusions, read off the invariants -/
theorem sInv_concl {cfg : Cfg} {s : Sys} (h : SInv cfg s) (hc : CountersOK cfg s) :
    (∀ ch, cfg.Ordered ch → s.obtained ch <+: s.submitted ch) ∧
    (∀ ch, cfg.Unordered ch →
      ∃ ids : List Nat, ids.Nodup ∧ (s.obtained ch).map some = ids.map (fun id => (s.submitted ch)[id]?)) ∧
    (∀ ch, cfg.Unreliable ch → ∀ x ∈ s.obtained ch, x ∈ s.submittedU ch) := by
  obtain ⟨pkA, -, h2, -, Lg, -, hB⟩ := h
  refine ⟨fun ch ho => ?_, fun ch hu => ?_, fun ch hk => (hB hc).conclU ch (relKind_unreliable hk)⟩
  · have := (h2 hc).concl ch
    rw [relKind_ordered ho] at this
    exact this
  · have := (h2 hc).concl ch
    rw [relKind_unordered hu] at this
    exact this


/-! ## Part 2 : two connections, both directions

  `x` = the client's `RenetClient`, `y` = the server's `RenetClient` for that client.  Ghost logs for both directions.
  The two views of a `Duo` state are states of the extended system of Part 1:
    `v1` : A = x, B = y — application traffic X → Y (`subX`, `subXU`, `obtY`);
    `v2` : A = y, B = x — application traffic Y → X (`subY`, `subYU`, `obtX`). -/

structure Duo where
  x : Conn
  y : Conn
  /-- every renet packet `get_packets_to_send` of X resp. Y returned, in order -/
  outX : List Bytes
  outY : List Bytes
  subX : Nat → List Bytes
  subXU : Nat → List Bytes
  obtY : Nat → List Bytes
  subY : Nat → List Bytes
  subYU : Nat → List Bytes
  obtX : Nat → List Bytes
  /-- indices into `outX` of the packets handed to Y so far / into `outY` handed to X -/
  delY : List Nat
  delX : List Nat

def Duo.swap (d : Duo) : Duo :=
  { x := d.y, y := d.x, outX := d.outY, outY := d.outX, subX := d.subY, subXU := d.subYU, obtY := d.obtX,
    subY := d.subX, subYU := d.subXU, obtX := d.obtY, delY := d.delX, delX := d.delY }

theorem Duo.swap_swap (d : Duo) : d.swap.swap = d := rfl

def Duo.v1 (d : Duo) : Sys :=
  { a := d.x, b := d.y, outA := d.outX, outB := d.outY, submitted := d.subX, submittedU := d.subXU,
    obtained := d.obtY, deliveredToB := d.delY }

def Duo.v2 (d : Duo) : Sys := d.swap.v1

def Cfg.swap (cfg : Cfg) : Cfg := ⟨cfg.budget, cfg.recv, cfg.send⟩

def Duo.init (cfg : Cfg) : Duo :=
  { x := Conn.fromChannels cfg.budget cfg.send cfg.recv, y := Conn.fromChannels cfg.budget cfg.recv cfg.send,
    outX := [], outY := [], subX := fun _ => [], subXU := fun _ => [], obtY := fun _ => [],
    subY := fun _ => [], subYU := fun _ => [], obtX := fun _ => [], delY := [], delX := [] }

theorem Duo.init_v1 (cfg : Cfg) : (Duo.init cfg).v1 = Sys.init cfg := rfl
theorem Duo.init_v2 (cfg : Cfg) : (Duo.init cfg).v2 = Sys.init (Cfg.swap cfg) := rfl

/-- an operation on one side -/
inductive SOp where
  | send (ch : Nat) (m : Bytes)
  | recv (ch : Nat)
  | upd (dt : Nat)
  | flush
  /-- hand the `k`-th packet the PEER emitted to this side's `process_packet` -/
  | deliver (k : Nat)
  | st (o : StOp)
  deriving Repr, DecidableEq

/-- an operation on side X -/
def Duo.stepX (d : Duo) : SOp → Option Duo
  | .send ch m =>
    match d.x.sendMessage ch m with
    | .ok x' => some { d with x := x', subX := if accepted d.x x' ch then push d.subX ch m else d.subX,
                              subXU := if offeredU d.x ch then push d.subXU ch m else d.subXU }
    | _ => none
  | .recv ch =>
    match d.x.receiveMessage ch with
    | .ok (x', some m) => some { d with x := x', obtX := push d.obtX ch m }
    | .ok (x', none) => some { d with x := x' }
    | _ => none
  | .upd dt =>
    match d.x.update dt with
    | .ok x' => some { d with x := x' }
    | _ => none
  | .flush =>
    match d.x.getPacketsToSend with
    | .ok (x', bs) => some { d with x := x', outX := d.outX ++ bs }
    | _ => none
  | .deliver k =>
    match d.outY[k]? with
    | none => none
    | some bytes =>
      match d.x.processPacket bytes with
      | .ok x' => some { d with x := x', delX := d.delX ++ [k] }
      | _ => none
  | .st o => some { d with x := o.ap d.x }

/-- the same operation seen from the view in which X is A … -/
def SOp.asA : SOp → XOp
  | .send ch m => .sys (.sendA ch m)
  | .recv ch => .recvA ch
  | .upd dt => .sys (.updA dt)
  | .flush => .sys .flushA
  | .deliver k => .sys (.deliverToA k)
  | .st o => .stA o

/-- … and from the view in which X is B -/
def SOp.asB : SOp → XOp
  | .send ch m => .sendB ch m
  | .recv ch => .sys (.recvB ch)
  | .upd dt => .sys (.updB dt)
  | .flush => .sys .flushB
  | .deliver k => .sys (.deliverToB k)
  | .st o => .stB o

theorem stepX_v1 (d : Duo) (op : SOp) : (d.stepX op).map Duo.v1 = xstep d.v1 op.asA := by
  cases op with
  | send ch m =>
    simp only [Duo.stepX, SOp.asA, xstep, Sys.step, Duo.v1]
    cases d.x.sendMessage ch m <;> rfl
  | recv ch =>
    simp only [Duo.stepX, SOp.asA, xstep, Duo.v1]
    cases d.x.receiveMessage ch with
    | ok v => obtain ⟨x', m⟩ := v; cases m <;> rfl
    | err e => rfl
    | panic m => rfl
  | upd dt =>
    simp only [Duo.stepX, SOp.asA, xstep, Sys.step, Duo.v1]
    cases d.x.update dt <;> rfl
  | flush =>
    simp only [Duo.stepX, SOp.asA, xstep, Sys.step, Duo.v1]
    cases d.x.getPacketsToSend with
    | ok v => obtain ⟨x', bs⟩ := v; rfl
    | err e => rfl
    | panic m => rfl
  | deliver k =>
    simp only [Duo.stepX, SOp.asA, xstep, Sys.step, Duo.v1]
    cases d.outY[k]? with
    | none => rfl
    | some bytes => dsimp only; cases d.x.processPacket bytes <;> rfl
  | st o => rfl

theorem stepX_v2 (d : Duo) (op : SOp) : (d.stepX op).map Duo.v2 = xstep d.v2 op.asB := by
  cases op with
  | send ch m =>
    simp only [Duo.stepX, SOp.asB, xstep, Duo.v2, Duo.v1, Duo.swap]
    cases d.x.sendMessage ch m <;> rfl
  | recv ch =>
    simp only [Duo.stepX, SOp.asB, xstep, Sys.step, Duo.v2, Duo.v1, Duo.swap]
    cases d.x.receiveMessage ch with
    | ok v => obtain ⟨x', m⟩ := v; cases m <;> rfl
    | err e => rfl
    | panic m => rfl
  | upd dt =>
    simp only [Duo.stepX, SOp.asB, xstep, Sys.step, Duo.v2, Duo.v1, Duo.swap]
    cases d.x.update dt <;> rfl
  | flush =>
    simp only [Duo.stepX, SOp.asB, xstep, Sys.step, Duo.v2, Duo.v1, Duo.swap]
    cases d.x.getPacketsToSend with
    | ok v => obtain ⟨x', bs⟩ := v; rfl
    | err e => rfl
    | panic m => rfl
  | deliver k =>
    simp only [Duo.stepX, SOp.asB, xstep, Sys.step, Duo.v2, Duo.v1, Duo.swap]
    cases d.outY[k]? with
    | none => rfl
    | some bytes => dsimp only; cases d.x.processPacket bytes <;> rfl
  | st o => rfl

inductive Side where
  | X
  | Y
  deriving Repr, DecidableEq

abbrev DOp := Side × SOp

def Duo.step (d : Duo) : DOp → Option Duo
  | (.X, op) => d.stepX op
  | (.Y, op) => (d.swap.stepX op).map Duo.swap

def Duo.run (d : Duo) : List DOp → Option Duo
  | [] => some d
  | op :: ops =>
    match d.step op with
    | some d' => d'.run ops
    | none => none

theorem Duo.run_append (d : Duo) : ∀ (l1 l2 : List DOp), d.run (l1 ++ l2) = (d.run l1).bind (fun d' => d'.run l2) := by
  intro l1
  induction l1 generalizing d with
  | nil => intro l2; rfl
  | cons op l1 ih =>
    intro l2
    simp only [List.cons_append, Duo.run]
    cases d.step op with
    | none => rfl
    | some d' => exact ih d' l2

theorem Duo.run_single {d d' : Duo} {op : DOp} (h : d.step op = some d') : d.run [op] = some d' := by
  simp only [Duo.run, h]

theorem Duo.run_trans {d d1 d2 : Duo} {l1 l2 : List DOp} (h1 : d.run l1 = some d1) (h2 : d1.run l2 = some d2) :
    d.run (l1 ++ l2) = some d2 := by
  rw [Duo.run_append, h1]; exact h2

/-- both views satisfy the invariant layers of `system_inv` -/
def DInv (cfg : Cfg) (d : Duo) : Prop := SInv cfg d.v1 ∧ SInv (Cfg.swap cfg) d.v2

theorem dInv_init (cfg : Cfg) : DInv cfg (Duo.init cfg) := ⟨sInv_init cfg, sInv_init (Cfg.swap cfg)⟩

theorem dstep_inv {cfg : Cfg} {d d' : Duo} {op : DOp} (h : DInv cfg d) (hs : d.step op = some d') : DInv cfg d' := by
  obtain ⟨sd, op⟩ := op
  cases sd with
  | X =>
    simp only [Duo.step] at hs
    have e1 := stepX_v1 d op
    have e2 := stepX_v2 d op
    rw [hs] at e1 e2
    exact ⟨xstep_inv h.1 e1.symm, xstep_inv h.2 e2.symm⟩
  | Y =>
    simp only [Duo.step] at hs
    cases hx : d.swap.stepX op with
    | none => rw [hx] at hs; cases hs
    | some d1 =>
      rw [hx] at hs
      simp only [Option.map_some, Option.some.injEq] at hs
      subst hs
      have e1 := stepX_v1 d.swap op
      have e2 := stepX_v2 d.swap op
      rw [hx] at e1 e2
      exact ⟨xstep_inv (s' := d1.swap.v1) h.1 e2.symm, xstep_inv (s' := d1.swap.v2) h.2 e1.symm⟩

theorem drun_inv {cfg : Cfg} : ∀ (ops : List DOp) (d d' : Duo), DInv cfg d → d.run ops = some d' → DInv cfg d'
  | [], d, d', h, hr => by simp only [Duo.run, Option.some.injEq] at hr; subst hr; exact h
  | op :: ops, d, d', h, hr => by
    simp only [Duo.run] at hr
    cases hs : d.step op with
    | none => rw [hs] at hr; cases hr
    | some d1 => rw [hs] at hr; exact drun_inv ops d1 d' (dstep_inv h hs) hr


/-! ## Part 3 : the full stack for one session -/
open RenetVerif.Netcode RenetVerif.Transport

/-! ### 3a. ghost seal records and what opens -/

/-- ghost record of one successful `generate_payload_packet`: the key and protocol id it sealed under, the renet packet
    it was given, the datagram it returned -/
structure Sealed where
  key : Bytes
  proto : Nat
  plain : Bytes
  dgram : Bytes
  deriving DecidableEq, Repr

/-- the datagram of a record is `Packet::encode` of the payload packet under the record's key and protocol id, for
    some sequence number -/
def SealOK (a : AEAD) (e : Sealed) : Prop :=
  ∃ seq, seq < 2 ^ 64 ∧ e.dgram = NcAead.Packet.sealedDatagram a (.payload e.plain) e.proto seq e.key

/-- **what opens is what was sealed.**  If `decode`, under key `key` and protocol id `proto`, surfaces payload `p`
    from the datagram that `encode` made of payload `plain` under the SAME key and protocol id, then `p = plain`
    (`AEAD.Laws.open_seal` + the binding of every datagram byte into the AEAD call, `Bind.decode_binds`). -/
theorem decode_sealed_plain {a : AEAD} (hl : a.Laws) {plain key : Bytes} {proto seq : Nat} (hseq : seq < 2 ^ 64)
    {rp rp' : Option RP} {sq : Nat} {p : Bytes}
    (h : Netcode.Packet.decode a (NcAead.Packet.sealedDatagram a (.payload plain) proto seq key) proto (some key) rp =
      (.ok (sq, .payload p), rp')) : p = plain := by
  obtain ⟨pfx, sb, ct, body, -, -, -, -, -, -, hi, ho, hr⟩ :=
    NcAead.Bind.decode_binds h (by simp [Netcode.Packet.packetType])
  rw [NcAead.Bind.openInput_sealedDatagram a (.payload plain) proto seq key hseq] at hi
  simp only [Option.some.injEq, Prod.mk.injEq] at hi
  obtain ⟨e1, e2, e3⟩ := hi
  rw [← e1, ← e2, ← e3, hl.open_seal] at ho
  obtain ⟨-, -, rest, hb, hrest⟩ := NcAead.Packet.read_ok hr
  rw [hrest rfl] at hb
  have : body = p := by rw [hb]; simp [NcAead.Packet.body]
  rw [← this, ← Option.some.inj ho]
  rfl

/-- the records of the client's `for packet in packets { generate_payload_packet(packet) }` (stops at the first error) -/
def sealsC (a : AEAD) (nc : NetcodeClient) : List Bytes → List Sealed
  | [] => []
  | p :: rest =>
    match nc.generatePayloadPacket a p with
    | .ok ((_, d), nc') =>
      ⟨nc.connectToken.clientToServerKey, nc.connectToken.protocolId, p, d⟩ :: sealsC a nc' rest
    | _ => []

theorem sealsC_ok (a : AEAD) : ∀ (ps : List Bytes) (nc : NetcodeClient), ∀ e ∈ sealsC a nc ps, SealOK a e ∧ e.plain ∈ ps
  | [], nc, e, he => by cases he
  | p :: rest, nc, e, he => by
    simp only [sealsC] at he
    split at he
    · rename_i addr d nc' hg
      obtain ⟨-, -, -, -, hlt, henc⟩ := NcAead.Cl.payload_spec hg
      rcases List.mem_cons.mp he with rfl | he
      · refine ⟨⟨nc.sequence, by omega, ?_⟩, List.mem_cons_self⟩
        have := NcAead.encode_sealOf (by simp [Netcode.Packet.packetType]) henc
        rw [NcAead.sealOf_datagram] at this
        exact this
      · obtain ⟨h1, h2⟩ := sealsC_ok a rest nc' e he
        exact ⟨h1, List.mem_cons_of_mem _ h2⟩
    · cases he

/-- the records of the server's `for packet in packets { generate_payload_packet(client_id, packet) }` -/
def sealsS (a : AEAD) (id : Nat) (ns : NetcodeServer) : List Bytes → List Sealed
  | [] => []
  | p :: rest =>
    match ns.generatePayloadPacket a id p with
    | .ok ((_, d), ns') =>
      ⟨((findClientById ns.clients id).map (·.sendKey)).getD [], ns.protocolId, p, d⟩ :: sealsS a id ns' rest
    | _ => []

theorem srvGen_spec {a : AEAD} {s s' : NetcodeServer} {id : Nat} {pl out : Bytes} {addr : Addr}
    (h : s.generatePayloadPacket a id pl = .ok ((addr, out), s')) :
    ∃ cl, findClientById s.clients id = some cl ∧ cl.sequence + 1 < 2 ^ 64 ∧
      (Netcode.Packet.payload pl).encode a C.NETCODE_MAX_PACKET_BYTES s.protocolId (some (cl.sequence, cl.sendKey)) = .ok out := by
  unfold NetcodeServer.generatePayloadPacket at h
  split at h
  · cases h
  · split at h
    · rename_i slot client hslot hcl
      rw [NcAead.Res.bind_eq_ok] at h
      obtain ⟨out', henc, h⟩ := h
      rw [NcAead.Res.bind_eq_ok] at h
      obtain ⟨sq, hsq, h⟩ := h
      obtain ⟨rfl, hlt⟩ := NcAead.Cl.incU64_ok hsq
      cases h
      exact ⟨client, hcl, hlt, henc⟩
    · cases h

theorem sealsS_ok (a : AEAD) (id : Nat) : ∀ (ps : List Bytes) (ns : NetcodeServer), ∀ e ∈ sealsS a id ns ps,
    SealOK a e ∧ e.plain ∈ ps
  | [], ns, e, he => by cases he
  | p :: rest, ns, e, he => by
    simp only [sealsS] at he
    split at he
    · rename_i addr d ns' hg
      obtain ⟨cl, hcl, hlt, henc⟩ := srvGen_spec hg
      rcases List.mem_cons.mp he with rfl | he
      · refine ⟨⟨cl.sequence, by omega, ?_⟩, List.mem_cons_self⟩
        have := NcAead.encode_sealOf (by simp [Netcode.Packet.packetType]) henc
        rw [NcAead.sealOf_datagram] at this
        simp only [hcl, Option.map_some, Option.getD_some]
        exact this
      · obtain ⟨h1, h2⟩ := sealsS_ok a id rest ns' e he
        exact ⟨h1, List.mem_cons_of_mem _ h2⟩
    · cases he

/-- the test the run hypothesis makes for a datagram that surfaced a payload: some record has this datagram and was
    sealed under the key and protocol id the receiver opened it with -/
def hasRec (L : List Sealed) (buf key : Bytes) (proto : Nat) : Bool :=
  L.any fun e => e.dgram == buf && e.key == key && e.proto == proto

theorem hasRec_iff {L : List Sealed} {buf key : Bytes} {proto : Nat} :
    hasRec L buf key proto = true ↔ ∃ e ∈ L, e.dgram = buf ∧ e.key = key ∧ e.proto = proto := by
  simp [hasRec, List.any_eq_true, and_assoc]

/-- server side: a surfaced payload whose datagram matches a record is that record's renet packet -/
theorem srv_payload_plain {a : AEAD} (hl : a.Laws) {ns ns' : NetcodeServer} {addr : Addr} {buf p : Bytes} {id : Nat}
    (h : ns.processPacket a addr buf = .ok (.payload id p, ns')) :
    ∃ slot c, findClientByAddr ns.clients addr = some (slot, c) ∧
      ∀ e, SealOK a e → e.dgram = buf → e.key = c.receiveKey → e.proto = ns.protocolId → p = e.plain := by
  obtain ⟨slot, c, sq, rp, hf, -, -, hdec⟩ := GI.processPacket_auth h
  refine ⟨slot, c, hf, ?_⟩
  intro e ⟨seq, hseq, hd⟩ hb hk hp
  rw [← hb, hd, ← hk, ← hp] at hdec
  exact decode_sealed_plain hl hseq hdec

/-- client side -/
theorem cli_payload_plain {a : AEAD} (hl : a.Laws) {nc nc' : NetcodeClient} {buf p : Bytes}
    (h : nc.processPacket a buf = .ok (some p, nc')) (e : Sealed) (hok : SealOK a e) (hb : e.dgram = buf)
    (hk : e.key = nc.connectToken.serverToClientKey) (hp : e.proto = nc.connectToken.protocolId) : p = e.plain := by
  obtain ⟨-, sq, rp, hdec, -⟩ := NetcodeClient.processPacket_payload_inv a h
  obtain ⟨seq, hseq, hd⟩ := hok
  rw [← hb, hd, ← hk, ← hp] at hdec
  exact decode_sealed_plain hl hseq hdec


/-! ### 3b. the system

  One session: client id `cid`.  `c` = the client's `NetcodeClientTransport` + `RenetClient`; `s` = the server's
  `NetcodeServerTransport` + `RenetServer` (which may hold other clients as well).  Everything below `emS` is ghost. -/

structure FS where
  c : ClientGlue
  s : ServerGlue
  /-- every datagram (destination, bytes) the client's / the server's `send_packets` handed to the socket, in order -/
  emC : List Dgram
  emS : List Dgram
  /-- one record per successful `generate_payload_packet` of the client's `send_packets` / of the server's `send_packets`
      for client `cid` -/
  sealedC : List Sealed
  sealedS : List Sealed
  /-- `packet_sequence` of the server's `RenetClient` for `cid`, as of the last moment it was in the table -/
  ySeq : Nat
  /-- client → server: accepted by a reliable channel / passed to an unreliable channel / obtained by the server's
      application from client `cid` -/
  subC : Nat → List Bytes
  subCU : Nat → List Bytes
  obtS : Nat → List Bytes
  /-- server → client `cid` -/
  subS : Nat → List Bytes
  subSU : Nat → List Bytes
  obtC : Nat → List Bytes

inductive FSOp where
  /-- `RenetClient::send_message / receive_message / update / disconnect` on the client -/
  | cliSend (ch : Nat) (m : Bytes)
  | cliRecv (ch : Nat)
  | cliTick (dt : Nat)
  | cliDisconnect
  /-- `NetcodeClientTransport::update(duration)` with the datagrams the ADVERSARY queued at the client's socket -/
  | cliUpdate (d : Nat) (inbox : List Dgram)
  | cliSendPackets
  /-- `NetcodeClientTransport::disconnect` -/
  | cliTransportDisconnect
  /-- `RenetServer::send_message(cid, ..) / receive_message(cid, ..) / update / disconnect(cid)` -/
  | srvSend (ch : Nat) (m : Bytes)
  | srvRecv (ch : Nat)
  | srvTick (dt : Nat)
  | srvDisconnect
  /-- `NetcodeServerTransport::update(duration)` with the datagrams the ADVERSARY queued at the server's socket -/
  | srvUpdate (d : Nat) (inbox : List Dgram)
  | srvSendPackets
  /-- `NetcodeServerTransport::disconnect_all` -/
  | srvDisconnectAll
  deriving Repr, DecidableEq

def trackSeq (cid : Nat) (rs : Server) (old : Nat) : Nat :=
  match SMap.find? rs.conns cid with
  | some y => y.packetSeq
  | none => old

/-- the ghost records of the client's `send_packets` -/
def cliSeals (a : AEAD) (g : ClientGlue) : List Sealed :=
  match g.netcode.disconnectReason with
  | some _ => []
  | none =>
    match g.renet.getPacketsToSend with
    | .ok (_, ps) => sealsC a g.netcode ps
    | _ => []

/-- the ghost records of the server's `send_packets` for client `cid` (mirrors `serverSendLoop`) -/
def srvSeals (a : AEAD) (cid : Nat) (g : ServerGlue) : List Nat → List Sealed
  | [] => []
  | id :: rest =>
    match g.renet.getPacketsToSend id with
    | .ok (rs, some ps) =>
      match serverSendClient a g.netcode id ps #[] with
      | .ok (ns, _) => (if id = cid then sealsS a id g.netcode ps else []) ++ srvSeals a cid ⟨ns, rs⟩ rest
      | _ => []
    | _ => []

/-- one operation; `none` = a model function panicked (the Rust code would unwind) -/
def FS.step (a : AEAD) (cid : Nat) (fs : FS) : FSOp → Option FS
  | .cliSend ch m =>
    match fs.c.renet.sendMessage ch m with
    | .ok r' => some { fs with c := { fs.c with renet := r' }
                               subC := if accepted fs.c.renet r' ch then push fs.subC ch m else fs.subC
                               subCU := if offeredU fs.c.renet ch then push fs.subCU ch m else fs.subCU }
    | _ => none
  | .cliRecv ch =>
    match fs.c.renet.receiveMessage ch with
    | .ok (r', some m) => some { fs with c := { fs.c with renet := r' }, obtC := push fs.obtC ch m }
    | .ok (r', none) => some { fs with c := { fs.c with renet := r' } }
    | _ => none
  | .cliTick dt =>
    match fs.c.renet.update dt with
    | .ok r' => some { fs with c := { fs.c with renet := r' } }
    | _ => none
  | .cliDisconnect => some { fs with c := { fs.c with renet := fs.c.renet.disconnectWith .byClient } }
  | .cliUpdate d inbox =>
    match clientUpdate a fs.c d inbox with
    | .ok o => some { fs with c := o.g }
    | _ => none
  | .cliSendPackets =>
    match clientSendPackets a fs.c with
    | .ok (_, g', out) => some { fs with c := g', emC := fs.emC ++ out.toList, sealedC := fs.sealedC ++ cliSeals a fs.c }
    | _ => none
  | .cliTransportDisconnect =>
    match clientDisconnect a fs.c with
    | .ok (g', _) => some { fs with c := g' }
    | _ => none
  | .srvDisconnectAll =>
    match serverDisconnectAll a fs.s with
    | .ok (g', _) => some { fs with s := g', ySeq := trackSeq cid g'.renet fs.ySeq }
    | _ => none
  | .srvSend ch m =>
    match fs.s.renet.sendMessage cid ch m with
    | .ok rs' =>
      let acc := match SMap.find? fs.s.renet.conns cid, SMap.find? rs'.conns cid with
        | some y0, some y1 => accepted y0 y1 ch
        | _, _ => false
      let off := match SMap.find? fs.s.renet.conns cid with
        | some y0 => offeredU y0 ch
        | none => false
      some { fs with s := { fs.s with renet := rs' }, ySeq := trackSeq cid rs' fs.ySeq
                     subS := if acc then push fs.subS ch m else fs.subS
                     subSU := if off then push fs.subSU ch m else fs.subSU }
    | _ => none
  | .srvRecv ch =>
    match fs.s.renet.receiveMessage cid ch with
    | .ok (rs', some m) => some { fs with s := { fs.s with renet := rs' }, ySeq := trackSeq cid rs' fs.ySeq
                                          obtS := push fs.obtS ch m }
    | .ok (rs', none) => some { fs with s := { fs.s with renet := rs' }, ySeq := trackSeq cid rs' fs.ySeq }
    | _ => none
  | .srvTick dt =>
    match fs.s.renet.update dt with
    | .ok rs' => some { fs with s := { fs.s with renet := rs' }, ySeq := trackSeq cid rs' fs.ySeq }
    | _ => none
  | .srvDisconnect =>
    some { fs with s := { fs.s with renet := fs.s.renet.disconnect cid }
                   ySeq := trackSeq cid (fs.s.renet.disconnect cid) fs.ySeq }
  | .srvUpdate d inbox =>
    match serverUpdate a fs.s d inbox with
    | .ok (g', _) => some { fs with s := g', ySeq := trackSeq cid g'.renet fs.ySeq }
    | _ => none
  | .srvSendPackets =>
    match serverSendPackets a fs.s with
    | .ok (g', out) => some { fs with s := g', ySeq := trackSeq cid g'.renet fs.ySeq, emS := fs.emS ++ out.toList
                                      sealedS := fs.sealedS ++ srvSeals a cid fs.s fs.s.renet.clientsId }
    | _ => none

def FS.run (a : AEAD) (cid : Nat) (fs : FS) : List FSOp → Option FS
  | [] => some fs
  | op :: ops =>
    match fs.step a cid op with
    | some fs' => fs'.run a cid ops
    | none => none

theorem FS.run_append (a : AEAD) (cid : Nat) (fs : FS) : ∀ (l1 l2 : List FSOp),
    fs.run a cid (l1 ++ l2) = (fs.run a cid l1).bind (fun fs' => fs'.run a cid l2) := by
  intro l1
  induction l1 generalizing fs with
  | nil => intro l2; rfl
  | cons op l1 ih =>
    intro l2
    simp only [List.cons_append, FS.run]
    cases fs.step a cid op with
    | none => rfl
    | some fs' => exact ih fs' l2

/-! ### the per-run hypotheses

  **`NoForgery`** (authenticity, never a law of the AEAD): whenever a netcode endpoint's `process_packet` surfaces a
  payload for this session in this run, the datagram it was given is one the PEER's `generate_payload_packet` returned
  earlier in this run (a ghost record of `sealedC` / `sealedS`), sealed under the key and protocol id the receiver
  opened it with.  This is integrity of ciphertexts relative to the run, for the two session keys: a third party who
  knew a key could seal under it, so key secrecy enters exactly here and nowhere else.  Replays of genuine datagrams
  satisfy it by definition; truncated, bit-flipped or fabricated datagrams satisfy it when they do not open.

  **`SingleSession`**: the server's netcode never reports `ClientConnected(cid)` in this run — the session is not
  re-opened after the server dropped it.  (Known finding K1: after the server side of a session ends, replaying the
  handshake datagrams re-opens it with the same keys and a fresh replay window and a fresh `RenetClient`; old datagrams
  are then surfaced into fresh channels.  While the session is in the netcode table the report is impossible anyway,
  `GI.TStep`.)

  Both are Bool-valued functions of the state and the adversary's inbox, so that concrete runs are checked by
  evaluation. -/

/-- the check for one `ServerResult` of `process_packet(addr, buf)` in netcode state `ns` -/
def srvResOK (cid : Nat) (L : List Sealed) (ns : NetcodeServer) (addr : Addr) (buf : Bytes) : ServerResult → Bool
  | .payload id _ =>
    if id = cid then
      match findClientByAddr ns.clients addr with
      | some (_, c) => hasRec L buf c.receiveKey ns.protocolId
      | none => false
    else true
  | .clientConnected id _ _ _ => id ≠ cid
  | _ => true

/-- … for the whole inbox of a server `update` (the netcode state is threaded through; it never depends on renet) -/
def srvInboxOK (a : AEAD) (cid : Nat) (L : List Sealed) : NetcodeServer → List Dgram → Bool
  | _, [] => true
  | ns, (addr, buf) :: rest =>
    match ns.processPacket a addr buf with
    | .ok (r, ns') => srvResOK cid L ns addr buf r && srvInboxOK a cid L ns' rest
    | _ => true

/-- … for the inbox of a client `update` -/
def cliInboxOK (a : AEAD) (L : List Sealed) : NetcodeClient → List Dgram → Bool
  | _, [] => true
  | nc, (addr, buf) :: rest =>
    if addr ≠ nc.serverAddr then cliInboxOK a L nc rest else
    match nc.processPacket a buf with
    | .ok (some _, nc') =>
      hasRec L buf nc.connectToken.serverToClientKey nc.connectToken.protocolId && cliInboxOK a L nc' rest
    | .ok (none, nc') => cliInboxOK a L nc' rest
    | _ => true

def opOK (a : AEAD) (cid : Nat) (fs : FS) : FSOp → Bool
  | .srvUpdate d inbox =>
    match fs.s.netcode.update d with
    | .ok ns0 => srvInboxOK a cid fs.sealedC ns0 inbox
    | _ => true
  | .cliUpdate _ inbox =>
    match fs.c.netcode.disconnectReason, fs.c.renet.disconnectReason with
    | none, none => cliInboxOK a fs.sealedS fs.c.netcode inbox
    | _, _ => true
  | _ => true

/-- the hypotheses hold at every `update` of the run -/
def runOK (a : AEAD) (cid : Nat) (fs : FS) : List FSOp → Bool
  | [] => true
  | op :: ops =>
    opOK a cid fs op &&
    match fs.step a cid op with
    | some fs' => runOK a cid fs' ops
    | none => true


/-! the two hypotheses separately (`runOK` is their conjunction, `runOK_eq`) -/

def srvResNF (cid : Nat) (L : List Sealed) (ns : NetcodeServer) (addr : Addr) (buf : Bytes) : ServerResult → Bool
  | .payload id _ =>
    if id = cid then
      match findClientByAddr ns.clients addr with
      | some (_, c) => hasRec L buf c.receiveKey ns.protocolId
      | none => false
    else true
  | _ => true

def srvResSS (cid : Nat) : ServerResult → Bool
  | .clientConnected id _ _ _ => id ≠ cid
  | _ => true

theorem srvResOK_eq (cid : Nat) (L : List Sealed) (ns : NetcodeServer) (addr : Addr) (buf : Bytes) (r : ServerResult) :
    srvResOK cid L ns addr buf r = (srvResNF cid L ns addr buf r && srvResSS cid r) := by
  cases r <;> simp [srvResOK, srvResNF, srvResSS]

def srvInboxNF (a : AEAD) (cid : Nat) (L : List Sealed) : NetcodeServer → List Dgram → Bool
  | _, [] => true
  | ns, (addr, buf) :: rest =>
    match ns.processPacket a addr buf with
    | .ok (r, ns') => srvResNF cid L ns addr buf r && srvInboxNF a cid L ns' rest
    | _ => true

def srvInboxSS (a : AEAD) (cid : Nat) : NetcodeServer → List Dgram → Bool
  | _, [] => true
  | ns, (addr, buf) :: rest =>
    match ns.processPacket a addr buf with
    | .ok (r, ns') => srvResSS cid r && srvInboxSS a cid ns' rest
    | _ => true

theorem and4 (p q r s : Bool) : ((p && q) && (r && s)) = ((p && r) && (q && s)) := by
  cases p <;> cases q <;> cases r <;> cases s <;> rfl

theorem srvInboxOK_eq (a : AEAD) (cid : Nat) (L : List Sealed) : ∀ (l : List Dgram) (ns : NetcodeServer),
    srvInboxOK a cid L ns l = (srvInboxNF a cid L ns l && srvInboxSS a cid ns l)
  | [], _ => rfl
  | (addr, buf) :: rest, ns => by
    simp only [srvInboxOK, srvInboxNF, srvInboxSS]
    cases ns.processPacket a addr buf with
    | ok v =>
      obtain ⟨r, ns'⟩ := v
      simp only
      rw [srvResOK_eq, srvInboxOK_eq a cid L rest ns', and4]
    | err e => rfl
    | panic m => rfl

/-- `NoForgery` at one operation -/
def opNF (a : AEAD) (cid : Nat) (fs : FS) : FSOp → Bool
  | .srvUpdate d inbox =>
    match fs.s.netcode.update d with
    | .ok ns0 => srvInboxNF a cid fs.sealedC ns0 inbox
    | _ => true
  | .cliUpdate _ inbox =>
    match fs.c.netcode.disconnectReason, fs.c.renet.disconnectReason with
    | none, none => cliInboxOK a fs.sealedS fs.c.netcode inbox
    | _, _ => true
  | _ => true

/-- `SingleSession` at one operation -/
def opSS (a : AEAD) (cid : Nat) (fs : FS) : FSOp → Bool
  | .srvUpdate d inbox =>
    match fs.s.netcode.update d with
    | .ok ns0 => srvInboxSS a cid ns0 inbox
    | _ => true
  | _ => true

theorem opOK_eq (a : AEAD) (cid : Nat) (fs : FS) (op : FSOp) : opOK a cid fs op = (opNF a cid fs op && opSS a cid fs op) := by
  cases op <;> simp only [opOK, opNF, opSS, Bool.and_true]
  case srvUpdate d inbox =>
    cases fs.s.netcode.update d with
    | ok ns0 => exact srvInboxOK_eq a cid _ inbox ns0
    | err e => rfl
    | panic m => rfl

def runNF (a : AEAD) (cid : Nat) (fs : FS) : List FSOp → Bool
  | [] => true
  | op :: ops =>
    opNF a cid fs op &&
    match fs.step a cid op with
    | some fs' => runNF a cid fs' ops
    | none => true

def runSS (a : AEAD) (cid : Nat) (fs : FS) : List FSOp → Bool
  | [] => true
  | op :: ops =>
    opSS a cid fs op &&
    match fs.step a cid op with
    | some fs' => runSS a cid fs' ops
    | none => true

theorem runOK_eq (a : AEAD) (cid : Nat) : ∀ (ops : List FSOp) (fs : FS),
    runOK a cid fs ops = (runNF a cid fs ops && runSS a cid fs ops)
  | [], _ => rfl
  | op :: ops, fs => by
    simp only [runOK, runNF, runSS]
    rw [opOK_eq]
    cases fs.step a cid op with
    | none => simp
    | some fs' => simp only; rw [runOK_eq a cid ops fs', and4]

/-- **`NoForgeryRun`**: whenever, in this run, `NetcodeServer::process_packet` surfaces `Payload{client_id = cid}` or
    the client's `NetcodeClient::process_packet` surfaces a payload, the datagram it was given is the datagram of a
    ghost record of the PEER's `generate_payload_packet` made earlier in this run, sealed under the key and protocol id
    the receiver opened it with. -/
def NoForgeryRun (a : AEAD) (cid : Nat) (fs : FS) (ops : List FSOp) : Prop := runNF a cid fs ops = true

/-- **`SingleSessionRun`**: `NetcodeServer::process_packet` never returns `ClientConnected{client_id = cid}` in this run. -/
def SingleSessionRun (a : AEAD) (cid : Nat) (fs : FS) (ops : List FSOp) : Prop := runSS a cid fs ops = true

instance (a : AEAD) (cid : Nat) (fs : FS) (ops : List FSOp) : Decidable (NoForgeryRun a cid fs ops) :=
  inferInstanceAs (Decidable (_ = true))
instance (a : AEAD) (cid : Nat) (fs : FS) (ops : List FSOp) : Decidable (SingleSessionRun a cid fs ops) :=
  inferInstanceAs (Decidable (_ = true))

theorem runNF_prefix (a : AEAD) (cid : Nat) : ∀ (l1 l2 : List FSOp) (fs : FS),
    runNF a cid fs (l1 ++ l2) = true → runNF a cid fs l1 = true
  | [], _, _, _ => rfl
  | op :: l1, l2, fs, h => by
    simp only [List.cons_append, runNF, Bool.and_eq_true] at h ⊢
    refine ⟨h.1, ?_⟩
    cases hs : fs.step a cid op with
    | none => rfl
    | some fs' => rw [hs] at h; exact runNF_prefix a cid l1 l2 fs' h.2

theorem runSS_prefix (a : AEAD) (cid : Nat) : ∀ (l1 l2 : List FSOp) (fs : FS),
    runSS a cid fs (l1 ++ l2) = true → runSS a cid fs l1 = true
  | [], _, _, _ => rfl
  | op :: l1, l2, fs, h => by
    simp only [List.cons_append, runSS, Bool.and_eq_true] at h ⊢
    refine ⟨h.1, ?_⟩
    cases hs : fs.step a cid op with
    | none => rfl
    | some fs' => rw [hs] at h; exact runSS_prefix a cid l1 l2 fs' h.2

theorem runOK_split {a : AEAD} {cid : Nat} {fs : FS} {ops : List FSOp} (h : runOK a cid fs ops = true) :
    NoForgeryRun a cid fs ops ∧ SingleSessionRun a cid fs ops := by
  rw [runOK_eq, Bool.and_eq_true] at h
  exact h

theorem runOK_of {a : AEAD} {cid : Nat} {fs : FS} {ops : List FSOp} (h1 : NoForgeryRun a cid fs ops)
    (h2 : SingleSessionRun a cid fs ops) : runOK a cid fs ops = true := by
  rw [runOK_eq, h1, h2]; rfl

/-! ### 3c. every `FS` step is a `Duo` run -/

/-- `d'` differs from `d` in Y's connection and the log of deliveries to Y only -/
def YOnly (d d' : Duo) : Prop := ∃ y dl, d' = { d with y := y, delY := dl }
/-- `d'` differs from `d` in X's connection and the log of deliveries to X only -/
def XOnly (d d' : Duo) : Prop := ∃ x dl, d' = { d with x := x, delX := dl }

theorem YOnly.refl (d : Duo) : YOnly d d := ⟨d.y, d.delY, rfl⟩
theorem YOnly.trans {d d1 d2 : Duo} (h1 : YOnly d d1) (h2 : YOnly d1 d2) : YOnly d d2 := by
  obtain ⟨y1, l1, rfl⟩ := h1
  obtain ⟨y2, l2, rfl⟩ := h2
  exact ⟨y2, l2, rfl⟩
theorem XOnly.refl (d : Duo) : XOnly d d := ⟨d.x, d.delX, rfl⟩
theorem XOnly.trans {d d1 d2 : Duo} (h1 : XOnly d d1) (h2 : XOnly d1 d2) : XOnly d d2 := by
  obtain ⟨y1, l1, rfl⟩ := h1
  obtain ⟨y2, l2, rfl⟩ := h2
  exact ⟨y2, l2, rfl⟩

theorem stepY_deliver {d : Duo} {k : Nat} {p : Bytes} {y' : Conn} (hk : d.outX[k]? = some p)
    (hp : d.y.processPacket p = .ok y') :
    d.step (.Y, .deliver k) = some { d with y := y', delY := d.delY ++ [k] } := by
  simp only [Duo.step, Duo.stepX, Duo.swap, hk, hp]
  rfl

theorem stepX_deliver {d : Duo} {k : Nat} {p : Bytes} {x' : Conn} (hk : d.outY[k]? = some p)
    (hp : d.x.processPacket p = .ok x') :
    d.step (.X, .deliver k) = some { d with x := x', delX := d.delX ++ [k] } := by
  simp only [Duo.step, Duo.stepX, hk, hp]

theorem dInv_sendInvY {cfg : Cfg} {d : Duo} (h : DInv cfg d) : d.y.SendInv := by
  obtain ⟨pkA, h1, -⟩ := h.1
  exact h1.invB.1

/-- the part of the relation that concerns the server's connection table: the table is keyed without repetition and
    the entry of `cid`, if there is one, is Y -/
structure SrvRel (cid : Nat) (rs : Server) (d : Duo) : Prop where
  sorted : SL.SMap.Sorted rs.conns
  conn : SMap.find? rs.conns cid = some d.y ∨ SMap.find? rs.conns cid = none

theorem SrvRel.congr {cid : Nat} {rs : Server} {d d' : Duo} (h : SrvRel cid rs d) (e : d'.y = d.y) : SrvRel cid rs d' :=
  ⟨h.sorted, by rw [e]; exact h.conn⟩

/-- what the simulation needs to know about a `ServerResult` that `handle_server_result` is about to process -/
def ResGood (cid : Nat) (P : Bytes → Prop) : ServerResult → Prop
  | .payload id p => id = cid → P p
  | .clientConnected id _ _ _ => id ≠ cid
  | _ => True

theorem handle_sim {cfg : Cfg} {cid : Nat} {r : ServerResult} {rs rs' : Server} {out out' : Array Dgram} {d : Duo}
    (h : handleServerResult r rs out = .ok (rs', out')) (hr : ResGood cid (· ∈ d.outX) r)
    (hs : SrvRel cid rs d) (hi : DInv cfg d) :
    ∃ dops d', d.run dops = some d' ∧ SrvRel cid rs' d' ∧ YOnly d d' ∧ d'.y.packetSeq = d.y.packetSeq := by
  have hren := GI.handle_renet h
  cases r with
  | none => simp only at hren; subst hren; exact ⟨[], d, rfl, hs, .refl d, rfl⟩
  | packetToSend addr p => simp only at hren; subst hren; exact ⟨[], d, rfl, hs, .refl d, rfl⟩
  | payload id p =>
    simp only at hren
    obtain ⟨ok, hp⟩ := hren
    obtain ⟨ad, q, hc⟩ := SL.Server.processPacketFrom_spec hp
    by_cases e : id = cid
    · subst e
      rcases hc with ⟨-, e1, -⟩ | ⟨c, c', hf, hpp, -, hf'⟩
      · subst e1; exact ⟨[], d, rfl, hs, .refl d, rfl⟩
      · rcases hs.conn with hy | hn
        · rw [hf] at hy
          cases hy
          obtain ⟨k, hk⟩ := List.getElem?_of_mem (hr rfl)
          refine ⟨[(.Y, .deliver k)], _, Duo.run_single (stepY_deliver hk hpp), ⟨q.sorted hs.sorted, Or.inl hf'⟩,
            ⟨_, _, rfl⟩, ?_⟩
          exact processPacket_packetSeq (dInv_sendInvY hi) hpp
        · rw [hf] at hn; cases hn
    · refine ⟨[], d, rfl, ⟨q.sorted hs.sorted, ?_⟩, .refl d, rfl⟩
      rw [ad.others cid (fun e' => e e'.symm)]
      exact hs.conn
  | clientConnected id addr ud p =>
    simp only at hren; subst hren
    have e : id ≠ cid := hr
    refine ⟨[], d, rfl, ⟨?_, ?_⟩, .refl d, rfl⟩
    · unfold Server.addConnection
      split
      · exact hs.sorted
      · exact SL.SMap.sorted_insert _ _ _ hs.sorted
    · rw [SL.addConnection_frame rs id cid (fun e' => e e'.symm)]
      exact hs.conn
  | clientDisconnected id addr p =>
    simp only at hren; subst hren
    have hsorted : SL.SMap.Sorted (rs.removeConnection id).conns := by
      unfold Server.removeConnection
      split
      · exact hs.sorted
      · exact SL.SMap.sorted_erase _ _ hs.sorted
    by_cases e : id = cid
    · subst e
      exact ⟨[], d, rfl, ⟨hsorted, Or.inr (GI.removeConnection_find_self rs hs.sorted id)⟩, .refl d, rfl⟩
    · refine ⟨[], d, rfl, ⟨hsorted, ?_⟩, .refl d, rfl⟩
      rw [SL.removeConnection_frame rs id cid (fun e' => e e'.symm)]
      exact hs.conn

/-- a loop of `update`: netcode call, `handle_server_result`, … — under a per-call condition `OK` that yields
    `ResGood` for each result -/
theorem handleLoop_sim {cfg : Cfg} {cid : Nat} {α : Type}
    (f : NetcodeServer → α → Res Empty (ServerResult × NetcodeServer)) (OK : NetcodeServer → List α → Prop)
    (P : Bytes → Prop)
    (hstep : ∀ ns x rest r ns', OK ns (x :: rest) → f ns x = .ok (r, ns') → ResGood cid P r ∧ OK ns' rest) :
    ∀ (l : List α) (g g' : ServerGlue) (out out' : Array Dgram) (d : Duo),
    GI.handleLoop f g l out = .ok (g', out') → OK g.netcode l → (∀ p, P p → p ∈ d.outX) →
    SrvRel cid g.renet d → DInv cfg d →
    ∃ dops d', d.run dops = some d' ∧ SrvRel cid g'.renet d' ∧ YOnly d d' ∧ d'.y.packetSeq = d.y.packetSeq
  | [], g, g', out, out', d, h, _, _, hs, _ => by
    cases h
    exact ⟨[], d, rfl, hs, .refl d, rfl⟩
  | x :: rest, g, g', out, out', d, h, hok, hP, hs, hi => by
    obtain ⟨r, ns, rs, out1, h1, h2, h3⟩ := GI.handleLoop_cons h
    obtain ⟨hg, hok'⟩ := hstep _ _ _ _ _ hok h1
    have hg' : ResGood cid (· ∈ d.outX) r := by
      cases r with
      | payload id p => exact fun e => hP p (hg e)
      | clientConnected id addr ud p => exact hg
      | none => trivial
      | packetToSend addr p => trivial
      | clientDisconnected id addr p => trivial
    obtain ⟨l1, d1, r1, s1, y1, q1⟩ := handle_sim h2 hg' hs hi
    have hP1 : ∀ p, P p → p ∈ d1.outX := by
      obtain ⟨y, dl, rfl⟩ := y1
      exact hP
    obtain ⟨l2, d2, r2, s2, y2, q2⟩ := handleLoop_sim f OK P hstep rest _ g' out1 out' d1 h3 hok' hP1 s1 (drun_inv l1 d d1 hi r1)
    exact ⟨l1 ++ l2, d2, Duo.run_trans r1 r2, s2, y1.trans y2, q2.trans q1⟩


theorem srvInboxOK_step {a : AEAD} (hl : a.Laws) {cid : Nat} {L : List Sealed} {d : Duo}
    (hL : ∀ e ∈ L, SealOK a e ∧ e.plain ∈ d.outX) :
    ∀ (ns : NetcodeServer) (x : Dgram) (rest : List Dgram) (r : ServerResult) (ns' : NetcodeServer),
    srvInboxOK a cid L ns (x :: rest) = true → GI.ppF a ns x = .ok (r, ns') →
    ResGood cid (· ∈ d.outX) r ∧ srvInboxOK a cid L ns' rest = true := by
  intro ns x rest r ns' hok h1
  obtain ⟨addr, buf⟩ := x
  simp only [srvInboxOK] at hok
  have h1' : ns.processPacket a addr buf = .ok (r, ns') := h1
  rw [h1'] at hok
  simp only [Bool.and_eq_true] at hok
  refine ⟨?_, hok.2⟩
  have hres := hok.1
  cases r with
  | payload id p =>
    intro e
    subst e
    simp only [srvResOK, if_true] at hres
    obtain ⟨slot, c, hf, hplain⟩ := srv_payload_plain hl h1'
    rw [hf] at hres
    obtain ⟨e, he, e1, e2, e3⟩ := hasRec_iff.mp hres
    rw [hplain e (hL e he).1 e1 e2 e3]
    exact (hL e he).2
  | clientConnected id addr' ud p =>
    simp only [srvResOK] at hres
    show id ≠ cid
    exact of_decide_eq_true hres
  | none => trivial
  | packetToSend addr' p => trivial
  | clientDisconnected id addr' p => trivial

theorem dcF_good (a : AEAD) (cid : Nat) : ∀ (ns : NetcodeServer) (x : Nat) (_rest : List Nat) (r : ServerResult)
    (ns' : NetcodeServer), True → GI.dcF a ns x = .ok (r, ns') → ResGood cid (fun _ => False) r ∧ True := by
  intro ns x _ r ns' _ hx
  refine ⟨?_, trivial⟩
  obtain ⟨-, hin, hout⟩ := GI.disconnect_spec hx
  by_cases hm : x ∈ GI.ids ns.clients
  · obtain ⟨ad, p, e⟩ := hin hm
    subst e; trivial
  · obtain ⟨e, -⟩ := hout hm
    subst e; trivial

/-- `NetcodeServerTransport::disconnect_all`: at most the removal of Y's table entry -/
theorem serverDisconnectAll_sim {a : AEAD} {cfg : Cfg} {cid : Nat} {g g' : ServerGlue} {out : Array Dgram} {d : Duo}
    (h : serverDisconnectAll a g = .ok (g', out)) (hs : SrvRel cid g.renet d) (hi : DInv cfg d) :
    ∃ dops d', d.run dops = some d' ∧ SrvRel cid g'.renet d' ∧ YOnly d d' ∧ d'.y.packetSeq = d.y.packetSeq := by
  unfold serverDisconnectAll at h
  rw [GI.idLoop_eq] at h
  exact handleLoop_sim (cfg := cfg) (cid := cid) (GI.dcF a) (fun _ _ => True) (fun _ => False) (dcF_good a cid)
    _ g g' _ out d h trivial (fun _ hp => hp.elim) hs hi

/-- **`NetcodeServerTransport::update` is a run of deliveries of emitted packets to Y** (and possibly the removal of
    Y's table entry), under the run hypotheses for its inbox -/
theorem serverUpdate_sim {a : AEAD} (hl : a.Laws) {cfg : Cfg} {cid : Nat} {L : List Sealed} {g g' : ServerGlue} {dt : Nat}
    {inbox : List Dgram} {out : Array Dgram} {d : Duo} (h : serverUpdate a g dt inbox = .ok (g', out))
    (hok : (match g.netcode.update dt with
      | .ok ns0 => srvInboxOK a cid L ns0 inbox
      | _ => true) = true)
    (hL : ∀ e ∈ L, SealOK a e ∧ e.plain ∈ d.outX) (hs : SrvRel cid g.renet d) (hi : DInv cfg d) :
    ∃ dops d', d.run dops = some d' ∧ SrvRel cid g'.renet d' ∧ YOnly d d' ∧ d'.y.packetSeq = d.y.packetSeq := by
  obtain ⟨ns0, g1, out1, g2, out2, h0, l1, l2, l3⟩ := GI.serverUpdate_unfold h
  rw [h0] at hok
  simp only at hok
  obtain ⟨o1, d1, r1, s1, y1, q1⟩ := handleLoop_sim (cfg := cfg) (cid := cid) (GI.ppF a)
    (fun ns l => srvInboxOK a cid L ns l = true) (· ∈ d.outX) (srvInboxOK_step hl hL) inbox _ g1 _ out1 d l1 hok
    (fun _ hp => hp) hs hi
  have hi1 := drun_inv o1 d d1 hi r1
  obtain ⟨o2, d2, r2, s2, y2, q2⟩ := handleLoop_sim (cfg := cfg) (cid := cid) (GI.ucF a) (fun _ _ => True) (fun _ => False)
    (by
      intro ns x rest r ns' _ hx
      refine ⟨?_, trivial⟩
      have := GI.updateClient_shape hx
      cases r with
      | payload id p => exact this.elim
      | clientConnected id addr ud p => exact this.elim
      | none => trivial
      | packetToSend addr p => trivial
      | clientDisconnected id addr p => trivial)
    _ g1 g2 out1 out2 d1 l2 trivial (fun _ hp => hp.elim) s1 hi1
  have hi2 := drun_inv o2 d1 d2 hi1 r2
  obtain ⟨o3, d3, r3, s3, y3, q3⟩ := handleLoop_sim (cfg := cfg) (cid := cid) (GI.dcF a) (fun _ _ => True) (fun _ => False)
    (by
      intro ns x rest r ns' _ hx
      refine ⟨?_, trivial⟩
      obtain ⟨-, hin, hout⟩ := GI.disconnect_spec hx
      by_cases hm : x ∈ GI.ids ns.clients
      · obtain ⟨ad, p, e⟩ := hin hm
        subst e; trivial
      · obtain ⟨e, -⟩ := hout hm
        subst e; trivial)
    _ g2 g' out2 out d2 l3 trivial (fun _ hp => hp.elim) s2 hi2
  exact ⟨o1 ++ (o2 ++ o3), d3, Duo.run_trans r1 (Duo.run_trans r2 r3), s3, y1.trans (y2.trans y3),
    q3.trans (q2.trans q1)⟩

/-! #### `send_packets` -/

theorem sendClient_out_irrel (a : AEAD) (id : Nat) : ∀ (ps : List Bytes) (ns ns' : NetcodeServer) (out out' o2 : Array Dgram),
    serverSendClient a ns id ps out = .ok (ns', out') → ∃ o2', serverSendClient a ns id ps o2 = .ok (ns', o2')
  | [], ns, ns', out, out', o2, h => by cases h; exact ⟨o2, rfl⟩
  | p :: rest, ns, ns', out, out', o2, h => by
    simp only [serverSendClient] at h ⊢
    split at h
    · cases h
    · cases h
      exact ⟨o2, rfl⟩
    · rename_i addr dg ns1 hg
      exact sendClient_out_irrel a id rest ns1 ns' _ out' _ h

theorem stepY_flush {d : Duo} {y' : Conn} {bs : List Bytes} (h : d.y.getPacketsToSend = .ok (y', bs)) :
    d.step (.Y, .flush) = some { d with y := y', outY := d.outY ++ bs } := by
  simp only [Duo.step, Duo.stepX, Duo.swap, h]
  rfl

/-- **the server's `send_packets` is a run of flushes of Y**; its ghost records are sound and wrap flushed packets -/
theorem serverSendLoop_sim {a : AEAD} {cid : Nat} :
    ∀ (l : List Nat) (g g' : ServerGlue) (out out' : Array Dgram) (d : Duo),
    serverSendLoop a g l out = .ok (g', out') → SrvRel cid g.renet d →
    ∃ dops d', d.run dops = some d' ∧ SrvRel cid g'.renet d' ∧
      (∃ y oy, d' = { d with y := y, outY := d.outY ++ oy }) ∧
      (∀ e ∈ srvSeals a cid g l, SealOK a e ∧ e.plain ∈ d'.outY) ∧
      SL.QuietC g.renet.conns g'.renet.conns ∧ (SMap.find? g.renet.conns cid = none → d' = d)
  | [], g, g', out, out', d, h, hs => by
    cases h
    exact ⟨[], d, rfl, hs, ⟨d.y, [], by simp⟩, fun e he => (by cases he), SL.QuietC.refl _, fun _ => rfl⟩
  | id :: rest, g, g', out, out', d, h, hs => by
    obtain ⟨rs, ps, ns, out1, h1, h2, h3⟩ := GI.sendLoop_cons h
    obtain ⟨o2', h2'⟩ := sendClient_out_irrel a id ps _ _ _ _ #[] h2
    obtain ⟨ad, q, hc⟩ := SL.Server.getPacketsToSend_spec h1
    have hseals : srvSeals a cid g (id :: rest) =
        (if id = cid then sealsS a id g.netcode ps else []) ++ srvSeals a cid ⟨ns, rs⟩ rest := by
      simp only [srvSeals, h1, h2']
    rw [hseals]
    by_cases e : id = cid
    · subst e
      rcases hc with ⟨-, -, e2⟩ | ⟨c, c', ps', hf, hg, e2, hf'⟩
      · cases e2
      · cases e2
        rcases hs.conn with hy | hn
        · rw [hf] at hy
          cases hy
          have hs1 : SrvRel id rs { d with y := c', outY := d.outY ++ ps } := ⟨q.sorted hs.sorted, Or.inl hf'⟩
          obtain ⟨o2, d2, r2, s2, ⟨y2, oy2, e2⟩, hse, q2, -⟩ := serverSendLoop_sim rest _ g' out1 out' _ h3 hs1
          refine ⟨(.Y, .flush) :: o2, d2, ?_, s2, ⟨y2, ps ++ oy2, by rw [e2]; simp⟩, ?_, q.trans q2, ?_⟩
          · simp only [Duo.run, stepY_flush hg]; exact r2
          · intro x hx
            rw [if_pos rfl] at hx
            rcases List.mem_append.mp hx with hx | hx
            · obtain ⟨k1, k2⟩ := sealsS_ok a id ps g.netcode x hx
              refine ⟨k1, ?_⟩
              rw [e2]
              simp only [List.mem_append]
              exact Or.inl (Or.inr k2)
            · exact hse x hx
          · intro hn; rw [hf] at hn; cases hn
        · rw [hf] at hn; cases hn
    · have hs1 : SrvRel cid rs d := ⟨q.sorted hs.sorted, by rw [ad.others cid (fun e' => e e'.symm)]; exact hs.conn⟩
      obtain ⟨o2, d2, r2, s2, fr, hse, q2, hnone⟩ := serverSendLoop_sim rest _ g' out1 out' d h3 hs1
      refine ⟨o2, d2, r2, s2, fr, ?_, q.trans q2, ?_⟩
      · intro x hx
        rw [if_neg e, List.nil_append] at hx
        exact hse x hx
      · intro hn
        exact hnone (by rw [ad.others cid (fun e' => e e'.symm)]; exact hn)

/-! #### the client transport -/

/-- the client's receive loop is a run of deliveries of emitted packets to X -/
theorem clientRecvLoop_sim {a : AEAD} (hl : a.Laws) {L : List Sealed} :
    ∀ (l : List Dgram) (g g' : ClientGlue) (d : Duo), clientRecvLoop a g l = .ok g' →
    cliInboxOK a L g.netcode l = true → (∀ e ∈ L, SealOK a e ∧ e.plain ∈ d.outY) → d.x = g.renet →
    ∃ dops d', d.run dops = some d' ∧ d'.x = g'.renet ∧ XOnly d d'
  | [], g, g', d, h, _, _, hx => by
    cases h
    exact ⟨[], d, rfl, hx, .refl d⟩
  | (addr, buf) :: rest, g, g', d, h, hok, hL, hx => by
    simp only [clientRecvLoop] at h
    simp only [cliInboxOK] at hok
    split at h
    · rename_i hne
      rw [if_pos hne] at hok
      exact clientRecvLoop_sim hl rest g g' d h hok hL hx
    · rename_i hne
      rw [if_neg hne] at hok
      obtain ⟨⟨p, nc⟩, h1, h2⟩ := CI.bind_ok_cases h
      rw [h1] at hok
      cases p with
      | none =>
        simp only at h2 hok
        exact clientRecvLoop_sim hl rest _ g' d h2 hok hL hx
      | some p =>
        simp only at h2 hok
        obtain ⟨rc, h3, h4⟩ := CI.bind_ok_cases h2
        simp only [Bool.and_eq_true] at hok
        obtain ⟨e, he, e1, e2, e3⟩ := hasRec_iff.mp hok.1
        have hp := cli_payload_plain hl h1 e (hL e he).1 e1 e2 e3
        obtain ⟨k, hk⟩ := List.getElem?_of_mem (hL e he).2
        rw [← hp] at hk
        have hstep := stepX_deliver (d := d) hk (by rw [hx]; exact h3)
        obtain ⟨l2, d2, r2, x2, f2⟩ := clientRecvLoop_sim hl rest ⟨nc, rc⟩ g' { d with x := rc, delX := d.delX ++ [k] }
          h4 hok.2 hL rfl
        refine ⟨(.X, .deliver k) :: l2, d2, ?_, x2, XOnly.trans ⟨_, _, rfl⟩ f2⟩
        simp only [Duo.run, hstep]
        exact r2

theorem mirror_sim (g : ClientGlue) (d : Duo) (hx : d.x = g.renet) :
    ∃ dops d', d.run dops = some d' ∧ d'.x = GI.mirror g ∧ XOnly d d' := by
  unfold GI.mirror
  split
  · exact ⟨[(.X, .st .conn)], { d with x := d.x.setConnected }, rfl, by rw [hx], ⟨_, d.delX, rfl⟩⟩
  · split
    · exact ⟨[(.X, .st .conning)], { d with x := d.x.setConnecting }, rfl, by rw [hx], ⟨_, d.delX, rfl⟩⟩
    · exact ⟨[], d, rfl, hx, .refl d⟩

/-- **`NetcodeClientTransport::update`**: `disconnect_due_to_transport`, or nothing, or the status mirror followed by a
    run of deliveries of emitted packets to X -/
theorem clientUpdate_sim {a : AEAD} (hl : a.Laws) {L : List Sealed} {g : ClientGlue} {dt : Nat} {inbox : List Dgram}
    {o : ClientOut} {d : Duo} {cfg : Cfg} (_hi : DInv cfg d) (h : clientUpdate a g dt inbox = .ok o)
    (hok : (match g.netcode.disconnectReason, g.renet.disconnectReason with
      | none, none => cliInboxOK a L g.netcode inbox
      | _, _ => true) = true)
    (hL : ∀ e ∈ L, SealOK a e ∧ e.plain ∈ d.outY) (hx : d.x = g.renet) :
    ∃ dops d', d.run dops = some d' ∧ d'.x = o.g.renet ∧ XOnly d d' := by
  cases hn : g.netcode.disconnectReason with
  | some reason =>
    rw [GI.clientUpdate_netcode_disconnected hn] at h
    cases h
    exact ⟨[(.X, .st (.dw .transport))], { d with x := d.x.disconnectWith .transport }, rfl, by rw [hx],
      ⟨_, d.delX, rfl⟩⟩
  | none =>
    cases hr : g.renet.disconnectReason with
    | some error =>
      rw [GI.clientUpdate_renet_disconnected hn hr] at h
      split at h
      · cases h
      · cases h; exact ⟨[], d, rfl, hx, .refl d⟩
      · cases h; exact ⟨[], d, rfl, hx, .refl d⟩
    | none =>
      rw [hn, hr] at hok
      simp only at hok
      rw [GI.clientUpdate_alive hn hr] at h
      obtain ⟨g1, h1, h2⟩ := CI.bind_ok_cases h
      obtain ⟨⟨o', nc⟩, h3, h4⟩ := CI.bind_ok_cases h2
      obtain ⟨l1, d1, r1, x1, f1⟩ := mirror_sim g d hx
      have hL1 : ∀ e ∈ L, SealOK a e ∧ e.plain ∈ d1.outY := by
        obtain ⟨x, dl, rfl⟩ := f1
        exact hL
      obtain ⟨l2, d2, r2, x2, f2⟩ := clientRecvLoop_sim hl inbox { g with renet := GI.mirror g } g1 d1 h1 hok hL1 x1
      refine ⟨l1 ++ l2, d2, Duo.run_trans r1 r2, ?_, f1.trans f2⟩
      rw [x2]
      cases o' with
      | none => cases h4; rfl
      | some v => obtain ⟨pkt, addr⟩ := v; cases h4; rfl

theorem stepX_flush {d : Duo} {x' : Conn} {bs : List Bytes} (h : d.x.getPacketsToSend = .ok (x', bs)) :
    d.step (.X, .flush) = some { d with x := x', outX := d.outX ++ bs } := by
  simp only [Duo.step, Duo.stepX, h]

/-- **the client's `send_packets`** is a flush of X (or nothing, when netcode is disconnected); its ghost records are
    sound and wrap flushed packets -/
theorem clientSendPackets_sim {a : AEAD} {g g' : ClientGlue} {res : Except TransportError Unit} {out : Array Dgram}
    {d : Duo} {cfg : Cfg} (_hi : DInv cfg d) (h : clientSendPackets a g = .ok (res, g', out)) (hx : d.x = g.renet) :
    ∃ dops d', d.run dops = some d' ∧ d'.x = g'.renet ∧ (∃ x ox, d' = { d with x := x, outX := d.outX ++ ox }) ∧
      ∀ e ∈ cliSeals a g, SealOK a e ∧ e.plain ∈ d'.outX := by
  cases hn : g.netcode.disconnectReason with
  | some reason =>
    rw [GI.clientSendPackets_disconnected hn] at h
    cases h
    refine ⟨[], d, rfl, hx, ⟨d.x, [], by simp⟩, ?_⟩
    intro e he
    simp only [cliSeals, hn] at he
    cases he
  | none =>
    obtain ⟨ps, e, hg, -, -⟩ := GI.clientSendPackets_alive hn h
    refine ⟨[(.X, .flush)], _, Duo.run_single (stepX_flush (by rw [hx]; exact hg)), rfl, ⟨_, ps, rfl⟩, ?_⟩
    intro x hx'
    simp only [cliSeals, hn, hg] at hx'
    obtain ⟨k1, k2⟩ := sealsC_ok a ps g.netcode x hx'
    exact ⟨k1, List.mem_append_right _ k2⟩


/-! #### the relation and the step theorem -/

/-- the simulation relation: X is the client's `RenetClient`, Y is the server's entry for `cid` while there is one,
    the ghost logs coincide, every ghost seal record is sound and wraps a packet the `Duo` side emitted -/
structure Rel (a : AEAD) (cid : Nat) (fs : FS) (d : Duo) : Prop where
  x : d.x = fs.c.renet
  srv : SrvRel cid fs.s.renet d
  yseq : fs.ySeq = d.y.packetSeq
  subC : d.subX = fs.subC
  subCU : d.subXU = fs.subCU
  obtS : d.obtY = fs.obtS
  subS : d.subY = fs.subS
  subSU : d.subYU = fs.subSU
  obtC : d.obtX = fs.obtC
  sealC : ∀ e ∈ fs.sealedC, SealOK a e ∧ e.plain ∈ d.outX
  sealS : ∀ e ∈ fs.sealedS, SealOK a e ∧ e.plain ∈ d.outY

theorem trackSeq_some {cid : Nat} {rs : Server} {y : Conn} (h : SMap.find? rs.conns cid = some y) (old : Nat) :
    trackSeq cid rs old = y.packetSeq := by simp only [trackSeq, h]
theorem trackSeq_none {cid : Nat} {rs : Server} (h : SMap.find? rs.conns cid = none) (old : Nat) :
    trackSeq cid rs old = old := by simp only [trackSeq, h]

theorem trackSeq_rel {cid : Nat} {rs : Server} {d : Duo} (hs : SrvRel cid rs d) {old : Nat} (h : old = d.y.packetSeq) :
    trackSeq cid rs old = d.y.packetSeq := by
  rcases hs.conn with hy | hn
  · exact trackSeq_some hy old
  · rw [trackSeq_none hn old]; exact h

theorem stepY_send {d : Duo} {ch : Nat} {m : Bytes} {y' : Conn} (h : d.y.sendMessage ch m = .ok y') :
    d.step (.Y, .send ch m) = some { d with y := y', subY := if accepted d.y y' ch then push d.subY ch m else d.subY,
                                            subYU := if offeredU d.y ch then push d.subYU ch m else d.subYU } := by
  simp only [Duo.step, Duo.stepX, Duo.swap, h]
  rfl

theorem stepY_recv_some {d : Duo} {ch : Nat} {m : Bytes} {y' : Conn} (h : d.y.receiveMessage ch = .ok (y', some m)) :
    d.step (.Y, .recv ch) = some { d with y := y', obtY := push d.obtY ch m } := by
  simp only [Duo.step, Duo.stepX, Duo.swap, h]
  rfl

theorem stepY_recv_none {d : Duo} {ch : Nat} {y' : Conn} (h : d.y.receiveMessage ch = .ok (y', none)) :
    d.step (.Y, .recv ch) = some { d with y := y' } := by
  simp only [Duo.step, Duo.stepX, Duo.swap, h]
  rfl

theorem stepY_upd {d : Duo} {dt : Nat} {y' : Conn} (h : d.y.update dt = .ok y') :
    d.step (.Y, .upd dt) = some { d with y := y' } := by
  simp only [Duo.step, Duo.stepX, Duo.swap, h]
  rfl

/-- **Simulation.**  Under the run hypotheses for this operation, every `FS` step is matched by a `Duo` run. -/
theorem step_sim {a : AEAD} (hl : a.Laws) {cfg : Cfg} {cid : Nat} {fs fs' : FS} {d : Duo} {op : FSOp}
    (h : Rel a cid fs d) (hi : DInv cfg d) (hok : opOK a cid fs op = true) (hs : fs.step a cid op = some fs') :
    ∃ dops d', d.run dops = some d' ∧ Rel a cid fs' d' := by
  obtain ⟨x, y, outX, outY, subX, subXU, obtY, subY, subYU, obtX, delY, delX⟩ := d
  obtain ⟨hx, hsrv, hyseq, e1, e2, e3, e4, e5, e6, hsC, hsS⟩ := h
  dsimp only at hx hyseq e1 e2 e3 e4 e5 e6 hsC hsS
  subst hx e1 e2 e3 e4 e5 e6
  cases op with
  | cliSend ch m =>
    simp only [FS.step] at hs
    split at hs
    · rename_i r' hm
      cases hs
      refine ⟨[(.X, .send ch m)], _, Duo.run_single (by simp only [Duo.step, Duo.stepX, hm]; rfl), ?_⟩
      exact ⟨rfl, hsrv.congr rfl, hyseq, rfl, rfl, rfl, rfl, rfl, rfl, hsC, hsS⟩
    · cases hs
  | cliRecv ch =>
    simp only [FS.step] at hs
    split at hs
    · rename_i r' m hm
      cases hs
      refine ⟨[(.X, .recv ch)], _, Duo.run_single (by simp only [Duo.step, Duo.stepX, hm]; rfl), ?_⟩
      exact ⟨rfl, hsrv.congr rfl, hyseq, rfl, rfl, rfl, rfl, rfl, rfl, hsC, hsS⟩
    · rename_i r' hm
      cases hs
      refine ⟨[(.X, .recv ch)], _, Duo.run_single (by simp only [Duo.step, Duo.stepX, hm]; rfl), ?_⟩
      exact ⟨rfl, hsrv.congr rfl, hyseq, rfl, rfl, rfl, rfl, rfl, rfl, hsC, hsS⟩
    · cases hs
  | cliTick dt =>
    simp only [FS.step] at hs
    split at hs
    · rename_i r' hm
      cases hs
      refine ⟨[(.X, .upd dt)], _, Duo.run_single (by simp only [Duo.step, Duo.stepX, hm]; rfl), ?_⟩
      exact ⟨rfl, hsrv.congr rfl, hyseq, rfl, rfl, rfl, rfl, rfl, rfl, hsC, hsS⟩
    · cases hs
  | cliDisconnect =>
    simp only [FS.step, Option.some.injEq] at hs
    subst hs
    refine ⟨[(.X, .st (.dw .byClient))], _, rfl, ?_⟩
    exact ⟨rfl, hsrv.congr rfl, hyseq, rfl, rfl, rfl, rfl, rfl, rfl, hsC, hsS⟩
  | cliUpdate dt inbox =>
    simp only [FS.step] at hs
    split at hs
    · rename_i o ho
      cases hs
      simp only [opOK] at hok
      obtain ⟨l, d', r, hx', ⟨x', dl, rfl⟩⟩ := clientUpdate_sim hl hi ho hok hsS rfl
      exact ⟨l, _, r, ⟨hx', hsrv.congr rfl, hyseq, rfl, rfl, rfl, rfl, rfl, rfl, hsC, hsS⟩⟩
    · cases hs
  | cliSendPackets =>
    simp only [FS.step] at hs
    split at hs
    · rename_i res g' out ho
      cases hs
      obtain ⟨l, d', r, hx', ⟨x', ox, rfl⟩, hnew⟩ := clientSendPackets_sim hi ho rfl
      refine ⟨l, _, r, ⟨hx', hsrv.congr rfl, hyseq, rfl, rfl, rfl, rfl, rfl, rfl, ?_, hsS⟩⟩
      intro e he
      rcases List.mem_append.mp he with he | he
      · exact ⟨(hsC e he).1, List.mem_append_left _ (hsC e he).2⟩
      · exact hnew e he
    · cases hs
  | srvSend ch m =>
    simp only [FS.step] at hs
    split at hs
    · rename_i rs' hm
      cases hs
      obtain ⟨ad, q, hc⟩ := SL.Server.sendMessage_spec hm
      rcases hc with ⟨hf, e⟩ | ⟨c, c', hf, hsm, hf'⟩
      · subst e
        refine ⟨[], _, rfl, ?_⟩
        simp only [hf]
        exact ⟨rfl, hsrv, by rw [trackSeq_none hf]; exact hyseq, rfl, rfl, rfl, by simp, by simp, rfl, hsC, hsS⟩
      · rcases hsrv.conn with hy | hn
        · rw [hf] at hy
          cases hy
          refine ⟨[(.Y, .send ch m)], _, Duo.run_single (stepY_send hsm), ?_⟩
          simp only [hf, hf']
          exact ⟨rfl, ⟨q.sorted hsrv.sorted, Or.inl hf'⟩, trackSeq_some hf' _, rfl, rfl, rfl, rfl, rfl, rfl, hsC, hsS⟩
        · rw [hf] at hn; cases hn
    · cases hs
  | srvRecv ch =>
    simp only [FS.step] at hs
    split at hs
    · rename_i rs' m hm
      cases hs
      obtain ⟨ad, q, hc⟩ := SL.Server.receiveMessage_spec hm
      rcases hc with ⟨hf, e, e'⟩ | ⟨c, c', hf, hsm, hf'⟩
      · cases e'
      · rcases hsrv.conn with hy | hn
        · rw [hf] at hy
          cases hy
          refine ⟨[(.Y, .recv ch)], _, Duo.run_single (stepY_recv_some hsm), ?_⟩
          exact ⟨rfl, ⟨q.sorted hsrv.sorted, Or.inl hf'⟩, trackSeq_some hf' _, rfl, rfl, rfl, rfl, rfl, rfl, hsC, hsS⟩
        · rw [hf] at hn; cases hn
    · rename_i rs' hm
      cases hs
      obtain ⟨ad, q, hc⟩ := SL.Server.receiveMessage_spec hm
      rcases hc with ⟨hf, e, -⟩ | ⟨c, c', hf, hsm, hf'⟩
      · subst e
        exact ⟨[], _, rfl, ⟨rfl, hsrv, by rw [trackSeq_none hf]; exact hyseq, rfl, rfl, rfl, rfl, rfl, rfl, hsC, hsS⟩⟩
      · rcases hsrv.conn with hy | hn
        · rw [hf] at hy
          cases hy
          refine ⟨[(.Y, .recv ch)], _, Duo.run_single (stepY_recv_none hsm), ?_⟩
          exact ⟨rfl, ⟨q.sorted hsrv.sorted, Or.inl hf'⟩, trackSeq_some hf' _, rfl, rfl, rfl, rfl, rfl, rfl, hsC, hsS⟩
        · rw [hf] at hn; cases hn
    · cases hs
  | srvTick dt =>
    simp only [FS.step] at hs
    split at hs
    · rename_i rs' hm
      cases hs
      obtain ⟨-, q, hc⟩ := SL.Server.update_spec hm
      rcases hsrv.conn with hy | hn
      · obtain ⟨c', hu, hf'⟩ := (hc cid).2 _ hy
        refine ⟨[(.Y, .upd dt)], _, Duo.run_single (stepY_upd hu), ?_⟩
        exact ⟨rfl, ⟨q.sorted hsrv.sorted, Or.inl hf'⟩, trackSeq_some hf' _, rfl, rfl, rfl, rfl, rfl, rfl, hsC, hsS⟩
      · have hf' := (hc cid).1 hn
        exact ⟨[], _, rfl, ⟨rfl, ⟨q.sorted hsrv.sorted, Or.inr hf'⟩, by rw [trackSeq_none hf']; exact hyseq,
          rfl, rfl, rfl, rfl, rfl, rfl, hsC, hsS⟩⟩
    · cases hs
  | srvDisconnect =>
    simp only [FS.step, Option.some.injEq] at hs
    subst hs
    obtain ⟨-, q, hf'⟩ := SL.Server.disconnect_spec fs.s.renet cid
    rcases hsrv.conn with hy | hn
    · rw [hy] at hf'
      refine ⟨[(.Y, .st (.dw .byServer))], _, rfl, ?_⟩
      refine ⟨rfl, ⟨q.sorted hsrv.sorted, Or.inl hf'⟩, ?_, rfl, rfl, rfl, rfl, rfl, rfl, hsC, hsS⟩
      rw [trackSeq_some hf']
      rfl
    · rw [hn] at hf'
      exact ⟨[], _, rfl, ⟨rfl, ⟨q.sorted hsrv.sorted, Or.inr hf'⟩, by rw [trackSeq_none hf']; exact hyseq,
        rfl, rfl, rfl, rfl, rfl, rfl, hsC, hsS⟩⟩
  | srvUpdate dt inbox =>
    simp only [FS.step] at hs
    split at hs
    · rename_i g' out ho
      cases hs
      simp only [opOK] at hok
      obtain ⟨l, d', r, s', ⟨y', dl, rfl⟩, hq⟩ := serverUpdate_sim hl (cfg := cfg) ho hok hsC hsrv hi
      exact ⟨l, _, r, ⟨rfl, s', trackSeq_rel s' (hyseq.trans hq.symm), rfl, rfl, rfl, rfl, rfl, rfl, hsC, hsS⟩⟩
    · cases hs
  | cliTransportDisconnect =>
    simp only [FS.step] at hs
    split at hs
    · rename_i g' out ho
      cases hs
      refine ⟨[], _, rfl, ?_⟩
      have hren : g'.renet = fs.c.renet := by
        rw [GI.clientDisconnect_spec] at ho
        split at ho
        · cases ho; rfl
        · split at ho
          · cases ho
          · cases ho; rfl
          · cases ho; rfl
      exact ⟨hren.symm, hsrv, hyseq, rfl, rfl, rfl, rfl, rfl, rfl, hsC, hsS⟩
    · cases hs
  | srvDisconnectAll =>
    simp only [FS.step] at hs
    split at hs
    · rename_i g' out ho
      cases hs
      obtain ⟨l, d', r, s', ⟨y', dl, rfl⟩, hq⟩ := serverDisconnectAll_sim (cfg := cfg) ho hsrv hi
      exact ⟨l, _, r, ⟨rfl, s', trackSeq_rel s' (hyseq.trans hq.symm), rfl, rfl, rfl, rfl, rfl, rfl, hsC, hsS⟩⟩
    · cases hs
  | srvSendPackets =>
    simp only [FS.step] at hs
    split at hs
    · rename_i g' out ho
      cases hs
      obtain ⟨l, d', r, s', ⟨y', oy, rfl⟩, hnew, q, hnone⟩ := serverSendLoop_sim _ _ _ _ _ _ ho hsrv
      refine ⟨l, _, r, ⟨rfl, s', ?_, rfl, rfl, rfl, rfl, rfl, rfl, hsC, ?_⟩⟩
      · rcases hsrv.conn with hy | hn
        · obtain ⟨c', hc', -⟩ := q.present cid _ hy
          rcases s'.conn with hy' | hn'
          · exact trackSeq_some hy' _
          · rw [hc'] at hn'; cases hn'
        · rw [trackSeq_none (q.absent cid hn)]
          have := hnone hn
          rw [this]
          exact hyseq
      · intro e he
        rcases List.mem_append.mp he with he | he
        · exact ⟨(hsS e he).1, List.mem_append_left _ (hsS e he).2⟩
        · exact hnew e he
    · cases hs


/-! ### 3d. runs, the established state, the conclusions -/

theorem run_sim {a : AEAD} (hl : a.Laws) {cfg : Cfg} {cid : Nat} :
    ∀ (ops : List FSOp) (fs fs' : FS) (d : Duo), Rel a cid fs d → DInv cfg d → runOK a cid fs ops = true →
    fs.run a cid ops = some fs' → ∃ d', Rel a cid fs' d' ∧ DInv cfg d'
  | [], fs, fs', d, h, hi, _, hr => by
    simp only [FS.run, Option.some.injEq] at hr
    subst hr
    exact ⟨d, h, hi⟩
  | op :: ops, fs, fs', d, h, hi, hok, hr => by
    simp only [FS.run] at hr
    simp only [runOK, Bool.and_eq_true] at hok
    cases hs : fs.step a cid op with
    | none => rw [hs] at hr; cases hr
    | some fs1 =>
      rw [hs] at hr hok
      obtain ⟨l, d1, r1, h1⟩ := step_sim hl h hi hok.1 hs
      exact run_sim hl ops fs1 fs' d1 h1 (drun_inv l d d1 hi r1) hok.2 hr

/-- a `RenetClient` as its constructor leaves it, possibly after `set_connected` -/
def FreshConn (budget : Nat) (send recv : List ChanCfg) (c : Conn) : Prop :=
  c = Conn.fromChannels budget send recv ∨ c = (Conn.fromChannels budget send recv).setConnected

/-- the message-layer part of "established": both `RenetClient`s of the session are freshly configured from the
    same `ConnectionConfig` (`cfg.send` = client → server channels, `cfg.recv` = server → client channels, one
    `available_bytes_per_tick`), the server's is in its table (keyed without repetition) under `cid`; all ghost
    logs are empty -/
structure RenetFresh (cfg : Cfg) (cid : Nat) (fs : FS) : Prop where
  cli : FreshConn cfg.budget cfg.send cfg.recv fs.c.renet
  sorted : SL.SMap.Sorted fs.s.renet.conns
  srv : ∃ y, SMap.find? fs.s.renet.conns cid = some y ∧ FreshConn cfg.budget cfg.recv cfg.send y
  ySeq : fs.ySeq = 0
  sealedC : fs.sealedC = []
  sealedS : fs.sealedS = []
  subC : fs.subC = fun _ => []
  subCU : fs.subCU = fun _ => []
  obtS : fs.obtS = fun _ => []
  subS : fs.subS = fun _ => []
  subSU : fs.subSU = fun _ => []
  obtC : fs.obtC = fun _ => []

theorem dInv_fresh {cfg : Cfg} {x y : Conn} (hx : FreshConn cfg.budget cfg.send cfg.recv x)
    (hy : FreshConn cfg.budget cfg.recv cfg.send y) : DInv cfg { Duo.init cfg with x := x, y := y } := by
  rcases hx with rfl | rfl <;> rcases hy with rfl | rfl
  · exact dInv_init cfg
  · exact drun_inv [(.Y, .st .conn)] _ _ (dInv_init cfg) rfl
  · exact drun_inv [(.X, .st .conn)] _ _ (dInv_init cfg) rfl
  · exact drun_inv [(.X, .st .conn), (.Y, .st .conn)] _ _ (dInv_init cfg) rfl

theorem freshConn_packetSeq {budget : Nat} {send recv : List ChanCfg} {c : Conn} (h : FreshConn budget send recv c) :
    c.packetSeq = 0 := by
  rcases h with rfl | rfl <;> rfl

theorem rel_of_fresh (a : AEAD) {cfg : Cfg} {cid : Nat} {fs : FS} (h : RenetFresh cfg cid fs) :
    ∃ d, Rel a cid fs d ∧ DInv cfg d := by
  obtain ⟨y, hf, hy⟩ := h.srv
  refine ⟨{ Duo.init cfg with x := fs.c.renet, y := y }, ?_, dInv_fresh h.cli hy⟩
  refine ⟨rfl, ⟨h.sorted, Or.inl hf⟩, by rw [h.ySeq]; exact (freshConn_packetSeq hy).symm, h.subC.symm, h.subCU.symm,
    h.obtS.symm, h.subS.symm, h.subSU.symm, h.obtC.symm, ?_, ?_⟩
  · intro e he; rw [h.sealedC] at he; cases he
  · intro e he; rw [h.sealedS] at he; cases he

/-- **Established session** for client `cid`: the message layer is fresh (`RenetFresh`), and on the netcode layer the
    client is `Connected`, the server holds a connected slot for `cid` whose keys mirror the client's (the slot's receive
    key is the client's send key and vice versa), both use the same protocol id; nothing has been emitted yet.
    (`full_stack`, stated with the keyed hypothesis `NoForgeryRun`, uses only the `RenetFresh` part; the key agreement is
    what lets the hypothesis be weakened to the datagram-level `NoForgeryRunD`, Part 4, and what makes genuine
    datagrams open at all — the examples.) -/
structure Established (cfg : Cfg) (cid : Nat) (fs : FS) : Prop extends RenetFresh cfg cid fs where
  cliConnected : fs.c.netcode.state = .connected
  cliId : fs.c.netcode.connectToken.clientId = cid
  slot : ∃ (i : Nat) (conn : Connection), fs.s.netcode.clients[i]? = some (some conn) ∧ conn.clientId = cid ∧ conn.state = .connected ∧
    conn.receiveKey = fs.c.netcode.connectToken.clientToServerKey ∧
    conn.sendKey = fs.c.netcode.connectToken.serverToClientKey
  /-- no other slot holds `cid` with other keys (ids are unique in the table anyway: `GI.LockStep.nodup`) -/
  slotKeys : ∀ o ∈ fs.s.netcode.clients, ∀ conn : Connection, o = some conn → conn.clientId = cid →
    conn.receiveKey = fs.c.netcode.connectToken.clientToServerKey ∧
    conn.sendKey = fs.c.netcode.connectToken.serverToClientKey
  proto : fs.s.netcode.protocolId = fs.c.netcode.connectToken.protocolId
  emC : fs.emC = []
  emS : fs.emS = []

/-- the state with empty histories -/
def FS.start (c : ClientGlue) (s : ServerGlue) : FS :=
  { c := c, s := s, emC := [], emS := [], sealedC := [], sealedS := [], ySeq := 0,
    subC := fun _ => [], subCU := fun _ => [], obtS := fun _ => [], subS := fun _ => [], subSU := fun _ => [],
    obtC := fun _ => [] }

/-- `Established` from facts a kernel evaluation can check (the client's slot is slot 0, the server's table holds
    only this client) -/
theorem established_of {cfg : Cfg} {cid : Nat} {c : ClientGlue} {s : ServerGlue}
    (h : c.renet = (Conn.fromChannels cfg.budget cfg.send cfg.recv).setConnected ∧
      s.renet.conns = [(cid, (Conn.fromChannels cfg.budget cfg.recv cfg.send).setConnected)] ∧
      c.netcode.state = .connected ∧ c.netcode.connectToken.clientId = cid ∧
      (s.netcode.clients[0]?).map (fun o => o.map fun x => (x.clientId, x.state, x.receiveKey, x.sendKey)) =
        some (some (cid, .connected, c.netcode.connectToken.clientToServerKey,
          c.netcode.connectToken.serverToClientKey)) ∧
      s.netcode.protocolId = c.netcode.connectToken.protocolId ∧
      s.netcode.clients.all (fun o => match o with
        | some x => x.clientId != cid || (x.receiveKey == c.netcode.connectToken.clientToServerKey &&
            x.sendKey == c.netcode.connectToken.serverToClientKey)
        | none => true) = true) : Established cfg cid (FS.start c s) := by
  obtain ⟨f1, f2, f3, f4, f5, f6, f7⟩ := h
  have hkeys : ∀ o ∈ s.netcode.clients, ∀ conn : Connection, o = some conn → conn.clientId = cid →
      conn.receiveKey = c.netcode.connectToken.clientToServerKey ∧
      conn.sendKey = c.netcode.connectToken.serverToClientKey := by
    intro o ho conn e hid
    subst e
    have := List.all_eq_true.mp f7 _ ho
    simp only [hid, bne_self_eq_false, Bool.false_or, Bool.and_eq_true, beq_iff_eq] at this
    exact this
  have hslot : ∃ (i : Nat) (conn : Connection), s.netcode.clients[i]? = some (some conn) ∧ conn.clientId = cid ∧
      conn.state = .connected ∧ conn.receiveKey = c.netcode.connectToken.clientToServerKey ∧
      conn.sendKey = c.netcode.connectToken.serverToClientKey := by
    cases hc : s.netcode.clients[0]? with
    | none => rw [hc] at f5; cases f5
    | some o =>
      cases o with
      | none => rw [hc] at f5; cases f5
      | some conn =>
        rw [hc] at f5
        simp only [Option.map_some, Option.some.injEq, Prod.mk.injEq] at f5
        exact ⟨0, conn, hc, f5.1, f5.2.1, f5.2.2.1, f5.2.2.2⟩
  have hsorted : SL.SMap.Sorted s.renet.conns := by
    rw [f2]
    exact SL.SMap.sorted_insert [] cid _ SL.SMap.sorted_nil
  have hfind : SMap.find? s.renet.conns cid = some (Conn.fromChannels cfg.budget cfg.recv cfg.send).setConnected := by
    rw [f2]
    simp [SMap.find?]
  exact { cli := Or.inr f1, sorted := hsorted, srv := ⟨_, hfind, Or.inr rfl⟩, ySeq := rfl, sealedC := rfl,
          sealedS := rfl, subC := rfl, subCU := rfl, obtS := rfl, subS := rfl, subSU := rfl, obtC := rfl,
          cliConnected := f3, cliId := f4, slot := hslot, slotKeys := hkeys, proto := f6, emC := rfl, emS := rfl }

/-- the counter-range side conditions of `CountersOK` (C01S), for the client → server direction, on the FINAL state -/
structure CountersUp (cfg : Cfg) (fs : FS) : Prop where
  chan : ∀ c ∈ cfg.send, c.id < 256
  seq : fs.c.renet.packetSeq ≤ Varint.MAX + 1
  ids : ∀ c ∈ cfg.send, (fs.subC c.id).length ≤ Varint.MAX + 1
  lens : ∀ c ∈ cfg.send, ∀ m ∈ fs.subC c.id, m.length ≤ MAX_NUM_SLICES * SLICE_SIZE
  lensU : ∀ c ∈ cfg.send, ∀ m ∈ fs.subCU c.id, m.length ≤ MAX_NUM_SLICES * SLICE_SIZE

/-- … and for the server → client direction -/
structure CountersDown (cfg : Cfg) (fs : FS) : Prop where
  chan : ∀ c ∈ cfg.recv, c.id < 256
  seq : fs.ySeq ≤ Varint.MAX + 1
  ids : ∀ c ∈ cfg.recv, (fs.subS c.id).length ≤ Varint.MAX + 1
  lens : ∀ c ∈ cfg.recv, ∀ m ∈ fs.subS c.id, m.length ≤ MAX_NUM_SLICES * SLICE_SIZE
  lensU : ∀ c ∈ cfg.recv, ∀ m ∈ fs.subSU c.id, m.length ≤ MAX_NUM_SLICES * SLICE_SIZE

/-- the three end-to-end conclusions for one direction: `kind` = the sender's channel list, `sub`/`subU` what the
    sending application submitted, `obt` what the receiving application obtained -/
def Guarantees (cfg : Cfg) (sub subU obt : Nat → List Bytes) : Prop :=
  (∀ ch, cfg.Ordered ch → obt ch <+: sub ch) ∧
  (∀ ch, cfg.Unordered ch → ∃ ids : List Nat, ids.Nodup ∧ (obt ch).map some = ids.map (fun id => (sub ch)[id]?)) ∧
  (∀ ch, cfg.Unreliable ch → ∀ x ∈ obt ch, x ∈ subU ch)

theorem rel_concl {a : AEAD} {cfg : Cfg} {cid : Nat} {fs : FS} {d : Duo} (h : Rel a cid fs d) (hi : DInv cfg d) :
    (CountersUp cfg fs → Guarantees cfg fs.subC fs.subCU fs.obtS) ∧
    (CountersDown cfg fs → Guarantees (Cfg.swap cfg) fs.subS fs.subSU fs.obtC) := by
  constructor
  · intro hc
    have hco : CountersOK cfg d.v1 := by
      refine ⟨hc.chan, ?_, ?_, ?_, ?_⟩
      · show d.x.packetSeq ≤ _
        rw [h.x]; exact hc.seq
      · show ∀ c ∈ cfg.send, (d.subX c.id).length ≤ _
        rw [h.subC]; exact hc.ids
      · show ∀ c ∈ cfg.send, ∀ m ∈ d.subX c.id, _
        rw [h.subC]; exact hc.lens
      · show ∀ c ∈ cfg.send, ∀ m ∈ d.subXU c.id, _
        rw [h.subCU]; exact hc.lensU
    have := sInv_concl hi.1 hco
    show Guarantees cfg fs.subC fs.subCU fs.obtS
    rw [← h.subC, ← h.subCU, ← h.obtS]
    exact this
  · intro hc
    have hco : CountersOK (Cfg.swap cfg) d.v2 := by
      refine ⟨hc.chan, ?_, ?_, ?_, ?_⟩
      · show d.y.packetSeq ≤ _
        rw [← h.yseq]; exact hc.seq
      · show ∀ c ∈ cfg.recv, (d.subY c.id).length ≤ _
        rw [h.subS]; exact hc.ids
      · show ∀ c ∈ cfg.recv, ∀ m ∈ d.subY c.id, _
        rw [h.subS]; exact hc.lens
      · show ∀ c ∈ cfg.recv, ∀ m ∈ d.subYU c.id, _
        rw [h.subSU]; exact hc.lensU
    have := sInv_concl hi.2 hco
    show Guarantees (Cfg.swap cfg) fs.subS fs.subSU fs.obtC
    rw [← h.subS, ← h.subSU, ← h.obtC]
    exact this

/-- **The composition.**  After every finite run of the full stack from a state whose message layer is freshly
    established, in which the run hypotheses hold at every transport `update`, the channel guarantees of C01S hold
    end to end in both directions (each under the counter-range conditions for that direction). -/
theorem full_stack {a : AEAD} (hl : a.Laws) {cfg : Cfg} {cid : Nat} {fs0 fs : FS} {ops : List FSOp}
    (he : RenetFresh cfg cid fs0) (hr : fs0.run a cid ops = some fs) (hok : runOK a cid fs0 ops = true) :
    (CountersUp cfg fs → Guarantees cfg fs.subC fs.subCU fs.obtS) ∧
    (CountersDown cfg fs → Guarantees (Cfg.swap cfg) fs.subS fs.subSU fs.obtC) := by
  obtain ⟨d0, h0, i0⟩ := rel_of_fresh a he
  obtain ⟨d, h, hi⟩ := run_sim hl ops fs0 fs d0 h0 i0 hok hr
  exact rel_concl h hi


/-! ### 3e. the ghost records are records of EMITTED datagrams

  `sealedC` / `sealedS` are defined by re-running `generate_payload_packet` next to `send_packets`; this section ties
  them to the socket: the datagram of every record was handed to `send_to` by that `send_packets` call (`emC` / `emS`). -/

theorem clientSendLoop_em (a : AEAD) : ∀ (ps : List Bytes) (nc nc' : NetcodeClient) (out out' : Array Dgram)
    (e : Option NetcodeError), clientSendLoop a nc ps out = .ok (e, nc', out') →
    (∀ y ∈ out.toList, y ∈ out'.toList) ∧ ∀ x ∈ sealsC a nc ps, x.dgram ∈ out'.toList.map (·.2)
  | [], nc, nc', out, out', e, h => by
    cases h
    exact ⟨fun _ hy => hy, fun x hx => by cases hx⟩
  | p :: rest, nc, nc', out, out', e, h => by
    simp only [clientSendLoop] at h
    simp only [sealsC]
    cases hg : nc.generatePayloadPacket a p with
    | panic m => rw [hg] at h; cases h
    | err e' =>
      rw [hg] at h
      cases h
      exact ⟨fun _ hy => hy, fun x hx => by cases hx⟩
    | ok v =>
      obtain ⟨⟨addr, d⟩, nc1⟩ := v
      rw [hg] at h
      dsimp only at h ⊢
      obtain ⟨m1, m2⟩ := clientSendLoop_em a rest nc1 nc' _ out' e h
      refine ⟨fun y hy => m1 y (by simp [hy]), ?_⟩
      intro x hx
      rcases List.mem_cons.mp hx with rfl | hx
      · exact List.mem_map.mpr ⟨(addr, d), m1 _ (by simp), rfl⟩
      · exact m2 x hx

theorem clientSendPackets_em {a : AEAD} {g g' : ClientGlue} {res : Except TransportError Unit} {out : Array Dgram}
    (h : clientSendPackets a g = .ok (res, g', out)) : ∀ x ∈ cliSeals a g, x.dgram ∈ out.toList.map (·.2) := by
  unfold clientSendPackets at h
  unfold cliSeals
  cases hn : g.netcode.disconnectReason with
  | some r => intro x hx; cases hx
  | none =>
    rw [hn] at h
    dsimp only at h ⊢
    obtain ⟨⟨rc, packets⟩, h1, h2⟩ := CI.bind_ok_cases h
    obtain ⟨⟨e, nc, out1⟩, h3, h4⟩ := CI.bind_ok_cases h2
    rw [h1]
    dsimp only
    have := (clientSendLoop_em a packets _ _ _ _ _ h3).2
    cases e with
    | none => cases h4; exact this
    | some e => cases h4; exact this

theorem serverSendClient_em (a : AEAD) (id : Nat) : ∀ (ps : List Bytes) (ns ns' : NetcodeServer) (out out' : Array Dgram),
    serverSendClient a ns id ps out = .ok (ns', out') →
    (∀ y ∈ out.toList, y ∈ out'.toList) ∧ ∀ x ∈ sealsS a id ns ps, x.dgram ∈ out'.toList.map (·.2)
  | [], ns, ns', out, out', h => by
    cases h
    exact ⟨fun _ hy => hy, fun x hx => by cases hx⟩
  | p :: rest, ns, ns', out, out', h => by
    simp only [serverSendClient] at h
    simp only [sealsS]
    cases hg : ns.generatePayloadPacket a id p with
    | panic m => rw [hg] at h; cases h
    | err e' =>
      rw [hg] at h
      cases h
      exact ⟨fun _ hy => hy, fun x hx => by cases hx⟩
    | ok v =>
      obtain ⟨⟨addr, d⟩, ns1⟩ := v
      rw [hg] at h
      dsimp only at h ⊢
      obtain ⟨m1, m2⟩ := serverSendClient_em a id rest ns1 ns' _ out' h
      refine ⟨fun y hy => m1 y (by simp [hy]), ?_⟩
      intro x hx
      rcases List.mem_cons.mp hx with rfl | hx
      · exact List.mem_map.mpr ⟨(addr, d), m1 _ (by simp), rfl⟩
      · exact m2 x hx

theorem serverSendLoop_em (a : AEAD) (cid : Nat) : ∀ (l : List Nat) (g g' : ServerGlue) (out out' : Array Dgram),
    serverSendLoop a g l out = .ok (g', out') →
    (∀ y ∈ out.toList, y ∈ out'.toList) ∧ ∀ x ∈ srvSeals a cid g l, x.dgram ∈ out'.toList.map (·.2)
  | [], g, g', out, out', h => by
    cases h
    exact ⟨fun _ hy => hy, fun x hx => by cases hx⟩
  | id :: rest, g, g', out, out', h => by
    obtain ⟨rs, ps, ns, out1, h1, h2, h3⟩ := GI.sendLoop_cons h
    obtain ⟨o2', h2'⟩ := sendClient_out_irrel a id ps _ _ _ _ #[] h2
    obtain ⟨m1, m2⟩ := serverSendClient_em a id ps _ _ _ _ h2
    obtain ⟨n1, n2⟩ := serverSendLoop_em a cid rest _ g' out1 out' h3
    refine ⟨fun y hy => n1 y (m1 y hy), ?_⟩
    intro x hx
    simp only [srvSeals, h1, h2'] at hx
    rcases List.mem_append.mp hx with hx | hx
    · split at hx
      · obtain ⟨y, hy, e⟩ := List.mem_map.mp (m2 x hx)
        exact List.mem_map.mpr ⟨y, n1 y hy, e⟩
      · cases hx
    · exact n2 x hx

/-- every ghost record's datagram is in the emission history of the side that made it -/
def Emitted (fs : FS) : Prop :=
  (∀ e ∈ fs.sealedC, e.dgram ∈ fs.emC.map (·.2)) ∧ (∀ e ∈ fs.sealedS, e.dgram ∈ fs.emS.map (·.2))

theorem step_emitted {a : AEAD} {cid : Nat} {fs fs' : FS} {op : FSOp} (h : Emitted fs)
    (hs : fs.step a cid op = some fs') : Emitted fs' := by
  cases op with
  | cliSendPackets =>
    simp only [FS.step] at hs
    split at hs
    · rename_i res g' out ho
      cases hs
      refine ⟨?_, h.2⟩
      intro e he
      simp only [List.map_append, List.mem_append]
      rcases List.mem_append.mp he with he | he
      · exact Or.inl (h.1 e he)
      · exact Or.inr (clientSendPackets_em ho e he)
    · cases hs
  | srvSendPackets =>
    simp only [FS.step] at hs
    split at hs
    · rename_i g' out ho
      cases hs
      refine ⟨h.1, ?_⟩
      intro e he
      simp only [List.map_append, List.mem_append]
      rcases List.mem_append.mp he with he | he
      · exact Or.inl (h.2 e he)
      · exact Or.inr ((serverSendLoop_em a cid _ _ _ _ _ ho).2 e he)
    · cases hs
  | cliSend ch m => simp only [FS.step] at hs; split at hs <;> cases hs; exact h
  | cliRecv ch => simp only [FS.step] at hs; split at hs <;> cases hs <;> exact h
  | cliTick dt => simp only [FS.step] at hs; split at hs <;> cases hs; exact h
  | cliDisconnect => simp only [FS.step, Option.some.injEq] at hs; subst hs; exact h
  | cliUpdate d inbox => simp only [FS.step] at hs; split at hs <;> cases hs; exact h
  | srvSend ch m => simp only [FS.step] at hs; split at hs <;> cases hs; exact h
  | srvRecv ch => simp only [FS.step] at hs; split at hs <;> cases hs <;> exact h
  | srvTick dt => simp only [FS.step] at hs; split at hs <;> cases hs; exact h
  | srvDisconnect => simp only [FS.step, Option.some.injEq] at hs; subst hs; exact h
  | srvUpdate d inbox => simp only [FS.step] at hs; split at hs <;> cases hs; exact h
  | cliTransportDisconnect => simp only [FS.step] at hs; split at hs <;> cases hs; exact h
  | srvDisconnectAll => simp only [FS.step] at hs; split at hs <;> cases hs; exact h

theorem run_emitted {a : AEAD} {cid : Nat} : ∀ (ops : List FSOp) (fs fs' : FS), Emitted fs →
    fs.run a cid ops = some fs' → Emitted fs'
  | [], fs, fs', h, hr => by simp only [FS.run, Option.some.injEq] at hr; subst hr; exact h
  | op :: ops, fs, fs', h, hr => by
    simp only [FS.run] at hr
    cases hs : fs.step a cid op with
    | none => rw [hs] at hr; cases hr
    | some fs1 => rw [hs] at hr; exact run_emitted ops fs1 fs' (step_emitted h hs) hr

theorem emitted_of_fresh {cfg : Cfg} {cid : Nat} {fs : FS} (h : RenetFresh cfg cid fs) : Emitted fs :=
  ⟨fun e he => (by rw [h.sealedC] at he; cases he), fun e he => (by rw [h.sealedS] at he; cases he)⟩


/-! ## Part 4 : the key-free formulation of `NoForgeryRun`

  `NoForgeryRun` names the key and protocol id the receiver opened a datagram with.  From an `Established` session —
  where the server's slot for `cid` mirrors the keys of the client's connect token — and under `SingleSessionRun`, the
  key part is an invariant of the run and the hypothesis can be stated on datagrams alone (`NoForgeryRunD`: whatever
  surfaces a payload for this session is a copy of a datagram the peer's `generate_payload_packet` returned earlier in
  this run).  The invariant: the client's connect token never changes; every slot of the server's netcode table that
  holds client id `cid` carries the token's keys; the server's protocol id is the token's; hence every ghost record
  was sealed under the token's key for its direction. -/

/-- the session's keys and protocol id (read off the client's connect token) -/
structure SessKeys where
  c2s : Bytes
  s2c : Bytes
  proto : Nat

/-- a slot holding `cid` carries the session keys -/
def KSlot (cid : Nat) (k : SessKeys) (o : Option Connection) : Prop :=
  ∀ c, o = some c → c.clientId = cid → c.receiveKey = k.c2s ∧ c.sendKey = k.s2c

/-- the server-side key invariant, on (slot table, protocol id) -/
def KI (cid : Nat) (k : SessKeys) (cl : List (Option Connection)) (proto : Nat) : Prop :=
  proto = k.proto ∧ ∀ o ∈ cl, KSlot cid k o

theorem KI.set_none {cid : Nat} {k : SessKeys} {cl : List (Option Connection)} {p : Nat} (h : KI cid k cl p) (i : Nat) :
    KI cid k (cl.set i none) p := by
  refine ⟨h.1, fun o ho => ?_⟩
  rcases List.mem_or_eq_of_mem_set ho with ho | rfl
  · exact h.2 o ho
  · intro c hc; cases hc

theorem KI.set_some {cid : Nat} {k : SessKeys} {cl : List (Option Connection)} {p : Nat} (h : KI cid k cl p) (i : Nat)
    {c : Connection} (hc : KSlot cid k (some c)) : KI cid k (cl.set i (some c)) p := by
  refine ⟨h.1, fun o ho => ?_⟩
  rcases List.mem_or_eq_of_mem_set ho with ho | rfl
  · exact h.2 o ho
  · exact hc

theorem KI.slot_like {cid : Nat} {k : SessKeys} {cl : List (Option Connection)} {p : Nat} (h : KI cid k cl p)
    {c c' : Connection} (hm : some c ∈ cl) (e1 : c'.clientId = c.clientId) (e2 : c'.receiveKey = c.receiveKey)
    (e3 : c'.sendKey = c.sendKey) : KSlot cid k (some c') := by
  intro x hx hid
  cases hx
  rw [e2, e3]
  exact h.2 _ hm c rfl (e1 ▸ hid)

/-- the result does not re-open session `cid` -/
def NotReopen (cid : Nat) : ServerResult → Prop
  | .clientConnected id _ _ _ => id ≠ cid
  | _ => True

def KPost (cid : Nat) (k : SessKeys) : NetcodeServer.SRes → Prop
  | .ok (r, s') => NotReopen cid r → KI cid k s'.clients s'.protocolId
  | .err (_, s') => KI cid k s'.clients s'.protocolId
  | .panic _ => True

theorem kpost_bind {cid : Nat} {k : SessKeys} {α : Type} {x : Res (NetcodeError × NetcodeServer) α}
    {f : α → NetcodeServer.SRes}
    (hx : ∀ e s', x = .err (e, s') → KI cid k s'.clients s'.protocolId) (hf : ∀ v, x = .ok v → KPost cid k (f v)) :
    KPost cid k (x >>= f) := by
  cases x with
  | ok v => exact hf v rfl
  | err e => obtain ⟨e, s'⟩ := e; exact hx e s' rfl
  | panic m => trivial

theorem findOrAdd_proto (s : NetcodeServer) (e : ConnectTokenEntry) :
    (s.findOrAddConnectTokenEntry e).1.protocolId = s.protocolId := by
  unfold NetcodeServer.findOrAddConnectTokenEntry
  extract_lets st
  split <;> rfl

theorem kpost_hcr {cid : Nat} {k : SessKeys} (a : AEAD) (s : NetcodeServer) (hk : KI cid k s.clients s.protocolId)
    (addr : Addr) (vi : Bytes) (pid ex : Nat) (xn d : Bytes) :
    KPost cid k (NetcodeServer.handleConnectionRequest a s addr vi pid ex xn d) := by
  unfold NetcodeServer.handleConnectionRequest
  split
  · exact hk
  split
  · exact hk
  split
  · exact hk
  split
  · trivial
  · exact hk
  rename_i tok htok
  extract_lets inHost ac ic mac
  split
  · exact hk
  split
  · exact fun _ => hk
  split
  · exact fun _ => hk
  split
  rename_i s1 added hfa
  have hk1 : KI cid k s1.clients s1.protocolId := by
    have e1 := GI.findOrAdd_clients s { address := addr, time := s.currentTime, mac := mac }
    have e2 := findOrAdd_proto s { address := addr, time := s.currentTime, mac := mac }
    rw [hfa] at e1 e2
    show KI cid k s1.clients s1.protocolId
    rw [e1, e2]; exact hk
  split
  · exact fun _ => hk1
  split
  · extract_lets s2
    refine kpost_bind (fun e s' he => ?_) (fun out _ => ?_)
    · rw [GI.lift_err he]; exact hk1
    · refine kpost_bind (fun e s' he => absurd he GI.incU64_not_err) (fun g _ => ?_)
      exact fun _ => hk1
  · refine kpost_bind (fun e s' he => absurd he GI.incU64_not_err) (fun cs _ => ?_)
    extract_lets s2
    refine kpost_bind (fun e s' he => ?_) (fun pk _ => ?_)
    · rw [GI.lift_err he]; exact hk1
    refine kpost_bind (fun e s' he => ?_) (fun out _ => ?_)
    · rw [GI.lift_err he]; exact hk1
    refine kpost_bind (fun e s' he => absurd he GI.incU64_not_err) (fun g _ => ?_)
    exact fun _ => hk1

theorem kpost_ppi {cid : Nat} {k : SessKeys} (a : AEAD) (s : NetcodeServer) (hk : KI cid k s.clients s.protocolId)
    (addr : Addr) (buf : Bytes) : KPost cid k (NetcodeServer.processPacketInternal a s addr buf) := by
  unfold NetcodeServer.processPacketInternal
  split
  · exact hk
  split
  · -- datagram from the address of a connected client
    rename_i slot client hfa
    have hat := GI.findAddr_some hfa
    have hmem : some client ∈ s.clients := List.mem_of_getElem? hat
    split
    rename_i r rp hdec
    extract_lets client1 s1 client2
    have hk1 : KI cid k s1.clients s1.protocolId := hk.set_some slot (hk.slot_like hmem rfl rfl rfl)
    have hk0 : KI cid k (s1.clients.set slot none) s1.protocolId := hk1.set_none slot
    have hk2 : KI cid k (s1.clients.set slot (some client2)) s1.protocolId :=
      hk1.set_some slot (hk.slot_like hmem rfl rfl rfl)
    split
    · trivial
    · exact hk1
    · split
      · split
        · exact fun _ => hk0
        · exact fun _ => hk2
        · exact fun _ => hk2
        · exact fun _ => hk1
      · exact fun _ => hk1
  split
  · -- datagram from the address of a pending client
    rename_i pending hpf
    split
    rename_i r rp hdec
    extract_lets pending1 s1 pending2 s2 s3
    split
    · trivial
    · exact hk
    · split
      · exact kpost_hcr a s2 hk _ _ _ _ _ _
      · refine kpost_bind (fun e s' he => ?_) (fun ct _ => ?_)
        · rw [GI.lift_err he]; exact hk
        split
        · exact fun _ => hk
        split
        · exact fun _ => hk
        split
        · refine kpost_bind (fun e s' he => ?_) (fun out _ => ?_)
          · rw [GI.lift_err he]; exact hk
          refine kpost_bind (fun e s' he => absurd he GI.incU64_not_err) (fun g _ => ?_)
          exact fun _ => hk
        · rename_i clientIndex hff
          extract_lets pending3 packet
          refine kpost_bind (fun e s' he => ?_) (fun out _ => ?_)
          · rw [GI.lift_err he]; exact hk
          refine kpost_bind (fun e s' he => absurd he GI.incU64_not_err) (fun sq _ => ?_)
          extract_lets pending4
          intro hne
          refine KI.set_some (cid := cid) (k := k) hk clientIndex ?_
          intro c hc hid
          cases hc
          exact absurd hid hne
      · exact fun _ => hk
  · -- datagram from an unknown address
    split
    rename_i r rp hdec
    split
    · trivial
    · exact hk
    · split
      · exact kpost_hcr a s hk _ _ _ _ _ _
      · trivial

theorem ki_processPacket {cid : Nat} {k : SessKeys} {a : AEAD} {s s' : NetcodeServer} {addr : Addr} {buf : Bytes}
    {r : ServerResult} (hk : KI cid k s.clients s.protocolId) (h : s.processPacket a addr buf = .ok (r, s'))
    (hr : NotReopen cid r) : KI cid k s'.clients s'.protocolId := by
  have hp := kpost_ppi (cid := cid) (k := k) a s hk addr buf
  unfold NetcodeServer.processPacket at h
  cases hx : NetcodeServer.processPacketInternal a s addr buf with
  | ok v =>
    rw [hx] at h hp
    simp only [Res.ok.injEq] at h
    subst h
    exact hp hr
  | err e =>
    obtain ⟨e, s1⟩ := e
    rw [hx] at h hp
    simp only [Res.ok.injEq, Prod.mk.injEq] at h
    obtain ⟨h1, h2⟩ := h
    subst h1; subst h2
    exact hp
  | panic m => rw [hx] at h; cases h


theorem ki_update {cid : Nat} {k : SessKeys} {s s' : NetcodeServer} {d : Nat} (hk : KI cid k s.clients s.protocolId)
    (h : s.update d = .ok s') : KI cid k s'.clients s'.protocolId := by
  unfold NetcodeServer.update at h
  obtain ⟨now, -, h⟩ := CI.bind_ok_cases h
  cases h
  exact hk

def KPostE (cid : Nat) (k : SessKeys) : Res Empty (ServerResult × NetcodeServer) → Prop
  | .ok (_, s') => KI cid k s'.clients s'.protocolId
  | _ => True

theorem kpostE_bind {cid : Nat} {k : SessKeys} {α : Type} {x : Res Empty α}
    {f : α → Res Empty (ServerResult × NetcodeServer)} (hf : ∀ v, x = .ok v → KPostE cid k (f v)) :
    KPostE cid k (x >>= f) := by
  cases x with
  | ok v => exact hf v rfl
  | err e => exact e.elim
  | panic m => trivial

theorem kpostE_updateClient {cid : Nat} {k : SessKeys} (a : AEAD) (s : NetcodeServer)
    (hk : KI cid k s.clients s.protocolId) (id : Nat) : KPostE cid k (s.updateClient a id) := by
  unfold NetcodeServer.updateClient
  split
  · exact hk
  rename_i slot hslot
  split
  · exact hk
  rename_i client hget
  have hmem : some client ∈ s.clients := List.mem_of_getElem? (GI.getD_eq hget)
  refine kpostE_bind (fun timedOut _ => ?_)
  extract_lets client1 s1 packet
  split
  · split
    · trivial
    · exact hk.set_none slot
    · exact hk.set_none slot
  · generalize (durAdd client1.lastPacketSendTime C.NETCODE_SEND_RATE_NS "server.rs update_client: last_packet_send_time + SEND_RATE" : Res Empty Nat) = x
    apply kpostE_bind
    intro due _
    split
    · split
      · trivial
      · exact hk
      · refine kpostE_bind (fun sq _ => ?_)
        extract_lets client2
        refine hk.set_some slot ?_
        have e1 : client1.clientId = client.clientId := by
          show (if timedOut = true then _ else _ : Connection).clientId = _
          split <;> rfl
        have e2 : client1.receiveKey = client.receiveKey := by
          show (if timedOut = true then _ else _ : Connection).receiveKey = _
          split <;> rfl
        have e3 : client1.sendKey = client.sendKey := by
          show (if timedOut = true then _ else _ : Connection).sendKey = _
          split <;> rfl
        exact hk.slot_like hmem e1 e2 e3
    · exact hk

theorem ki_updateClient {cid : Nat} {k : SessKeys} {a : AEAD} {s s' : NetcodeServer} {id : Nat} {r : ServerResult}
    (hk : KI cid k s.clients s.protocolId) (h : s.updateClient a id = .ok (r, s')) :
    KI cid k s'.clients s'.protocolId := by
  have hp := kpostE_updateClient (cid := cid) (k := k) a s hk id
  rw [h] at hp
  exact hp

theorem ki_disconnect {cid : Nat} {k : SessKeys} {a : AEAD} {s s' : NetcodeServer} {id : Nat} {r : ServerResult}
    (hk : KI cid k s.clients s.protocolId) (h : s.disconnect a id = .ok (r, s')) :
    KI cid k s'.clients s'.protocolId := by
  unfold NetcodeServer.disconnect at h
  split at h
  · cases h; exact hk
  · split at h
    · cases h
    · dsimp only at h
      split at h
      · cases h
      · cases h; exact hk.set_none _
      · cases h; exact hk.set_none _

theorem ki_generatePayloadPacket {cid : Nat} {k : SessKeys} {a : AEAD} {s s' : NetcodeServer} {id : Nat} {pl : Bytes}
    {dg : Addr × Bytes} (hk : KI cid k s.clients s.protocolId) (h : s.generatePayloadPacket a id pl = .ok (dg, s')) :
    KI cid k s'.clients s'.protocolId := by
  unfold NetcodeServer.generatePayloadPacket at h
  split at h
  · cases h
  · split at h
    · rename_i slot client hslot hcl
      have hmem : some client ∈ s.clients := List.mem_of_getElem? (GI.getD_eq (NcAead.Sv.byId_consistent hslot hcl))
      rw [NcAead.Res.bind_eq_ok] at h
      obtain ⟨out', -, h⟩ := h
      rw [NcAead.Res.bind_eq_ok] at h
      obtain ⟨sq, -, h⟩ := h
      cases h
      exact hk.set_some slot (hk.slot_like hmem rfl rfl rfl)
    · cases h


/-! #### the server glue keeps the key invariant -/

theorem handleLoop_ki {cid : Nat} {k : SessKeys} {α : Type}
    (f : NetcodeServer → α → Res Empty (ServerResult × NetcodeServer)) (OK : NetcodeServer → List α → Prop)
    (hstep : ∀ ns x rest r ns', OK ns (x :: rest) → KI cid k ns.clients ns.protocolId → f ns x = .ok (r, ns') →
      KI cid k ns'.clients ns'.protocolId ∧ OK ns' rest) :
    ∀ (l : List α) (g g' : ServerGlue) (out out' : Array Dgram), GI.handleLoop f g l out = .ok (g', out') →
    OK g.netcode l → KI cid k g.netcode.clients g.netcode.protocolId → KI cid k g'.netcode.clients g'.netcode.protocolId
  | [], g, g', out, out', h, _, hk => by cases h; exact hk
  | x :: rest, g, g', out, out', h, hok, hk => by
    obtain ⟨r, ns, rs, out1, h1, h2, h3⟩ := GI.handleLoop_cons h
    obtain ⟨hk1, hok1⟩ := hstep _ _ _ _ _ hok hk h1
    exact handleLoop_ki f OK hstep rest _ g' out1 out' h3 hok1 hk1

theorem srvResSS_notReopen {cid : Nat} {r : ServerResult} (h : srvResSS cid r = true) : NotReopen cid r := by
  cases r with
  | clientConnected id addr ud p =>
    show id ≠ cid
    exact of_decide_eq_true h
  | none => trivial
  | packetToSend addr p => trivial
  | payload id p => trivial
  | clientDisconnected id addr p => trivial

theorem serverUpdate_ki {a : AEAD} {cid : Nat} {k : SessKeys} {g g' : ServerGlue} {dt : Nat} {inbox : List Dgram}
    {out : Array Dgram} (h : serverUpdate a g dt inbox = .ok (g', out))
    (hss : (match g.netcode.update dt with
      | .ok ns0 => srvInboxSS a cid ns0 inbox
      | _ => true) = true)
    (hk : KI cid k g.netcode.clients g.netcode.protocolId) : KI cid k g'.netcode.clients g'.netcode.protocolId := by
  obtain ⟨ns0, g1, out1, g2, out2, h0, l1, l2, l3⟩ := GI.serverUpdate_unfold h
  rw [h0] at hss
  simp only at hss
  have hk0 := ki_update hk h0
  have hk1 := handleLoop_ki (cid := cid) (k := k) (GI.ppF a) (fun ns l => srvInboxSS a cid ns l = true)
    (by
      intro ns x rest r ns' hok hkk hx
      obtain ⟨addr, buf⟩ := x
      have hx' : ns.processPacket a addr buf = .ok (r, ns') := hx
      simp only [srvInboxSS] at hok
      rw [hx'] at hok
      simp only [Bool.and_eq_true] at hok
      exact ⟨ki_processPacket hkk hx' (srvResSS_notReopen hok.1), hok.2⟩)
    inbox _ g1 _ out1 l1 hss hk0
  have hk2 := handleLoop_ki (cid := cid) (k := k) (GI.ucF a) (fun _ _ => True)
    (fun ns x rest r ns' _ hkk hx => ⟨ki_updateClient hkk hx, trivial⟩) _ g1 g2 out1 out2 l2 trivial hk1
  exact handleLoop_ki (cid := cid) (k := k) (GI.dcF a) (fun _ _ => True)
    (fun ns x rest r ns' _ hkk hx => ⟨ki_disconnect hkk hx, trivial⟩) _ g2 g' out2 out l3 trivial hk2

theorem serverDisconnectAll_ki {a : AEAD} {cid : Nat} {k : SessKeys} {g g' : ServerGlue} {out : Array Dgram}
    (h : serverDisconnectAll a g = .ok (g', out)) (hk : KI cid k g.netcode.clients g.netcode.protocolId) :
    KI cid k g'.netcode.clients g'.netcode.protocolId := by
  unfold serverDisconnectAll at h
  rw [GI.idLoop_eq] at h
  exact handleLoop_ki (cid := cid) (k := k) (GI.dcF a) (fun _ _ => True)
    (fun ns x rest r ns' _ hkk hx => ⟨ki_disconnect hkk hx, trivial⟩) _ g g' _ out h trivial hk

theorem findById_mem : ∀ {cl : List (Option Connection)} {id : Nat} {c : Connection}, findClientById cl id = some c →
    some c ∈ cl
  | [], _, _, h => by cases h
  | none :: rest, id, c, h => by
    simp only [findClientById] at h
    exact List.mem_cons_of_mem _ (findById_mem h)
  | some c0 :: rest, id, c, h => by
    simp only [findClientById] at h
    split at h
    · cases h; exact List.mem_cons_self
    · exact List.mem_cons_of_mem _ (findById_mem h)

/-- the records of the server's seal loop for `cid` carry the session's server-to-client key and protocol id, and the
    loop keeps the invariant -/
theorem sealsS_keys {a : AEAD} {cid : Nat} {k : SessKeys} : ∀ (ps : List Bytes) (ns : NetcodeServer),
    KI cid k ns.clients ns.protocolId → ∀ e ∈ sealsS a cid ns ps, e.key = k.s2c ∧ e.proto = k.proto
  | [], _, _, e, he => by cases he
  | p :: rest, ns, hk, e, he => by
    simp only [sealsS] at he
    cases hg : ns.generatePayloadPacket a cid p with
    | panic m => rw [hg] at he; cases he
    | err e' => rw [hg] at he; cases he
    | ok v =>
      obtain ⟨⟨addr, d⟩, ns1⟩ := v
      rw [hg] at he
      dsimp only at he
      rcases List.mem_cons.mp he with rfl | he
      · obtain ⟨cl, hcl, -, -⟩ := srvGen_spec hg
        simp only [hcl, Option.map_some, Option.getD_some]
        exact ⟨(hk.2 _ (findById_mem hcl) cl rfl (GI.findById_some hcl)).2, hk.1⟩
      · exact sealsS_keys rest ns1 (ki_generatePayloadPacket hk hg) e he

theorem serverSendClient_ki {a : AEAD} {cid : Nat} {k : SessKeys} (id : Nat) : ∀ (ps : List Bytes) (ns ns' : NetcodeServer)
    (out out' : Array Dgram), serverSendClient a ns id ps out = .ok (ns', out') → KI cid k ns.clients ns.protocolId →
    KI cid k ns'.clients ns'.protocolId
  | [], ns, ns', out, out', h, hk => by cases h; exact hk
  | p :: rest, ns, ns', out, out', h, hk => by
    simp only [serverSendClient] at h
    cases hg : ns.generatePayloadPacket a id p with
    | panic m => rw [hg] at h; cases h
    | err e' => rw [hg] at h; cases h; exact hk
    | ok v =>
      obtain ⟨⟨addr, d⟩, ns1⟩ := v
      rw [hg] at h
      dsimp only at h
      exact serverSendClient_ki id rest ns1 ns' _ out' h (ki_generatePayloadPacket hk hg)

theorem serverSendLoop_ki {a : AEAD} {cid : Nat} {k : SessKeys} : ∀ (l : List Nat) (g g' : ServerGlue)
    (out out' : Array Dgram), serverSendLoop a g l out = .ok (g', out') → KI cid k g.netcode.clients g.netcode.protocolId →
    KI cid k g'.netcode.clients g'.netcode.protocolId ∧ ∀ e ∈ srvSeals a cid g l, e.key = k.s2c ∧ e.proto = k.proto
  | [], g, g', out, out', h, hk => by
    cases h
    exact ⟨hk, fun e he => by cases he⟩
  | id :: rest, g, g', out, out', h, hk => by
    obtain ⟨rs, ps, ns, out1, h1, h2, h3⟩ := GI.sendLoop_cons h
    obtain ⟨o2', h2'⟩ := sendClient_out_irrel a id ps _ _ _ _ #[] h2
    have hk1 := serverSendClient_ki (cid := cid) (k := k) id ps _ _ _ _ h2 hk
    obtain ⟨hk2, hrec⟩ := serverSendLoop_ki rest _ g' out1 out' h3 hk1
    refine ⟨hk2, ?_⟩
    intro e he
    simp only [srvSeals, h1, h2'] at he
    rcases List.mem_append.mp he with he1 | he1
    · by_cases e' : id = cid
      · rw [if_pos e'] at he1
        subst e'
        exact sealsS_keys ps g.netcode hk e he1
      · rw [if_neg e'] at he1
        cases he1
    · exact hrec e he1

/-! #### the client glue keeps its connect token -/

theorem tok_update {a : AEAD} {c c' : NetcodeClient} {d : Nat} {o : Option (Bytes × Addr)}
    (h : NetcodeClient.update a c d = .ok (o, c')) : c'.connectToken = c.connectToken := by
  obtain ⟨e, c1, h1, h2⟩ := NcAead.Cl.update_eq h
  have t1 := (NcAead.Cl.uis_spec h1).1
  rcases h2 with ⟨-, -, rfl⟩ | ⟨-, h2⟩
  · exact t1
  · rw [(NcAead.Cl.gen_spec h2).1, t1]

theorem clientRecvLoop_tok (a : AEAD) : ∀ (l : List Dgram) (g g' : ClientGlue), clientRecvLoop a g l = .ok g' →
    g'.netcode.connectToken = g.netcode.connectToken
  | [], g, g', h => by cases h; rfl
  | (addr, buf) :: rest, g, g', h => by
    simp only [clientRecvLoop] at h
    split at h
    · exact clientRecvLoop_tok a rest g g' h
    · obtain ⟨⟨p, nc⟩, h1, h2⟩ := CI.bind_ok_cases h
      have t1 := (NcAead.Cl.recv_spec h1).1
      cases p with
      | none =>
        simp only at h2
        rw [clientRecvLoop_tok a rest _ g' h2]; exact t1
      | some p =>
        simp only at h2
        obtain ⟨rc, h3, h4⟩ := CI.bind_ok_cases h2
        rw [clientRecvLoop_tok a rest _ g' h4]; exact t1

theorem clientUpdate_tok {a : AEAD} {g : ClientGlue} {dt : Nat} {inbox : List Dgram} {o : ClientOut}
    (h : clientUpdate a g dt inbox = .ok o) : o.g.netcode.connectToken = g.netcode.connectToken := by
  cases hn : g.netcode.disconnectReason with
  | some reason =>
    rw [GI.clientUpdate_netcode_disconnected hn] at h
    cases h; rfl
  | none =>
    cases hr : g.renet.disconnectReason with
    | some error =>
      rw [GI.clientUpdate_renet_disconnected hn hr] at h
      split at h
      · cases h
      · cases h; rfl
      · cases h; rfl
    | none =>
      rw [GI.clientUpdate_alive hn hr] at h
      obtain ⟨g1, h1, h2⟩ := CI.bind_ok_cases h
      obtain ⟨⟨o', nc⟩, h3, h4⟩ := CI.bind_ok_cases h2
      have t1 := clientRecvLoop_tok a inbox _ g1 h1
      have t2 := tok_update h3
      cases o' with
      | none => cases h4; exact t2.trans t1
      | some v => obtain ⟨pkt, addr⟩ := v; cases h4; exact t2.trans t1

theorem clientSendLoop_tok (a : AEAD) : ∀ (ps : List Bytes) (nc nc' : NetcodeClient) (out out' : Array Dgram)
    (e : Option NetcodeError), clientSendLoop a nc ps out = .ok (e, nc', out') →
    nc'.connectToken = nc.connectToken ∧
    ∀ x ∈ sealsC a nc ps, x.key = nc.connectToken.clientToServerKey ∧ x.proto = nc.connectToken.protocolId
  | [], nc, nc', out, out', e, h => by
    cases h
    exact ⟨rfl, fun x hx => by cases hx⟩
  | p :: rest, nc, nc', out, out', e, h => by
    simp only [clientSendLoop] at h
    simp only [sealsC]
    cases hg : nc.generatePayloadPacket a p with
    | panic m => rw [hg] at h; cases h
    | err e' =>
      rw [hg] at h
      cases h
      exact ⟨rfl, fun x hx => by cases hx⟩
    | ok v =>
      obtain ⟨⟨addr, d⟩, nc1⟩ := v
      rw [hg] at h
      dsimp only at h ⊢
      have t1 := (NcAead.Cl.payload_spec hg).2.1
      obtain ⟨t2, hrec⟩ := clientSendLoop_tok a rest nc1 nc' _ out' e h
      refine ⟨t2.trans t1, ?_⟩
      intro x hx
      rcases List.mem_cons.mp hx with rfl | hx
      · exact ⟨rfl, rfl⟩
      · rw [← t1]; exact hrec x hx

theorem clientSendPackets_tok {a : AEAD} {g g' : ClientGlue} {res : Except TransportError Unit} {out : Array Dgram}
    (h : clientSendPackets a g = .ok (res, g', out)) :
    g'.netcode.connectToken = g.netcode.connectToken ∧
    ∀ x ∈ cliSeals a g, x.key = g.netcode.connectToken.clientToServerKey ∧ x.proto = g.netcode.connectToken.protocolId := by
  unfold clientSendPackets at h
  unfold cliSeals
  cases hn : g.netcode.disconnectReason with
  | some r =>
    rw [hn] at h
    cases h
    exact ⟨rfl, fun x hx => by cases hx⟩
  | none =>
    rw [hn] at h
    dsimp only at h ⊢
    obtain ⟨⟨rc, packets⟩, h1, h2⟩ := CI.bind_ok_cases h
    obtain ⟨⟨e, nc, out1⟩, h3, h4⟩ := CI.bind_ok_cases h2
    rw [h1]
    dsimp only
    have := clientSendLoop_tok a packets _ _ _ _ _ h3
    cases e with
    | none => cases h4; exact this
    | some e => cases h4; exact this

theorem clientDisconnect_tok {a : AEAD} {g g' : ClientGlue} {out : Array Dgram}
    (h : clientDisconnect a g = .ok (g', out)) : g'.netcode.connectToken = g.netcode.connectToken := by
  rw [GI.clientDisconnect_spec] at h
  split at h
  · cases h; rfl
  · split at h
    · cases h
    · cases h; rfl
    · cases h; rfl


/-! #### the key invariant along a run, and `NoForgeryRunD` -/

def keysOf (t : ConnectToken) : SessKeys := ⟨t.clientToServerKey, t.serverToClientKey, t.protocolId⟩

/-- the client still holds connect token `tok`; every server slot for `cid` carries its keys, the server's protocol
    id is the token's; every ghost record was sealed under the token's key for its direction -/
structure KeyInv (cid : Nat) (tok : ConnectToken) (fs : FS) : Prop where
  tokC : fs.c.netcode.connectToken = tok
  srv : KI cid (keysOf tok) fs.s.netcode.clients fs.s.netcode.protocolId
  recC : ∀ e ∈ fs.sealedC, e.key = tok.clientToServerKey ∧ e.proto = tok.protocolId
  recS : ∀ e ∈ fs.sealedS, e.key = tok.serverToClientKey ∧ e.proto = tok.protocolId

theorem keyInv_of_established {cfg : Cfg} {cid : Nat} {fs : FS} (h : Established cfg cid fs) :
    KeyInv cid fs.c.netcode.connectToken fs :=
  ⟨rfl, ⟨h.proto, fun o ho c e hid => h.slotKeys o ho c e hid⟩,
    fun e he => (by rw [h.sealedC] at he; cases he), fun e he => (by rw [h.sealedS] at he; cases he)⟩

theorem step_keyInv {a : AEAD} {cid : Nat} {tok : ConnectToken} {fs fs' : FS} {op : FSOp} (h : KeyInv cid tok fs)
    (hss : opSS a cid fs op = true) (hs : fs.step a cid op = some fs') : KeyInv cid tok fs' := by
  cases op with
  | cliSend ch m => simp only [FS.step] at hs; split at hs <;> cases hs; exact ⟨h.tokC, h.srv, h.recC, h.recS⟩
  | cliRecv ch => simp only [FS.step] at hs; split at hs <;> cases hs <;> exact ⟨h.tokC, h.srv, h.recC, h.recS⟩
  | cliTick dt => simp only [FS.step] at hs; split at hs <;> cases hs; exact ⟨h.tokC, h.srv, h.recC, h.recS⟩
  | cliDisconnect => simp only [FS.step, Option.some.injEq] at hs; subst hs; exact ⟨h.tokC, h.srv, h.recC, h.recS⟩
  | srvSend ch m => simp only [FS.step] at hs; split at hs <;> cases hs; exact ⟨h.tokC, h.srv, h.recC, h.recS⟩
  | srvRecv ch => simp only [FS.step] at hs; split at hs <;> cases hs <;> exact ⟨h.tokC, h.srv, h.recC, h.recS⟩
  | srvTick dt => simp only [FS.step] at hs; split at hs <;> cases hs; exact ⟨h.tokC, h.srv, h.recC, h.recS⟩
  | srvDisconnect => simp only [FS.step, Option.some.injEq] at hs; subst hs; exact ⟨h.tokC, h.srv, h.recC, h.recS⟩
  | cliUpdate d inbox =>
    simp only [FS.step] at hs
    split at hs
    · rename_i o ho
      cases hs
      exact ⟨(clientUpdate_tok ho).trans h.tokC, h.srv, h.recC, h.recS⟩
    · cases hs
  | cliTransportDisconnect =>
    simp only [FS.step] at hs
    split at hs
    · rename_i g' out ho
      cases hs
      exact ⟨(clientDisconnect_tok ho).trans h.tokC, h.srv, h.recC, h.recS⟩
    · cases hs
  | cliSendPackets =>
    simp only [FS.step] at hs
    split at hs
    · rename_i res g' out ho
      cases hs
      obtain ⟨t1, hrec⟩ := clientSendPackets_tok ho
      refine ⟨t1.trans h.tokC, h.srv, ?_, h.recS⟩
      intro e he
      rcases List.mem_append.mp he with he | he
      · exact h.recC e he
      · have := hrec e he
        rw [h.tokC] at this
        exact this
    · cases hs
  | srvUpdate d inbox =>
    simp only [FS.step] at hs
    split at hs
    · rename_i g' out ho
      cases hs
      simp only [opSS] at hss
      exact ⟨h.tokC, serverUpdate_ki ho hss h.srv, h.recC, h.recS⟩
    · cases hs
  | srvDisconnectAll =>
    simp only [FS.step] at hs
    split at hs
    · rename_i g' out ho
      cases hs
      exact ⟨h.tokC, serverDisconnectAll_ki ho h.srv, h.recC, h.recS⟩
    · cases hs
  | srvSendPackets =>
    simp only [FS.step] at hs
    split at hs
    · rename_i g' out ho
      cases hs
      obtain ⟨hk', hrec⟩ := serverSendLoop_ki (cid := cid) (k := keysOf tok) _ _ _ _ _ ho h.srv
      refine ⟨h.tokC, hk', h.recC, ?_⟩
      intro e he
      rcases List.mem_append.mp he with he | he
      · exact h.recS e he
      · exact hrec e he
    · cases hs

/-- the datagram-only test: some ghost record has this datagram -/
def srvResNFD (cid : Nat) (L : List Sealed) (buf : Bytes) : ServerResult → Bool
  | .payload id _ => if id = cid then L.any (fun e => e.dgram == buf) else true
  | _ => true

def srvInboxNFD (a : AEAD) (cid : Nat) (L : List Sealed) : NetcodeServer → List Dgram → Bool
  | _, [] => true
  | ns, (addr, buf) :: rest =>
    match ns.processPacket a addr buf with
    | .ok (r, ns') => srvResNFD cid L buf r && srvInboxNFD a cid L ns' rest
    | _ => true

def cliInboxNFD (a : AEAD) (L : List Sealed) : NetcodeClient → List Dgram → Bool
  | _, [] => true
  | nc, (addr, buf) :: rest =>
    if addr ≠ nc.serverAddr then cliInboxNFD a L nc rest else
    match nc.processPacket a buf with
    | .ok (some _, nc') => L.any (fun e => e.dgram == buf) && cliInboxNFD a L nc' rest
    | .ok (none, nc') => cliInboxNFD a L nc' rest
    | _ => true

def opNFD (a : AEAD) (cid : Nat) (fs : FS) : FSOp → Bool
  | .srvUpdate d inbox =>
    match fs.s.netcode.update d with
    | .ok ns0 => srvInboxNFD a cid fs.sealedC ns0 inbox
    | _ => true
  | .cliUpdate _ inbox =>
    match fs.c.netcode.disconnectReason, fs.c.renet.disconnectReason with
    | none, none => cliInboxNFD a fs.sealedS fs.c.netcode inbox
    | _, _ => true
  | _ => true

def runNFD (a : AEAD) (cid : Nat) (fs : FS) : List FSOp → Bool
  | [] => true
  | op :: ops =>
    opNFD a cid fs op &&
    match fs.step a cid op with
    | some fs' => runNFD a cid fs' ops
    | none => true

theorem runNFD_prefix (a : AEAD) (cid : Nat) : ∀ (l1 l2 : List FSOp) (fs : FS),
    runNFD a cid fs (l1 ++ l2) = true → runNFD a cid fs l1 = true
  | [], _, _, _ => rfl
  | op :: l1, l2, fs, h => by
    simp only [List.cons_append, runNFD, Bool.and_eq_true] at h ⊢
    refine ⟨h.1, ?_⟩
    cases hs : fs.step a cid op with
    | none => rfl
    | some fs' => rw [hs] at h; exact runNFD_prefix a cid l1 l2 fs' h.2

/-- **`NoForgeryRunD`** (datagram level): whenever, in this run, `NetcodeServer::process_packet` surfaces
    `Payload{client_id = cid}` or the client's `NetcodeClient::process_packet` surfaces a payload, the datagram it was
    given is byte-identical to one the PEER's `generate_payload_packet` returned earlier in this run (for this session). -/
def NoForgeryRunD (a : AEAD) (cid : Nat) (fs : FS) (ops : List FSOp) : Prop := runNFD a cid fs ops = true

instance (a : AEAD) (cid : Nat) (fs : FS) (ops : List FSOp) : Decidable (NoForgeryRunD a cid fs ops) :=
  inferInstanceAs (Decidable (_ = true))

theorem any_dgram {L : List Sealed} {buf : Bytes} (h : L.any (fun e => e.dgram == buf) = true) :
    ∃ e ∈ L, e.dgram = buf := by
  obtain ⟨e, he, hb⟩ := List.any_eq_true.mp h
  exact ⟨e, he, by simpa using hb⟩

theorem srvInboxNF_of_D {a : AEAD} {cid : Nat} {k : SessKeys} {L : List Sealed}
    (hL : ∀ e ∈ L, e.key = k.c2s ∧ e.proto = k.proto) : ∀ (inbox : List Dgram) (ns : NetcodeServer),
    KI cid k ns.clients ns.protocolId → srvInboxSS a cid ns inbox = true → srvInboxNFD a cid L ns inbox = true →
    srvInboxNF a cid L ns inbox = true
  | [], _, _, _, _ => rfl
  | (addr, buf) :: rest, ns, hk, hss, hd => by
    simp only [srvInboxSS] at hss
    simp only [srvInboxNFD] at hd
    simp only [srvInboxNF]
    cases hx : ns.processPacket a addr buf with
    | panic m => rfl
    | err e => exact e.elim
    | ok v =>
      obtain ⟨r, ns'⟩ := v
      rw [hx] at hss hd
      simp only [Bool.and_eq_true] at hss hd ⊢
      refine ⟨?_, srvInboxNF_of_D hL rest ns' (ki_processPacket hk hx (srvResSS_notReopen hss.1)) hss.2 hd.2⟩
      cases r with
      | payload id p =>
        simp only [srvResNF]
        split
        · rename_i e
          obtain ⟨slot, client, sq, rp, hf, hid, -, -⟩ := GI.processPacket_auth hx
          rw [hf]
          have hres := hd.1
          simp only [srvResNFD, if_pos e] at hres
          obtain ⟨x, hxL, hxb⟩ := any_dgram hres
          have hmem : some client ∈ ns.clients := List.mem_of_getElem? (GI.findAddr_some hf)
          have hkeys := hk.2 _ hmem client rfl (hid.trans e)
          exact hasRec_iff.mpr ⟨x, hxL, hxb, by rw [(hL x hxL).1, hkeys.1], by rw [(hL x hxL).2, hk.1]⟩
        · rfl
      | none => rfl
      | packetToSend addr' p => rfl
      | clientConnected id addr' ud p => rfl
      | clientDisconnected id addr' p => rfl

theorem cliInboxOK_of_D {a : AEAD} {tok : ConnectToken} {L : List Sealed}
    (hL : ∀ e ∈ L, e.key = tok.serverToClientKey ∧ e.proto = tok.protocolId) : ∀ (inbox : List Dgram) (nc : NetcodeClient),
    nc.connectToken = tok → cliInboxNFD a L nc inbox = true → cliInboxOK a L nc inbox = true
  | [], _, _, _ => rfl
  | (addr, buf) :: rest, nc, ht, hd => by
    simp only [cliInboxNFD] at hd
    simp only [cliInboxOK]
    split
    · rename_i hne
      rw [if_pos hne] at hd
      exact cliInboxOK_of_D hL rest nc ht hd
    · rename_i hne
      rw [if_neg hne] at hd
      cases hx : nc.processPacket a buf with
      | panic m => rfl
      | err e => exact e.elim
      | ok v =>
        obtain ⟨p, nc'⟩ := v
        rw [hx] at hd
        have ht' : nc'.connectToken = tok := (NcAead.Cl.recv_spec hx).1.trans ht
        cases p with
        | none => exact cliInboxOK_of_D hL rest nc' ht' hd
        | some p =>
          simp only [Bool.and_eq_true] at hd ⊢
          obtain ⟨x, hxL, hxb⟩ := any_dgram hd.1
          exact ⟨hasRec_iff.mpr ⟨x, hxL, hxb, by rw [(hL x hxL).1, ht], by rw [(hL x hxL).2, ht]⟩,
            cliInboxOK_of_D hL rest nc' ht' hd.2⟩

theorem opNF_of_D {a : AEAD} {cid : Nat} {tok : ConnectToken} {fs : FS} {op : FSOp} (h : KeyInv cid tok fs)
    (hss : opSS a cid fs op = true) (hd : opNFD a cid fs op = true) : opNF a cid fs op = true := by
  cases op with
  | srvUpdate d inbox =>
    simp only [opSS] at hss
    simp only [opNFD] at hd
    simp only [opNF]
    cases hu : fs.s.netcode.update d with
    | panic m => rfl
    | err e => exact e.elim
    | ok ns0 =>
      rw [hu] at hss hd
      exact srvInboxNF_of_D (k := keysOf tok) h.recC inbox ns0 (ki_update h.srv hu) hss hd
  | cliUpdate d inbox =>
    simp only [opNFD] at hd
    simp only [opNF]
    cases hn : fs.c.netcode.disconnectReason with
    | some r => rfl
    | none =>
      cases hr : fs.c.renet.disconnectReason with
      | some r => rfl
      | none =>
        rw [hn, hr] at hd
        exact cliInboxOK_of_D h.recS inbox _ h.tokC hd
  | cliSend ch m => rfl
  | cliRecv ch => rfl
  | cliTick dt => rfl
  | cliDisconnect => rfl
  | cliSendPackets => rfl
  | cliTransportDisconnect => rfl
  | srvSend ch m => rfl
  | srvRecv ch => rfl
  | srvTick dt => rfl
  | srvDisconnect => rfl
  | srvSendPackets => rfl
  | srvDisconnectAll => rfl

theorem runNF_of_D {a : AEAD} {cid : Nat} {tok : ConnectToken} : ∀ (ops : List FSOp) (fs : FS), KeyInv cid tok fs →
    runSS a cid fs ops = true → runNFD a cid fs ops = true → runNF a cid fs ops = true
  | [], _, _, _, _ => rfl
  | op :: ops, fs, h, hss, hd => by
    simp only [runSS, Bool.and_eq_true] at hss
    simp only [runNFD, Bool.and_eq_true] at hd
    simp only [runNF, Bool.and_eq_true]
    refine ⟨opNF_of_D h hss.1 hd.1, ?_⟩
    cases hs : fs.step a cid op with
    | none => rfl
    | some fs' =>
      rw [hs] at hss hd
      exact runNF_of_D ops fs' (step_keyInv h hss.1 hs) hss.2 hd.2

/-- **from an established session, the key part of `NoForgeryRun` is an invariant**: the datagram-level hypothesis
    suffices -/
theorem noForgery_of_D {a : AEAD} {cfg : Cfg} {cid : Nat} {fs0 : FS} {ops : List FSOp} (he : Established cfg cid fs0)
    (hss : SingleSessionRun a cid fs0 ops) (hd : NoForgeryRunD a cid fs0 ops) : NoForgeryRun a cid fs0 ops :=
  runNF_of_D ops fs0 (keyInv_of_established he) hss hd

end RenetVerif.FullStack
