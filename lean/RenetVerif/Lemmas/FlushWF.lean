/-
  EVERY PACKET OF EVERY FLUSH IS WELL-FORMED (`Packet.WF`, the hypothesis of the C16 round trip) along API traces of the
  model connection `MTr` (`Lemmas/SrcEquiv/SrcConnSystem.lean`).

  `Conn.WireInv`: what the send channels store can be carried by the wire format — every send channel knows a channel id
  below 256 (one byte on the wire) and every stored message (an `unacked` entry of a reliable channel, a queued message of an
  unreliable one) is at most `WIRE_MSG_MAX = MAX_NUM_SLICES * SLICE_SIZE` bytes long (so it needs at most `MAX_NUM_SLICES`
  slices, the largest count `Packet::from_bytes` accepts).  `fromChannels` establishes it for configurations whose send
  channel ids are bytes (`ChanBytes cfg`); every API operation preserves it — `process_packet` with ARBITRARY bytes
  included — where the only operation that needs a side condition is `send_message`: the library refuses NO message by its
  size alone (only by the channel's memory budget), so the submitted length enters as the decidable hypothesis
  `MsgLenOK ops`.  `oversized_slice_rejected` shows the hypothesis is needed: a slice packet that announces more than
  `MAX_NUM_SLICES` slices — what `get_packets_to_send` builds for a longer message — serialises fine and is REJECTED by the
  decoder (`InvalidNumSlices`).

  `flush_step_wf` / `flush_packets_wf`: under `WireInv`, the model invariants (`EpGood`) and the range condition
  (`ConnInRange`: counters below 2^60), one `get_packets_to_send` of a live connection builds packets that are all
  `Packet.WF`, serialises every one of them (no serialisation failure), and returns exactly these serialisations.
-/
import RenetVerif.Lemmas.SrcEquiv.SrcConnMore
set_option linter.unusedVariables false
set_option linter.unusedSimpArgs false
namespace RenetVerif.FlushWF
open RenetVerif RenetVerif.C RenetVerif.System RenetVerif.SrcSystem RenetVerif.SrcConnSystem RenetVerif.SrcConnMore

/-- the longest message whose slice count the wire format accepts (1.2 GB) -/
def WIRE_MSG_MAX : Nat := MAX_NUM_SLICES * SLICE_SIZE

def RelWire (s : SendRel) : Prop := s.ch < 256 ∧ ∀ x ∈ s.unacked, x.2.msg.length ≤ WIRE_MSG_MAX
def UnrelWire (s : SendUnrel) : Prop := s.ch < 256 ∧ ∀ m ∈ s.queue, m.length ≤ WIRE_MSG_MAX

/-- what the send channels store can be carried by the wire format -/
structure WireInv (c : Conn) : Prop where
  rel : ∀ x ∈ c.sendRel, RelWire x.2
  unrel : ∀ x ∈ c.sendUnrel, UnrelWire x.2

theorem WireInv.of_eq {c c' : Conn} (h : WireInv c) (h1 : c'.sendRel = c.sendRel) (h2 : c'.sendUnrel = c.sendUnrel) :
    WireInv c' := ⟨by rw [h1]; exact h.rel, by rw [h2]; exact h.unrel⟩

theorem WireInv.disconnectWith {c : Conn} (h : WireInv c) (r : Reason) : WireInv (c.disconnectWith r) := by
  unfold Conn.disconnectWith; split
  · exact h
  · exact h.of_eq rfl rfl

theorem WireInv.setConnected {c : Conn} (h : WireInv c) : WireInv c.setConnected := by
  unfold Conn.setConnected; split
  · exact h
  · exact h.of_eq rfl rfl

theorem WireInv.setConnecting {c : Conn} (h : WireInv c) : WireInv c.setConnecting := by
  unfold Conn.setConnecting; split
  · exact h
  · exact h.of_eq rfl rfl

/-! ## the channels -/

theorem entryStep_msg {now resend : Nat} : ∀ {u u' : Unacked}, EntryStep now resend u u' → u'.msg = u.msg
  | .small .., .small .., h => h.1
  | .sliced .., .sliced .., h => h.1
  | .small .., .sliced .., h => h.elim
  | .sliced .., .small .., h => h.elim

theorem relWire_getPackets {s : SendRel} (h : RelWire s) (seq avail now : Nat) :
    RelWire (s.getPackets seq avail now).1 := by
  have heq : s.getPackets seq avail now = ((s.getPackets seq avail now).1, (s.getPackets seq avail now).2.1,
      (s.getPackets seq avail now).2.2.1, (s.getPackets seq avail now).2.2.2) := rfl
  obtain ⟨-, -, -, hch, -, -⟩ := SendRel.getPackets_keeps heq
  have hstep : MapStep (EntryStep now s.resend) s.unacked (s.getPackets seq avail now).1.unacked := by
    rw [SendRel.getPackets_eq]
    exact relLoop_entries s.ch now s.resend s.unacked _
  refine ⟨by rw [hch]; exact h.1, ?_⟩
  intro x hx
  obtain ⟨u, hu, hs⟩ := hstep.mem x.1 x.2 hx
  rw [entryStep_msg hs]
  exact h.2 (x.1, u) hu

theorem unrelWire_getPackets {s : SendUnrel} (h : UnrelWire s) (seq avail : Nat) :
    UnrelWire (s.getPackets seq avail).1 := by
  have heq : s.getPackets seq avail = ((s.getPackets seq avail).1, (s.getPackets seq avail).2.1,
      (s.getPackets seq avail).2.2.1, (s.getPackets seq avail).2.2.2) := rfl
  obtain ⟨hq, -, hch, -⟩ := SendUnrel.getPackets_drains heq
  refine ⟨by rw [hch]; exact h.1, ?_⟩
  rw [hq]; intro m hm; cases hm

theorem relWire_sendMessage {s s' : SendRel} {m : Bytes} (h : RelWire s) (hm : m.length ≤ WIRE_MSG_MAX)
    (hs : s.sendMessage m = .ok s') : RelWire s' := by
  unfold SendRel.sendMessage at hs
  split at hs
  · cases hs
  · simp only [Except.ok.injEq] at hs
    subst hs
    refine ⟨h.1, ?_⟩
    intro x hx
    rcases SI.mem_insert hx with rfl | hx
    · dsimp only
      split
      · exact hm
      · exact hm
    · exact h.2 x hx

theorem unrelWire_sendMessage {s : SendUnrel} {m : Bytes} (h : UnrelWire s) (hm : m.length ≤ WIRE_MSG_MAX) :
    UnrelWire (s.sendMessage m) := by
  unfold SendUnrel.sendMessage
  split
  · exact h
  · refine ⟨h.1, ?_⟩
    intro x hx
    simp only [List.mem_append, List.mem_singleton] at hx
    rcases hx with hx | rfl
    · exact h.2 x hx
    · exact hm

theorem relWire_processMessageAck {s s' : SendRel} {id : Nat} (h : RelWire s) (hs : s.processMessageAck id = .ok s') :
    RelWire s' := by
  unfold SendRel.processMessageAck at hs
  split at hs
  · cases hs; exact h
  · cases hc : Res.csub s.mem _ "reliable.rs memory_usage_bytes -= payload.len() (message ack)" with
    | ok v =>
      rw [hc] at hs; simp only [Res.bind_ok, Res.pure_eq, Res.ok.injEq] at hs; subst hs
      exact ⟨h.1, fun x hx => h.2 x (SI.mem_erase hx)⟩
    | err e => exact nomatch e
    | panic p => rw [hc] at hs; cases hs
  · cases hs

theorem relWire_ackMsgLoop : ∀ (ids : List Nat) {s s' : SendRel}, RelWire s → Conn.ackMsgLoop s ids = .ok s' → RelWire s'
  | [], s, s', h, hs => by cases hs; exact h
  | id :: rest, s, s', h, hs => by
    simp only [Conn.ackMsgLoop] at hs
    cases h1 : s.processMessageAck id with
    | ok s1 => rw [h1] at hs; simp only [Res.bind_ok] at hs; exact relWire_ackMsgLoop rest (relWire_processMessageAck h h1) hs
    | err e => exact nomatch e
    | panic p => rw [h1] at hs; cases hs

theorem relWire_processSliceAck {s s' : SendRel} {id idx : Nat} (h : RelWire s) (hs : s.processSliceAck id idx = .ok s') :
    RelWire s' := by
  unfold SendRel.processSliceAck at hs
  split at hs
  · cases hs; exact h
  · cases hs
  · rename_i m n na nx ak ls hf
    have hmem : m.length ≤ WIRE_MSG_MAX := h.2 (id, .sliced m n na nx ak ls) (SI.find?_some_mem hf)
    split at hs
    · cases hs
    · cases hs; exact h
    · dsimp only at hs
      split at hs
      · cases hc : Res.csub s.mem m.length "reliable.rs memory_usage_bytes -= message.len() (slice ack)" with
        | ok v =>
          rw [hc] at hs; simp only [Res.bind_ok, Res.pure_eq, Res.ok.injEq] at hs; subst hs
          exact ⟨h.1, fun x hx => h.2 x (SI.mem_erase hx)⟩
        | err e => exact nomatch e
        | panic p => rw [hc] at hs; cases hs
      · simp only [Res.pure_eq, Res.ok.injEq] at hs; subst hs
        refine ⟨h.1, ?_⟩
        intro x hx
        rcases SI.mem_insert hx with rfl | hx
        · exact hmem
        · exact h.2 x hx

theorem relWire_insert {sr : SMap SendRel} {ch : Nat} {s' : SendRel} (h : ∀ x ∈ sr, RelWire x.2) (hs : RelWire s') :
    ∀ x ∈ SMap.insert sr ch s', RelWire x.2 := by
  intro x hx
  rcases SI.mem_insert hx with rfl | hx
  · exact hs
  · exact h x hx

theorem unrelWire_insert {su : SMap SendUnrel} {ch : Nat} {s' : SendUnrel} (h : ∀ x ∈ su, UnrelWire x.2)
    (hs : UnrelWire s') : ∀ x ∈ SMap.insert su ch s', UnrelWire x.2 := by
  intro x hx
  rcases SI.mem_insert hx with rfl | hx
  · exact hs
  · exact h x hx

/-! ## the connection operations -/

theorem WireInv.sendMessage {c c' : Conn} {ch : Nat} {m : Bytes} (h : WireInv c) (hm : m.length ≤ WIRE_MSG_MAX)
    (hr : c.sendMessage ch m = .ok c') : WireInv c' := by
  unfold Conn.sendMessage at hr
  split at hr
  · cases hr; exact h
  · split at hr
    · rename_i s hf
      split at hr
      · rename_i s' hs
        cases hr
        exact ⟨relWire_insert h.rel (relWire_sendMessage (h.rel _ (SI.find?_some_mem hf)) hm hs), h.unrel⟩
      · cases hr; exact h.disconnectWith _
    · split at hr
      · rename_i s hf
        cases hr
        exact ⟨h.rel, unrelWire_insert h.unrel (unrelWire_sendMessage (h.unrel _ (SI.find?_some_mem hf)) hm)⟩
      · cases hr

theorem WireInv.ackOne {c c' : Conn} {seq : Nat} (h : WireInv c) (hr : Conn.ackOne c seq = .ok c') : WireInv c' := by
  unfold Conn.ackOne at hr
  split at hr
  · cases hr
  · dsimp only at hr
    split at hr
    · split at hr
      · cases hr
      · rename_i s hf
        cases h1 : Conn.ackMsgLoop s _ with
        | ok s1 =>
          rw [h1] at hr; simp only [Res.bind_ok, Res.pure_eq, Res.ok.injEq] at hr; subst hr
          exact ⟨relWire_insert h.rel (relWire_ackMsgLoop _ (h.rel _ (SI.find?_some_mem hf)) h1), h.unrel⟩
        | err e => exact nomatch e
        | panic p => rw [h1] at hr; cases hr
    · split at hr
      · cases hr
      · rename_i s hf
        cases h1 : s.processSliceAck _ _ with
        | ok s1 =>
          rw [h1] at hr; simp only [Res.bind_ok, Res.pure_eq, Res.ok.injEq] at hr; subst hr
          exact ⟨relWire_insert h.rel (relWire_processSliceAck (h.rel _ (SI.find?_some_mem hf)) h1), h.unrel⟩
        | err e => exact nomatch e
        | panic p => rw [h1] at hr; cases hr
    · cases hr; exact h.of_eq rfl rfl
    · cases hr; exact h.of_eq rfl rfl

theorem WireInv.ackLoop : ∀ (L : List Nat) {c c' : Conn}, WireInv c → Conn.ackLoop c L = .ok c' → WireInv c'
  | [], c, c', h, hr => by cases hr; exact h
  | seq :: rest, c, c', h, hr => by
    simp only [Conn.ackLoop] at hr
    cases h1 : Conn.ackOne c seq with
    | ok c1 => rw [h1] at hr; simp only [Res.bind_ok] at hr; exact WireInv.ackLoop rest (h.ackOne h1) hr
    | err e => exact nomatch e
    | panic p => rw [h1] at hr; cases hr

/-- `process_packet` with ARBITRARY bytes -/
theorem WireInv.processPacket {c c' : Conn} {bytes : Bytes} (h : WireInv c) (hr : c.processPacket bytes = .ok c') :
    WireInv c' := by
  rcases SI.Conn.processPacket_cases hr with ⟨hs, -, -⟩ | ⟨p, -, -, hs, -⟩ | ⟨aseq, ranges, L, -, -, -, hl⟩
  · exact h.of_eq hs.1 hs.2.1
  · exact h.of_eq hs.1 hs.2.1
  · have h0 : WireInv { c with pendingAcks := Acks.add ACK_RANGE_CAP aseq c.pendingAcks } := h.of_eq rfl rfl
    exact WireInv.ackLoop L h0 hl

theorem chanLoop_wire (now : Nat) : ∀ (order : List (Bool × Nat)) (sr : SMap SendRel) (su : SMap SendUnrel)
    (pk : List Packet) (seq avail : Nat) (sr' : SMap SendRel) (su' : SMap SendUnrel) (pk' : List Packet) (seq' avail' : Nat),
    (∀ x ∈ sr, RelWire x.2) → (∀ x ∈ su, UnrelWire x.2) →
    Conn.chanLoop now order (sr, su, pk, seq, avail) = .ok (sr', su', pk', seq', avail') →
    (∀ x ∈ sr', RelWire x.2) ∧ (∀ x ∈ su', UnrelWire x.2) := by
  intro order
  induction order with
  | nil =>
    intro sr su pk seq avail sr' su' pk' seq' avail' hr hu h
    simp only [Conn.chanLoop, Res.ok.injEq, Prod.mk.injEq] at h
    obtain ⟨rfl, rfl, -, -, -⟩ := h
    exact ⟨hr, hu⟩
  | cons x rest ih =>
    intro sr su pk seq avail sr' su' pk' seq' avail' hr hu h
    obtain ⟨rel, ch⟩ := x
    cases rel with
    | true =>
      rw [chanLoop_rel_step] at h
      split at h
      · cases h
      · next s hs =>
        exact ih _ _ _ _ _ _ _ _ _ _
          (relWire_insert hr (relWire_getPackets (hr _ (SI.find?_some_mem hs)) seq avail now)) hu h
    | false =>
      rw [chanLoop_unrel_step] at h
      split at h
      · cases h
      · next s hs =>
        exact ih _ _ _ _ _ _ _ _ _ _ hr
          (unrelWire_insert hu (unrelWire_getPackets (hu _ (SI.find?_some_mem hs)) seq avail)) h

theorem WireInv.getPacketsToSend {c c' : Conn} {out : List Bytes} (h : WireInv c)
    (hr : c.getPacketsToSend = .ok (c', out)) : WireInv c' := by
  cases hd : c.isDisconnected with
  | true =>
    unfold Conn.getPacketsToSend at hr
    simp only [hd, ↓reduceIte, Res.ok.injEq, Prod.mk.injEq] at hr
    rw [← hr.1]; exact h
  | false =>
    obtain ⟨sr, su, pk, seq, avail, hl, e1, -, -, -, -, e2, -⟩ := CI.getPacketsToSend_shape hd hr
    obtain ⟨a, b⟩ := chanLoop_wire _ _ _ _ _ _ _ _ _ _ _ _ h.rel h.unrel hl
    exact ⟨by rw [e2]; exact a, by rw [e1]; exact b⟩

/-! ## every packet of one flush is well-formed -/

theorem divCeil_le_max {a : Nat} (h : a ≤ WIRE_MSG_MAX) : divCeil a SLICE_SIZE ≤ MAX_NUM_SLICES := by
  unfold divCeil
  unfold WIRE_MSG_MAX MAX_NUM_SLICES SLICE_SIZE at *
  omega

/-- unreliable channel: every packet of a flush is well-formed in the sense of the round-trip theorem -/
theorem sendUnrel_getPackets_wf {s s' : SendUnrel} {seq avail seq' avail' : Nat} {ps : List Packet}
    (h : s.getPackets seq avail = (s', ps, seq', avail')) (hw : UnrelWire s)
    (hid : s'.slicedId ≤ Varint.MAX + 1) (hseq : seq' ≤ Varint.MAX + 1) : ∀ p ∈ ps, p.WF := by
  intro p hp
  have hsq := SendUnrel.getPackets_seq_lt h p hp
  have hok := (SendUnrel.getPackets_emitted h).2 p hp
  cases p with
  | smallUnreliable sq c msgs =>
    obtain ⟨rfl, h1, h2⟩ := hok
    refine ⟨by simp only [Packet.sequence] at hsq; omega, hw.1, ?_, ?_⟩
    · have := unrelSerSum_ge msgs
      unfold SLICE_SIZE at h1; omega
    · intro x hx
      have := (h2 x hx).2
      unfold SLICE_SIZE at this; unfold Varint.MAX; omega
  | unreliableSlice sq c sl =>
    obtain ⟨rfl, h1, h2, m, hm, h3, h4, h5, h6, _⟩ := hok
    have hle : sl.payload.length ≤ SLICE_SIZE := by
      rw [h6]; exact sliceBytes_length_le m _ _ (by rw [h4]; exact divCeil_mul_ge _)
    have hn : sl.numSlices ≤ MAX_NUM_SLICES := by rw [h4]; exact divCeil_le_max (hw.2 m hm)
    have hsq' : sq ≤ Varint.MAX := by simp only [Packet.sequence] at hsq; omega
    refine ⟨hsq', hw.1, by omega, ?_, by omega, hn, ?_⟩
    · unfold MAX_NUM_SLICES at hn; unfold Varint.MAX; omega
    · unfold SLICE_SIZE at hle; unfold Varint.MAX; omega
  | smallReliable _ _ _ => exact hok.elim
  | reliableSlice _ _ _ => exact hok.elim
  | ack _ _ => exact hok.elim

/-- reliable channel (`SendRel.getPackets_wf` with its slice-count hypothesis discharged by `RelWire`) -/
theorem sendRel_getPackets_wf {s s' : SendRel} {seq avail now seq' avail' : Nat} {ps : List Packet}
    (h : s.getPackets seq avail now = (s', ps, seq', avail')) (hwf : s.WF) (hw : RelWire s)
    (hid : s.nextId ≤ Varint.MAX + 1) (hseq : seq' ≤ Varint.MAX + 1) : ∀ p ∈ ps, p.WF := by
  refine SendRel.getPackets_wf h hwf hw.1 hid hseq ?_
  intro id m n na nx ak ls hm
  obtain ⟨rfl, -⟩ := hwf.entries _ _ hm
  exact divCeil_le_max (hw.2 _ hm)

theorem chanLoop_wf (now : Nat) : ∀ (order : List (Bool × Nat)) (sr : SMap SendRel) (su : SMap SendUnrel)
    (pk : List Packet) (seq avail : Nat) (sr' : SMap SendRel) (su' : SMap SendUnrel) (pk' : List Packet) (seq' avail' : Nat),
    RelMapOK sr → UnrelMapOK su → (∀ x ∈ sr, RelWire x.2) → (∀ x ∈ su, UnrelWire x.2) →
    Conn.chanLoop now order (sr, su, pk, seq, avail) = .ok (sr', su', pk', seq', avail') → seq' ≤ Varint.MAX + 1 →
    ∃ ps, pk' = pk ++ ps ∧ ∀ p ∈ ps, p.WF := by
  intro order
  induction order with
  | nil =>
    intro sr su pk seq avail sr' su' pk' seq' avail' hr hu wr wu h _
    simp only [Conn.chanLoop, Res.ok.injEq, Prod.mk.injEq] at h
    obtain ⟨rfl, rfl, rfl, rfl, rfl⟩ := h
    exact ⟨[], by simp, by simp⟩
  | cons x rest ih =>
    intro sr su pk seq avail sr' su' pk' seq' avail' hr hu wr wu h hseq
    obtain ⟨rel, ch⟩ := x
    cases rel with
    | true =>
      rw [chanLoop_rel_step] at h
      split at h
      · cases h
      · next s hs =>
        have hmono := chanLoop_seq_mono now _ _ _ _ _ _ _ _ _ _ _ h
        obtain ⟨hwf, hid⟩ := hr ch s hs
        have hws := wr _ (SI.find?_some_mem hs)
        have heq : s.getPackets seq avail now = ((s.getPackets seq avail now).1, (s.getPackets seq avail now).2.1,
          (s.getPackets seq avail now).2.2.1, (s.getPackets seq avail now).2.2.2) := rfl
        have hfit := sendRel_getPackets_wf heq hwf hws hid (by omega)
        have hr' : RelMapOK (SMap.insert sr ch (s.getPackets seq avail now).1) := by
          intro ch' s'' hf
          rw [SMap.find?_insert] at hf
          split at hf
          · cases hf
            exact ⟨SendRel.getPackets_wf_preserved heq hwf, by rw [(SendRel.getPackets_keeps heq).2.2.1]; exact hid⟩
          · exact hr ch' s'' hf
        obtain ⟨ps, h1, h2⟩ := ih _ _ _ _ _ _ _ _ _ _ hr' hu
          (relWire_insert wr (relWire_getPackets hws seq avail now)) wu h hseq
        refine ⟨(s.getPackets seq avail now).2.1 ++ ps, by rw [h1, List.append_assoc], ?_⟩
        intro p hp
        simp only [List.mem_append] at hp
        rcases hp with hp | hp
        · exact hfit p hp
        · exact h2 p hp
    | false =>
      rw [chanLoop_unrel_step] at h
      split at h
      · cases h
      · next s hs =>
        have hmono := chanLoop_seq_mono now _ _ _ _ _ _ _ _ _ _ _ h
        obtain ⟨hlen, hid⟩ := hu ch s hs
        have hws := wu _ (SI.find?_some_mem hs)
        have heq : s.getPackets seq avail = ((s.getPackets seq avail).1, (s.getPackets seq avail).2.1,
          (s.getPackets seq avail).2.2.1, (s.getPackets seq avail).2.2.2) := rfl
        have hsid := SendUnrel.getPackets_slicedId heq
        have hfit := sendUnrel_getPackets_wf heq hws (by omega) (by omega)
        have hu' : UnrelMapOK (SMap.insert su ch (s.getPackets seq avail).1) := by
          intro ch' s'' hf
          rw [SMap.find?_insert] at hf
          split at hf
          · cases hf
            have hq := (SendUnrel.getPackets_drains heq).1
            refine ⟨by rw [hq]; simp, by rw [hq]; simp only [List.length_nil]; omega⟩
          · exact hu ch' s'' hf
        obtain ⟨ps, h1, h2⟩ := ih _ _ _ _ _ _ _ _ _ _ hr hu' wr
          (unrelWire_insert wu (unrelWire_getPackets hws seq avail)) h hseq
        refine ⟨(s.getPackets seq avail).2.1 ++ ps, by rw [h1, List.append_assoc], ?_⟩
        intro p hp
        simp only [List.mem_append] at hp
        rcases hp with hp | hp
        · exact hfit p hp
        · exact h2 p hp

/-- the packets one `get_packets_to_send` builds are all well-formed, and all fit the carrier -/
theorem flushPackets_wf (c : Conn) (hinv : c.FlushInv) (hseq : c.flushSeq ≤ Varint.MAX + 1) (hw : WireInv c)
    (pk : List Packet) (h : c.flushPackets = .ok pk) : (∀ p ∈ pk, p.WF) ∧ ∀ p ∈ pk, PktFits p := by
  unfold Conn.flushPackets at h
  split at h
  · next sr su pk0 seq avail hr =>
    have hfs : c.flushSeq = seq + 1 := by simp only [Conn.flushSeq, hr]
    obtain ⟨ps, h1, h2⟩ := chanLoop_wf c.now c.order _ _ _ _ _ _ _ _ _ _ hinv.rel hinv.unrel hw.rel hw.unrel hr (by omega)
    obtain ⟨ps', h1', h2', -, -⟩ := chanLoop_fits c.now c.order _ _ _ _ _ _ _ _ _ _ hinv.rel hinv.unrel hr (by omega)
    simp only [List.nil_append] at h1 h1'
    subst h1
    subst h1'
    simp only [Res.ok.injEq] at h
    subst h
    split
    · exact ⟨h2, fun p hp => (h2' p hp).1⟩
    · next hempty =>
      have hne : c.pendingAcks ≠ [] := by
        intro e; rw [e] at hempty; exact hempty rfl
      have hackwf := Acks.ackWF_of_wf c.pendingAcks hne hinv.acksWF hinv.acksBound
      have hackfits : PktFits (Packet.ack seq c.pendingAcks) := by
        obtain ⟨b, hb, hl⟩ := enc_ack_len seq c.pendingAcks (by omega) hackwf
        refine ⟨b, hb, ?_⟩
        have := ackPacketBound_le
        have hc := hinv.acksLen
        have : 16 * (c.pendingAcks.length - 1) ≤ 16 * (ACK_RANGE_CAP - 1) := Nat.mul_le_mul_left _ (by omega)
        unfold ackPacketBound at *; omega
      refine ⟨?_, ?_⟩
      · intro p hp
        simp only [List.mem_append, List.mem_singleton] at hp
        rcases hp with hp | rfl
        · exact h2 p hp
        · exact ⟨by omega, hackwf⟩
      · intro p hp
        simp only [List.mem_append, List.mem_singleton] at hp
        rcases hp with hp | rfl
        · exact (h2' p hp).1
        · exact hackfits
  · cases h
  · cases h

/-- **one flush of a live connection**: the packets it builds (`Conn.flushPackets`) are all `Packet.WF`, every one of them
    is serialised (no serialisation failure), the flush returns exactly these serialisations, and their message payload is
    within the per-tick budget -/
theorem flush_step_wf {c c' : Conn} {bs : List Bytes} (hg : EpGood c) (hr : ConnInRange c) (hw : WireInv c)
    (hd : c.isDisconnected = false) (h : c.getPacketsToSend = .ok (c', bs)) :
    ∃ pk, c.flushPackets = .ok pk ∧ Conn.serialiseAll pk = .ok bs ∧ (∀ p ∈ pk, p.WF) ∧ payloadSum pk ≤ c.budget ∧
      pk.map Packet.sequence = List.range' c.packetSeq pk.length := by
  have hc := countersOK_of_inRange hr
  have hfi := CI.flushInv_of hg.sinv hc
  obtain ⟨pk, hpk, hser⟩ := Conn.getPacketsToSend_serialises c c' bs hd h
  obtain ⟨hwf, hfits⟩ := flushPackets_wf c hfi hc.seq hw pk hpk
  obtain ⟨b1, b2⟩ := Conn.flushPackets_budget c pk hfi.rel.fit hpk
  refine ⟨pk, hpk, ?_, hwf, b1, b2⟩
  rcases hser with hs | ⟨-, e, he⟩
  · exact hs
  · obtain ⟨bs', hbs', -, -⟩ := serialiseAll_ok pk hfits
    rw [hbs'] at he; cases he

/-! ## along API traces -/

/-- the send channel ids of the configuration are bytes (`u8` in the Rust source) -/
def ChanBytes (cfg : Cfg) : Prop := ∀ c ∈ cfg.send, c.id < 256

instance (cfg : Cfg) : Decidable (ChanBytes cfg) := by unfold ChanBytes; infer_instance

/-- the submitted message needs at most `MAX_NUM_SLICES` slices -/
def COp.lenOK : COp → Prop
  | .send _ m => m.length ≤ WIRE_MSG_MAX
  | _ => True

instance (op : COp) : Decidable (COp.lenOK op) := by cases op <;> unfold COp.lenOK <;> infer_instance

/-- every message submitted in the trace is at most `MAX_NUM_SLICES * SLICE_SIZE` bytes long -/
def MsgLenOK (ops : List COp) : Prop := ∀ op ∈ ops, COp.lenOK op

instance (ops : List COp) : Decidable (MsgLenOK ops) := by unfold MsgLenOK; infer_instance

theorem wireInv_init (cfg : Cfg) (h : ChanBytes cfg) : WireInv (MTr.init cfg).c := by
  refine ⟨?_, ?_⟩
  · intro x hx
    rcases CI.foldl_insert_mem (fun c : ChanCfg => c.id) (fun c => SendRel.new c.id c.resend c.maxMem) _ _ x hx with h0 | ⟨c, hc, rfl⟩
    · cases h0
    · exact ⟨h c (List.mem_filter.mp hc).1, fun y hy => by cases hy⟩
  · intro x hx
    rcases CI.foldl_insert_mem (fun c : ChanCfg => c.id) (fun c => SendUnrel.new c.id c.maxMem) _ _ x hx with h0 | ⟨c, hc, rfl⟩
    · cases h0
    · exact ⟨h c (List.mem_filter.mp hc).1, fun y hy => by cases hy⟩

theorem wireInv_step {t t' : MTr} {op : COp} (h : WireInv t.c) (hl : COp.lenOK op) (hs : t.step op = some t') :
    WireInv t'.c := by
  cases op with
  | send ch m =>
    simp only [MTr.step] at hs
    cases hm : t.c.sendMessage ch m with
    | ok c' => rw [hm] at hs; cases hs; exact h.sendMessage hl hm
    | err e => exact nomatch e
    | panic s => rw [hm] at hs; cases hs
  | recv ch =>
    simp only [MTr.step] at hs
    cases hm : t.c.receiveMessage ch with
    | ok x =>
      obtain ⟨c', o⟩ := x; rw [hm] at hs; cases hs
      obtain ⟨hs, -⟩ := SI.Conn.receiveMessage_same hm
      exact h.of_eq hs.1 hs.2.1
    | err e => exact nomatch e
    | panic s => rw [hm] at hs; cases hs
  | update dt =>
    simp only [MTr.step] at hs
    cases hm : t.c.update dt with
    | ok c' =>
      rw [hm] at hs; cases hs
      obtain ⟨e1, e2, -⟩ := SI.Conn.update_spec hm
      exact h.of_eq e1 e2
    | err e => exact nomatch e
    | panic s => rw [hm] at hs; cases hs
  | flush =>
    simp only [MTr.step] at hs
    cases hm : t.c.getPacketsToSend with
    | ok x => obtain ⟨c', o⟩ := x; rw [hm] at hs; cases hs; exact h.getPacketsToSend hm
    | err e => exact nomatch e
    | panic s => rw [hm] at hs; cases hs
  | process b =>
    simp only [MTr.step] at hs
    cases hm : t.c.processPacket b with
    | ok c' => rw [hm] at hs; cases hs; exact h.processPacket hm
    | err e => exact nomatch e
    | panic s => rw [hm] at hs; cases hs
  | setConnected => cases hs; exact h.setConnected
  | setConnecting => cases hs; exact h.setConnecting
  | disconnect => cases hs; exact h.disconnectWith _
  | disconnectTransport => cases hs; exact h.disconnectWith _

theorem wireInv_run : ∀ (ops : List COp) (t t' : MTr), WireInv t.c → MsgLenOK ops → t.run ops = some t' → WireInv t'.c
  | [], t, t', h, _, hr => by cases hr; exact h
  | op :: ops, t, t', h, hl, hr => by
    simp only [MTr.run] at hr
    cases hs : t.step op with
    | none => rw [hs] at hr; cases hr
    | some t1 =>
      rw [hs] at hr
      exact wireInv_run ops t1 t' (wireInv_step h (hl op (List.mem_cons_self ..)) hs)
        (fun o ho => hl o (List.mem_cons_of_mem _ ho)) hr

/-- a logged flush output is the serialisation, packet by packet, of well-formed packets -/
def FlushOK (bs : List Bytes) : Prop := ∃ pk, Conn.serialiseAll pk = .ok bs ∧ ∀ p ∈ pk, p.WF

theorem flushOK_step {t t' : MTr} {op : COp} (hg : EpGood t.c) (hr : ConnInRange t.c) (hw : WireInv t.c)
    (hf : ∀ bs ∈ t.flushes, FlushOK bs) (hs : t.step op = some t') : ∀ bs ∈ t'.flushes, FlushOK bs := by
  cases op with
  | flush =>
    simp only [MTr.step] at hs
    cases hm : t.c.getPacketsToSend with
    | ok x =>
      obtain ⟨c', o⟩ := x; rw [hm] at hs; cases hs
      intro bs hbs
      simp only [List.mem_append, List.mem_singleton] at hbs
      rcases hbs with hbs | rfl
      · exact hf bs hbs
      · cases hd : t.c.isDisconnected with
        | true =>
          unfold Conn.getPacketsToSend at hm
          simp only [hd, ↓reduceIte, Res.ok.injEq, Prod.mk.injEq] at hm
          rw [← hm.2]; exact ⟨[], rfl, fun p hp => by cases hp⟩
        | false =>
          obtain ⟨pk, -, h2, h3, -⟩ := flush_step_wf hg hr hw hd hm
          exact ⟨pk, h2, h3⟩
    | err e => exact nomatch e
    | panic s => rw [hm] at hs; cases hs
  | send ch m =>
    simp only [MTr.step] at hs
    cases hm : t.c.sendMessage ch m with
    | ok c' => rw [hm] at hs; cases hs; exact hf
    | err e => exact nomatch e
    | panic s => rw [hm] at hs; cases hs
  | recv ch =>
    simp only [MTr.step] at hs
    cases hm : t.c.receiveMessage ch with
    | ok x => obtain ⟨c', o⟩ := x; rw [hm] at hs; cases hs; exact hf
    | err e => exact nomatch e
    | panic s => rw [hm] at hs; cases hs
  | update dt =>
    simp only [MTr.step] at hs
    cases hm : t.c.update dt with
    | ok c' => rw [hm] at hs; cases hs; exact hf
    | err e => exact nomatch e
    | panic s => rw [hm] at hs; cases hs
  | process b =>
    simp only [MTr.step] at hs
    cases hm : t.c.processPacket b with
    | ok c' => rw [hm] at hs; cases hs; exact hf
    | err e => exact nomatch e
    | panic s => rw [hm] at hs; cases hs
  | setConnected => cases hs; exact hf
  | setConnecting => cases hs; exact hf
  | disconnect => cases hs; exact hf
  | disconnectTransport => cases hs; exact hf

theorem flushOK_run : ∀ (ops : List COp) (t t' : MTr), EpGood t.c → WireInv t.c → (∀ bs ∈ t.flushes, FlushOK bs) →
    CRunInRangeFrom t ops → MsgLenOK ops → t.run ops = some t' → ∀ bs ∈ t'.flushes, FlushOK bs
  | [], t, t', _, _, hf, _, _, hr => by cases hr; exact hf
  | op :: ops, t, t', hg, hw, hf, hrg, hl, hr => by
    simp only [MTr.run] at hr
    obtain ⟨hrange, -, hrest⟩ := hrg
    cases hs : t.step op with
    | none => rw [hs] at hr; cases hr
    | some t1 =>
      rw [hs] at hr hrest
      exact flushOK_run ops t1 t' (epGood_step hg hs) (wireInv_step hw (hl op (List.mem_cons_self ..)) hs)
        (flushOK_step hg hrange hw hf hs) hrest (fun o ho => hl o (List.mem_cons_of_mem _ ho)) hr

/-- **every packet of every flush of a trace is well-formed**: along ANY run of the model connection from `fromChannels`
    (channel ids bytes, counters in range, submitted messages at most `MAX_NUM_SLICES * SLICE_SIZE` bytes), every logged
    `get_packets_to_send` output is the serialisation, packet by packet, of packets satisfying `Packet.WF` -/
theorem flush_packets_wf (cfg : Cfg) (ops : List COp) (t : MTr) (hcb : ChanBytes cfg)
    (hrg : CRunInRangeFrom (MTr.init cfg) ops) (hl : MsgLenOK ops) (hr : (MTr.init cfg).run ops = some t) :
    WireInv t.c ∧ ∀ bs ∈ t.flushes, FlushOK bs :=
  ⟨wireInv_run ops _ t (wireInv_init cfg hcb) hl hr,
   flushOK_run ops _ t (epGood_init cfg) (wireInv_init cfg hcb) (fun bs h => by cases h) hrg hl hr⟩

/-! ## the length hypothesis is needed: an over-long message yields packets the decoder rejects -/

/-- **a slice packet announcing more than `MAX_NUM_SLICES` slices serialises, and the decoder rejects its own
    serialisation.**  `get_packets_to_send` announces `num_slices = div_ceil(len, SLICE_SIZE)` (`slicedLoop`,
    `Unacked.newSliced`), which exceeds `MAX_NUM_SLICES` exactly for messages longer than `WIRE_MSG_MAX`; `send_message`
    accepts such a message whenever the channel's memory budget does. -/
theorem oversized_slice_rejected (seq ch : Nat) (sl : Slice) (h1 : seq ≤ Varint.MAX) (h2 : ch < 256)
    (h3 : sl.messageId ≤ Varint.MAX) (h4 : sl.sliceIndex ≤ Varint.MAX) (h5 : sl.numSlices ≤ Varint.MAX)
    (hl : sl.payload.length ≤ Varint.MAX) (hbig : MAX_NUM_SLICES < sl.numSlices) :
    ∃ b, (Packet.reliableSlice seq ch sl).enc = .ok b ∧ Packet.fromBytes b = .error .invalidNumSlices := by
  refine ⟨_, by simp [Packet.enc, encSlice, putVarint_ok h1, putVarint_ok h3, putVarint_ok h4, putVarint_ok h5, putVarint_ok hl]; rfl, ?_⟩
  simp only [Packet.fromBytes, Packet.decode, List.cons_append, List.append_assoc, getU8_cons, bind, Except.bind]
  simp only [show (2 : UInt8).toNat = 2 from rfl]
  rw [getVarint_enc _ h1]
  simp only [getU8_cons, chByte h2]
  rw [getVarint_enc _ h3]; simp only []
  rw [getVarint_enc _ h4]; simp only []
  rw [getVarint_enc _ h5]; simp only []
  have : (sl.numSlices = 0 ∨ sl.numSlices > C.MAX_NUM_SLICES) := Or.inr hbig
  simp only [this, ↓reduceIte]

theorem divCeil_gt_max {a : Nat} (h : WIRE_MSG_MAX < a) : MAX_NUM_SLICES < divCeil a SLICE_SIZE := by
  unfold divCeil
  unfold WIRE_MSG_MAX MAX_NUM_SLICES SLICE_SIZE at *
  omega

end RenetVerif.FlushWF
