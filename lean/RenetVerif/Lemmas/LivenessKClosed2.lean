/-
  CLOSING THE PER-ROUND SIDE CONDITIONS, second step — helper lemmas for the `_closed2` theorems of Props/C01KC.lean.

  Part A  B NEVER HAS TRAFFIC OF ITS OWN.  `SysOp` has no `sendB`: in every state reachable from `Sys.init cfg` the
          send side of B is IDLE (`SendIdle`: every reliable send channel has an empty `unacked` map, every unreliable
          one an empty queue).  `idleB_reach`.  Consequences for an idle connection: the channel loop emits nothing
          and leaves the sequence number alone (`chanLoop_idle`), so `flushSeq = packetSeq + 1` (`flushSeq_idle`), and
          a flush with a non-empty pending-ack list is ONE datagram, the ack packet (`flushPk_idle_one`).
  Part B  `TickSched2` / `RoundSched2` / `RoundsSched2` (the schedule facts WITHOUT "B's flush is one datagram"),
          `HeadRoom2` (B's sequence number needs room for ONE datagram per round), `rounds_of_sched2`.
-/
import RenetVerif.Lemmas.LivenessKClosed
namespace RenetVerif.LiveKC
open RenetVerif C RenetVerif.System RenetVerif.DataPath RenetVerif.Live RenetVerif.LiveK

/-! ## Part A — the idle send side -/

/-- nothing to transmit: every reliable send channel has no stored entry, every unreliable one an empty queue -/
structure SendIdle (c : Conn) : Prop where
  rel : ∀ ch s, SMap.find? c.sendRel ch = some s → s.unacked = []
  unrel : ∀ ch s, SMap.find? c.sendUnrel ch = some s → s.queue = []

theorem idle_congr {c c' : Conn} (h1 : c'.sendRel = c.sendRel) (h2 : c'.sendUnrel = c.sendUnrel) (h : SendIdle c) :
    SendIdle c' := ⟨by rw [h1]; exact h.rel, by rw [h2]; exact h.unrel⟩

theorem idle_init (budget : Nat) (send recv : List ChanCfg) : SendIdle (Conn.fromChannels budget send recv) := by
  refine ⟨?_, ?_⟩
  · intro ch s hf
    simp only [Conn.fromChannels] at hf
    rcases SI.foldl_insert_find (fun c : ChanCfg => c.id) (fun c => SendRel.new c.id c.resend c.maxMem) _ _ ch s hf with h | ⟨c, -, -, h2⟩
    · cases h
    · subst h2; rfl
  · intro ch s hf
    simp only [Conn.fromChannels] at hf
    rcases SI.foldl_insert_find (fun c : ChanCfg => c.id) (fun c => SendUnrel.new c.id c.maxMem) _ _ ch s hf with h | ⟨c, -, -, h2⟩
    · cases h
    · subst h2; rfl

/-! ### ack processing on an idle channel does nothing -/

theorem processMessageAck_idle {s s' : SendRel} {id : Nat} (h0 : s.unacked = []) (h : s.processMessageAck id = .ok s') :
    s' = s := by
  unfold SendRel.processMessageAck at h
  rw [h0] at h
  simp only [SMap.find?] at h
  cases h; rfl

theorem processSliceAck_idle {s s' : SendRel} {id idx : Nat} (h0 : s.unacked = []) (h : s.processSliceAck id idx = .ok s') :
    s' = s := by
  unfold SendRel.processSliceAck at h
  rw [h0] at h
  simp only [SMap.find?] at h
  cases h; rfl

theorem ackMsgLoop_idle : ∀ (ids : List Nat) (s s' : SendRel), s.unacked = [] → Conn.ackMsgLoop s ids = .ok s' → s' = s
  | [], s, s', _, h => by simp only [Conn.ackMsgLoop, Res.ok.injEq] at h; exact h.symm
  | id :: rest, s, s', h0, h => by
    simp only [Conn.ackMsgLoop] at h
    cases h1 : s.processMessageAck id with
    | ok s1 =>
      rw [h1] at h
      simp only [Res.bind_ok] at h
      have e := processMessageAck_idle h0 h1
      subst e
      exact ackMsgLoop_idle rest s1 s' h0 h
    | err e => exact e.elim
    | panic m => rw [h1] at h; cases h

theorem idle_insert_rel {c : Conn} (hi : SendIdle c) {ch : Nat} {s : SendRel} (h0 : s.unacked = []) {c' : Conn}
    (h1 : c'.sendRel = SMap.insert c.sendRel ch s) (h2 : c'.sendUnrel = c.sendUnrel) : SendIdle c' := by
  refine ⟨?_, by rw [h2]; exact hi.unrel⟩
  intro k x hx
  rw [h1, SMap.find?_insert] at hx
  split at hx
  · cases hx; exact h0
  · exact hi.rel k x hx

theorem ackOne_idle {c c' : Conn} {seq : Nat} (hi : SendIdle c) (h : Conn.ackOne c seq = .ok c') : SendIdle c' := by
  unfold Conn.ackOne at h
  split at h
  · cases h
  · next t info hf =>
    dsimp only at h
    split at h
    · next ch ids =>
      split at h
      · cases h
      · next s hs =>
        have h0 := hi.rel ch s hs
        cases h1 : Conn.ackMsgLoop s ids with
        | ok s1 =>
          rw [h1] at h
          simp only [Res.bind_ok, Res.pure_eq, Res.ok.injEq] at h
          subst h
          have e := ackMsgLoop_idle ids s s1 h0 h1
          subst e
          exact idle_insert_rel hi h0 rfl rfl
        | err e => exact e.elim
        | panic m => rw [h1] at h; cases h
    · next ch id idx =>
      split at h
      · cases h
      · next s hs =>
        have h0 := hi.rel ch s hs
        cases h1 : s.processSliceAck id idx with
        | ok s1 =>
          rw [h1] at h
          simp only [Res.bind_ok, Res.pure_eq, Res.ok.injEq] at h
          subst h
          have e := processSliceAck_idle h0 h1
          subst e
          exact idle_insert_rel hi h0 rfl rfl
        | err e => exact e.elim
        | panic m => rw [h1] at h; cases h
    · simp only [Res.ok.injEq] at h; subst h; exact ⟨hi.rel, hi.unrel⟩
    · simp only [Res.ok.injEq] at h; subst h; exact ⟨hi.rel, hi.unrel⟩

theorem ackLoop_idle : ∀ (L : List Nat) (c c' : Conn), SendIdle c → Conn.ackLoop c L = .ok c' → SendIdle c'
  | [], c, c', hi, h => by simp only [Conn.ackLoop, Res.ok.injEq] at h; subst h; exact hi
  | seq :: rest, c, c', hi, h => by
    simp only [Conn.ackLoop] at h
    cases h1 : Conn.ackOne c seq with
    | ok c1 =>
      rw [h1] at h
      simp only [Res.bind_ok] at h
      exact ackLoop_idle rest c1 c' (ackOne_idle hi h1) h
    | err e => exact e.elim
    | panic m => rw [h1] at h; cases h

theorem packet_idle {c c' : Conn} {bytes : Bytes} (hi : SendIdle c) (h : c.processPacket bytes = .ok c') : SendIdle c' := by
  rcases SI.Conn.processPacket_cases h with ⟨hs1, -, -⟩ | ⟨p, -, -, hs1, -⟩ | ⟨aseq, ranges, L, -, -, -, hloop⟩
  · exact idle_congr hs1.1 hs1.2.1 hi
  · exact idle_congr hs1.1 hs1.2.1 hi
  · refine ackLoop_idle L _ c' ?_ hloop
    exact ⟨hi.rel, hi.unrel⟩

/-! ### the flush of an idle connection -/

theorem getPackets_rel_idle (s : SendRel) (h0 : s.unacked = []) (seq avail now : Nat) :
    s.getPackets seq avail now = (s, [], seq, avail) := by
  unfold SendRel.getPackets
  rw [h0]; rfl

theorem getPackets_unrel_idle (s : SendUnrel) (h0 : s.queue = []) (seq avail : Nat) :
    (s.getPackets seq avail).1.queue = [] ∧ (s.getPackets seq avail).2.1 = [] ∧ (s.getPackets seq avail).2.2.1 = seq := by
  unfold SendUnrel.getPackets
  rw [h0]
  exact ⟨rfl, rfl, rfl⟩

/-- the channel loop of an idle connection emits nothing, leaves the sequence number alone, and stays idle -/
theorem chanLoop_idle (now : Nat) : ∀ (ord : List (Bool × Nat)) (sr : SMap SendRel) (su : SMap SendUnrel)
    (pk : List Packet) (seq avail : Nat) (sr' : SMap SendRel) (su' : SMap SendUnrel) (pk' : List Packet)
    (seq' avail' : Nat),
    (∀ ch s, SMap.find? sr ch = some s → s.unacked = []) → (∀ ch s, SMap.find? su ch = some s → s.queue = []) →
    Conn.chanLoop now ord (sr, su, pk, seq, avail) = .ok (sr', su', pk', seq', avail') →
    pk' = pk ∧ seq' = seq ∧ (∀ ch s, SMap.find? sr' ch = some s → s.unacked = []) ∧
      (∀ ch s, SMap.find? su' ch = some s → s.queue = [])
  | [], sr, su, pk, seq, avail, sr', su', pk', seq', avail', h1, h2, h => by
    simp only [Conn.chanLoop, Res.ok.injEq, Prod.mk.injEq] at h
    obtain ⟨rfl, rfl, rfl, rfl, -⟩ := h
    exact ⟨rfl, rfl, h1, h2⟩
  | (true, ch0) :: rest, sr, su, pk, seq, avail, sr', su', pk', seq', avail', h1, h2, h => by
    rw [chanLoop_rel_step] at h
    split at h
    · cases h
    · rename_i s hs
      have h0 := h1 ch0 s hs
      rw [getPackets_rel_idle s h0] at h
      dsimp only at h
      rw [List.append_nil] at h
      refine chanLoop_idle now rest _ _ _ _ _ _ _ _ _ _ ?_ h2 h
      intro k x hx
      rw [SMap.find?_insert] at hx
      split at hx
      · cases hx; exact h0
      · exact h1 k x hx
  | (false, ch0) :: rest, sr, su, pk, seq, avail, sr', su', pk', seq', avail', h1, h2, h => by
    rw [chanLoop_unrel_step] at h
    split at h
    · cases h
    · rename_i s hs
      obtain ⟨g1, g2, g3⟩ := getPackets_unrel_idle s (h2 ch0 s hs) seq avail
      rw [g2, g3, List.append_nil] at h
      refine chanLoop_idle now rest _ _ _ _ _ _ _ _ _ _ h1 ?_ h
      intro k x hx
      rw [SMap.find?_insert] at hx
      split at hx
      · cases hx; exact g1
      · exact h2 k x hx

theorem flush_idle {c c' : Conn} {out : List Bytes} (hi : SendIdle c) (h : c.getPacketsToSend = .ok (c', out)) :
    SendIdle c' := by
  cases hd : c.isDisconnected with
  | true =>
    unfold Conn.getPacketsToSend at h
    rw [hd] at h
    simp only [if_true, Res.ok.injEq, Prod.mk.injEq] at h
    obtain ⟨rfl, -⟩ := h
    exact hi
  | false =>
    obtain ⟨sr, su, pk, seq, avail, hl, e1, -, -, -, -, e2, -⟩ := CI.getPacketsToSend_shape hd h
    obtain ⟨-, -, a1, a2⟩ := chanLoop_idle _ _ _ _ _ _ _ _ _ _ _ _ hi.rel hi.unrel hl
    exact ⟨by rw [e2]; exact a1, by rw [e1]; exact a2⟩

/-- an idle connection needs room for ONE more sequence number per flush -/
theorem flushSeq_idle {c : Conn} (hi : SendIdle c) : c.flushSeq ≤ c.packetSeq + 1 := by
  unfold Conn.flushSeq
  cases hl : Conn.chanLoop c.now c.order (c.sendRel, c.sendUnrel, [], c.packetSeq, c.budget) with
  | ok r =>
    obtain ⟨sr, su, pk0, seq0, avail⟩ := r
    obtain ⟨-, e, -, -⟩ := chanLoop_idle _ _ _ _ _ _ _ _ _ _ _ _ hi.rel hi.unrel hl
    dsimp only
    omega
  | err e => exact e.elim
  | panic m => exact Nat.zero_le _

/-- **the flush of a live idle connection with something to acknowledge is ONE datagram** -/
theorem flushPk_idle_one {c : Conn} (hinv : c.Inv) (hcnt : c.CountersOK) (hd : c.isDisconnected = false)
    (hi : SendIdle c) (hne : c.pendingAcks ≠ []) : (flushPk c).length = 1 := by
  obtain ⟨c', bs, e, -, hst, -⟩ := CI.getPacketsToSend_totalP hinv hcnt
  have hd' : c'.isDisconnected = false := by rw [isDisconnected_congr hst]; exact hd
  have hemp : c.pendingAcks.isEmpty = false := by
    cases h : c.pendingAcks with
    | nil => exact absurd h hne
    | cons _ _ => rfl
  rcases getPacketsToSend_unfold e with ⟨hd1, -, -⟩ | ⟨-, sr, su, pk0, seq0, avail, sent, hl, -, hser⟩
  · rw [hd] at hd1; cases hd1
  · obtain ⟨e0, -, -, -⟩ := chanLoop_idle _ _ _ _ _ _ _ _ _ _ _ _ hi.rel hi.unrel hl
    subst e0
    rcases hser with ⟨hok, -⟩ | ⟨er, -, -, rfl⟩
    · have hfp : flushPk c = (if c.pendingAcks.isEmpty then [] else [] ++ [Packet.ack seq0 c.pendingAcks]) := by
        unfold flushPk; rw [hd]; simp only [Bool.false_eq_true, ↓reduceIte, hl, hok]
      rw [hfp, hemp]
      rfl
    · rw [disconnectWith_isDisconnected] at hd'; cases hd'

/-! ### the invariant of the system: B is idle -/

theorem idleB_step {s s' : Sys} {op : SysOp} (hi : SendIdle s.b) (hs : s.step op = some s') : SendIdle s'.b := by
  cases op with
  | sendA ch m => simp only [Sys.step] at hs; split at hs <;> cases hs; exact hi
  | updA dt => simp only [Sys.step] at hs; split at hs <;> cases hs; exact hi
  | flushA => simp only [Sys.step] at hs; split at hs <;> cases hs; exact hi
  | recvB ch =>
    simp only [Sys.step] at hs
    split at hs
    · next b' m hm => cases hs; obtain ⟨hsame, -⟩ := SI.Conn.receiveMessage_same hm; exact idle_congr hsame.1 hsame.2.1 hi
    · next b' hm => cases hs; obtain ⟨hsame, -⟩ := SI.Conn.receiveMessage_same hm; exact idle_congr hsame.1 hsame.2.1 hi
    · cases hs
  | updB dt =>
    simp only [Sys.step] at hs
    split at hs
    · next b' hm => cases hs; obtain ⟨e1, e2, -⟩ := SI.Conn.update_spec hm; exact idle_congr e1 e2 hi
    · cases hs
  | flushB =>
    simp only [Sys.step] at hs
    split at hs
    · next b' bs hm => cases hs; exact flush_idle hi hm
    · cases hs
  | deliverToB k =>
    simp only [Sys.step] at hs
    split at hs
    · cases hs
    · split at hs
      · next b' hm => cases hs; exact packet_idle hi hm
      · cases hs
  | deliverToA k =>
    simp only [Sys.step] at hs
    split at hs
    · cases hs
    · split at hs
      · cases hs; exact hi
      · cases hs

theorem idleB_run : ∀ (ops : List SysOp) (s s' : Sys), SendIdle s.b → s.run ops = some s' → SendIdle s'.b
  | [], s, s', hi, h => by simp only [Sys.run, Option.some.injEq] at h; subst h; exact hi
  | op :: ops, s, s', hi, h => by
    simp only [Sys.run] at h
    cases hs : s.step op with
    | none => rw [hs] at h; cases h
    | some s1 =>
      rw [hs] at h
      exact idleB_run ops s1 s' (idleB_step hi hs) h

/-- **B has nothing of its own to transmit in any reachable state** (`SysOp` has no `sendB`) -/
theorem idleB_reach (cfg : Cfg) (ops : List SysOp) (s : Sys) (hr : (Sys.init cfg).run ops = some s) : SendIdle s.b :=
  idleB_run ops _ s (idle_init _ _ _) hr


/-- **(A) as a statement about the system**: in every reachable state in which B is live, its counters are in range and
    it has something to acknowledge, B's flush is exactly ONE datagram (the hypothesis `(flushPk u.b).length = 1` of
    `TickSched.back` is a theorem). -/
theorem flushB_one_reach (cfg : Cfg) (ops : List SysOp) (u : Sys) (hr : (Sys.init cfg).run ops = some u)
    (hdb : u.b.isDisconnected = false) (hcB : u.b.CountersOK) (hne : u.b.pendingAcks ≠ []) :
    (flushPk u.b).length = 1 := by
  obtain ⟨pk, h1, -⟩ := system_inv cfg ops u hr
  exact flushPk_idle_one (reach_conn h1.reachB).1 hcB hdb (idleB_reach cfg ops u hr) hne

/-! ### why the ack cap cannot be stated "one range per round" for ARBITRARY delivery order

  65 datagrams with the sequence numbers 0, 2, 4, …, 128 (the even-numbered half of a block of consecutive numbers
  `[0, 130)`, handed over before the odd ones) make 65 ranges: `add_pending_ack` drops the oldest one — sequence
  number 0 is never acknowledged — although the COMPLETE block would have been the single range `[0, 130)`. -/
example : ((List.range 65).map (· * 2)).foldl (fun l x => Acks.add ACK_RANGE_CAP x l) [] =
    (List.range 64).map (fun i => (2 * i + 2, 2 * i + 3)) := by decide +kernel

/-! ## Part B — schedule facts without "B's flush is one datagram"; head-room with one datagram of B per round -/

/-- the schedule facts of one round, seen from the state `su` A's flush starts from -/
structure TickSched2 (ch : Nat) (Sched : Sys → Prop) (su : Sys) (r : RoundP) : Prop where
  /-- the scheduling hypothesis of the theorem at hand (H2 / H4) -/
  sched : Sched su
  /-- lossless: every datagram of this flush is handed to B … -/
  all : ∀ k ∈ newIdx su, k ∈ r.ks
  /-- … and nothing else -/
  exact : ∀ k ∈ r.ks, k ∈ newIdx su
  /-- the round hands B at least one datagram (with `exact`: A's flush emitted something) -/
  nonempty : r.ks ≠ []
  /-- the way back: the datagram handed to A is the last one of B's flush -/
  back : ∀ u, su.run (roundOps ch r.ks r.n) = some u → r.ai = ackIdx u

structure RoundSched2 (ch : Nat) (Sched : Sys → Prop) (s : Sys) (r : RoundP) : Prop where
  timer : ∀ sA, SMap.find? s.a.sendRel ch = some sA → sA.resend ≤ r.dt
  drain : (s.submitted ch).length ≤ (s.obtained ch).length + r.n
  tick : ∀ su, s.step (.updA r.dt) = some su → TickSched2 ch Sched su r

def RoundsSched2 (ch : Nat) (Sched : Sys → Prop) : Sys → List RoundP → Prop
  | _, [] => True
  | s, r :: rs => RoundSched2 ch Sched s r ∧ ∀ v, s.run (r.ops ch) = some v → RoundsSched2 ch Sched v rs

/-- head-room on the initial state; differs from `HeadRoom` in `seqB`: ONE datagram of B per round -/
structure HeadRoom2 (cfg : Cfg) (s : Sys) (rs : List RoundP) : Prop where
  sys : CountersOK cfg s
  staticA : StaticOK s.a
  staticB : StaticOK s.b
  seqA : s.a.packetSeq + kTotal rs + rs.length ≤ Varint.MAX + 1
  seqB : s.b.packetSeq + rs.length ≤ Varint.MAX + 1
  acks : s.b.pendingAcks.length + kTotal rs < ACK_RANGE_CAP

/-- **Closing the side conditions, second step**: as `rounds_of_sched`, but "B's flush is one datagram" is no longer a
    hypothesis — B is idle in every reachable state (`idleB_reach`), so `u.b.flushSeq ≤ u.b.packetSeq + 1`
    (`flushSeq_idle`) — and B's sequence number needs room for one datagram per round only. -/
theorem rounds_of_sched2 (cfg : Cfg) (ch : Nat) (ord : Bool) (ho : KindOf cfg ch ord) (Sched : Sys → Prop)
    (hS : ∀ ops' su, (Sys.init cfg).run ops' = some su → Sched su → ∀ p ∈ flushPk su.a, OnlyCh ch p) :
    ∀ (rs : List RoundP) (ops : List SysOp) (s : Sys) (sA : SendRel) (rB : RecvRel),
      (Sys.init cfg).run ops = some s → s.a.isDisconnected = false → s.b.isDisconnected = false →
      SMap.find? s.a.sendRel ch = some sA → SMap.find? s.b.recvRel ch = some rB → Room (s.submitted ch) rB →
      RoundsSched2 ch Sched s rs → HeadRoom2 cfg s rs → Rounds cfg ch Sched s rs
  | [], _, _, _, _, _, _, _, _, _, _, _, _ => trivial
  | r :: rs, ops, s, sA, rB, hr, hda, hdb, hfA, hfB, H3, hRS, hH => by
    obtain ⟨hsch, hnext⟩ := hRS
    obtain ⟨pk, h1, -⟩ := system_inv cfg ops s hr
    obtain ⟨su, hsu⟩ := updA_step h1 r.dt
    have tk := hsch.tick su hsu
    obtain ⟨-, e2, e3, e4, e5, e6, e7, -, -⟩ := updA_frame hsu
    have hrsu := run_snoc hr hsu
    obtain ⟨pku, h1u, -⟩ := system_inv cfg _ su hrsu
    have hkT : kTotal (r :: rs) = r.ks.length + kTotal rs := rfl
    have hseqA := hH.seqA
    have hseqB := hH.seqB
    have hacks := hH.acks
    rw [hkT] at hseqA hacks
    simp only [List.length_cons] at hseqA hseqB
    -- A's flush
    obtain ⟨p0, hp0⟩ := flushPk_ne_of_ks tk.nonempty tk.exact
    have hlen := newIdx_length_le tk.all
    have hfs := flushSeq_le h1u.invA.1 (List.ne_nil_of_mem hp0)
    have hcA : su.a.CountersOK :=
      countersOK_of_static ((step_frame h1 hsu (by intro c m e; cases e)).1 hH.staticA) (by omega)
    have hc : CountersOK cfg su := countersOK_congr e4 e6 e7 hH.sys
    have hcap : su.b.pendingAcks.length + r.ks.length < ACK_RANGE_CAP := by rw [e5]; omega
    have H4 := hS _ su hrsu tk.sched
    have hdau : su.a.isDisconnected = false := by rw [e3]; exact hda
    have hfu : SMap.find? su.a.sendRel ch = some sA := by rw [e2]; exact hfA
    -- the way back
    have hback : ∀ u, su.run (roundOps ch r.ks r.n) = some u →
        u.b.CountersOK ∧ u.b.pendingAcks ≠ [] ∧ r.ai = ackIdx u ∧ u.b.flushSeq ≤ s.b.packetSeq + 1 ∧
        u.b.pendingAcks.length ≤ s.b.pendingAcks.length + r.ks.length := by
      intro u hu
      obtain ⟨hlu, -, -, -⟩ := round_facts cfg _ su hrsu hc hcA hdau (by rw [e5]; exact hdb) ch sA hfu rB
        (by rw [e5]; exact hfB) (by rw [e6]; exact H3) H4 r.ks tk.exact r.n u hu
      obtain ⟨hmem, hlenu⟩ := round_pending cfg _ su hrsu hc hcA hdau ch sA hfu r.ks tk.all r.n u hu hlu hcap
      obtain ⟨hbs, -, hstB, -⟩ := round_headroom cfg ops s hr r.dt su hsu ch r.ks r.n u hu
      have hai := tk.back u hu
      have hru : (Sys.init cfg).run ((ops ++ [SysOp.updA r.dt]) ++ roundOps ch r.ks r.n) = some u := by
        rw [Sys.run_append, hrsu]; exact hu
      have hfsB := flushSeq_idle (idleB_reach cfg _ u hru)
      rw [e5] at hlenu
      exact ⟨countersOK_of_static (hstB hH.staticB) (by omega), mem_ne_nil (hmem p0 hp0), hai, by omega, hlenu⟩
    have hok : RoundOK cfg ch Sched s r := by
      refine ⟨hsch.timer, hsch.drain, ?_⟩
      intro su' hsu'
      have e := Option.some.inj (hsu'.symm.trans hsu)
      subst e
      exact ⟨hc, hcA, tk.sched, tk.all, tk.exact, hcap, fun u hu => ⟨(hback u hu).1, (hback u hu).2.1, (hback u hu).2.2.1⟩⟩
    refine ⟨hok, ?_⟩
    intro v hv
    -- the state after the round
    obtain ⟨v', hv', hlva, hlvb, hsub, -, -, ⟨rB', hfB', H3'⟩, ⟨sA', hfA', -⟩, -⟩ :=
      full_round cfg ops s hr hda hdb ch ord ho sA hfA rB hfB H3 r.dt (hsch.timer sA hfA) su hsu hc hcA 0
        (by simp only [List.take_zero, backlog_nil]; exact Nat.zero_le _) H4 r.ks tk.all tk.exact r.n hsch.drain hcap r.ai
        (fun u hu => ⟨(hback u hu).1, (hback u hu).2.1, (hback u hu).2.2.1⟩)
    have e := Option.some.inj (hv'.symm.trans hv)
    subst e
    have hrv : (Sys.init cfg).run (ops ++ r.ops ch) = some v' := by rw [Sys.run_append, hr]; exact hv
    refine rounds_of_sched2 cfg ch ord ho Sched hS rs _ v' sA' rB' hrv hlva hlvb hfA' hfB' (by rw [hsub]; exact H3')
      (hnext v' hv) ?_
    -- head-room for the next round
    have hv2 := hv
    simp only [RoundP.ops, fullRoundOps, Sys.run, hsu] at hv2
    rw [Sys.run_append] at hv2
    cases hu : su.run (roundOps ch r.ks r.n) with
    | none => rw [hu] at hv2; cases hv2
    | some u =>
      rw [hu] at hv2
      simp only [Option.bind_some] at hv2
      obtain ⟨hcB, -, -, hfB2, hlenu⟩ := hback u hu
      obtain ⟨-, -, -, hrest⟩ := round_headroom cfg ops s hr r.dt su hsu ch r.ks r.n u hu
      obtain ⟨x1, x2, x3, x4, x5, x6, x7⟩ := hrest r.ai v' hv2 hcA hcB
      have hva : v'.a.packetSeq ≤ Varint.MAX + 1 := by omega
      exact ⟨⟨hH.sys.chan, hva, by rw [x6]; exact hH.sys.ids, by rw [x6]; exact hH.sys.lens,
          by rw [x7]; exact hH.sys.lensU⟩, x4 hH.staticA, x5 hH.staticB, by omega, by omega, by rw [x3]; omega⟩


/-! ### executable checkers -/

def headRoom2b (cfg : Cfg) (s : Sys) (rs : List RoundP) : Bool :=
  countersSysb cfg s && staticb s.a && staticb s.b &&
  decide (s.a.packetSeq + kTotal rs + rs.length ≤ Varint.MAX + 1) &&
  decide (s.b.packetSeq + rs.length ≤ Varint.MAX + 1) &&
  decide (s.b.pendingAcks.length + kTotal rs < ACK_RANGE_CAP)

theorem headRoom2_of_b {cfg : Cfg} {s : Sys} {rs : List RoundP} (h : headRoom2b cfg s rs = true) : HeadRoom2 cfg s rs := by
  simp only [headRoom2b, Bool.and_eq_true, decide_eq_true_eq] at h
  obtain ⟨⟨⟨⟨⟨h1, h2⟩, h3⟩, h4⟩, h5⟩, h6⟩ := h
  exact ⟨countersSys_of_b h1, static_of_b h2, static_of_b h3, h4, h5, h6⟩

def tickSched2b (ch : Nat) (schedb : Sys → Bool) (su : Sys) (r : RoundP) : Bool :=
  schedb su && decide (∀ k ∈ newIdx su, k ∈ r.ks) && decide (∀ k ∈ r.ks, k ∈ newIdx su) && !r.ks.isEmpty &&
  (match su.run (roundOps ch r.ks r.n) with
   | some u => decide (r.ai = ackIdx u)
   | none => true)

def roundSched2b (ch : Nat) (schedb : Sys → Bool) (s : Sys) (r : RoundP) : Bool :=
  (match SMap.find? s.a.sendRel ch with
   | some sA => decide (sA.resend ≤ r.dt)
   | none => true) &&
  decide ((s.submitted ch).length ≤ (s.obtained ch).length + r.n) &&
  (match s.step (.updA r.dt) with
   | some su => tickSched2b ch schedb su r
   | none => true)

def roundsSched2b (ch : Nat) (schedb : Sys → Bool) : Sys → List RoundP → Bool
  | _, [] => true
  | s, r :: rs => roundSched2b ch schedb s r &&
    (match s.run (r.ops ch) with
     | some v => roundsSched2b ch schedb v rs
     | none => true)

theorem tickSched2_of_b {ch : Nat} {Sched : Sys → Prop} {schedb : Sys → Bool}
    (hS : ∀ su, schedb su = true → Sched su) {su : Sys} {r : RoundP} (h : tickSched2b ch schedb su r = true) :
    TickSched2 ch Sched su r := by
  simp only [tickSched2b, Bool.and_eq_true, decide_eq_true_eq, Bool.not_eq_true', List.isEmpty_eq_false_iff] at h
  obtain ⟨⟨⟨⟨h1, h2⟩, h3⟩, h4⟩, h5⟩ := h
  refine ⟨hS su h1, h2, h3, h4, ?_⟩
  intro u hu
  rw [hu] at h5
  simpa using h5

theorem roundSched2_of_b {ch : Nat} {Sched : Sys → Prop} {schedb : Sys → Bool}
    (hS : ∀ su, schedb su = true → Sched su) {s : Sys} {r : RoundP} (h : roundSched2b ch schedb s r = true) :
    RoundSched2 ch Sched s r := by
  simp only [roundSched2b, Bool.and_eq_true, decide_eq_true_eq] at h
  obtain ⟨⟨h1, h2⟩, h3⟩ := h
  refine ⟨?_, h2, ?_⟩
  · intro sA hf
    rw [hf] at h1
    simpa using h1
  · intro su hsu
    rw [hsu] at h3
    exact tickSched2_of_b hS h3

theorem roundsSched2_of_b {ch : Nat} {Sched : Sys → Prop} {schedb : Sys → Bool}
    (hS : ∀ su, schedb su = true → Sched su) : ∀ (rs : List RoundP) (s : Sys), roundsSched2b ch schedb s rs = true →
    RoundsSched2 ch Sched s rs
  | [], _, _ => trivial
  | r :: rs, s, h => by
    simp only [roundsSched2b, Bool.and_eq_true] at h
    refine ⟨roundSched2_of_b hS h.1, ?_⟩
    intro v hv
    have h2 := h.2
    rw [hv] at h2
    exact roundsSched2_of_b hS rs v h2

/-- the first-step predicates are special cases: `RoundsSched` (with "B's flush is one datagram") gives `RoundsSched2` -/
theorem roundsSched2_of_roundsSched {ch : Nat} {Sched : Sys → Prop} : ∀ (rs : List RoundP) (s : Sys),
    RoundsSched ch Sched s rs → RoundsSched2 ch Sched s rs
  | [], _, _ => trivial
  | r :: rs, s, h => by
    refine ⟨⟨h.1.timer, h.1.drain, fun su hsu => ?_⟩, fun v hv => roundsSched2_of_roundsSched rs v (h.2 v hv)⟩
    have tk := h.1.tick su hsu
    exact ⟨tk.sched, tk.all, tk.exact, tk.nonempty, fun u hu => (tk.back u hu).1⟩

end RenetVerif.LiveKC
