/-
  Netcode server: the slot-table footprint of every operation (`TableStep`), reachable states (`Reach`, with a ghost
  log of the ClientConnected / ClientDisconnected results), the event discipline, lookups, capacity (property C10).
-/
import RenetVerif.Lemmas.NcTablePP
namespace RenetVerif.Netcode
namespace NS
open RenetVerif

/-! ## Part 4 : what one operation does to the slot table -/

/-- The footprint of an operation on the slot table, as announced by its result:
    * `ClientConnected id addr ud` : a free slot receives a session with exactly that id, address and user data, and
      neither the id nor the address was connected before;
    * `ClientDisconnected id addr` : the slot that held the session with that id (and that address) is freed;
    * anything else : the sessions (id, address, user data, keys, timeout of every slot) are untouched. -/
def TableStep (cl cl' : Slots) : ServerResult → Prop
  | .clientConnected id ad ud _ =>
      ∃ i c, cl[i]? = some none ∧ cl' = cl.set i (some c) ∧ c.clientId = id ∧ c.addr = ad ∧ c.userData = ud ∧
        ∀ j cj, At cl j cj → cj.clientId ≠ id ∧ cj.addr ≠ ad
  | .clientDisconnected id ad _ => ∃ i c, At cl i c ∧ c.clientId = id ∧ c.addr = ad ∧ cl' = cl.set i none
  | _ => sessions cl' = sessions cl

theorem hcr_clients {a : AEAD} {s : NetcodeServer} {addr : Addr} {v : Bytes} {pid expire : Nat} {xnonce data : Bytes}
    {R : NetcodeServer.SRes} {r : ServerResult} {s' : NetcodeServer}
    (ho : HcrOut a s addr v pid expire xnonce data R) (hr : HcrRes R r s') :
    s'.clients = s.clients ∧ (r = .none ∨ ∃ out, r = .packetToSend addr out) := by
  cases ho with
  | err e => rcases hr with h | ⟨rfl, e', h⟩ <;> cases h; exact ⟨rfl, Or.inl rfl⟩
  | none => rcases hr with h | ⟨rfl, e', h⟩ <;> cases h; exact ⟨rfl, Or.inl rfl⟩
  | deniedErr t s1 e hacc hstep hfull =>
    rcases hr with h | ⟨rfl, e', h⟩ <;> cases h
    exact ⟨(entryStep_fields hstep).1, Or.inl rfl⟩
  | denied t s1 out hacc hstep hfull hen =>
    rcases hr with h | ⟨rfl, e', h⟩ <;> cases h
    exact ⟨(entryStep_fields hstep).1, Or.inr ⟨out, rfl⟩⟩
  | challengeErr t s1 e hacc hstep hfull =>
    rcases hr with h | ⟨rfl, e', h⟩ <;> cases h
    exact ⟨(entryStep_fields hstep).1, Or.inl rfl⟩
  | challenge t s1 pkt out hacc hstep hfull hgen hen =>
    rcases hr with h | ⟨rfl, e', h⟩ <;> cases h
    exact ⟨(entryStep_fields hstep).1, Or.inr ⟨out, rfl⟩⟩

theorem tableStep_of_clients_eq {cl cl' : Slots} {r : ServerResult} (h : cl' = cl)
    (hr : r = .none ∨ ∃ ad out, r = .packetToSend ad out) : TableStep cl cl' r := by
  rcases hr with rfl | ⟨ad, out, rfl⟩ <;> (show sessions cl' = sessions cl; rw [h])

/-- the footprint of `process_packet` -/
theorem ppOut_step {a : AEAD} {s : NetcodeServer} {addr : Addr} {buf : Bytes} {r : ServerResult} {s' : NetcodeServer}
    (hi : ServerInv s) (ho : PPOut a s addr buf r s') : TableStep s.clients s'.clients r := by
  cases ho with
  | short _ => exact rfl
  | connErr i c e w' hfa hdec => exact sessions_set_same (findAddr_some hfa).1 rfl
  | connDisconnect i c sq w' hfa hdec =>
    exact ⟨i, c, (findAddr_some hfa).1, rfl, (findAddr_some hfa).2, rfl⟩
  | connPayload i c sq p w' hfa hdec => exact sessions_set_same (findAddr_some hfa).1 rfl
  | connKeepAlive i c sq ci mc w' hfa hdec => exact sessions_set_same (findAddr_some hfa).1 rfl
  | connOther i c sq pk w' hfa hdec _ _ _ => exact sessions_set_same (findAddr_some hfa).1 rfl
  | pendErr p e w' hfa hpf hdec => exact rfl
  | pendRequest p sq v pid expire xnonce data w' R _ _ hfa hpf hdec hout hres =>
    obtain ⟨h1, h2⟩ := hcr_clients hout hres
    refine tableStep_of_clients_eq h1 ?_
    rcases h2 with h | ⟨out, h⟩
    · exact Or.inl h
    · exact Or.inr ⟨_, out, h⟩
  | pendOther p sq pk w' hfa hpf hdec _ _ => exact rfl
  | respRejected p sq ts td w' hfa hpf hdec _ => exact rfl
  | respDropped p sq ts td w' hfa hpf hdec _ => exact rfl
  | respFull p sq ts td w' out hfa hpf hdec _ _ _ _ => exact rfl
  | respConnected p sq ts td w' i out hfa hpf hdec hct hid hff hen =>
    have hk := (hi.pend (addr, p) (pendingFind_mem hpf)).key
    refine ⟨i, promoted p w' s.currentTime, firstFree_some hff, rfl, rfl, hk, rfl, ?_⟩
    intro j cj hj
    exact ⟨findById_none.mp hid j cj hj, findAddr_none.mp hfa j cj hj⟩
  | newErr e hfa hpf hdec => exact rfl
  | newRequest sq v pid expire xnonce data R _ _ hfa hpf hdec hout hres =>
    obtain ⟨h1, h2⟩ := hcr_clients hout hres
    refine tableStep_of_clients_eq h1 ?_
    rcases h2 with h | ⟨out, h⟩
    · exact Or.inl h
    · exact Or.inr ⟨_, out, h⟩

/-- a payload is surfaced under the id of the session connected from the datagram's source address -/
theorem ppOut_payload {a : AEAD} {s : NetcodeServer} {addr : Addr} {buf : Bytes} {id : Nat} {p : Bytes}
    {s' : NetcodeServer} (ho : PPOut a s addr buf (.payload id p) s') :
    ∃ i c sq w', At s.clients i c ∧ c.clientId = id ∧ c.addr = addr ∧
      Packet.decode a buf s.protocolId (some c.receiveKey) (some c.replayProtection) = (.ok (sq, .payload p), some w') := by
  generalize hr : ServerResult.payload id p = r at ho
  cases ho with
  | connPayload i c sq p' w' hfa hdec =>
    cases hr
    exact ⟨i, c, sq, w', (findAddr_some hfa).1, rfl, (findAddr_some hfa).2, hdec⟩
  | pendRequest p' sq v pid expire xnonce data w' R _ _ hfa hpf hdec hout hres =>
    subst hr
    rcases (hcr_clients hout hres).2 with h | ⟨_, h⟩ <;> cases h
  | newRequest sq v pid expire xnonce data R _ _ hfa hpf hdec hout hres =>
    subst hr
    rcases (hcr_clients hout hres).2 with h | ⟨_, h⟩ <;> cases h
  | _ => cases hr

theorem disconnect_step {a : AEAD} {s s' : NetcodeServer} {id : Nat} {r : ServerResult}
    (hd : s.disconnect a id = .ok (r, s')) : TableStep s.clients s'.clients r ∧
      (∀ id' ad o, r = .clientDisconnected id' ad o → id' = id) := by
  rcases disconnect_spec a s id with ⟨_, e⟩ | ⟨i, c, o, _, hc, hid, e⟩
  · rw [e] at hd; cases hd; exact ⟨rfl, fun _ _ _ h => by cases h⟩
  · rw [e] at hd; cases hd
    exact ⟨⟨i, c, hc, hid, rfl, rfl⟩, fun _ _ _ h => by cases h; rfl⟩

theorem updateClient_step {a : AEAD} {s s' : NetcodeServer} {id : Nat} {r : ServerResult} (hi : ServerInv s)
    (hu : s.updateClient a id = .ok (r, s')) : TableStep s.clients s'.clients r := by
  cases hf : findClientSlotById s.clients id with
  | none => rw [updateClient_absent a hf] at hu; cases hu; exact rfl
  | some i =>
    obtain ⟨c, hc, hid, _⟩ := findSlot_some hf
    rcases updateClient_spec a hi hf hc with ⟨_, o, e⟩ | ⟨_, e | ⟨out, _, _, e⟩⟩ | ⟨⟨m, e⟩, _⟩
    · rw [e] at hu; cases hu; exact ⟨i, c, hc, hid, rfl, rfl⟩
    · rw [e] at hu; cases hu; exact rfl
    · rw [e] at hu; cases hu; exact sessions_set_same hc rfl
    · rw [e] at hu; cases hu

theorem generatePayload_step {a : AEAD} {s s' : NetcodeServer} {id : Nat} {payload out : Bytes} {ad : Addr}
    (h : s.generatePayloadPacket a id payload = .ok ((ad, out), s')) : sessions s'.clients = sessions s.clients := by
  obtain ⟨i, c, _, hc, _, _, _, rfl⟩ := generatePayload_ok h
  exact sessions_set_same hc rfl

/-! ## Part 5 : reachable states and the event log -/

/-- the public operations of `NetcodeServer` -/
inductive Op where
  | packet (addr : Addr) (buf : Bytes)
  | update (duration : Nat)
  | updateClient (clientId : Nat)
  | disconnect (clientId : Nat)
  | setMaxClients (maxClients : Nat)
  | sendPayload (clientId : Nat) (payload : Bytes)

/-- one operation; `none` = the call unwinds.  (`generate_payload_packet` returning `Err` leaves the state as it is.) -/
def step (a : AEAD) (s : NetcodeServer) : Op → Option (ServerResult × NetcodeServer)
  | .packet addr buf => match s.processPacket a addr buf with
    | .ok x => some x
    | _ => none
  | .update d => match s.update d with
    | .ok s' => some (.none, s')
    | _ => none
  | .updateClient id => match s.updateClient a id with
    | .ok x => some x
    | _ => none
  | .disconnect id => match s.disconnect a id with
    | .ok x => some x
    | _ => none
  | .setMaxClients m => some (.none, s.setMaxClients m)
  | .sendPayload id p => match s.generatePayloadPacket a id p with
    | .ok ((ad, out), s') => some (.packetToSend ad out, s')
    | .err _ => some (.none, s)
    | .panic _ => none

/-- the invariant is preserved by every operation, for every input -/
theorem step_inv {a : AEAD} {s s' : NetcodeServer} {op : Op} {r : ServerResult} (hi : ServerInv s)
    (h : step a s op = some (r, s')) : ServerInv s' := by
  cases op with
  | packet addr buf =>
    simp only [step] at h
    cases hp : s.processPacket a addr buf with
    | ok x => rw [hp] at h; cases h; exact ppOut_inv hi (pp_ok hi hp)
    | err e => exact e.elim
    | panic m => rw [hp] at h; cases h
  | update d =>
    simp only [step] at h
    cases hp : s.update d with
    | ok x => rw [hp] at h; cases h; exact update_inv hi hp
    | err e => exact e.elim
    | panic m => rw [hp] at h; cases h
  | updateClient id =>
    simp only [step] at h
    cases hp : s.updateClient a id with
    | ok x => rw [hp] at h; cases h; exact updateClient_inv hi hp
    | err e => exact e.elim
    | panic m => rw [hp] at h; cases h
  | disconnect id =>
    simp only [step] at h
    cases hp : s.disconnect a id with
    | ok x => rw [hp] at h; cases h; exact disconnect_inv hi hp
    | err e => exact e.elim
    | panic m => rw [hp] at h; cases h
  | setMaxClients m => simp only [step, Option.some.injEq, Prod.mk.injEq] at h; rw [← h.2]; exact setMaxClients_inv hi m
  | sendPayload id p =>
    simp only [step] at h
    cases hp : s.generatePayloadPacket a id p with
    | ok x =>
      obtain ⟨⟨ad, out⟩, s''⟩ := x
      rw [hp] at h; cases h; exact generatePayload_inv hi hp
    | err e => rw [hp] at h; cases h; exact hi
    | panic m => rw [hp] at h; cases h

/-- a growth of the slot list by free slots (what `set_max_clients` may do) -/
def Grown (cl cl' : Slots) : Prop := ∃ n, cl' = cl ++ List.replicate n none

/-- the slot-table footprint of every operation -/
theorem step_table {a : AEAD} {s s' : NetcodeServer} {op : Op} {r : ServerResult} (hi : ServerInv s)
    (h : step a s op = some (r, s')) : TableStep s.clients s'.clients r ∨ (r = .none ∧ Grown s.clients s'.clients) := by
  cases op with
  | packet addr buf =>
    simp only [step] at h
    cases hp : s.processPacket a addr buf with
    | ok x => rw [hp] at h; cases h; exact Or.inl (ppOut_step hi (pp_ok hi hp))
    | err e => exact e.elim
    | panic m => rw [hp] at h; cases h
  | update d =>
    simp only [step] at h
    cases hp : s.update d with
    | ok x => rw [hp] at h; cases h; rw [update_ok hp]; exact Or.inl rfl
    | err e => exact e.elim
    | panic m => rw [hp] at h; cases h
  | updateClient id =>
    simp only [step] at h
    cases hp : s.updateClient a id with
    | ok x => rw [hp] at h; cases h; exact Or.inl (updateClient_step hi hp)
    | err e => exact e.elim
    | panic m => rw [hp] at h; cases h
  | disconnect id =>
    simp only [step] at h
    cases hp : s.disconnect a id with
    | ok x => rw [hp] at h; cases h; exact Or.inl (disconnect_step hp).1
    | err e => exact e.elim
    | panic m => rw [hp] at h; cases h
  | setMaxClients m =>
    simp only [step, Option.some.injEq, Prod.mk.injEq] at h
    rw [← h.1, ← h.2]
    exact Or.inr ⟨rfl, _, (setMaxClients_eq s m).2.1⟩
  | sendPayload id p =>
    simp only [step] at h
    cases hp : s.generatePayloadPacket a id p with
    | ok x =>
      obtain ⟨⟨ad, out⟩, s''⟩ := x
      rw [hp] at h; cases h; exact Or.inl (generatePayload_step hp)
    | err e => rw [hp] at h; cases h; exact Or.inl rfl
    | panic m => rw [hp] at h; cases h

/-! ### the event log -/

/-- what the application sees of the connection table -/
inductive Event where
  | connected (id : Nat) (addr : Addr) (userData : Bytes)
  | disconnected (id : Nat) (addr : Addr)
  deriving DecidableEq, Repr

/-- the event projection of a `ServerResult` -/
def eventOf : ServerResult → List Event
  | .clientConnected id ad ud _ => [.connected id ad ud]
  | .clientDisconnected id ad _ => [.disconnected id ad]
  | _ => []

/-- a connected session as the application knows it -/
abbrev Sess := Nat × Addr × Bytes

/-- Replaying a log against the set of live sessions; `none` = the log breaks the discipline:
    `connected id addr ud` needs `id` and `addr` not live; `disconnected id addr` needs a live session with that id
    and address, and ends it. -/
def replay : List Event → List Sess → Option (List Sess)
  | [], L => some L
  | .connected id ad ud :: rest, L =>
    if L.any (fun x => x.1 = id ∨ x.2.1 = ad) then none else replay rest (L ++ [(id, ad, ud)])
  | .disconnected id ad :: rest, L =>
    if L.any (fun x => x.1 = id ∧ x.2.1 = ad) then replay rest (L.filter fun x => ¬ (x.1 = id ∧ x.2.1 = ad)) else none

theorem replay_append : ∀ (l1 l2 : List Event) (L : List Sess),
    replay (l1 ++ l2) L = (replay l1 L).bind (replay l2)
  | [], l2, L => rfl
  | .connected id ad ud :: rest, l2, L => by
    simp only [List.cons_append, replay]
    split
    · rfl
    · exact replay_append rest l2 _
  | .disconnected id ad :: rest, l2, L => by
    simp only [List.cons_append, replay]
    split
    · exact replay_append rest l2 _
    · rfl

/-- the live sessions are exactly the occupied slots -/
def Agree (cl : Slots) (L : List Sess) : Prop :=
  ∀ id ad ud, (id, ad, ud) ∈ L ↔ ∃ i c, At cl i c ∧ c.clientId = id ∧ c.addr = ad ∧ c.userData = ud

theorem agree_of_sessions {cl cl' : Slots} {L : List Sess} (h : sessions cl' = sessions cl) (ha : Agree cl L) :
    Agree cl' L := by
  intro id ad ud
  rw [ha id ad ud]
  constructor
  · rintro ⟨i, c, hc, h1, h2, h3⟩
    obtain ⟨c', hc', hi⟩ := at_sessions h.symm hc
    simp only [ident, Ident.mk.injEq] at hi
    exact ⟨i, c', hc', by rw [hi.1, h1], by rw [hi.2.1, h2], by rw [hi.2.2.1, h3]⟩
  · rintro ⟨i, c, hc, h1, h2, h3⟩
    obtain ⟨c', hc', hi⟩ := at_sessions h hc
    simp only [ident, Ident.mk.injEq] at hi
    exact ⟨i, c', hc', by rw [hi.1, h1], by rw [hi.2.1, h2], by rw [hi.2.2.1, h3]⟩

theorem agree_grown {cl cl' : Slots} {L : List Sess} (h : Grown cl cl') (ha : Agree cl L) : Agree cl' L := by
  obtain ⟨n, rfl⟩ := h
  intro id ad ud
  rw [ha id ad ud]
  constructor
  · rintro ⟨i, c, hc, h⟩; exact ⟨i, c, at_append_none.mpr hc, h⟩
  · rintro ⟨i, c, hc, h⟩; exact ⟨i, c, at_append_none.mp hc, h⟩

/-- one table step replays: the result's event is admissible for the live set, and the new live set is the new table -/
theorem agree_step {cl cl' : Slots} {L : List Sess} {r : ServerResult} (hs : SlotsOK cl) (ha : Agree cl L)
    (ht : TableStep cl cl' r) : ∃ L', replay (eventOf r) L = some L' ∧ Agree cl' L' := by
  cases r with
  | none => exact ⟨L, rfl, agree_of_sessions ht ha⟩
  | packetToSend ad out => exact ⟨L, rfl, agree_of_sessions ht ha⟩
  | payload id p => exact ⟨L, rfl, agree_of_sessions ht ha⟩
  | clientConnected id ad ud out =>
    obtain ⟨i, c, hfree, rfl, hid, had, hud, hfresh⟩ := ht
    have hany : ¬ (L.any (fun x => x.1 = id ∨ x.2.1 = ad) = true) := by
      rw [List.any_eq_true]
      rintro ⟨⟨id', ad', ud'⟩, hx, hor⟩
      obtain ⟨j, cj, hj, h1, h2, h3⟩ := (ha id' ad' ud').mp hx
      have := hfresh j cj hj
      simp only [decide_eq_true_eq, Bool.or_eq_true] at hor
      rcases hor with h | h
      · exact this.1 (by rw [h1]; exact h)
      · exact this.2 (by rw [h2]; exact h)
    refine ⟨L ++ [(id, ad, ud)], by simp only [eventOf, replay, if_neg hany], ?_⟩
    intro id' ad' ud'
    simp only [List.mem_append, List.mem_singleton, Prod.mk.injEq]
    rw [ha id' ad' ud']
    have hlt : i < cl.length := (List.getElem?_eq_some_iff.mp hfree).1
    constructor
    · rintro (⟨j, cj, hj, h⟩ | ⟨rfl, rfl, rfl⟩)
      · refine ⟨j, cj, at_set_of_ne ?_ hj, h⟩
        intro e; subst e
        unfold At at hj; rw [hfree] at hj; simp at hj
      · exact ⟨i, c, at_set_self hlt, hid, had, hud⟩
    · rintro ⟨j, cj, hj, h1, h2, h3⟩
      rcases at_set_some hj with ⟨_, rfl⟩ | ⟨_, hj'⟩
      · right; exact ⟨by rw [← h1, hid], by rw [← h2, had], by rw [← h3, hud]⟩
      · left; exact ⟨j, cj, hj', h1, h2, h3⟩
  | clientDisconnected id ad out =>
    obtain ⟨i, c, hc, hid, had, rfl⟩ := ht
    have hany : L.any (fun x => x.1 = id ∧ x.2.1 = ad) = true := by
      rw [List.any_eq_true]
      exact ⟨(id, ad, c.userData), (ha id ad c.userData).mpr ⟨i, c, hc, hid, had, rfl⟩, by simp⟩
    refine ⟨L.filter fun x => ¬ (x.1 = id ∧ x.2.1 = ad), by simp only [eventOf, replay, if_pos hany], ?_⟩
    intro id' ad' ud'
    simp only [List.mem_filter, decide_eq_true_eq]
    rw [ha id' ad' ud']
    constructor
    · rintro ⟨⟨j, cj, hj, h1, h2, h3⟩, hne⟩
      refine ⟨j, cj, at_set_of_ne ?_ hj, h1, h2, h3⟩
      intro e; subst e
      have := at_inj hc hj; subst this
      exact hne ⟨by rw [← h1, hid], by rw [← h2, had]⟩
    · rintro ⟨j, cj, hj, h1, h2, h3⟩
      obtain ⟨hj', hne⟩ := at_set_none hj
      refine ⟨⟨j, cj, hj', h1, h2, h3⟩, ?_⟩
      rintro ⟨e1, _⟩
      exact hne (hs.ids i j c cj hc hj' (by rw [hid, h1, e1]))

/-- States reachable from an empty server (in particular from `NetcodeServer::new`, `Reach.new`) by the public
    operations (any inputs, any interleaving), with the log of the `ClientConnected` / `ClientDisconnected` results
    returned so far. -/
inductive Reach (a : AEAD) : NetcodeServer → List Event → Prop
  | init {s : NetcodeServer} : EmptyServer s → Reach a s []
  | step {s s' : NetcodeServer} {log : List Event} {op : Op} {r : ServerResult} :
      Reach a s log → step a s op = some (r, s') → Reach a s' (log ++ eventOf r)

theorem Reach.new {a : AEAD} {t m pid : Nat} {pa : List Addr} {sec : Bool} {k ck : Bytes} {s : NetcodeServer}
    (h : NetcodeServer.new t m pid pa sec k ck = .ok s) : Reach a s [] := .init (new_inv h).2.2.2.2.2.1

/-- **every reachable state satisfies the invariant** -/
theorem Reach.inv {a : AEAD} {s : NetcodeServer} {log : List Event} (h : Reach a s log) : ServerInv s := by
  induction h with
  | init h => exact h.inv
  | step _ hs ih => exact step_inv ih hs

/-- **the log of a reachable state replays, and what it leaves live is exactly the occupied slots** -/
theorem Reach.log {a : AEAD} {s : NetcodeServer} {log : List Event} (h : Reach a s log) :
    ∃ L, replay log [] = some L ∧ Agree s.clients L := by
  induction h with
  | init h =>
    refine ⟨[], rfl, ?_⟩
    intro id ad ud
    rw [h.clients]
    simp only [List.not_mem_nil, false_iff, not_exists, not_and]
    intro i c hc
    exact absurd hc (by unfold At; rw [List.getElem?_replicate]; split <;> simp)
  | step hr hs ih =>
    obtain ⟨L, hL, ha⟩ := ih
    have hi := hr.inv
    rw [replay_append, hL]
    rcases step_table hi hs with ht | ⟨rfl, hg⟩
    · exact agree_step hi.slots ha ht
    · exact ⟨L, rfl, agree_grown hg ha⟩

/-! ### what a replayable log looks like -/

/-- ids pairwise distinct and addresses pairwise distinct -/
def Distinct (L : List Sess) : Prop := (L.map (·.1)).Nodup ∧ (L.map (·.2.1)).Nodup

theorem replay_distinct : ∀ (l : List Event) (L L' : List Sess), replay l L = some L' → Distinct L → Distinct L'
  | [], L, L', h, hd => by simp only [replay, Option.some.injEq] at h; rw [← h]; exact hd
  | .connected id ad ud :: rest, L, L', h, hd => by
    simp only [replay] at h
    split at h
    · cases h
    · rename_i hany
      refine replay_distinct rest _ L' h ?_
      rw [List.any_eq_true] at hany
      have hn : ∀ x ∈ L, x.1 ≠ id ∧ x.2.1 ≠ ad := by
        intro x hx
        constructor
        · intro e; exact hany ⟨x, hx, by simp [e]⟩
        · intro e; exact hany ⟨x, hx, by simp [e]⟩
      constructor
      · rw [List.map_append, List.nodup_append]
        refine ⟨hd.1, by simp, ?_⟩
        intro p hp q hq
        simp only [List.map_cons, List.map_nil, List.mem_singleton] at hq
        subst hq
        obtain ⟨x, hx, rfl⟩ := List.mem_map.mp hp
        exact (hn x hx).1
      · rw [List.map_append, List.nodup_append]
        refine ⟨hd.2, by simp, ?_⟩
        intro p hp q hq
        simp only [List.map_cons, List.map_nil, List.mem_singleton] at hq
        subst hq
        obtain ⟨x, hx, rfl⟩ := List.mem_map.mp hp
        exact (hn x hx).2
  | .disconnected id ad :: rest, L, L', h, hd => by
    simp only [replay] at h
    split at h
    · refine replay_distinct rest _ L' h ?_
      exact ⟨hd.1.sublist (List.filter_sublist.map _), hd.2.sublist (List.filter_sublist.map _)⟩
    · cases h

/-- where a live session comes from: it was live at the start and never disconnected, or the log has a
    `connected` event for it that no later `disconnected` event matches -/
theorem replay_mem_origin : ∀ (l : List Event) (L L' : List Sess) (x : Sess), replay l L = some L' → x ∈ L' →
    (x ∈ L ∧ Event.disconnected x.1 x.2.1 ∉ l) ∨
    ∃ l1 l2, l = l1 ++ Event.connected x.1 x.2.1 x.2.2 :: l2 ∧ Event.disconnected x.1 x.2.1 ∉ l2
  | [], L, L', x, h, hx => by
    simp only [replay, Option.some.injEq] at h; subst h; exact Or.inl ⟨hx, by simp⟩
  | .connected id ad ud :: rest, L, L', x, h, hx => by
    simp only [replay] at h
    split at h
    · cases h
    · rcases replay_mem_origin rest _ L' x h hx with ⟨hm, hn⟩ | ⟨l1, l2, e, hn⟩
      · simp only [List.mem_append, List.mem_singleton] at hm
        rcases hm with hm | rfl
        · exact Or.inl ⟨hm, by simp [hn]⟩
        · exact Or.inr ⟨[], rest, rfl, hn⟩
      · exact Or.inr ⟨.connected id ad ud :: l1, l2, by rw [e]; rfl, hn⟩
  | .disconnected id ad :: rest, L, L', x, h, hx => by
    simp only [replay] at h
    split at h
    · rcases replay_mem_origin rest _ L' x h hx with ⟨hm, hn⟩ | ⟨l1, l2, e, hn⟩
      · simp only [List.mem_filter, decide_eq_true_eq] at hm
        refine Or.inl ⟨hm.1, ?_⟩
        simp only [List.mem_cons, Event.disconnected.injEq, not_or]
        exact ⟨fun e => hm.2 ⟨e.1, e.2⟩, hn⟩
      · exact Or.inr ⟨.disconnected id ad :: l1, l2, by rw [e]; rfl, hn⟩
    · cases h

/-- a live session stays live as long as no `disconnected` event names it -/
theorem replay_mem_persist : ∀ (l : List Event) (L L' : List Sess) (x : Sess), replay l L = some L' → x ∈ L →
    Event.disconnected x.1 x.2.1 ∉ l → x ∈ L'
  | [], L, L', x, h, hx, _ => by simp only [replay, Option.some.injEq] at h; subst h; exact hx
  | .connected id ad ud :: rest, L, L', x, h, hx, hn => by
    simp only [replay] at h
    split at h
    · cases h
    · exact replay_mem_persist rest _ L' x h (List.mem_append_left _ hx) (fun hm => hn (List.mem_cons_of_mem _ hm))
  | .disconnected id ad :: rest, L, L', x, h, hx, hn => by
    simp only [replay] at h
    split at h
    · refine replay_mem_persist rest _ L' x h ?_ (fun hm => hn (List.mem_cons_of_mem _ hm))
      simp only [List.mem_filter, decide_eq_true_eq]
      refine ⟨hx, ?_⟩
      rintro ⟨e1, e2⟩
      exact hn (by rw [e1, e2]; simp)
    · cases h

/-- **A `disconnected id addr` event is always preceded by a `connected id addr _` event that no `disconnected id addr`
    in between has matched.** -/
theorem replay_disconnected {pre post : List Event} {id : Nat} {ad : Addr} {L : List Sess}
    (h : replay (pre ++ .disconnected id ad :: post) [] = some L) :
    ∃ ud l1 l2, pre = l1 ++ .connected id ad ud :: l2 ∧ Event.disconnected id ad ∉ l2 := by
  rw [replay_append] at h
  cases hp : replay pre [] with
  | none => rw [hp] at h; cases h
  | some Lp =>
    rw [hp] at h
    simp only [Option.bind_some, replay] at h
    split at h
    · rename_i hany
      rw [List.any_eq_true] at hany
      obtain ⟨x, hx, he⟩ := hany
      simp only [decide_eq_true_eq] at he
      rcases replay_mem_origin pre [] Lp x hp hx with ⟨hm, _⟩ | ⟨l1, l2, e, hn⟩
      · cases hm
      · rw [he.1, he.2] at e hn
        exact ⟨x.2.2, l1, l2, e, hn⟩
    · cases h

/-- **After `connected id …` no second `connected id …` occurs before a `disconnected id` (naming the same address as
    the first).** -/
theorem replay_connected_twice {pre mid post : List Event} {id : Nat} {ad ad' : Addr} {ud ud' : Bytes} {L : List Sess}
    (h : replay (pre ++ .connected id ad ud :: (mid ++ .connected id ad' ud' :: post)) [] = some L) :
    Event.disconnected id ad ∈ mid := by
  rw [replay_append] at h
  cases hp : replay pre [] with
  | none => rw [hp] at h; cases h
  | some Lp =>
    rw [hp] at h
    simp only [Option.bind_some, replay] at h
    split at h
    · cases h
    · rw [replay_append] at h
      cases hm : replay mid (Lp ++ [(id, ad, ud)]) with
      | none => rw [hm] at h; cases h
      | some Lm =>
        rw [hm] at h
        simp only [Option.bind_some, replay] at h
        split at h
        · cases h
        · rename_i hany
          apply Classical.byContradiction
          intro hn
          have := replay_mem_persist mid _ Lm (id, ad, ud) hm (by simp) hn
          exact hany (List.any_eq_true.mpr ⟨_, this, by simp⟩)

theorem distinct_id_eq : ∀ {L : List Sess}, (L.map (·.1)).Nodup → ∀ {x y : Sess}, x ∈ L → y ∈ L → x.1 = y.1 → x = y
  | [], _, _, _, hx, _, _ => by cases hx
  | a :: rest, hd, x, y, hx, hy, h => by
    simp only [List.map_cons, List.nodup_cons, List.mem_map, not_exists, not_and] at hd
    simp only [List.mem_cons] at hx hy
    rcases hx with rfl | hx <;> rcases hy with rfl | hy
    · rfl
    · exact absurd h.symm (hd.1 y hy)
    · exact absurd h (hd.1 x hx)
    · exact distinct_id_eq hd.2 hx hy h

/-- **Every `connected` is matched by at most one `disconnected`: between two `disconnected id …` events there is a
    `connected id …`.** -/
theorem replay_disconnected_twice {pre mid post : List Event} {id : Nat} {ad ad' : Addr} {L : List Sess}
    (h : replay (pre ++ .disconnected id ad :: (mid ++ .disconnected id ad' :: post)) [] = some L) :
    ∃ ud, Event.connected id ad' ud ∈ mid := by
  rw [replay_append] at h
  cases hp : replay pre [] with
  | none => rw [hp] at h; cases h
  | some Lp =>
    rw [hp] at h
    have hdp : Distinct Lp := replay_distinct pre [] Lp hp ⟨List.nodup_nil, List.nodup_nil⟩
    simp only [Option.bind_some, replay] at h
    split at h
    · rename_i hany1
      rw [replay_append] at h
      cases hm : replay mid (Lp.filter fun x => ¬ (x.1 = id ∧ x.2.1 = ad)) with
      | none => rw [hm] at h; cases h
      | some Lm =>
        rw [hm] at h
        simp only [Option.bind_some, replay] at h
        split at h
        · rename_i hany2
          rw [List.any_eq_true] at hany2
          obtain ⟨x, hx, he⟩ := hany2
          simp only [decide_eq_true_eq] at he
          rcases replay_mem_origin mid _ Lm x hm hx with ⟨hmem, _⟩ | ⟨l1, l2, e, _⟩
          · -- it cannot have survived the first `disconnected`: ids are distinct
            exfalso
            simp only [List.mem_filter, decide_eq_true_eq] at hmem
            rw [List.any_eq_true] at hany1
            obtain ⟨y, hy, he1⟩ := hany1
            simp only [decide_eq_true_eq] at he1
            have hxy : x = y := distinct_id_eq hdp.1 hmem.1 hy (by rw [he.1, he1.1])
            subst hxy
            exact hmem.2 he1
          · refine ⟨x.2.2, ?_⟩
            rw [e, ← he.1, ← he.2]; simp
        · cases h
    · cases h

/-! ### lookups -/

theorem clientAddr_iff {s : NetcodeServer} (hs : SlotsOK s.clients) {id : Nat} {ad : Addr} :
    s.clientAddr id = some ad ↔ ∃ i c, At s.clients i c ∧ c.clientId = id ∧ c.addr = ad := by
  unfold NetcodeServer.clientAddr
  simp only [Option.map_eq_some_iff]
  constructor
  · rintro ⟨c, hc, rfl⟩
    obtain ⟨h1, i, h2⟩ := hs.findById_iff.mp hc
    exact ⟨i, c, h2, h1, rfl⟩
  · rintro ⟨i, c, h2, h1, rfl⟩
    exact ⟨c, hs.findById_iff.mpr ⟨h1, i, h2⟩, rfl⟩

theorem userData_iff {s : NetcodeServer} (hs : SlotsOK s.clients) {id : Nat} {ud : Bytes} :
    s.userData id = some ud ↔ ∃ i c, At s.clients i c ∧ c.clientId = id ∧ c.userData = ud := by
  unfold NetcodeServer.userData
  simp only [Option.map_eq_some_iff]
  constructor
  · rintro ⟨c, hc, rfl⟩
    obtain ⟨h1, i, h2⟩ := hs.findById_iff.mp hc
    exact ⟨i, c, h2, h1, rfl⟩
  · rintro ⟨i, c, h2, h1, rfl⟩
    exact ⟨c, hs.findById_iff.mpr ⟨h1, i, h2⟩, rfl⟩

theorem isClientConnected_iff {s : NetcodeServer} {id : Nat} :
    s.isClientConnected id = true ↔ ∃ i c, At s.clients i c ∧ c.clientId = id := by
  unfold NetcodeServer.isClientConnected
  rw [findSlot_isSome]
  cases h : findClientById s.clients id with
  | none =>
    simp only [Option.isSome_none, Bool.false_eq_true, false_iff, not_exists, not_and]
    exact findById_none.mp h
  | some c =>
    obtain ⟨h1, i, h2⟩ := findById_some h
    simp only [Option.isSome_some, true_iff]
    exact ⟨i, c, h2, h1⟩

/-- `clients_id()` lists the ids of the occupied slots, without repetition -/
theorem clientsId_nodup {s : NetcodeServer} (hs : SlotsOK s.clients) : s.clientsId.Nodup := by
  unfold NetcodeServer.clientsId
  rw [List.nodup_iff_pairwise_ne]
  have key : ∀ (cl : Slots), (∀ i j ci cj, At cl i ci → At cl j cj → ci.clientId = cj.clientId → i = j) →
      List.Pairwise (· ≠ ·) (cl.filterMap fun c => c.map (·.clientId)) := by
    intro cl
    induction cl with
    | nil => intro _; simp
    | cons x rest ih =>
      intro h
      have hrest := ih (fun i j ci cj hi hj he => by
        have := h (i + 1) (j + 1) ci cj (by simpa using hi) (by simpa using hj) he
        omega)
      cases x with
      | none => simpa [List.filterMap_cons] using hrest
      | some c =>
        simp only [List.filterMap_cons, Option.map_some, List.pairwise_cons]
        refine ⟨?_, hrest⟩
        intro id hid
        simp only [List.mem_filterMap, Option.map_eq_some_iff] at hid
        obtain ⟨x, hx, c', rfl, rfl⟩ := hid
        obtain ⟨j, hj⟩ := mem_at hx
        intro e
        have := h 0 (j + 1) c c' (by simp) (by simpa using hj) e
        omega
  exact key s.clients hs.ids

/-- **Lookups by id answer with the session the log says is live for that id.** -/
theorem Reach.lookups {a : AEAD} {s : NetcodeServer} {log : List Event} {L : List Sess} (hr : Reach a s log)
    (hL : replay log [] = some L) (id : Nat) :
    (∀ ad, s.clientAddr id = some ad ↔ ∃ ud, (id, ad, ud) ∈ L) ∧
    (∀ ud, s.userData id = some ud ↔ ∃ ad, (id, ad, ud) ∈ L) ∧
    (s.isClientConnected id = true ↔ ∃ ad ud, (id, ad, ud) ∈ L) ∧
    (∀ ad ud, s.clientAddr id = some ad → s.userData id = some ud → (id, ad, ud) ∈ L) := by
  obtain ⟨L', hL', ha⟩ := hr.log
  rw [hL] at hL'; cases hL'
  have hs := hr.inv.slots
  refine ⟨?_, ?_, ?_, ?_⟩
  · intro ad
    rw [clientAddr_iff hs]
    constructor
    · rintro ⟨i, c, h1, h2, h3⟩; exact ⟨c.userData, (ha id ad c.userData).mpr ⟨i, c, h1, h2, h3, rfl⟩⟩
    · rintro ⟨ud, h⟩; obtain ⟨i, c, h1, h2, h3, _⟩ := (ha id ad ud).mp h; exact ⟨i, c, h1, h2, h3⟩
  · intro ud
    rw [userData_iff hs]
    constructor
    · rintro ⟨i, c, h1, h2, h3⟩; exact ⟨c.addr, (ha id c.addr ud).mpr ⟨i, c, h1, h2, rfl, h3⟩⟩
    · rintro ⟨ad, h⟩; obtain ⟨i, c, h1, h2, _, h4⟩ := (ha id ad ud).mp h; exact ⟨i, c, h1, h2, h4⟩
  · rw [isClientConnected_iff]
    constructor
    · rintro ⟨i, c, h1, h2⟩; exact ⟨c.addr, c.userData, (ha id c.addr c.userData).mpr ⟨i, c, h1, h2, rfl, rfl⟩⟩
    · rintro ⟨ad, ud, h⟩; obtain ⟨i, c, h1, h2, _, _⟩ := (ha id ad ud).mp h; exact ⟨i, c, h1, h2⟩
  · intro ad ud h1 h2
    obtain ⟨i, c, hc, hid, had⟩ := (clientAddr_iff hs).mp h1
    obtain ⟨j, c', hc', hid', hud⟩ := (userData_iff hs).mp h2
    have : i = j := hs.ids i j c c' hc hc' (by rw [hid, hid'])
    subst this
    have := at_inj hc hc'; subst this
    exact (ha id ad ud).mpr ⟨i, c, hc, hid, had, hud⟩

/-- **…and that session is the one announced by the latest `connected id addr ud` event, with no `disconnected id addr`
    after it.** -/
theorem Reach.lookup_session {a : AEAD} {s : NetcodeServer} {log : List Event} (hr : Reach a s log) {id : Nat}
    {ad : Addr} {ud : Bytes} (h1 : s.clientAddr id = some ad) (h2 : s.userData id = some ud) :
    ∃ l1 l2, log = l1 ++ .connected id ad ud :: l2 ∧ Event.disconnected id ad ∉ l2 := by
  obtain ⟨L, hL, _⟩ := hr.log
  have hm := (hr.lookups hL id).2.2.2 ad ud h1 h2
  rcases replay_mem_origin log [] L _ hL hm with ⟨h, _⟩ | h
  · cases h
  · exact h

/-- payload routing: `generate_payload_packet id` addresses the datagram to the live session of `id` -/
theorem Reach.sendPayload_target {a : AEAD} {s s' : NetcodeServer} {log : List Event} {L : List Sess}
    (hr : Reach a s log) (hL : replay log [] = some L) {id : Nat} {payload out : Bytes} {ad : Addr}
    (h : s.generatePayloadPacket a id payload = .ok ((ad, out), s')) :
    s.clientAddr id = some ad ∧ ∃ ud, (id, ad, ud) ∈ L := by
  obtain ⟨i, c, _, hc, hid, had, _, _⟩ := generatePayload_ok h
  have h1 : s.clientAddr id = some ad := (clientAddr_iff hr.inv.slots).mpr ⟨i, c, hc, hid, had.symm⟩
  exact ⟨h1, ((hr.lookups hL id).1 ad).mp h1⟩

/-- a payload surfaced from a datagram of source `addr` carries the id of the live session connected from `addr` -/
theorem Reach.payload_source {a : AEAD} {s s' : NetcodeServer} {log : List Event} {L : List Sess}
    (hr : Reach a s log) (hL : replay log [] = some L) {addr : Addr} {buf p : Bytes} {id : Nat}
    (h : s.processPacket a addr buf = .ok (.payload id p, s')) :
    s.clientAddr id = some addr ∧ ∃ ud, (id, addr, ud) ∈ L := by
  obtain ⟨i, c, sq, w', hc, hid, had, _⟩ := ppOut_payload (pp_ok hr.inv h)
  have h1 : s.clientAddr id = some addr := (clientAddr_iff hr.inv.slots).mpr ⟨i, c, hc, hid, had⟩
  exact ⟨h1, ((hr.lookups hL id).1 addr).mp h1⟩

/-! ### capacity -/

theorem hcr_frame {a : AEAD} {s : NetcodeServer} {addr : Addr} {v : Bytes} {pid expire : Nat} {xnonce data : Bytes}
    {R : NetcodeServer.SRes} {r : ServerResult} {s' : NetcodeServer}
    (ho : HcrOut a s addr v pid expire xnonce data R) (hr : HcrRes R r s') :
    s'.maxClients = s.maxClients ∧ s'.protocolId = s.protocolId ∧ s'.connectKey = s.connectKey ∧
    s'.challengeKey = s.challengeKey ∧ s'.publicAddresses = s.publicAddresses ∧ s'.currentTime = s.currentTime ∧
    s'.secure = s.secure := by
  cases ho with
  | err e => rcases hr with h | ⟨rfl, e', h⟩ <;> cases h; simp
  | none => rcases hr with h | ⟨rfl, e', h⟩ <;> cases h; simp
  | deniedErr t s1 e hacc hstep hfull =>
    rcases hr with h | ⟨rfl, e', h⟩ <;> cases h
    have := entryStep_fields hstep; simp [this]
  | denied t s1 out hacc hstep hfull hen =>
    rcases hr with h | ⟨rfl, e', h⟩ <;> cases h
    have := entryStep_fields hstep; simp [this]
  | challengeErr t s1 e hacc hstep hfull =>
    rcases hr with h | ⟨rfl, e', h⟩ <;> cases h
    have := entryStep_fields hstep; simp [this]
  | challenge t s1 pkt out hacc hstep hfull hgen hen =>
    rcases hr with h | ⟨rfl, e', h⟩ <;> cases h
    have := entryStep_fields hstep; simp [this]

/-- `process_packet` touches neither the configuration nor the clock -/
theorem ppOut_frame {a : AEAD} {s : NetcodeServer} {addr : Addr} {buf : Bytes} {r : ServerResult} {s' : NetcodeServer}
    (ho : PPOut a s addr buf r s') :
    s'.maxClients = s.maxClients ∧ s'.protocolId = s.protocolId ∧ s'.connectKey = s.connectKey ∧
    s'.challengeKey = s.challengeKey ∧ s'.publicAddresses = s.publicAddresses ∧ s'.currentTime = s.currentTime ∧
    s'.secure = s.secure := by
  cases ho with
  | pendRequest p sq v pid expire xnonce data w' R _ _ hfa hpf hdec hout hres =>
    have h := hcr_frame hout hres; exact h
  | newRequest sq v pid expire xnonce data R _ _ hfa hpf hdec hout hres => exact hcr_frame hout hres
  | _ => simp

theorem tableStep_length {cl cl' : Slots} {r : ServerResult} (h : TableStep cl cl' r) : cl'.length = cl.length := by
  cases r with
  | none => rw [← sessions_length, h, sessions_length]
  | packetToSend ad out => rw [← sessions_length, h, sessions_length]
  | payload id p => rw [← sessions_length, h, sessions_length]
  | clientConnected id ad ud out => obtain ⟨i, c, _, rfl, _⟩ := h; simp
  | clientDisconnected id ad out => obtain ⟨i, c, _, _, _, rfl⟩ := h; simp

/-- every operation except `set_max_clients` leaves the limit alone -/
theorem step_maxClients {a : AEAD} {s s' : NetcodeServer} {op : Op} {r : ServerResult} (hi : ServerInv s)
    (h : step a s op = some (r, s')) (hop : ∀ m, op ≠ .setMaxClients m) : s'.maxClients = s.maxClients := by
  cases op with
  | packet addr buf =>
    simp only [step] at h
    cases hp : s.processPacket a addr buf with
    | ok x => rw [hp] at h; cases h; exact (ppOut_frame (pp_ok hi hp)).1
    | err e => exact e.elim
    | panic m => rw [hp] at h; cases h
  | update d =>
    simp only [step] at h
    cases hp : s.update d with
    | ok x => rw [hp] at h; cases h; rw [update_ok hp]
    | err e => exact e.elim
    | panic m => rw [hp] at h; cases h
  | updateClient id =>
    simp only [step] at h
    cases hp : s.updateClient a id with
    | ok x =>
      rw [hp] at h; cases h
      cases hf : findClientSlotById s.clients id with
      | none => rw [updateClient_absent a hf] at hp; cases hp; rfl
      | some i =>
        obtain ⟨c, hc, hid, _⟩ := findSlot_some hf
        rcases updateClient_spec a hi hf hc with ⟨_, o, e⟩ | ⟨_, e | ⟨out, _, _, e⟩⟩ | ⟨⟨m, e⟩, _⟩ <;>
          (rw [e] at hp; cases hp) <;> rfl
    | err e => exact e.elim
    | panic m => rw [hp] at h; cases h
  | disconnect id =>
    simp only [step] at h
    cases hp : s.disconnect a id with
    | ok x =>
      rw [hp] at h; cases h
      rcases disconnect_spec a s id with ⟨_, e⟩ | ⟨i, c, o, _, _, _, e⟩ <;> (rw [e] at hp; cases hp) <;> rfl
    | err e => exact e.elim
    | panic m => rw [hp] at h; cases h
  | setMaxClients m => exact absurd rfl (hop m)
  | sendPayload id p =>
    simp only [step] at h
    cases hp : s.generatePayloadPacket a id p with
    | ok x =>
      obtain ⟨⟨ad, out⟩, s''⟩ := x
      rw [hp] at h; cases h
      obtain ⟨i, c, _, _, _, _, _, rfl⟩ := generatePayload_ok hp
      rfl
    | err e => rw [hp] at h; cases h; rfl
    | panic m => rw [hp] at h; cases h

/-- the connected sessions never outnumber the slots, and the limit never exceeds the slots -/
theorem Reach.count_le_slots {a : AEAD} {s : NetcodeServer} {log : List Event} (hr : Reach a s log) :
    countConnected s.clients ≤ s.clients.length ∧ s.maxClients ≤ s.clients.length ∧
    s.clients.length ≤ C.NETCODE_MAX_CLIENTS :=
  ⟨count_le_length _, hr.inv.maxLe, hr.inv.lenLe⟩

/-- States reachable without ever lowering the client limit: `set_max_clients m` is only used with
    `m ≥ max_clients` (values above `NETCODE_MAX_CLIENTS` are clamped by the implementation). -/
inductive ReachNL (a : AEAD) : NetcodeServer → Prop
  | init {s : NetcodeServer} : EmptyServer s → ReachNL a s
  | step {s s' : NetcodeServer} {op : Op} {r : ServerResult} :
      ReachNL a s → step a s op = some (r, s') → (∀ m, op = .setMaxClients m → s.maxClients ≤ m) → ReachNL a s'

theorem ReachNL.reach {a : AEAD} {s : NetcodeServer} (h : ReachNL a s) : ∃ log, Reach a s log := by
  induction h with
  | init h => exact ⟨[], .init h⟩
  | step _ hs _ ih => obtain ⟨log, hl⟩ := ih; exact ⟨_, .step hl hs⟩

/-- **As long as the limit is never lowered, there are exactly `max_clients` slots, hence at most `max_clients`
    connected clients.** -/
theorem ReachNL.count_le_max {a : AEAD} {s : NetcodeServer} (h : ReachNL a s) :
    s.clients.length = s.maxClients ∧ countConnected s.clients ≤ s.maxClients := by
  have key : s.clients.length = s.maxClients := by
    induction h with
    | init h => rw [h.clients, List.length_replicate]
    | @step s s' op r hr hs hnl ih =>
      obtain ⟨log, hl⟩ := hr.reach
      have hi := hl.inv
      by_cases hop : ∃ m, op = .setMaxClients m
      · obtain ⟨m, rfl⟩ := hop
        simp only [NS.step, Option.some.injEq, Prod.mk.injEq] at hs
        rw [← hs.2]
        obtain ⟨e1, e2, _⟩ := setMaxClients_eq s m
        have hm := hnl m rfl
        have hle := hi.lenLe
        rw [e1, e2, List.length_append, List.length_replicate]
        omega
      · have hop' : ∀ m, op ≠ .setMaxClients m := fun m e => hop ⟨m, e⟩
        rw [step_maxClients hi hs hop', ← ih]
        rcases step_table hi hs with ht | ⟨_, n, hg⟩
        · exact tableStep_length ht
        · cases op with
          | setMaxClients m => exact absurd rfl (hop' m)
          | packet addr buf =>
            -- a grown table only comes from `set_max_clients`; here the table step applies
            simp only [NS.step] at hs
            cases hp : s.processPacket a addr buf with
            | ok x => rw [hp] at hs; cases hs; exact tableStep_length (ppOut_step hi (pp_ok hi hp))
            | err e => exact e.elim
            | panic m => rw [hp] at hs; cases hs
          | update d =>
            simp only [NS.step] at hs
            cases hp : s.update d with
            | ok x => rw [hp] at hs; cases hs; rw [update_ok hp]
            | err e => exact e.elim
            | panic m => rw [hp] at hs; cases hs
          | updateClient id =>
            simp only [NS.step] at hs
            cases hp : s.updateClient a id with
            | ok x => rw [hp] at hs; cases hs; exact tableStep_length (updateClient_step hi hp)
            | err e => exact e.elim
            | panic m => rw [hp] at hs; cases hs
          | disconnect id =>
            simp only [NS.step] at hs
            cases hp : s.disconnect a id with
            | ok x => rw [hp] at hs; cases hs; exact tableStep_length (disconnect_step hp).1
            | err e => exact e.elim
            | panic m => rw [hp] at hs; cases hs
          | sendPayload id p =>
            simp only [NS.step] at hs
            cases hp : s.generatePayloadPacket a id p with
            | ok x =>
              obtain ⟨⟨ad, out⟩, s''⟩ := x
              rw [hp] at hs; cases hs
              rw [← sessions_length, generatePayload_step hp, sessions_length]
            | err e => rw [hp] at hs; cases hs; rfl
            | panic m => rw [hp] at hs; cases hs
  exact ⟨key, key ▸ count_le_length _⟩

/-! ### a full server refuses further handshakes without disturbing existing sessions -/

/-- the datagram is a `ConnectionDenied` packet sealed with the server's global sequence number under some key -/
def IsDenied (a : AEAD) (s : NetcodeServer) (out : Bytes) : Prop :=
  ∃ key, Packet.connectionDenied.encode a C.NETCODE_MAX_PACKET_BYTES s.protocolId (some (s.globalSequence, key)) = .ok out

/-- a connection request arriving while `connected ≥ max_clients` changes no slot and is answered, if at all, with
    `ConnectionDenied` to its source -/
theorem hcr_full {a : AEAD} {s : NetcodeServer} {addr : Addr} {v : Bytes} {pid expire : Nat} {xnonce data : Bytes}
    {R : NetcodeServer.SRes} {r : ServerResult} {s' : NetcodeServer}
    (ho : HcrOut a s addr v pid expire xnonce data R) (hr : HcrRes R r s')
    (hfull : countConnected s.clients ≥ s.maxClients) :
    s'.clients = s.clients ∧ (r = .none ∨ ∃ out, r = .packetToSend addr out ∧ IsDenied a s out) ∧
    pendingFind s'.pendingClients addr = none ∨ (s' = s ∧ r = .none) := by
  cases ho with
  | err e => rcases hr with h | ⟨rfl, e', h⟩ <;> cases h; exact Or.inr ⟨rfl, rfl⟩
  | none => rcases hr with h | ⟨rfl, e', h⟩ <;> cases h; exact Or.inr ⟨rfl, rfl⟩
  | deniedErr t s1 e hacc hstep _ =>
    rcases hr with h | ⟨rfl, e', h⟩ <;> cases h
    refine Or.inl ⟨(entryStep_fields hstep).1, Or.inl rfl, ?_⟩
    simp only [pendingFind_filter_ne, if_true]
  | denied t s1 out hacc hstep _ hen =>
    rcases hr with h | ⟨rfl, e', h⟩ <;> cases h
    refine Or.inl ⟨(entryStep_fields hstep).1, Or.inr ⟨out, rfl, _, hen⟩, ?_⟩
    simp only [pendingFind_filter_ne, if_true]
  | challengeErr t s1 e hacc hstep hlt => omega
  | challenge t s1 pkt out hacc hstep hlt hgen hen => omega

/-- **No free slot** (when the limit was never lowered: exactly when `connected ≥ max_clients`): whatever arrives from
    an address that is not connected — request, response, junk — leaves every slot as it is; the answer is nothing or
    a `ConnectionDenied` to that address. -/
theorem processPacket_full {a : AEAD} {s s' : NetcodeServer} {addr : Addr} {buf : Bytes} {r : ServerResult}
    (hi : ServerInv s) (hff : firstFreeSlot s.clients = none) (hna : findClientByAddr s.clients addr = none)
    (h : s.processPacket a addr buf = .ok (r, s')) :
    s'.clients = s.clients ∧ (r = .none ∨ ∃ out, r = .packetToSend addr out ∧ IsDenied a s out) := by
  have hfull : countConnected s.clients ≥ s.maxClients := by
    rw [firstFree_none_count.mp hff]; exact hi.maxLe
  have ho := pp_ok hi h
  cases ho with
  | short _ => exact ⟨rfl, Or.inl rfl⟩
  | connErr i c e w' hfa => rw [hna] at hfa; cases hfa
  | connDisconnect i c sq w' hfa => rw [hna] at hfa; cases hfa
  | connPayload i c sq p w' hfa => rw [hna] at hfa; cases hfa
  | connKeepAlive i c sq ci mc w' hfa => rw [hna] at hfa; cases hfa
  | connOther i c sq pk w' hfa => rw [hna] at hfa; cases hfa
  | pendErr p e w' hfa hpf hdec => exact ⟨rfl, Or.inl rfl⟩
  | pendRequest p sq v pid expire xnonce data w' R _ _ hfa hpf hdec hout hres =>
    rcases hcr_full hout hres hfull with ⟨h1, h2, _⟩ | ⟨rfl, rfl⟩
    · exact ⟨h1, h2⟩
    · exact ⟨rfl, Or.inl rfl⟩
  | pendOther p sq pk w' hfa hpf hdec _ _ => exact ⟨rfl, Or.inl rfl⟩
  | respRejected p sq ts td w' hfa hpf hdec _ => exact ⟨rfl, Or.inl rfl⟩
  | respDropped p sq ts td w' hfa hpf hdec _ => exact ⟨rfl, Or.inl rfl⟩
  | respFull p sq ts td w' out hfa hpf hdec _ _ _ hen => exact ⟨rfl, Or.inr ⟨out, rfl, _, hen⟩⟩
  | respConnected p sq ts td w' i out hfa hpf hdec hct hid hff' hen => rw [hff] at hff'; cases hff'
  | newErr e hfa hpf hdec => exact ⟨rfl, Or.inl rfl⟩
  | newRequest sq v pid expire xnonce data R _ _ hfa hpf hdec hout hres =>
    rcases hcr_full hout hres hfull with ⟨h1, h2, _⟩ | ⟨rfl, rfl⟩
    · exact ⟨h1, h2⟩
    · exact ⟨rfl, Or.inl rfl⟩

/-- a datagram from a *connected* address never touches another session: the sessions stay, or that very session
    ends (its own Disconnect packet) -/
theorem processPacket_connected_only_self {a : AEAD} {s s' : NetcodeServer} {addr : Addr} {buf : Bytes}
    {r : ServerResult} (hi : ServerInv s) {i : Nat} {c : Connection}
    (hfa : findClientByAddr s.clients addr = some (i, c)) (h : s.processPacket a addr buf = .ok (r, s')) :
    sessions s'.clients = sessions s.clients ∨
      (r = .clientDisconnected c.clientId addr none ∧ s'.clients = s.clients.set i none) := by
  have ho := pp_ok hi h
  cases ho with
  | short _ => exact Or.inl rfl
  | connErr i' c' e w' hfa' hdec =>
    rw [hfa] at hfa'; cases hfa'; exact Or.inl (sessions_set_same (findAddr_some hfa).1 rfl)
  | connDisconnect i' c' sq w' hfa' hdec => rw [hfa] at hfa'; cases hfa'; exact Or.inr ⟨rfl, rfl⟩
  | connPayload i' c' sq p w' hfa' hdec =>
    rw [hfa] at hfa'; cases hfa'; exact Or.inl (sessions_set_same (findAddr_some hfa).1 rfl)
  | connKeepAlive i' c' sq ci mc w' hfa' hdec =>
    rw [hfa] at hfa'; cases hfa'; exact Or.inl (sessions_set_same (findAddr_some hfa).1 rfl)
  | connOther i' c' sq pk w' hfa' hdec _ _ _ =>
    rw [hfa] at hfa'; cases hfa'; exact Or.inl (sessions_set_same (findAddr_some hfa).1 rfl)
  | pendErr p e w' hfa' => rw [hfa] at hfa'; cases hfa'
  | pendRequest p sq v pid expire xnonce data w' R _ _ hfa' => rw [hfa] at hfa'; cases hfa'
  | pendOther p sq pk w' hfa' => rw [hfa] at hfa'; cases hfa'
  | respRejected p sq ts td w' hfa' => rw [hfa] at hfa'; cases hfa'
  | respDropped p sq ts td w' hfa' => rw [hfa] at hfa'; cases hfa'
  | respFull p sq ts td w' out hfa' => rw [hfa] at hfa'; cases hfa'
  | respConnected p sq ts td w' i out hfa' => rw [hfa] at hfa'; cases hfa'
  | newErr e hfa' => rw [hfa] at hfa'; cases hfa'
  | newRequest sq v pid expire xnonce data R _ _ hfa' => rw [hfa] at hfa'; cases hfa'

end NS
end RenetVerif.Netcode
