/-
  Netcode liveness, the composed half of property C18 (helper lemmas for Props/C18T.lean):
  Part A — a connected session survives whole traces of server operations as long as it is fresh at every
           `update_client` (induction over `NS.Op` traces);
  Part B — the handshake driven through `NetcodeClient.update` (send-rate gate, clocks on both sides),
           retransmission after loss, failover to a second server.
-/
import RenetVerif.Lemmas.NcProgress
namespace RenetVerif.NcLive2
open RenetVerif RenetVerif.Netcode RenetVerif.Netcode.NS

/-! ## Part A : a fresh session survives every trace -/

/-- the datagram decodes, under this session's receive key and replay window, to a Disconnect packet -/
def AuthDisconnect (a : AEAD) (s : NetcodeServer) (c : Connection) (buf : Bytes) : Prop :=
  ∃ sq w', Packet.decode a buf s.protocolId (some c.receiveKey) (some c.replayProtection) = (.ok (sq, .disconnect), some w')

/-- Bool version of `NS.Authentic` -/
def authenticB (a : AEAD) (s : NetcodeServer) (c : Connection) (buf : Bytes) : Bool :=
  match Packet.decode a buf s.protocolId (some c.receiveKey) (some c.replayProtection) with
  | (.ok (_, pk), some _) => decide (pk.packetType = .keepAlive) || decide (pk.packetType = .payload)
  | _ => false

/-- Bool version of `AuthDisconnect` -/
def authDisconnectB (a : AEAD) (s : NetcodeServer) (c : Connection) (buf : Bytes) : Bool :=
  match Packet.decode a buf s.protocolId (some c.receiveKey) (some c.replayProtection) with
  | (.ok (_, .disconnect), some _) => true
  | _ => false

theorem authenticB_iff {a : AEAD} {s : NetcodeServer} {c : Connection} {buf : Bytes} :
    authenticB a s c buf = true ↔ Authentic a s c buf := by
  unfold authenticB Authentic
  cases hd : Packet.decode a buf s.protocolId (some c.receiveKey) (some c.replayProtection) with
  | mk r w =>
    cases r with
    | panic m => simp
    | err e => simp
    | ok sp =>
      obtain ⟨sq, pk⟩ := sp
      cases w with
      | none => simp
      | some w' =>
        simp only [Bool.or_eq_true, decide_eq_true_eq, Prod.mk.injEq, Res.ok.injEq, Option.some.injEq]
        constructor
        · intro h; exact ⟨sq, pk, w', ⟨⟨rfl, rfl⟩, rfl⟩, h⟩
        · rintro ⟨_, _, _, ⟨⟨_, rfl⟩, _⟩, h⟩; exact h

theorem authDisconnectB_iff {a : AEAD} {s : NetcodeServer} {c : Connection} {buf : Bytes} :
    authDisconnectB a s c buf = true ↔ AuthDisconnect a s c buf := by
  unfold authDisconnectB AuthDisconnect
  cases hd : Packet.decode a buf s.protocolId (some c.receiveKey) (some c.replayProtection) with
  | mk r w =>
    cases r with
    | panic m => simp
    | err e => simp
    | ok sp =>
      obtain ⟨sq, pk⟩ := sp
      cases w with
      | none => cases pk <;> simp
      | some w' => cases pk <;> simp

/-- the operation is an authentic KeepAlive / Payload datagram from the session of client `id` -/
def refreshes (a : AEAD) (id : Nat) (s : NetcodeServer) : Op → Bool
  | .packet addr buf =>
    match findClientById s.clients id with
    | some c => decide (c.addr = addr) && authenticB a s c buf
    | none => false
  | _ => false

/-- What the trace hypothesis of `never_timed_out` demands of one operation, executed in state `s` when the most
    recent authentic packet of client `id` (or its connection) dates from `last`:
    * nobody calls `disconnect id`;
    * a datagram is not an authentic Disconnect packet of that client;
    * at `update_client id` the session is fresh: `now ≤ last + timeout` (or the token's timeout is not positive). -/
def opAllowed (a : AEAD) (id : Nat) (s : NetcodeServer) (last : Nat) : Op → Bool
  | .disconnect id' => decide (id' ≠ id)
  | .packet addr buf =>
    match findClientById s.clients id with
    | some c => !(decide (c.addr = addr) && authDisconnectB a s c buf)
    | none => true
  | .updateClient id' =>
    match findClientById s.clients id with
    | some c => decide (id' = id → c.timeoutSeconds ≤ 0 ∨ s.currentTime ≤ last + fromSecs c.timeoutSeconds.toNat)
    | none => true
  | _ => true

/-- the time of the most recent authentic packet after one more operation -/
def lastAfter (a : AEAD) (id : Nat) (s : NetcodeServer) (last : Nat) (op : Op) : Nat :=
  if refreshes a id s op then s.currentTime else last

/-- `opAllowed` along a whole trace, the ghost variable `last` following the authentic packets (a trace ends where an
    operation unwinds) -/
def freshB (a : AEAD) (id : Nat) : NetcodeServer → Nat → List Op → Bool
  | _, _, [] => true
  | s, last, op :: rest =>
    opAllowed a id s last op &&
      match step a s op with
      | some (_, s') => freshB a id s' (lastAfter a id s last op) rest
      | none => true

/-- the trace hypothesis of `never_timed_out` -/
def Fresh (a : AEAD) (id : Nat) (s : NetcodeServer) (last : Nat) (ops : List Op) : Prop := freshB a id s last ops = true

instance (a : AEAD) (id : Nat) (s : NetcodeServer) (last : Nat) (ops : List Op) : Decidable (Fresh a id s last ops) := by
  unfold Fresh; infer_instance

theorem fresh_nil (a : AEAD) (id : Nat) (s : NetcodeServer) (last : Nat) : Fresh a id s last [] := rfl

theorem fresh_cons {a : AEAD} {id : Nat} {s : NetcodeServer} {last : Nat} {op : Op} {rest : List Op} :
    Fresh a id s last (op :: rest) ↔
      opAllowed a id s last op = true ∧
      ∀ r s', step a s op = some (r, s') → Fresh a id s' (lastAfter a id s last op) rest := by
  unfold Fresh
  simp only [freshB, Bool.and_eq_true]
  constructor
  · rintro ⟨h1, h2⟩
    refine ⟨h1, fun r s' hs => ?_⟩
    rw [hs] at h2; exact h2
  · rintro ⟨h1, h2⟩
    refine ⟨h1, ?_⟩
    cases hs : step a s op with
    | none => rfl
    | some x => obtain ⟨r, s'⟩ := x; exact h2 r s' hs

/-- run a trace, collecting the results; `none` = an operation unwound -/
def runOps (a : AEAD) : NetcodeServer → List Op → Option (List ServerResult × NetcodeServer)
  | s, [] => some ([], s)
  | s, op :: rest =>
    match step a s op with
    | some (r, s') => (runOps a s' rest).map fun x => (r :: x.1, x.2)
    | none => none

theorem runOps_cons {a : AEAD} {s s'' : NetcodeServer} {op : Op} {rest : List Op} {rs : List ServerResult}
    (h : runOps a s (op :: rest) = some (rs, s'')) :
    ∃ r s' rs', step a s op = some (r, s') ∧ runOps a s' rest = some (rs', s'') ∧ rs = r :: rs' := by
  simp only [runOps] at h
  cases hs : step a s op with
  | none => rw [hs] at h; cases h
  | some x =>
    obtain ⟨r, s'⟩ := x
    rw [hs] at h
    simp only [Option.map_eq_some_iff, Prod.mk.injEq] at h
    obtain ⟨⟨rs', s3⟩, h1, rfl, rfl⟩ := h
    exact ⟨r, s', rs', rfl, h1, rfl⟩

theorem runOps_append {a : AEAD} : ∀ {l1 l2 : List Op} {s s'' : NetcodeServer} {rs : List ServerResult},
    runOps a s (l1 ++ l2) = some (rs, s'') →
    ∃ rs1 s' rs2, runOps a s l1 = some (rs1, s') ∧ runOps a s' l2 = some (rs2, s'') ∧ rs = rs1 ++ rs2
  | [], l2, s, s'', rs, h => ⟨[], s, rs, rfl, h, rfl⟩
  | op :: l1, l2, s, s'', rs, h => by
    obtain ⟨r, s1, rs', hs, hr, rfl⟩ := runOps_cons (rest := l1 ++ l2) h
    obtain ⟨rs1, s', rs2, h1, h2, rfl⟩ := runOps_append hr
    refine ⟨r :: rs1, s', rs2, ?_, h2, rfl⟩
    simp only [runOps, hs, h1, Option.map_some]

/-- `Fresh` is closed under prefixes -/
theorem fresh_prefix {a : AEAD} {id : Nat} : ∀ {l1 l2 : List Op} {s : NetcodeServer} {last : Nat},
    Fresh a id s last (l1 ++ l2) → Fresh a id s last l1
  | [], _, s, last, _ => fresh_nil a id s last
  | op :: l1, l2, s, last, h => by
    rw [List.cons_append, fresh_cons] at h
    rw [fresh_cons]
    exact ⟨h.1, fun r s' hs => fresh_prefix (h.2 r s' hs)⟩

/-- where the session connected from `addr` sits relative to slot `i` -/
theorem conn_case {s : NetcodeServer} (hi : ServerInv s) {addr : Addr} {i j : Nat} {c cj : Connection}
    (hc : At s.clients i c) (hfa : findClientByAddr s.clients addr = some (j, cj)) :
    (j = i ∧ cj = c ∧ c.addr = addr) ∨ (j ≠ i ∧ c.addr ≠ addr ∧ cj.clientId ≠ c.clientId) := by
  obtain ⟨hj, had⟩ := findAddr_some hfa
  by_cases e : j = i
  · subst e
    have := at_inj hj hc; subst this
    exact Or.inl ⟨rfl, rfl, had⟩
  · refine Or.inr ⟨e, ?_, ?_⟩
    · intro h; exact e (hi.slots.addrs j i cj c hj hc (by rw [had, h]))
    · intro h; exact e (hi.slots.ids j i cj c hj hc h)

/-- **what `process_packet` does to one connected session**: either the datagram is that session's authentic
    Disconnect, or the session stays in its slot with its identity, no `ClientDisconnected` names it, its receive
    timer stays or becomes `now`, and becomes `now` when the datagram is `Authentic` for it. -/
theorem pp_keeps {a : AEAD} {s s' : NetcodeServer} {addr : Addr} {buf : Bytes} {r : ServerResult}
    (hi : ServerInv s) (ho : PPOut a s addr buf r s') {i : Nat} {c : Connection} (hc : At s.clients i c) :
    (c.addr = addr ∧ AuthDisconnect a s c buf) ∨
    (∃ c', At s'.clients i c' ∧ ident c' = ident c ∧ (∀ ad o, r ≠ .clientDisconnected c.clientId ad o) ∧
      (c'.lastPacketReceivedTime = c.lastPacketReceivedTime ∨ c'.lastPacketReceivedTime = s.currentTime) ∧
      (c.addr = addr → Authentic a s c buf → c'.lastPacketReceivedTime = s.currentTime)) := by
  have hlt := at_lt hc
  -- the datagram's source is not a connected address: slot `i` is not concerned
  have other : ∀ {cl' : Slots}, cl' = s.clients → findClientByAddr s.clients addr = none →
      (∀ ad o, r ≠ .clientDisconnected c.clientId ad o) →
      ∃ c', At cl' i c' ∧ ident c' = ident c ∧ (∀ ad o, r ≠ .clientDisconnected c.clientId ad o) ∧
        (c'.lastPacketReceivedTime = c.lastPacketReceivedTime ∨ c'.lastPacketReceivedTime = s.currentTime) ∧
        (c.addr = addr → Authentic a s c buf → c'.lastPacketReceivedTime = s.currentTime) := by
    intro cl' e hfa hr
    subst e
    exact ⟨c, hc, rfl, hr, Or.inl rfl, fun h => absurd h (findAddr_none.mp hfa i c hc)⟩
  -- the session at `addr` is rewritten with the same identity and receive timer
  have same : ∀ {j : Nat} {cj x : Connection}, findClientByAddr s.clients addr = some (j, cj) →
      ident x = ident cj → x.lastPacketReceivedTime = cj.lastPacketReceivedTime →
      (∀ ad o, r ≠ .clientDisconnected c.clientId ad o) → (c.addr = addr → ¬ Authentic a s c buf) →
      ∃ c', At (s.clients.set j (some x)) i c' ∧ ident c' = ident c ∧
        (∀ ad o, r ≠ .clientDisconnected c.clientId ad o) ∧
        (c'.lastPacketReceivedTime = c.lastPacketReceivedTime ∨ c'.lastPacketReceivedTime = s.currentTime) ∧
        (c.addr = addr → Authentic a s c buf → c'.lastPacketReceivedTime = s.currentTime) := by
    intro j cj x hfa hid hx hr hna
    rcases conn_case hi hc hfa with ⟨rfl, rfl, _⟩ | ⟨hne, hadr, _⟩
    · exact ⟨x, at_set_self hlt, hid, hr, Or.inl hx, fun h1 h2 => absurd h2 (hna h1)⟩
    · exact ⟨c, at_set_of_ne hne hc, rfl, hr, Or.inl rfl, fun h => absurd h hadr⟩
  -- … or refreshed
  have fresh : ∀ {j : Nat} {cj : Connection} {w' : RP}, findClientByAddr s.clients addr = some (j, cj) →
      (c = cj → Authentic a s c buf) → (∀ ad o, r ≠ .clientDisconnected c.clientId ad o) →
      ∃ c', At (s.clients.set j (some (refreshed cj w' s.currentTime))) i c' ∧ ident c' = ident c ∧
        (∀ ad o, r ≠ .clientDisconnected c.clientId ad o) ∧
        (c'.lastPacketReceivedTime = c.lastPacketReceivedTime ∨ c'.lastPacketReceivedTime = s.currentTime) ∧
        (c.addr = addr → Authentic a s c buf → c'.lastPacketReceivedTime = s.currentTime) := by
    intro j cj w' hfa _ hr
    rcases conn_case hi hc hfa with ⟨rfl, rfl, _⟩ | ⟨hne, hadr, _⟩
    · exact ⟨_, at_set_self hlt, rfl, hr, Or.inr rfl, fun _ _ => rfl⟩
    · exact ⟨c, at_set_of_ne hne hc, rfl, hr, Or.inl rfl, fun h => absurd h hadr⟩
  have nodec : ∀ {j : Nat} {cj : Connection} {x : Res NetcodeError (Nat × Packet)} {w' : RP},
      findClientByAddr s.clients addr = some (j, cj) →
      Packet.decode a buf s.protocolId (some cj.receiveKey) (some cj.replayProtection) = (x, some w') →
      (∀ sq pk, x = .ok (sq, pk) → pk.packetType ≠ .keepAlive ∧ pk.packetType ≠ .payload) →
      c.addr = addr → ¬ Authentic a s c buf := by
    intro j cj x w' hfa hdec hx had
    rcases conn_case hi hc hfa with ⟨rfl, rfl, _⟩ | ⟨_, hadr, _⟩
    · rintro ⟨sq, pk, w'', hd, hk⟩
      rw [hdec] at hd
      simp only [Prod.mk.injEq] at hd
      obtain ⟨h1, h2⟩ := hx sq pk hd.1
      rcases hk with hk | hk
      · exact h1 hk
      · exact h2 hk
    · exact absurd had hadr
  cases ho with
  | short hs =>
    refine Or.inr ⟨c, hc, rfl, (fun _ _ h => by cases h), Or.inl rfl, ?_⟩
    rintro _ ⟨sq, pk, w', hdec, _⟩
    rw [decode_eq, if_pos hs] at hdec; cases hdec
  | connErr j cj e w' hfa hdec =>
    exact Or.inr (same (x := { cj with replayProtection := w' }) hfa rfl rfl (fun _ _ h => by cases h)
      (nodec hfa hdec (fun _ _ h => by cases h)))
  | connDisconnect j cj sq w' hfa hdec =>
    rcases conn_case hi hc hfa with ⟨rfl, rfl, had⟩ | ⟨hne, hadr, hidn⟩
    · exact Or.inl ⟨had, sq, w', hdec⟩
    · refine Or.inr ⟨c, at_set_of_ne hne hc, rfl, ?_, Or.inl rfl, fun h => absurd h hadr⟩
      intro ad o h
      simp only [ServerResult.clientDisconnected.injEq] at h
      exact hidn h.1
  | connPayload j cj sq p w' hfa hdec =>
    exact Or.inr (fresh hfa (fun e => by subst e; exact ⟨sq, _, w', hdec, Or.inr rfl⟩) (fun _ _ h => by cases h))
  | connKeepAlive j cj sq ci mc w' hfa hdec =>
    exact Or.inr (fresh hfa (fun e => by subst e; exact ⟨sq, _, w', hdec, Or.inl rfl⟩) (fun _ _ h => by cases h))
  | connOther j cj sq pk w' hfa hdec h1 h2 h3 =>
    refine Or.inr (same (x := { cj with replayProtection := w' }) hfa rfl rfl (fun _ _ h => by cases h)
      (nodec hfa hdec ?_))
    intro sq' pk' e
    simp only [Res.ok.injEq, Prod.mk.injEq] at e
    obtain ⟨_, rfl⟩ := e
    exact ⟨h3, h2⟩
  | pendErr p e w' hfa hpf hdec => exact Or.inr (other rfl hfa (fun _ _ h => by cases h))
  | pendRequest p sq v pid expire xnonce data w' R _ _ hfa hpf hdec hout hres =>
    obtain ⟨h1, h2⟩ := hcr_clients hout hres
    refine Or.inr (other h1 hfa ?_)
    rcases h2 with rfl | ⟨out, rfl⟩ <;> (intro _ _ h; cases h)
  | pendOther p sq pk w' hfa hpf hdec _ _ => exact Or.inr (other rfl hfa (fun _ _ h => by cases h))
  | respRejected p sq ts td w' hfa hpf hdec _ => exact Or.inr (other rfl hfa (fun _ _ h => by cases h))
  | respDropped p sq ts td w' hfa hpf hdec _ => exact Or.inr (other rfl hfa (fun _ _ h => by cases h))
  | respFull p sq ts td w' out hfa hpf hdec _ _ _ _ => exact Or.inr (other rfl hfa (fun _ _ h => by cases h))
  | respConnected p sq ts td w' j out hfa hpf hdec hct hid hff hen =>
    have hne : j ≠ i := by
      intro e; subst e
      have := firstFree_some hff
      unfold At at hc; rw [this] at hc; simp at hc
    exact Or.inr ⟨c, at_set_of_ne hne hc, rfl, (fun _ _ h => by cases h), Or.inl rfl,
      fun h => absurd h (findAddr_none.mp hfa i c hc)⟩
  | newErr e hfa hpf hdec => exact Or.inr (other rfl hfa (fun _ _ h => by cases h))
  | newRequest sq v pid expire xnonce data R _ _ hfa hpf hdec hout hres =>
    obtain ⟨h1, h2⟩ := hcr_clients hout hres
    refine Or.inr (other h1 hfa ?_)
    rcases h2 with rfl | ⟨out, rfl⟩ <;> (intro _ _ h; cases h)

/-- **one allowed operation keeps the session**: same slot, same identity, no `ClientDisconnected id` reported, and
    the receive timer is at least the ghost variable `last` of the trace hypothesis. -/
theorem step_keeps {a : AEAD} {s s' : NetcodeServer} {op : Op} {r : ServerResult} {id i last : Nat} {c : Connection}
    (hi : ServerInv s) (hc : At s.clients i c) (hid : c.clientId = id) (hlast : last ≤ c.lastPacketReceivedTime)
    (hal : opAllowed a id s last op = true) (h : step a s op = some (r, s')) :
    ∃ c', At s'.clients i c' ∧ ident c' = ident c ∧ lastAfter a id s last op ≤ c'.lastPacketReceivedTime ∧
      ∀ ad o, r ≠ .clientDisconnected id ad o := by
  have hfind : findClientById s.clients id = some c := hi.slots.findById_iff.mpr ⟨hid, i, hc⟩
  have hnow : c.lastPacketReceivedTime ≤ s.currentTime := (hi.slotsOK i c hc).recv
  cases op with
  | packet addr buf =>
    have hp : s.processPacket a addr buf = .ok (r, s') := by
      simp only [step] at h
      cases hp : s.processPacket a addr buf with
      | ok x => rw [hp] at h; cases h; rfl
      | err e => exact e.elim
      | panic m => rw [hp] at h; cases h
    simp only [opAllowed, hfind, Bool.not_eq_true', Bool.and_eq_false_iff, decide_eq_false_iff_not] at hal
    rcases pp_keeps hi (pp_ok hi hp) hc with ⟨had, hdis⟩ | ⟨c', hc', hident, hr, htm, hau⟩
    · rcases hal with hal | hal
      · exact absurd had hal
      · rw [authDisconnectB_iff.mpr hdis] at hal; cases hal
    · refine ⟨c', hc', hident, ?_, fun ad o => hid ▸ hr ad o⟩
      unfold lastAfter
      simp only [refreshes, hfind]
      split
      · rename_i hrf
        simp only [Bool.and_eq_true, decide_eq_true_eq] at hrf
        rw [hau hrf.1 (authenticB_iff.mp hrf.2)]
        exact Nat.le_refl _
      · rcases htm with e | e <;> rw [e] <;> omega
  | update d =>
    simp only [step] at h
    cases hp : s.update d with
    | ok x =>
      rw [hp] at h; cases h
      rw [update_ok hp]
      exact ⟨c, hc, rfl, by simp only [lastAfter, refreshes]; exact hlast, fun _ _ e => by cases e⟩
    | err e => exact e.elim
    | panic m => rw [hp] at h; cases h
  | updateClient id' =>
    have hp : s.updateClient a id' = .ok (r, s') := by
      simp only [step] at h
      cases hp : s.updateClient a id' with
      | ok x => rw [hp] at h; cases h; rfl
      | err e => exact e.elim
      | panic m => rw [hp] at h; cases h
    simp only [opAllowed, hfind, decide_eq_true_eq] at hal
    have hla : lastAfter a id s last (.updateClient id') = last := by simp only [lastAfter, refreshes]; rfl
    rw [hla]
    cases hf : findClientSlotById s.clients id' with
    | none =>
      rw [updateClient_absent a hf] at hp; cases hp
      exact ⟨c, hc, rfl, hlast, fun _ _ e => by cases e⟩
    | some j =>
      obtain ⟨cj, hcj, hidj, _⟩ := findSlot_some hf
      by_cases e : j = i
      · subst e
        have := at_inj hcj hc; subst this
        have hidd : id' = id := by rw [← hidj, hid]
        have hfr := hal hidd
        rcases updateClient_spec a hi hf hcj with ⟨hto, _⟩ | ⟨_, e | ⟨out, _, _, e⟩⟩ | ⟨⟨m, e⟩, _⟩
        · exfalso
          obtain ⟨h1, h2⟩ := hto
          rcases hfr with h | h <;> omega
        · rw [e] at hp; cases hp; exact ⟨cj, hc, rfl, hlast, fun _ _ e => by cases e⟩
        · rw [e] at hp; cases hp
          exact ⟨_, at_set_self (at_lt hc), rfl, hlast, fun _ _ e => by cases e⟩
        · rw [e] at hp; cases hp
      · have hidne : id' ≠ id := by
          intro e'; exact e (hi.slots.ids j i cj c hcj hc (by rw [hidj, hid, e']))
        rcases updateClient_spec a hi hf hcj with ⟨_, o, e'⟩ | ⟨_, e' | ⟨out, _, _, e'⟩⟩ | ⟨⟨m, e'⟩, _⟩
        · rw [e'] at hp; cases hp
          refine ⟨c, at_set_of_ne e hc, rfl, hlast, ?_⟩
          intro ad o' h'
          simp only [ServerResult.clientDisconnected.injEq] at h'
          exact hidne h'.1
        · rw [e'] at hp; cases hp; exact ⟨c, hc, rfl, hlast, fun _ _ e => by cases e⟩
        · rw [e'] at hp; cases hp
          exact ⟨c, at_set_of_ne e hc, rfl, hlast, fun _ _ e => by cases e⟩
        · rw [e'] at hp; cases hp
  | disconnect id' =>
    have hp : s.disconnect a id' = .ok (r, s') := by
      simp only [step] at h
      cases hp : s.disconnect a id' with
      | ok x => rw [hp] at h; cases h; rfl
      | err e => exact e.elim
      | panic m => rw [hp] at h; cases h
    simp only [opAllowed, decide_eq_true_eq] at hal
    have hla : lastAfter a id s last (.disconnect id') = last := by simp only [lastAfter, refreshes]; rfl
    rw [hla]
    rcases disconnect_spec a s id' with ⟨_, e⟩ | ⟨j, cj, o, _, hcj, hidj, e⟩
    · rw [e] at hp; cases hp; exact ⟨c, hc, rfl, hlast, fun _ _ e => by cases e⟩
    · rw [e] at hp; cases hp
      have hne : j ≠ i := by
        intro e'; subst e'
        have := at_inj hcj hc; subst this
        exact hal (by rw [← hidj, hid])
      refine ⟨c, at_set_of_ne hne hc, rfl, hlast, ?_⟩
      intro ad o' h'
      simp only [ServerResult.clientDisconnected.injEq] at h'
      exact hal h'.1
  | setMaxClients m =>
    simp only [step, Option.some.injEq, Prod.mk.injEq] at h
    obtain ⟨rfl, rfl⟩ := h
    have hla : lastAfter a id s last (.setMaxClients m) = last := by simp only [lastAfter, refreshes]; rfl
    rw [hla, (setMaxClients_eq s m).2.1]
    exact ⟨c, at_append_none.mpr hc, rfl, hlast, fun _ _ e => by cases e⟩
  | sendPayload id' p =>
    have hla : lastAfter a id s last (.sendPayload id' p) = last := by simp only [lastAfter, refreshes]; rfl
    rw [hla]
    simp only [step] at h
    cases hp : s.generatePayloadPacket a id' p with
    | ok x =>
      obtain ⟨⟨ad, out⟩, s''⟩ := x
      rw [hp] at h; cases h
      obtain ⟨j, cj, _, hcj, _, _, _, rfl⟩ := generatePayload_ok hp
      by_cases e : j = i
      · subst e
        have := at_inj hcj hc; subst this
        exact ⟨_, at_set_self (at_lt hc), rfl, hlast, fun _ _ e => by cases e⟩
      · exact ⟨c, at_set_of_ne e hc, rfl, hlast, fun _ _ e => by cases e⟩
    | err e => rw [hp] at h; cases h; exact ⟨c, hc, rfl, hlast, fun _ _ e => by cases e⟩
    | panic m => rw [hp] at h; cases h

/-- **the induction over a whole trace** -/
theorem run_keeps {a : AEAD} {id i : Nat} : ∀ (ops : List Op) {s s' : NetcodeServer} {c : Connection} {last : Nat}
    {rs : List ServerResult}, ServerInv s → At s.clients i c → c.clientId = id → last ≤ c.lastPacketReceivedTime →
    Fresh a id s last ops → runOps a s ops = some (rs, s') →
    ServerInv s' ∧ (∃ c', At s'.clients i c' ∧ ident c' = ident c) ∧ ∀ ad o, .clientDisconnected id ad o ∉ rs
  | [], s, s', c, last, rs, hi, hc, _, _, _, hrun => by
    simp only [runOps, Option.some.injEq, Prod.mk.injEq] at hrun
    obtain ⟨rfl, rfl⟩ := hrun
    exact ⟨hi, ⟨c, hc, rfl⟩, fun _ _ h => by cases h⟩
  | op :: rest, s, s', c, last, rs, hi, hc, hid, hlast, hfr, hrun => by
    obtain ⟨r, s1, rs', hs, hr, rfl⟩ := runOps_cons hrun
    obtain ⟨hal, hrest⟩ := fresh_cons.mp hfr
    obtain ⟨c1, hc1, hident, hl1, hnr⟩ := step_keeps hi hc hid hlast hal hs
    obtain ⟨hi', ⟨c', hc', hident'⟩, hnd⟩ := run_keeps rest (step_inv hi hs) hc1 (by rw [ident_id hident, hid]) hl1
      (hrest r s1 hs) hr
    refine ⟨hi', ⟨c', hc', by rw [hident', hident]⟩, ?_⟩
    intro ad o hm
    simp only [List.mem_cons] at hm
    rcases hm with e | hm
    · exact hnr ad o e.symm
    · exact hnd ad o hm

/-! ## Part B : the handshake through `update`, with loss

  ### B.1 server side -/

open RenetVerif.NcAead.Token

/-- the token-to-address binding lets `addr` use the token with this MAC: every recorded entry with the MAC carries
    `addr` -/
def Bound (s : NetcodeServer) (addr : Addr) (mac : Bytes) : Prop :=
  ∀ e, some e ∈ s.connectTokenEntries → e.mac = mac → e.address = addr

theorem bound_binding {s : NetcodeServer} {addr : Addr} {mac : Bytes} (h : Bound s addr mac) (tm : Nat) :
    (s.findOrAddConnectTokenEntry ⟨tm, addr, mac⟩).2 = true := by
  rcases findOrAdd_spec s ⟨tm, addr, mac⟩ with ⟨e, he, hm, heq⟩ | ⟨_, k, heq⟩
  · rw [heq]
    have := h e he hm
    simp only [this, decide_true]
  · rw [heq]

theorem bound_of_binding {s : NetcodeServer} {addr : Addr} {mac : Bytes} (hok : EntriesOK s.connectTokenEntries)
    (tm : Nat) (h : (s.findOrAddConnectTokenEntry ⟨tm, addr, mac⟩).2 = true) : Bound s addr mac := by
  intro e he hm
  apply Classical.byContradiction
  intro hne
  rw [findOrAdd_other_addr hok (ne := ⟨tm, addr, mac⟩) he hm hne] at h
  cases h

theorem bound_entryStep {s s1 : NetcodeServer} {addr : Addr} {mac : Bytes} {tm : Nat} (h : Bound s addr mac)
    (hs : EntryStep s s1 ⟨tm, addr, mac⟩) : Bound s1 addr mac := by
  rcases hs with rfl | ⟨_, k, rfl⟩
  · exact h
  · intro e he hm
    rcases List.mem_or_eq_of_mem_set he with h1 | h1
    · exact h e h1 hm
    · cases h1; rfl

/-- the configuration of a server (what no operation of this file changes) -/
structure SameCfg (s0 s : NetcodeServer) : Prop where
  connectKey : s.connectKey = s0.connectKey
  protocolId : s.protocolId = s0.protocolId
  challengeKey : s.challengeKey = s0.challengeKey
  secure : s.secure = s0.secure
  publicAddresses : s.publicAddresses = s0.publicAddresses
  maxClients : s.maxClients = s0.maxClients

theorem SameCfg.refl (s : NetcodeServer) : SameCfg s s := ⟨rfl, rfl, rfl, rfl, rfl, rfl⟩
theorem SameCfg.trans {s0 s1 s2 : NetcodeServer} (h1 : SameCfg s0 s1) (h2 : SameCfg s1 s2) : SameCfg s0 s2 :=
  ⟨h2.1.trans h1.1, h2.2.trans h1.2, h2.3.trans h1.3, h2.4.trans h1.4, h2.5.trans h1.5, h2.6.trans h1.6⟩

theorem sealedPriv_cfg (a : AEAD) {s0 s : NetcodeServer} (h : SameCfg s0 s) (t : PrivateConnectToken) (expire : Nat)
    (xnonce : Bytes) : sealedPriv a s t expire xnonce = sealedPriv a s0 t expire xnonce := by
  unfold sealedPriv; rw [h.connectKey, h.protocolId]

theorem requestBytes_cfg (a : AEAD) {s0 s : NetcodeServer} (h : SameCfg s0 s) (t : PrivateConnectToken) (expire : Nat)
    (xnonce : Bytes) : requestBytes a s t expire xnonce = requestBytes a s0 t expire xnonce := by
  unfold requestBytes requestPacket; rw [sealedPriv_cfg a h, h.protocolId]

theorem challengeToken_cfg (a : AEAD) {s0 s : NetcodeServer} (h : SameCfg s0 s) (id : Nat) (ud : Bytes) (cs : Nat) :
    challengeToken a s id ud cs = challengeToken a s0 id ud cs := challengeToken_congr a h.challengeKey id ud cs

theorem pendingRemove_filter (m : Pending) (f : Addr × Connection → Bool) (ad : Addr) :
    (pendingRemove (m.filter f) ad).length ≤ (pendingRemove m ad).length := by
  unfold pendingRemove
  induction m with
  | nil => simp
  | cons p rest ih =>
    simp only [List.filter_cons]
    by_cases h1 : f p = true <;> by_cases h2 : decide (p.1 ≠ ad) = true <;>
      simp only [h1, h2, List.filter_cons, if_true, List.length_cons, Bool.false_eq_true, if_false] <;> omega

theorem pendingRemove_of_none {m : Pending} {ad : Addr} (h : pendingFind m ad = none) : pendingRemove m ad = m := by
  unfold pendingRemove
  rw [List.filter_eq_self]
  intro p hp
  simp only [decide_eq_true_eq]
  exact pendingFind_none.mp h p hp

theorem pendingFind_filter_some {f : Addr × Connection → Bool} : ∀ {m : Pending} {ad : Addr} {p : Connection},
    pendingFind m ad = some p → f (ad, p) = true → pendingFind (m.filter f) ad = some p
  | [], _, _, h, _ => by simp [pendingFind] at h
  | (a0, c0) :: rest, ad, p, h, hf => by
    simp only [pendingFind] at h
    split at h
    · rename_i he
      cases h; subst he
      simp only [List.filter_cons, hf, if_true, pendingFind]
    · rename_i hne
      simp only [List.filter_cons]
      split
      · simp only [pendingFind, if_neg hne]
        exact pendingFind_filter_some h hf
      · exact pendingFind_filter_some h hf

/-- the room condition of `handle_connection_request`, from "fewer than the maximum *other* half-open sessions" -/
theorem room_of_others {m : Pending} {ad : Addr} (h : (pendingRemove m ad).length < C.NETCODE_MAX_PENDING_CLIENTS) :
    (pendingFind m ad).isSome ∨ m.length < C.NETCODE_MAX_PENDING_CLIENTS := by
  cases hp : pendingFind m ad with
  | some p => left; rfl
  | none => right; rw [pendingRemove_of_none hp] at h; exact h

/-- **request ⇒ challenge, again and again**: like `NS.progress_request`, but the source address may already have a
    half-open session (a retransmitted or duplicated request) and the token may already be bound to this address.
    The half-open session is (re)created from the token, stamped with the current time. -/
theorem request_challenged (a : AEAD) (hl : a.Laws) {s : NetcodeServer} {addr : Addr} {t : PrivateConnectToken}
    {expire : Nat} {xnonce : Bytes} (hi : ServerInv s) (hg : s.globalSequence < U64_MAX)
    (hc : s.challengeSequence < U64_MAX) (hwf : PTokenWF t) (hxn : xnonce.length = 24) (hexp : expire < 2 ^ 64)
    (hpid : s.protocolId < 2 ^ 64) (hnow : asSecs s.currentTime < expire)
    (hhost : s.secure = true → ∃ x, some x ∈ t.serverAddresses ∧ x ∈ s.publicAddresses)
    (hfa : findClientByAddr s.clients addr = none) (hfi : findClientById s.clients t.clientId = none)
    (hroom : (pendingRemove s.pendingClients addr).length < C.NETCODE_MAX_PENDING_CLIENTS)
    (hbound : Bound s addr (tokenMac (sealedPriv a s t expire xnonce)))
    (hlt : countConnected s.clients < s.maxClients) :
    ∃ s', s.processPacket a addr (requestBytes a s t expire xnonce) = .ok (.packetToSend addr (challengeBytes a s t), s') ∧
      pendingFind s'.pendingClients addr = some (mkPending s.currentTime addr expire t) ∧
      pendingRemove s'.pendingClients addr = pendingRemove s.pendingClients addr ∧
      s'.clients = s.clients ∧ s'.challengeSequence = s.challengeSequence + 1 ∧
      s'.globalSequence = s.globalSequence + 1 ∧ SameCfg s s' ∧ s'.currentTime = s.currentTime ∧
      Bound s' addr (tokenMac (sealedPriv a s t expire xnonce)) ∧ ServerInv s' := by
  have hpwf := requestPacket_wf a hl s hwf hxn hexp hpid (t := t)
  have hgen := ch_generate_eq a t.clientId t.userData hwf.userData (s.challengeSequence + 1) s.challengeKey
  have hen : (Packet.challenge (s.challengeSequence + 1)
        (challengeToken a s t.clientId t.userData (s.challengeSequence + 1))).encode a C.NETCODE_MAX_PACKET_BYTES
        s.protocolId (some (s.globalSequence, t.serverToClientKey)) = .ok (challengeBytes a s t) := by
    rw [Packet.encode_sealed_eq a _ _ _ _ _ (by simp [Packet.packetType])]
    have h1 := Packet.sbr_le s.globalSequence
    have h2 := challengeToken_length a hl s t.clientId hwf.userData (s.challengeSequence + 1)
    rw [if_pos]
    · rfl
    · simp only [Packet.body, List.length_append, leBytes_length, h2]
      have : C.NETCODE_MAX_PACKET_BYTES = 1400 := rfl
      omega
  obtain ⟨r, s', hpp, hout⟩ := pp_spec a hi hg hc addr (requestBytes a s t expire xnonce)
  have hinv : ServerInv s' := ppOut_inv hi hout
  have hlen : ¬ (requestBytes a s t expire xnonce).length < 2 + C.NETCODE_MAC_BYTES := by
    have := sealedPriv_length a hl s hwf expire xnonce
    simp only [requestBytes, requestPacket, Packet.body, List.length_cons, List.length_append, leBytes_length, this, hxn]
    decide
  -- the common tail: the outcome of `handle_connection_request` on a state `sx` that agrees with `s` where it matters
  have tail : ∀ (sx : NetcodeServer) (R : NetcodeServer.SRes), sx.clients = s.clients →
      sx.connectTokenEntries = s.connectTokenEntries → sx.protocolId = s.protocolId → sx.connectKey = s.connectKey →
      sx.maxClients = s.maxClients → sx.challengeSequence = s.challengeSequence → sx.challengeKey = s.challengeKey →
      sx.publicAddresses = s.publicAddresses → sx.currentTime = s.currentTime → sx.globalSequence = s.globalSequence →
      sx.secure = s.secure →
      ((pendingFind sx.pendingClients addr).isSome ∨ sx.pendingClients.length < C.NETCODE_MAX_PENDING_CLIENTS) →
      pendingRemove sx.pendingClients addr = pendingRemove s.pendingClients addr →
      HcrOut a sx addr C.NETCODE_VERSION_INFO s.protocolId expire xnonce (sealedPriv a s t expire xnonce) R →
      HcrRes R r s' →
      r = .packetToSend addr (challengeBytes a s t) ∧
      pendingFind s'.pendingClients addr = some (mkPending s.currentTime addr expire t) ∧
      pendingRemove s'.pendingClients addr = pendingRemove s.pendingClients addr ∧
      s'.clients = s.clients ∧ s'.challengeSequence = s.challengeSequence + 1 ∧
      s'.globalSequence = s.globalSequence + 1 ∧ SameCfg s s' ∧ s'.currentTime = s.currentTime ∧
      Bound s' addr (tokenMac (sealedPriv a s t expire xnonce)) := by
    intro sx R e1 e2 e3 e4 e5 e6 e7 e8 e9 e10 e11 hrm hrem hcr hres
    have hopens : TokenOpens a sx expire xnonce (sealedPriv a s t expire xnonce) t := by
      obtain ⟨pl, h1, h2⟩ := sealedPriv_opens a hl s hwf expire xnonce
      exact ⟨pl, by rw [e4, e3]; exact h1, h2⟩
    have hbx : Bound sx addr (tokenMac (sealedPriv a s t expire xnonce)) := by
      intro e he; rw [e2] at he; exact hbound e he
    have hacc : Accepted a sx addr C.NETCODE_VERSION_INFO s.protocolId expire xnonce (sealedPriv a s t expire xnonce) t :=
      ⟨rfl, e3.symm, by rw [e9]; exact hnow, hopens, by rw [e11, e8]; exact hhost, by rw [e1]; exact hfa,
        by rw [e1]; exact hfi, hrm, bound_binding hbx _⟩
    cases hcr with
    | err e hno => exact absurd hacc (hno t)
    | none hno => exact absurd hacc (hno t)
    | deniedErr t' s1 e _ _ hfull => rw [e1, e5] at hfull; omega
    | denied t' s1 out _ _ hfull => rw [e1, e5] at hfull; omega
    | challengeErr t' s1 e hacc' hstep _ hcause =>
      have := tokenOpens_unique hacc'.opens hacc.opens; subst this
      rw [e6, e7, e3, e10] at hcause
      rcases hcause with h | ⟨pkt, h1, h2⟩
      · rw [hgen] at h; cases h
      · rw [hgen] at h1; cases h1
        have hen' := hen
        unfold challengeToken at hen'
        rw [hen'] at h2; cases h2
    | challenge t' s1 pkt out hacc' hstep _ hgen' hen' =>
      have := tokenOpens_unique hacc'.opens hacc.opens; subst this
      rw [e6, e7] at hgen'
      rw [hgen] at hgen'; cases hgen'
      have hen2 := hen
      unfold challengeToken at hen2
      rw [e3, e10, hen2] at hen'; cases hen'
      rcases hres with h | ⟨_, e, h⟩
      · cases h
        have hf := entryStep_fields hstep
        have hb1 := bound_entryStep hbx hstep
        refine ⟨rfl, ?_, ?_, ?_, ?_, ?_, ?_, ?_, ?_⟩
        · simp only [pendingFind_set, if_true, e9]
        · show pendingRemove (pendingSet s1.pendingClients addr _) addr = _
          rw [pendingRemove_pendingSet, hf.2.1, hrem]
        · show s1.clients = s.clients; rw [hf.1, e1]
        · show sx.challengeSequence + 1 = _; rw [e6]
        · show sx.globalSequence + 1 = _; rw [e10]
        · exact ⟨by show s1.connectKey = _; rw [hf.2.2.2.1, e4], by show s1.protocolId = _; rw [hf.2.2.1, e3],
            by show s1.challengeKey = _; rw [hf.2.2.2.2.2.2.1, e7], by show s1.secure = _; rw [hf.2.2.2.2.2.2.2.2.2.2, e11],
            by show s1.publicAddresses = _; rw [hf.2.2.2.2.2.2.2.1, e8], by show s1.maxClients = _; rw [hf.2.2.2.2.1, e5]⟩
        · show s1.currentTime = _; rw [hf.2.2.2.2.2.2.2.2.1, e9]
        · intro e he; exact hb1 e he
      · cases h
  cases hout with
  | short h => exact absurd h hlen
  | connErr i c e w' hfa' => rw [hfa] at hfa'; cases hfa'
  | connDisconnect i c sq w' hfa' => rw [hfa] at hfa'; cases hfa'
  | connPayload i c sq p w' hfa' => rw [hfa] at hfa'; cases hfa'
  | connKeepAlive i c sq ci mc w' hfa' => rw [hfa] at hfa'; cases hfa'
  | connOther i c sq pk w' hfa' => rw [hfa] at hfa'; cases hfa'
  | pendErr p e w' _ hpf' hd =>
    have hdec := Packet.decode_request_bytes a (p := requestPacket a s t expire xnonce) rfl hpwf s.protocolId
      (some p.receiveKey) (some p.replayProtection)
    unfold requestBytes at hd; rw [hdec] at hd; cases hd
  | pendRequest p sq v pid expire' xnonce' data w' R _ _ _ hpf' hd hcr hres =>
    have hdec := Packet.decode_request_bytes a (p := requestPacket a s t expire xnonce) rfl hpwf s.protocolId
      (some p.receiveKey) (some p.replayProtection)
    unfold requestBytes at hd; rw [hdec] at hd
    simp only [requestPacket, Prod.mk.injEq, Res.ok.injEq, Packet.connectionRequest.injEq, Option.some.injEq] at hd
    obtain ⟨⟨_, rfl, rfl, rfl, rfl, rfl⟩, rfl⟩ := hd
    obtain ⟨h0, h1, h2, h3, h4, h5, h6, h7, h8⟩ := tail
      { s with pendingClients := pendingSet s.pendingClients addr (touched p p.replayProtection s.currentTime) }
      R rfl rfl rfl rfl rfl rfl rfl rfl rfl rfl rfl
      (Or.inl (by simp only [pendingFind_set, if_true, Option.isSome_some]))
      (by show pendingRemove (pendingSet s.pendingClients addr _) addr = _; rw [pendingRemove_pendingSet]) hcr hres
    subst h0
    exact ⟨_, hpp, h1, h2, h3, h4, h5, h6, h7, h8, hinv⟩
  | pendOther p sq pk w' _ hpf' hd h1 _ =>
    have hdec := Packet.decode_request_bytes a (p := requestPacket a s t expire xnonce) rfl hpwf s.protocolId
      (some p.receiveKey) (some p.replayProtection)
    unfold requestBytes at hd; rw [hdec] at hd
    simp only [Prod.mk.injEq, Res.ok.injEq] at hd
    obtain ⟨⟨_, rfl⟩, _⟩ := hd
    exact absurd rfl h1
  | respRejected p sq ts td w' _ hpf' hd =>
    have hdec := Packet.decode_request_bytes a (p := requestPacket a s t expire xnonce) rfl hpwf s.protocolId
      (some p.receiveKey) (some p.replayProtection)
    unfold requestBytes at hd; rw [hdec] at hd; simp [requestPacket] at hd
  | respDropped p sq ts td w' _ hpf' hd =>
    have hdec := Packet.decode_request_bytes a (p := requestPacket a s t expire xnonce) rfl hpwf s.protocolId
      (some p.receiveKey) (some p.replayProtection)
    unfold requestBytes at hd; rw [hdec] at hd; simp [requestPacket] at hd
  | respFull p sq ts td w' out _ hpf' hd =>
    have hdec := Packet.decode_request_bytes a (p := requestPacket a s t expire xnonce) rfl hpwf s.protocolId
      (some p.receiveKey) (some p.replayProtection)
    unfold requestBytes at hd; rw [hdec] at hd; simp [requestPacket] at hd
  | respConnected p sq ts td w' i out _ hpf' hd =>
    have hdec := Packet.decode_request_bytes a (p := requestPacket a s t expire xnonce) rfl hpwf s.protocolId
      (some p.receiveKey) (some p.replayProtection)
    unfold requestBytes at hd; rw [hdec] at hd; simp [requestPacket] at hd
  | newErr e _ _ hd =>
    have hdec := Packet.decode_request_bytes a (p := requestPacket a s t expire xnonce) rfl hpwf s.protocolId none none
    unfold requestBytes at hd; rw [hdec] at hd; cases hd
  | newRequest sq v pid expire' xnonce' data R _ _ _ hpf' hd hcr hres =>
    have hdec := Packet.decode_request_bytes a (p := requestPacket a s t expire xnonce) rfl hpwf s.protocolId none none
    unfold requestBytes at hd; rw [hdec] at hd
    simp only [requestPacket, Res.ok.injEq, Prod.mk.injEq, Packet.connectionRequest.injEq] at hd
    obtain ⟨_, rfl, rfl, rfl, rfl, rfl⟩ := hd
    obtain ⟨h0, h1, h2, h3, h4, h5, h6, h7, h8⟩ := tail s R rfl rfl rfl rfl rfl rfl rfl rfl rfl rfl rfl
      (room_of_others hroom) rfl hcr hres
    subst h0
    exact ⟨_, hpp, h1, h2, h3, h4, h5, h6, h7, h8, hinv⟩

/-- **response ⇒ ClientConnected + keep-alive**, with the new server state written out (`NS.progress_response` only
    exposes its slot table and pending map) -/
theorem response_connects_eq (a : AEAD) (hl : a.Laws) {s : NetcodeServer} {addr : Addr} {p : Connection} {i seq cs : Nat}
    (hi : ServerInv s) (hg : s.globalSequence < U64_MAX) (hc : s.challengeSequence < U64_MAX)
    (hfa : findClientByAddr s.clients addr = none) (hpf : pendingFind s.pendingClients addr = some p)
    (hid : findClientById s.clients p.clientId = none) (hff : firstFreeSlot s.clients = some i)
    (hud : p.userData.length = 256) (hcid : p.clientId < 2 ^ 64) (hcs : cs < 2 ^ 64) (hseq : seq < 2 ^ 64) :
    s.processPacket a addr
        (Packet.sealedBytes a (.response cs (challengeToken a s p.clientId p.userData cs)) s.protocolId seq p.receiveKey) =
      .ok (.clientConnected p.clientId addr p.userData (connectKeepAlive a s p i),
           { s with pendingClients := pendingRemove s.pendingClients addr
                    clients := s.clients.set i (some (promoted p p.replayProtection s.currentTime)) }) := by
  have hdec := Packet.decode_sealedBytes a (.response cs (challengeToken a s p.clientId p.userData cs))
    s.protocolId seq p.receiveKey hl hseq (by simp [Packet.packetType])
    ⟨hcs, challengeToken_length a hl s p.clientId hud _⟩ (some p.replayProtection) rfl
  simp only [Packet.stepWindow, Packet.packetType, PacketType.applyReplayProtection, Option.map_some,
    Bool.false_eq_true, if_false] at hdec
  have hct : ChallengeToken.decode a (challengeToken a s p.clientId p.userData cs) cs s.challengeKey =
      .ok ⟨p.clientId, p.userData⟩ := ch_decode_generate a hl p.clientId p.userData hcid hud cs s.challengeKey
  have hpok := hi.pend (addr, p) (NS.pendingFind_mem hpf)
  have hka : (Packet.keepAlive (i % 2 ^ 32) (s.maxClients % 2 ^ 32)).encode a C.NETCODE_MAX_PACKET_BYTES s.protocolId
      (some (p.sequence, p.sendKey)) = .ok (connectKeepAlive a s p i) := by
    rw [Packet.encode_sealed_eq a _ _ _ _ _ (by simp [Packet.packetType])]
    have h1 := Packet.sbr_le p.sequence
    rw [if_pos]
    · rfl
    · simp only [Packet.body, List.length_append, leBytes_length]
      have : C.NETCODE_MAX_PACKET_BYTES = 1400 := rfl
      omega
  have hden : ∀ e, Packet.connectionDenied.encode a C.NETCODE_MAX_PACKET_BYTES s.protocolId
      (some (s.globalSequence, p.sendKey)) ≠ .err e := by
    intro e
    rw [Packet.encode_sealed_eq a _ _ _ _ _ (by simp [Packet.packetType])]
    have h1 := Packet.sbr_le s.globalSequence
    rw [if_pos]
    · simp
    · simp only [Packet.body, List.length_nil]
      have : C.NETCODE_MAX_PACKET_BYTES = 1400 := rfl
      omega
  obtain ⟨r, s', hpp, hout⟩ := pp_spec a hi hg hc addr
    (Packet.sealedBytes a (.response cs (challengeToken a s p.clientId p.userData cs)) s.protocolId seq p.receiveKey)
  cases hout with
  | short h =>
    exfalso
    rw [decode_eq, if_pos h] at hdec; cases hdec
  | connErr i' c e w' hfa' => rw [hfa] at hfa'; cases hfa'
  | connDisconnect i' c sq w' hfa' => rw [hfa] at hfa'; cases hfa'
  | connPayload i' c sq pl w' hfa' => rw [hfa] at hfa'; cases hfa'
  | connKeepAlive i' c sq ci mc w' hfa' => rw [hfa] at hfa'; cases hfa'
  | connOther i' c sq pk w' hfa' => rw [hfa] at hfa'; cases hfa'
  | pendErr p' e w' _ hpf' hd => rw [hpf] at hpf'; cases hpf'; rw [hdec] at hd; cases hd
  | pendRequest p' sq v pid expire' xnonce' data w' R _ _ _ hpf' hd =>
    rw [hpf] at hpf'; cases hpf'; rw [hdec] at hd; cases hd
  | pendOther p' sq pk w' _ hpf' hd _ h2 =>
    rw [hpf] at hpf'; cases hpf'; rw [hdec] at hd; cases hd
    exact absurd rfl h2
  | respRejected p' sq ts td w' _ hpf' hd hbad =>
    rw [hpf] at hpf'; cases hpf'; rw [hdec] at hd; cases hd
    rcases hbad _ hct with h | h <;> exact absurd rfl h
  | respDropped p' sq ts td w' _ hpf' hd _ hcause =>
    rw [hpf] at hpf'; cases hpf'
    rcases hcause with h | ⟨e, h⟩ | ⟨i', e, h1, h2⟩
    · rw [findSlot_isSome, hid] at h; cases h
    · exact absurd h (hden e)
    · rw [hff] at h1; cases h1
      rw [hka] at h2; cases h2
  | respFull p' sq ts td w' out _ hpf' hd _ _ hff' => rw [hff] at hff'; cases hff'
  | respConnected p' sq ts td w' i' out _ hpf' hd _ _ hff' hen =>
    rw [hpf] at hpf'; cases hpf'; rw [hdec] at hd; cases hd
    rw [hff] at hff'; cases hff'
    rw [hka] at hen; cases hen
    exact hpp
  | newErr e _ hpf' => rw [hpf] at hpf'; cases hpf'
  | newRequest sq v pid expire' xnonce' data R _ _ _ hpf' => rw [hpf] at hpf'; cases hpf'

/-- the server after `update(d)` -/
abbrev srvTick (s : NetcodeServer) (d : Nat) : NetcodeServer :=
  { s with currentTime := s.currentTime + d
           pendingClients := s.pendingClients.filter fun p => !(asSecs (s.currentTime + d) > p.2.expireTimestamp) }

theorem server_update_eq {s : NetcodeServer} {d : Nat} (h : s.currentTime + d ≤ DURATION_MAX) :
    s.update d = .ok (srvTick s d) := by
  obtain ⟨s', hs⟩ := update_ne_panic h
  rw [hs, update_ok hs]

theorem timeout_le {c : Connection} (h : c.timeoutSeconds < 2 ^ 31) :
    fromSecs c.timeoutSeconds.toNat ≤ fromSecs (2 ^ 31) := by
  unfold fromSecs
  apply Nat.mul_le_mul_right
  omega

/-- `update_client` for a session that is neither timed out nor due for a keep-alive: nothing happens -/
theorem updateClient_quiet (a : AEAD) {s : NetcodeServer} {id i : Nat} {cn : Connection} (hi : ServerInv s)
    (hc : At s.clients i cn) (hid : cn.clientId = id) (hnt : ¬ TimedOut cn s.currentTime)
    (hclock : s.currentTime + fromSecs (2 ^ 31) ≤ DURATION_MAX) (hseq : cn.sequence < U64_MAX)
    (hnd : s.currentTime < cn.lastPacketSendTime + C.NETCODE_SEND_RATE_NS) :
    s.updateClient a id = .ok (.none, s) := by
  have hf : findClientSlotById s.clients id = some i := hi.slots.findSlot_iff.mpr ⟨cn, hc, hid⟩
  rcases updateClient_spec a hi hf hc with ⟨hto, _⟩ | ⟨_, e | ⟨out, hdue, _, _⟩⟩ | ⟨_, hn⟩
  · exact absurd hto hnt
  · exact e
  · omega
  · exact absurd ⟨hclock, hseq⟩ hn

/-- the keep-alive part of `update_client`, when it is due -/
theorem ucTail_due (a : AEAD) (s : NetcodeServer) (id i : Nat) {cn : Connection} (hst : cn.state = .connected)
    (hsend : cn.lastPacketSendTime + C.NETCODE_SEND_RATE_NS ≤ DURATION_MAX) (hseq : cn.sequence < U64_MAX)
    (hdue : cn.lastPacketSendTime + C.NETCODE_SEND_RATE_NS ≤ s.currentTime) :
    ucTail a s id i cn false =
      .ok (.packetToSend cn.addr (connectKeepAlive a s cn i),
           { s with clients := s.clients.set i (some (sentKeepAlive cn s.currentTime)) }) := by
  have hnd : ¬ cn.state = .disconnected := by rw [hst]; simp
  have hka : (Packet.keepAlive (i % 2 ^ 32) (s.maxClients % 2 ^ 32)).encode a C.NETCODE_MAX_PACKET_BYTES s.protocolId
      (some (cn.sequence, cn.sendKey)) = .ok (connectKeepAlive a s cn i) := by
    rw [Packet.encode_sealed_eq a _ _ _ _ _ (by simp [Packet.packetType])]
    have h1 := Packet.sbr_le cn.sequence
    rw [if_pos]
    · rfl
    · simp only [Packet.body, List.length_append, leBytes_length]
      have : C.NETCODE_MAX_PACKET_BYTES = 1400 := rfl
      omega
  unfold ucTail
  simp only [Bool.false_eq_true, if_false]
  rw [if_neg hnd, durAdd_ok _ hsend]
  simp only [bind_ok', if_pos hdue, hka, incU64_ok _ hseq, pure_eq']

/-- **`update_client` for a session that is not timed out and whose send timer is due: a keep-alive goes out**
    (sealed with the session's send key and sequence number, which is then incremented) -/
theorem updateClient_due (a : AEAD) {s : NetcodeServer} {id i : Nat} {cn : Connection} (hi : ServerInv s)
    (hc : At s.clients i cn) (hid : cn.clientId = id) (hnt : ¬ TimedOut cn s.currentTime)
    (hclock : s.currentTime + fromSecs (2 ^ 31) ≤ DURATION_MAX) (hseq : cn.sequence < U64_MAX)
    (hdue : cn.lastPacketSendTime + C.NETCODE_SEND_RATE_NS ≤ s.currentTime) :
    s.updateClient a id =
      .ok (.packetToSend cn.addr (connectKeepAlive a s cn i),
           { s with clients := s.clients.set i (some (sentKeepAlive cn s.currentTime)) }) := by
  have hf : findClientSlotById s.clients id = some i := hi.slots.findSlot_iff.mpr ⟨cn, hc, hid⟩
  have hok := hi.slotsOK i cn hc
  have hst := hi.slots.conn i cn hc
  have hns := timeout_le hok.tmo
  have h1 := hok.recv
  have hsend : cn.lastPacketSendTime + C.NETCODE_SEND_RATE_NS ≤ DURATION_MAX := by
    have : C.NETCODE_SEND_RATE_NS ≤ fromSecs (2 ^ 31) := by decide
    have := hok.send
    omega
  rw [updateClient_eq a hf hc]
  by_cases ht1 : cn.timeoutSeconds > 0
  · have hlt : ¬ cn.lastPacketReceivedTime + fromSecs cn.timeoutSeconds.toNat < s.currentTime := fun h => hnt ⟨ht1, h⟩
    rw [if_pos ht1, durAdd_ok _ (by omega)]
    simp only [bind_ok', pure_eq', decide_eq_false hlt]
    exact ucTail_due a s id i hst hsend hseq hdue
  · rw [if_neg ht1]
    simp only [pure_eq', bind_ok']
    exact ucTail_due a s id i hst hsend hseq hdue

/-- a datagram from a connected address that decodes to anything but Disconnect / Payload / KeepAlive (e.g. a
    retransmitted Response) only steps that session's replay window -/
theorem pp_connected_other (a : AEAD) {s : NetcodeServer} {addr : Addr} {buf : Bytes} {i sq : Nat} {cn : Connection}
    {pk : Packet} {w' : RP} (hi : ServerInv s) (hg : s.globalSequence < U64_MAX) (hc : s.challengeSequence < U64_MAX)
    (hfa : findClientByAddr s.clients addr = some (i, cn))
    (hdec : Packet.decode a buf s.protocolId (some cn.receiveKey) (some cn.replayProtection) = (.ok (sq, pk), some w'))
    (h1 : pk.packetType ≠ .disconnect) (h2 : pk.packetType ≠ .payload) (h3 : pk.packetType ≠ .keepAlive) :
    s.processPacket a addr buf =
      .ok (.none, { s with clients := s.clients.set i (some { cn with replayProtection := w' }) }) := by
  obtain ⟨r, s', hpp, hout⟩ := pp_spec a hi hg hc addr buf
  cases hout with
  | short hs => exfalso; rw [decode_eq, if_pos hs] at hdec; cases hdec
  | connErr j cj e w'' hfa' hdec' => rw [hfa] at hfa'; cases hfa'; rw [hdec] at hdec'; cases hdec'
  | connDisconnect j cj sq' w'' hfa' hdec' =>
    rw [hfa] at hfa'; cases hfa'; rw [hdec] at hdec'; cases hdec'; exact absurd rfl h1
  | connPayload j cj sq' p w'' hfa' hdec' =>
    rw [hfa] at hfa'; cases hfa'; rw [hdec] at hdec'; cases hdec'; exact absurd rfl h2
  | connKeepAlive j cj sq' ci mc w'' hfa' hdec' =>
    rw [hfa] at hfa'; cases hfa'; rw [hdec] at hdec'; cases hdec'; exact absurd rfl h3
  | connOther j cj sq' pk' w'' hfa' hdec' _ _ _ =>
    rw [hfa] at hfa'; cases hfa'; rw [hdec] at hdec'; cases hdec'; exact hpp
  | pendErr p e w'' hfa' => rw [hfa] at hfa'; cases hfa'
  | pendRequest p sq' v pid expire xnonce data w'' R _ _ hfa' => rw [hfa] at hfa'; cases hfa'
  | pendOther p sq' pk' w'' hfa' => rw [hfa] at hfa'; cases hfa'
  | respRejected p sq' ts td w'' hfa' => rw [hfa] at hfa'; cases hfa'
  | respDropped p sq' ts td w'' hfa' => rw [hfa] at hfa'; cases hfa'
  | respFull p sq' ts td w'' out hfa' => rw [hfa] at hfa'; cases hfa'
  | respConnected p sq' ts td w'' j out hfa' => rw [hfa] at hfa'; cases hfa'
  | newErr e hfa' => rw [hfa] at hfa'; cases hfa'
  | newRequest sq' v pid expire xnonce data R _ _ hfa' => rw [hfa] at hfa'; cases hfa'

/-! ### B.2 client side -/

/-- How long a connecting client can still run: `T` more nanoseconds without the token's window closing, the
    server-silence time-out firing, or a `Duration` operation overflowing. -/
structure CBudget (c : NetcodeClient) (T : Nat) : Prop where
  clock : c.currentTime + T + fromSecs c.connectToken.timeoutSeconds.toNat ≤ DURATION_MAX
  start : c.connectStartTime ≤ c.currentTime
  recv : c.lastPacketReceivedTime ≤ c.currentTime
  window : asSecs (c.currentTime + T - c.connectStartTime) < tokenWindow c
  alive : c.connectToken.timeoutSeconds ≤ 0 ∨
    c.currentTime + T ≤ c.lastPacketReceivedTime + fromSecs c.connectToken.timeoutSeconds.toNat

theorem asSecs_mono {x y : Nat} (h : x ≤ y) : asSecs x ≤ asSecs y := Nat.div_le_div_right h

theorem CBudget.clockOK {c : NetcodeClient} {T d : Nat} (h : CBudget c T) (hd : d ≤ T) : ClockOK c d := by
  have h1 := h.clock; have h2 := h.start; have h3 := h.recv
  exact ⟨by omega, by omega, by omega⟩

theorem CBudget.inWindow {c : NetcodeClient} {T d : Nat} (h : CBudget c T) (hd : d ≤ T) :
    asSecs (c.currentTime + d - c.connectStartTime) < tokenWindow c :=
  Nat.lt_of_le_of_lt (asSecs_mono (by omega)) h.window

theorem CBudget.notTimedOut {c : NetcodeClient} {T d : Nat} (h : CBudget c T) (hd : d ≤ T) :
    ¬ CTimedOut c (c.currentTime + d) := by
  rintro ⟨h1, h2⟩
  rcases h.alive with h3 | h3 <;> omega

theorem CBudget.step {c c' : NetcodeClient} {T d : Nat} (h : CBudget c T) (hd : d ≤ T)
    (h1 : c'.currentTime = c.currentTime + d) (h2 : c'.connectToken = c.connectToken)
    (h3 : c'.connectStartTime = c.connectStartTime)
    (h4 : c'.lastPacketReceivedTime = c.lastPacketReceivedTime ∨ c'.lastPacketReceivedTime = c'.currentTime) :
    CBudget c' (T - d) := by
  have e1 := h.clock; have e2 := h.start; have e3 := h.recv; have e4 := h.window; have e5 := h.alive
  have hw : tokenWindow c' = tokenWindow c := by unfold tokenWindow; rw [h2]
  refine ⟨by rw [h1, h2]; omega, by rw [h1, h3]; omega, by rcases h4 with e | e <;> rw [e] <;> omega, ?_, ?_⟩
  · rw [hw, h1, h3]
    have : c.currentTime + d + (T - d) = c.currentTime + T := by omega
    rw [this]; exact e4
  · rw [h2, h1]
    rcases e5 with e | e
    · exact Or.inl e
    · right
      rcases h4 with e' | e' <;> rw [e'] <;> omega

/-- a connecting client within its budget: `update(d)` advances the clock and goes on to `generate_packet` -/
theorem update_continues (a : AEAD) {c : NetcodeClient} {T d : Nat} (hst : Connecting c) (h : CBudget c T) (hd : d ≤ T) :
    c.update a d = ({ c with currentTime := c.currentTime + d } : NetcodeClient).generatePacket a := by
  unfold NetcodeClient.update
  rw [client_connecting_continues hst (h.clockOK hd) (h.inWindow hd) (h.notTimedOut hd)]
  simp only [bind_ok']

/-- the send-rate gate is closed: nothing is sent -/
theorem generatePacket_closed (a : AEAD) {c : NetcodeClient} {tm : Nat} (hs : c.lastPacketSendTime = some tm)
    (hle : tm ≤ c.currentTime) (h : c.currentTime - tm < c.sendRate) : c.generatePacket a = .ok (none, c) := by
  unfold NetcodeClient.generatePacket
  simp only [hs, csub_ok _ hle, bind_ok', pure_eq', decide_eq_true h, if_true]

/-- the send-rate gate is open: an active client behaves as if it had not sent anything yet -/
theorem generatePacket_open (a : AEAD) {c : NetcodeClient} {tm : Nat} (hs : c.lastPacketSendTime = some tm)
    (hle : tm ≤ c.currentTime) (h : c.sendRate ≤ c.currentTime - tm) (hact : Connecting c) :
    c.generatePacket a = ({ c with lastPacketSendTime := none } : NetcodeClient).generatePacket a := by
  rcases c with ⟨st, f2, f3, ls, f5, f6, f7, f8, f9, f10, f11, f12, f13, f14, f15, f16⟩
  simp only at hs hle h
  subst hs
  unfold NetcodeClient.generatePacket
  simp only [csub_ok _ hle, bind_ok', pure_eq', decide_eq_false (Nat.not_lt.mpr h), Bool.false_eq_true, if_false]
  rcases hact with h1 | h1 <;> (simp only at h1; subst h1; rfl)

/-- the send-rate gate of `update(d)` is open: nothing was sent yet, or the last packet is at least `send_rate` old -/
def GateOpen (c : NetcodeClient) (d : Nat) : Prop :=
  ∀ tm, c.lastPacketSendTime = some tm → c.sendRate ≤ c.currentTime + d - tm

theorem gateOpen_of_none {c : NetcodeClient} {d : Nat} (h : c.lastPacketSendTime = none) : GateOpen c d := by
  intro tm e; rw [h] at e; cases e

theorem gateOpen_of_rate {c : NetcodeClient} {d : Nat} (h : c.sendRate ≤ d)
    (hle : ∀ tm, c.lastPacketSendTime = some tm → tm ≤ c.currentTime) : GateOpen c d := by
  intro tm e; have := hle tm e; omega

/-- the client after an `update(d)` that sent nothing / sent a packet -/
abbrev cliTick (c : NetcodeClient) (d : Nat) : NetcodeClient := { c with currentTime := c.currentTime + d }
abbrev cliSent (c : NetcodeClient) (d : Nat) : NetcodeClient :=
  { c with currentTime := c.currentTime + d, lastPacketSendTime := some (c.currentTime + d), sequence := c.sequence + 1 }

/-- **gate closed**: `update(d)` of a connecting client only advances its clock -/
theorem update_gate_closed (a : AEAD) {c : NetcodeClient} {T d : Nat} (hst : Connecting c) (hb : CBudget c T) (hd : d ≤ T)
    (hle : ∀ tm, c.lastPacketSendTime = some tm → tm ≤ c.currentTime) (hg : ¬ GateOpen c d) :
    c.update a d = .ok (none, cliTick c d) := by
  rw [update_continues a hst hb hd]
  unfold GateOpen at hg
  have : ∃ tm, c.lastPacketSendTime = some tm ∧ c.currentTime + d - tm < c.sendRate := by
    apply Classical.byContradiction
    intro hn
    apply hg
    intro tm e
    apply Classical.byContradiction
    intro hlt
    exact hn ⟨tm, e, by omega⟩
  obtain ⟨tm, e, hlt⟩ := this
  exact generatePacket_closed a (c := { c with currentTime := c.currentTime + d }) e (by have := hle tm e; simp only; omega) hlt

/-- **gate open, request phase**: `update(d)` emits the connection request (again) with a fresh sequence number -/
theorem update_sends_request (a : AEAD) (hl : a.Laws) {c : NetcodeClient} {s : NetcodeServer} {t : PrivateConnectToken}
    {expire : Nat} {xnonce : Bytes} {T d : Nat} (htok : TokenFor a s t expire xnonce c.connectToken) (hwf : PTokenWF t)
    (hxn : xnonce.length = 24) (hst : c.state = .sendingConnectionRequest) (hb : CBudget c T) (hd : d ≤ T)
    (hseq : c.sequence < U64_MAX) (hle : ∀ tm, c.lastPacketSendTime = some tm → tm ≤ c.currentTime)
    (hg : GateOpen c d) :
    c.update a d = .ok (some (requestBytes a s t expire xnonce, c.serverAddr), cliSent c d) := by
  rw [update_continues a (Or.inl hst) hb hd]
  rcases Option.eq_none_or_eq_some c.lastPacketSendTime with hls | ⟨tm, hls⟩
  · exact progress_send_request a hl (c := { c with currentTime := c.currentTime + d }) htok hwf hxn hst hls hseq
  · rw [generatePacket_open a (c := { c with currentTime := c.currentTime + d }) hls
      (by have := hle tm hls; simp only; omega) (hg tm hls) (Or.inl hst)]
    exact progress_send_request a hl (c := { c with currentTime := c.currentTime + d, lastPacketSendTime := none })
      htok hwf hxn hst rfl hseq

/-- **gate open, response phase**: `update(d)` emits the response (again) with a fresh sequence number -/
theorem update_sends_response (a : AEAD) (hl : a.Laws) {c : NetcodeClient} {T d : Nat}
    (hst : c.state = .sendingConnectionResponse) (htd : c.challengeTokenData.length = 300) (hb : CBudget c T)
    (hd : d ≤ T) (hseq : c.sequence < U64_MAX) (hle : ∀ tm, c.lastPacketSendTime = some tm → tm ≤ c.currentTime)
    (hg : GateOpen c d) :
    c.update a d = .ok (some (responseBytes a c, c.serverAddr), cliSent c d) := by
  rw [update_continues a (Or.inr hst) hb hd]
  rcases Option.eq_none_or_eq_some c.lastPacketSendTime with hls | ⟨tm, hls⟩
  · exact progress_send_response a hl (c := { c with currentTime := c.currentTime + d }) hst hls hseq htd
  · rw [generatePacket_open a (c := { c with currentTime := c.currentTime + d }) hls
      (by have := hle tm hls; simp only; omega) (hg tm hls) (Or.inr hst)]
    exact progress_send_response a hl (c := { c with currentTime := c.currentTime + d, lastPacketSendTime := none })
      hst rfl hseq htd

theorem rp_new_fresh (k : Nat) : RP.new.alreadyReceived k = false := by
  unfold RP.alreadyReceived
  have h1 : ¬ (k + 256 ≤ RP.alreadyReceived.U64 ∧ k + 256 ≤ RP.new.mostRecent) := by
    intro h; have := h.2; simp only [RP.new] at this; omega
  rw [if_neg h1]
  have h2 : RP.new.at k = Replay.EMPTY := by simp [RP.at, RP.new]
  rw [if_pos h2]

/-! ### B.3 rounds: both clocks advance, the client's datagram travels up, the server's answers travel down -/

/-- what the network does to the datagrams of one round: everything arrives; the client's datagram is lost (and with
    it everything else of the round); the client's datagram arrives but nothing the server sends does -/
inductive Fate where
  | delivered | upLost | downLost
  deriving DecidableEq, Repr

def resOpt {α : Type} : Res Empty α → Option α
  | .ok x => some x
  | _ => none

/-- the datagram (if any) a server result carries for `addr` -/
def answerTo (addr : Addr) : ServerResult → Option Bytes
  | .packetToSend ad p => if ad = addr then some p else none
  | .clientConnected _ ad _ p => if ad = addr then some p else none
  | _ => none

/-- hand a datagram (if any) to the client's `process_packet` -/
def deliver (a : AEAD) (o : Option Bytes) (c : NetcodeClient) : Option NetcodeClient :=
  match o with
  | none => some c
  | some p =>
    match c.processPacket a p with
    | .ok (_, c') => some c'
    | _ => none

/-- the way up: the client's datagram reaches the server (whose own address is `me`) unless it is lost or addressed
    to another server; the server sees it coming from `addr` -/
def up (a : AEAD) (addr me : Addr) (f : Fate) (out : Option (Bytes × Addr)) (s : NetcodeServer) :
    Option (ServerResult × NetcodeServer) :=
  match out with
  | none => some (.none, s)
  | some (dg, dst) => if f = .upLost ∨ dst ≠ me then some (.none, s) else resOpt (s.processPacket a addr dg)

/-- the way down: in a `delivered` round the client processes the answer to its datagram and the keep-alive of the
    server's tick -/
def down (a : AEAD) (addr : Addr) (f : Fate) (r r' : ServerResult) (c : NetcodeClient) : Option NetcodeClient :=
  if f = .delivered then (deliver a (answerTo addr r) c).bind (deliver a (answerTo addr r')) else some c

/-- **One round of `d` nanoseconds** between a client (seen by the server as `addr`, client id `id`) and the server
    listening on `me`: `server.update(d)`; `client.update(d)` (time-outs, failover, send-rate gate, at most one
    datagram); the datagram travels up (`up`); the server's per-client tick `update_client(id)` (time-out, keep-alive);
    the answers travel down (`down`).  `none` = some call unwound. -/
def round (a : AEAD) (addr me : Addr) (id : Nat) (f : Fate) (d : Nat) (w : NetcodeClient × NetcodeServer) :
    Option (NetcodeClient × NetcodeServer) :=
  match w.2.update d, w.1.update a d with
  | .ok s1, .ok (out, c1) =>
    match up a addr me f out s1 with
    | some (r, s2) =>
      match s2.updateClient a id with
      | .ok (r', s3) => (down a addr f r r' c1).map fun c3 => (c3, s3)
      | _ => none
    | none => none
  | _, _ => none

/-- a schedule of rounds -/
def runRounds (a : AEAD) (addr me : Addr) (id : Nat) :
    List (Fate × Nat) → NetcodeClient × NetcodeServer → Option (NetcodeClient × NetcodeServer)
  | [], w => some w
  | (f, d) :: rest, w => (round a addr me id f d w).bind (runRounds a addr me id rest)

/-- the duration of a schedule -/
def totalTime : List (Fate × Nat) → Nat
  | [] => 0
  | (_, d) :: rest => d + totalTime rest

theorem totalTime_append (l1 l2 : List (Fate × Nat)) : totalTime (l1 ++ l2) = totalTime l1 + totalTime l2 := by
  induction l1 with
  | nil => simp [totalTime]
  | cons x rest ih => obtain ⟨f, d⟩ := x; simp only [List.cons_append, totalTime, ih]; omega

theorem runRounds_append (a : AEAD) (addr me : Addr) (id : Nat) (l1 l2 : List (Fate × Nat))
    (w : NetcodeClient × NetcodeServer) :
    runRounds a addr me id (l1 ++ l2) w = (runRounds a addr me id l1 w).bind (runRounds a addr me id l2) := by
  induction l1 generalizing w with
  | nil => rfl
  | cons x rest ih =>
    obtain ⟨f, d⟩ := x
    simp only [List.cons_append, runRounds]
    cases round a addr me id f d w with
    | none => rfl
    | some w' => simp only [Option.bind_some, ih]

theorem round_intro {a : AEAD} {addr me : Addr} {id : Nat} {f : Fate} {d : Nat} {c c1 c3 : NetcodeClient}
    {s s1 s2 s3 : NetcodeServer} {out : Option (Bytes × Addr)} {r r' : ServerResult}
    (h1 : s.update d = .ok s1) (h2 : c.update a d = .ok (out, c1)) (h3 : up a addr me f out s1 = some (r, s2))
    (h4 : s2.updateClient a id = .ok (r', s3)) (h5 : down a addr f r r' c1 = some c3) :
    round a addr me id f d (c, s) = some (c3, s3) := by
  simp only [round, h1, h2, h3, h4, h5, Option.map_some]

theorem up_none (a : AEAD) (addr me : Addr) (f : Fate) (s : NetcodeServer) : up a addr me f none s = some (.none, s) := rfl

theorem up_lost (a : AEAD) (addr me : Addr) {f : Fate} {dg : Bytes} {dst : Addr} (s : NetcodeServer)
    (h : f = .upLost ∨ dst ≠ me) : up a addr me f (some (dg, dst)) s = some (.none, s) := by
  simp only [up, if_pos h]

theorem up_arrives (a : AEAD) (addr me : Addr) {f : Fate} {dg : Bytes} {s s' : NetcodeServer} {r : ServerResult}
    (hf : f ≠ .upLost) (h : s.processPacket a addr dg = .ok (r, s')) :
    up a addr me f (some (dg, me)) s = some (r, s') := by
  have : ¬ (f = .upLost ∨ me ≠ me) := by rintro (h | h); exact hf h; exact h rfl
  simp only [up, if_neg this, h, resOpt]

theorem down_lossy (a : AEAD) (addr : Addr) {f : Fate} (hf : f ≠ .delivered) (r r' : ServerResult) (c : NetcodeClient) :
    down a addr f r r' c = some c := by
  simp only [down, if_neg hf]

theorem down_nothing (a : AEAD) (addr : Addr) (f : Fate) {r r' : ServerResult} (c : NetcodeClient)
    (h1 : answerTo addr r = none) (h2 : answerTo addr r' = none) : down a addr f r r' c = some c := by
  unfold down
  split
  · simp only [h1, h2, deliver, Option.bind_some]
  · rfl

theorem down_first (a : AEAD) (addr : Addr) {r r' : ServerResult} {c c' : NetcodeClient} {p : Bytes} {o : Option Bytes}
    (h1 : answerTo addr r = some p) (h2 : answerTo addr r' = none) (h : c.processPacket a p = .ok (o, c')) :
    down a addr .delivered r r' c = some c' := by
  simp only [down, if_true, h1, h2, deliver, h, Option.bind_some]

theorem down_second (a : AEAD) (addr : Addr) {r r' : ServerResult} {c c' : NetcodeClient} {p : Bytes} {o : Option Bytes}
    (h1 : answerTo addr r = none) (h2 : answerTo addr r' = some p) (h : c.processPacket a p = .ok (o, c')) :
    down a addr .delivered r r' c = some c' := by
  simp only [down, if_true, h1, h2, deliver, h, Option.bind_some]

/-! ### B.4 the phases of a handshake

  Fixed: the AEAD, the server configuration `s0` (keys, protocol id, public addresses), the address `addr` the server
  sees the client at, the token (`t` sealed with `expire`, `xnonce`). -/

/-- what identifies the session the token `t`, presented from `addr`, leads to -/
def identT (addr : Addr) (expire : Nat) (t : PrivateConnectToken) : Ident := ident (mkPending 0 addr expire t)

/-- the static facts about token and configuration used by every step -/
structure TokOK (a : AEAD) (s0 : NetcodeServer) (t : PrivateConnectToken) (expire : Nat) (xnonce : Bytes) : Prop where
  laws : a.Laws
  wf : PTokenWF t
  xn : xnonce.length = 24
  exp : expire < 2 ^ 64
  pid : s0.protocolId < 2 ^ 64
  host : s0.secure = true → ∃ x, some x ∈ t.serverAddresses ∧ x ∈ s0.publicAddresses

/-- **the server is open for this client**: configuration unchanged, invariant, neither the address nor the id
    connected, fewer than the maximum *other* half-open sessions, the token not bound to another address, a slot free -/
structure SrvOpen (a : AEAD) (s0 : NetcodeServer) (addr : Addr) (t : PrivateConnectToken) (expire : Nat) (xnonce : Bytes)
    (s : NetcodeServer) : Prop where
  cfg : SameCfg s0 s
  inv : ServerInv s
  addrFree : findClientByAddr s.clients addr = none
  idFree : findClientById s.clients t.clientId = none
  room : (pendingRemove s.pendingClients addr).length < C.NETCODE_MAX_PENDING_CLIENTS
  bound : Bound s addr (tokenMac (sealedPriv a s0 t expire xnonce))
  cap : countConnected s.clients < s.maxClients

section Srv
variable {a : AEAD} {s0 : NetcodeServer} {addr : Addr} {t : PrivateConnectToken} {expire : Nat} {xnonce : Bytes}

/-- `update(d)` keeps the server open -/
theorem SrvOpen.tick {s : NetcodeServer} (h : SrvOpen a s0 addr t expire xnonce s) {d : Nat}
    (hd : s.currentTime + d ≤ DURATION_MAX) : SrvOpen a s0 addr t expire xnonce (srvTick s d) :=
  ⟨⟨h.cfg.1, h.cfg.2, h.cfg.3, h.cfg.4, h.cfg.5, h.cfg.6⟩, update_inv h.inv (server_update_eq hd), h.addrFree, h.idFree,
    Nat.lt_of_le_of_lt (pendingRemove_filter _ _ _) h.room, fun e he => h.bound e he, h.cap⟩

/-- … and a half-open session whose token has not expired -/
theorem pending_survives_tick {s : NetcodeServer} {ad : Addr} {p : Connection} {d : Nat}
    (hpf : pendingFind s.pendingClients ad = some p) (he : asSecs (s.currentTime + d) ≤ p.expireTimestamp) :
    pendingFind (srvTick s d).pendingClients ad = some p := by
  apply pendingFind_filter_some hpf
  simp only [Bool.not_eq_true', decide_eq_false_iff_not]
  omega

/-- the per-client tick does nothing while the id is not connected -/
theorem SrvOpen.idle {s : NetcodeServer} (h : SrvOpen a s0 addr t expire xnonce s) :
    s.updateClient a t.clientId = .ok (.none, s) := updateClient_absent a (findSlot_none.mpr h.idFree)

/-- a request (first, retransmitted or duplicated) is answered with a challenge; the server stays open and holds the
    half-open session of the token, stamped `now` -/
theorem SrvOpen.request (hT : TokOK a s0 t expire xnonce) {s : NetcodeServer} (h : SrvOpen a s0 addr t expire xnonce s)
    (hg : s.globalSequence < U64_MAX) (hc : s.challengeSequence < U64_MAX) (hnow : asSecs s.currentTime < expire) :
    ∃ s', s.processPacket a addr (requestBytes a s0 t expire xnonce) =
        .ok (.packetToSend addr (challengeBytes a s t), s') ∧
      SrvOpen a s0 addr t expire xnonce s' ∧
      pendingFind s'.pendingClients addr = some (mkPending s.currentTime addr expire t) ∧
      s'.challengeSequence = s.challengeSequence + 1 ∧ s'.globalSequence = s.globalSequence + 1 ∧
      s'.currentTime = s.currentTime := by
  have e1 := sealedPriv_cfg a h.cfg t expire xnonce
  obtain ⟨s', h1, h2, h3, h4, h5, h6, h7, h8, h9, h10⟩ := request_challenged a hT.laws (s := s) (addr := addr) (t := t)
    (expire := expire) (xnonce := xnonce) h.inv hg hc hT.wf hT.xn hT.exp (by rw [h.cfg.protocolId]; exact hT.pid) hnow
    (by rw [h.cfg.secure, h.cfg.publicAddresses]; exact hT.host) h.addrFree h.idFree h.room
    (by rw [e1]; exact h.bound) h.cap
  rw [requestBytes_cfg a h.cfg] at h1
  refine ⟨s', h1, ⟨h.cfg.trans h7, h10, by rw [h4]; exact h.addrFree, by rw [h4]; exact h.idFree, by rw [h3]; exact h.room,
    by rw [← e1]; exact h9, by rw [h4, h7.maxClients]; exact h.cap⟩, h2, h5, h6, h8⟩

theorem identT_fields {p : Connection} (h : ident p = identT addr expire t) :
    p.clientId = t.clientId ∧ p.addr = addr ∧ p.userData = t.userData ∧ p.sendKey = t.serverToClientKey ∧
    p.receiveKey = t.clientToServerKey ∧ p.timeoutSeconds = t.timeoutSeconds ∧ p.expireTimestamp = expire := by
  simp only [identT, ident, mkPending, Ident.mk.injEq] at h; exact h

/-- a response echoing a challenge token of this server for the token's id and user data, sealed under the token's
    client-to-server key, connects the half-open session `p` of `addr` -/
theorem SrvOpen.connect (hT : TokOK a s0 t expire xnonce) {s : NetcodeServer} {p : Connection}
    (h : SrvOpen a s0 addr t expire xnonce s) (hpf : pendingFind s.pendingClients addr = some p)
    (hp : ident p = identT addr expire t) (hg : s.globalSequence < U64_MAX) (hc : s.challengeSequence < U64_MAX)
    {cs seq : Nat} (hcs : cs < 2 ^ 64) (hseq : seq < 2 ^ 64) :
    ∃ i, s.clients[i]? = some none ∧
      s.processPacket a addr (Packet.sealedBytes a (.response cs (challengeToken a s0 t.clientId t.userData cs))
          s0.protocolId seq t.clientToServerKey) =
        .ok (.clientConnected p.clientId addr p.userData (connectKeepAlive a s p i),
             { s with pendingClients := pendingRemove s.pendingClients addr
                      clients := s.clients.set i (some (promoted p p.replayProtection s.currentTime)) }) := by
  obtain ⟨f1, f2, f3, f4, f5, f6, f7⟩ := identT_fields hp
  obtain ⟨i, hff⟩ : ∃ i, firstFreeSlot s.clients = some i := by
    cases hf : firstFreeSlot s.clients with
    | some i => exact ⟨i, rfl⟩
    | none =>
      have := firstFree_none_count.mp hf
      have := h.inv.maxLe
      have := h.cap
      omega
  have hbytes : Packet.sealedBytes a (.response cs (challengeToken a s0 t.clientId t.userData cs)) s0.protocolId seq
      t.clientToServerKey = Packet.sealedBytes a (.response cs (challengeToken a s p.clientId p.userData cs))
      s.protocolId seq p.receiveKey := by
    rw [f1, f3, f5, challengeToken_cfg a h.cfg, h.cfg.protocolId]
  rw [hbytes]
  exact ⟨i, firstFree_some hff, response_connects_eq a hT.laws h.inv hg hc h.addrFree hpf (by rw [f1]; exact h.idFree) hff
    (by rw [f3]; exact hT.wf.userData) (by rw [f1]; exact hT.wf.clientId) hcs hseq⟩

/-- **the server holds the session** of the token: `T` more nanoseconds without timing it out, room for `N` more
    keep-alives in its sequence number, its last send at least `D` old -/
structure SrvConn (s0 : NetcodeServer) (addr : Addr) (t : PrivateConnectToken) (expire : Nat) (T N D : Nat)
    (s : NetcodeServer) : Prop where
  cfg : SameCfg s0 s
  inv : ServerInv s
  sess : ∃ i cn, At s.clients i cn ∧ ident cn = identT addr expire t ∧ cn.sequence + N < U64_MAX ∧
    (cn.timeoutSeconds ≤ 0 ∨ s.currentTime + T ≤ cn.lastPacketReceivedTime + fromSecs cn.timeoutSeconds.toNat) ∧
    cn.lastPacketSendTime + D ≤ s.currentTime

theorem SrvConn.weaken {T N D T' N' D' : Nat} {s : NetcodeServer} (h : SrvConn s0 addr t expire T N D s) (hT : T' ≤ T)
    (hN : N' ≤ N) (hD : D' ≤ D) : SrvConn s0 addr t expire T' N' D' s := by
  obtain ⟨i, cn, h1, h2, h3, h4, h5⟩ := h.sess
  refine ⟨h.cfg, h.inv, i, cn, h1, h2, by omega, ?_, by omega⟩
  rcases h4 with h4 | h4
  · exact Or.inl h4
  · exact Or.inr (by omega)

/-- `update(d)` on a server holding the session -/
theorem SrvConn.tick {T N D d : Nat} {s : NetcodeServer} (h : SrvConn s0 addr t expire T N D s) (hd : d ≤ T)
    (hclock : s.currentTime + d ≤ DURATION_MAX) : SrvConn s0 addr t expire (T - d) N (D + d) (srvTick s d) := by
  obtain ⟨i, cn, h1, h2, h3, h4, h5⟩ := h.sess
  refine ⟨⟨h.cfg.1, h.cfg.2, h.cfg.3, h.cfg.4, h.cfg.5, h.cfg.6⟩, update_inv h.inv (server_update_eq hclock), i, cn, h1, h2,
    h3, ?_, ?_⟩
  · rcases h4 with h4 | h4
    · exact Or.inl h4
    · right; show s.currentTime + d + (T - d) ≤ _; omega
  · show cn.lastPacketSendTime + (D + d) ≤ s.currentTime + d; omega

/-- the per-client tick on a server holding the session: it stays (a keep-alive may go out) -/
theorem SrvConn.updateClient_any {T N D : Nat} {s : NetcodeServer} (h : SrvConn s0 addr t expire T (N + 1) D s)
    (hclock : s.currentTime + fromSecs (2 ^ 31) ≤ DURATION_MAX) :
    ∃ r' s', s.updateClient a t.clientId = .ok (r', s') ∧ SrvConn s0 addr t expire T N 0 s' ∧
      s'.currentTime = s.currentTime ∧ s'.globalSequence = s.globalSequence ∧
      s'.challengeSequence = s.challengeSequence := by
  obtain ⟨i, cn, h1, h2, h3, h4, h5⟩ := h.sess
  have hid := (identT_fields h2).1
  have hf : findClientSlotById s.clients t.clientId = some i := h.inv.slots.findSlot_iff.mpr ⟨cn, h1, hid⟩
  have hnt : ¬ TimedOut cn s.currentTime := by
    rintro ⟨e1, e2⟩
    rcases h4 with h4 | h4 <;> omega
  rcases updateClient_spec a h.inv hf h1 with ⟨hto, _⟩ | ⟨_, e | ⟨out, _, _, e⟩⟩ | ⟨_, hn⟩
  · exact absurd hto hnt
  · exact ⟨_, _, e, ⟨h.cfg, h.inv, i, cn, h1, h2, by omega, h4, by omega⟩, rfl, rfl, rfl⟩
  · have hinv : ServerInv { s with clients := s.clients.set i (some (sentKeepAlive cn s.currentTime)) } :=
      updateClient_inv h.inv e
    refine ⟨_, _, e, ⟨⟨h.cfg.1, h.cfg.2, h.cfg.3, h.cfg.4, h.cfg.5, h.cfg.6⟩, hinv, i, _, at_set_self (at_lt h1), h2, ?_, h4, ?_⟩,
      rfl, rfl, rfl⟩
    · show cn.sequence + 1 + N < U64_MAX; omega
    · show s.currentTime + 0 ≤ s.currentTime; omega
  · exact absurd ⟨hclock, by omega⟩ hn

/-- the per-client tick on a server holding the session, send timer due: the keep-alive goes out -/
theorem SrvConn.updateClient_due {T N D : Nat} {s : NetcodeServer} (h : SrvConn s0 addr t expire T (N + 1) D s)
    (hclock : s.currentTime + fromSecs (2 ^ 31) ≤ DURATION_MAX) (hD : C.NETCODE_SEND_RATE_NS ≤ D) :
    ∃ i cn, At s.clients i cn ∧ ident cn = identT addr expire t ∧ cn.sequence < 2 ^ 64 ∧
      s.updateClient a t.clientId = .ok (.packetToSend addr (connectKeepAlive a s cn i),
        { s with clients := s.clients.set i (some (sentKeepAlive cn s.currentTime)) }) ∧
      ServerInv { s with clients := s.clients.set i (some (sentKeepAlive cn s.currentTime)) } := by
  obtain ⟨i, cn, h1, h2, h3, h4, h5⟩ := h.sess
  obtain ⟨hid, had, _⟩ := identT_fields h2
  have hnt : ¬ TimedOut cn s.currentTime := by
    rintro ⟨e1, e2⟩
    rcases h4 with h4 | h4 <;> omega
  have hU : U64_MAX = 2 ^ 64 - 1 := rfl
  have e := NcLive2.updateClient_due a h.inv h1 hid hnt hclock (by omega) (by omega)
  rw [had] at e
  exact ⟨i, cn, h1, h2, by omega, e, updateClient_inv h.inv e⟩

/-- a (retransmitted) response arriving from the connected address is ignored; the session stays as it is -/
theorem SrvConn.recv_response (hT : TokOK a s0 t expire xnonce) {T N D : Nat} {s : NetcodeServer}
    (h : SrvConn s0 addr t expire T N D s) (hg : s.globalSequence < U64_MAX) (hc : s.challengeSequence < U64_MAX)
    {cs seq : Nat} (hcs : cs < 2 ^ 64) (hseq : seq < 2 ^ 64) :
    ∃ s', s.processPacket a addr (Packet.sealedBytes a (.response cs (challengeToken a s0 t.clientId t.userData cs))
          s0.protocolId seq t.clientToServerKey) = .ok (.none, s') ∧
      SrvConn s0 addr t expire T N D s' ∧ s'.currentTime = s.currentTime ∧ s'.globalSequence = s.globalSequence ∧
      s'.challengeSequence = s.challengeSequence := by
  obtain ⟨i, cn, h1, h2, h3, h4, h5⟩ := h.sess
  obtain ⟨f1, f2, f3, f4, f5, f6, f7⟩ := identT_fields h2
  have hfa : findClientByAddr s.clients addr = some (i, cn) := h.inv.slots.findAddr_iff.mpr ⟨f2, h1⟩
  have hdec := Packet.decode_sealedBytes a (.response cs (challengeToken a s0 t.clientId t.userData cs))
    s.protocolId seq cn.receiveKey hT.laws hseq (by simp [Packet.packetType])
    ⟨hcs, challengeToken_length a hT.laws s0 t.clientId hT.wf.userData _⟩ (some cn.replayProtection) rfl
  simp only [Packet.stepWindow, Packet.packetType, PacketType.applyReplayProtection, Option.map_some,
    Bool.false_eq_true, if_false] at hdec
  rw [h.cfg.protocolId, f5] at hdec
  have hpp := pp_connected_other a h.inv hg hc hfa (by rw [h.cfg.protocolId, f5]; exact hdec)
    (by simp [Packet.packetType]) (by simp [Packet.packetType]) (by simp [Packet.packetType])
  have hinv := ppOut_inv h.inv (pp_ok h.inv hpp)
  exact ⟨_, hpp, ⟨⟨h.cfg.1, h.cfg.2, h.cfg.3, h.cfg.4, h.cfg.5, h.cfg.6⟩, hinv, i, _, at_set_self (at_lt h1), h2, h3, h4, h5⟩,
    rfl, rfl, rfl⟩

end Srv

/-! ### B.5 client phases, budgets -/

/-- the client is asking for a connection with the token -/
structure CliReq (a : AEAD) (s0 : NetcodeServer) (t : PrivateConnectToken) (expire : Nat) (xnonce : Bytes)
    (c : NetcodeClient) : Prop where
  st : c.state = .sendingConnectionRequest
  tok : TokenFor a s0 t expire xnonce c.connectToken
  sendLe : ∀ tm, c.lastPacketSendTime = some tm → tm ≤ c.currentTime
  rp : ∀ k, c.replayProtection.alreadyReceived k = false

/-- the client answers a challenge of the server -/
structure CliResp (a : AEAD) (s0 : NetcodeServer) (t : PrivateConnectToken) (expire : Nat) (xnonce : Bytes)
    (c : NetcodeClient) : Prop where
  st : c.state = .sendingConnectionResponse
  tok : TokenFor a s0 t expire xnonce c.connectToken
  sendLe : ∀ tm, c.lastPacketSendTime = some tm → tm ≤ c.currentTime
  rp : ∀ k, c.replayProtection.alreadyReceived k = false
  cs : c.challengeTokenSequence < 2 ^ 64
  td : c.challengeTokenData = challengeToken a s0 t.clientId t.userData c.challengeTokenSequence

/-- what a round in which the client receives nothing leaves alone -/
structure CliSame (c c' : NetcodeClient) : Prop where
  state : c'.state = c.state
  tok : c'.connectToken = c.connectToken
  start : c'.connectStartTime = c.connectStartTime
  recv : c'.lastPacketReceivedTime = c.lastPacketReceivedTime
  srv : c'.serverAddr = c.serverAddr
  idx : c'.serverAddrIndex = c.serverAddrIndex
  rate : c'.sendRate = c.sendRate
  seq : c.sequence ≤ c'.sequence

theorem CliSame.refl (c : NetcodeClient) : CliSame c c := ⟨rfl, rfl, rfl, rfl, rfl, rfl, rfl, Nat.le_refl _⟩
theorem CliSame.trans {c1 c2 c3 : NetcodeClient} (h1 : CliSame c1 c2) (h2 : CliSame c2 c3) : CliSame c1 c3 :=
  ⟨h2.1.trans h1.1, h2.2.trans h1.2, h2.3.trans h1.3, h2.4.trans h1.4, h2.5.trans h1.5, h2.6.trans h1.6,
    h2.7.trans h1.7, Nat.le_trans h1.8 h2.8⟩

/-- **the budgets of a handshake in progress**: `T` nanoseconds and `N` rounds can still pass without the client's
    token window closing or its time-out firing (`CBudget`), the server's clock reaching the token's expiry second
    or overflowing, the token's time-out (as the server will apply it to the session) firing, or one of the three
    sequence counters overflowing. -/
structure Budget (t : PrivateConnectToken) (expire : Nat) (c : NetcodeClient) (s : NetcodeServer) (T N : Nat) : Prop where
  cb : CBudget c T
  sclock : s.currentTime + T + fromSecs (2 ^ 31) ≤ DURATION_MAX
  sexp : asSecs (s.currentTime + T) < expire
  stmo : t.timeoutSeconds ≤ 0 ∨ T ≤ fromSecs t.timeoutSeconds.toNat
  cseq : c.sequence + N < U64_MAX
  gseq : s.globalSequence + N < U64_MAX
  chseq : s.challengeSequence + N < U64_MAX

theorem Budget.step {t : PrivateConnectToken} {expire : Nat} {c c' : NetcodeClient} {s s' : NetcodeServer} {T N d : Nat}
    (hb : Budget t expire c s T (N + 1)) (hd : d ≤ T) (hcb : CBudget c' (T - d))
    (h1 : s'.currentTime = s.currentTime + d) (h2 : c'.sequence ≤ c.sequence + 1)
    (h3 : s'.globalSequence ≤ s.globalSequence + 1) (h4 : s'.challengeSequence ≤ s.challengeSequence + 1) :
    Budget t expire c' s' (T - d) N := by
  have e1 := hb.sclock; have e2 := hb.sexp; have e3 := hb.stmo; have e4 := hb.cseq; have e5 := hb.gseq
  have e6 := hb.chseq
  have ht : s.currentTime + d + (T - d) = s.currentTime + T := by omega
  refine ⟨hcb, by rw [h1]; omega, by rw [h1, ht]; exact e2, ?_, by omega, by omega, by omega⟩
  rcases e3 with e | e
  · exact Or.inl e
  · exact Or.inr (by omega)

theorem Budget.weaken {t : PrivateConnectToken} {expire : Nat} {c : NetcodeClient} {s : NetcodeServer} {T N N' : Nat}
    (hb : Budget t expire c s T N) (hN : N' ≤ N) : Budget t expire c s T N' :=
  ⟨hb.cb, hb.sclock, hb.sexp, hb.stmo, by have := hb.cseq; omega, by have := hb.gseq; omega, by have := hb.chseq; omega⟩

/-- both sides are connected: the client is `Connected`, the server holds a session with the identity the token
    gives (id, user data, keys, timeout, expiry) and the address the client talked from -/
def Established (addr : Addr) (t : PrivateConnectToken) (expire : Nat) (c : NetcodeClient) (s : NetcodeServer) : Prop :=
  c.state = .connected ∧ ServerInv s ∧ ∃ i cn, At s.clients i cn ∧ ident cn = identT addr expire t

theorem Established.isClientConnected {addr : Addr} {t : PrivateConnectToken} {expire : Nat} {c : NetcodeClient}
    {s : NetcodeServer} (h : Established addr t expire c s) : s.isClientConnected t.clientId = true := by
  obtain ⟨_, _, i, cn, h1, h2⟩ := h
  exact isClientConnected_iff.mpr ⟨i, cn, h1, (identT_fields h2).1⟩

section Rounds
variable {a : AEAD} {s0 : NetcodeServer} {addr me : Addr} {t : PrivateConnectToken} {expire : Nat} {xnonce : Bytes}

theorem send_rate_pos : 0 < C.NETCODE_SEND_RATE_NS := by decide

/-- server side of a round in which nothing reaches an open server -/
theorem srv_idle_round {s : NetcodeServer} {d : Nat} (hs : SrvOpen a s0 addr t expire xnonce s)
    (hd : s.currentTime + d ≤ DURATION_MAX) :
    s.update d = .ok (srvTick s d) ∧ SrvOpen a s0 addr t expire xnonce (srvTick s d) ∧
      (srvTick s d).updateClient a t.clientId = .ok (.none, srvTick s d) :=
  ⟨server_update_eq hd, hs.tick hd, (hs.tick hd).idle⟩

/-- **request phase, a round in which the client hears nothing** (its datagram is lost, goes to another server, the
    answer is lost, or the send-rate gate is closed): the client keeps asking, the server stays open -/
theorem round_req_lossy (hT : TokOK a s0 t expire xnonce) {c : NetcodeClient} {s : NetcodeServer} {T N d : Nat} {f : Fate}
    (hc : CliReq a s0 t expire xnonce c) (hs : SrvOpen a s0 addr t expire xnonce s)
    (hb : Budget t expire c s T (N + 1)) (hd : d ≤ T) (hf : f ≠ .delivered ∨ c.serverAddr ≠ me) :
    ∃ c' s', round a addr me t.clientId f d (c, s) = some (c', s') ∧ CliReq a s0 t expire xnonce c' ∧
      SrvOpen a s0 addr t expire xnonce s' ∧ Budget t expire c' s' (T - d) N ∧ CliSame c c' ∧
      c'.currentTime = c.currentTime + d ∧ s'.currentTime = s.currentTime + d := by
  have hU : U64_MAX = 2 ^ 64 - 1 := rfl
  have hclk : s.currentTime + d ≤ DURATION_MAX := by have := hb.sclock; omega
  obtain ⟨hsu, hs1, hidle⟩ := srv_idle_round hs hclk
  by_cases hg : GateOpen c d
  · have hcu := update_sends_request a hT.laws hc.tok hT.wf hT.xn hc.st hb.cb hd (by have := hb.cseq; omega) hc.sendLe hg
    have hc' : CliReq a s0 t expire xnonce (cliSent c d) :=
      ⟨hc.st, hc.tok, fun tm e => by simp only [Option.some.injEq] at e; subst e; exact Nat.le_refl _, hc.rp⟩
    have hcb : CBudget (cliSent c d) (T - d) := hb.cb.step hd rfl rfl rfl (Or.inl rfl)
    have hsame : CliSame c (cliSent c d) := ⟨rfl, rfl, rfl, rfl, rfl, rfl, rfl, Nat.le_succ _⟩
    by_cases hl : f = .upLost ∨ c.serverAddr ≠ me
    · exact ⟨cliSent c d, srvTick s d, round_intro hsu hcu (up_lost a addr me _ hl) hidle (down_nothing a addr f _ rfl rfl),
        hc', hs1, hb.step hd hcb rfl (Nat.le_refl _) (Nat.le_succ _) (Nat.le_succ _), hsame, rfl, rfl⟩
    · have hf' : f ≠ .upLost := fun e => hl (Or.inl e)
      have hme : c.serverAddr = me := Classical.byContradiction fun e => hl (Or.inr e)
      have hfd : f ≠ .delivered := by
        rcases hf with h | h
        · exact h
        · exact absurd hme h
      obtain ⟨s2, hpp, hs2, hpf, hcs, hgs, htm⟩ := hs1.request hT (by have := hb.gseq; show s.globalSequence < _; omega)
        (by have := hb.chseq; show s.challengeSequence < _; omega)
        (Nat.lt_of_le_of_lt (asSecs_mono (by show s.currentTime + d ≤ s.currentTime + T; omega)) hb.sexp)
      refine ⟨cliSent c d, s2, round_intro hsu hcu (by rw [hme]; exact up_arrives a addr me hf' hpp) hs2.idle
        (down_lossy a addr hfd _ _ _), hc', hs2, hb.step hd hcb htm (Nat.le_refl _) ?_ ?_, hsame, rfl, htm⟩
      · rw [hgs]; exact Nat.le_refl _
      · rw [hcs]; exact Nat.le_refl _
  · have hcu := update_gate_closed a (Or.inl hc.st) hb.cb hd hc.sendLe hg
    have hc' : CliReq a s0 t expire xnonce (cliTick c d) :=
      ⟨hc.st, hc.tok, fun tm e => Nat.le_trans (hc.sendLe tm e) (Nat.le_add_right _ _), hc.rp⟩
    have hcb : CBudget (cliTick c d) (T - d) := hb.cb.step hd rfl rfl rfl (Or.inl rfl)
    exact ⟨cliTick c d, srvTick s d, round_intro hsu hcu (up_none a addr me f _) hidle (down_nothing a addr f _ rfl rfl),
      hc', hs1, hb.step hd hcb rfl (Nat.le_succ _) (Nat.le_succ _) (Nat.le_succ _),
      ⟨rfl, rfl, rfl, rfl, rfl, rfl, rfl, Nat.le_refl _⟩, rfl, rfl⟩

/-- the server part and the way down of a `delivered` round whose datagram is the request: challenge, and the client
    moves to the response phase (send timer cleared) -/
theorem round_request_arrives (hT : TokOK a s0 t expire xnonce) {c c1 : NetcodeClient} {s : NetcodeServer} {d : Nat}
    (hcu : c.update a d = .ok (some (requestBytes a s0 t expire xnonce, me), c1))
    (hc1 : CliReq a s0 t expire xnonce c1) (hs : SrvOpen a s0 addr t expire xnonce s)
    (hclk : s.currentTime + d ≤ DURATION_MAX) (hg : s.globalSequence + 1 < U64_MAX)
    (hch : s.challengeSequence + 1 < U64_MAX) (hnow : asSecs (s.currentTime + d) < expire) :
    ∃ c' s', round a addr me t.clientId .delivered d (c, s) = some (c', s') ∧ CliResp a s0 t expire xnonce c' ∧
      SrvOpen a s0 addr t expire xnonce s' ∧
      (∃ p, pendingFind s'.pendingClients addr = some p ∧ ident p = identT addr expire t) ∧
      s'.currentTime = s.currentTime + d ∧ s'.globalSequence = s.globalSequence + 1 ∧
      s'.challengeSequence = s.challengeSequence + 1 ∧
      c'.lastPacketSendTime = none ∧ c'.currentTime = c1.currentTime ∧ c'.lastPacketReceivedTime = c1.currentTime ∧
      c'.connectStartTime = c1.connectStartTime ∧ c'.connectToken = c1.connectToken ∧ c'.sequence = c1.sequence ∧
      c'.serverAddr = c1.serverAddr ∧ c'.sendRate = c1.sendRate := by
  have hU : U64_MAX = 2 ^ 64 - 1 := rfl
  obtain ⟨hsu, hs1, _⟩ := srv_idle_round hs hclk
  obtain ⟨s2, hpp, hs2, hpf, hcs, hgs, htm⟩ := hs1.request hT (by show s.globalSequence < _; omega)
    (by show s.challengeSequence < _; omega) hnow
  have hchal := progress_challenge a hT.laws (c := c1) (s := srvTick s d) (t := t) hc1.st hc1.tok.s2c
    (hc1.tok.pid.trans hs.cfg.protocolId.symm) (by show s.globalSequence < 2 ^ 64; omega)
    (by show s.challengeSequence + 1 < 2 ^ 64; omega) hT.wf.userData
  refine ⟨_, s2, round_intro hsu hcu (up_arrives a addr me (by decide) hpp) hs2.idle
    (down_first a addr (by simp [answerTo]) rfl hchal), ?_, hs2, ⟨_, hpf, rfl⟩, htm, hgs, hcs, rfl, rfl, rfl, rfl, rfl, rfl,
    rfl, rfl⟩
  exact ⟨rfl, hc1.tok, (fun tm e => by cases e), hc1.rp, by show s.challengeSequence + 1 < 2 ^ 64; omega,
    challengeToken_cfg a hs1.cfg _ _ _⟩

/-- **request phase, a `delivered` round with the gate open**: request up, challenge down; the client is in the
    response phase with its send timer cleared, the server holds the half-open session -/
theorem round_req_delivered (hT : TokOK a s0 t expire xnonce) {c : NetcodeClient} {s : NetcodeServer} {T N d : Nat}
    (hc : CliReq a s0 t expire xnonce c) (hs : SrvOpen a s0 addr t expire xnonce s)
    (hb : Budget t expire c s T (N + 1)) (hd : d ≤ T) (hme : c.serverAddr = me) (hg : GateOpen c d) :
    ∃ c' s', round a addr me t.clientId .delivered d (c, s) = some (c', s') ∧ CliResp a s0 t expire xnonce c' ∧
      SrvOpen a s0 addr t expire xnonce s' ∧
      (∃ p, pendingFind s'.pendingClients addr = some p ∧ ident p = identT addr expire t) ∧
      Budget t expire c' s' (T - d) N ∧ c'.lastPacketSendTime = none ∧ c'.serverAddr = me ∧
      c'.sendRate = c.sendRate ∧ c'.currentTime = c.currentTime + d ∧ s'.currentTime = s.currentTime + d := by
  have hU : U64_MAX = 2 ^ 64 - 1 := rfl
  have hcu := update_sends_request a hT.laws hc.tok hT.wf hT.xn hc.st hb.cb hd (by have := hb.cseq; omega) hc.sendLe hg
  rw [hme] at hcu
  have hc1 : CliReq a s0 t expire xnonce (cliSent c d) :=
    ⟨hc.st, hc.tok, fun tm e => by simp only [Option.some.injEq] at e; subst e; exact Nat.le_refl _, hc.rp⟩
  obtain ⟨c', s', hr, hc', hs', hp, e1, e2, e3, e4, e5, e6, e7, e8, e9, e10, e11⟩ := round_request_arrives hT hcu hc1 hs
    (by have := hb.sclock; omega) (by have := hb.gseq; omega) (by have := hb.chseq; omega)
    (Nat.lt_of_le_of_lt (asSecs_mono (by omega)) hb.sexp)
  have hcb : CBudget c' (T - d) := hb.cb.step hd e5 e8 e7 (Or.inr (by rw [e6, e5]))
  exact ⟨c', s', hr, hc', hs', hp, hb.step hd hcb e1 (by rw [e9]; exact Nat.le_refl _) (by rw [e2]; exact Nat.le_refl _)
    (by rw [e3]; exact Nat.le_refl _), e4, by rw [e10]; exact hme, e11, e5, e1⟩

/-- the response datagram of a client in the response phase -/
theorem responseBytes_eq {c : NetcodeClient} (hc : CliResp a s0 t expire xnonce c) :
    responseBytes a c = Packet.sealedBytes a
      (.response c.challengeTokenSequence (challengeToken a s0 t.clientId t.userData c.challengeTokenSequence))
      s0.protocolId c.sequence t.clientToServerKey := by
  unfold responseBytes
  rw [← hc.td, hc.tok.pid, hc.tok.c2s]

/-- `update(d)` of a client in the response phase, within its budget: it stays there; it emits nothing (gate closed)
    or its response with the current sequence number -/
theorem cli_resp_update (hT : TokOK a s0 t expire xnonce) {c : NetcodeClient} {T d : Nat}
    (hc : CliResp a s0 t expire xnonce c) (hb : CBudget c T) (hd : d ≤ T) (hseq : c.sequence < U64_MAX) :
    ∃ out c1, c.update a d = .ok (out, c1) ∧ CliResp a s0 t expire xnonce c1 ∧ CliSame c c1 ∧
      c1.currentTime = c.currentTime + d ∧ c1.sequence ≤ c.sequence + 1 ∧
      ((out = none ∧ ¬ GateOpen c d) ∨ (out = some (responseBytes a c, c.serverAddr) ∧ GateOpen c d)) := by
  have htd : c.challengeTokenData.length = 300 := by
    rw [hc.td]; exact challengeToken_length a hT.laws s0 t.clientId hT.wf.userData _
  by_cases hg : GateOpen c d
  · refine ⟨_, cliSent c d, update_sends_response a hT.laws hc.st htd hb hd hseq hc.sendLe hg, ?_,
      ⟨rfl, rfl, rfl, rfl, rfl, rfl, rfl, Nat.le_succ _⟩, rfl, Nat.le_refl _, Or.inr ⟨rfl, hg⟩⟩
    exact ⟨hc.st, hc.tok, fun tm e => by simp only [Option.some.injEq] at e; subst e; exact Nat.le_refl _, hc.rp, hc.cs,
      hc.td⟩
  · refine ⟨_, cliTick c d, update_gate_closed a (Or.inr hc.st) hb hd hc.sendLe hg, ?_,
      ⟨rfl, rfl, rfl, rfl, rfl, rfl, rfl, Nat.le_refl _⟩, rfl, Nat.le_succ _, Or.inl ⟨rfl, hg⟩⟩
    exact ⟨hc.st, hc.tok, fun tm e => Nat.le_trans (hc.sendLe tm e) (Nat.le_add_right _ _), hc.rp, hc.cs, hc.td⟩

/-- server side of a round in which the response reaches the open server holding the half-open session: the
    session is promoted, the tick of the same round has nothing to do -/
theorem srv_response_round (hT : TokOK a s0 t expire xnonce) {s : NetcodeServer} {p : Connection} {d cs seq T' N' : Nat}
    (hs : SrvOpen a s0 addr t expire xnonce s) (hpf : pendingFind s.pendingClients addr = some p)
    (hp : ident p = identT addr expire t) (hclk : s.currentTime + d + fromSecs (2 ^ 31) ≤ DURATION_MAX)
    (hexp : asSecs (s.currentTime + d) ≤ expire) (hg : s.globalSequence < U64_MAX)
    (hch : s.challengeSequence < U64_MAX) (hcs : cs < 2 ^ 64) (hseq : seq < 2 ^ 64)
    (hT' : t.timeoutSeconds ≤ 0 ∨ T' ≤ fromSecs t.timeoutSeconds.toNat) (hN' : 1 + N' < U64_MAX) :
    ∃ i s2, (srvTick s d).processPacket a addr
        (Packet.sealedBytes a (.response cs (challengeToken a s0 t.clientId t.userData cs)) s0.protocolId seq
          t.clientToServerKey) =
        .ok (.clientConnected p.clientId addr p.userData (connectKeepAlive a (srvTick s d) p i), s2) ∧
      s2.updateClient a t.clientId = .ok (.none, s2) ∧ SrvConn s0 addr t expire T' N' 0 s2 ∧
      s2.currentTime = s.currentTime + d ∧ s2.globalSequence = s.globalSequence ∧
      s2.challengeSequence = s.challengeSequence ∧ p.sequence = 0 := by
  have hs1 := hs.tick (d := d) (by omega)
  obtain ⟨f1, f2, f3, f4, f5, f6, f7⟩ := identT_fields hp
  have hpf1 := pending_survives_tick (d := d) hpf (by rw [f7]; exact hexp)
  obtain ⟨i, hfree, hpp⟩ := hs1.connect hT hpf1 hp hg hch hcs hseq
  have hinv2 := ppOut_inv hs1.inv (pp_ok hs1.inv hpp)
  have hps : p.sequence = 0 := (hs1.inv.pend (addr, p) (NS.pendingFind_mem hpf1)).seq
  have hlt : i < (srvTick s d).clients.length := (List.getElem?_eq_some_iff.mp hfree).1
  have hat : At ((srvTick s d).clients.set i (some (promoted p p.replayProtection (srvTick s d).currentTime))) i
      (promoted p p.replayProtection (srvTick s d).currentTime) := at_set_self hlt
  have hU : U64_MAX = 2 ^ 64 - 1 := rfl
  have hq := updateClient_quiet a hinv2 hat f1 (no_spurious_timeout (Or.inr (Nat.le_add_right _ _))) hclk
    (by show p.sequence + 1 < U64_MAX; omega)
    (by show s.currentTime + d < s.currentTime + d + C.NETCODE_SEND_RATE_NS; have := send_rate_pos; omega)
  refine ⟨i, _, hpp, hq, ⟨⟨hs.cfg.1, hs.cfg.2, hs.cfg.3, hs.cfg.4, hs.cfg.5, hs.cfg.6⟩, hinv2, i, _, hat, hp, ?_, ?_, ?_⟩,
    rfl, rfl, rfl, hps⟩
  · show p.sequence + 1 + N' < U64_MAX; omega
  · show p.timeoutSeconds ≤ 0 ∨ s.currentTime + d + T' ≤ s.currentTime + d + fromSecs p.timeoutSeconds.toNat
    rw [f6]
    rcases hT' with h | h
    · exact Or.inl h
    · exact Or.inr (by omega)
  · show s.currentTime + d + 0 ≤ s.currentTime + d; omega

/-- **response phase, a `delivered` round with the gate open**: response up, `ClientConnected` + keep-alive down —
    both sides connected -/
theorem round_resp_delivered (hT : TokOK a s0 t expire xnonce) {c : NetcodeClient} {s : NetcodeServer} {T N d : Nat}
    (hc : CliResp a s0 t expire xnonce c) (hs : SrvOpen a s0 addr t expire xnonce s)
    (hp : ∃ p, pendingFind s.pendingClients addr = some p ∧ ident p = identT addr expire t)
    (hb : Budget t expire c s T (N + 1)) (hd : d ≤ T) (hme : c.serverAddr = me) (hg : GateOpen c d) :
    ∃ c' s', round a addr me t.clientId .delivered d (c, s) = some (c', s') ∧ Established addr t expire c' s' ∧
      c'.currentTime = c.currentTime + d ∧ s'.currentTime = s.currentTime + d := by
  have hU : U64_MAX = 2 ^ 64 - 1 := rfl
  obtain ⟨p, hpf, hpi⟩ := hp
  have htd : c.challengeTokenData.length = 300 := by
    rw [hc.td]; exact challengeToken_length a hT.laws s0 t.clientId hT.wf.userData _
  have hcu := update_sends_response a hT.laws hc.st htd hb.cb hd (by have := hb.cseq; omega) hc.sendLe hg
  rw [hme, responseBytes_eq hc] at hcu
  have e1 := hb.sclock; have e2 := hb.sexp; have e4 := hb.cseq; have e5 := hb.gseq; have e6 := hb.chseq
  obtain ⟨i, s2, hpp, hq, hconn, htm, _, _, hps⟩ := srv_response_round hT (d := d) (cs := c.challengeTokenSequence)
    (seq := c.sequence) (T' := 0) (N' := 0) hs hpf hpi (by omega)
    (Nat.le_of_lt (Nat.lt_of_le_of_lt (asSecs_mono (by omega)) e2)) (by omega) (by omega) hc.cs (by omega)
    (Or.inr (Nat.zero_le _)) (by rw [hU]; decide)
  obtain ⟨f1, f2, f3, f4, f5, f6, f7⟩ := identT_fields hpi
  have hka := progress_keepalive a hT.laws (c := cliSent c d) (s := srvTick s d) (p := p) (i := i) hc.st
    (hc.tok.s2c.trans f4.symm) (hc.tok.pid.trans hs.cfg.protocolId.symm) (by rw [hps]; decide) (hc.rp _)
  have hsu : s.update d = .ok (srvTick s d) := server_update_eq (by omega)
  obtain ⟨j, cn, hat, hid, _⟩ := hconn.sess
  exact ⟨_, s2, round_intro hsu hcu (up_arrives a addr me (by decide) hpp) hq
    (down_first a addr (by simp [answerTo]) rfl hka), ⟨rfl, hconn.inv, j, cn, hat, hid⟩, rfl, htm⟩

/-- **response phase, a round in which the client hears nothing**: either the server did not get the response (it
    keeps the half-open session) or it did and now holds the session — the client keeps answering -/
theorem round_resp_lossy (hT : TokOK a s0 t expire xnonce) {c : NetcodeClient} {s : NetcodeServer} {T N d : Nat} {f : Fate}
    (hc : CliResp a s0 t expire xnonce c) (hs : SrvOpen a s0 addr t expire xnonce s)
    (hp : ∃ p, pendingFind s.pendingClients addr = some p ∧ ident p = identT addr expire t)
    (hb : Budget t expire c s T (N + 1)) (hd : d ≤ T) (hf : f ≠ .delivered ∨ c.serverAddr ≠ me) :
    ∃ c' s', round a addr me t.clientId f d (c, s) = some (c', s') ∧ CliResp a s0 t expire xnonce c' ∧
      ((SrvOpen a s0 addr t expire xnonce s' ∧
          ∃ p, pendingFind s'.pendingClients addr = some p ∧ ident p = identT addr expire t) ∨
        SrvConn s0 addr t expire (T - d) N 0 s') ∧
      Budget t expire c' s' (T - d) N ∧ CliSame c c' ∧ c'.currentTime = c.currentTime + d ∧
      s'.currentTime = s.currentTime + d := by
  have hU : U64_MAX = 2 ^ 64 - 1 := rfl
  obtain ⟨p, hpf, hpi⟩ := hp
  have e1 := hb.sclock; have e2 := hb.sexp; have e3 := hb.stmo; have e4 := hb.cseq; have e5 := hb.gseq
  have e6 := hb.chseq
  have hclk : s.currentTime + d ≤ DURATION_MAX := by omega
  obtain ⟨hsu, hs1, hidle⟩ := srv_idle_round hs hclk
  have hexp : asSecs (s.currentTime + d) ≤ expire := Nat.le_of_lt (Nat.lt_of_le_of_lt (asSecs_mono (by omega)) e2)
  have hpf1 := pending_survives_tick (d := d) hpf (by rw [(identT_fields hpi).2.2.2.2.2.2]; exact hexp)
  obtain ⟨out, c1, hcu, hc1, hsame, htime, hsq, hout⟩ := cli_resp_update hT hc hb.cb hd (by omega)
  have hcb : CBudget c1 (T - d) := hb.cb.step hd htime hsame.tok hsame.start (Or.inl hsame.recv)
  -- nothing reaches the server
  have quiet : ∀ r, up a addr me f out (srvTick s d) = some (.none, srvTick s d) →
      down a addr f .none r c1 = some c1 → (srvTick s d).updateClient a t.clientId = .ok (r, srvTick s d) →
      ∃ c' s', round a addr me t.clientId f d (c, s) = some (c', s') ∧ CliResp a s0 t expire xnonce c' ∧
      ((SrvOpen a s0 addr t expire xnonce s' ∧
          ∃ p, pendingFind s'.pendingClients addr = some p ∧ ident p = identT addr expire t) ∨
        SrvConn s0 addr t expire (T - d) N 0 s') ∧
      Budget t expire c' s' (T - d) N ∧ CliSame c c' ∧ c'.currentTime = c.currentTime + d ∧
      s'.currentTime = s.currentTime + d := by
    intro r hup hdown htick
    exact ⟨c1, srvTick s d, round_intro hsu hcu hup htick hdown, hc1, Or.inl ⟨hs1, p, hpf1, hpi⟩,
      hb.step hd hcb rfl hsq (Nat.le_succ _) (Nat.le_succ _), hsame, htime, rfl⟩
  rcases hout with ⟨rfl, _⟩ | ⟨rfl, hg⟩
  · exact quiet .none (up_none a addr me f _) (down_nothing a addr f _ rfl rfl) hidle
  · by_cases hl : f = .upLost ∨ c.serverAddr ≠ me
    · exact quiet .none (up_lost a addr me _ hl) (down_nothing a addr f _ rfl rfl) hidle
    · have hf' : f ≠ .upLost := fun e => hl (Or.inl e)
      have hme : c.serverAddr = me := Classical.byContradiction fun e => hl (Or.inr e)
      have hfd : f ≠ .delivered := by
        rcases hf with h | h
        · exact h
        · exact absurd hme h
      rw [hme, responseBytes_eq hc] at hcu
      obtain ⟨i, s2, hpp, hq, hconn, htm, hgs, hcs, _⟩ := srv_response_round hT (d := d)
        (cs := c.challengeTokenSequence) (seq := c.sequence) (T' := T - d) (N' := N) hs hpf hpi (by omega) hexp
        (by omega) (by omega) hc.cs (by omega)
        (by rcases e3 with h | h; exact Or.inl h; exact Or.inr (by omega)) (by omega)
      exact ⟨c1, s2, round_intro hsu hcu (up_arrives a addr me hf' hpp) hq (down_lossy a addr hfd _ _ _), hc1,
        Or.inr hconn, hb.step hd hcb htm hsq (by rw [hgs]; exact Nat.le_succ _) (by rw [hcs]; exact Nat.le_succ _), hsame,
        htime, htm⟩

/-- the way up into a server that already holds the session: whatever the client emitted (nothing, or its response),
    delivered or not, the result is `None` and the session stays -/
theorem srv_conn_up (hT : TokOK a s0 t expire xnonce) {s1 : NetcodeServer} {T N D cs seq : Nat} {f : Fate}
    {out : Option (Bytes × Addr)} (h : SrvConn s0 addr t expire T N D s1) (hg : s1.globalSequence < U64_MAX)
    (hc : s1.challengeSequence < U64_MAX) (hcs : cs < 2 ^ 64) (hseq : seq < 2 ^ 64)
    (hout : out = none ∨ ∃ dst, out = some (Packet.sealedBytes a
      (.response cs (challengeToken a s0 t.clientId t.userData cs)) s0.protocolId seq t.clientToServerKey, dst)) :
    ∃ s2, up a addr me f out s1 = some (.none, s2) ∧ SrvConn s0 addr t expire T N D s2 ∧
      s2.currentTime = s1.currentTime ∧ s2.globalSequence = s1.globalSequence ∧
      s2.challengeSequence = s1.challengeSequence := by
  rcases hout with rfl | ⟨dst, rfl⟩
  · exact ⟨s1, rfl, h, rfl, rfl, rfl⟩
  · by_cases hl : f = .upLost ∨ dst ≠ me
    · exact ⟨s1, up_lost a addr me _ hl, h, rfl, rfl, rfl⟩
    · have hf' : f ≠ .upLost := fun e => hl (Or.inl e)
      have hme : dst = me := Classical.byContradiction fun e => hl (Or.inr e)
      obtain ⟨s2, hpp, h2, e1, e2, e3⟩ := h.recv_response hT hg hc hcs hseq
      exact ⟨s2, by rw [hme]; exact up_arrives a addr me hf' hpp, h2, e1, e2, e3⟩

/-- **the keep-alive was lost, a round in which the client hears nothing**: the client keeps sending its response,
    the server ignores it and keeps the session (its tick may send a keep-alive, which is lost) -/
theorem round_half_lossy (hT : TokOK a s0 t expire xnonce) {c : NetcodeClient} {s : NetcodeServer} {T N D d : Nat} {f : Fate}
    (hc : CliResp a s0 t expire xnonce c) (hs : SrvConn s0 addr t expire T (N + 1) D s)
    (hb : Budget t expire c s T (N + 1)) (hd : d ≤ T) (hf : f ≠ .delivered) :
    ∃ c' s', round a addr me t.clientId f d (c, s) = some (c', s') ∧ CliResp a s0 t expire xnonce c' ∧
      SrvConn s0 addr t expire (T - d) N 0 s' ∧ Budget t expire c' s' (T - d) N ∧ CliSame c c' ∧
      c'.currentTime = c.currentTime + d ∧ s'.currentTime = s.currentTime + d := by
  have hU : U64_MAX = 2 ^ 64 - 1 := rfl
  have e1 := hb.sclock; have e4 := hb.cseq; have e5 := hb.gseq; have e6 := hb.chseq
  have hsu : s.update d = .ok (srvTick s d) := server_update_eq (by omega)
  have hs1 := hs.tick hd (by omega)
  obtain ⟨out, c1, hcu, hc1, hsame, htime, hsq, hout⟩ := cli_resp_update hT hc hb.cb hd (by omega)
  have hcb : CBudget c1 (T - d) := hb.cb.step hd htime hsame.tok hsame.start (Or.inl hsame.recv)
  obtain ⟨s2, hup, hs2, t2, g2, c2⟩ := srv_conn_up (me := me) (f := f) (out := out) hT hs1
    (by show s.globalSequence < _; omega) (by show s.challengeSequence < _; omega) hc.cs
    (by show c.sequence < 2 ^ 64; omega)
    (by rcases hout with ⟨h, _⟩ | ⟨h, _⟩
        · exact Or.inl h
        · exact Or.inr ⟨c.serverAddr, by rw [h, responseBytes_eq hc]⟩)
  obtain ⟨r', s3, htick, hs3, t3, g3, c3⟩ := hs2.updateClient_any (a := a) (by rw [t2]; show s.currentTime + d + _ ≤ _; omega)
  exact ⟨c1, s3, round_intro hsu hcu hup htick (down_lossy a addr hf _ _ _), hc1, hs3,
    hb.step hd hcb (by rw [t3, t2]) hsq (by rw [g3, g2]; exact Nat.le_succ _) (by rw [c3, c2]; exact Nat.le_succ _), hsame,
    htime, by rw [t3, t2]⟩

/-- **the keep-alive was lost, a `delivered` round of at least the send rate**: the server's tick sends a keep-alive
    (its send timer is due) and the client, still answering the challenge, becomes connected on it -/
theorem round_half_delivered (hT : TokOK a s0 t expire xnonce) {c : NetcodeClient} {s : NetcodeServer} {T N D d : Nat}
    (hc : CliResp a s0 t expire xnonce c) (hs : SrvConn s0 addr t expire T (N + 1) D s)
    (hb : Budget t expire c s T (N + 1)) (hd : d ≤ T) (hrate : C.NETCODE_SEND_RATE_NS ≤ d) :
    ∃ c' s', round a addr me t.clientId .delivered d (c, s) = some (c', s') ∧ Established addr t expire c' s' ∧
      c'.currentTime = c.currentTime + d ∧ s'.currentTime = s.currentTime + d := by
  have hU : U64_MAX = 2 ^ 64 - 1 := rfl
  have e1 := hb.sclock; have e4 := hb.cseq; have e5 := hb.gseq; have e6 := hb.chseq
  have hsu : s.update d = .ok (srvTick s d) := server_update_eq (by omega)
  have hs1 := hs.tick hd (by omega)
  obtain ⟨out, c1, hcu, hc1, hsame, htime, hsq, hout⟩ := cli_resp_update hT hc hb.cb hd (by omega)
  obtain ⟨s2, hup, hs2, t2, g2, c2⟩ := srv_conn_up (me := me) (f := .delivered) (out := out) hT hs1
    (by show s.globalSequence < _; omega) (by show s.challengeSequence < _; omega) hc.cs
    (by show c.sequence < 2 ^ 64; omega)
    (by rcases hout with ⟨h, _⟩ | ⟨h, _⟩
        · exact Or.inl h
        · exact Or.inr ⟨c.serverAddr, by rw [h, responseBytes_eq hc]⟩)
  obtain ⟨i, cn, hat, hid, hsq2, htick, hinv3⟩ := hs2.updateClient_due (a := a)
    (by rw [t2]; show s.currentTime + d + _ ≤ _; omega) (by omega)
  obtain ⟨f1, f2, f3, f4, f5, f6, f7⟩ := identT_fields hid
  have hka := progress_keepalive a hT.laws (c := c1) (s := s2) (p := cn) (i := i) hc1.st
    (hc1.tok.s2c.trans f4.symm) (hc1.tok.pid.trans hs2.cfg.protocolId.symm) hsq2 (hc1.rp _)
  refine ⟨_, _, round_intro hsu hcu hup htick (down_second a addr rfl (by simp [answerTo]) hka),
    ⟨rfl, hinv3, i, _, at_set_self (at_lt hat), hid⟩, htime, ?_⟩
  show s2.currentTime = _
  rw [t2]

/-! ### B.6 schedules -/

/-- no round of the schedule is `delivered`: the client hears nothing -/
def Lossy (sched : List (Fate × Nat)) : Prop := ∀ x ∈ sched, x.1 ≠ .delivered

instance (sched : List (Fate × Nat)) : Decidable (Lossy sched) := by unfold Lossy; infer_instance

/-- **request phase, any number of rounds in which the client hears nothing** -/
theorem run_req_lossy (hT : TokOK a s0 t expire xnonce) : ∀ (sched : List (Fate × Nat)) {c : NetcodeClient}
    {s : NetcodeServer} {T N : Nat}, CliReq a s0 t expire xnonce c → SrvOpen a s0 addr t expire xnonce s →
    Budget t expire c s T (N + sched.length) → totalTime sched ≤ T → (Lossy sched ∨ c.serverAddr ≠ me) →
    ∃ c' s', runRounds a addr me t.clientId sched (c, s) = some (c', s') ∧ CliReq a s0 t expire xnonce c' ∧
      SrvOpen a s0 addr t expire xnonce s' ∧ Budget t expire c' s' (T - totalTime sched) N ∧ CliSame c c' ∧
      c'.currentTime = c.currentTime + totalTime sched ∧ s'.currentTime = s.currentTime + totalTime sched
  | [], c, s, T, N, hc, hs, hb, _, _ => ⟨c, s, rfl, hc, hs, hb, CliSame.refl c, rfl, rfl⟩
  | (f, d) :: rest, c, s, T, N, hc, hs, hb, ht, hl => by
    simp only [totalTime] at ht ⊢
    have hb' : Budget t expire c s T (N + rest.length + 1) := hb
    obtain ⟨c1, s1, hr, hc1, hs1, hb1, hsame1, ht1, hst1⟩ := round_req_lossy (me := me) (f := f) (d := d) hT hc hs hb' (by omega)
      (by rcases hl with h | h
          · exact Or.inl (h (f, d) (by simp))
          · exact Or.inr h)
    obtain ⟨c2, s2, hr2, hc2, hs2, hb2, hsame2, ht2, hst2⟩ := run_req_lossy hT rest hc1 hs1 hb1 (by omega)
      (by rcases hl with h | h
          · exact Or.inl (fun x hx => h x (List.mem_cons_of_mem _ hx))
          · exact Or.inr (by rw [hsame1.srv]; exact h))
    refine ⟨c2, s2, by simp only [runRounds, hr, Option.bind_some, hr2], hc2, hs2, ?_, hsame1.trans hsame2,
      by rw [ht2, ht1]; omega, by rw [hst2, hst1]; omega⟩
    have : T - d - totalTime rest = T - (d + totalTime rest) := by omega
    rw [← this]; exact hb2

/-- the server side of the response phase: it still holds the half-open session, or (the keep-alive was lost) the
    session already -/
def RespSrv (a : AEAD) (s0 : NetcodeServer) (addr : Addr) (t : PrivateConnectToken) (expire : Nat) (xnonce : Bytes)
    (T N : Nat) (s : NetcodeServer) : Prop :=
  (SrvOpen a s0 addr t expire xnonce s ∧
      ∃ p, pendingFind s.pendingClients addr = some p ∧ ident p = identT addr expire t) ∨
    SrvConn s0 addr t expire T N 0 s

/-- **response phase, any number of rounds in which the client hears nothing** -/
theorem run_resp_lossy (hT : TokOK a s0 t expire xnonce) : ∀ (sched : List (Fate × Nat)) {c : NetcodeClient}
    {s : NetcodeServer} {T N : Nat}, CliResp a s0 t expire xnonce c →
    RespSrv a s0 addr t expire xnonce T (N + sched.length) s →
    Budget t expire c s T (N + sched.length) → totalTime sched ≤ T → Lossy sched →
    ∃ c' s', runRounds a addr me t.clientId sched (c, s) = some (c', s') ∧ CliResp a s0 t expire xnonce c' ∧
      RespSrv a s0 addr t expire xnonce (T - totalTime sched) N s' ∧ Budget t expire c' s' (T - totalTime sched) N ∧
      CliSame c c' ∧ c'.currentTime = c.currentTime + totalTime sched ∧
      s'.currentTime = s.currentTime + totalTime sched
  | [], c, s, T, N, hc, hs, hb, _, _ => ⟨c, s, rfl, hc, hs, hb, CliSame.refl c, rfl, rfl⟩
  | (f, d) :: rest, c, s, T, N, hc, hs, hb, ht, hl => by
    simp only [totalTime] at ht ⊢
    have hb' : Budget t expire c s T (N + rest.length + 1) := hb
    have hf : f ≠ .delivered := hl (f, d) (by simp)
    have hl' : Lossy rest := fun x hx => hl x (List.mem_cons_of_mem _ hx)
    have key : ∃ c1 s1, round a addr me t.clientId f d (c, s) = some (c1, s1) ∧ CliResp a s0 t expire xnonce c1 ∧
        RespSrv a s0 addr t expire xnonce (T - d) (N + rest.length) s1 ∧
        Budget t expire c1 s1 (T - d) (N + rest.length) ∧ CliSame c c1 ∧ c1.currentTime = c.currentTime + d ∧
        s1.currentTime = s.currentTime + d := by
      rcases hs with ⟨hso, hp⟩ | hsc
      · obtain ⟨c1, s1, hr, hc1, hs1, hb1, hsame1, ht1, hst1⟩ := round_resp_lossy (me := me) (f := f) (d := d) hT hc hso hp hb'
          (by omega) (Or.inl hf)
        exact ⟨c1, s1, hr, hc1, hs1, hb1, hsame1, ht1, hst1⟩
      · have hsc' : SrvConn s0 addr t expire T (N + rest.length + 1) 0 s := hsc
        obtain ⟨c1, s1, hr, hc1, hs1, hb1, hsame1, ht1, hst1⟩ := round_half_lossy (me := me) (f := f) (d := d) hT hc hsc' hb'
          (by omega) hf
        exact ⟨c1, s1, hr, hc1, Or.inr hs1, hb1, hsame1, ht1, hst1⟩
    obtain ⟨c1, s1, hr, hc1, hs1, hb1, hsame1, ht1, hst1⟩ := key
    obtain ⟨c2, s2, hr2, hc2, hs2, hb2, hsame2, ht2, hst2⟩ := run_resp_lossy hT rest hc1 hs1 hb1 (by omega) hl'
    have e : T - d - totalTime rest = T - (d + totalTime rest) := by omega
    refine ⟨c2, s2, by simp only [runRounds, hr, Option.bind_some, hr2], hc2, ?_, ?_, hsame1.trans hsame2,
      by rw [ht2, ht1]; omega, by rw [hst2, hst1]; omega⟩
    · rw [← e]; exact hs2
    · rw [← e]; exact hb2

/-- **response phase, a `delivered` round of at least the send rate connects both sides** — whether the server still
    waits for the response or already holds the session -/
theorem round_resp_final (hT : TokOK a s0 t expire xnonce) {c : NetcodeClient} {s : NetcodeServer} {T N d : Nat}
    (hc : CliResp a s0 t expire xnonce c) (hs : RespSrv a s0 addr t expire xnonce T (N + 1) s)
    (hb : Budget t expire c s T (N + 1)) (hd : d ≤ T) (hme : c.serverAddr = me)
    (hgate : GateOpen c d) (hrate : C.NETCODE_SEND_RATE_NS ≤ d) :
    ∃ c' s', round a addr me t.clientId .delivered d (c, s) = some (c', s') ∧ Established addr t expire c' s' ∧
      c'.currentTime = c.currentTime + d ∧ s'.currentTime = s.currentTime + d := by
  rcases hs with ⟨hso, hp⟩ | hsc
  · exact round_resp_delivered hT hc hso hp hb hd hme hgate
  · exact round_half_delivered hT hc hsc hb hd hrate

/-! ### B.7 failover -/

/-- the client after the `update(d)` that gave up on its current server and sent the request to `next` -/
abbrev failedOver (c : NetcodeClient) (d : Nat) (next : Addr) : NetcodeClient :=
  { c with currentTime := c.currentTime + d, state := .sendingConnectionRequest
           serverAddrIndex := c.serverAddrIndex + 1, serverAddr := next, connectStartTime := c.currentTime + d
           lastPacketSendTime := some (c.currentTime + d), lastPacketReceivedTime := c.currentTime + d
           challengeTokenSequence := 0, sequence := c.sequence + 1 }

/-- **the `update(d)` in which the silence time-out fires**: the client moves to the next server address of its
    token, resets its timers, and — its send timer being cleared — sends the connection request there in the same
    call -/
theorem update_failover (a : AEAD) (hl : a.Laws) {c : NetcodeClient} {s : NetcodeServer} {t : PrivateConnectToken}
    {expire : Nat} {xnonce : Bytes} {d : Nat} {next : Addr} (hst : Connecting c) (hok : ClockOK c d)
    (hwin : asSecs (c.currentTime + d - c.connectStartTime) < tokenWindow c)
    (hto : CTimedOut c (c.currentTime + d))
    (hnext : c.connectToken.serverAddresses[c.serverAddrIndex + 1]? = some (some next))
    (hidx : c.serverAddrIndex + 1 < C.NETCODE_TOKEN_MAX_ADDRESSES)
    (htok : TokenFor a s t expire xnonce c.connectToken) (hwf : PTokenWF t) (hxn : xnonce.length = 24)
    (hseq : c.sequence < U64_MAX) :
    c.update a d = .ok (some (requestBytes a s t expire xnonce, next), failedOver c d next) := by
  unfold NetcodeClient.update
  rw [client_connecting_eq hst hok]
  simp only [if_neg (Nat.not_le.mpr hwin), if_pos hto, if_neg (Nat.not_le.mpr hidx), hnext, bind_ok']
  exact progress_send_request a hl
    (c := { c with currentTime := c.currentTime + d, state := .sendingConnectionRequest
                   serverAddrIndex := c.serverAddrIndex + 1, serverAddr := next, connectStartTime := c.currentTime + d
                   lastPacketSendTime := none, lastPacketReceivedTime := c.currentTime + d
                   challengeTokenSequence := 0 })
    htok hwf hxn rfl rfl hseq

/-- **the failover round**: the time-out fires in the client's `update`, the request goes to the next address `me`,
    whose server answers with a challenge — the client is in the response phase with the new server -/
theorem round_failover (hT : TokOK a s0 t expire xnonce) {c : NetcodeClient} {s : NetcodeServer} {d : Nat}
    (hc : CliReq a s0 t expire xnonce c) (hs : SrvOpen a s0 addr t expire xnonce s) (hok : ClockOK c d)
    (hwin : asSecs (c.currentTime + d - c.connectStartTime) < tokenWindow c)
    (hto : CTimedOut c (c.currentTime + d))
    (hnext : c.connectToken.serverAddresses[c.serverAddrIndex + 1]? = some (some me))
    (hidx : c.serverAddrIndex + 1 < C.NETCODE_TOKEN_MAX_ADDRESSES) (hseq : c.sequence < U64_MAX)
    (hclk : s.currentTime + d ≤ DURATION_MAX) (hg : s.globalSequence + 1 < U64_MAX)
    (hch : s.challengeSequence + 1 < U64_MAX) (hnow : asSecs (s.currentTime + d) < expire) :
    ∃ c' s', round a addr me t.clientId .delivered d (c, s) = some (c', s') ∧ CliResp a s0 t expire xnonce c' ∧
      SrvOpen a s0 addr t expire xnonce s' ∧
      (∃ p, pendingFind s'.pendingClients addr = some p ∧ ident p = identT addr expire t) ∧
      s'.currentTime = s.currentTime + d ∧ s'.globalSequence = s.globalSequence + 1 ∧
      s'.challengeSequence = s.challengeSequence + 1 ∧
      c'.lastPacketSendTime = none ∧ c'.currentTime = c.currentTime + d ∧
      c'.lastPacketReceivedTime = c.currentTime + d ∧ c'.connectStartTime = c.currentTime + d ∧
      c'.connectToken = c.connectToken ∧ c'.sequence = c.sequence + 1 ∧ c'.serverAddr = me ∧
      c'.sendRate = c.sendRate := by
  have hcu := update_failover a hT.laws (Or.inl hc.st) hok hwin hto hnext hidx hc.tok hT.wf hT.xn hseq
  have hc1 : CliReq a s0 t expire xnonce (failedOver c d me) :=
    ⟨rfl, hc.tok, fun tm e => by simp only [Option.some.injEq] at e; subst e; exact Nat.le_refl _, hc.rp⟩
  obtain ⟨c', s', hr, hc', hs', hp, e1, e2, e3, e4, e5, e6, e7, e8, e9, e10, e11⟩ :=
    round_request_arrives hT hcu hc1 hs hclk hg hch hnow
  exact ⟨c', s', hr, hc', hs', hp, e1, e2, e3, e4, e5, e6, e7, e8, e9, e10, e11⟩

/-! ### B.8 where the phases start -/

/-- a server that is open for this client in the sense of `C18P.handshake_round_partial`: no half-open session of
    the address yet, room in the pending map, the token not bound to another address -/
theorem srvOpen_of_fresh {s : NetcodeServer} (hi : ServerInv s)
    (hfa : findClientByAddr s.clients addr = none) (hfi : findClientById s.clients t.clientId = none)
    (hpf : pendingFind s.pendingClients addr = none)
    (hroom : s.pendingClients.length < C.NETCODE_MAX_PENDING_CLIENTS)
    (hbind : (s.findOrAddConnectTokenEntry ⟨s.currentTime, addr, tokenMac (sealedPriv a s t expire xnonce)⟩).2 = true)
    (hlt : countConnected s.clients < s.maxClients) : SrvOpen a s addr t expire xnonce s :=
  ⟨SameCfg.refl s, hi, hfa, hfi, by rw [pendingRemove_of_none hpf]; exact hroom,
    bound_of_binding hi.entries _ hbind, hlt⟩

/-- a client fresh from `NetcodeClient::new` with a token for the server is in the request phase, has sent nothing,
    and uses the standard send rate -/
theorem cliReq_of_new {tm : Nat} {ct : ConnectToken} {c : NetcodeClient} (h : NetcodeClient.new tm ct = .ok c)
    (htok : TokenFor a s0 t expire xnonce ct) :
    CliReq a s0 t expire xnonce c ∧ c.lastPacketSendTime = none ∧ c.sendRate = C.NETCODE_SEND_RATE_NS ∧
      c.currentTime = tm ∧ c.connectStartTime = tm ∧ c.lastPacketReceivedTime = tm ∧ c.connectToken = ct ∧
      c.sequence = 0 ∧ c.serverAddrIndex = 0 ∧ ct.serverAddresses.head? = some (some c.serverAddr) := by
  unfold NetcodeClient.new at h
  split at h
  · rename_i ad hhead
    simp only [Res.ok.injEq] at h
    subst h
    exact ⟨⟨rfl, htok, (fun _ e => by cases e), rp_new_fresh⟩, rfl, rfl, rfl, rfl, rfl, rfl, rfl, rfl, hhead⟩
  · cases h

end Rounds

end RenetVerif.NcLive2
