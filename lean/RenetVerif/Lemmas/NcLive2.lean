/-
  Netcode liveness, the composed half of property C18 (helper lemmas for Props/C18T.lean):
  Part A — a connected session survives whole traces of server operations as long as it is fresh at every
           `update_client` (induction over `NS.Op` traces);
  Part B — the handshake driven through `NetcodeClient.update` (send-rate gate, clocks on both sides),
           retransmission after loss, failover to a second server.
-/
import RenetVerif.Lemmas.NcProgress
namespace RenetVerif.NcLive2
open RenetVerif RenetVerif.Netcode RenetVerif.Netcode.NS

/-! ## Part A : a fresh session survives every trace -/

/-- the datagram decodes, under this session's receive key and replay window, to a Disconnect packet -/
def AuthDisconnect (a : AEAD) (s : NetcodeServer) (c : Connection) (buf : Bytes) : Prop :=
  ∃ sq w', Packet.decode a buf s.protocolId (some c.receiveKey) (some c.replayProtection) = (.ok (sq, .disconnect), some w')

/-- Bool version of `NS.Authentic` -/
def authenticB (a : AEAD) (s : NetcodeServer) (c : Connection) (buf : Bytes) : Bool :=
  match Packet.decode a buf s.protocolId (some c.receiveKey) (some c.replayProtection) with
  | (.ok (_, pk), some _) => decide (pk.packetType = .keepAlive) || decide (pk.packetType = .payload)
  | _ => false

/-- Bool version of `AuthDisconnect` -/
def authDisconnectB (a : AEAD) (s : NetcodeServer) (c : Connection) (buf : Bytes) : Bool :=
  match Packet.decode a buf s.protocolId (some c.receiveKey) (some c.replayProtection) with
  | (.ok (_, .disconnect), some _) => true
  | _ => false

theorem authenticB_iff {a : AEAD} {s : NetcodeServer} {c : Connection} {buf : Bytes} :
    authenticB a s c buf = true ↔ Authentic a s c buf := by
  unfold authenticB Authentic
  cases hd : Packet.decode a buf s.protocolId (some c.receiveKey) (some c.replayProtection) with
  | mk r w =>
    cases r with
    | panic m => simp
    | err e => simp
    | ok sp =>
      obtain ⟨sq, pk⟩ := sp
      cases w with
      | none => simp
      | some w' =>
        simp only [Bool.or_eq_true, decide_eq_true_eq, Prod.mk.injEq, Res.ok.injEq, Option.some.injEq]
        constructor
        · intro h; exact ⟨sq, pk, w', ⟨⟨rfl, rfl⟩, rfl⟩, h⟩
        · rintro ⟨_, _, _, ⟨⟨_, rfl⟩, _⟩, h⟩; exact h

theorem authDisconnectB_iff {a : AEAD} {s : NetcodeServer} {c : Connection} {buf : Bytes} :
    authDisconnectB a s c buf = true ↔ AuthDisconnect a s c buf := by
  unfold authDisconnectB AuthDisconnect
  cases hd : Packet.decode a buf s.protocolId (some c.receiveKey) (some c.replayProtection) with
  | mk r w =>
    cases r with
    | panic m => simp
    | err e => simp
    | ok sp =>
      obtain ⟨sq, pk⟩ := sp
      cases w with
      | none => cases pk <;> simp
      | some w' => cases pk <;> simp

/-- the operation is an authentic KeepAlive / Payload datagram from the session of client `id` -/
def refreshes (a : AEAD) (id : Nat) (s : NetcodeServer) : Op → Bool
  | .packet addr buf =>
    match findClientById s.clients id with
    | some c => decide (c.addr = addr) && authenticB a s c buf
    | none => false
  | _ => false

/-- What the trace hypothesis of `never_timed_out` demands of one operation, executed in state `s` when the most
    recent authentic packet of client `id` (or its connection) dates from `last`:
    * nobody calls `disconnect id`;
    * a datagram is not an authentic Disconnect packet of that client;
    * at `update_client id` the session is fresh: `now ≤ last + timeout` (or the token's timeout is not positive). -/
def opAllowed (a : AEAD) (id : Nat) (s : NetcodeServer) (last : Nat) : Op → Bool
  | .disconnect id' => decide (id' ≠ id)
  | .packet addr buf =>
    match findClientById s.clients id with
    | some c => !(decide (c.addr = addr) && authDisconnectB a s c buf)
    | none => true
  | .updateClient id' =>
    match findClientById s.clients id with
    | some c => decide (id' = id → c.timeoutSeconds ≤ 0 ∨ s.currentTime ≤ last + fromSecs c.timeoutSeconds.toNat)
    | none => true
  | _ => true

/-- the time of the most recent authentic packet after one more operation -/
def lastAfter (a : AEAD) (id : Nat) (s : NetcodeServer) (last : Nat) (op : Op) : Nat :=
  if refreshes a id s op then s.currentTime else last

/-- `opAllowed` along a whole trace, the ghost variable `last` following the authentic packets (a trace ends where an
    operation unwinds) -/
def freshB (a : AEAD) (id : Nat) : NetcodeServer → Nat → List Op → Bool
  | _, _, [] => true
  | s, last, op :: rest =>
    opAllowed a id s last op &&
      match step a s op with
      | some (_, s') => freshB a id s' (lastAfter a id s last op) rest
      | none => true

/-- the trace hypothesis of `never_timed_out` -/
def Fresh (a : AEAD) (id : Nat) (s : NetcodeServer) (last : Nat) (ops : List Op) : Prop := freshB a id s last ops = true

instance (a : AEAD) (id : Nat) (s : NetcodeServer) (last : Nat) (ops : List Op) : Decidable (Fresh a id s last ops) := by
  unfold Fresh; infer_instance

theorem fresh_nil (a : AEAD) (id : Nat) (s : NetcodeServer) (last : Nat) : Fresh a id s last [] := rfl

theorem fresh_cons {a : AEAD} {id : Nat} {s : NetcodeServer} {last : Nat} {op : Op} {rest : List Op} :
    Fresh a id s last (op :: rest) ↔
      opAllowed a id s last op = true ∧
      ∀ r s', step a s op = some (r, s') → Fresh a id s' (lastAfter a id s last op) rest := by
  unfold Fresh
  simp only [freshB, Bool.and_eq_true]
  constructor
  · rintro ⟨h1, h2⟩
    refine ⟨h1, fun r s' hs => ?_⟩
    rw [hs] at h2; exact h2
  · rintro ⟨h1, h2⟩
    refine ⟨h1, ?_⟩
    cases hs : step a s op with
    | none => rfl
    | some x => obtain ⟨r, s'⟩ := x; exact h2 r s' hs

/-- run a trace, collecting the results; `none` = an operation unwound -/
def runOps (a : AEAD) : NetcodeServer → List Op → Option (List ServerResult × NetcodeServer)
  | s, [] => some ([], s)
  | s, op :: rest =>
    match step a s op with
    | some (r, s') => (runOps a s' rest).map fun x => (r :: x.1, x.2)
    | none => none

theorem runOps_cons {a : AEAD} {s s'' : NetcodeServer} {op : Op} {rest : List Op} {rs : List ServerResult}
    (h : runOps a s (op :: rest) = some (rs, s'')) :
    ∃ r s' rs', step a s op = some (r, s') ∧ runOps a s' rest = some (rs', s'') ∧ rs = r :: rs' := by
  simp only [runOps] at h
  cases hs : step a s op with
  | none => rw [hs] at h; cases h
  | some x =>
    obtain ⟨r, s'⟩ := x
    rw [hs] at h
    simp only [Option.map_eq_some_iff, Prod.mk.injEq] at h
    obtain ⟨⟨rs', s3⟩, h1, rfl, rfl⟩ := h
    exact ⟨r, s', rs', rfl, h1, rfl⟩

theorem runOps_append {a : AEAD} : ∀ {l1 l2 : List Op} {s s'' : NetcodeServer} {rs : List ServerResult},
    runOps a s (l1 ++ l2) = some (rs, s'') →
    ∃ rs1 s' rs2, runOps a s l1 = some (rs1, s') ∧ runOps a s' l2 = some (rs2, s'') ∧ rs = rs1 ++ rs2
  | [], l2, s, s'', rs, h => ⟨[], s, rs, rfl, h, rfl⟩
  | op :: l1, l2, s, s'', rs, h => by
    obtain ⟨r, s1, rs', hs, hr, rfl⟩ := runOps_cons (rest := l1 ++ l2) h
    obtain ⟨rs1, s', rs2, h1, h2, rfl⟩ := runOps_append hr
    refine ⟨r :: rs1, s', rs2, ?_, h2, rfl⟩
    simp only [runOps, hs, h1, Option.map_some]

/-- `Fresh` is closed under prefixes -/
theorem fresh_prefix {a : AEAD} {id : Nat} : ∀ {l1 l2 : List Op} {s : NetcodeServer} {last : Nat},
    Fresh a id s last (l1 ++ l2) → Fresh a id s last l1
  | [], _, s, last, _ => fresh_nil a id s last
  | op :: l1, l2, s, last, h => by
    rw [List.cons_append, fresh_cons] at h
    rw [fresh_cons]
    exact ⟨h.1, fun r s' hs => fresh_prefix (h.2 r s' hs)⟩

/-- where the session connected from `addr` sits relative to slot `i` -/
theorem conn_case {s : NetcodeServer} (hi : ServerInv s) {addr : Addr} {i j : Nat} {c cj : Connection}
    (hc : At s.clients i c) (hfa : findClientByAddr s.clients addr = some (j, cj)) :
    (j = i ∧ cj = c ∧ c.addr = addr) ∨ (j ≠ i ∧ c.addr ≠ addr ∧ cj.clientId ≠ c.clientId) := by
  obtain ⟨hj, had⟩ := findAddr_some hfa
  by_cases e : j = i
  · subst e
    have := at_inj hj hc; subst this
    exact Or.inl ⟨rfl, rfl, had⟩
  · refine Or.inr ⟨e, ?_, ?_⟩
    · intro h; exact e (hi.slots.addrs j i cj c hj hc (by rw [had, h]))
    · intro h; exact e (hi.slots.ids j i cj c hj hc h)

/-- **what `process_packet` does to one connected session**: either the datagram is that session's authentic
    Disconnect, or the session stays in its slot with its identity, no `ClientDisconnected` names it, its receive
    timer stays or becomes `now`, and becomes `now` when the datagram is `Authentic` for it. -/
theorem pp_keeps {a : AEAD} {s s' : NetcodeServer} {addr : Addr} {buf : Bytes} {r : ServerResult}
    (hi : ServerInv s) (ho : PPOut a s addr buf r s') {i : Nat} {c : Connection} (hc : At s.clients i c) :
    (c.addr = addr ∧ AuthDisconnect a s c buf) ∨
    (∃ c', At s'.clients i c' ∧ ident c' = ident c ∧ (∀ ad o, r ≠ .clientDisconnected c.clientId ad o) ∧
      (c'.lastPacketReceivedTime = c.lastPacketReceivedTime ∨ c'.lastPacketReceivedTime = s.currentTime) ∧
      (c.addr = addr → Authentic a s c buf → c'.lastPacketReceivedTime = s.currentTime)) := by
  have hlt := at_lt hc
  -- the datagram's source is not a connected address: slot `i` is not concerned
  have other : ∀ {cl' : Slots}, cl' = s.clients → findClientByAddr s.clients addr = none →
      (∀ ad o, r ≠ .clientDisconnected c.clientId ad o) →
      ∃ c', At cl' i c' ∧ ident c' = ident c ∧ (∀ ad o, r ≠ .clientDisconnected c.clientId ad o) ∧
        (c'.lastPacketReceivedTime = c.lastPacketReceivedTime ∨ c'.lastPacketReceivedTime = s.currentTime) ∧
        (c.addr = addr → Authentic a s c buf → c'.lastPacketReceivedTime = s.currentTime) := by
    intro cl' e hfa hr
    subst e
    exact ⟨c, hc, rfl, hr, Or.inl rfl, fun h => absurd h (findAddr_none.mp hfa i c hc)⟩
  -- the session at `addr` is rewritten with the same identity and receive timer
  have same : ∀ {j : Nat} {cj x : Connection}, findClientByAddr s.clients addr = some (j, cj) →
      ident x = ident cj → x.lastPacketReceivedTime = cj.lastPacketReceivedTime →
      (∀ ad o, r ≠ .clientDisconnected c.clientId ad o) → (c.addr = addr → ¬ Authentic a s c buf) →
      ∃ c', At (s.clients.set j (some x)) i c' ∧ ident c' = ident c ∧
        (∀ ad o, r ≠ .clientDisconnected c.clientId ad o) ∧
        (c'.lastPacketReceivedTime = c.lastPacketReceivedTime ∨ c'.lastPacketReceivedTime = s.currentTime) ∧
        (c.addr = addr → Authentic a s c buf → c'.lastPacketReceivedTime = s.currentTime) := by
    intro j cj x hfa hid hx hr hna
    rcases conn_case hi hc hfa with ⟨rfl, rfl, _⟩ | ⟨hne, hadr, _⟩
    · exact ⟨x, at_set_self hlt, hid, hr, Or.inl hx, fun h1 h2 => absurd h2 (hna h1)⟩
    · exact ⟨c, at_set_of_ne hne hc, rfl, hr, Or.inl rfl, fun h => absurd h hadr⟩
  -- … or refreshed
  have fresh : ∀ {j : Nat} {cj : Connection} {w' : RP}, findClientByAddr s.clients addr = some (j, cj) →
      (c = cj → Authentic a s c buf) → (∀ ad o, r ≠ .clientDisconnected c.clientId ad o) →
      ∃ c', At (s.clients.set j (some (refreshed cj w' s.currentTime))) i c' ∧ ident c' = ident c ∧
        (∀ ad o, r ≠ .clientDisconnected c.clientId ad o) ∧
        (c'.lastPacketReceivedTime = c.lastPacketReceivedTime ∨ c'.lastPacketReceivedTime = s.currentTime) ∧
        (c.addr = addr → Authentic a s c buf → c'.lastPacketReceivedTime = s.currentTime) := by
    intro j cj w' hfa _ hr
    rcases conn_case hi hc hfa with ⟨rfl, rfl, _⟩ | ⟨hne, hadr, _⟩
    · exact ⟨_, at_set_self hlt, rfl, hr, Or.inr rfl, fun _ _ => rfl⟩
    · exact ⟨c, at_set_of_ne hne hc, rfl, hr, Or.inl rfl, fun h => absurd h hadr⟩
  have nodec : ∀ {j : Nat} {cj : Connection} {x : Res NetcodeError (Nat × Packet)} {w' : RP},
      findClientByAddr s.clients addr = some (j, cj) →
      Packet.decode a buf s.protocolId (some cj.receiveKey) (some cj.replayProtection) = (x, some w') →
      (∀ sq pk, x = .ok (sq, pk) → pk.packetType ≠ .keepAlive ∧ pk.packetType ≠ .payload) →
      c.addr = addr → ¬ Authentic a s c buf := by
    intro j cj x w' hfa hdec hx had
    rcases conn_case hi hc hfa with ⟨rfl, rfl, _⟩ | ⟨_, hadr, _⟩
    · rintro ⟨sq, pk, w'', hd, hk⟩
      rw [hdec] at hd
      simp only [Prod.mk.injEq] at hd
      obtain ⟨h1, h2⟩ := hx sq pk hd.1
      rcases hk with hk | hk
      · exact h1 hk
      · exact h2 hk
    · exact absurd had hadr
  cases ho with
  | short hs =>
    refine Or.inr ⟨c, hc, rfl, (fun _ _ h => by cases h), Or.inl rfl, ?_⟩
    rintro _ ⟨sq, pk, w', hdec, _⟩
    rw [decode_eq, if_pos hs] at hdec; cases hdec
  | connErr j cj e w' hfa hdec =>
    exact Or.inr (same (x := { cj with replayProtection := w' }) hfa rfl rfl (fun _ _ h => by cases h)
      (nodec hfa hdec (fun _ _ h => by cases h)))
  | connDisconnect j cj sq w' hfa hdec =>
    rcases conn_case hi hc hfa with ⟨rfl, rfl, had⟩ | ⟨hne, hadr, hidn⟩
    · exact Or.inl ⟨had, sq, w', hdec⟩
    · refine Or.inr ⟨c, at_set_of_ne hne hc, rfl, ?_, Or.inl rfl, fun h => absurd h hadr⟩
      intro ad o h
      simp only [ServerResult.clientDisconnected.injEq] at h
      exact hidn h.1
  | connPayload j cj sq p w' hfa hdec =>
    exact Or.inr (fresh hfa (fun e => by subst e; exact ⟨sq, _, w', hdec, Or.inr rfl⟩) (fun _ _ h => by cases h))
  | connKeepAlive j cj sq ci mc w' hfa hdec =>
    exact Or.inr (fresh hfa (fun e => by subst e; exact ⟨sq, _, w', hdec, Or.inl rfl⟩) (fun _ _ h => by cases h))
  | connOther j cj sq pk w' hfa hdec h1 h2 h3 =>
    refine Or.inr (same (x := { cj with replayProtection := w' }) hfa rfl rfl (fun _ _ h => by cases h)
      (nodec hfa hdec ?_))
    intro sq' pk' e
    simp only [Res.ok.injEq, Prod.mk.injEq] at e
    obtain ⟨_, rfl⟩ := e
    exact ⟨h3, h2⟩
  | pendErr p e w' hfa hpf hdec => exact Or.inr (other rfl hfa (fun _ _ h => by cases h))
  | pendRequest p sq v pid expire xnonce data w' R _ _ hfa hpf hdec hout hres =>
    obtain ⟨h1, h2⟩ := hcr_clients hout hres
    refine Or.inr (other h1 hfa ?_)
    rcases h2 with rfl | ⟨out, rfl⟩ <;> (intro _ _ h; cases h)
  | pendOther p sq pk w' hfa hpf hdec _ _ => exact Or.inr (other rfl hfa (fun _ _ h => by cases h))
  | respRejected p sq ts td w' hfa hpf hdec _ => exact Or.inr (other rfl hfa (fun _ _ h => by cases h))
  | respDropped p sq ts td w' hfa hpf hdec _ => exact Or.inr (other rfl hfa (fun _ _ h => by cases h))
  | respFull p sq ts td w' out hfa hpf hdec _ _ _ _ => exact Or.inr (other rfl hfa (fun _ _ h => by cases h))
  | respConnected p sq ts td w' j out hfa hpf hdec hct hid hff hen =>
    have hne : j ≠ i := by
      intro e; subst e
      have := firstFree_some hff
      unfold At at hc; rw [this] at hc; simp at hc
    exact Or.inr ⟨c, at_set_of_ne hne hc, rfl, (fun _ _ h => by cases h), Or.inl rfl,
      fun h => absurd h (findAddr_none.mp hfa i c hc)⟩
  | newErr e hfa hpf hdec => exact Or.inr (other rfl hfa (fun _ _ h => by cases h))
  | newRequest sq v pid expire xnonce data R _ _ hfa hpf hdec hout hres =>
    obtain ⟨h1, h2⟩ := hcr_clients hout hres
    refine Or.inr (other h1 hfa ?_)
    rcases h2 with rfl | ⟨out, rfl⟩ <;> (intro _ _ h; cases h)

/-- **one allowed operation keeps the session**: same slot, same identity, no `ClientDisconnected id` reported, and
    the receive timer is at least the ghost variable `last` of the trace hypothesis. -/
theorem step_keeps {a : AEAD} {s s' : NetcodeServer} {op : Op} {r : ServerResult} {id i last : Nat} {c : Connection}
    (hi : ServerInv s) (hc : At s.clients i c) (hid : c.clientId = id) (hlast : last ≤ c.lastPacketReceivedTime)
    (hal : opAllowed a id s last op = true) (h : step a s op = some (r, s')) :
    ∃ c', At s'.clients i c' ∧ ident c' = ident c ∧ lastAfter a id s last op ≤ c'.lastPacketReceivedTime ∧
      ∀ ad o, r ≠ .clientDisconnected id ad o := by
  have hfind : findClientById s.clients id = some c := hi.slots.findById_iff.mpr ⟨hid, i, hc⟩
  have hnow : c.lastPacketReceivedTime ≤ s.currentTime := (hi.slotsOK i c hc).recv
  cases op with
  | packet addr buf =>
    have hp : s.processPacket a addr buf = .ok (r, s') := by
      simp only [step] at h
      cases hp : s.processPacket a addr buf with
      | ok x => rw [hp] at h; cases h; rfl
      | err e => exact e.elim
      | panic m => rw [hp] at h; cases h
    simp only [opAllowed, hfind, Bool.not_eq_true', Bool.and_eq_false_iff, decide_eq_false_iff_not] at hal
    rcases pp_keeps hi (pp_ok hi hp) hc with ⟨had, hdis⟩ | ⟨c', hc', hident, hr, htm, hau⟩
    · rcases hal with hal | hal
      · exact absurd had hal
      · rw [authDisconnectB_iff.mpr hdis] at hal; cases hal
    · refine ⟨c', hc', hident, ?_, fun ad o => hid ▸ hr ad o⟩
      unfold lastAfter
      simp only [refreshes, hfind]
      split
      · rename_i hrf
        simp only [Bool.and_eq_true, decide_eq_true_eq] at hrf
        rw [hau hrf.1 (authenticB_iff.mp hrf.2)]
        exact Nat.le_refl _
      · rcases htm with e | e <;> rw [e] <;> omega
  | update d =>
    simp only [step] at h
    cases hp : s.update d with
    | ok x =>
      rw [hp] at h; cases h
      rw [update_ok hp]
      exact ⟨c, hc, rfl, by simp only [lastAfter, refreshes]; exact hlast, fun _ _ e => by cases e⟩
    | err e => exact e.elim
    | panic m => rw [hp] at h; cases h
  | updateClient id' =>
    have hp : s.updateClient a id' = .ok (r, s') := by
      simp only [step] at h
      cases hp : s.updateClient a id' with
      | ok x => rw [hp] at h; cases h; rfl
      | err e => exact e.elim
      | panic m => rw [hp] at h; cases h
    simp only [opAllowed, hfind, decide_eq_true_eq] at hal
    have hla : lastAfter a id s last (.updateClient id') = last := by simp only [lastAfter, refreshes]; rfl
    rw [hla]
    cases hf : findClientSlotById s.clients id' with
    | none =>
      rw [updateClient_absent a hf] at hp; cases hp
      exact ⟨c, hc, rfl, hlast, fun _ _ e => by cases e⟩
    | some j =>
      obtain ⟨cj, hcj, hidj, _⟩ := findSlot_some hf
      by_cases e : j = i
      · subst e
        have := at_inj hcj hc; subst this
        have hidd : id' = id := by rw [← hidj, hid]
        have hfr := hal hidd
        rcases updateClient_spec a hi hf hcj with ⟨hto, _⟩ | ⟨_, e | ⟨out, _, _, e⟩⟩ | ⟨⟨m, e⟩, _⟩
        · exfalso
          obtain ⟨h1, h2⟩ := hto
          rcases hfr with h | h <;> omega
        · rw [e] at hp; cases hp; exact ⟨cj, hc, rfl, hlast, fun _ _ e => by cases e⟩
        · rw [e] at hp; cases hp
          exact ⟨_, at_set_self (at_lt hc), rfl, hlast, fun _ _ e => by cases e⟩
        · rw [e] at hp; cases hp
      · have hidne : id' ≠ id := by
          intro e'; exact e (hi.slots.ids j i cj c hcj hc (by rw [hidj, hid, e']))
        rcases updateClient_spec a hi hf hcj with ⟨_, o, e'⟩ | ⟨_, e' | ⟨out, _, _, e'⟩⟩ | ⟨⟨m, e'⟩, _⟩
        · rw [e'] at hp; cases hp
          refine ⟨c, at_set_of_ne e hc, rfl, hlast, ?_⟩
          intro ad o' h'
          simp only [ServerResult.clientDisconnected.injEq] at h'
          exact hidne h'.1
        · rw [e'] at hp; cases hp; exact ⟨c, hc, rfl, hlast, fun _ _ e => by cases e⟩
        · rw [e'] at hp; cases hp
          exact ⟨c, at_set_of_ne e hc, rfl, hlast, fun _ _ e => by cases e⟩
        · rw [e'] at hp; cases hp
  | disconnect id' =>
    have hp : s.disconnect a id' = .ok (r, s') := by
      simp only [step] at h
      cases hp : s.disconnect a id' with
      | ok x => rw [hp] at h; cases h; rfl
      | err e => exact e.elim
      | panic m => rw [hp] at h; cases h
    simp only [opAllowed, decide_eq_true_eq] at hal
    have hla : lastAfter a id s last (.disconnect id') = last := by simp only [lastAfter, refreshes]; rfl
    rw [hla]
    rcases disconnect_spec a s id' with ⟨_, e⟩ | ⟨j, cj, o, _, hcj, hidj, e⟩
    · rw [e] at hp; cases hp; exact ⟨c, hc, rfl, hlast, fun _ _ e => by cases e⟩
    · rw [e] at hp; cases hp
      have hne : j ≠ i := by
        intro e'; subst e'
        have := at_inj hcj hc; subst this
        exact hal (by rw [← hidj, hid])
      refine ⟨c, at_set_of_ne hne hc, rfl, hlast, ?_⟩
      intro ad o' h'
      simp only [ServerResult.clientDisconnected.injEq] at h'
      exact hal h'.1
  | setMaxClients m =>
    simp only [step, Option.some.injEq, Prod.mk.injEq] at h
    obtain ⟨rfl, rfl⟩ := h
    have hla : lastAfter a id s last (.setMaxClients m) = last := by simp only [lastAfter, refreshes]; rfl
    rw [hla, (setMaxClients_eq s m).2.1]
    exact ⟨c, at_append_none.mpr hc, rfl, hlast, fun _ _ e => by cases e⟩
  | sendPayload id' p =>
    have hla : lastAfter a id s last (.sendPayload id' p) = last := by simp only [lastAfter, refreshes]; rfl
    rw [hla]
    simp only [step] at h
    cases hp : s.generatePayloadPacket a id' p with
    | ok x =>
      obtain ⟨⟨ad, out⟩, s''⟩ := x
      rw [hp] at h; cases h
      obtain ⟨j, cj, _, hcj, _, _, _, rfl⟩ := generatePayload_ok hp
      by_cases e : j = i
      · subst e
        have := at_inj hcj hc; subst this
        exact ⟨_, at_set_self (at_lt hc), rfl, hlast, fun _ _ e => by cases e⟩
      · exact ⟨c, at_set_of_ne e hc, rfl, hlast, fun _ _ e => by cases e⟩
    | err e => rw [hp] at h; cases h; exact ⟨c, hc, rfl, hlast, fun _ _ e => by cases e⟩
    | panic m => rw [hp] at h; cases h

/-- **the induction over a whole trace** -/
theorem run_keeps {a : AEAD} {id i : Nat} : ∀ (ops : List Op) {s s' : NetcodeServer} {c : Connection} {last : Nat}
    {rs : List ServerResult}, ServerInv s → At s.clients i c → c.clientId = id → last ≤ c.lastPacketReceivedTime →
    Fresh a id s last ops → runOps a s ops = some (rs, s') →
    ServerInv s' ∧ (∃ c', At s'.clients i c' ∧ ident c' = ident c) ∧ ∀ ad o, .clientDisconnected id ad o ∉ rs
  | [], s, s', c, last, rs, hi, hc, _, _, _, hrun => by
    simp only [runOps, Option.some.injEq, Prod.mk.injEq] at hrun
    obtain ⟨rfl, rfl⟩ := hrun
    exact ⟨hi, ⟨c, hc, rfl⟩, fun _ _ h => by cases h⟩
  | op :: rest, s, s', c, last, rs, hi, hc, hid, hlast, hfr, hrun => by
    obtain ⟨r, s1, rs', hs, hr, rfl⟩ := runOps_cons hrun
    obtain ⟨hal, hrest⟩ := fresh_cons.mp hfr
    obtain ⟨c1, hc1, hident, hl1, hnr⟩ := step_keeps hi hc hid hlast hal hs
    obtain ⟨hi', ⟨c', hc', hident'⟩, hnd⟩ := run_keeps rest (step_inv hi hs) hc1 (by rw [ident_id hident, hid]) hl1
      (hrest r s1 hs) hr
    refine ⟨hi', ⟨c', hc', by rw [hident', hident]⟩, ?_⟩
    intro ad o hm
    simp only [List.mem_cons] at hm
    rcases hm with e | hm
    · exact hnr ad o e.symm
    · exact hnd ad o hm

/-! ## Part B : the handshake through `update`, with loss

  ### B.1 server side -/

open RenetVerif.NcAead.Token

/-- the token-to-address binding lets `addr` use the token with this MAC: every recorded entry with the MAC carries
    `addr` -/
def Bound (s : NetcodeServer) (addr : Addr) (mac : Bytes) : Prop :=
  ∀ e, some e ∈ s.connectTokenEntries → e.mac = mac → e.address = addr

theorem bound_binding {s : NetcodeServer} {addr : Addr} {mac : Bytes} (h : Bound s addr mac) (tm : Nat) :
    (s.findOrAddConnectTokenEntry ⟨tm, addr, mac⟩).2 = true := by
  rcases findOrAdd_spec s ⟨tm, addr, mac⟩ with ⟨e, he, hm, heq⟩ | ⟨_, k, heq⟩
  · rw [heq]
    have := h e he hm
    simp only [this, decide_true]
  · rw [heq]

theorem bound_of_binding {s : NetcodeServer} {addr : Addr} {mac : Bytes} (hok : EntriesOK s.connectTokenEntries)
    (tm : Nat) (h : (s.findOrAddConnectTokenEntry ⟨tm, addr, mac⟩).2 = true) : Bound s addr mac := by
  intro e he hm
  apply Classical.byContradiction
  intro hne
  rw [findOrAdd_other_addr hok (ne := ⟨tm, addr, mac⟩) he hm hne] at h
  cases h

theorem bound_entryStep {s s1 : NetcodeServer} {addr : Addr} {mac : Bytes} {tm : Nat} (h : Bound s addr mac)
    (hs : EntryStep s s1 ⟨tm, addr, mac⟩) : Bound s1 addr mac := by
  rcases hs with rfl | ⟨_, k, rfl⟩
  · exact h
  · intro e he hm
    rcases List.mem_or_eq_of_mem_set he with h1 | h1
    · exact h e h1 hm
    · cases h1; rfl

/-- the configuration of a server (what no operation of this file changes) -/
structure SameCfg (s0 s : NetcodeServer) : Prop where
  connectKey : s.connectKey = s0.connectKey
  protocolId : s.protocolId = s0.protocolId
  challengeKey : s.challengeKey = s0.challengeKey
  secure : s.secure = s0.secure
  publicAddresses : s.publicAddresses = s0.publicAddresses
  maxClients : s.maxClients = s0.maxClients

theorem SameCfg.refl (s : NetcodeServer) : SameCfg s s := ⟨rfl, rfl, rfl, rfl, rfl, rfl⟩
theorem SameCfg.trans {s0 s1 s2 : NetcodeServer} (h1 : SameCfg s0 s1) (h2 : SameCfg s1 s2) : SameCfg s0 s2 :=
  ⟨h2.1.trans h1.1, h2.2.trans h1.2, h2.3.trans h1.3, h2.4.trans h1.4, h2.5.trans h1.5, h2.6.trans h1.6⟩

theorem sealedPriv_cfg (a : AEAD) {s0 s : NetcodeServer} (h : SameCfg s0 s) (t : PrivateConnectToken) (expire : Nat)
    (xnonce : Bytes) : sealedPriv a s t expire xnonce = sealedPriv a s0 t expire xnonce := by
  unfold sealedPriv; rw [h.connectKey, h.protocolId]

theorem requestBytes_cfg (a : AEAD) {s0 s : NetcodeServer} (h : SameCfg s0 s) (t : PrivateConnectToken) (expire : Nat)
    (xnonce : Bytes) : requestBytes a s t expire xnonce = requestBytes a s0 t expire xnonce := by
  unfold requestBytes requestPacket; rw [sealedPriv_cfg a h, h.protocolId]

theorem challengeToken_cfg (a : AEAD) {s0 s : NetcodeServer} (h : SameCfg s0 s) (id : Nat) (ud : Bytes) (cs : Nat) :
    challengeToken a s id ud cs = challengeToken a s0 id ud cs := challengeToken_congr a h.challengeKey id ud cs

theorem pendingRemove_filter (m : Pending) (f : Addr × Connection → Bool) (ad : Addr) :
    (pendingRemove (m.filter f) ad).length ≤ (pendingRemove m ad).length := by
  unfold pendingRemove
  induction m with
  | nil => simp
  | cons p rest ih =>
    simp only [List.filter_cons]
    by_cases h1 : f p = true <;> by_cases h2 : decide (p.1 ≠ ad) = true <;>
      simp only [h1, h2, List.filter_cons, if_true, List.length_cons, Bool.false_eq_true, if_false] <;> omega

theorem pendingRemove_of_none {m : Pending} {ad : Addr} (h : pendingFind m ad = none) : pendingRemove m ad = m := by
  unfold pendingRemove
  rw [List.filter_eq_self]
  intro p hp
  simp only [decide_eq_true_eq]
  exact pendingFind_none.mp h p hp

theorem pendingFind_filter_some {f : Addr × Connection → Bool} : ∀ {m : Pending} {ad : Addr} {p : Connection},
    pendingFind m ad = some p → f (ad, p) = true → pendingFind (m.filter f) ad = some p
  | [], _, _, h, _ => by simp [pendingFind] at h
  | (a0, c0) :: rest, ad, p, h, hf => by
    simp only [pendingFind] at h
    split at h
    · rename_i he
      cases h; subst he
      simp only [List.filter_cons, hf, if_true, pendingFind]
    · rename_i hne
      simp only [List.filter_cons]
      split
      · simp only [pendingFind, if_neg hne]
        exact pendingFind_filter_some h hf
      · exact pendingFind_filter_some h hf

/-- the room condition of `handle_connection_request`, from "fewer than the maximum *other* half-open sessions" -/
theorem room_of_others {m : Pending} {ad : Addr} (h : (pendingRemove m ad).length < C.NETCODE_MAX_PENDING_CLIENTS) :
    (pendingFind m ad).isSome ∨ m.length < C.NETCODE_MAX_PENDING_CLIENTS := by
  cases hp : pendingFind m ad with
  | some p => left; rfl
  | none => right; rw [pendingRemove_of_none hp] at h; exact h

/-- **request ⇒ challenge, again and again**: like `NS.progress_request`, but the source address may already have a
    half-open session (a retransmitted or duplicated request) and the token may already be bound to this address.
    The half-open session is (re)created from the token, stamped with the current time. -/
theorem request_challenged (a : AEAD) (hl : a.Laws) {s : NetcodeServer} {addr : Addr} {t : PrivateConnectToken}
    {expire : Nat} {xnonce : Bytes} (hi : ServerInv s) (hg : s.globalSequence < U64_MAX)
    (hc : s.challengeSequence < U64_MAX) (hwf : PTokenWF t) (hxn : xnonce.length = 24) (hexp : expire < 2 ^ 64)
    (hpid : s.protocolId < 2 ^ 64) (hnow : asSecs s.currentTime < expire)
    (hhost : s.secure = true → ∃ x, some x ∈ t.serverAddresses ∧ x ∈ s.publicAddresses)
    (hfa : findClientByAddr s.clients addr = none) (hfi : findClientById s.clients t.clientId = none)
    (hroom : (pendingRemove s.pendingClients addr).length < C.NETCODE_MAX_PENDING_CLIENTS)
    (hbound : Bound s addr (tokenMac (sealedPriv a s t expire xnonce)))
    (hlt : countConnected s.clients < s.maxClients) :
    ∃ s', s.processPacket a addr (requestBytes a s t expire xnonce) = .ok (.packetToSend addr (challengeBytes a s t), s') ∧
      pendingFind s'.pendingClients addr = some (mkPending s.currentTime addr expire t) ∧
      pendingRemove s'.pendingClients addr = pendingRemove s.pendingClients addr ∧
      s'.clients = s.clients ∧ s'.challengeSequence = s.challengeSequence + 1 ∧
      s'.globalSequence = s.globalSequence + 1 ∧ SameCfg s s' ∧ s'.currentTime = s.currentTime ∧
      Bound s' addr (tokenMac (sealedPriv a s t expire xnonce)) ∧ ServerInv s' := by
  have hpwf := requestPacket_wf a hl s hwf hxn hexp hpid (t := t)
  have hgen := ch_generate_eq a t.clientId t.userData hwf.userData (s.challengeSequence + 1) s.challengeKey
  have hen : (Packet.challenge (s.challengeSequence + 1)
        (challengeToken a s t.clientId t.userData (s.challengeSequence + 1))).encode a C.NETCODE_MAX_PACKET_BYTES
        s.protocolId (some (s.globalSequence, t.serverToClientKey)) = .ok (challengeBytes a s t) := by
    rw [Packet.encode_sealed_eq a _ _ _ _ _ (by simp [Packet.packetType])]
    have h1 := Packet.sbr_le s.globalSequence
    have h2 := challengeToken_length a hl s t.clientId hwf.userData (s.challengeSequence + 1)
    rw [if_pos]
    · rfl
    · simp only [Packet.body, List.length_append, leBytes_length, h2]
      have : C.NETCODE_MAX_PACKET_BYTES = 1400 := rfl
      omega
  obtain ⟨r, s', hpp, hout⟩ := pp_spec a hi hg hc addr (requestBytes a s t expire xnonce)
  have hinv : ServerInv s' := ppOut_inv hi hout
  have hlen : ¬ (requestBytes a s t expire xnonce).length < 2 + C.NETCODE_MAC_BYTES := by
    have := sealedPriv_length a hl s hwf expire xnonce
    simp only [requestBytes, requestPacket, Packet.body, List.length_cons, List.length_append, leBytes_length, this, hxn]
    decide
  -- the common tail: the outcome of `handle_connection_request` on a state `sx` that agrees with `s` where it matters
  have tail : ∀ (sx : NetcodeServer) (R : NetcodeServer.SRes), sx.clients = s.clients →
      sx.connectTokenEntries = s.connectTokenEntries → sx.protocolId = s.protocolId → sx.connectKey = s.connectKey →
      sx.maxClients = s.maxClients → sx.challengeSequence = s.challengeSequence → sx.challengeKey = s.challengeKey →
      sx.publicAddresses = s.publicAddresses → sx.currentTime = s.currentTime → sx.globalSequence = s.globalSequence →
      sx.secure = s.secure →
      ((pendingFind sx.pendingClients addr).isSome ∨ sx.pendingClients.length < C.NETCODE_MAX_PENDING_CLIENTS) →
      pendingRemove sx.pendingClients addr = pendingRemove s.pendingClients addr →
      HcrOut a sx addr C.NETCODE_VERSION_INFO s.protocolId expire xnonce (sealedPriv a s t expire xnonce) R →
      HcrRes R r s' →
      r = .packetToSend addr (challengeBytes a s t) ∧
      pendingFind s'.pendingClients addr = some (mkPending s.currentTime addr expire t) ∧
      pendingRemove s'.pendingClients addr = pendingRemove s.pendingClients addr ∧
      s'.clients = s.clients ∧ s'.challengeSequence = s.challengeSequence + 1 ∧
      s'.globalSequence = s.globalSequence + 1 ∧ SameCfg s s' ∧ s'.currentTime = s.currentTime ∧
      Bound s' addr (tokenMac (sealedPriv a s t expire xnonce)) := by
    intro sx R e1 e2 e3 e4 e5 e6 e7 e8 e9 e10 e11 hrm hrem hcr hres
    have hopens : TokenOpens a sx expire xnonce (sealedPriv a s t expire xnonce) t := by
      obtain ⟨pl, h1, h2⟩ := sealedPriv_opens a hl s hwf expire xnonce
      exact ⟨pl, by rw [e4, e3]; exact h1, h2⟩
    have hbx : Bound sx addr (tokenMac (sealedPriv a s t expire xnonce)) := by
      intro e he; rw [e2] at he; exact hbound e he
    have hacc : Accepted a sx addr C.NETCODE_VERSION_INFO s.protocolId expire xnonce (sealedPriv a s t expire xnonce) t :=
      ⟨rfl, e3.symm, by rw [e9]; exact hnow, hopens, by rw [e11, e8]; exact hhost, by rw [e1]; exact hfa,
        by rw [e1]; exact hfi, hrm, bound_binding hbx _⟩
    cases hcr with
    | err e hno => exact absurd hacc (hno t)
    | none hno => exact absurd hacc (hno t)
    | deniedErr t' s1 e _ _ hfull => rw [e1, e5] at hfull; omega
    | denied t' s1 out _ _ hfull => rw [e1, e5] at hfull; omega
    | challengeErr t' s1 e hacc' hstep _ hcause =>
      have := tokenOpens_unique hacc'.opens hacc.opens; subst this
      rw [e6, e7, e3, e10] at hcause
      rcases hcause with h | ⟨pkt, h1, h2⟩
      · rw [hgen] at h; cases h
      · rw [hgen] at h1; cases h1
        have hen' := hen
        unfold challengeToken at hen'
        rw [hen'] at h2; cases h2
    | challenge t' s1 pkt out hacc' hstep _ hgen' hen' =>
      have := tokenOpens_unique hacc'.opens hacc.opens; subst this
      rw [e6, e7] at hgen'
      rw [hgen] at hgen'; cases hgen'
      have hen2 := hen
      unfold challengeToken at hen2
      rw [e3, e10, hen2] at hen'; cases hen'
      rcases hres with h | ⟨_, e, h⟩
      · cases h
        have hf := entryStep_fields hstep
        have hb1 := bound_entryStep hbx hstep
        refine ⟨rfl, ?_, ?_, ?_, ?_, ?_, ?_, ?_, ?_⟩
        · simp only [pendingFind_set, if_true, e9]
        · show pendingRemove (pendingSet s1.pendingClients addr _) addr = _
          rw [pendingRemove_pendingSet, hf.2.1, hrem]
        · show s1.clients = s.clients; rw [hf.1, e1]
        · show sx.challengeSequence + 1 = _; rw [e6]
        · show sx.globalSequence + 1 = _; rw [e10]
        · exact ⟨by show s1.connectKey = _; rw [hf.2.2.2.1, e4], by show s1.protocolId = _; rw [hf.2.2.1, e3],
            by show s1.challengeKey = _; rw [hf.2.2.2.2.2.2.1, e7], by show s1.secure = _; rw [hf.2.2.2.2.2.2.2.2.2.2, e11],
            by show s1.publicAddresses = _; rw [hf.2.2.2.2.2.2.2.1, e8], by show s1.maxClients = _; rw [hf.2.2.2.2.1, e5]⟩
        · show s1.currentTime = _; rw [hf.2.2.2.2.2.2.2.2.1, e9]
        · intro e he; exact hb1 e he
      · cases h
  cases hout with
  | short h => exact absurd h hlen
  | connErr i c e w' hfa' => rw [hfa] at hfa'; cases hfa'
  | connDisconnect i c sq w' hfa' => rw [hfa] at hfa'; cases hfa'
  | connPayload i c sq p w' hfa' => rw [hfa] at hfa'; cases hfa'
  | connKeepAlive i c sq ci mc w' hfa' => rw [hfa] at hfa'; cases hfa'
  | connOther i c sq pk w' hfa' => rw [hfa] at hfa'; cases hfa'
  | pendErr p e w' _ hpf' hd =>
    have hdec := Packet.decode_request_bytes a (p := requestPacket a s t expire xnonce) rfl hpwf s.protocolId
      (some p.receiveKey) (some p.replayProtection)
    unfold requestBytes at hd; rw [hdec] at hd; cases hd
  | pendRequest p sq v pid expire' xnonce' data w' R _ _ _ hpf' hd hcr hres =>
    have hdec := Packet.decode_request_bytes a (p := requestPacket a s t expire xnonce) rfl hpwf s.protocolId
      (some p.receiveKey) (some p.replayProtection)
    unfold requestBytes at hd; rw [hdec] at hd
    simp only [requestPacket, Prod.mk.injEq, Res.ok.injEq, Packet.connectionRequest.injEq, Option.some.injEq] at hd
    obtain ⟨⟨_, rfl, rfl, rfl, rfl, rfl⟩, rfl⟩ := hd
    obtain ⟨h0, h1, h2, h3, h4, h5, h6, h7, h8⟩ := tail
      { s with pendingClients := pendingSet s.pendingClients addr (touched p p.replayProtection s.currentTime) }
      R rfl rfl rfl rfl rfl rfl rfl rfl rfl rfl rfl
      (Or.inl (by simp only [pendingFind_set, if_true, Option.isSome_some]))
      (by show pendingRemove (pendingSet s.pendingClients addr _) addr = _; rw [pendingRemove_pendingSet]) hcr hres
    subst h0
    exact ⟨_, hpp, h1, h2, h3, h4, h5, h6, h7, h8, hinv⟩
  | pendOther p sq pk w' _ hpf' hd h1 _ =>
    have hdec := Packet.decode_request_bytes a (p := requestPacket a s t expire xnonce) rfl hpwf s.protocolId
      (some p.receiveKey) (some p.replayProtection)
    unfold requestBytes at hd; rw [hdec] at hd
    simp only [Prod.mk.injEq, Res.ok.injEq] at hd
    obtain ⟨⟨_, rfl⟩, _⟩ := hd
    exact absurd rfl h1
  | respRejected p sq ts td w' _ hpf' hd =>
    have hdec := Packet.decode_request_bytes a (p := requestPacket a s t expire xnonce) rfl hpwf s.protocolId
      (some p.receiveKey) (some p.replayProtection)
    unfold requestBytes at hd; rw [hdec] at hd; simp [requestPacket] at hd
  | respDropped p sq ts td w' _ hpf' hd =>
    have hdec := Packet.decode_request_bytes a (p := requestPacket a s t expire xnonce) rfl hpwf s.protocolId
      (some p.receiveKey) (some p.replayProtection)
    unfold requestBytes at hd; rw [hdec] at hd; simp [requestPacket] at hd
  | respFull p sq ts td w' out _ hpf' hd =>
    have hdec := Packet.decode_request_bytes a (p := requestPacket a s t expire xnonce) rfl hpwf s.protocolId
      (some p.receiveKey) (some p.replayProtection)
    unfold requestBytes at hd; rw [hdec] at hd; simp [requestPacket] at hd
  | respConnected p sq ts td w' i out _ hpf' hd =>
    have hdec := Packet.decode_request_bytes a (p := requestPacket a s t expire xnonce) rfl hpwf s.protocolId
      (some p.receiveKey) (some p.replayProtection)
    unfold requestBytes at hd; rw [hdec] at hd; simp [requestPacket] at hd
  | newErr e _ _ hd =>
    have hdec := Packet.decode_request_bytes a (p := requestPacket a s t expire xnonce) rfl hpwf s.protocolId none none
    unfold requestBytes at hd; rw [hdec] at hd; cases hd
  | newRequest sq v pid expire' xnonce' data R _ _ _ hpf' hd hcr hres =>
    have hdec := Packet.decode_request_bytes a (p := requestPacket a s t expire xnonce) rfl hpwf s.protocolId none none
    unfold requestBytes at hd; rw [hdec] at hd
    simp only [requestPacket, Res.ok.injEq, Prod.mk.injEq, Packet.connectionRequest.injEq] at hd
    obtain ⟨_, rfl, rfl, rfl, rfl, rfl⟩ := hd
    obtain ⟨h0, h1, h2, h3, h4, h5, h6, h7, h8⟩ := tail s R rfl rfl rfl rfl rfl rfl rfl rfl rfl rfl rfl
      (room_of_others hroom) rfl hcr hres
    subst h0
    exact ⟨_, hpp, h1, h2, h3, h4, h5, h6, h7, h8, hinv⟩

/-- **response ⇒ ClientConnected + keep-alive**, with the new server state written out (`NS.progress_response` only
    exposes its slot table and pending map) -/
theorem response_connects_eq (a : AEAD) (hl : a.Laws) {s : NetcodeServer} {addr : Addr} {p : Connection} {i seq cs : Nat}
    (hi : ServerInv s) (hg : s.globalSequence < U64_MAX) (hc : s.challengeSequence < U64_MAX)
    (hfa : findClientByAddr s.clients addr = none) (hpf : pendingFind s.pendingClients addr = some p)
    (hid : findClientById s.clients p.clientId = none) (hff : firstFreeSlot s.clients = some i)
    (hud : p.userData.length = 256) (hcid : p.clientId < 2 ^ 64) (hcs : cs < 2 ^ 64) (hseq : seq < 2 ^ 64) :
    s.processPacket a addr
        (Packet.sealedBytes a (.response cs (challengeToken a s p.clientId p.userData cs)) s.protocolId seq p.receiveKey) =
      .ok (.clientConnected p.clientId addr p.userData (connectKeepAlive a s p i),
           { s with pendingClients := pendingRemove s.pendingClients addr
                    clients := s.clients.set i (some (promoted p p.replayProtection s.currentTime)) }) := by
  have hdec := Packet.decode_sealedBytes a (.response cs (challengeToken a s p.clientId p.userData cs))
    s.protocolId seq p.receiveKey hl hseq (by simp [Packet.packetType])
    ⟨hcs, challengeToken_length a hl s p.clientId hud _⟩ (some p.replayProtection) rfl
  simp only [Packet.stepWindow, Packet.packetType, PacketType.applyReplayProtection, Option.map_some,
    Bool.false_eq_true, if_false] at hdec
  have hct : ChallengeToken.decode a (challengeToken a s p.clientId p.userData cs) cs s.challengeKey =
      .ok ⟨p.clientId, p.userData⟩ := ch_decode_generate a hl p.clientId p.userData hcid hud cs s.challengeKey
  have hpok := hi.pend (addr, p) (NS.pendingFind_mem hpf)
  have hka : (Packet.keepAlive (i % 2 ^ 32) (s.maxClients % 2 ^ 32)).encode a C.NETCODE_MAX_PACKET_BYTES s.protocolId
      (some (p.sequence, p.sendKey)) = .ok (connectKeepAlive a s p i) := by
    rw [Packet.encode_sealed_eq a _ _ _ _ _ (by simp [Packet.packetType])]
    have h1 := Packet.sbr_le p.sequence
    rw [if_pos]
    · rfl
    · simp only [Packet.body, List.length_append, leBytes_length]
      have : C.NETCODE_MAX_PACKET_BYTES = 1400 := rfl
      omega
  have hden : ∀ e, Packet.connectionDenied.encode a C.NETCODE_MAX_PACKET_BYTES s.protocolId
      (some (s.globalSequence, p.sendKey)) ≠ .err e := by
    intro e
    rw [Packet.encode_sealed_eq a _ _ _ _ _ (by simp [Packet.packetType])]
    have h1 := Packet.sbr_le s.globalSequence
    rw [if_pos]
    · simp
    · simp only [Packet.body, List.length_nil]
      have : C.NETCODE_MAX_PACKET_BYTES = 1400 := rfl
      omega
  obtain ⟨r, s', hpp, hout⟩ := pp_spec a hi hg hc addr
    (Packet.sealedBytes a (.response cs (challengeToken a s p.clientId p.userData cs)) s.protocolId seq p.receiveKey)
  cases hout with
  | short h =>
    exfalso
    rw [decode_eq, if_pos h] at hdec; cases hdec
  | connErr i' c e w' hfa' => rw [hfa] at hfa'; cases hfa'
  | connDisconnect i' c sq w' hfa' => rw [hfa] at hfa'; cases hfa'
  | connPayload i' c sq pl w' hfa' => rw [hfa] at hfa'; cases hfa'
  | connKeepAlive i' c sq ci mc w' hfa' => rw [hfa] at hfa'; cases hfa'
  | connOther i' c sq pk w' hfa' => rw [hfa] at hfa'; cases hfa'
  | pendErr p' e w' _ hpf' hd => rw [hpf] at hpf'; cases hpf'; rw [hdec] at hd; cases hd
  | pendRequest p' sq v pid expire' xnonce' data w' R _ _ _ hpf' hd =>
    rw [hpf] at hpf'; cases hpf'; rw [hdec] at hd; cases hd
  | pendOther p' sq pk w' _ hpf' hd _ h2 =>
    rw [hpf] at hpf'; cases hpf'; rw [hdec] at hd; cases hd
    exact absurd rfl h2
  | respRejected p' sq ts td w' _ hpf' hd hbad =>
    rw [hpf] at hpf'; cases hpf'; rw [hdec] at hd; cases hd
    rcases hbad _ hct with h | h <;> exact absurd rfl h
  | respDropped p' sq ts td w' _ hpf' hd _ hcause =>
    rw [hpf] at hpf'; cases hpf'
    rcases hcause with h | ⟨e, h⟩ | ⟨i', e, h1, h2⟩
    · rw [findSlot_isSome, hid] at h; cases h
    · exact absurd h (hden e)
    · rw [hff] at h1; cases h1
      rw [hka] at h2; cases h2
  | respFull p' sq ts td w' out _ hpf' hd _ _ hff' => rw [hff] at hff'; cases hff'
  | respConnected p' sq ts td w' i' out _ hpf' hd _ _ hff' hen =>
    rw [hpf] at hpf'; cases hpf'; rw [hdec] at hd; cases hd
    rw [hff] at hff'; cases hff'
    rw [hka] at hen; cases hen
    exact hpp
  | newErr e _ hpf' => rw [hpf] at hpf'; cases hpf'
  | newRequest sq v pid expire' xnonce' data R _ _ _ hpf' => rw [hpf] at hpf'; cases hpf'

/-- the server after `update(d)` -/
abbrev srvTick (s : NetcodeServer) (d : Nat) : NetcodeServer :=
  { s with currentTime := s.currentTime + d
           pendingClients := s.pendingClients.filter fun p => !(asSecs (s.currentTime + d) > p.2.expireTimestamp) }

theorem server_update_eq {s : NetcodeServer} {d : Nat} (h : s.currentTime + d ≤ DURATION_MAX) :
    s.update d = .ok (srvTick s d) := by
  obtain ⟨s', hs⟩ := update_ne_panic h
  rw [hs, update_ok hs]

theorem timeout_le {c : Connection} (h : c.timeoutSeconds < 2 ^ 31) :
    fromSecs c.timeoutSeconds.toNat ≤ fromSecs (2 ^ 31) := by
  unfold fromSecs
  apply Nat.mul_le_mul_right
  omega

/-- `update_client` for a session that is neither timed out nor due for a keep-alive: nothing happens -/
theorem updateClient_quiet (a : AEAD) {s : NetcodeServer} {id i : Nat} {cn : Connection} (hi : ServerInv s)
    (hc : At s.clients i cn) (hid : cn.clientId = id) (hnt : ¬ TimedOut cn s.currentTime)
    (hclock : s.currentTime + fromSecs (2 ^ 31) ≤ DURATION_MAX) (hseq : cn.sequence < U64_MAX)
    (hnd : s.currentTime < cn.lastPacketSendTime + C.NETCODE_SEND_RATE_NS) :
    s.updateClient a id = .ok (.none, s) := by
  have hf : findClientSlotById s.clients id = some i := hi.slots.findSlot_iff.mpr ⟨cn, hc, hid⟩
  rcases updateClient_spec a hi hf hc with ⟨hto, _⟩ | ⟨_, e | ⟨out, hdue, _, _⟩⟩ | ⟨_, hn⟩
  · exact absurd hto hnt
  · exact e
  · omega
  · exact absurd ⟨hclock, hseq⟩ hn

/-- the keep-alive part of `update_client`, when it is due -/
theorem ucTail_due (a : AEAD) (s : NetcodeServer) (id i : Nat) {cn : Connection} (hst : cn.state = .connected)
    (hsend : cn.lastPacketSendTime + C.NETCODE_SEND_RATE_NS ≤ DURATION_MAX) (hseq : cn.sequence < U64_MAX)
    (hdue : cn.lastPacketSendTime + C.NETCODE_SEND_RATE_NS ≤ s.currentTime) :
    ucTail a s id i cn false =
      .ok (.packetToSend cn.addr (connectKeepAlive a s cn i),
           { s with clients := s.clients.set i (some (sentKeepAlive cn s.currentTime)) }) := by
  have hnd : ¬ cn.state = .disconnected := by rw [hst]; simp
  have hka : (Packet.keepAlive (i % 2 ^ 32) (s.maxClients % 2 ^ 32)).encode a C.NETCODE_MAX_PACKET_BYTES s.protocolId
      (some (cn.sequence, cn.sendKey)) = .ok (connectKeepAlive a s cn i) := by
    rw [Packet.encode_sealed_eq a _ _ _ _ _ (by simp [Packet.packetType])]
    have h1 := Packet.sbr_le cn.sequence
    rw [if_pos]
    · rfl
    · simp only [Packet.body, List.length_append, leBytes_length]
      have : C.NETCODE_MAX_PACKET_BYTES = 1400 := rfl
      omega
  unfold ucTail
  simp only [Bool.false_eq_true, if_false]
  rw [if_neg hnd, durAdd_ok _ hsend]
  simp only [bind_ok', if_pos hdue, hka, incU64_ok _ hseq, pure_eq']

/-- **`update_client` for a session that is not timed out and whose send timer is due: a keep-alive goes out**
    (sealed with the session's send key and sequence number, which is then incremented) -/
theorem updateClient_due (a : AEAD) {s : NetcodeServer} {id i : Nat} {cn : Connection} (hi : ServerInv s)
    (hc : At s.clients i cn) (hid : cn.clientId = id) (hnt : ¬ TimedOut cn s.currentTime)
    (hclock : s.currentTime + fromSecs (2 ^ 31) ≤ DURATION_MAX) (hseq : cn.sequence < U64_MAX)
    (hdue : cn.lastPacketSendTime + C.NETCODE_SEND_RATE_NS ≤ s.currentTime) :
    s.updateClient a id =
      .ok (.packetToSend cn.addr (connectKeepAlive a s cn i),
           { s with clients := s.clients.set i (some (sentKeepAlive cn s.currentTime)) }) := by
  have hf : findClientSlotById s.clients id = some i := hi.slots.findSlot_iff.mpr ⟨cn, hc, hid⟩
  have hok := hi.slotsOK i cn hc
  have hst := hi.slots.conn i cn hc
  have hns := timeout_le hok.tmo
  have h1 := hok.recv
  have hsend : cn.lastPacketSendTime + C.NETCODE_SEND_RATE_NS ≤ DURATION_MAX := by
    have : C.NETCODE_SEND_RATE_NS ≤ fromSecs (2 ^ 31) := by decide
    have := hok.send
    omega
  rw [updateClient_eq a hf hc]
  by_cases ht1 : cn.timeoutSeconds > 0
  · have hlt : ¬ cn.lastPacketReceivedTime + fromSecs cn.timeoutSeconds.toNat < s.currentTime := fun h => hnt ⟨ht1, h⟩
    rw [if_pos ht1, durAdd_ok _ (by omega)]
    simp only [bind_ok', pure_eq', decide_eq_false hlt]
    exact ucTail_due a s id i hst hsend hseq hdue
  · rw [if_neg ht1]
    simp only [pure_eq', bind_ok']
    exact ucTail_due a s id i hst hsend hseq hdue

/-- a datagram from a connected address that decodes to anything but Disconnect / Payload / KeepAlive (e.g. a
    retransmitted Response) only steps that session's replay window -/
theorem pp_connected_other (a : AEAD) {s : NetcodeServer} {addr : Addr} {buf : Bytes} {i sq : Nat} {cn : Connection}
    {pk : Packet} {w' : RP} (hi : ServerInv s) (hg : s.globalSequence < U64_MAX) (hc : s.challengeSequence < U64_MAX)
    (hfa : findClientByAddr s.clients addr = some (i, cn))
    (hdec : Packet.decode a buf s.protocolId (some cn.receiveKey) (some cn.replayProtection) = (.ok (sq, pk), some w'))
    (h1 : pk.packetType ≠ .disconnect) (h2 : pk.packetType ≠ .payload) (h3 : pk.packetType ≠ .keepAlive) :
    s.processPacket a addr buf =
      .ok (.none, { s with clients := s.clients.set i (some { cn with replayProtection := w' }) }) := by
  obtain ⟨r, s', hpp, hout⟩ := pp_spec a hi hg hc addr buf
  cases hout with
  | short hs => exfalso; rw [decode_eq, if_pos hs] at hdec; cases hdec
  | connErr j cj e w'' hfa' hdec' => rw [hfa] at hfa'; cases hfa'; rw [hdec] at hdec'; cases hdec'
  | connDisconnect j cj sq' w'' hfa' hdec' =>
    rw [hfa] at hfa'; cases hfa'; rw [hdec] at hdec'; cases hdec'; exact absurd rfl h1
  | connPayload j cj sq' p w'' hfa' hdec' =>
    rw [hfa] at hfa'; cases hfa'; rw [hdec] at hdec'; cases hdec'; exact absurd rfl h2
  | connKeepAlive j cj sq' ci mc w'' hfa' hdec' =>
    rw [hfa] at hfa'; cases hfa'; rw [hdec] at hdec'; cases hdec'; exact absurd rfl h3
  | connOther j cj sq' pk' w'' hfa' hdec' _ _ _ =>
    rw [hfa] at hfa'; cases hfa'; rw [hdec] at hdec'; cases hdec'; exact hpp
  | pendErr p e w'' hfa' => rw [hfa] at hfa'; cases hfa'
  | pendRequest p sq' v pid expire xnonce data w'' R _ _ hfa' => rw [hfa] at hfa'; cases hfa'
  | pendOther p sq' pk' w'' hfa' => rw [hfa] at hfa'; cases hfa'
  | respRejected p sq' ts td w'' hfa' => rw [hfa] at hfa'; cases hfa'
  | respDropped p sq' ts td w'' hfa' => rw [hfa] at hfa'; cases hfa'
  | respFull p sq' ts td w'' out hfa' => rw [hfa] at hfa'; cases hfa'
  | respConnected p sq' ts td w'' j out hfa' => rw [hfa] at hfa'; cases hfa'
  | newErr e hfa' => rw [hfa] at hfa'; cases hfa'
  | newRequest sq' v pid expire xnonce data R _ _ hfa' => rw [hfa] at hfa'; cases hfa'

/-! ### B.2 client side -/

/-- How long a connecting client can still run: `T` more nanoseconds without the token's window closing, the
    server-silence time-out firing, or a `Duration` operation overflowing. -/
structure CBudget (c : NetcodeClient) (T : Nat) : Prop where
  clock : c.currentTime + T + fromSecs c.connectToken.timeoutSeconds.toNat ≤ DURATION_MAX
  start : c.connectStartTime ≤ c.currentTime
  recv : c.lastPacketReceivedTime ≤ c.currentTime
  window : asSecs (c.currentTime + T - c.connectStartTime) < tokenWindow c
  alive : c.connectToken.timeoutSeconds ≤ 0 ∨
    c.currentTime + T ≤ c.lastPacketReceivedTime + fromSecs c.connectToken.timeoutSeconds.toNat

theorem asSecs_mono {x y : Nat} (h : x ≤ y) : asSecs x ≤ asSecs y := Nat.div_le_div_right h

theorem CBudget.clockOK {c : NetcodeClient} {T d : Nat} (h : CBudget c T) (hd : d ≤ T) : ClockOK c d := by
  have h1 := h.clock; have h2 := h.start; have h3 := h.recv
  exact ⟨by omega, by omega, by omega⟩

theorem CBudget.inWindow {c : NetcodeClient} {T d : Nat} (h : CBudget c T) (hd : d ≤ T) :
    asSecs (c.currentTime + d - c.connectStartTime) < tokenWindow c :=
  Nat.lt_of_le_of_lt (asSecs_mono (by omega)) h.window

theorem CBudget.notTimedOut {c : NetcodeClient} {T d : Nat} (h : CBudget c T) (hd : d ≤ T) :
    ¬ CTimedOut c (c.currentTime + d) := by
  rintro ⟨h1, h2⟩
  rcases h.alive with h3 | h3 <;> omega

theorem CBudget.step {c c' : NetcodeClient} {T d : Nat} (h : CBudget c T) (hd : d ≤ T)
    (h1 : c'.currentTime = c.currentTime + d) (h2 : c'.connectToken = c.connectToken)
    (h3 : c'.connectStartTime = c.connectStartTime)
    (h4 : c'.lastPacketReceivedTime = c.lastPacketReceivedTime ∨ c'.lastPacketReceivedTime = c'.currentTime) :
    CBudget c' (T - d) := by
  have e1 := h.clock; have e2 := h.start; have e3 := h.recv; have e4 := h.window; have e5 := h.alive
  have hw : tokenWindow c' = tokenWindow c := by unfold tokenWindow; rw [h2]
  refine ⟨by rw [h1, h2]; omega, by rw [h1, h3]; omega, by rcases h4 with e | e <;> rw [e] <;> omega, ?_, ?_⟩
  · rw [hw, h1, h3]
    have : c.currentTime + d + (T - d) = c.currentTime + T := by omega
    rw [this]; exact e4
  · rw [h2, h1]
    rcases e5 with e | e
    · exact Or.inl e
    · right
      rcases h4 with e' | e' <;> rw [e'] <;> omega

/-- a connecting client within its budget: `update(d)` advances the clock and goes on to `generate_packet` -/
theorem update_continues (a : AEAD) {c : NetcodeClient} {T d : Nat} (hst : Connecting c) (h : CBudget c T) (hd : d ≤ T) :
    c.update a d = ({ c with currentTime := c.currentTime + d } : NetcodeClient).generatePacket a := by
  unfold NetcodeClient.update
  rw [client_connecting_continues hst (h.clockOK hd) (h.inWindow hd) (h.notTimedOut hd)]
  simp only [bind_ok']

/-- the send-rate gate is closed: nothing is sent -/
theorem generatePacket_closed (a : AEAD) {c : NetcodeClient} {tm : Nat} (hs : c.lastPacketSendTime = some tm)
    (hle : tm ≤ c.currentTime) (h : c.currentTime - tm < c.sendRate) : c.generatePacket a = .ok (none, c) := by
  unfold NetcodeClient.generatePacket
  simp only [hs, csub_ok _ hle, bind_ok', pure_eq', decide_eq_true h, if_true]

/-- the send-rate gate is open: an active client behaves as if it had not sent anything yet -/
theorem generatePacket_open (a : AEAD) {c : NetcodeClient} {tm : Nat} (hs : c.lastPacketSendTime = some tm)
    (hle : tm ≤ c.currentTime) (h : c.sendRate ≤ c.currentTime - tm) (hact : Connecting c) :
    c.generatePacket a = ({ c with lastPacketSendTime := none } : NetcodeClient).generatePacket a := by
  rcases c with ⟨st, f2, f3, ls, f5, f6, f7, f8, f9, f10, f11, f12, f13, f14, f15, f16⟩
  simp only at hs hle h
  subst hs
  unfold NetcodeClient.generatePacket
  simp only [csub_ok _ hle, bind_ok', pure_eq', decide_eq_false (Nat.not_lt.mpr h), Bool.false_eq_true, if_false]
  rcases hact with h1 | h1 <;> (simp only at h1; subst h1; rfl)

/-- the send-rate gate of `update(d)` is open: nothing was sent yet, or the last packet is at least `send_rate` old -/
def GateOpen (c : NetcodeClient) (d : Nat) : Prop :=
  ∀ tm, c.lastPacketSendTime = some tm → c.sendRate ≤ c.currentTime + d - tm

theorem gateOpen_of_none {c : NetcodeClient} {d : Nat} (h : c.lastPacketSendTime = none) : GateOpen c d := by
  intro tm e; rw [h] at e; cases e

theorem gateOpen_of_rate {c : NetcodeClient} {d : Nat} (h : c.sendRate ≤ d)
    (hle : ∀ tm, c.lastPacketSendTime = some tm → tm ≤ c.currentTime) : GateOpen c d := by
  intro tm e; have := hle tm e; omega

/-- the client after an `update(d)` that sent nothing / sent a packet -/
abbrev cliTick (c : NetcodeClient) (d : Nat) : NetcodeClient := { c with currentTime := c.currentTime + d }
abbrev cliSent (c : NetcodeClient) (d : Nat) : NetcodeClient :=
  { c with currentTime := c.currentTime + d, lastPacketSendTime := some (c.currentTime + d), sequence := c.sequence + 1 }

/-- **gate closed**: `update(d)` of a connecting client only advances its clock -/
theorem update_gate_closed (a : AEAD) {c : NetcodeClient} {T d : Nat} (hst : Connecting c) (hb : CBudget c T) (hd : d ≤ T)
    (hle : ∀ tm, c.lastPacketSendTime = some tm → tm ≤ c.currentTime) (hg : ¬ GateOpen c d) :
    c.update a d = .ok (none, cliTick c d) := by
  rw [update_continues a hst hb hd]
  unfold GateOpen at hg
  have : ∃ tm, c.lastPacketSendTime = some tm ∧ c.currentTime + d - tm < c.sendRate := by
    apply Classical.byContradiction
    intro hn
    apply hg
    intro tm e
    apply Classical.byContradiction
    intro hlt
    exact hn ⟨tm, e, by omega⟩
  obtain ⟨tm, e, hlt⟩ := this
  exact generatePacket_closed a (c := { c with currentTime := c.currentTime + d }) e (by have := hle tm e; simp only; omega) hlt

/-- **gate open, request phase**: `update(d)` emits the connection request (again) with a fresh sequence number -/
theorem update_sends_request (a : AEAD) (hl : a.Laws) {c : NetcodeClient} {s : NetcodeServer} {t : PrivateConnectToken}
    {expire : Nat} {xnonce : Bytes} {T d : Nat} (htok : TokenFor a s t expire xnonce c.connectToken) (hwf : PTokenWF t)
    (hxn : xnonce.length = 24) (hst : c.state = .sendingConnectionRequest) (hb : CBudget c T) (hd : d ≤ T)
    (hseq : c.sequence < U64_MAX) (hle : ∀ tm, c.lastPacketSendTime = some tm → tm ≤ c.currentTime)
    (hg : GateOpen c d) :
    c.update a d = .ok (some (requestBytes a s t expire xnonce, c.serverAddr), cliSent c d) := by
  rw [update_continues a (Or.inl hst) hb hd]
  rcases Option.eq_none_or_eq_some c.lastPacketSendTime with hls | ⟨tm, hls⟩
  · exact progress_send_request a hl (c := { c with currentTime := c.currentTime + d }) htok hwf hxn hst hls hseq
  · rw [generatePacket_open a (c := { c with currentTime := c.currentTime + d }) hls
      (by have := hle tm hls; simp only; omega) (hg tm hls) (Or.inl hst)]
    exact progress_send_request a hl (c := { c with currentTime := c.currentTime + d, lastPacketSendTime := none })
      htok hwf hxn hst rfl hseq

/-- **gate open, response phase**: `update(d)` emits the response (again) with a fresh sequence number -/
theorem update_sends_response (a : AEAD) (hl : a.Laws) {c : NetcodeClient} {T d : Nat}
    (hst : c.state = .sendingConnectionResponse) (htd : c.challengeTokenData.length = 300) (hb : CBudget c T)
    (hd : d ≤ T) (hseq : c.sequence < U64_MAX) (hle : ∀ tm, c.lastPacketSendTime = some tm → tm ≤ c.currentTime)
    (hg : GateOpen c d) :
    c.update a d = .ok (some (responseBytes a c, c.serverAddr), cliSent c d) := by
  rw [update_continues a (Or.inr hst) hb hd]
  rcases Option.eq_none_or_eq_some c.lastPacketSendTime with hls | ⟨tm, hls⟩
  · exact progress_send_response a hl (c := { c with currentTime := c.currentTime + d }) hst hls hseq htd
  · rw [generatePacket_open a (c := { c with currentTime := c.currentTime + d }) hls
      (by have := hle tm hls; simp only; omega) (hg tm hls) (Or.inr hst)]
    exact progress_send_response a hl (c := { c with currentTime := c.currentTime + d, lastPacketSendTime := none })
      hst rfl hseq htd

theorem rp_new_fresh (k : Nat) : RP.new.alreadyReceived k = false := by
  unfold RP.alreadyReceived
  have h1 : ¬ (k + 256 ≤ RP.alreadyReceived.U64 ∧ k + 256 ≤ RP.new.mostRecent) := by
    intro h; have := h.2; simp only [RP.new] at this; omega
  rw [if_neg h1]
  have h2 : RP.new.at k = Replay.EMPTY := by simp [RP.at, RP.new]
  rw [if_pos h2]

/-! ### B.3 rounds: both clocks advance, the client's datagram travels up, the server's answers travel down -/

/-- what the network does to the datagrams of one round: everything arrives; the client's datagram is lost (and with
    it everything else of the round); the client's datagram arrives but nothing the server sends does -/
inductive Fate where
  | delivered | upLost | downLost
  deriving DecidableEq, Repr

def resOpt {α : Type} : Res Empty α → Option α
  | .ok x => some x
  | _ => none

/-- the datagram (if any) a server result carries for `addr` -/
def answerTo (addr : Addr) : ServerResult → Option Bytes
  | .packetToSend ad p => if ad = addr then some p else none
  | .clientConnected _ ad _ p => if ad = addr then some p else none
  | _ => none

/-- hand a datagram (if any) to the client's `process_packet` -/
def deliver (a : AEAD) (o : Option Bytes) (c : NetcodeClient) : Option NetcodeClient :=
  match o with
  | none => some c
  | some p =>
    match c.processPacket a p with
    | .ok (_, c') => some c'
    | _ => none

/-- the way up: the client's datagram reaches the server (whose own address is `me`) unless it is lost or addressed
    to another server; the server sees it coming from `addr` -/
def up (a : AEAD) (addr me : Addr) (f : Fate) (out : Option (Bytes × Addr)) (s : NetcodeServer) :
    Option (ServerResult × NetcodeServer) :=
  match out with
  | none => some (.none, s)
  | some (dg, dst) => if f = .upLost ∨ dst ≠ me then some (.none, s) else resOpt (s.processPacket a addr dg)

/-- the way down: in a `delivered` round the client processes the answer to its datagram and the keep-alive of the
    server's tick -/
def down (a : AEAD) (addr : Addr) (f : Fate) (r r' : ServerResult) (c : NetcodeClient) : Option NetcodeClient :=
  if f = .delivered then (deliver a (answerTo addr r) c).bind (deliver a (answerTo addr r')) else some c

/-- **One round of `d` nanoseconds** between a client (seen by the server as `addr`, client id `id`) and the server
    listening on `me`: `server.update(d)`; `client.update(d)` (time-outs, failover, send-rate gate, at most one
    datagram); the datagram travels up (`up`); the server's per-client tick `update_client(id)` (time-out, keep-alive);
    the answers travel down (`down`).  `none` = some call unwound. -/
def round (a : AEAD) (addr me : Addr) (id : Nat) (f : Fate) (d : Nat) (w : NetcodeClient × NetcodeServer) :
    Option (NetcodeClient × NetcodeServer) :=
  match w.2.update d, w.1.update a d with
  | .ok s1, .ok (out, c1) =>
    match up a addr me f out s1 with
    | some (r, s2) =>
      match s2.updateClient a id with
      | .ok (r', s3) => (down a addr f r r' c1).map fun c3 => (c3, s3)
      | _ => none
    | none => none
  | _, _ => none

/-- a schedule of rounds -/
def runRounds (a : AEAD) (addr me : Addr) (id : Nat) :
    List (Fate × Nat) → NetcodeClient × NetcodeServer → Option (NetcodeClient × NetcodeServer)
  | [], w => some w
  | (f, d) :: rest, w => (round a addr me id f d w).bind (runRounds a addr me id rest)

/-- the duration of a schedule -/
def totalTime : List (Fate × Nat) → Nat
  | [] => 0
  | (_, d) :: rest => d + totalTime rest

theorem totalTime_append (l1 l2 : List (Fate × Nat)) : totalTime (l1 ++ l2) = totalTime l1 + totalTime l2 := by
  induction l1 with
  | nil => simp [totalTime]
  | cons x rest ih => obtain ⟨f, d⟩ := x; simp only [List.cons_append, totalTime, ih]; omega

theorem runRounds_append (a : AEAD) (addr me : Addr) (id : Nat) (l1 l2 : List (Fate × Nat))
    (w : NetcodeClient × NetcodeServer) :
    runRounds a addr me id (l1 ++ l2) w = (runRounds a addr me id l1 w).bind (runRounds a addr me id l2) := by
  induction l1 generalizing w with
  | nil => rfl
  | cons x rest ih =>
    obtain ⟨f, d⟩ := x
    simp only [List.cons_append, runRounds]
    cases round a addr me id f d w with
    | none => rfl
    | some w' => simp only [Option.bind_some, ih]

theorem round_intro {a : AEAD} {addr me : Addr} {id : Nat} {f : Fate} {d : Nat} {c c1 c3 : NetcodeClient}
    {s s1 s2 s3 : NetcodeServer} {out : Option (Bytes × Addr)} {r r' : ServerResult}
    (h1 : s.update d = .ok s1) (h2 : c.update a d = .ok (out, c1)) (h3 : up a addr me f out s1 = some (r, s2))
    (h4 : s2.updateClient a id = .ok (r', s3)) (h5 : down a addr f r r' c1 = some c3) :
    round a addr me id f d (c, s) = some (c3, s3) := by
  simp only [round, h1, h2, h3, h4, h5, Option.map_some]

theorem up_none (a : AEAD) (addr me : Addr) (f : Fate) (s : NetcodeServer) : up a addr me f none s = some (.none, s) := rfl

theorem up_lost (a : AEAD) (addr me : Addr) {f : Fate} {dg : Bytes} {dst : Addr} (s : NetcodeServer)
    (h : f = .upLost ∨ dst ≠ me) : up a addr me f (some (dg, dst)) s = some (.none, s) := by
  simp only [up, if_pos h]

theorem up_arrives (a : AEAD) (addr me : Addr) {f : Fate} {dg : Bytes} {s s' : NetcodeServer} {r : ServerResult}
    (hf : f ≠ .upLost) (h : s.processPacket a addr dg = .ok (r, s')) :
    up a addr me f (some (dg, me)) s = some (r, s') := by
  have : ¬ (f = .upLost ∨ me ≠ me) := by rintro (h | h); exact hf h; exact h rfl
  simp only [up, if_neg this, h, resOpt]

theorem down_lossy (a : AEAD) (addr : Addr) {f : Fate} (hf : f ≠ .delivered) (r r' : ServerResult) (c : NetcodeClient) :
    down a addr f r r' c = some c := by
  simp only [down, if_neg hf]

theorem down_nothing (a : AEAD) (addr : Addr) (f : Fate) {r r' : ServerResult} (c : NetcodeClient)
    (h1 : answerTo addr r = none) (h2 : answerTo addr r' = none) : down a addr f r r' c = some c := by
  unfold down
  split
  · simp only [h1, h2, deliver, Option.bind_some]
  · rfl

theorem down_first (a : AEAD) (addr : Addr) {r r' : ServerResult} {c c' : NetcodeClient} {p : Bytes} {o : Option Bytes}
    (h1 : answerTo addr r = some p) (h2 : answerTo addr r' = none) (h : c.processPacket a p = .ok (o, c')) :
    down a addr .delivered r r' c = some c' := by
  simp only [down, if_true, h1, h2, deliver, h, Option.bind_some]

theorem down_second (a : AEAD) (addr : Addr) {r r' : ServerResult} {c c' : NetcodeClient} {p : Bytes} {o : Option Bytes}
    (h1 : answerTo addr r = none) (h2 : answerTo addr r' = some p) (h : c.processPacket a p = .ok (o, c')) :
    down a addr .delivered r r' c = some c' := by
  simp only [down, if_true, h1, h2, deliver, h, Option.bind_some]

/-! ### B.4 the phases of a handshake

  Fixed: the AEAD, the server configuration `s0` (keys, protocol id, public addresses), the address `addr` the server
  sees the client at, the token (`t` sealed with `expire`, `xnonce`). -/

/-- what identifies the session the token `t`, presented from `addr`, leads to -/
def identT (addr : Addr) (expire : Nat) (t : PrivateConnectToken) : Ident := ident (mkPending 0 addr expire t)

/-- the static facts about token and configuration used by every step -/
structure TokOK (a : AEAD) (s0 : NetcodeServer) (t : PrivateConnectToken) (expire : Nat) (xnonce : Bytes) : Prop where
  laws : a.Laws
  wf : PTokenWF t
  xn : xnonce.length = 24
  exp : expire < 2 ^ 64
  pid : s0.protocolId < 2 ^ 64
  host : s0.secure = true → ∃ x, some x ∈ t.serverAddresses ∧ x ∈ s0.publicAddresses

/-- **the server is open for this client**: configuration unchanged, invariant, neither the address nor the id
    connected, fewer than the maximum *other* half-open sessions, the token not bound to another address, a slot free -/
structure SrvOpen (a : AEAD) (s0 : NetcodeServer) (addr : Addr) (t : PrivateConnectToken) (expire : Nat) (xnonce : Bytes)
    (s : NetcodeServer) : Prop where
  cfg : SameCfg s0 s
  inv : ServerInv s
  addrFree : findClientByAddr s.clients addr = none
  idFree : findClientById s.clients t.clientId = none
  room : (pendingRemove s.pendingClients addr).length < C.NETCODE_MAX_PENDING_CLIENTS
  bound : Bound s addr (tokenMac (sealedPriv a s0 t expire xnonce))
  cap : countConnected s.clients < s.maxClients

section Srv
variable {a : AEAD} {s0 : NetcodeServer} {addr : Addr} {t : PrivateConnectToken} {expire : Nat} {xnonce : Bytes}

/-- `update(d)` keeps the server open -/
theorem SrvOpen.tick {s : NetcodeServer} (h : SrvOpen a s0 addr t expire xnonce s) {d : Nat}
    (hd : s.currentTime + d ≤ DURATION_MAX) : SrvOpen a s0 addr t expire xnonce (srvTick s d) :=
  ⟨⟨h.cfg.1, h.cfg.2, h.cfg.3, h.cfg.4, h.cfg.5, h.cfg.6⟩, update_inv h.inv (server_update_eq hd), h.addrFree, h.idFree,
    Nat.lt_of_le_of_lt (pendingRemove_filter _ _ _) h.room, fun e he => h.bound e he, h.cap⟩

/-- … and a half-open session whose token has not expired -/
theorem pending_survives_tick {s : NetcodeServer} {ad : Addr} {p : Connection} {d : Nat}
    (hpf : pendingFind s.pendingClients ad = some p) (he : asSecs (s.currentTime + d) ≤ p.expireTimestamp) :
    pendingFind (srvTick s d).pendingClients ad = some p := by
  apply pendingFind_filter_some hpf
  simp only [Bool.not_eq_true', decide_eq_false_iff_not]
  omega

/-- the per-client tick does nothing while the id is not connected -/
theorem SrvOpen.idle {s : NetcodeServer} (h : SrvOpen a s0 addr t expire xnonce s) :
    s.updateClient a t.clientId = .ok (.none, s) := updateClient_absent a (findSlot_none.mpr h.idFree)

/-- a request (first, retransmitted or duplicated) is answered with a challenge; the server stays open and holds the
    half-open session of the token, stamped `now` -/
theorem SrvOpen.request (hT : TokOK a s0 t expire xnonce) {s : NetcodeServer} (h : SrvOpen a s0 addr t expire xnonce s)
    (hg : s.globalSequence < U64_MAX) (hc : s.challengeSequence < U64_MAX) (hnow : asSecs s.currentTime < expire) :
    ∃ s', s.processPacket a addr (requestBytes a s0 t expire xnonce) =
        .ok (.packetToSend addr (challengeBytes a s t), s') ∧
      SrvOpen a s0 addr t expire xnonce s' ∧
      pendingFind s'.pendingClients addr = some (mkPending s.currentTime addr expire t) ∧
      s'.challengeSequence = s.challengeSequence + 1 ∧ s'.globalSequence = s.globalSequence + 1 ∧
      s'.currentTime = s.currentTime := by
  have e1 := sealedPriv_cfg a h.cfg t expire xnonce
  obtain ⟨s', h1, h2, h3, h4, h5, h6, h7, h8, h9, h10⟩ := request_challenged a hT.laws (s := s) (addr := addr) (t := t)
    (expire := expire) (xnonce := xnonce) h.inv hg hc hT.wf hT.xn hT.exp (by rw [h.cfg.protocolId]; exact hT.pid) hnow
    (by rw [h.cfg.secure, h.cfg.publicAddresses]; exact hT.host) h.addrFree h.idFree h.room
    (by rw [e1]; exact h.bound) h.cap
  rw [requestBytes_cfg a h.cfg] at h1
  refine ⟨s', h1, ⟨h.cfg.trans h7, h10, by rw [h4]; exact h.addrFree, by rw [h4]; exact h.idFree, by rw [h3]; exact h.room,
    by rw [← e1]; exact h9, by rw [h4, h7.maxClients]; exact h.cap⟩, h2, h5, h6, h8⟩

end Srv

end RenetVerif.NcLive2
