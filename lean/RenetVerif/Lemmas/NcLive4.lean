/-
  Netcode liveness in general position (helper lemmas for Props/C18V.lean):
  Part A — the client walks through the server list of its token: any number of silent servers, each given up at the
           first `update` after the token's time-out, then a server that answers (or none: the client ends
           `Disconnected`);
  Part B — the handshake while the server also serves others: between any two steps of a round the server processes
           an arbitrary list of operations that do not concern this client (frame lemma `step_frame`);
  Part C — duplicated / late datagrams of the handshake are harmless.
-/
import RenetVerif.Lemmas.NcLive2
namespace RenetVerif.NcLive4
open RenetVerif RenetVerif.Netcode RenetVerif.Netcode.NS RenetVerif.NcLive2
open RenetVerif.NcAead.Token

/-! ## Part A : walking through the server list -/

/-- the client's silence time-out (the token's `timeout_seconds`) in nanoseconds -/
abbrev tmo (c : NetcodeClient) : Nat := fromSecs c.connectToken.timeoutSeconds.toNat

/-- One attempt at a server that stays silent: the rounds `seg` (any fates, any lengths) in which the time-out does not
    fire yet, then the round `(f, d)` in whose `update(d)` it fires and the client moves on to the address `next`. -/
structure Attempt where
  seg : List (Fate × Nat)
  f : Fate
  d : Nat
  next : Addr

/-- the schedule of a list of attempts -/
def walkSched : List Attempt → List (Fate × Nat)
  | [] => []
  | x :: rest => x.seg ++ (x.f, x.d) :: walkSched rest

theorem walkSched_append (l1 l2 : List Attempt) : walkSched (l1 ++ l2) = walkSched l1 ++ walkSched l2 := by
  induction l1 with
  | nil => rfl
  | cons x rest ih => simp only [List.cons_append, walkSched, ih, List.append_assoc]

theorem walkSched_length_cons (x : Attempt) (rest : List Attempt) :
    (walkSched (x :: rest)).length = x.seg.length + 1 + (walkSched rest).length := by
  simp only [walkSched, List.length_append, List.length_cons]; omega

theorem totalTime_walk_cons (x : Attempt) (rest : List Attempt) :
    totalTime (walkSched (x :: rest)) = totalTime x.seg + x.d + totalTime (walkSched rest) := by
  simp only [walkSched, totalTime_append, totalTime]; omega

/-- the addresses the walk moves to are the next entries of the token's server list, from index `i` on -/
def Listed (addrs : List (Option Addr)) : Nat → List Addr → Prop
  | _, [] => True
  | i, n :: ns => addrs[i]? = some (some n) ∧ Listed addrs (i + 1) ns

instance (addrs : List (Option Addr)) : ∀ (i : Nat) (l : List Addr), Decidable (Listed addrs i l)
  | _, [] => isTrue trivial
  | i, n :: ns =>
    have := instDecidableListed addrs (i + 1) ns
    by unfold Listed; infer_instance

theorem listed_append {addrs : List (Option Addr)} : ∀ {i : Nat} {l1 l2 : List Addr},
    Listed addrs i (l1 ++ l2) ↔ Listed addrs i l1 ∧ Listed addrs (i + l1.length) l2
  | i, [], l2 => by simp [Listed]
  | i, n :: ns, l2 => by
    simp only [List.cons_append, Listed, List.length_cons, listed_append (i := i + 1) (l1 := ns) (l2 := l2), and_assoc]
    have : i + 1 + ns.length = i + (ns.length + 1) := by omega
    rw [this]

/-- the address the client talks to after moving through `l`, starting at `d` -/
def lastAddr : Addr → List Addr → Addr
  | d, [] => d
  | _, n :: ns => lastAddr n ns

theorem lastAddr_append (d : Addr) (l : List Addr) (n : Addr) : lastAddr d (l ++ [n]) = n := by
  induction l generalizing d with
  | nil => rfl
  | cons x rest ih => exact ih x

/-- the timing of an attempt, for a client in state `c` at its beginning: the time-out does not fire during `seg`,
    fires in the round `d`, and the token's window (counted from the start of the attempt) is still open then -/
structure AttOK (c : NetcodeClient) (x : Attempt) : Prop where
  quiet : c.currentTime + totalTime x.seg ≤ c.lastPacketReceivedTime + tmo c
  fires : c.lastPacketReceivedTime + tmo c < c.currentTime + totalTime x.seg + x.d
  window : asSecs (c.currentTime + totalTime x.seg + x.d - c.connectStartTime) < tokenWindow c

/-- … for an attempt that begins with a fail-over (all timers of the client equal its clock): with `τ` the time-out and
    `W` the token's window in seconds, `seg` lasts at most `τ`, `seg` and `d` together more than `τ`, less than `W` s -/
structure AttOK' (τ W : Nat) (x : Attempt) : Prop where
  quiet : totalTime x.seg ≤ τ
  fires : τ < totalTime x.seg + x.d
  window : asSecs (totalTime x.seg + x.d) < W

instance (τ W : Nat) (x : Attempt) : Decidable (AttOK' τ W x) :=
  decidable_of_iff (totalTime x.seg ≤ τ ∧ τ < totalTime x.seg + x.d ∧ asSecs (totalTime x.seg + x.d) < W)
    ⟨fun h => ⟨h.1, h.2.1, h.2.2⟩, fun h => ⟨h.1, h.2, h.3⟩⟩

instance (c : NetcodeClient) (x : Attempt) : Decidable (AttOK c x) :=
  decidable_of_iff (c.currentTime + totalTime x.seg ≤ c.lastPacketReceivedTime + tmo c ∧
      c.lastPacketReceivedTime + tmo c < c.currentTime + totalTime x.seg + x.d ∧
      asSecs (c.currentTime + totalTime x.seg + x.d - c.connectStartTime) < tokenWindow c)
    ⟨fun h => ⟨h.1, h.2.1, h.2.2⟩, fun h => ⟨h.1, h.2, h.3⟩⟩

/-- the timing of a whole walk: the first attempt is measured from the client's current timers, every later one from
    the fail-over that begins it -/
def WalkOK (c : NetcodeClient) : List Attempt → Prop
  | [] => True
  | x :: rest => AttOK c x ∧ ∀ y ∈ rest, AttOK' (tmo c) (tokenWindow c) y

instance (c : NetcodeClient) : ∀ (atts : List Attempt), Decidable (WalkOK c atts)
  | [] => isTrue trivial
  | x :: rest => by unfold WalkOK; infer_instance

theorem attOK_of_fresh {c : NetcodeClient} {x : Attempt} {τ W : Nat} (h : AttOK' τ W x) (hτ : tmo c = τ)
    (hW : tokenWindow c = W) (h1 : c.connectStartTime = c.currentTime) (h2 : c.lastPacketReceivedTime = c.currentTime) :
    AttOK c x := by
  obtain ⟨e1, e2, e3⟩ := h
  refine ⟨by rw [h2, hτ]; omega, by rw [h2, hτ]; omega, ?_⟩
  rw [h1, hW]
  have : c.currentTime + totalTime x.seg + x.d - c.currentTime = totalTime x.seg + x.d := by omega
  rw [this]; exact e3

/-- what a stretch of `T` ns in which nothing reaches the server does to it: the clock moves (half-open sessions may
    expire), nothing else -/
structure Aged (s s' : NetcodeServer) (T : Nat) : Prop where
  time : s'.currentTime = s.currentTime + T
  clients : s'.clients = s.clients
  gseq : s'.globalSequence = s.globalSequence
  chseq : s'.challengeSequence = s.challengeSequence

theorem Aged.refl (s : NetcodeServer) : Aged s s 0 := ⟨rfl, rfl, rfl, rfl⟩
theorem Aged.trans {s1 s2 s3 : NetcodeServer} {T1 T2 : Nat} (h1 : Aged s1 s2 T1) (h2 : Aged s2 s3 T2) :
    Aged s1 s3 (T1 + T2) :=
  ⟨by rw [h2.time, h1.time]; omega, h2.clients.trans h1.clients, h2.gseq.trans h1.gseq, h2.chseq.trans h1.chseq⟩
theorem aged_tick (s : NetcodeServer) (d : Nat) : Aged s (srvTick s d) d := ⟨rfl, rfl, rfl, rfl⟩

section Walk
variable {a : AEAD} {s0 : NetcodeServer} {addr me : Addr} {t : PrivateConnectToken} {expire : Nat} {xnonce : Bytes}

/-- **a round towards a silent server, no time-out yet**: the client (re)sends its request when the send-rate gate is
    open, the datagram goes to an address that is not this server's; the server only ticks.  (`id`: the id whose
    per-client tick the round performs — it is not connected.) -/
theorem silent_round (hT : TokOK a s0 t expire xnonce) {c : NetcodeClient} {s : NetcodeServer} {id T d : Nat} {f : Fate}
    (hc : CliReq a s0 t expire xnonce c) (hcb : CBudget c T) (hd : d ≤ T) (hseq : c.sequence < U64_MAX)
    (hne : c.serverAddr ≠ me) (hid : findClientById s.clients id = none) (hclk : s.currentTime + d ≤ DURATION_MAX) :
    ∃ c', round a addr me id f d (c, s) = some (c', srvTick s d) ∧ CliReq a s0 t expire xnonce c' ∧ CliSame c c' ∧
      c'.currentTime = c.currentTime + d ∧ c'.sequence ≤ c.sequence + 1 ∧ CBudget c' (T - d) := by
  have hsu := server_update_eq hclk
  have hidle : (srvTick s d).updateClient a id = .ok (.none, srvTick s d) :=
    updateClient_absent a (findSlot_none.mpr hid)
  by_cases hg : GateOpen c d
  · have hcu := update_sends_request a hT.laws hc.tok hT.wf hT.xn hc.st hcb hd hseq hc.sendLe hg
    refine ⟨cliSent c d, round_intro hsu hcu (up_lost a addr me _ (Or.inr hne)) hidle (down_nothing a addr f _ rfl rfl),
      ⟨hc.st, hc.tok, ?_, hc.rp⟩, ⟨rfl, rfl, rfl, rfl, rfl, rfl, rfl, Nat.le_succ _⟩, rfl, Nat.le_refl _,
      hcb.step hd rfl rfl rfl (Or.inl rfl)⟩
    intro tm e
    simp only [Option.some.injEq] at e
    subst e; exact Nat.le_refl _
  · have hcu := update_gate_closed a (Or.inl hc.st) hcb hd hc.sendLe hg
    exact ⟨cliTick c d, round_intro hsu hcu (up_none a addr me f _) hidle (down_nothing a addr f _ rfl rfl),
      ⟨hc.st, hc.tok, fun tm e => Nat.le_trans (hc.sendLe tm e) (Nat.le_add_right _ _), hc.rp⟩,
      ⟨rfl, rfl, rfl, rfl, rfl, rfl, rfl, Nat.le_refl _⟩, rfl, Nat.le_succ _, hcb.step hd rfl rfl rfl (Or.inl rfl)⟩

/-- **any number of rounds towards a silent server, no time-out yet** -/
theorem silent_run (hT : TokOK a s0 t expire xnonce) {id : Nat} : ∀ (sched : List (Fate × Nat)) {c : NetcodeClient}
    {s : NetcodeServer} {T : Nat}, CliReq a s0 t expire xnonce c → CBudget c T → totalTime sched ≤ T →
    c.sequence + sched.length < U64_MAX + 1 → c.serverAddr ≠ me → findClientById s.clients id = none →
    s.currentTime + totalTime sched ≤ DURATION_MAX →
    ∃ c' s', runRounds a addr me id sched (c, s) = some (c', s') ∧ CliReq a s0 t expire xnonce c' ∧ CliSame c c' ∧
      c'.currentTime = c.currentTime + totalTime sched ∧ c'.sequence ≤ c.sequence + sched.length ∧
      CBudget c' (T - totalTime sched) ∧ Aged s s' (totalTime sched) ∧
      (SrvOpen a s0 addr t expire xnonce s → SrvOpen a s0 addr t expire xnonce s')
  | [], c, s, T, hc, hcb, _, _, _, _, _ =>
    ⟨c, s, rfl, hc, CliSame.refl c, rfl, Nat.le_refl _, hcb, Aged.refl s, fun h => h⟩
  | (f, d) :: rest, c, s, T, hc, hcb, ht, hseq, hne, hid, hclk => by
    simp only [totalTime, List.length_cons] at ht hseq hclk ⊢
    obtain ⟨c1, hr, hc1, hsame1, ht1, hsq1, hcb1⟩ := silent_round (addr := addr) (me := me) (f := f) (d := d) hT hc hcb
      (by omega) (by omega) hne hid (by omega)
    obtain ⟨c2, s2, hr2, hc2, hsame2, ht2, hsq2, hcb2, hag, hopen⟩ := silent_run hT rest hc1 hcb1 (by omega)
      (by omega) (by rw [hsame1.srv]; exact hne) (show findClientById (srvTick s d).clients id = none from hid)
      (by show s.currentTime + d + _ ≤ _; omega)
    refine ⟨c2, s2, by simp only [runRounds, hr, Option.bind_some, hr2], hc2, hsame1.trans hsame2,
      by rw [ht2, ht1]; omega, by omega, ?_, (aged_tick s d).trans hag,
      fun h => hopen (h.tick (by omega))⟩
    have : T - d - totalTime rest = T - (d + totalTime rest) := by omega
    rw [← this]; exact hcb2

theorem cliReq_failedOver {c : NetcodeClient} (hc : CliReq a s0 t expire xnonce c) (d : Nat) (next : Addr) :
    CliReq a s0 t expire xnonce (failedOver c d next) :=
  ⟨rfl, hc.tok, fun tm e => by simp only [Option.some.injEq] at e; subst e; exact Nat.le_refl _, hc.rp⟩

/-- the budget of an attempt's quiet part -/
theorem AttOK.budget {c : NetcodeClient} {x : Attempt} (h : AttOK c x) (h1 : c.connectStartTime ≤ c.currentTime)
    (h2 : c.lastPacketReceivedTime ≤ c.currentTime)
    (hclk : c.currentTime + totalTime x.seg + x.d + tmo c ≤ DURATION_MAX) : CBudget c (totalTime x.seg) := by
  have e := h.quiet
  simp only [tmo] at hclk e
  exact ⟨by omega, h1, h2, Nat.lt_of_le_of_lt (asSecs_mono (by omega)) h.window, Or.inr e⟩

/-- the fail-over of attempt `x` — what the headline theorems say about every attempt of a walk.  From the world `w`,
    the schedule `before` followed by the quiet rounds `x.seg` leads to a client `cb` still asking the address
    `from` (index `idx` of the token's list); its next `update(x.d)` is the one in which the time-out fires: it emits
    the connection request, addressed to `x.next`, and leaves the client in the state `failedOver cb x.d x.next`
    (index + 1, timers re-armed to the new clock value, fresh sequence number); the round leaves the server alone. -/
def FailoverStep (a : AEAD) (s0 : NetcodeServer) (addr me : Addr) (t : PrivateConnectToken) (expire : Nat)
    (xnonce : Bytes) (id : Nat) (w : NetcodeClient × NetcodeServer) (before : List (Fate × Nat)) (x : Attempt)
    (idx : Nat) (from_ : Addr) : Prop :=
  ∃ cb sb, runRounds a addr me id (before ++ x.seg) w = some (cb, sb) ∧ cb.state = .sendingConnectionRequest ∧
    cb.serverAddrIndex = idx ∧ cb.serverAddr = from_ ∧
    cb.currentTime = w.1.currentTime + totalTime before + totalTime x.seg ∧
    cb.update a x.d = .ok (some (requestBytes a s0 t expire xnonce, x.next), failedOver cb x.d x.next) ∧
    round a addr me id x.f x.d (cb, sb) = some (failedOver cb x.d x.next, srvTick sb x.d)

/-- **one silent attempt**: quiet rounds, then the round in which the time-out fires; the request goes to the next
    listed address, which is not this server's either (or the datagram is lost) -/
theorem attempt_fails_over (hT : TokOK a s0 t expire xnonce) {id : Nat} {c : NetcodeClient} {s : NetcodeServer}
    {x : Attempt} (hc : CliReq a s0 t expire xnonce c) (hpos : c.connectToken.timeoutSeconds > 0)
    (h1 : c.connectStartTime ≤ c.currentTime) (h2 : c.lastPacketReceivedTime ≤ c.currentTime) (hx : AttOK c x)
    (hclk : c.currentTime + totalTime x.seg + x.d + tmo c ≤ DURATION_MAX)
    (hseq : c.sequence + x.seg.length < U64_MAX) (hne : c.serverAddr ≠ me)
    (hnext : c.connectToken.serverAddresses[c.serverAddrIndex + 1]? = some (some x.next))
    (hidx : c.serverAddrIndex + 1 < C.NETCODE_TOKEN_MAX_ADDRESSES) (hsil : x.f = .upLost ∨ x.next ≠ me)
    (hid : findClientById s.clients id = none) (hsclk : s.currentTime + totalTime x.seg + x.d ≤ DURATION_MAX) :
    ∃ cb sb, runRounds a addr me id x.seg (c, s) = some (cb, sb) ∧ CliReq a s0 t expire xnonce cb ∧ CliSame c cb ∧
      cb.currentTime = c.currentTime + totalTime x.seg ∧ cb.sequence ≤ c.sequence + x.seg.length ∧
      cb.update a x.d = .ok (some (requestBytes a s0 t expire xnonce, x.next), failedOver cb x.d x.next) ∧
      round a addr me id x.f x.d (cb, sb) = some (failedOver cb x.d x.next, srvTick sb x.d) ∧
      Aged s sb (totalTime x.seg) ∧
      (SrvOpen a s0 addr t expire xnonce s → SrvOpen a s0 addr t expire xnonce sb) := by
  obtain ⟨cb, sb, hrun, hcb, hsame, htm, hsq, _, hag, hopen⟩ := silent_run (addr := addr) (me := me) (id := id) hT x.seg hc
    (hx.budget h1 h2 hclk) (Nat.le_refl _) (by omega) hne hid (by omega)
  have e1 := hx.quiet; have e2 := hx.fires; have e3 := hx.window
  have hτ : tmo cb = tmo c := by unfold tmo; rw [hsame.tok]
  have hok : ClockOK cb x.d := ⟨by rw [htm]; omega, by rw [hsame.start, htm]; omega, by
    have : cb.lastPacketReceivedTime + tmo cb ≤ DURATION_MAX := by rw [hsame.recv, hτ]; omega
    exact this⟩
  have hwin : asSecs (cb.currentTime + x.d - cb.connectStartTime) < tokenWindow cb := by
    have : tokenWindow cb = tokenWindow c := by unfold tokenWindow; rw [hsame.tok]
    rw [this, htm, hsame.start]; exact e3
  have hto : CTimedOut cb (cb.currentTime + x.d) := by
    refine ⟨by rw [hsame.tok]; exact hpos, ?_⟩
    have : cb.lastPacketReceivedTime + tmo cb < cb.currentTime + x.d := by rw [hsame.recv, hτ, htm]; exact e2
    exact this
  have hcu := update_failover a hT.laws (Or.inl hcb.st) hok hwin hto (by rw [hsame.tok, hsame.idx]; exact hnext)
    (by rw [hsame.idx]; exact hidx) hcb.tok hT.wf hT.xn (by omega)
  have hsu : sb.update x.d = .ok (srvTick sb x.d) := server_update_eq (by rw [hag.time]; omega)
  have hidle : (srvTick sb x.d).updateClient a id = .ok (.none, srvTick sb x.d) :=
    updateClient_absent a (findSlot_none.mpr (by show findClientById sb.clients id = none; rw [hag.clients]; exact hid))
  exact ⟨cb, sb, hrun, hcb, hsame, htm, hsq, hcu,
    round_intro hsu hcu (up_lost a addr me _ hsil) hidle (down_nothing a addr x.f _ rfl rfl), hag, hopen⟩

/-- what a walk through `n` silent servers (`k` rounds, `T` ns) leaves of the client -/
structure Walked (c : NetcodeClient) (nexts : List Addr) (k T : Nat) (c' : NetcodeClient) : Prop where
  tok : c'.connectToken = c.connectToken
  rate : c'.sendRate = c.sendRate
  idx : c'.serverAddrIndex = c.serverAddrIndex + nexts.length
  srv : c'.serverAddr = lastAddr c.serverAddr nexts
  time : c'.currentTime = c.currentTime + T
  seq : c'.sequence ≤ c.sequence + k
  start : c'.connectStartTime ≤ c'.currentTime
  recv : c'.lastPacketReceivedTime ≤ c'.currentTime
  /-- after at least one fail-over all timers are those of the last fail-over: the end of the schedule -/
  fresh : nexts ≠ [] → c'.connectStartTime = c'.currentTime ∧ c'.lastPacketReceivedTime = c'.currentTime ∧
    c'.lastPacketSendTime = some c'.currentTime
  same : nexts = [] → c' = c

/-- **the walk through any number of silent servers** (induction over the attempts).  Every attempt ends with the
    fail-over described by `FailoverStep`; at the end the client is asking the last address of the walk. -/
theorem walk_silent (hT : TokOK a s0 t expire xnonce) {id : Nat} : ∀ (atts : List Attempt) {c : NetcodeClient}
    {s : NetcodeServer}, CliReq a s0 t expire xnonce c → c.connectToken.timeoutSeconds > 0 →
    c.connectStartTime ≤ c.currentTime → c.lastPacketReceivedTime ≤ c.currentTime → WalkOK c atts →
    c.currentTime + totalTime (walkSched atts) + tmo c ≤ DURATION_MAX →
    c.sequence + (walkSched atts).length < U64_MAX + 1 → c.serverAddr ≠ me →
    Listed c.connectToken.serverAddresses (c.serverAddrIndex + 1) (atts.map (·.next)) →
    c.serverAddrIndex + atts.length < C.NETCODE_TOKEN_MAX_ADDRESSES → (∀ x ∈ atts, x.f = .upLost ∨ x.next ≠ me) →
    (∀ x ∈ atts, x.next ≠ me) →
    findClientById s.clients id = none → s.currentTime + totalTime (walkSched atts) ≤ DURATION_MAX →
    ∃ c' s', runRounds a addr me id (walkSched atts) (c, s) = some (c', s') ∧ CliReq a s0 t expire xnonce c' ∧
      Walked c (atts.map (·.next)) (walkSched atts).length (totalTime (walkSched atts)) c' ∧
      Aged s s' (totalTime (walkSched atts)) ∧
      (SrvOpen a s0 addr t expire xnonce s → SrvOpen a s0 addr t expire xnonce s') ∧
      ∀ pre x post, atts = pre ++ x :: post →
        FailoverStep a s0 addr me t expire xnonce id (c, s) (walkSched pre) x (c.serverAddrIndex + pre.length)
          (lastAddr c.serverAddr (pre.map (·.next)))
  | [], c, s, hc, _, h1, h2, _, _, _, _, _, _, _, _, _, _ =>
    ⟨c, s, rfl, hc, ⟨rfl, rfl, rfl, rfl, rfl, Nat.le_refl _, h1, h2, fun h => absurd rfl h, fun _ => rfl⟩, Aged.refl s,
      fun h => h,
      fun pre x post e => by cases pre <;> cases e⟩
  | x :: rest, c, s, hc, hpos, h1, h2, hw, hclk, hseq, hne, hl, hidx, hsil, hnme, hid, hsclk => by
    obtain ⟨hx, hrest⟩ := hw
    rw [totalTime_walk_cons] at hclk hsclk
    rw [walkSched_length_cons] at hseq
    simp only [List.map_cons, Listed] at hl
    simp only [List.length_cons] at hidx
    obtain ⟨hnext, hl'⟩ := hl
    obtain ⟨cb, sb, hrun, hcb, hsame, htm, hsq, hcu, hround, hag, hopen⟩ := attempt_fails_over (addr := addr) (me := me)
      (id := id) hT hc hpos h1 h2 hx (by omega) (by omega) hne hnext (by omega) (hsil x (by simp)) hid (by omega)
    -- the client after the fail-over
    have hc1 := cliReq_failedOver hcb x.d x.next
    have hτ : tmo (failedOver cb x.d x.next) = tmo c := by unfold tmo; rw [← hsame.tok]
    have hW : tokenWindow (failedOver cb x.d x.next) = tokenWindow c := by unfold tokenWindow; rw [← hsame.tok]
    have hw1 : WalkOK (failedOver cb x.d x.next) rest := by
      cases rest with
      | nil => trivial
      | cons y ys =>
        refine ⟨attOK_of_fresh (hrest y (by simp)) hτ hW rfl rfl, fun z hz => ?_⟩
        rw [hτ, hW]; exact hrest z (by simp [hz])
    obtain ⟨c2, s2, hrun2, hc2, hwalk2, hag2, hopen2, hsteps2⟩ := walk_silent hT rest (c := failedOver cb x.d x.next)
      (s := srvTick sb x.d) hc1 (by show cb.connectToken.timeoutSeconds > 0; rw [hsame.tok]; exact hpos)
      (Nat.le_refl _) (Nat.le_refl _) hw1
      (by rw [hτ]; show cb.currentTime + x.d + _ + _ ≤ _; rw [htm]; omega)
      (by show cb.sequence + 1 + _ < _; omega) (hnme x (by simp))
      (by show Listed cb.connectToken.serverAddresses (cb.serverAddrIndex + 1 + 1) _
          rw [hsame.tok, hsame.idx]; exact hl')
      (by show cb.serverAddrIndex + 1 + rest.length < _; rw [hsame.idx]; omega)
      (fun y hy => hsil y (by simp [hy])) (fun y hy => hnme y (by simp [hy]))
      (by show findClientById sb.clients id = none; rw [hag.clients]; exact hid)
      (by show sb.currentTime + x.d + _ ≤ _; rw [hag.time]; omega)
    have hrunAll : runRounds a addr me id (walkSched (x :: rest)) (c, s) = some (c2, s2) := by
      simp only [walkSched, runRounds_append, hrun, Option.bind_some, runRounds, hround, hrun2]
    refine ⟨c2, s2, hrunAll, hc2, ?_, ?_, fun h => hopen2 ((hopen h).tick (by rw [hag.time]; omega)), ?_⟩
    · obtain ⟨w1, w2, w3, w4, w5, w6, w7, w8, w9, _⟩ := hwalk2
      refine ⟨w1.trans hsame.tok, w2.trans hsame.rate, ?_, w4, ?_, ?_, w7, w8, ?_, fun h => by simp at h⟩
      · rw [w3]; show cb.serverAddrIndex + 1 + _ = _; rw [hsame.idx]
        simp only [List.map_cons, List.length_cons, List.length_map]; omega
      · rw [w5, totalTime_walk_cons]; show cb.currentTime + x.d + _ = _; rw [htm]; omega
      · rw [walkSched_length_cons]
        have : (failedOver cb x.d x.next).sequence = cb.sequence + 1 := rfl
        omega
      · intro _
        cases rest with
        | nil =>
          simp only [walkSched, runRounds, Option.some.injEq, Prod.mk.injEq] at hrun2
          rw [← hrun2.1]; exact ⟨rfl, rfl, rfl⟩
        | cons y ys => exact w9 (by simp)
    · have := ((hag.trans (aged_tick sb x.d)).trans hag2)
      rw [totalTime_walk_cons]
      exact this
    · intro pre y post e
      cases pre with
      | nil =>
        simp only [List.nil_append, List.cons.injEq] at e
        obtain ⟨rfl, _⟩ := e
        exact ⟨cb, sb, by simpa [walkSched] using hrun, hcb.st, by rw [hsame.idx]; rfl, hsame.srv,
          by simp only [walkSched, totalTime]; rw [htm]; omega, hcu, hround⟩
      | cons p pre' =>
        simp only [List.cons_append, List.cons.injEq] at e
        obtain ⟨rfl, e'⟩ := e
        obtain ⟨cb', sb', k1, k2, k3, k4, k5, k6, k7⟩ := hsteps2 pre' y post e'
        refine ⟨cb', sb', ?_, k2, ?_, ?_, ?_, k6, k7⟩
        · simp only [walkSched, List.append_assoc, List.cons_append, runRounds_append, hrun, Option.bind_some, runRounds,
            hround]
          rw [← runRounds_append]; exact k1
        · rw [k3]; show cb.serverAddrIndex + 1 + _ = _; rw [hsame.idx]; simp only [List.length_cons]; omega
        · rw [k4]; rfl
        · rw [k5, totalTime_walk_cons]
          show cb.currentTime + x.d + _ + _ = c.currentTime + _ + _
          rw [htm]; omega

/-! ### the end of the walk -/

theorem walkOK_init {c : NetcodeClient} : ∀ {atts : List Attempt} {last : Attempt}, WalkOK c (atts ++ [last]) →
    WalkOK c atts
  | [], _, _ => trivial
  | x :: rest, last, h => ⟨h.1, fun y hy => h.2 y (by simp [hy])⟩

theorem walkOK_last {c c' : NetcodeClient} {atts : List Attempt} {last : Attempt} {k T : Nat}
    (h : WalkOK c (atts ++ [last])) (hw : Walked c (atts.map (·.next)) k T c') : AttOK c' last := by
  cases atts with
  | nil =>
    have := hw.same rfl
    subst this
    exact h.1
  | cons x rest =>
    obtain ⟨f1, f2, f3⟩ := hw.fresh (by simp)
    exact attOK_of_fresh (h.2 last (by simp)) (by unfold tmo; rw [hw.tok]) (by unfold tokenWindow; rw [hw.tok]) f1 f2

/-- `process_packet` of the client never touches the index into the server list -/
theorem processPacket_idx {a : AEAD} {c c' : NetcodeClient} {buf : Bytes} {o : Option Bytes}
    (h : c.processPacket a buf = .ok (o, c')) : c'.serverAddrIndex = c.serverAddrIndex := by
  unfold NetcodeClient.processPacket at h
  cases hdec : Packet.decode a buf c.connectToken.protocolId (some c.connectToken.serverToClientKey)
      (some c.replayProtection) with
  | mk res rp =>
    rw [hdec] at h
    simp only at h
    cases res with
    | panic m => cases h
    | err e => simp only [Res.ok.injEq, Prod.mk.injEq] at h; rw [← h.2]
    | ok sp =>
      obtain ⟨sq, pk⟩ := sp
      simp only at h
      split at h <;> simp only [Res.ok.injEq, Prod.mk.injEq] at h <;> rw [← h.2]

theorem deliver_idx {a : AEAD} {o : Option Bytes} {c c' : NetcodeClient} (h : deliver a o c = some c') :
    c'.serverAddrIndex = c.serverAddrIndex := by
  unfold deliver at h
  cases o with
  | none => simp only [Option.some.injEq] at h; rw [← h]
  | some p =>
    simp only at h
    cases hp : c.processPacket a p with
    | ok x => obtain ⟨o', c''⟩ := x; rw [hp] at h; simp only [Option.some.injEq] at h; rw [← h]; exact processPacket_idx hp
    | err e => exact e.elim
    | panic m => rw [hp] at h; cases h

/-- a round changes the client's index into the server list only in its `update` -/
theorem round_idx {a : AEAD} {addr me : Addr} {id : Nat} {f : Fate} {d : Nat} {c c1 c' : NetcodeClient}
    {s s' : NetcodeServer} {out : Option (Bytes × Addr)} (h : round a addr me id f d (c, s) = some (c', s'))
    (hcu : c.update a d = .ok (out, c1)) : c'.serverAddrIndex = c1.serverAddrIndex := by
  unfold round at h
  simp only [hcu] at h
  cases hsu : s.update d with
  | ok s1 =>
    rw [hsu] at h
    simp only at h
    cases hup : up a addr me f out s1 with
    | none => rw [hup] at h; cases h
    | some x =>
      obtain ⟨r, s2⟩ := x
      rw [hup] at h
      simp only at h
      cases hu : s2.updateClient a id with
      | ok y =>
        obtain ⟨r', s3⟩ := y
        rw [hu] at h
        simp only [Option.map_eq_some_iff, Prod.mk.injEq] at h
        obtain ⟨c3, hd, rfl, _⟩ := h
        unfold down at hd
        split at hd
        · cases h1 : deliver a (answerTo addr r) c1 with
          | none => rw [h1] at hd; cases hd
          | some c2 =>
            rw [h1, Option.bind_some] at hd
            rw [deliver_idx hd, deliver_idx h1]
        · simp only [Option.some.injEq] at hd; rw [← hd]
      | err e => exact e.elim
      | panic m => rw [hu] at h; cases h
  | err e => exact e.elim
  | panic m => rw [hsu] at h; cases h

/-- the quiet part of an attempt and the `update` in which the time-out fires (whatever the next address is) -/
theorem attempt_update (hT : TokOK a s0 t expire xnonce) {id : Nat} {c : NetcodeClient} {s : NetcodeServer}
    {x : Attempt} (hc : CliReq a s0 t expire xnonce c) (hpos : c.connectToken.timeoutSeconds > 0)
    (h1 : c.connectStartTime ≤ c.currentTime) (h2 : c.lastPacketReceivedTime ≤ c.currentTime) (hx : AttOK c x)
    (hclk : c.currentTime + totalTime x.seg + x.d + tmo c ≤ DURATION_MAX)
    (hseq : c.sequence + x.seg.length < U64_MAX) (hne : c.serverAddr ≠ me)
    (hid : findClientById s.clients id = none) (hsclk : s.currentTime + totalTime x.seg + x.d ≤ DURATION_MAX) :
    ∃ cb sb, runRounds a addr me id x.seg (c, s) = some (cb, sb) ∧ CliReq a s0 t expire xnonce cb ∧ CliSame c cb ∧
      cb.currentTime = c.currentTime + totalTime x.seg ∧ cb.sequence ≤ c.sequence + x.seg.length ∧
      ClockOK cb x.d ∧ asSecs (cb.currentTime + x.d - cb.connectStartTime) < tokenWindow cb ∧
      CTimedOut cb (cb.currentTime + x.d) ∧ Aged s sb (totalTime x.seg) ∧
      (SrvOpen a s0 addr t expire xnonce s → SrvOpen a s0 addr t expire xnonce sb) := by
  obtain ⟨cb, sb, hrun, hcb, hsame, htm, hsq, _, hag, hopen⟩ := silent_run (addr := addr) (me := me) (id := id) hT x.seg hc
    (hx.budget h1 h2 hclk) (Nat.le_refl _) (by omega) hne hid (by omega)
  have e1 := hx.quiet; have e2 := hx.fires; have e3 := hx.window
  have hτ : tmo cb = tmo c := by unfold tmo; rw [hsame.tok]
  have hok : ClockOK cb x.d := ⟨by rw [htm]; omega, by rw [hsame.start, htm]; omega, by
    have : cb.lastPacketReceivedTime + tmo cb ≤ DURATION_MAX := by rw [hsame.recv, hτ]; omega
    exact this⟩
  have hwin : asSecs (cb.currentTime + x.d - cb.connectStartTime) < tokenWindow cb := by
    have : tokenWindow cb = tokenWindow c := by unfold tokenWindow; rw [hsame.tok]
    rw [this, htm, hsame.start]; exact e3
  have hto : CTimedOut cb (cb.currentTime + x.d) := by
    refine ⟨by rw [hsame.tok]; exact hpos, ?_⟩
    have : cb.lastPacketReceivedTime + tmo cb < cb.currentTime + x.d := by rw [hsame.recv, hτ, htm]; exact e2
    exact this
  exact ⟨cb, sb, hrun, hcb, hsame, htm, hsq, hok, hwin, hto, hag, hopen⟩

/-- the client after the `update(d)` in which the time-out fired with no server address left -/
abbrev gaveUp (c : NetcodeClient) (d : Nat) : NetcodeClient :=
  { c with currentTime := c.currentTime + d
           state := .disconnected (if c.state = .sendingConnectionResponse then .connectionResponseTimedOut
                                   else .connectionRequestTimedOut)
           serverAddrIndex := c.serverAddrIndex + 1 }

/-- **the `update(d)` in which the time-out fires with no server left**: the client ends
    `Disconnected(ConnectionRequestTimedOut)` resp. `Disconnected(ConnectionResponseTimedOut)` and sends nothing -/
theorem update_gives_up (a : AEAD) {c : NetcodeClient} {d : Nat} (hst : Connecting c) (hok : ClockOK c d)
    (hwin : asSecs (c.currentTime + d - c.connectStartTime) < tokenWindow c) (hto : CTimedOut c (c.currentTime + d))
    (hlast : C.NETCODE_TOKEN_MAX_ADDRESSES ≤ c.serverAddrIndex + 1 ∨
      c.connectToken.serverAddresses[c.serverAddrIndex + 1]? = some none) :
    c.update a d = .ok (none, gaveUp c d) := by
  unfold NetcodeClient.update
  rw [client_connecting_eq hst hok]
  simp only [if_neg (Nat.not_le.mpr hwin), if_pos hto]
  rcases hlast with h | h
  · rw [if_pos h]; rfl
  · split
    · rfl
    · rw [h]; rfl

/-- the client after the `update(d)` that found the token's window closed -/
abbrev tokenExpired (c : NetcodeClient) (d : Nat) : NetcodeClient :=
  { c with currentTime := c.currentTime + d, state := .disconnected .connectTokenExpired }

theorem update_expires (a : AEAD) {c : NetcodeClient} {d : Nat} (hst : Connecting c) (hok : ClockOK c d)
    (hwin : tokenWindow c ≤ asSecs (c.currentTime + d - c.connectStartTime)) :
    c.update a d = .ok (none, tokenExpired c d) :=
  client_update_of_error a (client_token_expired hst hok hwin)

/-- **a disconnected client stays disconnected, with the same reason**: `update(d)` only advances its clock and sends
    nothing -/
theorem disconnected_stays (a : AEAD) {c : NetcodeClient} {r : DisconnectReason} {d : Nat}
    (hst : c.state = .disconnected r) (hclk : c.currentTime + d ≤ DURATION_MAX)
    (hrecv : c.lastPacketReceivedTime + tmo c ≤ DURATION_MAX) :
    c.update a d = .ok (none, { c with currentTime := c.currentTime + d }) := by
  unfold NetcodeClient.update NetcodeClient.updateInternalState
  rw [durAdd_ok _ hclk]
  simp only [bind_ok']
  rw [client_timedOut_eq c (c.currentTime + d) hrecv]
  simp only [bind_ok', hst, pure_eq']

/-- the round of a client whose `update` emits nothing, against a server that does not hold its id -/
theorem round_no_datagram {id : Nat} {c c1 : NetcodeClient} {s : NetcodeServer} {f : Fate} {d : Nat}
    (hcu : c.update a d = .ok (none, c1)) (hid : findClientById s.clients id = none)
    (hclk : s.currentTime + d ≤ DURATION_MAX) : round a addr me id f d (c, s) = some (c1, srvTick s d) :=
  round_intro (server_update_eq hclk) hcu (up_none a addr me f _)
    (updateClient_absent a (findSlot_none.mpr hid)) (down_nothing a addr f _ rfl rfl)

/-- **all listed servers silent**: after the walk through `atts` the client is at the last listed address; `last.seg`
    passes quietly, and in the round `(last.f, last.d)` the time-out fires with no address left: the client ends
    `Disconnected(ConnectionRequestTimedOut)` in that very `update`, having sent nothing in it.  (`last.next` plays no
    role.) -/
theorem walk_exhausts (hT : TokOK a s0 t expire xnonce) {id : Nat} (atts : List Attempt) (last : Attempt)
    {c : NetcodeClient} {s : NetcodeServer} (hc : CliReq a s0 t expire xnonce c)
    (hpos : c.connectToken.timeoutSeconds > 0) (h1 : c.connectStartTime ≤ c.currentTime)
    (h2 : c.lastPacketReceivedTime ≤ c.currentTime) (hw : WalkOK c (atts ++ [last]))
    (hclk : c.currentTime + totalTime (walkSched (atts ++ [last])) + tmo c ≤ DURATION_MAX)
    (hseq : c.sequence + (walkSched (atts ++ [last])).length < U64_MAX + 1) (hne : c.serverAddr ≠ me)
    (hl : Listed c.connectToken.serverAddresses (c.serverAddrIndex + 1) (atts.map (·.next)))
    (hidx : c.serverAddrIndex + atts.length < C.NETCODE_TOKEN_MAX_ADDRESSES)
    (hnme : ∀ x ∈ atts, x.next ≠ me)
    (hlast : C.NETCODE_TOKEN_MAX_ADDRESSES ≤ c.serverAddrIndex + atts.length + 1 ∨
      c.connectToken.serverAddresses[c.serverAddrIndex + atts.length + 1]? = some none)
    (hid : findClientById s.clients id = none)
    (hsclk : s.currentTime + totalTime (walkSched (atts ++ [last])) ≤ DURATION_MAX) :
    ∃ cb sb s', runRounds a addr me id (walkSched atts ++ last.seg) (c, s) = some (cb, sb) ∧
      cb.state = .sendingConnectionRequest ∧ cb.serverAddr = lastAddr c.serverAddr (atts.map (·.next)) ∧
      cb.serverAddrIndex = c.serverAddrIndex + atts.length ∧
      cb.currentTime + last.d = c.currentTime + totalTime (walkSched (atts ++ [last])) ∧
      cb.update a last.d = .ok (none, gaveUp cb last.d) ∧
      runRounds a addr me id (walkSched (atts ++ [last])) (c, s) = some (gaveUp cb last.d, s') ∧
      (gaveUp cb last.d).state = .disconnected .connectionRequestTimedOut ∧
      ∀ pre x post, atts = pre ++ x :: post →
        FailoverStep a s0 addr me t expire xnonce id (c, s) (walkSched pre) x (c.serverAddrIndex + pre.length)
          (lastAddr c.serverAddr (pre.map (·.next))) := by
  have hT1 : totalTime (walkSched (atts ++ [last])) = totalTime (walkSched atts) + (totalTime last.seg + last.d) := by
    rw [walkSched_append, totalTime_append, totalTime_walk_cons]; simp [walkSched, totalTime]
  have hL1 : (walkSched (atts ++ [last])).length = (walkSched atts).length + (last.seg.length + 1) := by
    rw [walkSched_append, List.length_append, walkSched_length_cons]; simp [walkSched]
  rw [hT1] at hclk hsclk
  rw [hL1] at hseq
  obtain ⟨cw, sw, hrun, hcw, hwalk, hag, _, hsteps⟩ := walk_silent (addr := addr) (me := me) (id := id) hT atts hc hpos h1 h2
    (walkOK_init hw) (by omega) (by omega) hne hl hidx (fun x hx => Or.inr (hnme x hx)) hnme hid (by omega)
  have hxl := walkOK_last hw hwalk
  have hτ : tmo cw = tmo c := by unfold tmo; rw [hwalk.tok]
  have hnew : cw.serverAddr ≠ me := by
    rw [hwalk.srv]
    cases hat : atts.reverse with
    | nil => have : atts = [] := by simpa using hat
             subst this; exact hne
    | cons z zs =>
      have e : atts = zs.reverse ++ [z] := by rw [← List.reverse_reverse atts, hat]; simp
      rw [e, List.map_append, List.map_cons, List.map_nil, lastAddr_append]
      exact hnme z (by rw [e]; simp)
  obtain ⟨cb, sb, hrun2, hcb, hsame, htm, hsq, hok, hwin, hto, hag2, _⟩ := attempt_update (addr := addr) (me := me)
    (id := id) hT hcw (by rw [hwalk.tok]; exact hpos) hwalk.start hwalk.recv hxl
    (by rw [hτ, hwalk.time]; omega) (by have := hwalk.seq; omega) hnew
    (by rw [hag.clients]; exact hid) (by rw [hag.time]; omega)
  have hcu := update_gives_up a (Or.inl hcb.st) hok hwin hto
    (by rw [hsame.tok, hsame.idx, hwalk.tok, hwalk.idx]; simpa using hlast)
  have hround := round_no_datagram (addr := addr) (me := me) (id := id) (f := last.f) hcu
    (by rw [hag2.clients, hag.clients]; exact hid) (by rw [hag2.time, hag.time]; omega)
  refine ⟨cb, sb, srvTick sb last.d, ?_, hcb.st, by rw [hsame.srv, hwalk.srv], by rw [hsame.idx, hwalk.idx]; simp, ?_, hcu, ?_, ?_,
    hsteps⟩
  · rw [runRounds_append, hrun]; exact hrun2
  · rw [htm, hwalk.time, hT1]; omega
  · rw [walkSched_append, runRounds_append, hrun]
    simp only [Option.bind_some, walkSched, runRounds_append, hrun2, runRounds, hround]
  · show NetcodeClient.state (gaveUp cb last.d) = _
    simp only [hcb.st]
    rfl

/-- the timing of an attempt that runs into the end of the token's window: no time-out and an open window during `seg`,
    the window (counted from the start of the attempt) closed at the `update(d)` that follows -/
structure ExpOK (c : NetcodeClient) (seg : List (Fate × Nat)) (d : Nat) : Prop where
  quiet : c.connectToken.timeoutSeconds ≤ 0 ∨ c.currentTime + totalTime seg ≤ c.lastPacketReceivedTime + tmo c
  opened : asSecs (c.currentTime + totalTime seg - c.connectStartTime) < tokenWindow c
  closed : tokenWindow c ≤ asSecs (c.currentTime + totalTime seg + d - c.connectStartTime)

/-- **the token's window closes first**: after the walk through `atts`, the rounds `seg` pass quietly and the next
    `update(d)` finds `(now − connect_start).secs ≥ expire − create`: `Disconnected(ConnectTokenExpired)` — whether or
    not the time-out would have fired in the same call. -/
theorem walk_expires (hT : TokOK a s0 t expire xnonce) {id : Nat} (atts : List Attempt) (seg : List (Fate × Nat))
    (f : Fate) (d : Nat) {c : NetcodeClient} {s : NetcodeServer} (hc : CliReq a s0 t expire xnonce c)
    (hpos : c.connectToken.timeoutSeconds > 0) (h1 : c.connectStartTime ≤ c.currentTime)
    (h2 : c.lastPacketReceivedTime ≤ c.currentTime) (hw : WalkOK c atts)
    (hx : ∀ cw, Walked c (atts.map (·.next)) (walkSched atts).length (totalTime (walkSched atts)) cw → ExpOK cw seg d)
    (hclk : c.currentTime + totalTime (walkSched atts) + totalTime seg + d + tmo c ≤ DURATION_MAX)
    (hseq : c.sequence + (walkSched atts).length + seg.length < U64_MAX + 1) (hne : c.serverAddr ≠ me)
    (hl : Listed c.connectToken.serverAddresses (c.serverAddrIndex + 1) (atts.map (·.next)))
    (hidx : c.serverAddrIndex + atts.length < C.NETCODE_TOKEN_MAX_ADDRESSES)
    (hnme : ∀ x ∈ atts, x.next ≠ me) (hid : findClientById s.clients id = none)
    (hsclk : s.currentTime + totalTime (walkSched atts) + totalTime seg + d ≤ DURATION_MAX) :
    ∃ cb sb s', runRounds a addr me id (walkSched atts ++ seg) (c, s) = some (cb, sb) ∧
      cb.state = .sendingConnectionRequest ∧ cb.serverAddrIndex = c.serverAddrIndex + atts.length ∧
      cb.currentTime = c.currentTime + totalTime (walkSched atts) + totalTime seg ∧
      cb.update a d = .ok (none, tokenExpired cb d) ∧
      runRounds a addr me id (walkSched atts ++ seg ++ [(f, d)]) (c, s) = some (tokenExpired cb d, s') := by
  obtain ⟨cw, sw, hrun, hcw, hwalk, hag, _, _⟩ := walk_silent (addr := addr) (me := me) (id := id) hT atts hc hpos h1 h2
    hw (by omega) (by omega) hne hl hidx (fun x hx => Or.inr (hnme x hx)) hnme hid (by omega)
  obtain ⟨e1, e2, e3⟩ := hx cw hwalk
  have hτ : tmo cw = tmo c := by unfold tmo; rw [hwalk.tok]
  have hnew : cw.serverAddr ≠ me := by
    rw [hwalk.srv]
    cases hat : atts.reverse with
    | nil => have : atts = [] := by simpa using hat
             subst this; exact hne
    | cons z zs =>
      have e : atts = zs.reverse ++ [z] := by rw [← List.reverse_reverse atts, hat]; simp
      rw [e, List.map_append, List.map_cons, List.map_nil, lastAddr_append]
      exact hnme z (by rw [e]; simp)
  have hcbud : CBudget cw (totalTime seg) := by
    refine ⟨?_, hwalk.start, hwalk.recv, e2, e1⟩
    have := hwalk.time
    simp only [tmo] at hτ hclk
    rw [hτ]; omega
  obtain ⟨cb, sb, hrun2, hcb, hsame, htm, hsq, _, hag2, _⟩ := silent_run (addr := addr) (me := me) (id := id) hT seg hcw
    hcbud (Nat.le_refl _) (by have := hwalk.seq; omega) hnew (by rw [hag.clients]; exact hid)
    (by rw [hag.time]; omega)
  have hok : ClockOK cb d := ⟨by rw [htm, hwalk.time]; omega, by rw [hsame.start, htm]; have := hwalk.start; omega, by
    have : cb.lastPacketReceivedTime + tmo cb ≤ DURATION_MAX := by
      have e : tmo cb = tmo c := by unfold tmo; rw [hsame.tok, hwalk.tok]
      have := hwalk.recv; have := hwalk.time
      rw [hsame.recv, e]; omega
    exact this⟩
  have hcu := update_expires a (Or.inl hcb.st) hok (by
    have : tokenWindow cb = tokenWindow cw := by unfold tokenWindow; rw [hsame.tok]
    rw [this, htm, hsame.start]; exact e3)
  have hround := round_no_datagram (addr := addr) (me := me) (id := id) (f := f) hcu
    (by rw [hag2.clients, hag.clients]; exact hid) (by rw [hag2.time, hag.time]; omega)
  refine ⟨cb, sb, srvTick sb d, ?_, hcb.st, by rw [hsame.idx, hwalk.idx]; simp, by rw [htm, hwalk.time], hcu, ?_⟩
  · rw [runRounds_append, hrun]; exact hrun2
  · rw [List.append_assoc, runRounds_append, hrun]
    simp only [Option.bind_some, runRounds_append, hrun2, runRounds, hround]

/-- where the walk ends is not this server's address either -/
theorem walk_ends_elsewhere {c cw : NetcodeClient} {atts : List Attempt} {k T : Nat} (hne : c.serverAddr ≠ me)
    (hnme : ∀ x ∈ atts, x.next ≠ me) (hwalk : Walked c (atts.map (·.next)) k T cw) : cw.serverAddr ≠ me := by
  rw [hwalk.srv]
  cases hat : atts.reverse with
  | nil => have : atts = [] := by simpa using hat
           subst this; exact hne
  | cons z zs =>
    have e : atts = zs.reverse ++ [z] := by rw [← List.reverse_reverse atts, hat]; simp
    rw [e, List.map_append, List.map_cons, List.map_nil, lastAddr_append]
    exact hnme z (by rw [e]; simp)

/-- **the walk ends at a server that answers**: the servers at the client's current address and at the addresses
    `atts.map next` are silent; the fail-over that ends the attempt `last` leads to `me`, whose server (open for this
    client) answers the request of that very round with the challenge; one more delivered round `d₂` connects. -/
theorem walk_connects (hT : TokOK a s0 t expire xnonce) (atts : List Attempt) (last : Attempt) {d₂ : Nat}
    {c : NetcodeClient} {s : NetcodeServer} (hc : CliReq a s0 t expire xnonce c)
    (hpos : c.connectToken.timeoutSeconds > 0) (h1 : c.connectStartTime ≤ c.currentTime)
    (h2 : c.lastPacketReceivedTime ≤ c.currentTime) (hw : WalkOK c (atts ++ [last]))
    (hlf : last.f = .delivered) (hlme : last.next = me) (hne : c.serverAddr ≠ me) (hnme : ∀ x ∈ atts, x.next ≠ me)
    (hl : Listed c.connectToken.serverAddresses (c.serverAddrIndex + 1) ((atts ++ [last]).map (·.next)))
    (hidx : c.serverAddrIndex + atts.length + 1 < C.NETCODE_TOKEN_MAX_ADDRESSES)
    (hs : SrvOpen a s0 addr t expire xnonce s)
    (hd₂c : d₂ ≤ tmo c) (hd₂w : asSecs d₂ < tokenWindow c)
    (hd₂s : t.timeoutSeconds ≤ 0 ∨ d₂ ≤ fromSecs t.timeoutSeconds.toNat)
    (hclk : c.currentTime + totalTime (walkSched (atts ++ [last])) + d₂ + tmo c ≤ DURATION_MAX)
    (hsclk : s.currentTime + totalTime (walkSched (atts ++ [last])) + d₂ + fromSecs (2 ^ 31) ≤ DURATION_MAX)
    (hsexp : asSecs (s.currentTime + totalTime (walkSched (atts ++ [last])) + d₂) < expire)
    (hseq : c.sequence + (walkSched (atts ++ [last])).length + 1 < U64_MAX)
    (hg : s.globalSequence + 2 < U64_MAX) (hch : s.challengeSequence + 2 < U64_MAX) :
    ∃ c1 s1 c2 s2 c3 s3, runRounds a addr me t.clientId (walkSched atts ++ last.seg) (c, s) = some (c1, s1) ∧
      c1.state = .sendingConnectionRequest ∧ c1.serverAddr = lastAddr c.serverAddr (atts.map (·.next)) ∧
      c1.serverAddrIndex = c.serverAddrIndex + atts.length ∧
      c1.update a last.d = .ok (some (requestBytes a s0 t expire xnonce, me), failedOver c1 last.d me) ∧
      round a addr me t.clientId .delivered last.d (c1, s1) = some (c2, s2) ∧
      c2.state = .sendingConnectionResponse ∧ c2.serverAddr = me ∧
      c2.serverAddrIndex = c.serverAddrIndex + atts.length + 1 ∧
      c2.connectStartTime = c.currentTime + totalTime (walkSched (atts ++ [last])) ∧
      c2.currentTime = c.currentTime + totalTime (walkSched (atts ++ [last])) ∧
      round a addr me t.clientId .delivered d₂ (c2, s2) = some (c3, s3) ∧
      runRounds a addr me t.clientId (walkSched (atts ++ [last]) ++ [(.delivered, d₂)]) (c, s) = some (c3, s3) ∧
      Established addr t expire c3 s3 ∧ s3.isClientConnected t.clientId = true ∧
      c3.currentTime = c.currentTime + totalTime (walkSched (atts ++ [last])) + d₂ ∧
      s3.currentTime = s.currentTime + totalTime (walkSched (atts ++ [last])) + d₂ ∧
      ∀ pre x post, atts = pre ++ x :: post →
        FailoverStep a s0 addr me t expire xnonce t.clientId (c, s) (walkSched pre) x (c.serverAddrIndex + pre.length)
          (lastAddr c.serverAddr (pre.map (·.next))) := by
  have hU : U64_MAX = 2 ^ 64 - 1 := rfl
  have hT1 : totalTime (walkSched (atts ++ [last])) = totalTime (walkSched atts) + (totalTime last.seg + last.d) := by
    rw [walkSched_append, totalTime_append, totalTime_walk_cons]; simp [walkSched, totalTime]
  have hL1 : (walkSched (atts ++ [last])).length = (walkSched atts).length + (last.seg.length + 1) := by
    rw [walkSched_append, List.length_append, walkSched_length_cons]; simp [walkSched]
  have hl' := hl
  rw [List.map_append, listed_append] at hl'
  obtain ⟨hl1, hl2⟩ := hl'
  simp only [List.map_cons, List.map_nil, Listed, List.length_map, and_true] at hl2
  obtain ⟨cw, sw, hrun, hcw, hwalk, hag, hopen, hsteps⟩ := walk_silent (addr := addr) (me := me) (id := t.clientId) hT atts
    hc hpos h1 h2 (walkOK_init hw) (by omega) (by omega) hne hl1 (by omega) (fun x hx => Or.inr (hnme x hx)) hnme
    hs.idFree (by omega)
  have hxl := walkOK_last hw hwalk
  have hτ : tmo cw = tmo c := by unfold tmo; rw [hwalk.tok]
  have hnew := walk_ends_elsewhere hne hnme hwalk
  obtain ⟨cb, sb, hrun2, hcb, hsame, htm, hsq, hok, hwin, hto, hag2, hopen2⟩ := attempt_update (addr := addr) (me := me)
    (id := t.clientId) hT hcw (by rw [hwalk.tok]; exact hpos) hwalk.start hwalk.recv hxl
    (by rw [hτ, hwalk.time]; omega) (by have := hwalk.seq; omega) hnew
    (by rw [hag.clients]; exact hs.idFree) (by rw [hag.time]; omega)
  have hnext : cb.connectToken.serverAddresses[cb.serverAddrIndex + 1]? = some (some me) := by
    rw [hsame.tok, hsame.idx, hwalk.tok, hwalk.idx, List.length_map, ← hlme]
    have : c.serverAddrIndex + atts.length + 1 = c.serverAddrIndex + 1 + atts.length := by omega
    rw [this]; exact hl2
  have hidxb : cb.serverAddrIndex + 1 < C.NETCODE_TOKEN_MAX_ADDRESSES := by
    rw [hsame.idx, hwalk.idx, List.length_map]; exact hidx
  have hsqb : cb.sequence < U64_MAX := by have := hwalk.seq; omega
  have hcu := update_failover a hT.laws (Or.inl hcb.st) hok hwin hto hnext hidxb hcb.tok hT.wf hT.xn hsqb
  have hsb := hopen2 (hopen hs)
  have htb : sb.currentTime = s.currentTime + totalTime (walkSched atts) + totalTime last.seg := by
    rw [hag2.time, hag.time]
  have htc : cb.currentTime = c.currentTime + totalTime (walkSched atts) + totalTime last.seg := by
    rw [htm, hwalk.time]
  obtain ⟨c2, s2, hr2, hc2, hs2, hp2, f1, f2, f3, f4, f5, f6, f7, f8, f9, f10, f11⟩ := round_failover (me := me)
    (d := last.d) hT hcb hsb hok hwin hto hnext hidxb hsqb (by rw [htb]; omega)
    (by rw [hag2.gseq, hag.gseq]; omega) (by rw [hag2.chseq, hag.chseq]; omega)
    (Nat.lt_of_le_of_lt (asSecs_mono (by rw [htb]; omega)) hsexp)
  have hidx2 : c2.serverAddrIndex = c.serverAddrIndex + atts.length + 1 := by
    rw [round_idx hr2 hcu]
    show cb.serverAddrIndex + 1 = _
    rw [hsame.idx, hwalk.idx, List.length_map]
  have htk : c2.connectToken = c.connectToken := f8.trans (hsame.tok.trans hwalk.tok)
  have hτ2 : tmo c2 = tmo c := by unfold tmo; rw [htk]
  have hW2 : tokenWindow c2 = tokenWindow c := by unfold tokenWindow; rw [htk]
  have htot : c2.currentTime = c.currentTime + totalTime (walkSched (atts ++ [last])) := by rw [f5, htc, hT1]; omega
  have hb2 : Budget t expire c2 s2 d₂ 1 := by
    have hws := hwalk.seq
    refine ⟨⟨?_, by rw [f7, f5]; exact Nat.le_refl _, by rw [f6, f5]; exact Nat.le_refl _, ?_, ?_⟩,
      by rw [f1, htb]; omega, ?_, hd₂s, by rw [f9]; omega, by rw [f2, hag2.gseq, hag.gseq]; omega,
      by rw [f3, hag2.chseq, hag.chseq]; omega⟩
    · have : c2.currentTime + d₂ + tmo c2 ≤ DURATION_MAX := by rw [hτ2, htot]; omega
      exact this
    · rw [hW2, f7, f5]
      have : cb.currentTime + last.d + d₂ - (cb.currentTime + last.d) = d₂ := by omega
      rw [this]; exact hd₂w
    · right
      have : c2.currentTime + d₂ ≤ c2.lastPacketReceivedTime + tmo c2 := by rw [f5, f6, hτ2]; omega
      exact this
    · have : s2.currentTime + d₂ = s.currentTime + totalTime (walkSched (atts ++ [last])) + d₂ := by
        rw [f1, htb, hT1]; omega
      rw [this]; exact hsexp
  obtain ⟨c3, s3, hr3, hest, ht3, hst3⟩ := round_resp_delivered (me := me) (N := 0) hT hc2 hs2 hp2 hb2 (Nat.le_refl _) f10
    (gateOpen_of_none f4)
  have hrun12 : runRounds a addr me t.clientId (walkSched atts ++ last.seg) (c, s) = some (cb, sb) := by
    rw [runRounds_append, hrun]; exact hrun2
  refine ⟨cb, sb, c2, s2, c3, s3, hrun12, hcb.st, by rw [hsame.srv, hwalk.srv],
    by rw [hsame.idx, hwalk.idx, List.length_map], hcu, hr2, hc2.st, f10, hidx2, by rw [f7, htc, hT1]; omega, htot, hr3, ?_,
    hest, hest.isClientConnected, by rw [ht3, htot], by rw [hst3, f1, htb, hT1]; omega, hsteps⟩
  rw [runRounds_append, walkSched_append, runRounds_append, hrun]
  simp only [Option.bind_some, walkSched, runRounds_append, hrun2, runRounds, hlf, hr2, hr3]

end Walk

/-! ## Part B : the handshake while the server serves others

  ### B.1 the frame lemma -/

/-- An operation that does not concern the client seen at `addr` with client id `id`: a datagram from another address
    (anything: another client's request or response, payloads, junk), `update_client` / `disconnect` /
    `generate_payload_packet` of another id.  (`update` — time passes only in the rounds — and `set_max_clients` are not
    bystander operations.) -/
def NotMine (addr : Addr) (id : Nat) : Op → Prop
  | .packet ad _ => ad ≠ addr
  | .updateClient i => i ≠ id
  | .disconnect i => i ≠ id
  | .sendPayload i _ => i ≠ id
  | .update _ => False
  | .setMaxClients _ => False

instance (addr : Addr) (id : Nat) (op : Op) : Decidable (NotMine addr id op) := by
  cases op <;> (unfold NotMine; infer_instance)

/-- what a bystander operation may do to the slot table, seen from the client `(addr, id)`: its own session (if any)
    stays exactly as it is, and nobody gets connected from `addr` -/
structure SlotFrame (addr : Addr) (id : Nat) (cl cl' : Slots) : Prop where
  mine : ∀ i cn, At cl i cn → cn.clientId = id → cn.addr = addr → At cl' i cn
  addrFree : (∀ i c, At cl i c → c.addr ≠ addr) → ∀ i c, At cl' i c → c.addr ≠ addr

theorem SlotFrame.refl (addr : Addr) (id : Nat) (cl : Slots) : SlotFrame addr id cl cl := ⟨fun _ _ h _ _ => h, fun h => h⟩

theorem SlotFrame.of_eq {addr : Addr} {id : Nat} {cl cl' : Slots} (h : cl' = cl) : SlotFrame addr id cl cl' := by
  subst h; exact SlotFrame.refl addr id _

theorem SlotFrame.trans {addr : Addr} {id : Nat} {c1 c2 c3 : Slots} (h1 : SlotFrame addr id c1 c2)
    (h2 : SlotFrame addr id c2 c3) : SlotFrame addr id c1 c3 :=
  ⟨fun i cn h e1 e2 => h2.mine i cn (h1.mine i cn h e1 e2) e1 e2, fun h => h2.addrFree (h1.addrFree h)⟩

/-- a slot that is not this client's is rewritten with the same address -/
theorem SlotFrame.set_other {addr : Addr} {id : Nat} {cl : Slots} {j : Nat} {cj x : Connection} (hj : At cl j cj)
    (hn : cj.clientId ≠ id ∨ cj.addr ≠ addr) (hx : x.addr = cj.addr) : SlotFrame addr id cl (cl.set j (some x)) := by
  constructor
  · intro i cn hi e1 e2
    have hne : j ≠ i := by
      intro e; subst e
      have := at_inj hi hj; subst this
      rcases hn with h | h
      · exact h e1
      · exact h e2
    exact at_set_of_ne hne hi
  · intro hfree i c hc
    rcases at_set_some hc with ⟨rfl, rfl⟩ | ⟨_, h⟩
    · rw [hx]; exact hfree _ _ hj
    · exact hfree i c h

/-- a slot that is not this client's is freed -/
theorem SlotFrame.set_none {addr : Addr} {id : Nat} {cl : Slots} {j : Nat} {cj : Connection} (hj : At cl j cj)
    (hn : cj.clientId ≠ id ∨ cj.addr ≠ addr) : SlotFrame addr id cl (cl.set j none) := by
  constructor
  · intro i cn hi e1 e2
    have hne : j ≠ i := by
      intro e; subst e
      have := at_inj hi hj; subst this
      rcases hn with h | h
      · exact h e1
      · exact h e2
    exact at_set_of_ne hne hi
  · intro hfree i c hc
    exact hfree i c (at_set_none hc).1

/-- a free slot receives a session from another address -/
theorem SlotFrame.set_free {addr : Addr} {id : Nat} {cl : Slots} {k : Nat} {p : Connection} (hk : cl[k]? = some none)
    (hp : p.addr ≠ addr) : SlotFrame addr id cl (cl.set k (some p)) := by
  constructor
  · intro i cn hi _ _
    have hne : k ≠ i := by
      intro e; subst e
      unfold At at hi; rw [hk] at hi; simp at hi
    exact at_set_of_ne hne hi
  · intro hfree i c hc
    rcases at_set_some hc with ⟨rfl, rfl⟩ | ⟨_, h⟩
    · exact hp
    · exact hfree i c h

/-- **The footprint of one bystander operation**, seen from the client `(addr, id)`: the configuration, the clock, the
    half-open session of `addr` (if any), the session of `(addr, id)` (if any) and "nobody is connected from `addr`"
    are left alone; each of the two global `u64` counters grows by at most one. -/
structure StepFrame (addr : Addr) (id : Nat) (s s' : NetcodeServer) : Prop where
  cfg : SameCfg s s'
  time : s'.currentTime = s.currentTime
  pend : pendingFind s'.pendingClients addr = pendingFind s.pendingClients addr
  slots : SlotFrame addr id s.clients s'.clients
  gLe : s'.globalSequence ≤ s.globalSequence + 1
  cLe : s'.challengeSequence ≤ s.challengeSequence + 1

theorem StepFrame.refl (addr : Addr) (id : Nat) (s : NetcodeServer) : StepFrame addr id s s :=
  ⟨SameCfg.refl s, rfl, rfl, SlotFrame.refl _ _ _, Nat.le_succ _, Nat.le_succ _⟩

/-- `handle_connection_request` for a request from another address -/
theorem hcr_other {a : AEAD} {sx : NetcodeServer} {ad addr : Addr} {v : Bytes} {pid expire : Nat} {xnonce data : Bytes}
    {R : NetcodeServer.SRes} {r : ServerResult} {s' : NetcodeServer}
    (ho : HcrOut a sx ad v pid expire xnonce data R) (hr : HcrRes R r s') (hne : ad ≠ addr) :
    s'.clients = sx.clients ∧ pendingFind s'.pendingClients addr = pendingFind sx.pendingClients addr ∧
    s'.globalSequence ≤ sx.globalSequence + 1 ∧ s'.challengeSequence ≤ sx.challengeSequence + 1 := by
  have hne' : ¬ addr = ad := fun e => hne e.symm
  cases ho with
  | err e => rcases hr with h | ⟨rfl, e', h⟩ <;> cases h <;> exact ⟨rfl, rfl, Nat.le_succ _, Nat.le_succ _⟩
  | none => rcases hr with h | ⟨rfl, e', h⟩ <;> cases h <;> exact ⟨rfl, rfl, Nat.le_succ _, Nat.le_succ _⟩
  | deniedErr t s1 e hacc hstep hfull =>
    rcases hr with h | ⟨rfl, e', h⟩ <;> cases h
    have hf := entryStep_fields hstep
    refine ⟨hf.1, ?_, ?_, ?_⟩
    · show pendingFind (pendingRemove s1.pendingClients ad) addr = _
      rw [pendingFind_filter_ne, if_neg hne', hf.2.1]
    · show s1.globalSequence ≤ _; rw [hf.2.2.2.2.2.2.2.2.2.1]; exact Nat.le_succ _
    · show s1.challengeSequence ≤ _; rw [hf.2.2.2.2.2.1]; exact Nat.le_succ _
  | denied t s1 out hacc hstep hfull hen =>
    rcases hr with h | ⟨rfl, e', h⟩ <;> cases h
    have hf := entryStep_fields hstep
    refine ⟨hf.1, ?_, Nat.le_refl _, ?_⟩
    · show pendingFind (pendingRemove s1.pendingClients ad) addr = _
      rw [pendingFind_filter_ne, if_neg hne', hf.2.1]
    · show s1.challengeSequence ≤ _; rw [hf.2.2.2.2.2.1]; exact Nat.le_succ _
  | challengeErr t s1 e hacc hstep hfull =>
    rcases hr with h | ⟨rfl, e', h⟩ <;> cases h
    have hf := entryStep_fields hstep
    refine ⟨hf.1, ?_, ?_, Nat.le_refl _⟩
    · show pendingFind s1.pendingClients addr = _; rw [hf.2.1]
    · show s1.globalSequence ≤ _; rw [hf.2.2.2.2.2.2.2.2.2.1]; exact Nat.le_succ _
  | challenge t s1 pkt out hacc hstep hfull hgen hen =>
    rcases hr with h | ⟨rfl, e', h⟩ <;> cases h
    have hf := entryStep_fields hstep
    refine ⟨hf.1, ?_, Nat.le_refl _, Nat.le_refl _⟩
    show pendingFind (pendingSet s1.pendingClients ad _) addr = _
    rw [pendingFind_set, if_neg hne', hf.2.1]

/-- **a datagram from another address** -/
theorem pp_frame {a : AEAD} {s s' : NetcodeServer} {ad addr : Addr} {id : Nat} {buf : Bytes} {r : ServerResult}
    (hi : ServerInv s) (ho : PPOut a s ad buf r s') (hne : ad ≠ addr) : StepFrame addr id s s' := by
  have hne' : ¬ addr = ad := fun e => hne e.symm
  obtain ⟨g1, g2, g3, g4, g5, g6, g7⟩ := ppOut_frame ho
  have hcfg : SameCfg s s' := ⟨g3, g2, g4, g7, g5, g1⟩
  cases ho with
  | short _ => exact StepFrame.refl _ _ _
  | connErr i c e w' hfa hdec =>
    obtain ⟨hc, had⟩ := findAddr_some hfa
    exact ⟨hcfg, rfl, rfl, .set_other hc (Or.inr (by rw [had]; exact hne)) rfl, Nat.le_succ _, Nat.le_succ _⟩
  | connDisconnect i c sq w' hfa hdec =>
    obtain ⟨hc, had⟩ := findAddr_some hfa
    exact ⟨hcfg, rfl, rfl, .set_none hc (Or.inr (by rw [had]; exact hne)), Nat.le_succ _, Nat.le_succ _⟩
  | connPayload i c sq p w' hfa hdec =>
    obtain ⟨hc, had⟩ := findAddr_some hfa
    exact ⟨hcfg, rfl, rfl, .set_other hc (Or.inr (by rw [had]; exact hne)) rfl, Nat.le_succ _, Nat.le_succ _⟩
  | connKeepAlive i c sq ci mc w' hfa hdec =>
    obtain ⟨hc, had⟩ := findAddr_some hfa
    exact ⟨hcfg, rfl, rfl, .set_other hc (Or.inr (by rw [had]; exact hne)) rfl, Nat.le_succ _, Nat.le_succ _⟩
  | connOther i c sq pk w' hfa hdec _ _ _ =>
    obtain ⟨hc, had⟩ := findAddr_some hfa
    exact ⟨hcfg, rfl, rfl, .set_other hc (Or.inr (by rw [had]; exact hne)) rfl, Nat.le_succ _, Nat.le_succ _⟩
  | pendErr p e w' hfa hpf hdec =>
    refine ⟨hcfg, rfl, ?_, .refl _ _ _, Nat.le_succ _, Nat.le_succ _⟩
    show pendingFind (pendingSet s.pendingClients ad _) addr = _
    rw [pendingFind_set, if_neg hne']
  | pendRequest p sq v pid expire xnonce data w' R _ _ hfa hpf hdec hout hres =>
    obtain ⟨h1, h2, h3, h4⟩ := hcr_other (addr := addr) hout hres hne
    refine ⟨hcfg, g6, ?_, .of_eq h1, h3, h4⟩
    rw [h2]
    show pendingFind (pendingSet s.pendingClients ad _) addr = _
    rw [pendingFind_set, if_neg hne']
  | pendOther p sq pk w' hfa hpf hdec _ _ =>
    refine ⟨hcfg, rfl, ?_, .refl _ _ _, Nat.le_succ _, Nat.le_succ _⟩
    show pendingFind (pendingSet s.pendingClients ad _) addr = _
    rw [pendingFind_set, if_neg hne']
  | respRejected p sq ts td w' hfa hpf hdec _ =>
    refine ⟨hcfg, rfl, ?_, .refl _ _ _, Nat.le_succ _, Nat.le_succ _⟩
    show pendingFind (pendingSet s.pendingClients ad _) addr = _
    rw [pendingFind_set, if_neg hne']
  | respDropped p sq ts td w' hfa hpf hdec _ =>
    refine ⟨hcfg, rfl, ?_, .refl _ _ _, Nat.le_succ _, Nat.le_succ _⟩
    show pendingFind (pendingRemove s.pendingClients ad) addr = _
    rw [pendingFind_filter_ne, if_neg hne']
  | respFull p sq ts td w' out hfa hpf hdec _ _ _ _ =>
    refine ⟨hcfg, rfl, ?_, .refl _ _ _, Nat.le_refl _, Nat.le_succ _⟩
    show pendingFind (pendingRemove s.pendingClients ad) addr = _
    rw [pendingFind_filter_ne, if_neg hne']
  | respConnected p sq ts td w' i out hfa hpf hdec hct hid hff hen =>
    have hk := (hi.pend (ad, p) (NS.pendingFind_mem hpf)).key
    refine ⟨hcfg, rfl, ?_, .set_free (firstFree_some hff) (by show p.addr ≠ addr; rw [hk]; exact hne), Nat.le_succ _,
      Nat.le_succ _⟩
    show pendingFind (pendingRemove s.pendingClients ad) addr = _
    rw [pendingFind_filter_ne, if_neg hne']
  | newErr e hfa hpf hdec => exact StepFrame.refl _ _ _
  | newRequest sq v pid expire xnonce data R _ _ hfa hpf hdec hout hres =>
    obtain ⟨h1, h2, h3, h4⟩ := hcr_other (addr := addr) hout hres hne
    exact ⟨hcfg, g6, h2, .of_eq h1, h3, h4⟩

/-- **the frame lemma, one operation** -/
theorem step_frame {a : AEAD} {s s' : NetcodeServer} {addr : Addr} {id : Nat} {op : Op} {r : ServerResult}
    (hi : ServerInv s) (hop : NotMine addr id op) (h : step a s op = some (r, s')) : StepFrame addr id s s' := by
  cases op with
  | packet ad buf =>
    have hp : s.processPacket a ad buf = .ok (r, s') := by
      simp only [step] at h
      cases hp : s.processPacket a ad buf with
      | ok x => rw [hp] at h; cases h; rfl
      | err e => exact e.elim
      | panic m => rw [hp] at h; cases h
    exact pp_frame hi (pp_ok hi hp) hop
  | update d => exact hop.elim
  | setMaxClients m => exact hop.elim
  | updateClient i =>
    have hp : s.updateClient a i = .ok (r, s') := by
      simp only [step] at h
      cases hp : s.updateClient a i with
      | ok x => rw [hp] at h; cases h; rfl
      | err e => exact e.elim
      | panic m => rw [hp] at h; cases h
    cases hf : findClientSlotById s.clients i with
    | none => rw [updateClient_absent a hf] at hp; cases hp; exact StepFrame.refl _ _ _
    | some j =>
      obtain ⟨cj, hcj, hidj, _⟩ := findSlot_some hf
      have hn : cj.clientId ≠ id ∨ cj.addr ≠ addr := Or.inl (by rw [hidj]; exact hop)
      rcases updateClient_spec a hi hf hcj with ⟨_, o, e⟩ | ⟨_, e | ⟨out, _, _, e⟩⟩ | ⟨⟨m, e⟩, _⟩
      · rw [e] at hp; cases hp
        exact ⟨⟨rfl, rfl, rfl, rfl, rfl, rfl⟩, rfl, rfl, .set_none hcj hn, Nat.le_succ _, Nat.le_succ _⟩
      · rw [e] at hp; cases hp; exact StepFrame.refl _ _ _
      · rw [e] at hp; cases hp
        exact ⟨⟨rfl, rfl, rfl, rfl, rfl, rfl⟩, rfl, rfl, .set_other hcj hn rfl, Nat.le_succ _, Nat.le_succ _⟩
      · rw [e] at hp; cases hp
  | disconnect i =>
    have hp : s.disconnect a i = .ok (r, s') := by
      simp only [step] at h
      cases hp : s.disconnect a i with
      | ok x => rw [hp] at h; cases h; rfl
      | err e => exact e.elim
      | panic m => rw [hp] at h; cases h
    rcases disconnect_spec a s i with ⟨_, e⟩ | ⟨j, cj, o, _, hcj, hidj, e⟩
    · rw [e] at hp; cases hp; exact StepFrame.refl _ _ _
    · rw [e] at hp; cases hp
      exact ⟨⟨rfl, rfl, rfl, rfl, rfl, rfl⟩, rfl, rfl, .set_none hcj (Or.inl (by rw [hidj]; exact hop)), Nat.le_succ _, Nat.le_succ _⟩
  | sendPayload i p =>
    simp only [step] at h
    cases hp : s.generatePayloadPacket a i p with
    | ok x =>
      obtain ⟨⟨ad, out⟩, s''⟩ := x
      rw [hp] at h; cases h
      obtain ⟨j, cj, _, hcj, hidj, _, _, rfl⟩ := generatePayload_ok hp
      exact ⟨⟨rfl, rfl, rfl, rfl, rfl, rfl⟩, rfl, rfl, .set_other hcj (Or.inl (by rw [hidj]; exact hop)) rfl, Nat.le_succ _,
        Nat.le_succ _⟩
    | err e => rw [hp] at h; cases h; exact StepFrame.refl _ _ _
    | panic m => rw [hp] at h; cases h

/-- no result of the list announces a connection of client `id` -/
def Quiet (id : Nat) (rs : List ServerResult) : Prop := ∀ ad ud p, ServerResult.clientConnected id ad ud p ∉ rs

/-- **the id stays free** as long as no operation reports `ClientConnected id` -/
theorem step_idFree {a : AEAD} {s s' : NetcodeServer} {addr : Addr} {id : Nat} {op : Op} {r : ServerResult}
    (hi : ServerInv s) (hop : NotMine addr id op) (h : step a s op = some (r, s'))
    (hfree : findClientById s.clients id = none) (hq : ∀ ad ud p, r ≠ .clientConnected id ad ud p) :
    findClientById s'.clients id = none := by
  rw [findById_none] at hfree ⊢
  rcases step_table hi h with ht | ⟨_, n, hg⟩
  · cases r with
    | clientConnected id' ad ud p =>
      obtain ⟨k, c, _, e, hc1, _⟩ := ht
      intro i ci hci
      rw [e] at hci
      rcases at_set_some hci with ⟨rfl, rfl⟩ | ⟨_, h'⟩
      · rw [hc1]; intro e'; subst e'; exact hq ad ud p rfl
      · exact hfree i ci h'
    | clientDisconnected id' ad o =>
      obtain ⟨k, c, _, _, _, e⟩ := ht
      intro i ci hci
      rw [e] at hci
      exact hfree i ci (at_set_none hci).1
    | none =>
      intro i ci hci
      obtain ⟨c, hc, hident⟩ := at_sessions ht hci
      rw [← ident_id hident]; exact hfree i c hc
    | packetToSend ad out =>
      intro i ci hci
      obtain ⟨c, hc, hident⟩ := at_sessions ht hci
      rw [← ident_id hident]; exact hfree i c hc
    | payload id' pl =>
      intro i ci hci
      obtain ⟨c, hc, hident⟩ := at_sessions ht hci
      rw [← ident_id hident]; exact hfree i c hc
  · intro i ci hci
    rw [hg] at hci
    exact hfree i ci (at_append_none.mp hci)

/-- **The footprint of a block of `n` bystander operations.** -/
structure BlockFrame (addr : Addr) (id : Nat) (s s' : NetcodeServer) (n : Nat) : Prop where
  cfg : SameCfg s s'
  inv : ServerInv s'
  time : s'.currentTime = s.currentTime
  pend : pendingFind s'.pendingClients addr = pendingFind s.pendingClients addr
  slots : SlotFrame addr id s.clients s'.clients
  gLe : s'.globalSequence ≤ s.globalSequence + n
  cLe : s'.challengeSequence ≤ s.challengeSequence + n

/-- **the frame lemma, a whole block** (induction over the operations) -/
theorem block_frame {a : AEAD} {addr : Addr} {id : Nat} : ∀ (b : List Op) {s s' : NetcodeServer} {rs : List ServerResult},
    ServerInv s → (∀ op ∈ b, NotMine addr id op) → runOps a s b = some (rs, s') →
    BlockFrame addr id s s' b.length ∧
      (findClientById s.clients id = none → Quiet id rs → findClientById s'.clients id = none)
  | [], s, s', rs, hi, _, h => by
    simp only [runOps, Option.some.injEq, Prod.mk.injEq] at h
    obtain ⟨_, rfl⟩ := h
    exact ⟨⟨SameCfg.refl s, hi, rfl, rfl, .refl _ _ _, Nat.le_refl _, Nat.le_refl _⟩, fun h _ => h⟩
  | op :: rest, s, s', rs, hi, hm, h => by
    obtain ⟨r, s1, rs', hs, hr, rfl⟩ := runOps_cons h
    have hop := hm op (by simp)
    have f1 := step_frame hi hop hs
    obtain ⟨f2, hid2⟩ := block_frame rest (step_inv hi hs) (fun o ho => hm o (by simp [ho])) hr
    refine ⟨⟨f1.cfg.trans f2.cfg, f2.inv, f2.time.trans f1.time, f2.pend.trans f1.pend, f1.slots.trans f2.slots, ?_, ?_⟩, ?_⟩
    · have := f1.gLe; have := f2.gLe; simp only [List.length_cons]; omega
    · have := f1.cLe; have := f2.cLe; simp only [List.length_cons]; omega
    · intro hfree hq
      refine hid2 (step_idFree hi hop hs hfree fun ad ud p e => hq ad ud p (by simp [e])) ?_
      intro ad ud p hmem
      exact hq ad ud p (by simp [hmem])

/-! ### B.2 rounds with bystander blocks -/

/-- A round together with the bystander operations the server processes around its own steps: `b1` before its
    `update(d)`, `b2` between the `update` and the arrival of the client's datagram, `b3` between that and the
    per-client tick `update_client(id)`.  (What comes after the tick is the `b1` of the next round.) -/
structure RoundSpec where
  b1 : List Op
  b2 : List Op
  b3 : List Op
  f : Fate
  d : Nat

/-- the number of bystander operations of a round -/
def RoundSpec.ops (x : RoundSpec) : Nat := x.b1.length + x.b2.length + x.b3.length

/-- the server after a block of operations whose results go to others; `none` = an operation unwound -/
def runBy (a : AEAD) (s : NetcodeServer) (b : List Op) : Option NetcodeServer := (runOps a s b).map (·.2)

theorem runBy_of_runOps {a : AEAD} {s s' : NetcodeServer} {b : List Op} {rs : List ServerResult}
    (h : runOps a s b = some (rs, s')) : runBy a s b = some s' := by simp only [runBy, h, Option.map_some]

/-- **One round with bystanders**: `round` of Lemmas/NcLive2.lean with the three blocks inserted. -/
def roundB (a : AEAD) (addr me : Addr) (id : Nat) (x : RoundSpec) (w : NetcodeClient × NetcodeServer) :
    Option (NetcodeClient × NetcodeServer) :=
  match runBy a w.2 x.b1 with
  | none => none
  | some sa =>
    match sa.update x.d, w.1.update a x.d with
    | .ok s1, .ok (out, c1) =>
      match runBy a s1 x.b2 with
      | none => none
      | some sb =>
        match up a addr me x.f out sb with
        | some (r, s2) =>
          match runBy a s2 x.b3 with
          | none => none
          | some sc =>
            match sc.updateClient a id with
            | .ok (r', s3) => (down a addr x.f r r' c1).map fun c3 => (c3, s3)
            | _ => none
        | none => none
    | _, _ => none

/-- without bystanders it is `round` -/
theorem roundB_nil (a : AEAD) (addr me : Addr) (id : Nat) (f : Fate) (d : Nat) (w : NetcodeClient × NetcodeServer) :
    roundB a addr me id ⟨[], [], [], f, d⟩ w = round a addr me id f d w := by
  unfold roundB round
  simp only [runBy, runOps, Option.map_some]
  cases w.2.update d with
  | ok s1 =>
    cases w.1.update a d with
    | ok p =>
      obtain ⟨out, c1⟩ := p
      simp only
      cases up a addr me f out s1 with
      | none => rfl
      | some q => rfl
    | err e => exact e.elim
    | panic m => rfl
  | err e => exact e.elim
  | panic m => rfl

/-- a schedule of rounds with bystanders -/
def runRoundsB (a : AEAD) (addr me : Addr) (id : Nat) :
    List RoundSpec → NetcodeClient × NetcodeServer → Option (NetcodeClient × NetcodeServer)
  | [], w => some w
  | x :: rest, w => (roundB a addr me id x w).bind (runRoundsB a addr me id rest)

theorem runRoundsB_append (a : AEAD) (addr me : Addr) (id : Nat) (l1 l2 : List RoundSpec)
    (w : NetcodeClient × NetcodeServer) :
    runRoundsB a addr me id (l1 ++ l2) w = (runRoundsB a addr me id l1 w).bind (runRoundsB a addr me id l2) := by
  induction l1 generalizing w with
  | nil => rfl
  | cons x rest ih =>
    simp only [List.cons_append, runRoundsB]
    cases roundB a addr me id x w with
    | none => rfl
    | some w' => simp only [Option.bind_some, ih]

/-- duration and number of events (rounds and bystander operations) of a schedule -/
def totalTimeB : List RoundSpec → Nat
  | [] => 0
  | x :: rest => x.d + totalTimeB rest
def costB : List RoundSpec → Nat
  | [] => 0
  | x :: rest => 1 + x.ops + costB rest

theorem totalTimeB_append (l1 l2 : List RoundSpec) : totalTimeB (l1 ++ l2) = totalTimeB l1 + totalTimeB l2 := by
  induction l1 with
  | nil => simp [totalTimeB]
  | cons x rest ih => simp only [List.cons_append, totalTimeB, ih]; omega
theorem costB_append (l1 l2 : List RoundSpec) : costB (l1 ++ l2) = costB l1 + costB l2 := by
  induction l1 with
  | nil => simp [costB]
  | cons x rest ih => simp only [List.cons_append, costB, ih]; omega

theorem roundB_intro {a : AEAD} {addr me : Addr} {id : Nat} {x : RoundSpec} {c c1 c3 : NetcodeClient}
    {s sa s1 sb s2 sc s3 : NetcodeServer} {out : Option (Bytes × Addr)} {r r' : ServerResult}
    (h0 : runBy a s x.b1 = some sa) (h1 : sa.update x.d = .ok s1) (h2 : c.update a x.d = .ok (out, c1))
    (h3 : runBy a s1 x.b2 = some sb) (h4 : up a addr me x.f out sb = some (r, s2)) (h5 : runBy a s2 x.b3 = some sc)
    (h6 : sc.updateClient a id = .ok (r', s3)) (h7 : down a addr x.f r r' c1 = some c3) :
    roundB a addr me id x (c, s) = some (c3, s3) := by
  simp only [roundB, h0, h1, h2, h3, h4, h5, h6, h7, Option.map_some]

/-! ### B.3 what the bystanders must leave free -/

/-- **room for this client's request**: fewer than the maximum *other* half-open sessions (a pending place), the token
    not bound to another address, fewer than `max_clients` connected (a slot) -/
structure Room (a : AEAD) (s0 : NetcodeServer) (addr : Addr) (t : PrivateConnectToken) (expire : Nat) (xnonce : Bytes)
    (s : NetcodeServer) : Prop where
  room : (pendingRemove s.pendingClients addr).length < C.NETCODE_MAX_PENDING_CLIENTS
  bound : Bound s addr (tokenMac (sealedPriv a s0 t expire xnonce))
  cap : countConnected s.clients < s.maxClients

/-- what the server keeps for this client through every bystander operation that does not connect its id:
    configuration, invariant, nobody connected from `addr`, id not connected -/
structure Core (s0 : NetcodeServer) (addr : Addr) (t : PrivateConnectToken) (s : NetcodeServer) : Prop where
  cfg : SameCfg s0 s
  inv : ServerInv s
  addrFree : findClientByAddr s.clients addr = none
  idFree : findClientById s.clients t.clientId = none

/-- the half-open session of the token is there -/
def HasPend (addr : Addr) (t : PrivateConnectToken) (expire : Nat) (s : NetcodeServer) : Prop :=
  ∃ p, pendingFind s.pendingClients addr = some p ∧ ident p = identT addr expire t

def isConnOf (id : Nat) : ServerResult → Bool
  | .clientConnected i _ _ _ => i == id
  | _ => false

def quietB (id : Nat) (rs : List ServerResult) : Bool := rs.all fun r => !isConnOf id r

theorem quietB_iff {id : Nat} {rs : List ServerResult} : quietB id rs = true ↔ Quiet id rs := by
  unfold quietB Quiet
  rw [List.all_eq_true]
  constructor
  · intro h ad ud p hm
    have := h _ hm
    simp [isConnOf] at this
  · intro h r hr
    cases r with
    | clientConnected i ad ud p =>
      simp only [isConnOf, Bool.not_eq_true', beq_eq_false_iff_ne, ne_eq]
      intro e; subst e; exact h ad ud p hr
    | _ => rfl

def boundB (s : NetcodeServer) (addr : Addr) (mac : Bytes) : Bool :=
  s.connectTokenEntries.all fun o =>
    match o with
    | some e => decide (e.mac = mac → e.address = addr)
    | none => true

theorem boundB_iff {s : NetcodeServer} {addr : Addr} {mac : Bytes} : boundB s addr mac = true ↔ Bound s addr mac := by
  unfold boundB Bound
  rw [List.all_eq_true]
  constructor
  · intro h e he hm
    have := h _ he
    simp only [decide_eq_true_eq] at this
    exact this hm
  · intro h o ho
    cases o with
    | none => rfl
    | some e => simp only [decide_eq_true_eq]; exact h e ho

def roomB (a : AEAD) (s0 : NetcodeServer) (addr : Addr) (t : PrivateConnectToken) (expire : Nat) (xnonce : Bytes)
    (s : NetcodeServer) : Bool :=
  decide ((pendingRemove s.pendingClients addr).length < C.NETCODE_MAX_PENDING_CLIENTS) &&
    boundB s addr (tokenMac (sealedPriv a s0 t expire xnonce)) && decide (countConnected s.clients < s.maxClients)

theorem roomB_iff {a : AEAD} {s0 : NetcodeServer} {addr : Addr} {t : PrivateConnectToken} {expire : Nat} {xnonce : Bytes}
    {s : NetcodeServer} : roomB a s0 addr t expire xnonce s = true ↔ Room a s0 addr t expire xnonce s := by
  unfold roomB
  simp only [Bool.and_eq_true, decide_eq_true_eq, boundB_iff]
  exact ⟨fun h => ⟨h.1.1, h.1.2, h.2⟩, fun h => ⟨⟨h.1, h.2⟩, h.3⟩⟩

/-- **what must be free when a datagram of this client arrives** (server state `sb`, client state before its
    `update`: `c`).  A request needs `Room`; a response needs a free slot — unless the server already holds the
    session (a retransmitted response, which it ignores). -/
def Arr (a : AEAD) (s0 : NetcodeServer) (addr : Addr) (t : PrivateConnectToken) (expire : Nat) (xnonce : Bytes)
    (c : NetcodeClient) (sb : NetcodeServer) : Prop :=
  (c.state = .sendingConnectionRequest → Room a s0 addr t expire xnonce sb) ∧
  (c.state = .sendingConnectionResponse → findClientById sb.clients t.clientId = none →
    countConnected sb.clients < sb.maxClients)

def arrB (a : AEAD) (s0 : NetcodeServer) (addr : Addr) (t : PrivateConnectToken) (expire : Nat) (xnonce : Bytes)
    (c : NetcodeClient) (sb : NetcodeServer) : Bool :=
  match c.state with
  | .sendingConnectionRequest => roomB a s0 addr t expire xnonce sb
  | .sendingConnectionResponse =>
    (findClientById sb.clients t.clientId).isSome || decide (countConnected sb.clients < sb.maxClients)
  | _ => true

theorem arrB_iff {a : AEAD} {s0 : NetcodeServer} {addr : Addr} {t : PrivateConnectToken} {expire : Nat} {xnonce : Bytes}
    {c : NetcodeClient} {sb : NetcodeServer} (h : arrB a s0 addr t expire xnonce c sb = true) :
    Arr a s0 addr t expire xnonce c sb := by
  unfold arrB at h
  unfold Arr
  split at h
  · rename_i hst
    exact ⟨fun _ => roomB_iff.mp h, fun e => (by rw [hst] at e; cases e)⟩
  · rename_i hst
    refine ⟨fun e => (by rw [hst] at e; cases e), fun _ hfree => ?_⟩
    rw [hfree] at h
    simpa using h
  · rename_i h1 h2
    exact ⟨fun e => absurd e h1, fun e => absurd e h2⟩

/-- **The bystander hypothesis of one round**, run from the world `w` (as a computable check; `roundOK_elim` spells it
    out): every operation of the three blocks is `NotMine`; `b1` runs to its end from the server's state, `b2` from
    the state after the `update`, `b3` from the state after the client's datagram (if any) has been processed — none
    unwinds, none reports `ClientConnected` for this client's id; and if the client's datagram reaches the server,
    `Arr` holds in the state in which it arrives. -/
def roundOKB (a : AEAD) (s0 : NetcodeServer) (addr me : Addr) (t : PrivateConnectToken) (expire : Nat) (xnonce : Bytes)
    (x : RoundSpec) (w : NetcodeClient × NetcodeServer) : Bool :=
  (x.b1 ++ x.b2 ++ x.b3).all (fun op => decide (NotMine addr t.clientId op)) &&
  match runOps a w.2 x.b1 with
  | none => false
  | some (rs1, sa) => quietB t.clientId rs1 &&
    match runOps a (srvTick sa x.d) x.b2 with
    | none => false
    | some (rs2, sb) => quietB t.clientId rs2 &&
      match w.1.update a x.d with
      | .ok (out, _) =>
        (match out with
         | some (_, dst) => if dst = me ∧ x.f ≠ .upLost then arrB a s0 addr t expire xnonce w.1 sb else true
         | none => true) &&
        (match up a addr me x.f out sb with
         | some (_, s2) =>
           (match runOps a s2 x.b3 with
            | some (rs3, _) => quietB t.clientId rs3
            | none => false)
         | none => true)
      | _ => true

theorem roundOK_elim {a : AEAD} {s0 : NetcodeServer} {addr me : Addr} {t : PrivateConnectToken} {expire : Nat}
    {xnonce : Bytes} {x : RoundSpec} {w : NetcodeClient × NetcodeServer}
    (h : roundOKB a s0 addr me t expire xnonce x w = true) :
    (∀ op ∈ x.b1 ++ x.b2 ++ x.b3, NotMine addr t.clientId op) ∧
    ∃ rs1 sa, runOps a w.2 x.b1 = some (rs1, sa) ∧ Quiet t.clientId rs1 ∧
    ∃ rs2 sb, runOps a (srvTick sa x.d) x.b2 = some (rs2, sb) ∧ Quiet t.clientId rs2 ∧
    ∀ out c1, w.1.update a x.d = .ok (out, c1) →
      (∀ dg, out = some (dg, me) → x.f ≠ .upLost → Arr a s0 addr t expire xnonce w.1 sb) ∧
      ∀ r s2, up a addr me x.f out sb = some (r, s2) →
        ∃ rs3 sc, runOps a s2 x.b3 = some (rs3, sc) ∧ Quiet t.clientId rs3 := by
  unfold roundOKB at h
  rw [Bool.and_eq_true] at h
  obtain ⟨h0, h⟩ := h
  have hm : ∀ op ∈ x.b1 ++ x.b2 ++ x.b3, NotMine addr t.clientId op := by
    intro op hop
    have := List.all_eq_true.mp h0 op hop
    simpa using this
  refine ⟨hm, ?_⟩
  cases h1 : runOps a w.2 x.b1 with
  | none => rw [h1] at h; cases h
  | some p1 =>
    obtain ⟨rs1, sa⟩ := p1
    rw [h1] at h
    simp only [Bool.and_eq_true] at h
    obtain ⟨hq1, h⟩ := h
    cases h2 : runOps a (srvTick sa x.d) x.b2 with
    | none => rw [h2] at h; cases h
    | some p2 =>
      obtain ⟨rs2, sb⟩ := p2
      rw [h2] at h
      simp only [Bool.and_eq_true] at h
      obtain ⟨hq2, h⟩ := h
      refine ⟨rs1, sa, rfl, quietB_iff.mp hq1, rs2, sb, h2, quietB_iff.mp hq2, ?_⟩
      intro out c1 hcu
      rw [hcu] at h
      simp only [Bool.and_eq_true] at h
      obtain ⟨ha, h3⟩ := h
      constructor
      · intro dg e hf
        subst e
        have ha' : arrB a s0 addr t expire xnonce w.1 sb = true := by simpa [hf] using ha
        exact arrB_iff ha'
      · intro r s2 hup
        rw [hup] at h3
        simp only at h3
        cases h4 : runOps a s2 x.b3 with
        | none => rw [h4] at h3; cases h3
        | some p3 =>
          obtain ⟨rs3, sc⟩ := p3
          rw [h4] at h3
          exact ⟨rs3, sc, rfl, quietB_iff.mp h3⟩

/-- **the bystander hypothesis of a whole schedule**: `roundOKB` for every round, each in the world the previous
    rounds lead to -/
def bysOKB (a : AEAD) (s0 : NetcodeServer) (addr me : Addr) (t : PrivateConnectToken) (expire : Nat) (xnonce : Bytes) :
    List RoundSpec → NetcodeClient × NetcodeServer → Bool
  | [], _ => true
  | x :: rest, w => roundOKB a s0 addr me t expire xnonce x w &&
    match roundB a addr me t.clientId x w with
    | some w' => bysOKB a s0 addr me t expire xnonce rest w'
    | none => true

def BysOK (a : AEAD) (s0 : NetcodeServer) (addr me : Addr) (t : PrivateConnectToken) (expire : Nat) (xnonce : Bytes)
    (xs : List RoundSpec) (w : NetcodeClient × NetcodeServer) : Prop := bysOKB a s0 addr me t expire xnonce xs w = true

instance (a : AEAD) (s0 : NetcodeServer) (addr me : Addr) (t : PrivateConnectToken) (expire : Nat) (xnonce : Bytes)
    (xs : List RoundSpec) (w : NetcodeClient × NetcodeServer) : Decidable (BysOK a s0 addr me t expire xnonce xs w) := by
  unfold BysOK; infer_instance

theorem bysOK_cons {a : AEAD} {s0 : NetcodeServer} {addr me : Addr} {t : PrivateConnectToken} {expire : Nat}
    {xnonce : Bytes} {x : RoundSpec} {rest : List RoundSpec} {w : NetcodeClient × NetcodeServer} :
    BysOK a s0 addr me t expire xnonce (x :: rest) w ↔
      roundOKB a s0 addr me t expire xnonce x w = true ∧
      ∀ w', roundB a addr me t.clientId x w = some w' → BysOK a s0 addr me t expire xnonce rest w' := by
  unfold BysOK
  simp only [bysOKB, Bool.and_eq_true]
  constructor
  · rintro ⟨h1, h2⟩
    refine ⟨h1, fun w' hw => ?_⟩
    rw [hw] at h2; exact h2
  · rintro ⟨h1, h2⟩
    refine ⟨h1, ?_⟩
    cases hr : roundB a addr me t.clientId x w with
    | none => rfl
    | some w' => exact h2 w' hr

theorem bysOK_append {a : AEAD} {s0 : NetcodeServer} {addr me : Addr} {t : PrivateConnectToken} {expire : Nat}
    {xnonce : Bytes} : ∀ {l1 l2 : List RoundSpec} {w w' : NetcodeClient × NetcodeServer},
    BysOK a s0 addr me t expire xnonce (l1 ++ l2) w → runRoundsB a addr me t.clientId l1 w = some w' →
    BysOK a s0 addr me t expire xnonce l2 w'
  | [], _, w, w', h, hr => by
    simp only [runRoundsB, Option.some.injEq] at hr
    subst hr; exact h
  | x :: rest, l2, w, w', h, hr => by
    rw [List.cons_append, bysOK_cons] at h
    simp only [runRoundsB] at hr
    cases h1 : roundB a addr me t.clientId x w with
    | none => rw [h1] at hr; cases hr
    | some w1 =>
      rw [h1, Option.bind_some] at hr
      exact bysOK_append (h.2 w1 h1) hr

theorem bysOK_prefix {a : AEAD} {s0 : NetcodeServer} {addr me : Addr} {t : PrivateConnectToken} {expire : Nat}
    {xnonce : Bytes} : ∀ {l1 l2 : List RoundSpec} {w : NetcodeClient × NetcodeServer},
    BysOK a s0 addr me t expire xnonce (l1 ++ l2) w → BysOK a s0 addr me t expire xnonce l1 w
  | [], _, _, _ => rfl
  | x :: rest, l2, w, h => by
    rw [List.cons_append, bysOK_cons] at h
    exact bysOK_cons.mpr ⟨h.1, fun w' hw => bysOK_prefix (h.2 w' hw)⟩

/-! ### B.4 the rounds of a handshake, with bystanders -/

section Bys
variable {a : AEAD} {s0 : NetcodeServer} {addr me : Addr} {t : PrivateConnectToken} {expire : Nat} {xnonce : Bytes}

theorem Core.ofOpen {s : NetcodeServer} (h : SrvOpen a s0 addr t expire xnonce s) : Core s0 addr t s :=
  ⟨h.cfg, h.inv, h.addrFree, h.idFree⟩

theorem Core.open {s : NetcodeServer} (h : Core s0 addr t s) (hr : Room a s0 addr t expire xnonce s) :
    SrvOpen a s0 addr t expire xnonce s := ⟨h.cfg, h.inv, h.addrFree, h.idFree, hr.room, hr.bound, hr.cap⟩

theorem Room.ofOpen {s : NetcodeServer} (h : SrvOpen a s0 addr t expire xnonce s) : Room a s0 addr t expire xnonce s :=
  ⟨h.room, h.bound, h.cap⟩

theorem Core.block {s s' : NetcodeServer} {n : Nat} (h : Core s0 addr t s) (hf : BlockFrame addr t.clientId s s' n)
    (hid : findClientById s'.clients t.clientId = none) : Core s0 addr t s' :=
  ⟨h.cfg.trans hf.cfg, hf.inv, findAddr_none.mpr (hf.slots.addrFree (findAddr_none.mp h.addrFree)), hid⟩

theorem Core.tick {s : NetcodeServer} {d : Nat} (h : Core s0 addr t s) (hd : s.currentTime + d ≤ DURATION_MAX) :
    Core s0 addr t (srvTick s d) :=
  ⟨⟨h.cfg.1, h.cfg.2, h.cfg.3, h.cfg.4, h.cfg.5, h.cfg.6⟩, update_inv h.inv (server_update_eq hd), h.addrFree, h.idFree⟩

theorem notMine_split {id : Nat} {x : RoundSpec} (hm : ∀ op ∈ x.b1 ++ x.b2 ++ x.b3, NotMine addr id op) :
    (∀ op ∈ x.b1, NotMine addr id op) ∧ (∀ op ∈ x.b2, NotMine addr id op) ∧ (∀ op ∈ x.b3, NotMine addr id op) :=
  ⟨fun op h => hm op (by simp [h]), fun op h => hm op (by simp [h]), fun op h => hm op (by simp [h])⟩

/-- the server up to the arrival of the client's datagram (block, `update(d)`, block), id not connected -/
theorem start_core {s sa sb : NetcodeServer} {rs1 rs2 : List ServerResult} {b1 b2 : List Op} {d : Nat}
    (hs : Core s0 addr t s) (hm1 : ∀ op ∈ b1, NotMine addr t.clientId op) (hm2 : ∀ op ∈ b2, NotMine addr t.clientId op)
    (h1 : runOps a s b1 = some (rs1, sa)) (q1 : Quiet t.clientId rs1) (hclk : s.currentTime + d ≤ DURATION_MAX)
    (h2 : runOps a (srvTick sa d) b2 = some (rs2, sb)) (q2 : Quiet t.clientId rs2) :
    sa.update d = .ok (srvTick sa d) ∧ Core s0 addr t sb ∧ sb.currentTime = s.currentTime + d ∧
    sb.globalSequence ≤ s.globalSequence + (b1.length + b2.length) ∧
    sb.challengeSequence ≤ s.challengeSequence + (b1.length + b2.length) ∧
    (∀ p, pendingFind s.pendingClients addr = some p → asSecs (s.currentTime + d) ≤ p.expireTimestamp →
      pendingFind sb.pendingClients addr = some p) := by
  obtain ⟨f1, i1⟩ := block_frame b1 hs.inv hm1 h1
  have csa := hs.block f1 (i1 hs.idFree q1)
  have hclk' : sa.currentTime + d ≤ DURATION_MAX := by rw [f1.time]; exact hclk
  have ct := csa.tick hclk'
  obtain ⟨f2, i2⟩ := block_frame b2 ct.inv hm2 h2
  have csb := ct.block f2 (i2 ct.idFree q2)
  have g1 := f1.gLe; have g2 := f2.gLe; have c1 := f1.cLe; have c2 := f2.cLe
  refine ⟨server_update_eq hclk', csb, by rw [f2.time]; show sa.currentTime + d = _; rw [f1.time], ?_, ?_, ?_⟩
  · have : (srvTick sa d).globalSequence = sa.globalSequence := rfl
    omega
  · have : (srvTick sa d).challengeSequence = sa.challengeSequence := rfl
    omega
  · intro p hp he
    rw [f2.pend]
    exact pending_survives_tick (by rw [f1.pend]; exact hp) (by rw [f1.time]; exact he)

/-- the server after the client's datagram (block, per-client tick), id still not connected -/
theorem finish_core {s2 sc : NetcodeServer} {rs3 : List ServerResult} {b3 : List Op} (hs2 : Core s0 addr t s2)
    (hm3 : ∀ op ∈ b3, NotMine addr t.clientId op) (h3 : runOps a s2 b3 = some (rs3, sc)) (q3 : Quiet t.clientId rs3) :
    sc.updateClient a t.clientId = .ok (.none, sc) ∧ Core s0 addr t sc ∧ BlockFrame addr t.clientId s2 sc b3.length := by
  obtain ⟨f3, i3⟩ := block_frame b3 hs2.inv hm3 h3
  have csc := hs2.block f3 (i3 hs2.idFree q3)
  exact ⟨updateClient_absent a (findSlot_none.mpr csc.idFree), csc, f3⟩

/-- a bystander block leaves the session of this client alone -/
theorem srvConn_block {T N D n : Nat} {s s' : NetcodeServer} (h : SrvConn s0 addr t expire T N D s)
    (hf : BlockFrame addr t.clientId s s' n) : SrvConn s0 addr t expire T N D s' := by
  obtain ⟨i, cn, h1, h2, h3, h4, h5⟩ := h.sess
  obtain ⟨e1, e2, _⟩ := identT_fields h2
  exact ⟨h.cfg.trans hf.cfg, hf.inv, i, cn, hf.slots.mine i cn h1 e1 e2, h2, h3, by rw [hf.time]; exact h4,
    by rw [hf.time]; exact h5⟩

/-- the server up to the arrival of the client's datagram, session held -/
theorem start_conn {T N D d : Nat} {s sa sb : NetcodeServer} {rs1 rs2 : List ServerResult} {b1 b2 : List Op}
    (hs : SrvConn s0 addr t expire T N D s) (hd : d ≤ T) (hm1 : ∀ op ∈ b1, NotMine addr t.clientId op)
    (hm2 : ∀ op ∈ b2, NotMine addr t.clientId op) (h1 : runOps a s b1 = some (rs1, sa))
    (hclk : s.currentTime + d ≤ DURATION_MAX) (h2 : runOps a (srvTick sa d) b2 = some (rs2, sb)) :
    sa.update d = .ok (srvTick sa d) ∧ SrvConn s0 addr t expire (T - d) N (D + d) sb ∧
    sb.currentTime = s.currentTime + d ∧ sb.globalSequence ≤ s.globalSequence + (b1.length + b2.length) ∧
    sb.challengeSequence ≤ s.challengeSequence + (b1.length + b2.length) := by
  obtain ⟨f1, _⟩ := block_frame b1 hs.inv hm1 h1
  have csa := srvConn_block hs f1
  have hclk' : sa.currentTime + d ≤ DURATION_MAX := by rw [f1.time]; exact hclk
  have ct := csa.tick hd hclk'
  obtain ⟨f2, _⟩ := block_frame b2 ct.inv hm2 h2
  have g1 := f1.gLe; have g2 := f2.gLe; have c1 := f1.cLe; have c2 := f2.cLe
  refine ⟨server_update_eq hclk', srvConn_block ct f2, by rw [f2.time]; show sa.currentTime + d = _; rw [f1.time], ?_, ?_⟩
  · have : (srvTick sa d).globalSequence = sa.globalSequence := rfl
    omega
  · have : (srvTick sa d).challengeSequence = sa.challengeSequence := rfl
    omega

theorem budget_stepB {c c' : NetcodeClient} {s s' : NetcodeServer} {T N n d : Nat}
    (hb : Budget t expire c s T (N + 1 + n)) (hd : d ≤ T) (hcb : CBudget c' (T - d))
    (h1 : s'.currentTime = s.currentTime + d) (h2 : c'.sequence ≤ c.sequence + 1)
    (h3 : s'.globalSequence ≤ s.globalSequence + 1 + n) (h4 : s'.challengeSequence ≤ s.challengeSequence + 1 + n) :
    Budget t expire c' s' (T - d) N := by
  have e1 := hb.sclock; have e2 := hb.sexp; have e3 := hb.stmo; have e4 := hb.cseq; have e5 := hb.gseq
  have e6 := hb.chseq
  have ht : s.currentTime + d + (T - d) = s.currentTime + T := by omega
  refine ⟨hcb, by rw [h1]; omega, by rw [h1, ht]; exact e2, ?_, by omega, by omega, by omega⟩
  rcases e3 with e | e
  · exact Or.inl e
  · exact Or.inr (by omega)

/-- **request phase, a round in which the client hears nothing** — with bystanders.  If the request reaches the
    server (the answer is lost), `Room` holds at its arrival (`roundOKB`), so it is answered with a challenge. -/
theorem roundB_req_lossy (hT : TokOK a s0 t expire xnonce) {c : NetcodeClient} {s : NetcodeServer} {x : RoundSpec}
    {T N : Nat} (hc : CliReq a s0 t expire xnonce c) (hs : Core s0 addr t s)
    (hb : Budget t expire c s T (N + 1 + x.ops)) (hd : x.d ≤ T) (hf : x.f ≠ .delivered ∨ c.serverAddr ≠ me)
    (hok : roundOKB a s0 addr me t expire xnonce x (c, s) = true) :
    ∃ c' s', roundB a addr me t.clientId x (c, s) = some (c', s') ∧ CliReq a s0 t expire xnonce c' ∧
      Core s0 addr t s' ∧ Budget t expire c' s' (T - x.d) N ∧ CliSame c c' ∧
      c'.currentTime = c.currentTime + x.d ∧ s'.currentTime = s.currentTime + x.d := by
  have hU : U64_MAX = 2 ^ 64 - 1 := rfl
  obtain ⟨hm, rs1, sa, h1, q1, rs2, sb, h2, q2, hrest⟩ := roundOK_elim hok
  obtain ⟨hm1, hm2, hm3⟩ := notMine_split hm
  have e1 := hb.sclock; have e2 := hb.sexp; have e4 := hb.cseq; have e5 := hb.gseq; have e6 := hb.chseq
  have hops : x.ops = x.b1.length + x.b2.length + x.b3.length := rfl
  obtain ⟨hsu, hsb, htb, hgb, hchb, _⟩ := start_core hs hm1 hm2 h1 q1 (by omega) h2 q2
  by_cases hg : GateOpen c x.d
  · have hcu := update_sends_request a hT.laws hc.tok hT.wf hT.xn hc.st hb.cb hd (by omega) hc.sendLe hg
    have hc' : CliReq a s0 t expire xnonce (cliSent c x.d) :=
      ⟨hc.st, hc.tok, fun tm e => by simp only [Option.some.injEq] at e; subst e; exact Nat.le_refl _, hc.rp⟩
    have hcbud : CBudget (cliSent c x.d) (T - x.d) := hb.cb.step hd rfl rfl rfl (Or.inl rfl)
    have hsame : CliSame c (cliSent c x.d) := ⟨rfl, rfl, rfl, rfl, rfl, rfl, rfl, Nat.le_succ _⟩
    by_cases hl : x.f = .upLost ∨ c.serverAddr ≠ me
    · obtain ⟨_, h3⟩ := hrest _ _ hcu
      have hup := up_lost a addr me (dg := requestBytes a s0 t expire xnonce) sb hl
      obtain ⟨rs3, sc, h3', q3⟩ := h3 _ _ hup
      obtain ⟨hidle, hsc, f3⟩ := finish_core hsb hm3 h3' q3
      have g3 := f3.gLe; have c3 := f3.cLe
      exact ⟨cliSent c x.d, sc, roundB_intro (runBy_of_runOps h1) hsu hcu (runBy_of_runOps h2) hup (runBy_of_runOps h3')
        hidle (down_nothing a addr x.f _ rfl rfl), hc', hsc,
        budget_stepB hb hd hcbud (by rw [f3.time, htb]) (Nat.le_refl _) (by omega) (by omega), hsame, rfl,
        by rw [f3.time, htb]⟩
    · have hf' : x.f ≠ .upLost := fun e => hl (Or.inl e)
      have hme : c.serverAddr = me := Classical.byContradiction fun e => hl (Or.inr e)
      have hfd : x.f ≠ .delivered := by
        rcases hf with h | h
        · exact h
        · exact absurd hme h
      rw [hme] at hcu
      obtain ⟨harr, h3⟩ := hrest _ _ hcu
      have hso := hsb.open ((harr _ rfl hf').1 hc.st)
      obtain ⟨s2, hpp, hs2, hpf, hcs, hgs, htm⟩ := hso.request hT (by omega) (by omega)
        (Nat.lt_of_le_of_lt (asSecs_mono (by rw [htb]; omega)) e2)
      have hup := up_arrives a addr me hf' hpp
      obtain ⟨rs3, sc, h3', q3⟩ := h3 _ _ hup
      obtain ⟨hidle, hsc, f3⟩ := finish_core (Core.ofOpen hs2) hm3 h3' q3
      have g3 := f3.gLe; have c3 := f3.cLe
      exact ⟨cliSent c x.d, sc, roundB_intro (runBy_of_runOps h1) hsu hcu (runBy_of_runOps h2) hup (runBy_of_runOps h3')
        hidle (down_lossy a addr hfd _ _ _), hc', hsc,
        budget_stepB hb hd hcbud (by rw [f3.time, htm, htb]) (Nat.le_refl _) (by omega) (by omega), hsame, rfl,
        by rw [f3.time, htm, htb]⟩
  · have hcu := update_gate_closed a (Or.inl hc.st) hb.cb hd hc.sendLe hg
    have hc' : CliReq a s0 t expire xnonce (cliTick c x.d) :=
      ⟨hc.st, hc.tok, fun tm e => Nat.le_trans (hc.sendLe tm e) (Nat.le_add_right _ _), hc.rp⟩
    have hcbud : CBudget (cliTick c x.d) (T - x.d) := hb.cb.step hd rfl rfl rfl (Or.inl rfl)
    obtain ⟨_, h3⟩ := hrest _ _ hcu
    have hup := up_none a addr me x.f sb
    obtain ⟨rs3, sc, h3', q3⟩ := h3 _ _ hup
    obtain ⟨hidle, hsc, f3⟩ := finish_core hsb hm3 h3' q3
    have g3 := f3.gLe; have c3 := f3.cLe
    exact ⟨cliTick c x.d, sc, roundB_intro (runBy_of_runOps h1) hsu hcu (runBy_of_runOps h2) hup (runBy_of_runOps h3')
      hidle (down_nothing a addr x.f _ rfl rfl), hc', hsc,
      budget_stepB hb hd hcbud (by rw [f3.time, htb]) (Nat.le_succ _) (by omega) (by omega),
      ⟨rfl, rfl, rfl, rfl, rfl, rfl, rfl, Nat.le_refl _⟩, rfl, by rw [f3.time, htb]⟩

/-- **request phase, a `delivered` round with the gate open** — with bystanders: request up, challenge down -/
theorem roundB_req_delivered (hT : TokOK a s0 t expire xnonce) {c : NetcodeClient} {s : NetcodeServer} {x : RoundSpec}
    {T N : Nat} (hc : CliReq a s0 t expire xnonce c) (hs : Core s0 addr t s)
    (hb : Budget t expire c s T (N + 1 + x.ops)) (hd : x.d ≤ T) (hfd : x.f = .delivered) (hme : c.serverAddr = me)
    (hg : GateOpen c x.d) (hok : roundOKB a s0 addr me t expire xnonce x (c, s) = true) :
    ∃ c' s', roundB a addr me t.clientId x (c, s) = some (c', s') ∧ CliResp a s0 t expire xnonce c' ∧
      Core s0 addr t s' ∧ HasPend addr t expire s' ∧ Budget t expire c' s' (T - x.d) N ∧
      c'.lastPacketSendTime = none ∧ c'.serverAddr = me ∧ c'.sendRate = c.sendRate ∧
      c'.currentTime = c.currentTime + x.d ∧ s'.currentTime = s.currentTime + x.d := by
  have hU : U64_MAX = 2 ^ 64 - 1 := rfl
  obtain ⟨hm, rs1, sa, h1, q1, rs2, sb, h2, q2, hrest⟩ := roundOK_elim hok
  obtain ⟨hm1, hm2, hm3⟩ := notMine_split hm
  have e1 := hb.sclock; have e2 := hb.sexp; have e4 := hb.cseq; have e5 := hb.gseq; have e6 := hb.chseq
  have hops : x.ops = x.b1.length + x.b2.length + x.b3.length := rfl
  obtain ⟨hsu, hsb, htb, hgb, hchb, _⟩ := start_core hs hm1 hm2 h1 q1 (by omega) h2 q2
  have hcu := update_sends_request a hT.laws hc.tok hT.wf hT.xn hc.st hb.cb hd (by omega) hc.sendLe hg
  rw [hme] at hcu
  have hf' : x.f ≠ .upLost := by rw [hfd]; decide
  obtain ⟨harr, h3⟩ := hrest _ _ hcu
  have hso := hsb.open ((harr _ rfl hf').1 hc.st)
  obtain ⟨s2, hpp, hs2, hpf, hcs, hgs, htm⟩ := hso.request hT (by omega) (by omega)
    (Nat.lt_of_le_of_lt (asSecs_mono (by rw [htb]; omega)) e2)
  have hup := up_arrives a addr me hf' hpp
  obtain ⟨rs3, sc, h3', q3⟩ := h3 _ _ hup
  obtain ⟨hidle, hsc, f3⟩ := finish_core (Core.ofOpen hs2) hm3 h3' q3
  have g3 := f3.gLe; have c3 := f3.cLe
  have hchal := progress_challenge a hT.laws (c := cliSent c x.d) (s := sb) (t := t) hc.st hc.tok.s2c
    (hc.tok.pid.trans hsb.cfg.protocolId.symm) (by omega) (by omega) hT.wf.userData
  have hdown := down_first a addr (r := .packetToSend addr (challengeBytes a sb t)) (r' := .none) (by simp [answerTo]) rfl
    hchal
  rw [← hfd] at hdown
  refine ⟨_, sc, roundB_intro (runBy_of_runOps h1) hsu hcu (runBy_of_runOps h2) hup (runBy_of_runOps h3') hidle hdown,
    ⟨rfl, hc.tok, (fun tm e => by cases e), hc.rp, by show sb.challengeSequence + 1 < 2 ^ 64; omega,
      challengeToken_cfg a hsb.cfg _ _ _⟩, hsc, ⟨mkPending sb.currentTime addr expire t, by rw [f3.pend]; exact hpf, rfl⟩,
    ?_, rfl, hme, rfl, rfl,
    by rw [f3.time, htm, htb]⟩
  exact budget_stepB hb hd (hb.cb.step hd rfl rfl rfl (Or.inr rfl)) (by rw [f3.time, htm, htb]) (Nat.le_refl _) (by omega)
    (by omega)

/-- a response (echoing a challenge token of this server for the token's id and user data) arriving while the id is
    not connected, the half-open session is there and a slot is free: `ClientConnected` + keep-alive -/
theorem core_response (hT : TokOK a s0 t expire xnonce) {s : NetcodeServer} {p : Connection} {cs seq T' N' : Nat}
    (h : Core s0 addr t s) (hcap : countConnected s.clients < s.maxClients)
    (hpf : pendingFind s.pendingClients addr = some p) (hp : ident p = identT addr expire t)
    (hg : s.globalSequence < U64_MAX) (hc : s.challengeSequence < U64_MAX) (hcs : cs < 2 ^ 64) (hseq : seq < 2 ^ 64)
    (hT' : t.timeoutSeconds ≤ 0 ∨ T' ≤ fromSecs t.timeoutSeconds.toNat) (hN' : 1 + N' < U64_MAX) :
    ∃ i s2, s.processPacket a addr (Packet.sealedBytes a (.response cs (challengeToken a s0 t.clientId t.userData cs))
          s0.protocolId seq t.clientToServerKey) =
        .ok (.clientConnected p.clientId addr p.userData (connectKeepAlive a s p i), s2) ∧
      SrvConn s0 addr t expire T' N' 0 s2 ∧ At s2.clients i (promoted p p.replayProtection s.currentTime) ∧
      s2.currentTime = s.currentTime ∧ s2.globalSequence = s.globalSequence ∧
      s2.challengeSequence = s.challengeSequence ∧ p.sequence = 0 := by
  obtain ⟨f1, f2, f3, f4, f5, f6, f7⟩ := identT_fields hp
  obtain ⟨i, hff⟩ : ∃ i, firstFreeSlot s.clients = some i := by
    cases hf : firstFreeSlot s.clients with
    | some i => exact ⟨i, rfl⟩
    | none =>
      have := firstFree_none_count.mp hf
      have := h.inv.maxLe
      omega
  have hbytes : Packet.sealedBytes a (.response cs (challengeToken a s0 t.clientId t.userData cs)) s0.protocolId seq
      t.clientToServerKey = Packet.sealedBytes a (.response cs (challengeToken a s p.clientId p.userData cs))
      s.protocolId seq p.receiveKey := by
    rw [f1, f3, f5, challengeToken_cfg a h.cfg, h.cfg.protocolId]
  have hpp := response_connects_eq a hT.laws h.inv hg hc h.addrFree hpf (by rw [f1]; exact h.idFree) hff
    (by rw [f3]; exact hT.wf.userData) (by rw [f1]; exact hT.wf.clientId) hcs hseq
  rw [← hbytes] at hpp
  have hinv2 := ppOut_inv h.inv (pp_ok h.inv hpp)
  have hps : p.sequence = 0 := (h.inv.pend (addr, p) (NS.pendingFind_mem hpf)).seq
  have hlt : i < s.clients.length := (List.getElem?_eq_some_iff.mp (firstFree_some hff)).1
  have hat : At (s.clients.set i (some (promoted p p.replayProtection s.currentTime))) i
      (promoted p p.replayProtection s.currentTime) := at_set_self hlt
  have hU : U64_MAX = 2 ^ 64 - 1 := rfl
  refine ⟨i, _, hpp, ⟨⟨h.cfg.1, h.cfg.2, h.cfg.3, h.cfg.4, h.cfg.5, h.cfg.6⟩, hinv2, i, _, hat, hp, ?_, ?_, ?_⟩, hat, rfl,
    rfl, rfl, hps⟩
  · show p.sequence + 1 + N' < U64_MAX; omega
  · show p.timeoutSeconds ≤ 0 ∨ s.currentTime + T' ≤ s.currentTime + fromSecs p.timeoutSeconds.toNat
    rw [f6]
    rcases hT' with h | h
    · exact Or.inl h
    · exact Or.inr (by omega)
  · show s.currentTime + 0 ≤ s.currentTime; omega

/-- the per-client tick right after the connection (same clock value, bystanders in between): nothing to do -/
theorem tick_after_connect {s2 sc : NetcodeServer} {p : Connection} {i n now : Nat}
    (hat : At s2.clients i (promoted p p.replayProtection now)) (hid : p.clientId = t.clientId)
    (hpa : p.addr = addr) (hnow : s2.currentTime = now) (hps : p.sequence = 0)
    (hf : BlockFrame addr t.clientId s2 sc n) (hclk : now + fromSecs (2 ^ 31) ≤ DURATION_MAX) :
    sc.updateClient a t.clientId = .ok (.none, sc) := by
  have hat' := hf.slots.mine i _ hat hid hpa
  have hU : U64_MAX = 2 ^ 64 - 1 := rfl
  refine updateClient_quiet a hf.inv hat' hid (no_spurious_timeout (Or.inr ?_)) (by rw [hf.time, hnow]; exact hclk)
    (by show p.sequence + 1 < U64_MAX; omega) ?_
  · show sc.currentTime ≤ now + _; rw [hf.time, hnow]; exact Nat.le_add_right _ _
  · show sc.currentTime < now + C.NETCODE_SEND_RATE_NS
    rw [hf.time, hnow]; have := send_rate_pos; omega

/-- the server side of the response phase, with bystanders: the half-open session is still there, or the session -/
def RespB (s0 : NetcodeServer) (addr : Addr) (t : PrivateConnectToken) (expire : Nat) (T N : Nat) (s : NetcodeServer) :
    Prop :=
  (Core s0 addr t s ∧ HasPend addr t expire s) ∨ SrvConn s0 addr t expire T N 0 s

/-- **response phase, a round in which the client hears nothing** — with bystanders -/
theorem roundB_resp_lossy (hT : TokOK a s0 t expire xnonce) {c : NetcodeClient} {s : NetcodeServer} {x : RoundSpec}
    {T N : Nat} (hc : CliResp a s0 t expire xnonce c) (hs : Core s0 addr t s) (hp : HasPend addr t expire s)
    (hb : Budget t expire c s T (N + 1 + x.ops)) (hd : x.d ≤ T) (hf : x.f ≠ .delivered ∨ c.serverAddr ≠ me)
    (hok : roundOKB a s0 addr me t expire xnonce x (c, s) = true) :
    ∃ c' s', roundB a addr me t.clientId x (c, s) = some (c', s') ∧ CliResp a s0 t expire xnonce c' ∧
      RespB s0 addr t expire (T - x.d) N s' ∧ Budget t expire c' s' (T - x.d) N ∧ CliSame c c' ∧
      c'.currentTime = c.currentTime + x.d ∧ s'.currentTime = s.currentTime + x.d := by
  have hU : U64_MAX = 2 ^ 64 - 1 := rfl
  obtain ⟨p, hpf, hpi⟩ := hp
  obtain ⟨hm, rs1, sa, h1, q1, rs2, sb, h2, q2, hrest⟩ := roundOK_elim hok
  obtain ⟨hm1, hm2, hm3⟩ := notMine_split hm
  have e1 := hb.sclock; have e2 := hb.sexp; have e3 := hb.stmo; have e4 := hb.cseq; have e5 := hb.gseq
  have e6 := hb.chseq
  have hops : x.ops = x.b1.length + x.b2.length + x.b3.length := rfl
  obtain ⟨hsu, hsb, htb, hgb, hchb, hpend⟩ := start_core hs hm1 hm2 h1 q1 (by omega) h2 q2
  have hexp : asSecs (s.currentTime + x.d) ≤ expire := Nat.le_of_lt (Nat.lt_of_le_of_lt (asSecs_mono (by omega)) e2)
  have hpfb := hpend p hpf (by rw [(identT_fields hpi).2.2.2.2.2.2]; exact hexp)
  obtain ⟨out, c1, hcu, hc1, hsame, htime, hsq, hout⟩ := cli_resp_update hT hc hb.cb hd (by omega)
  have hcbud : CBudget c1 (T - x.d) := hb.cb.step hd htime hsame.tok hsame.start (Or.inl hsame.recv)
  obtain ⟨harr, h3⟩ := hrest _ _ hcu
  -- nothing reaches the server
  have quiet : up a addr me x.f out sb = some (.none, sb) → down a addr x.f .none .none c1 = some c1 →
      ∃ c' s', roundB a addr me t.clientId x (c, s) = some (c', s') ∧ CliResp a s0 t expire xnonce c' ∧
      RespB s0 addr t expire (T - x.d) N s' ∧ Budget t expire c' s' (T - x.d) N ∧ CliSame c c' ∧
      c'.currentTime = c.currentTime + x.d ∧ s'.currentTime = s.currentTime + x.d := by
    intro hup hdown
    obtain ⟨rs3, sc, h3', q3⟩ := h3 _ _ hup
    obtain ⟨hidle, hsc, f3⟩ := finish_core hsb hm3 h3' q3
    have g3 := f3.gLe; have c3 := f3.cLe
    exact ⟨c1, sc, roundB_intro (runBy_of_runOps h1) hsu hcu (runBy_of_runOps h2) hup (runBy_of_runOps h3') hidle hdown,
      hc1, Or.inl ⟨hsc, p, by rw [f3.pend]; exact hpfb, hpi⟩,
      budget_stepB hb hd hcbud (by rw [f3.time, htb]) hsq (by omega) (by omega), hsame, htime, by rw [f3.time, htb]⟩
  rcases hout with ⟨rfl, _⟩ | ⟨rfl, hg⟩
  · exact quiet (up_none a addr me x.f _) (down_nothing a addr x.f _ rfl rfl)
  · by_cases hl : x.f = .upLost ∨ c.serverAddr ≠ me
    · exact quiet (up_lost a addr me _ hl) (down_nothing a addr x.f _ rfl rfl)
    · have hf' : x.f ≠ .upLost := fun e => hl (Or.inl e)
      have hme : c.serverAddr = me := Classical.byContradiction fun e => hl (Or.inr e)
      have hfd : x.f ≠ .delivered := by
        rcases hf with h | h
        · exact h
        · exact absurd hme h
      have hcap := (harr _ (by rw [hme]) hf').2 hc.st hsb.idFree
      obtain ⟨i, s2, hpp, hconn, hat, t2, g2, c2, hps⟩ := core_response hT (cs := c.challengeTokenSequence)
        (seq := c.sequence) (T' := T - x.d) (N' := N + x.b3.length) hsb hcap hpfb hpi (by omega) (by omega) hc.cs
        (by omega) (by rcases e3 with h | h; exact Or.inl h; exact Or.inr (by omega)) (by omega)
      have hup : up a addr me x.f (some (responseBytes a c, c.serverAddr)) sb =
          some (.clientConnected p.clientId addr p.userData (connectKeepAlive a sb p i), s2) := by
        rw [hme, responseBytes_eq hc]; exact up_arrives a addr me hf' hpp
      obtain ⟨rs3, sc, h3', q3⟩ := h3 _ _ hup
      obtain ⟨f3, _⟩ := block_frame x.b3 hconn.inv hm3 h3'
      obtain ⟨k1, k2, _⟩ := identT_fields hpi
      have hq := tick_after_connect (a := a) hat k1 k2 t2 hps f3 (by rw [htb]; omega)
      have g3 := f3.gLe; have c3 := f3.cLe
      exact ⟨c1, sc, roundB_intro (runBy_of_runOps h1) hsu hcu (runBy_of_runOps h2) hup (runBy_of_runOps h3') hq
        (down_lossy a addr hfd _ _ _), hc1, Or.inr ((srvConn_block hconn f3).weaken (Nat.le_refl _) (by omega) (Nat.le_refl _)),
        budget_stepB hb hd hcbud (by rw [f3.time, t2, htb]) hsq (by omega) (by omega), hsame, htime, by rw [f3.time, t2, htb]⟩

/-- **response phase, a `delivered` round with the gate open** — with bystanders: both sides connected -/
theorem roundB_resp_delivered (hT : TokOK a s0 t expire xnonce) {c : NetcodeClient} {s : NetcodeServer} {x : RoundSpec}
    {T N : Nat} (hc : CliResp a s0 t expire xnonce c) (hs : Core s0 addr t s) (hp : HasPend addr t expire s)
    (hb : Budget t expire c s T (N + 1 + x.ops)) (hd : x.d ≤ T) (hfd : x.f = .delivered) (hme : c.serverAddr = me)
    (hg : GateOpen c x.d) (hok : roundOKB a s0 addr me t expire xnonce x (c, s) = true) :
    ∃ c' s', roundB a addr me t.clientId x (c, s) = some (c', s') ∧ Established addr t expire c' s' ∧
      c'.currentTime = c.currentTime + x.d ∧ s'.currentTime = s.currentTime + x.d := by
  have hU : U64_MAX = 2 ^ 64 - 1 := rfl
  obtain ⟨p, hpf, hpi⟩ := hp
  obtain ⟨hm, rs1, sa, h1, q1, rs2, sb, h2, q2, hrest⟩ := roundOK_elim hok
  obtain ⟨hm1, hm2, hm3⟩ := notMine_split hm
  have e1 := hb.sclock; have e2 := hb.sexp; have e4 := hb.cseq; have e5 := hb.gseq; have e6 := hb.chseq
  have hops : x.ops = x.b1.length + x.b2.length + x.b3.length := rfl
  obtain ⟨hsu, hsb, htb, hgb, hchb, hpend⟩ := start_core hs hm1 hm2 h1 q1 (by omega) h2 q2
  have hexp : asSecs (s.currentTime + x.d) ≤ expire := Nat.le_of_lt (Nat.lt_of_le_of_lt (asSecs_mono (by omega)) e2)
  have hpfb := hpend p hpf (by rw [(identT_fields hpi).2.2.2.2.2.2]; exact hexp)
  have htd : c.challengeTokenData.length = 300 := by
    rw [hc.td]; exact challengeToken_length a hT.laws s0 t.clientId hT.wf.userData _
  have hcu := update_sends_response a hT.laws hc.st htd hb.cb hd (by omega) hc.sendLe hg
  rw [hme, responseBytes_eq hc] at hcu
  have hf' : x.f ≠ .upLost := by rw [hfd]; decide
  obtain ⟨harr, h3⟩ := hrest _ _ hcu
  have hcap := (harr _ rfl hf').2 hc.st hsb.idFree
  obtain ⟨i, s2, hpp, hconn, hat, t2, g2, c2, hps⟩ := core_response hT (cs := c.challengeTokenSequence)
    (seq := c.sequence) (T' := 0) (N' := 0) hsb hcap hpfb hpi (by omega) (by omega) hc.cs (by omega)
    (Or.inr (Nat.zero_le _)) (by rw [hU]; decide)
  have hup := up_arrives a addr me hf' hpp
  obtain ⟨rs3, sc, h3', q3⟩ := h3 _ _ hup
  obtain ⟨f3, _⟩ := block_frame x.b3 hconn.inv hm3 h3'
  obtain ⟨k1, k2, k3, k4, _⟩ := identT_fields hpi
  have hq := tick_after_connect (a := a) hat k1 k2 t2 hps f3 (by rw [htb]; omega)
  have hka := progress_keepalive a hT.laws (c := cliSent c x.d) (s := sb) (p := p) (i := i) hc.st
    (hc.tok.s2c.trans k4.symm) (hc.tok.pid.trans hsb.cfg.protocolId.symm) (by rw [hps]; decide) (hc.rp _)
  have hdown := down_first a addr (r := .clientConnected p.clientId addr p.userData (connectKeepAlive a sb p i))
    (r' := .none) (by simp [answerTo]) rfl hka
  rw [← hfd] at hdown
  have hsc := srvConn_block hconn f3
  obtain ⟨j, cn, hatj, hidj, _⟩ := hsc.sess
  exact ⟨_, sc, roundB_intro (runBy_of_runOps h1) hsu hcu (runBy_of_runOps h2) hup (runBy_of_runOps h3') hq hdown,
    ⟨rfl, hsc.inv, j, cn, hatj, hidj⟩, rfl, by rw [f3.time, t2, htb]⟩

/-- **the keep-alive was lost, a round in which the client hears nothing** — with bystanders -/
theorem roundB_half_lossy (hT : TokOK a s0 t expire xnonce) {c : NetcodeClient} {s : NetcodeServer} {x : RoundSpec}
    {T N D : Nat} (hc : CliResp a s0 t expire xnonce c) (hs : SrvConn s0 addr t expire T (N + 1 + x.ops) D s)
    (hb : Budget t expire c s T (N + 1 + x.ops)) (hd : x.d ≤ T) (hf : x.f ≠ .delivered)
    (hok : roundOKB a s0 addr me t expire xnonce x (c, s) = true) :
    ∃ c' s', roundB a addr me t.clientId x (c, s) = some (c', s') ∧ CliResp a s0 t expire xnonce c' ∧
      SrvConn s0 addr t expire (T - x.d) N 0 s' ∧ Budget t expire c' s' (T - x.d) N ∧ CliSame c c' ∧
      c'.currentTime = c.currentTime + x.d ∧ s'.currentTime = s.currentTime + x.d := by
  have hU : U64_MAX = 2 ^ 64 - 1 := rfl
  obtain ⟨hm, rs1, sa, h1, q1, rs2, sb, h2, q2, hrest⟩ := roundOK_elim hok
  obtain ⟨hm1, hm2, hm3⟩ := notMine_split hm
  have e1 := hb.sclock; have e4 := hb.cseq; have e5 := hb.gseq; have e6 := hb.chseq
  have hops : x.ops = x.b1.length + x.b2.length + x.b3.length := rfl
  obtain ⟨hsu, hsb, htb, hgb, hchb⟩ := start_conn hs hd hm1 hm2 h1 (by omega) h2
  obtain ⟨out, c1, hcu, hc1, hsame, htime, hsq, hout⟩ := cli_resp_update hT hc hb.cb hd (by omega)
  have hcbud : CBudget c1 (T - x.d) := hb.cb.step hd htime hsame.tok hsame.start (Or.inl hsame.recv)
  obtain ⟨_, h3⟩ := hrest _ _ hcu
  obtain ⟨s2, hup, hs2, t2, g2, c2⟩ := srv_conn_up (me := me) (f := x.f) (out := out) hT hsb (by omega) (by omega) hc.cs
    (by show c.sequence < 2 ^ 64; omega)
    (by rcases hout with ⟨h, _⟩ | ⟨h, _⟩
        · exact Or.inl h
        · exact Or.inr ⟨c.serverAddr, by rw [h, responseBytes_eq hc]⟩)
  obtain ⟨rs3, sc, h3', q3⟩ := h3 _ _ hup
  obtain ⟨f3, _⟩ := block_frame x.b3 hs2.inv hm3 h3'
  have hsc := (srvConn_block hs2 f3).weaken (T' := T - x.d) (N' := N + 1) (D' := 0) (Nat.le_refl _) (by omega) (Nat.zero_le _)
  obtain ⟨r', s3, htick, hs3, t3, g3, c3⟩ := hsc.updateClient_any (a := a) (by rw [f3.time, t2, htb]; omega)
  have g4 := f3.gLe; have c4 := f3.cLe
  exact ⟨c1, s3, roundB_intro (runBy_of_runOps h1) hsu hcu (runBy_of_runOps h2) hup (runBy_of_runOps h3') htick
    (down_lossy a addr hf _ _ _), hc1, hs3,
    budget_stepB hb hd hcbud (by rw [t3, f3.time, t2, htb]) hsq (by omega) (by omega), hsame, htime,
    by rw [t3, f3.time, t2, htb]⟩

/-- **the keep-alive was lost, a `delivered` round of at least the send rate** — with bystanders: the tick's
    keep-alive connects the client -/
theorem roundB_half_delivered (hT : TokOK a s0 t expire xnonce) {c : NetcodeClient} {s : NetcodeServer} {x : RoundSpec}
    {T N D : Nat} (hc : CliResp a s0 t expire xnonce c) (hs : SrvConn s0 addr t expire T (N + 1 + x.ops) D s)
    (hb : Budget t expire c s T (N + 1 + x.ops)) (hd : x.d ≤ T) (hfd : x.f = .delivered)
    (hrate : C.NETCODE_SEND_RATE_NS ≤ x.d) (hok : roundOKB a s0 addr me t expire xnonce x (c, s) = true) :
    ∃ c' s', roundB a addr me t.clientId x (c, s) = some (c', s') ∧ Established addr t expire c' s' ∧
      c'.currentTime = c.currentTime + x.d ∧ s'.currentTime = s.currentTime + x.d := by
  have hU : U64_MAX = 2 ^ 64 - 1 := rfl
  obtain ⟨hm, rs1, sa, h1, q1, rs2, sb, h2, q2, hrest⟩ := roundOK_elim hok
  obtain ⟨hm1, hm2, hm3⟩ := notMine_split hm
  have e1 := hb.sclock; have e4 := hb.cseq; have e5 := hb.gseq; have e6 := hb.chseq
  have hops : x.ops = x.b1.length + x.b2.length + x.b3.length := rfl
  obtain ⟨hsu, hsb, htb, hgb, hchb⟩ := start_conn hs hd hm1 hm2 h1 (by omega) h2
  obtain ⟨out, c1, hcu, hc1, hsame, htime, hsq, hout⟩ := cli_resp_update hT hc hb.cb hd (by omega)
  obtain ⟨_, h3⟩ := hrest _ _ hcu
  obtain ⟨s2, hup, hs2, t2, g2, c2⟩ := srv_conn_up (me := me) (f := x.f) (out := out) hT hsb (by omega) (by omega) hc.cs
    (by show c.sequence < 2 ^ 64; omega)
    (by rcases hout with ⟨h, _⟩ | ⟨h, _⟩
        · exact Or.inl h
        · exact Or.inr ⟨c.serverAddr, by rw [h, responseBytes_eq hc]⟩)
  obtain ⟨rs3, sc, h3', q3⟩ := h3 _ _ hup
  obtain ⟨f3, _⟩ := block_frame x.b3 hs2.inv hm3 h3'
  have hsc := (srvConn_block hs2 f3).weaken (T' := T - x.d) (N' := N + 1) (D' := D + x.d) (Nat.le_refl _) (by omega)
    (Nat.le_refl _)
  obtain ⟨i, cn, hat, hid, hsq2, htick, hinv3⟩ := hsc.updateClient_due (a := a) (by rw [f3.time, t2, htb]; omega) (by omega)
  obtain ⟨k1, k2, k3, k4, _⟩ := identT_fields hid
  have hka := progress_keepalive a hT.laws (c := c1) (s := sc) (p := cn) (i := i) hc1.st
    (hc1.tok.s2c.trans k4.symm) (hc1.tok.pid.trans hsc.cfg.protocolId.symm) hsq2 (hc1.rp _)
  have hdown := down_second a addr (r := .none) (r' := .packetToSend addr (connectKeepAlive a sc cn i)) rfl
    (by simp [answerTo]) hka
  rw [← hfd] at hdown
  refine ⟨_, _, roundB_intro (runBy_of_runOps h1) hsu hcu (runBy_of_runOps h2) hup (runBy_of_runOps h3') htick hdown,
    ⟨rfl, hinv3, i, _, at_set_self (at_lt hat), hid⟩, htime, ?_⟩
  show sc.currentTime = _
  rw [f3.time, t2, htb]

/-! ### B.5 schedules with bystanders -/

/-- no round of the schedule is `delivered` -/
def LossyB (sched : List RoundSpec) : Prop := ∀ x ∈ sched, x.f ≠ .delivered

instance (sched : List RoundSpec) : Decidable (LossyB sched) := by unfold LossyB; infer_instance

theorem costB_cons_eq (N : Nat) (x : RoundSpec) (rest : List RoundSpec) :
    N + costB (x :: rest) = N + costB rest + 1 + x.ops := by simp only [costB]; omega

/-- **request phase, any number of rounds in which the client hears nothing** — with bystanders -/
theorem run_req_lossyB (hT : TokOK a s0 t expire xnonce) : ∀ (sched : List RoundSpec) {c : NetcodeClient}
    {s : NetcodeServer} {T N : Nat}, CliReq a s0 t expire xnonce c → Core s0 addr t s →
    Budget t expire c s T (N + costB sched) → totalTimeB sched ≤ T → (LossyB sched ∨ c.serverAddr ≠ me) →
    BysOK a s0 addr me t expire xnonce sched (c, s) →
    ∃ c' s', runRoundsB a addr me t.clientId sched (c, s) = some (c', s') ∧ CliReq a s0 t expire xnonce c' ∧
      Core s0 addr t s' ∧ Budget t expire c' s' (T - totalTimeB sched) N ∧ CliSame c c' ∧
      c'.currentTime = c.currentTime + totalTimeB sched ∧ s'.currentTime = s.currentTime + totalTimeB sched
  | [], c, s, T, N, hc, hs, hb, _, _, _ => ⟨c, s, rfl, hc, hs, hb, CliSame.refl c, rfl, rfl⟩
  | x :: rest, c, s, T, N, hc, hs, hb, ht, hl, hby => by
    simp only [totalTimeB] at ht ⊢
    rw [costB_cons_eq] at hb
    obtain ⟨hok, hnext⟩ := bysOK_cons.mp hby
    obtain ⟨c1, s1, hr, hc1, hs1, hb1, hsame1, ht1, hst1⟩ := roundB_req_lossy (me := me) hT hc hs hb (by omega)
      (by rcases hl with h | h
          · exact Or.inl (h x (by simp))
          · exact Or.inr h) hok
    obtain ⟨c2, s2, hr2, hc2, hs2, hb2, hsame2, ht2, hst2⟩ := run_req_lossyB hT rest hc1 hs1 hb1 (by omega)
      (by rcases hl with h | h
          · exact Or.inl (fun y hy => h y (List.mem_cons_of_mem _ hy))
          · exact Or.inr (by rw [hsame1.srv]; exact h)) (hnext _ hr)
    refine ⟨c2, s2, by simp only [runRoundsB, hr, Option.bind_some, hr2], hc2, hs2, ?_, hsame1.trans hsame2,
      by rw [ht2, ht1]; omega, by rw [hst2, hst1]; omega⟩
    have : T - x.d - totalTimeB rest = T - (x.d + totalTimeB rest) := by omega
    rw [← this]; exact hb2

/-- **response phase, any number of rounds in which the client hears nothing** — with bystanders -/
theorem run_resp_lossyB (hT : TokOK a s0 t expire xnonce) : ∀ (sched : List RoundSpec) {c : NetcodeClient}
    {s : NetcodeServer} {T N : Nat}, CliResp a s0 t expire xnonce c → RespB s0 addr t expire T (N + costB sched) s →
    Budget t expire c s T (N + costB sched) → totalTimeB sched ≤ T → LossyB sched →
    BysOK a s0 addr me t expire xnonce sched (c, s) →
    ∃ c' s', runRoundsB a addr me t.clientId sched (c, s) = some (c', s') ∧ CliResp a s0 t expire xnonce c' ∧
      RespB s0 addr t expire (T - totalTimeB sched) N s' ∧ Budget t expire c' s' (T - totalTimeB sched) N ∧
      CliSame c c' ∧ c'.currentTime = c.currentTime + totalTimeB sched ∧
      s'.currentTime = s.currentTime + totalTimeB sched
  | [], c, s, T, N, hc, hs, hb, _, _, _ => ⟨c, s, rfl, hc, hs, hb, CliSame.refl c, rfl, rfl⟩
  | x :: rest, c, s, T, N, hc, hs, hb, ht, hl, hby => by
    simp only [totalTimeB] at ht ⊢
    rw [costB_cons_eq] at hb hs
    obtain ⟨hok, hnext⟩ := bysOK_cons.mp hby
    have hf : x.f ≠ .delivered := hl x (by simp)
    have hl' : LossyB rest := fun y hy => hl y (List.mem_cons_of_mem _ hy)
    have key : ∃ c1 s1, roundB a addr me t.clientId x (c, s) = some (c1, s1) ∧ CliResp a s0 t expire xnonce c1 ∧
        RespB s0 addr t expire (T - x.d) (N + costB rest) s1 ∧ Budget t expire c1 s1 (T - x.d) (N + costB rest) ∧
        CliSame c c1 ∧ c1.currentTime = c.currentTime + x.d ∧ s1.currentTime = s.currentTime + x.d := by
      rcases hs with ⟨hso, hp⟩ | hsc
      · exact roundB_resp_lossy (me := me) hT hc hso hp hb (by omega) (Or.inl hf) hok
      · obtain ⟨c1, s1, hr, hc1, hs1, hb1, hsame1, ht1, hst1⟩ := roundB_half_lossy (me := me) hT hc hsc hb (by omega) hf hok
        exact ⟨c1, s1, hr, hc1, Or.inr hs1, hb1, hsame1, ht1, hst1⟩
    obtain ⟨c1, s1, hr, hc1, hs1, hb1, hsame1, ht1, hst1⟩ := key
    obtain ⟨c2, s2, hr2, hc2, hs2, hb2, hsame2, ht2, hst2⟩ := run_resp_lossyB hT rest hc1 hs1 hb1 (by omega) hl' (hnext _ hr)
    have e : T - x.d - totalTimeB rest = T - (x.d + totalTimeB rest) := by omega
    refine ⟨c2, s2, by simp only [runRoundsB, hr, Option.bind_some, hr2], hc2, ?_, ?_, hsame1.trans hsame2,
      by rw [ht2, ht1]; omega, by rw [hst2, hst1]; omega⟩
    · rw [← e]; exact hs2
    · rw [← e]; exact hb2

/-- **response phase, a `delivered` round of at least the send rate connects both sides** — with bystanders -/
theorem roundB_resp_final (hT : TokOK a s0 t expire xnonce) {c : NetcodeClient} {s : NetcodeServer} {x : RoundSpec}
    {T N : Nat} (hc : CliResp a s0 t expire xnonce c) (hs : RespB s0 addr t expire T (N + 1 + x.ops) s)
    (hb : Budget t expire c s T (N + 1 + x.ops)) (hd : x.d ≤ T) (hfd : x.f = .delivered) (hme : c.serverAddr = me)
    (hgate : GateOpen c x.d) (hrate : C.NETCODE_SEND_RATE_NS ≤ x.d)
    (hok : roundOKB a s0 addr me t expire xnonce x (c, s) = true) :
    ∃ c' s', roundB a addr me t.clientId x (c, s) = some (c', s') ∧ Established addr t expire c' s' ∧
      c'.currentTime = c.currentTime + x.d ∧ s'.currentTime = s.currentTime + x.d := by
  rcases hs with ⟨hso, hp⟩ | hsc
  · exact roundB_resp_delivered hT hc hso hp hb hd hfd hme hgate hok
  · exact roundB_half_delivered hT hc hsc hb hd hfd hrate hok

/-- **B1 with bystanders**: two delivered rounds of arbitrary lengths connect both sides, whatever the server does
    for others in between — provided there is `Room` when the request arrives and a free slot when the response
    arrives (`BysOK`). -/
theorem through_update_B (hT : TokOK a s0 t expire xnonce) {c0 : NetcodeClient} {s : NetcodeServer} {x₁ x₂ : RoundSpec}
    (hc : CliReq a s0 t expire xnonce c0) (hsend : c0.lastPacketSendTime = none) (hme : c0.serverAddr = me)
    (hs : Core s0 addr t s) (hf₁ : x₁.f = .delivered) (hf₂ : x₂.f = .delivered)
    (hb : Budget t expire c0 s (x₁.d + x₂.d) (costB [x₁, x₂]))
    (hby : BysOK a s0 addr me t expire xnonce [x₁, x₂] (c0, s)) :
    ∃ c1 s1 c2 s2, roundB a addr me t.clientId x₁ (c0, s) = some (c1, s1) ∧
      c1.state = .sendingConnectionResponse ∧ roundB a addr me t.clientId x₂ (c1, s1) = some (c2, s2) ∧
      Established addr t expire c2 s2 ∧ s2.isClientConnected t.clientId = true ∧
      c2.currentTime = c0.currentTime + x₁.d + x₂.d ∧ s2.currentTime = s.currentTime + x₁.d + x₂.d := by
  have hcost : costB [x₁, x₂] = (0 + 1 + x₂.ops) + 1 + x₁.ops := by simp only [costB]; omega
  rw [hcost] at hb
  obtain ⟨hok1, hnext⟩ := bysOK_cons.mp hby
  obtain ⟨c1, s1, hr1, hc1, hs1, hp1, hb1, hls1, hme1, _, ht1, hst1⟩ := roundB_req_delivered (me := me) hT hc hs hb
    (Nat.le_add_right _ _) hf₁ hme (gateOpen_of_none hsend) hok1
  have e : x₁.d + x₂.d - x₁.d = x₂.d := by omega
  rw [e] at hb1
  obtain ⟨hok2, _⟩ := bysOK_cons.mp (hnext _ hr1)
  obtain ⟨c2, s2, hr2, hest, ht2, hst2⟩ := roundB_resp_delivered (me := me) hT hc1 hs1 hp1 hb1 (Nat.le_refl _) hf₂ hme1
    (gateOpen_of_none hls1) hok2
  exact ⟨c1, s1, c2, s2, hr1, hc1.st, hr2, hest, hest.isClientConnected, by rw [ht2, ht1], by rw [hst2, hst1]⟩

/-- **B2 with bystanders**: lossy rounds, a delivered round, lossy rounds, a delivered round — connected. -/
theorem despite_loss_B (hT : TokOK a s0 t expire xnonce) {c0 : NetcodeClient} {s : NetcodeServer}
    {l₁ l₂ : List RoundSpec} {x₁ x₂ : RoundSpec} (hc : CliReq a s0 t expire xnonce c0) (hme : c0.serverAddr = me)
    (hs : Core s0 addr t s) (hl₁ : LossyB l₁) (hl₂ : LossyB l₂) (hf₁ : x₁.f = .delivered) (hf₂ : x₂.f = .delivered)
    (hr₁ : c0.sendRate ≤ x₁.d) (hr₂ : c0.sendRate ≤ x₂.d) (hr₂' : C.NETCODE_SEND_RATE_NS ≤ x₂.d)
    (hb : Budget t expire c0 s (totalTimeB (l₁ ++ x₁ :: (l₂ ++ [x₂]))) (costB (l₁ ++ x₁ :: (l₂ ++ [x₂]))))
    (hby : BysOK a s0 addr me t expire xnonce (l₁ ++ x₁ :: (l₂ ++ [x₂])) (c0, s)) :
    ∃ c' s', runRoundsB a addr me t.clientId (l₁ ++ x₁ :: (l₂ ++ [x₂])) (c0, s) = some (c', s') ∧
      Established addr t expire c' s' ∧ s'.isClientConnected t.clientId = true ∧
      c'.currentTime = c0.currentTime + totalTimeB (l₁ ++ x₁ :: (l₂ ++ [x₂])) ∧
      s'.currentTime = s.currentTime + totalTimeB (l₁ ++ x₁ :: (l₂ ++ [x₂])) := by
  have hT1 : totalTimeB (l₁ ++ x₁ :: (l₂ ++ [x₂])) = totalTimeB l₁ + (x₁.d + (totalTimeB l₂ + x₂.d)) := by
    rw [totalTimeB_append]; simp only [totalTimeB, totalTimeB_append]; omega
  have hC1 : costB (l₁ ++ x₁ :: (l₂ ++ [x₂])) = ((0 + 1 + x₂.ops + costB l₂) + 1 + x₁.ops) + costB l₁ := by
    rw [costB_append]; simp only [costB, costB_append]; omega
  rw [hT1, hC1] at hb
  rw [hT1]
  -- the lossy prefix
  obtain ⟨c1, s1, hrun1, hc1, hs1, hb1, hsame1, ht1, hst1⟩ := run_req_lossyB (me := me) hT l₁ hc hs hb (by omega)
    (Or.inl hl₁) (bysOK_prefix hby)
  have hby1 := bysOK_append hby hrun1
  obtain ⟨hok1, hnext1⟩ := bysOK_cons.mp hby1
  -- the first delivered round
  obtain ⟨c2, s2, hr2, hc2, hs2, hp2, hb2, hls2, hme2, hrate2, ht2, hst2⟩ := roundB_req_delivered (me := me) hT hc1 hs1 hb1
    (by omega) hf₁ (by rw [hsame1.srv]; exact hme) (gateOpen_of_rate (by rw [hsame1.rate]; exact hr₁) hc1.sendLe) hok1
  have hby2 := hnext1 _ hr2
  -- lossy rounds of the response phase
  have hby2' : BysOK a s0 addr me t expire xnonce l₂ (c2, s2) := bysOK_prefix hby2
  obtain ⟨c3, s3, hrun3, hc3, hs3, hb3, hsame3, ht3, hst3⟩ := run_resp_lossyB (me := me) hT l₂ (N := 0 + 1 + x₂.ops) hc2
    (Or.inl ⟨hs2, hp2⟩) hb2 (by omega) hl₂ hby2'
  obtain ⟨hok3, _⟩ := bysOK_cons.mp (bysOK_append hby2 hrun3)
  -- the final delivered round
  obtain ⟨c4, s4, hr4, hest, ht4, hst4⟩ := roundB_resp_final (me := me) hT hc3 hs3 hb3 (by omega) hf₂
    (by rw [hsame3.srv]; exact hme2)
    (gateOpen_of_rate (by rw [hsame3.rate, hrate2, hsame1.rate]; exact hr₂) hc3.sendLe) hr₂' hok3
  refine ⟨c4, s4, ?_, hest, hest.isClientConnected, by rw [ht4, ht3, ht2, ht1]; omega, by rw [hst4, hst3, hst2, hst1]; omega⟩
  rw [runRoundsB_append, hrun1]
  simp only [Option.bind_some, runRoundsB, hr2, runRoundsB_append, hrun3, hr4]

/-- **an established connection is not disturbed by bystander operations** -/
theorem established_block {c : NetcodeClient} {s s' : NetcodeServer} {b : List Op} {rs : List ServerResult}
    (h : Established addr t expire c s) (hm : ∀ op ∈ b, NotMine addr t.clientId op)
    (hr : runOps a s b = some (rs, s')) : Established addr t expire c s' := by
  obtain ⟨h1, h2, i, cn, h3, h4⟩ := h
  obtain ⟨f, _⟩ := block_frame b h2 hm hr
  obtain ⟨e1, e2, _⟩ := identT_fields h4
  exact ⟨h1, f.inv, i, cn, f.slots.mine i cn h3 e1 e2, h4⟩

/-! ## Part C : duplicated and late datagrams -/

/-- **a late challenge is ignored**: a client that has already stored a challenge (`SendingConnectionResponse`) or is
    `Connected` drops any (other) challenge of the server — its state does not change at all -/
theorem late_challenge_ignored (hl : a.Laws) {c : NetcodeClient} {s : NetcodeServer} {t : PrivateConnectToken}
    (hst : c.state = .sendingConnectionResponse ∨ c.state = .connected)
    (hkey : c.connectToken.serverToClientKey = t.serverToClientKey) (hpid : c.connectToken.protocolId = s.protocolId)
    (hg : s.globalSequence < 2 ^ 64) (hcs : s.challengeSequence + 1 < 2 ^ 64) (hud : t.userData.length = 256) :
    c.processPacket a (challengeBytes a s t) = .ok (none, c) := by
  rcases c with ⟨st, f2, f3, f4, f5, f6, f7, f8, f9, f10, f11, f12, f13, f14, f15, f16⟩
  simp only at hst hkey hpid
  have hdec := Packet.decode_sealedBytes a
    (.challenge (s.challengeSequence + 1) (challengeToken a s t.clientId t.userData (s.challengeSequence + 1)))
    s.protocolId s.globalSequence t.serverToClientKey hl hg (by simp [Packet.packetType])
    ⟨hcs, challengeToken_length a hl s t.clientId hud _⟩ (some f16) rfl
  unfold NetcodeClient.processPacket
  simp only
  rw [hkey, hpid]
  unfold challengeBytes
  rw [hdec]
  rcases hst with rfl | rfl <;>
    simp only [Packet.stepWindow, Packet.packetType, PacketType.applyReplayProtection, Option.map_some,
      Bool.false_eq_true, if_false, Option.getD_some]

theorem budget_srv {c : NetcodeClient} {s s' : NetcodeServer} {T N : Nat} (hb : Budget t expire c s T (N + 1))
    (h1 : s'.currentTime = s.currentTime) (h3 : s'.globalSequence ≤ s.globalSequence + 1)
    (h4 : s'.challengeSequence ≤ s.challengeSequence + 1) : Budget t expire c s' T N := by
  have e4 := hb.cseq; have e5 := hb.gseq; have e6 := hb.chseq
  exact ⟨hb.cb, by rw [h1]; exact hb.sclock, by rw [h1]; exact hb.sexp, hb.stmo, by omega, by omega, by omega⟩

/-- **duplication and reordering inside the handshake**: the request datagram of round 1 is delivered a second time
    after the client has moved on; the server answers it with a second challenge (and re-creates the half-open
    session); that challenge reaches the client late and is ignored; the client's response — which echoes the *first*
    challenge — still connects. -/
theorem handshake_despite_duplication (hT : TokOK a s0 t expire xnonce) {c0 : NetcodeClient} {s : NetcodeServer}
    {d₁ d₂ : Nat} (hc : CliReq a s0 t expire xnonce c0) (hsend : c0.lastPacketSendTime = none)
    (hme : c0.serverAddr = me) (hs : SrvOpen a s0 addr t expire xnonce s) (hb : Budget t expire c0 s (d₁ + d₂) 3) :
    ∃ c1 s1 s1' c2 s2, round a addr me t.clientId .delivered d₁ (c0, s) = some (c1, s1) ∧
      c1.state = .sendingConnectionResponse ∧
      s1.processPacket a addr (requestBytes a s0 t expire xnonce) =
        .ok (.packetToSend addr (challengeBytes a s1 t), s1') ∧
      c1.processPacket a (challengeBytes a s1 t) = .ok (none, c1) ∧
      round a addr me t.clientId .delivered d₂ (c1, s1') = some (c2, s2) ∧
      Established addr t expire c2 s2 ∧ s2.isClientConnected t.clientId = true ∧
      c2.currentTime = c0.currentTime + d₁ + d₂ ∧ s2.currentTime = s.currentTime + d₁ + d₂ := by
  have hU : U64_MAX = 2 ^ 64 - 1 := rfl
  obtain ⟨c1, s1, hr1, hc1, hs1, hp1, hb1, hls1, hme1, _, ht1, hst1⟩ :=
    round_req_delivered (me := me) (N := 2) hT hc hs hb (Nat.le_add_right _ _) hme (gateOpen_of_none hsend)
  have e : d₁ + d₂ - d₁ = d₂ := by omega
  rw [e] at hb1
  have e5 := hb1.gseq; have e6 := hb1.chseq; have e2 := hb1.sexp
  obtain ⟨s1', hpp, hs1', hpf', hcs', hgs', htm'⟩ := hs1.request hT (by omega) (by omega)
    (Nat.lt_of_le_of_lt (asSecs_mono (Nat.le_add_right _ _)) e2)
  have hign := late_challenge_ignored hT.laws (c := c1) (s := s1) (t := t) (Or.inl hc1.st) hc1.tok.s2c
    (hc1.tok.pid.trans hs1.cfg.protocolId.symm) (by omega) (by omega) hT.wf.userData
  have hb1' : Budget t expire c1 s1' d₂ 1 := budget_srv hb1 htm' (by rw [hgs']; exact Nat.le_refl _)
    (by rw [hcs']; exact Nat.le_refl _)
  obtain ⟨c2, s2, hr2, hest, ht2, hst2⟩ := round_resp_delivered (me := me) (N := 0) hT hc1 hs1' ⟨_, hpf', rfl⟩ hb1'
    (Nat.le_refl _) hme1 (gateOpen_of_none hls1)
  exact ⟨c1, s1, s1', c2, s2, hr1, hc1.st, hpp, hign, hr2, hest, hest.isClientConnected, by rw [ht2, ht1],
    by rw [hst2, htm', hst1]⟩

/-- **a duplicated response is ignored** once the session exists (`NcLive2.SrvConn.recv_response`), and a late
    challenge is ignored by the connected client: the established connection stays -/
theorem established_despite_duplicates (hT : TokOK a s0 t expire xnonce) {c : NetcodeClient} {s sx : NetcodeServer}
    {T N D cs seq : Nat} (hcst : c.state = .connected) (htok : TokenFor a s0 t expire xnonce c.connectToken)
    (hsc : SrvConn s0 addr t expire T N D s) (hg : s.globalSequence < U64_MAX) (hch : s.challengeSequence < U64_MAX)
    (hcs : cs < 2 ^ 64) (hseq : seq < 2 ^ 64) (hcfg : SameCfg s0 sx) (hgx : sx.globalSequence < 2 ^ 64)
    (hcx : sx.challengeSequence + 1 < 2 ^ 64) :
    (∃ s', s.processPacket a addr (Packet.sealedBytes a (.response cs (challengeToken a s0 t.clientId t.userData cs))
        s0.protocolId seq t.clientToServerKey) = .ok (.none, s') ∧ SrvConn s0 addr t expire T N D s') ∧
    c.processPacket a (challengeBytes a sx t) = .ok (none, c) := by
  obtain ⟨s', h1, h2, _⟩ := hsc.recv_response hT hg hch hcs hseq
  exact ⟨⟨s', h1, h2⟩, late_challenge_ignored hT.laws (Or.inr hcst) htok.s2c (htok.pid.trans hcfg.protocolId.symm) hgx
    hcx hT.wf.userData⟩

end Bys

end RenetVerif.NcLive4
