/-
  Netcode server, WHOLE RUNS with the full trace (operation, result) — the session-level anti-replay invariant (C04).

  `ReachT a s tr` : `s` is reached from an empty server by the public operations `NS.step` (any datagrams from any address,
  updates, disconnects, payload sends, limit changes, in any order), `tr` = the list of (operation, returned result).

  `sessPayloads id tr` : the (datagram, surfaced bytes) pairs of the `Payload id ..` results since the last
  `ClientConnected id ..` of the trace (newest first) — the payloads of the CURRENT session of `id`.

  `SessInv a s tr` (carried along every run, `reachT_sessInv`):
    * every occupied slot's stored replay window satisfies `RP.Inv window accepted` for a ghost list `accepted` that
      contains the sequence number of every datagram in `sessPayloads (id of the slot) tr`, and every such datagram opened
      under the slot's receive key to exactly the surfaced bytes;
    * every half-open session's window satisfies `RP.Inv` for some ghost list (the window a session starts with is the one
      its half-open predecessor accumulated — it is NOT necessarily `RP.new`);
    * the sequence numbers of `sessPayloads id tr` (`2^64-1` excluded) are pairwise distinct, for every id;
    * all datagrams of `sessPayloads id tr` opened under ONE key.
-/
import RenetVerif.Lemmas.NcTableEvents
import RenetVerif.Lemmas.NcWire
set_option linter.unusedVariables false
namespace RenetVerif.Netcode
namespace NS
open RenetVerif

/-! ## what one `decode` does to a window that satisfies `RP.Inv` -/

/-- whatever `decode` returns, the window it hands back still satisfies the invariant, for a ghost list that extends the
    old one -/
theorem decode_window_inv {a : AEAD} {buf : Bytes} {proto : Nat} {k : Bytes} {w w' : RP} {res : NRes (Nat × Packet)}
    {acc : List Nat} (h : Packet.decode a buf proto (some k) (some w) = (res, some w')) (hinv : RP.Inv w acc) :
    ∃ acc', RP.Inv w' acc' ∧ ∀ x ∈ acc, x ∈ acc' := by
  cases res with
  | ok sp =>
    obtain ⟨sq, p⟩ := sp
    rcases Packet.decode_ok h with ⟨hw, _⟩ | ⟨k', ty, plain, hk, hso, hd, hs, hr, hw⟩
    · cases hw; exact ⟨acc, hinv, fun _ hx => hx⟩
    · by_cases hprot : ty.applyReplayProtection = true
      · rw [Packet.stepWindow_protected hprot] at hw
        cases hw
        have hfalse : w.alreadyReceived sq = false := by
          rw [Packet.isDup_some, hprot, Bool.true_and] at hd; exact hd
        have hslt : sq < 2 ^ 64 := by rw [hs]; exact Packet.wireSeq_lt hso.seq_len
        exact ⟨sq :: acc, RP.inv_advance hinv hslt hfalse, fun _ hx => List.mem_cons_of_mem _ hx⟩
      · have hprot : ty.applyReplayProtection = false := by simpa using hprot
        rw [Packet.stepWindow_unprotected hprot] at hw
        cases hw; exact ⟨acc, hinv, fun _ hx => hx⟩
  | err e =>
    rcases Packet.decode_err h with hw | ⟨k', plain, hk, hso, hd, _, _, hw⟩
    · cases hw; exact ⟨acc, hinv, fun _ hx => hx⟩
    · cases hw
      have hfalse : w.alreadyReceived (Packet.wireSeq buf) = false := by
        rw [Packet.isDup_some] at hd; simpa [PacketType.applyReplayProtection] using hd
      exact ⟨_ :: acc, RP.inv_advance hinv (Packet.wireSeq_lt hso.seq_len) hfalse, fun _ hx => List.mem_cons_of_mem _ hx⟩
  | panic m =>
    have := Packet.decode_total a buf proto (some k) (some w) m
    rw [h] at this; exact absurd rfl this

/-- a surfaced payload: the datagram's own sequence number was not in the window, the body opened under the key to exactly
    the payload, and the window handed back is advanced with that sequence number -/
theorem decode_payload_inv {a : AEAD} {buf : Bytes} {proto : Nat} {k : Bytes} {w w' : RP} {sq : Nat} {p : Bytes}
    {acc : List Nat} (h : Packet.decode a buf proto (some k) (some w) = (.ok (sq, .payload p), some w')) (hinv : RP.Inv w acc) :
    sq = Packet.wireSeq buf ∧ Packet.SealedOpen a buf proto k .payload p ∧ w.alreadyReceived (Packet.wireSeq buf) = false ∧
      w' = w.advance (Packet.wireSeq buf) ∧ RP.Inv w' (Packet.wireSeq buf :: acc) := by
  rcases Packet.decode_ok h with ⟨_, _, _, _, hpt, _, _⟩ | ⟨k', ty, plain, hk, hso, hd, hs, hr, hw⟩
  · cases hpt
  · cases hk
    obtain ⟨_, hpt, _, hpl⟩ := Packet.read_ok hr
    have hty : ty = .payload := hpt.symm
    subst hty
    have hp : p = plain := by have := hpl rfl; cases this; rfl
    subst hp
    subst hs
    have hfalse : w.alreadyReceived (Packet.wireSeq buf) = false := by
      rw [Packet.isDup_some] at hd; simpa [PacketType.applyReplayProtection] using hd
    rw [Packet.stepWindow_protected rfl] at hw
    cases hw
    exact ⟨rfl, hso, hfalse, rfl, RP.inv_advance hinv (Packet.wireSeq_lt hso.seq_len) hfalse⟩

/-! ## traces -/

abbrev Trace := List (Op × ServerResult)

/-- States reachable from an empty server by the public operations, with the full trace (operation, result). -/
inductive ReachT (a : AEAD) : NetcodeServer → Trace → Prop
  | init {s : NetcodeServer} : EmptyServer s → ReachT a s []
  | step {s s' : NetcodeServer} {tr : Trace} {op : Op} {r : ServerResult} :
      ReachT a s tr → step a s op = some (r, s') → ReachT a s' (tr ++ [(op, r)])

theorem ReachT.inv {a : AEAD} {s : NetcodeServer} {tr : Trace} (h : ReachT a s tr) : ServerInv s := by
  induction h with
  | init h => exact h.inv
  | step _ hs ih => exact step_inv ih hs

/-- one trace entry: a `ClientConnected id` starts a new session of `id`; a `Payload id p` returned for a datagram `buf`
    adds `(buf, p)` to the current session of `id` -/
def sessStep (id : Nat) (L : List (Bytes × Bytes)) : Op × ServerResult → List (Bytes × Bytes)
  | (_, .clientConnected id' _ _ _) => if id' = id then [] else L
  | (.packet _ buf, .payload id' p) => if id' = id then (buf, p) :: L else L
  | _ => L

/-- the (datagram, surfaced bytes) pairs of the `Payload id` results since the last `ClientConnected id`, newest first -/
def sessPayloads (id : Nat) (tr : Trace) : List (Bytes × Bytes) := tr.foldl (sessStep id) []

/-- their sequence numbers, the sentinel `2^64-1` excluded (`C04.sentinel_collision`) -/
def seqsOf (L : List (Bytes × Bytes)) : List Nat :=
  (L.map fun bp => Packet.wireSeq bp.1).filter fun x => decide (x ≠ 2 ^ 64 - 1)

theorem sessPayloads_snoc (id : Nat) (tr : Trace) (x : Op × ServerResult) :
    sessPayloads id (tr ++ [x]) = sessStep id (sessPayloads id tr) x := by
  simp [sessPayloads, List.foldl_append]

theorem sessStep_other {id : Nat} {L : List (Bytes × Bytes)} {op : Op} {r : ServerResult}
    (h1 : ∀ id' ad ud o, r ≠ .clientConnected id' ad ud o) (h2 : ∀ id' p, r ≠ .payload id' p) :
    sessStep id L (op, r) = L := by
  cases r with
  | clientConnected id' ad ud o => exact absurd rfl (h1 id' ad ud o)
  | payload id' p => exact absurd rfl (h2 id' p)
  | none => cases op <;> rfl
  | packetToSend ad out => cases op <;> rfl
  | clientDisconnected id' ad o => cases op <;> rfl

theorem sessStep_payload (id : Nat) (L : List (Bytes × Bytes)) (ad : Addr) (buf : Bytes) (id' : Nat) (p : Bytes) :
    sessStep id L (.packet ad buf, .payload id' p) = if id' = id then (buf, p) :: L else L := rfl

theorem sessStep_connected (id : Nat) (L : List (Bytes × Bytes)) (op : Op) (id' : Nat) (ad : Addr) (ud o : Bytes) :
    sessStep id L (op, .clientConnected id' ad ud o) = if id' = id then [] else L := by
  cases op <;> rfl

theorem seqsOf_cons (bp : Bytes × Bytes) (L : List (Bytes × Bytes)) :
    seqsOf (bp :: L) = if Packet.wireSeq bp.1 ≠ 2 ^ 64 - 1 then Packet.wireSeq bp.1 :: seqsOf L else seqsOf L := by
  simp only [seqsOf, List.map_cons, List.filter_cons]
  split <;> simp_all

theorem mem_seqsOf {x : Nat} {L : List (Bytes × Bytes)} :
    x ∈ seqsOf L ↔ (∃ bp ∈ L, Packet.wireSeq bp.1 = x) ∧ x ≠ 2 ^ 64 - 1 := by
  simp [seqsOf]

/-! ## the invariant -/

structure SessInv (a : AEAD) (s : NetcodeServer) (tr : Trace) : Prop where
  slot : ∀ i c, At s.clients i c → ∃ acc, RP.Inv c.replayProtection acc ∧
    ∀ bp ∈ sessPayloads c.clientId tr, Packet.wireSeq bp.1 ∈ acc ∧
      Packet.SealedOpen a bp.1 s.protocolId c.receiveKey .payload bp.2
  pend : ∀ x ∈ s.pendingClients, ∃ acc, RP.Inv x.2.replayProtection acc
  nodup : ∀ id, (seqsOf (sessPayloads id tr)).Nodup
  key : ∀ id, ∃ k, ∀ bp ∈ sessPayloads id tr, Packet.SealedOpen a bp.1 s.protocolId k .payload bp.2

theorem sessInv_init (a : AEAD) {s : NetcodeServer} (h : EmptyServer s) : SessInv a s [] := by
  refine ⟨fun i c hc => ?_, fun x hx => ?_, fun id => List.nodup_nil, fun id => ⟨[], fun bp hbp => nomatch hbp⟩⟩
  · rw [h.clients] at hc
    exact absurd hc (by unfold At; rw [List.getElem?_replicate]; split <;> simp)
  · rw [h.pending] at hx; cases hx

/-- an operation whose result is neither `ClientConnected` nor `Payload`, under which every occupied slot descends from the
    same slot with the same id and receive key and a window that still satisfies `RP.Inv` for an extended ghost list, and
    every half-open session is an old one or has a good window -/
theorem SessInv.frame {a : AEAD} {s s' : NetcodeServer} {tr : Trace} {op : Op} {r : ServerResult} (h : SessInv a s tr)
    (h1 : ∀ id' ad ud o, r ≠ .clientConnected id' ad ud o) (h2 : ∀ id' p, r ≠ .payload id' p)
    (hcl : ∀ i c', At s'.clients i c' → ∃ c, At s.clients i c ∧ c'.clientId = c.clientId ∧ c'.receiveKey = c.receiveKey ∧
      ∀ acc, RP.Inv c.replayProtection acc → ∃ acc', RP.Inv c'.replayProtection acc' ∧ ∀ x ∈ acc, x ∈ acc')
    (hp : ∀ y ∈ s'.pendingClients, y ∈ s.pendingClients ∨ ∃ acc, RP.Inv y.2.replayProtection acc)
    (hproto : s'.protocolId = s.protocolId) : SessInv a s' (tr ++ [(op, r)]) := by
  have hL : ∀ id, sessPayloads id (tr ++ [(op, r)]) = sessPayloads id tr := fun id => by
    rw [sessPayloads_snoc, sessStep_other h1 h2]
  refine ⟨fun i c' hc' => ?_, fun y hy => ?_, fun id => ?_, fun id => ?_⟩
  · obtain ⟨c, hc, hid, hk, hw⟩ := hcl i c' hc'
    obtain ⟨acc, hinv, hmem⟩ := h.slot i c hc
    obtain ⟨acc', hinv', hsub⟩ := hw acc hinv
    refine ⟨acc', hinv', fun bp hbp => ?_⟩
    rw [hL, hid] at hbp
    obtain ⟨m1, m2⟩ := hmem bp hbp
    exact ⟨hsub _ m1, by rw [hproto, hk]; exact m2⟩
  · rcases hp y hy with hy' | hy'
    · exact h.pend y hy'
    · exact hy'
  · rw [hL]; exact h.nodup id
  · rw [hL, hproto]; exact h.key id

/-- special case: the slot table is unchanged -/
theorem SessInv.frame_clients {a : AEAD} {s s' : NetcodeServer} {tr : Trace} {op : Op} {r : ServerResult} (h : SessInv a s tr)
    (h1 : ∀ id' ad ud o, r ≠ .clientConnected id' ad ud o) (h2 : ∀ id' p, r ≠ .payload id' p)
    (hcl : s'.clients = s.clients)
    (hp : ∀ y ∈ s'.pendingClients, y ∈ s.pendingClients ∨ ∃ acc, RP.Inv y.2.replayProtection acc)
    (hproto : s'.protocolId = s.protocolId) : SessInv a s' (tr ++ [(op, r)]) :=
  h.frame h1 h2 (fun i c' hc' => ⟨c', by rw [← hcl]; exact hc', rfl, rfl, fun acc hacc => ⟨acc, hacc, fun _ hx => hx⟩⟩) hp hproto

/-- special case: slot `i` (session `c`) is rewritten with the same id and key and a window `decode` handed back, or freed -/
theorem SessInv.frame_slot {a : AEAD} {s : NetcodeServer} {tr : Trace} {op : Op} {r : ServerResult} (h : SessInv a s tr)
    (h1 : ∀ id' ad ud o, r ≠ .clientConnected id' ad ud o) (h2 : ∀ id' p, r ≠ .payload id' p)
    {i : Nat} {c : Connection} (hc : At s.clients i c) {x : Option Connection}
    (hx : ∀ c', x = some c' → c'.clientId = c.clientId ∧ c'.receiveKey = c.receiveKey ∧
      ∀ acc, RP.Inv c.replayProtection acc → ∃ acc', RP.Inv c'.replayProtection acc' ∧ ∀ y ∈ acc, y ∈ acc') :
    SessInv a { s with clients := s.clients.set i x } (tr ++ [(op, r)]) := by
  refine h.frame h1 h2 (fun j c' hc' => ?_) (fun y hy => Or.inl hy) rfl
  rw [at_set] at hc'
  split at hc'
  · rename_i hij; subst hij
    obtain ⟨e1, e2, e3⟩ := hx c' hc'.2
    exact ⟨c, hc, e1, e2, e3⟩
  · exact ⟨c', hc', rfl, rfl, fun acc hacc => ⟨acc, hacc, fun _ hx => hx⟩⟩

/-- what `handle_connection_request` does to the half-open sessions: it drops some, and may (re)create the one of the
    requesting address with a NEW window -/
theorem hcr_pending_windows {a : AEAD} {s : NetcodeServer} {addr : Addr} {v : Bytes} {pid expire : Nat} {xnonce data : Bytes}
    {R : NetcodeServer.SRes} {r : ServerResult} {s' : NetcodeServer}
    (ho : HcrOut a s addr v pid expire xnonce data R) (hr : HcrRes R r s') :
    ∀ y ∈ s'.pendingClients, y ∈ s.pendingClients ∨ y.2.replayProtection = RP.new := by
  cases ho with
  | err e => rcases hr with h | ⟨rfl, e', h⟩ <;> cases h; exact fun y hy => Or.inl hy
  | none => rcases hr with h | ⟨rfl, e', h⟩ <;> cases h; exact fun y hy => Or.inl hy
  | deniedErr t s1 e hacc hstep hfull =>
    rcases hr with h | ⟨rfl, e', h⟩ <;> cases h
    intro y hy
    have := (entryStep_fields hstep).2.1
    exact Or.inl (by rw [← this]; exact (mem_pendingRemove.mp hy).1)
  | denied t s1 out hacc hstep hfull hen =>
    rcases hr with h | ⟨rfl, e', h⟩ <;> cases h
    intro y hy
    have := (entryStep_fields hstep).2.1
    exact Or.inl (by rw [← this]; exact (mem_pendingRemove.mp hy).1)
  | challengeErr t s1 e hacc hstep hfull =>
    rcases hr with h | ⟨rfl, e', h⟩ <;> cases h
    intro y hy
    have := (entryStep_fields hstep).2.1
    exact Or.inl (by rw [← this]; exact hy)
  | challenge t s1 pkt out hacc hstep hfull hgen hen =>
    rcases hr with h | ⟨rfl, e', h⟩ <;> cases h
    intro y hy
    have := (entryStep_fields hstep).2.1
    rcases mem_pendingSet' hy with rfl | hy'
    · exact Or.inr rfl
    · exact Or.inl (by rw [← this]; exact hy')

theorem hcr_not_session {a : AEAD} {s : NetcodeServer} {addr : Addr} {v : Bytes} {pid expire : Nat} {xnonce data : Bytes}
    {R : NetcodeServer.SRes} {r : ServerResult} {s' : NetcodeServer}
    (ho : HcrOut a s addr v pid expire xnonce data R) (hr : HcrRes R r s') :
    (∀ id' ad ud o, r ≠ .clientConnected id' ad ud o) ∧ (∀ id' p, r ≠ .payload id' p) := by
  rcases (hcr_clients ho hr).2 with rfl | ⟨out, rfl⟩ <;> exact ⟨(by intro _ _ _ _ h; cases h), (by intro _ _ h; cases h)⟩

/-! ## `process_packet` preserves the invariant -/

theorem ppOut_sessInv {a : AEAD} {s : NetcodeServer} {tr : Trace} {addr : Addr} {buf : Bytes} {r : ServerResult}
    {s' : NetcodeServer} (hi : ServerInv s) (h : SessInv a s tr) (ho : PPOut a s addr buf r s') :
    SessInv a s' (tr ++ [(.packet addr buf, r)]) := by
  have nc : ∀ id' ad ud o, ServerResult.none ≠ .clientConnected id' ad ud o := fun _ _ _ _ h => nomatch h
  have np : ∀ id' p, ServerResult.none ≠ .payload id' p := fun _ _ h => nomatch h
  -- a window `decode` hands back for a half-open session keeps the invariant
  have pendW : ∀ {p : Connection} {res : NRes (Nat × Packet)} {w' : RP}, pendingFind s.pendingClients addr = some p →
      Packet.decode a buf s.protocolId (some p.receiveKey) (some p.replayProtection) = (res, some w') →
      ∃ acc, RP.Inv w' acc := by
    intro p res w' hpf hdec
    obtain ⟨acc, hacc⟩ := h.pend (addr, p) (pendingFind_mem hpf)
    obtain ⟨acc', hacc', _⟩ := decode_window_inv hdec hacc
    exact ⟨acc', hacc'⟩
  have pendSet : ∀ {q : Connection}, (∃ acc, RP.Inv q.replayProtection acc) →
      ∀ y ∈ pendingSet s.pendingClients addr q, y ∈ s.pendingClients ∨ ∃ acc, RP.Inv y.2.replayProtection acc := by
    intro q hq y hy
    rcases mem_pendingSet' hy with rfl | hy'
    · exact Or.inr hq
    · exact Or.inl hy'
  cases ho with
  | short _ => exact h.frame_clients nc np rfl (fun y hy => Or.inl hy) rfl
  | connErr i c e w' hfa hdec =>
    refine h.frame_slot nc np (findAddr_some hfa).1 ?_
    rintro c' ⟨⟩
    exact ⟨rfl, rfl, fun acc hacc => decode_window_inv hdec hacc⟩
  | connDisconnect i c sq w' hfa hdec =>
    exact h.frame_slot (by intro _ _ _ _ h; cases h) (by intro _ _ h; cases h) (findAddr_some hfa).1 (fun c' hc' => nomatch hc')
  | connKeepAlive i c sq ci mc w' hfa hdec =>
    refine h.frame_slot nc np (findAddr_some hfa).1 ?_
    rintro c' ⟨⟩
    exact ⟨rfl, rfl, fun acc hacc => decode_window_inv hdec hacc⟩
  | connOther i c sq pk w' hfa hdec _ _ _ =>
    refine h.frame_slot nc np (findAddr_some hfa).1 ?_
    rintro c' ⟨⟩
    exact ⟨rfl, rfl, fun acc hacc => decode_window_inv hdec hacc⟩
  | connPayload i c sq p w' hfa hdec =>
    have hc := (findAddr_some hfa).1
    obtain ⟨acc, hacc, hmem⟩ := h.slot i c hc
    obtain ⟨hsq, hso, hfresh, _, hacc'⟩ := decode_payload_inv hdec hacc
    have hL : ∀ id, sessPayloads id (tr ++ [(Op.packet addr buf, ServerResult.payload c.clientId p)]) =
        if c.clientId = id then (buf, p) :: sessPayloads id tr else sessPayloads id tr := fun id => by
      rw [sessPayloads_snoc, sessStep_payload]
    refine ⟨fun j c' hc' => ?_, h.pend, fun id => ?_, fun id => ?_⟩
    · rcases at_set_some hc' with ⟨rfl, rfl⟩ | ⟨hne, hj⟩
      · refine ⟨_, hacc', fun bp hbp => ?_⟩
        rw [hL] at hbp
        simp only [if_true, List.mem_cons] at hbp
        rcases hbp with rfl | hbp
        · exact ⟨List.mem_cons_self, hso⟩
        · obtain ⟨m1, m2⟩ := hmem bp hbp
          exact ⟨List.mem_cons_of_mem _ m1, m2⟩
      · obtain ⟨acc2, hacc2, hmem2⟩ := h.slot j c' hj
        refine ⟨acc2, hacc2, fun bp hbp => ?_⟩
        rw [hL, if_neg (fun e => hne (hi.slots.ids i j c c' hc hj e))] at hbp
        exact hmem2 bp hbp
    · rw [hL]
      split
      · rename_i e; subst e
        rw [seqsOf_cons]
        split
        · rename_i hne
          refine List.nodup_cons.mpr ⟨fun hin => ?_, h.nodup _⟩
          obtain ⟨⟨bp, hbp, e⟩, _⟩ := mem_seqsOf.mp hin
          have hin' : Packet.wireSeq buf ∈ acc := by rw [← e]; exact (hmem bp hbp).1
          rw [RP.no_reaccept hacc hin' hne] at hfresh
          cases hfresh
        · exact h.nodup _
      · exact h.nodup id
    · rw [hL]
      split
      · rename_i e; subst e
        refine ⟨c.receiveKey, fun bp hbp => ?_⟩
        rcases List.mem_cons.mp hbp with rfl | hbp
        · exact hso
        · exact (hmem bp hbp).2
      · exact h.key id
  | pendErr p e w' hfa hpf hdec =>
    exact h.frame_clients nc np rfl (pendSet (pendW hpf hdec)) rfl
  | pendRequest p sq v pid expire xnonce data w' R _ _ hfa hpf hdec hout hres =>
    obtain ⟨hn1, hn2⟩ := hcr_not_session hout hres
    refine h.frame_clients hn1 hn2 (hcr_clients hout hres).1 (fun y hy => ?_) (hcr_frame hout hres).2.1
    rcases hcr_pending_windows hout hres y hy with hy' | hy'
    · exact pendSet (q := touched p w' s.currentTime) (pendW hpf hdec) y hy'
    · exact Or.inr ⟨[], by rw [hy']; exact RP.inv_new⟩
  | pendOther p sq pk w' hfa hpf hdec _ _ =>
    exact h.frame_clients nc np rfl (pendSet (q := touched p w' s.currentTime) (pendW hpf hdec)) rfl
  | respRejected p sq ts td w' hfa hpf hdec _ =>
    exact h.frame_clients nc np rfl (pendSet (q := touched p w' s.currentTime) (pendW hpf hdec)) rfl
  | respDropped p sq ts td w' hfa hpf hdec _ =>
    exact h.frame_clients nc np rfl (fun y hy => Or.inl (mem_pendingRemove.mp hy).1) rfl
  | respFull p sq ts td w' out hfa hpf hdec _ _ _ _ =>
    exact h.frame_clients (by intro _ _ _ _ h; cases h) (by intro _ _ h; cases h) rfl
      (fun y hy => Or.inl (mem_pendingRemove.mp hy).1) rfl
  | respConnected p sq ts td w' i out hfa hpf hdec hct hid hff hen =>
    have hL : ∀ id, sessPayloads id (tr ++ [(Op.packet addr buf, ServerResult.clientConnected p.clientId addr p.userData out)]) =
        if p.clientId = id then [] else sessPayloads id tr := fun id => by
      rw [sessPayloads_snoc, sessStep_connected]
    refine ⟨fun j c' hc' => ?_, fun y hy => h.pend y (mem_pendingRemove.mp hy).1, fun id => ?_, fun id => ?_⟩
    · rcases at_set_some hc' with ⟨rfl, rfl⟩ | ⟨hne, hj⟩
      · obtain ⟨acc, hacc⟩ := pendW hpf hdec
        refine ⟨acc, hacc, fun bp hbp => ?_⟩
        rw [hL] at hbp
        simp at hbp
      · obtain ⟨acc2, hacc2, hmem2⟩ := h.slot j c' hj
        refine ⟨acc2, hacc2, fun bp hbp => ?_⟩
        rw [hL, if_neg (fun e => findById_none.mp hid j c' hj e.symm)] at hbp
        exact hmem2 bp hbp
    · rw [hL]; split
      · exact List.nodup_nil
      · exact h.nodup id
    · rw [hL]; split
      · exact ⟨[], fun bp hbp => nomatch hbp⟩
      · exact h.key id
  | newErr e hfa hpf hdec => exact h.frame_clients nc np rfl (fun y hy => Or.inl hy) rfl
  | newRequest sq v pid expire xnonce data R _ _ hfa hpf hdec hout hres =>
    obtain ⟨hn1, hn2⟩ := hcr_not_session hout hres
    refine h.frame_clients hn1 hn2 (hcr_clients hout hres).1 (fun y hy => ?_) (hcr_frame hout hres).2.1
    rcases hcr_pending_windows hout hres y hy with hy' | hy'
    · exact Or.inl hy'
    · exact Or.inr ⟨[], by rw [hy']; exact RP.inv_new⟩

/-! ## every operation preserves the invariant -/

theorem SessInv.same {a : AEAD} {s : NetcodeServer} {tr : Trace} {op : Op} (h : SessInv a s tr) :
    SessInv a s (tr ++ [(op, .none)]) :=
  h.frame_clients (by intro _ _ _ _ h; cases h) (by intro _ _ h; cases h) rfl (fun y hy => Or.inl hy) rfl

theorem step_sessInv {a : AEAD} {s s' : NetcodeServer} {tr : Trace} {op : Op} {r : ServerResult} (hi : ServerInv s)
    (h : SessInv a s tr) (hs : step a s op = some (r, s')) : SessInv a s' (tr ++ [(op, r)]) := by
  cases op with
  | packet addr buf =>
    simp only [step] at hs
    cases hp : s.processPacket a addr buf with
    | ok x => rw [hp] at hs; cases hs; exact ppOut_sessInv hi h (pp_ok hi hp)
    | err e => exact e.elim
    | panic m => rw [hp] at hs; cases hs
  | update d =>
    simp only [step] at hs
    cases hp : s.update d with
    | ok x =>
      rw [hp] at hs; cases hs
      rw [update_ok hp]
      exact h.frame_clients (by intro _ _ _ _ h; cases h) (by intro _ _ h; cases h) rfl
        (fun y hy => Or.inl (List.mem_filter.mp hy).1) rfl
    | err e => exact e.elim
    | panic m => rw [hp] at hs; cases hs
  | updateClient id =>
    simp only [step] at hs
    cases hp : s.updateClient a id with
    | ok x =>
      rw [hp] at hs; cases hs
      cases hf : findClientSlotById s.clients id with
      | none => rw [updateClient_absent a hf] at hp; cases hp; exact h.same
      | some i =>
        obtain ⟨c, hc, hid, _⟩ := findSlot_some hf
        rcases updateClient_spec a hi hf hc with ⟨_, o, e⟩ | ⟨_, e | ⟨out, _, _, e⟩⟩ | ⟨⟨m, e⟩, _⟩
        · rw [e] at hp; cases hp
          exact h.frame_slot (by intro _ _ _ _ h; cases h) (by intro _ _ h; cases h) hc (fun c' hc' => nomatch hc')
        · rw [e] at hp; cases hp; exact h.same
        · rw [e] at hp; cases hp
          refine h.frame_slot (by intro _ _ _ _ h; cases h) (by intro _ _ h; cases h) hc ?_
          rintro c' ⟨⟩
          exact ⟨rfl, rfl, fun acc hacc => ⟨acc, hacc, fun _ hx => hx⟩⟩
        · rw [e] at hp; cases hp
    | err e => exact e.elim
    | panic m => rw [hp] at hs; cases hs
  | disconnect id =>
    simp only [step] at hs
    cases hp : s.disconnect a id with
    | ok x =>
      rw [hp] at hs; cases hs
      rcases disconnect_spec a s id with ⟨_, e⟩ | ⟨i, c, o, _, hc, _, e⟩
      · rw [e] at hp; cases hp; exact h.same
      · rw [e] at hp; cases hp
        exact h.frame_slot (by intro _ _ _ _ h; cases h) (by intro _ _ h; cases h) hc (fun c' hc' => nomatch hc')
    | err e => exact e.elim
    | panic m => rw [hp] at hs; cases hs
  | setMaxClients m =>
    simp only [step, Option.some.injEq, Prod.mk.injEq] at hs
    obtain ⟨rfl, rfl⟩ := hs
    obtain ⟨_, e2, e3, _, _⟩ := setMaxClients_eq s m
    refine h.frame (by intro _ _ _ _ h; cases h) (by intro _ _ h; cases h) (fun i c' hc' => ?_)
      (fun y hy => Or.inl (by rw [← e3]; exact hy)) rfl
    rw [e2] at hc'
    exact ⟨c', at_append_none.mp hc', rfl, rfl, fun acc hacc => ⟨acc, hacc, fun _ hx => hx⟩⟩
  | sendPayload id p =>
    simp only [step] at hs
    cases hp : s.generatePayloadPacket a id p with
    | ok x =>
      obtain ⟨⟨ad, out⟩, s''⟩ := x
      rw [hp] at hs; cases hs
      obtain ⟨i, c, _, hc, _, _, _, rfl⟩ := generatePayload_ok hp
      refine h.frame_slot (by intro _ _ _ _ h; cases h) (by intro _ _ h; cases h) hc ?_
      rintro c' ⟨⟩
      exact ⟨rfl, rfl, fun acc hacc => ⟨acc, hacc, fun _ hx => hx⟩⟩
    | err e => rw [hp] at hs; cases hs; exact h.same
    | panic m => rw [hp] at hs; cases hs

/-- **the session invariant holds along every run** -/
theorem ReachT.sessInv {a : AEAD} {s : NetcodeServer} {tr : Trace} (h : ReachT a s tr) : SessInv a s tr := by
  induction h with
  | init h => exact sessInv_init a h
  | step hr hs ih => exact step_sessInv hr.inv ih hs

/-- no operation changes the protocol id -/
theorem step_protocolId {a : AEAD} {s s' : NetcodeServer} {op : Op} {r : ServerResult} (hi : ServerInv s)
    (h : step a s op = some (r, s')) : s'.protocolId = s.protocolId := by
  cases op with
  | packet addr buf =>
    simp only [step] at h
    cases hp : s.processPacket a addr buf with
    | ok x => rw [hp] at h; cases h; exact (ppOut_frame (pp_ok hi hp)).2.1
    | err e => exact e.elim
    | panic m => rw [hp] at h; cases h
  | update d =>
    simp only [step] at h
    cases hp : s.update d with
    | ok x => rw [hp] at h; cases h; rw [update_ok hp]
    | err e => exact e.elim
    | panic m => rw [hp] at h; cases h
  | updateClient id =>
    simp only [step] at h
    cases hp : s.updateClient a id with
    | ok x =>
      rw [hp] at h; cases h
      cases hf : findClientSlotById s.clients id with
      | none => rw [updateClient_absent a hf] at hp; cases hp; rfl
      | some i =>
        obtain ⟨c, hc, hid, _⟩ := findSlot_some hf
        rcases updateClient_spec a hi hf hc with ⟨_, o, e⟩ | ⟨_, e | ⟨out, _, _, e⟩⟩ | ⟨⟨m, e⟩, _⟩ <;>
          (rw [e] at hp; cases hp) <;> rfl
    | err e => exact e.elim
    | panic m => rw [hp] at h; cases h
  | disconnect id =>
    simp only [step] at h
    cases hp : s.disconnect a id with
    | ok x =>
      rw [hp] at h; cases h
      rcases disconnect_spec a s id with ⟨_, e⟩ | ⟨i, c, o, _, _, _, e⟩ <;> (rw [e] at hp; cases hp) <;> rfl
    | err e => exact e.elim
    | panic m => rw [hp] at h; cases h
  | setMaxClients m =>
    simp only [step, Option.some.injEq, Prod.mk.injEq] at h
    rw [← h.2]; rfl
  | sendPayload id p =>
    simp only [step] at h
    cases hp : s.generatePayloadPacket a id p with
    | ok x =>
      obtain ⟨⟨ad, out⟩, s''⟩ := x
      rw [hp] at h; cases h
      obtain ⟨i, c, _, _, _, _, _, rfl⟩ := generatePayload_ok hp
      rfl
    | err e => rw [hp] at h; cases h; rfl
    | panic m => rw [hp] at h; cases h

/-- only `process_packet` returns `Payload` -/
theorem step_payload_packet {a : AEAD} {s s' : NetcodeServer} {op : Op} {id : Nat} {p : Bytes} (hi : ServerInv s)
    (h : step a s op = some (.payload id p, s')) : ∃ ad buf, op = .packet ad buf := by
  cases op with
  | packet addr buf => exact ⟨addr, buf, rfl⟩
  | update d =>
    simp only [step] at h
    cases hp : s.update d with
    | ok x => rw [hp] at h; cases h
    | err e => exact e.elim
    | panic m => rw [hp] at h; cases h
  | updateClient id' =>
    simp only [step] at h
    cases hp : s.updateClient a id' with
    | ok x =>
      rw [hp] at h; cases h
      cases hf : findClientSlotById s.clients id' with
      | none => rw [updateClient_absent a hf] at hp; cases hp
      | some i =>
        obtain ⟨c, hc, hid, _⟩ := findSlot_some hf
        rcases updateClient_spec a hi hf hc with ⟨_, o, e⟩ | ⟨_, e | ⟨out, _, _, e⟩⟩ | ⟨⟨m, e⟩, _⟩ <;>
          (rw [e] at hp; cases hp)
    | err e => exact e.elim
    | panic m => rw [hp] at h; cases h
  | disconnect id' =>
    simp only [step] at h
    cases hp : s.disconnect a id' with
    | ok x =>
      rw [hp] at h; cases h
      rcases disconnect_spec a s id' with ⟨_, e⟩ | ⟨i, c, o, _, _, _, e⟩ <;> (rw [e] at hp; cases hp)
    | err e => exact e.elim
    | panic m => rw [hp] at h; cases h
  | setMaxClients m =>
    simp only [step, Option.some.injEq, Prod.mk.injEq] at h
    exact absurd h.1 (by intro h; cases h)
  | sendPayload id' q =>
    simp only [step] at h
    cases hp : s.generatePayloadPacket a id' q with
    | ok x =>
      obtain ⟨⟨ad, out⟩, s''⟩ := x
      rw [hp] at h; cases h
    | err e => rw [hp] at h; cases h
    | panic m => rw [hp] at h; cases h

theorem ReachT.payload_packet {a : AEAD} {s : NetcodeServer} {tr : Trace} (h : ReachT a s tr) :
    ∀ op id p, (op, ServerResult.payload id p) ∈ tr → ∃ ad buf, op = .packet ad buf := by
  induction h with
  | init _ => intro _ _ _ hm; cases hm
  | step hr hs ih =>
    intro op id p hm
    rcases List.mem_append.mp hm with hm | hm
    · exact ih op id p hm
    · simp only [List.mem_singleton, Prod.mk.injEq] at hm
      obtain ⟨rfl, rfl⟩ := hm
      exact step_payload_packet hr.inv hs

/-- every prefix of the trace of a run is the trace of a run (of a server with the same protocol id) -/
theorem ReachT.prefix {a : AEAD} {s : NetcodeServer} {tr : Trace} (h : ReachT a s tr) :
    ∀ tr1 tr2, tr = tr1 ++ tr2 → ∃ s1, ReachT a s1 tr1 ∧ s1.protocolId = s.protocolId := by
  induction h with
  | init h0 =>
    intro tr1 tr2 e
    have : tr1 = [] := (List.append_eq_nil_iff.mp e.symm).1
    subst this
    exact ⟨_, .init h0, rfl⟩
  | @step s s' tr op r hr hs ih =>
    intro tr1 tr2 e
    rcases List.eq_nil_or_concat tr2 with rfl | ⟨tr2', x, rfl⟩
    · rw [List.append_nil] at e; subst e; exact ⟨s', .step hr hs, rfl⟩
    · rw [List.concat_eq_append, ← List.append_assoc] at e
      have := List.append_inj_left' e rfl
      obtain ⟨s1, h1, h2⟩ := ih tr1 tr2' this
      exact ⟨s1, h1, by rw [h2, step_protocolId hr.inv hs]⟩

/-- without a `ClientConnected id` the current session of `id` only grows -/
theorem sessStep_suffix {id : Nat} (L : List (Bytes × Bytes)) {x : Op × ServerResult}
    (h : ∀ ad ud o, x.2 ≠ .clientConnected id ad ud o) : ∃ M, sessStep id L x = M ++ L := by
  obtain ⟨op, r⟩ := x
  cases r with
  | clientConnected id' ad ud o =>
    rw [sessStep_connected, if_neg (fun e => h ad ud o (by rw [e]))]
    exact ⟨[], rfl⟩
  | payload id' p =>
    cases op with
    | packet ad buf =>
      rw [sessStep_payload]
      split
      · exact ⟨[(buf, p)], rfl⟩
      · exact ⟨[], rfl⟩
    | _ => exact ⟨[], rfl⟩
  | none => exact ⟨[], by cases op <;> rfl⟩
  | packetToSend ad out => exact ⟨[], by cases op <;> rfl⟩
  | clientDisconnected id' ad o => exact ⟨[], by cases op <;> rfl⟩

theorem foldl_sessStep_suffix {id : Nat} : ∀ (mid : Trace) (L : List (Bytes × Bytes)),
    (∀ x ∈ mid, ∀ ad ud o, x.2 ≠ .clientConnected id ad ud o) → ∃ M, mid.foldl (sessStep id) L = M ++ L := by
  intro mid
  induction mid with
  | nil => intro L _; exact ⟨[], rfl⟩
  | cons x rest ih =>
    intro L h
    obtain ⟨M1, e1⟩ := sessStep_suffix L (h x List.mem_cons_self)
    obtain ⟨M2, e2⟩ := ih (sessStep id L x) (fun y hy => h y (List.mem_cons_of_mem _ hy))
    exact ⟨M2 ++ M1, by rw [List.foldl_cons, e2, e1, List.append_assoc]⟩

/-- runs of `NS.step` from any state, collecting the trace -/
def runT (a : AEAD) (s : NetcodeServer) : List Op → Option (Trace × NetcodeServer)
  | [] => some ([], s)
  | op :: ops =>
    match step a s op with
    | some (r, s') =>
      match runT a s' ops with
      | some (t, s'') => some ((op, r) :: t, s'')
      | none => none
    | none => none

theorem reachT_runT {a : AEAD} : ∀ (ops : List Op) {s s' : NetcodeServer} {tr t : Trace}, ReachT a s tr →
    runT a s ops = some (t, s') → ReachT a s' (tr ++ t) := by
  intro ops
  induction ops with
  | nil => intro s s' tr t hr h; simp only [runT, Option.some.injEq, Prod.mk.injEq] at h; obtain ⟨rfl, rfl⟩ := h; simpa using hr
  | cons op ops ih =>
    intro s s' tr t hr h
    simp only [runT] at h
    cases hs : step a s op with
    | none => rw [hs] at h; cases h
    | some x =>
      obtain ⟨r, s1⟩ := x
      rw [hs] at h
      simp only at h
      cases hr2 : runT a s1 ops with
      | none => rw [hr2] at h; cases h
      | some y =>
        obtain ⟨t', s2⟩ := y
        rw [hr2] at h
        simp only [Option.some.injEq, Prod.mk.injEq] at h
        obtain ⟨rfl, rfl⟩ := h
        have := ih (ReachT.step hr hs) hr2
        simpa using this

/-- the trace of a run pairs the operations with the results, in order -/
theorem runT_zip {a : AEAD} : ∀ (ops : List Op) {s s' : NetcodeServer} {t : Trace},
    runT a s ops = some (t, s') → t = ops.zip (t.map (·.2)) := by
  intro ops
  induction ops with
  | nil => intro s s' t h; simp only [runT, Option.some.injEq, Prod.mk.injEq] at h; obtain ⟨rfl, rfl⟩ := h; rfl
  | cons op ops ih =>
    intro s s' t h
    simp only [runT] at h
    cases hs : step a s op with
    | none => rw [hs] at h; cases h
    | some x =>
      obtain ⟨r, s1⟩ := x
      rw [hs] at h
      simp only at h
      cases hr2 : runT a s1 ops with
      | none => rw [hr2] at h; cases h
      | some y =>
        obtain ⟨t', s2⟩ := y
        rw [hr2] at h
        simp only [Option.some.injEq, Prod.mk.injEq] at h
        obtain ⟨rfl, rfl⟩ := h
        have := ih hr2
        simp only [List.map_cons, List.zip_cons_cons]
        rw [← this]

end NS
end RenetVerif.Netcode
