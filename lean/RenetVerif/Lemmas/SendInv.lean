/-
  Send-side invariants (C08, send half of C06/C09).
  Part 1: SMap facts.  Part 2: SendChannelReliable (`SendRel`).  Part 3: RenetClient (`Conn`).
-/
import RenetVerif.Renet.Conn
import RenetVerif.Lemmas.Acks
namespace RenetVerif
open C

/-! ## Part 1 : association lists -/
namespace SMap
variable {α : Type}

/-- strictly increasing keys -/
def Sorted (m : SMap α) : Prop := List.Pairwise (fun a b => a.1 < b.1) m

theorem sorted_nil : Sorted ([] : SMap α) := List.Pairwise.nil

theorem sorted_cons {k : Nat} {v : α} {r : SMap α} :
    Sorted ((k, v) :: r) ↔ (∀ x ∈ r, k < x.1) ∧ Sorted r := by
  unfold Sorted; exact List.pairwise_cons

@[simp] theorem find?_nil (k : Nat) : find? ([] : SMap α) k = none := rfl
theorem find?_cons (k' : Nat) (v : α) (r : SMap α) (k : Nat) :
    find? ((k', v) :: r) k = if k' = k then some v else find? r k := rfl

theorem find?_some_mem : ∀ {m : SMap α} {k : Nat} {v : α}, find? m k = some v → (k, v) ∈ m
  | [], _, _, h => by simp at h
  | (k', v') :: r, k, v, h => by
    rw [find?_cons] at h
    by_cases c : k' = k
    · rw [if_pos c] at h; cases h; subst c; simp
    · rw [if_neg c] at h; exact List.mem_cons_of_mem _ (find?_some_mem h)

theorem find?_none_of_lt : ∀ {m : SMap α} {k : Nat}, (∀ x ∈ m, k < x.1) → find? m k = none
  | [], _, _ => rfl
  | (k', v') :: r, k, h => by
    rw [find?_cons]
    have h1 := h (k', v') (by simp)
    have : ¬ k' = k := by simp only at h1; omega
    rw [if_neg this]
    exact find?_none_of_lt (fun x hx => h x (List.mem_cons_of_mem _ hx))

theorem find?_none_of_forall_ne : ∀ {m : SMap α} {k : Nat}, (∀ x ∈ m, x.1 ≠ k) → find? m k = none
  | [], _, _ => rfl
  | (k', v') :: r, k, h => by
    rw [find?_cons]
    have h1 := h (k', v') (by simp)
    rw [if_neg h1]
    exact find?_none_of_forall_ne (fun x hx => h x (List.mem_cons_of_mem _ hx))

theorem mem_find?_of_sorted : ∀ {m : SMap α} {k : Nat} {v : α}, Sorted m → (k, v) ∈ m → find? m k = some v
  | [], _, _, _, h => by cases h
  | (k', v') :: r, k, v, hs, h => by
    rw [sorted_cons] at hs
    rw [find?_cons]
    simp only [List.mem_cons, Prod.mk.injEq] at h
    rcases h with ⟨rfl, rfl⟩ | h
    · simp
    · have := hs.1 _ h
      have c : ¬ k' = k := by simp only at this; omega
      rw [if_neg c]
      exact mem_find?_of_sorted hs.2 h

theorem contains_iff {m : SMap α} {k : Nat} : contains m k = true ↔ ∃ v, find? m k = some v := by
  unfold contains; cases find? m k <;> simp

theorem not_contains_iff {m : SMap α} {k : Nat} : ¬ contains m k = true ↔ find? m k = none := by
  unfold contains; cases find? m k <;> simp

/-! #### insert -/
theorem find?_insert : ∀ (m : SMap α) (k : Nat) (v : α) (k' : Nat),
    find? (insert m k v) k' = if k = k' then some v else find? m k'
  | [], k, v, k' => by simp [insert, find?_cons]
  | (k0, v0) :: r, k, v, k' => by
    have ih := find?_insert r k v k'
    simp only [insert]
    by_cases c1 : k < k0
    · rw [if_pos c1, find?_cons]
    · rw [if_neg c1]
      by_cases c2 : k = k0
      · rw [if_pos c2]; simp only [find?_cons]; grind
      · rw [if_neg c2]; simp only [find?_cons, ih]; grind

theorem find?_insert_self (m : SMap α) (k : Nat) (v : α) : find? (insert m k v) k = some v := by
  rw [find?_insert]; simp

theorem find?_insert_ne (m : SMap α) {k k' : Nat} (v : α) (h : k ≠ k') : find? (insert m k v) k' = find? m k' := by
  rw [find?_insert, if_neg h]

theorem mem_insert : ∀ {m : SMap α} {k : Nat} {v : α} {x : Nat × α}, x ∈ insert m k v → x = (k, v) ∨ x ∈ m
  | [], k, v, x, h => by simp [insert] at h; exact Or.inl h
  | (k0, v0) :: r, k, v, x, h => by
    simp only [insert] at h
    by_cases c1 : k < k0
    · rw [if_pos c1] at h
      simp only [List.mem_cons] at h ⊢
      exact h
    · rw [if_neg c1] at h
      by_cases c2 : k = k0
      · rw [if_pos c2] at h
        simp only [List.mem_cons] at h ⊢
        rcases h with h | h
        · exact Or.inl h
        · exact Or.inr (Or.inr h)
      · rw [if_neg c2] at h
        simp only [List.mem_cons] at h ⊢
        rcases h with h | h
        · exact Or.inr (Or.inl h)
        · rcases mem_insert h with h | h
          · exact Or.inl h
          · exact Or.inr (Or.inr h)

theorem sorted_insert : ∀ {m : SMap α} (k : Nat) (v : α), Sorted m → Sorted (insert m k v)
  | [], k, v, _ => by simp [insert, Sorted]
  | (k0, v0) :: r, k, v, hs => by
    simp only [insert]
    have hs' := sorted_cons.mp hs
    by_cases c1 : k < k0
    · rw [if_pos c1, sorted_cons]
      refine ⟨?_, hs⟩
      intro x hx
      simp only [List.mem_cons] at hx
      rcases hx with rfl | hx
      · exact c1
      · have := hs'.1 x hx; omega
    · rw [if_neg c1]
      by_cases c2 : k = k0
      · rw [if_pos c2, sorted_cons]; subst c2; exact hs'
      · rw [if_neg c2, sorted_cons]
        refine ⟨?_, sorted_insert k v hs'.2⟩
        intro x hx
        rcases mem_insert hx with rfl | hx
        · simp only; omega
        · exact hs'.1 x hx

/-- inserting above every key appends -/
theorem insert_above : ∀ {m : SMap α} {k : Nat} (v : α), (∀ x ∈ m, x.1 < k) → insert m k v = m ++ [(k, v)]
  | [], _, _, _ => rfl
  | (k0, v0) :: r, k, v, h => by
    have h0 := h (k0, v0) (by simp)
    simp only at h0
    simp only [insert]
    rw [if_neg (by omega), if_neg (by omega), insert_above v (fun x hx => h x (List.mem_cons_of_mem _ hx))]
    rfl

/-! #### erase -/
theorem mem_erase : ∀ {m : SMap α} {k : Nat} {x : Nat × α}, x ∈ erase m k → x ∈ m
  | [], _, _, h => by cases h
  | (k0, v0) :: r, k, x, h => by
    simp only [erase] at h
    by_cases c : k0 = k
    · rw [if_pos c] at h; exact List.mem_cons_of_mem _ h
    · rw [if_neg c] at h
      simp only [List.mem_cons] at h ⊢
      rcases h with h | h
      · exact Or.inl h
      · exact Or.inr (mem_erase h)

theorem sorted_erase : ∀ {m : SMap α} (k : Nat), Sorted m → Sorted (erase m k)
  | [], _, _ => sorted_nil
  | (k0, v0) :: r, k, hs => by
    simp only [erase]
    have hs' := sorted_cons.mp hs
    by_cases c : k0 = k
    · rw [if_pos c]; exact hs'.2
    · rw [if_neg c, sorted_cons]
      exact ⟨fun x hx => hs'.1 x (mem_erase hx), sorted_erase k hs'.2⟩

theorem find?_erase_ne : ∀ (m : SMap α) {k k' : Nat}, k ≠ k' → find? (erase m k) k' = find? m k'
  | [], _, _, _ => rfl
  | (k0, v0) :: r, k, k', h => by
    simp only [erase]
    by_cases c : k0 = k
    · rw [if_pos c, find?_cons, if_neg (by omega)]
    · rw [if_neg c, find?_cons, find?_cons, find?_erase_ne r h]

theorem find?_erase_self : ∀ {m : SMap α} (k : Nat), Sorted m → find? (erase m k) k = none
  | [], _, _ => rfl
  | (k0, v0) :: r, k, hs => by
    simp only [erase]
    have hs' := sorted_cons.mp hs
    by_cases c : k0 = k
    · rw [if_pos c]; subst c; exact find?_none_of_lt hs'.1
    · rw [if_neg c, find?_cons, if_neg c]; exact find?_erase_self k hs'.2

theorem find?_erase {m : SMap α} (hs : Sorted m) (k k' : Nat) :
    find? (erase m k) k' = if k = k' then none else find? m k' := by
  by_cases c : k = k'
  · subst c; rw [if_pos rfl]; exact find?_erase_self k hs
  · rw [if_neg c]; exact find?_erase_ne m c

/-- whatever is found after an erase was there before (no sortedness needed for `k' ≠ k`) -/
theorem find?_erase_some {m : SMap α} (hs : Sorted m) {k k' : Nat} {v : α}
    (h : find? (erase m k) k' = some v) : k ≠ k' ∧ find? m k' = some v := by
  rw [find?_erase hs] at h
  by_cases c : k = k'
  · rw [if_pos c] at h; cases h
  · rw [if_neg c] at h; exact ⟨c, h⟩

end SMap
end RenetVerif
