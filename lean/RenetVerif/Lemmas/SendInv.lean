/-
  Send-side invariants of the renet model (property C08, send half of C06 / C09).

  Part 1: association-list facts.  Part 2: SendChannelReliable (`SendRel`): `SendRel.Inv`, `InfoOK`, `Step`,
  send_message / get_packets_to_send / process_*_ack.  Part 3: RenetClient (`Conn`): `Conn.SendInv`,
  send_message / update / get_packets_to_send / process_packet.

  Helper lemmas live in namespace `RenetVerif.SI`; predicates used with field notation on model types
  (`s.Inv`, `c.SendInv`, `u.OK`, …) are declared under the model type's own namespace.
-/
import RenetVerif.Renet.Conn
import RenetVerif.Lemmas.Acks
namespace RenetVerif
namespace SI
open C RenetVerif.SMap

/-! ## Part 1 : association lists -/
variable {α : Type}

/-- strictly increasing keys -/
def Sorted (m : SMap α) : Prop := List.Pairwise (fun a b => a.1 < b.1) m

theorem sorted_nil : Sorted ([] : SMap α) := List.Pairwise.nil

theorem sorted_cons {k : Nat} {v : α} {r : SMap α} :
    Sorted ((k, v) :: r) ↔ (∀ x ∈ r, k < x.1) ∧ Sorted r := by
  unfold Sorted; exact List.pairwise_cons

@[simp] theorem find?_nil (k : Nat) : find? ([] : SMap α) k = none := rfl
theorem find?_cons (k' : Nat) (v : α) (r : SMap α) (k : Nat) :
    find? ((k', v) :: r) k = if k' = k then some v else find? r k := rfl

theorem find?_some_mem : ∀ {m : SMap α} {k : Nat} {v : α}, find? m k = some v → (k, v) ∈ m
  | [], _, _, h => by simp at h
  | (k', v') :: r, k, v, h => by
    rw [find?_cons] at h
    by_cases c : k' = k
    · rw [if_pos c] at h; cases h; subst c; simp
    · rw [if_neg c] at h; exact List.mem_cons_of_mem _ (find?_some_mem h)

theorem find?_none_of_lt : ∀ {m : SMap α} {k : Nat}, (∀ x ∈ m, k < x.1) → find? m k = none
  | [], _, _ => rfl
  | (k', v') :: r, k, h => by
    rw [find?_cons]
    have h1 := h (k', v') (by simp)
    have : ¬ k' = k := by simp only at h1; omega
    rw [if_neg this]
    exact find?_none_of_lt (fun x hx => h x (List.mem_cons_of_mem _ hx))

theorem find?_none_of_forall_ne : ∀ {m : SMap α} {k : Nat}, (∀ x ∈ m, x.1 ≠ k) → find? m k = none
  | [], _, _ => rfl
  | (k', v') :: r, k, h => by
    rw [find?_cons]
    have h1 := h (k', v') (by simp)
    rw [if_neg h1]
    exact find?_none_of_forall_ne (fun x hx => h x (List.mem_cons_of_mem _ hx))

theorem mem_find?_of_sorted : ∀ {m : SMap α} {k : Nat} {v : α}, Sorted m → (k, v) ∈ m → find? m k = some v
  | [], _, _, _, h => by cases h
  | (k', v') :: r, k, v, hs, h => by
    rw [sorted_cons] at hs
    rw [find?_cons]
    simp only [List.mem_cons, Prod.mk.injEq] at h
    rcases h with ⟨rfl, rfl⟩ | h
    · simp
    · have := hs.1 _ h
      have c : ¬ k' = k := by simp only at this; omega
      rw [if_neg c]
      exact mem_find?_of_sorted hs.2 h

theorem contains_iff {m : SMap α} {k : Nat} : contains m k = true ↔ ∃ v, find? m k = some v := by
  unfold contains; cases find? m k <;> simp

theorem not_contains_iff {m : SMap α} {k : Nat} : ¬ contains m k = true ↔ find? m k = none := by
  unfold contains; cases find? m k <;> simp

/-! #### insert -/
theorem find?_insert : ∀ (m : SMap α) (k : Nat) (v : α) (k' : Nat),
    find? (insert m k v) k' = if k = k' then some v else find? m k'
  | [], k, v, k' => by simp [SMap.insert, find?_cons]
  | (k0, v0) :: r, k, v, k' => by
    have ih := find?_insert r k v k'
    simp only [SMap.insert]
    by_cases c1 : k < k0
    · rw [if_pos c1, find?_cons]
    · rw [if_neg c1]
      by_cases c2 : k = k0
      · rw [if_pos c2]; simp only [find?_cons]; grind
      · rw [if_neg c2]; simp only [find?_cons, ih]; grind

theorem find?_insert_self (m : SMap α) (k : Nat) (v : α) : find? (insert m k v) k = some v := by
  rw [find?_insert]; simp

theorem find?_insert_ne (m : SMap α) {k k' : Nat} (v : α) (h : k ≠ k') : find? (insert m k v) k' = find? m k' := by
  rw [find?_insert, if_neg h]

theorem mem_insert : ∀ {m : SMap α} {k : Nat} {v : α} {x : Nat × α}, x ∈ insert m k v → x = (k, v) ∨ x ∈ m
  | [], k, v, x, h => by simp [SMap.insert] at h; exact Or.inl h
  | (k0, v0) :: r, k, v, x, h => by
    simp only [SMap.insert] at h
    by_cases c1 : k < k0
    · rw [if_pos c1] at h
      simp only [List.mem_cons] at h ⊢
      exact h
    · rw [if_neg c1] at h
      by_cases c2 : k = k0
      · rw [if_pos c2] at h
        simp only [List.mem_cons] at h ⊢
        rcases h with h | h
        · exact Or.inl h
        · exact Or.inr (Or.inr h)
      · rw [if_neg c2] at h
        simp only [List.mem_cons] at h ⊢
        rcases h with h | h
        · exact Or.inr (Or.inl h)
        · rcases mem_insert h with h | h
          · exact Or.inl h
          · exact Or.inr (Or.inr h)

theorem sorted_insert : ∀ {m : SMap α} (k : Nat) (v : α), Sorted m → Sorted (insert m k v)
  | [], k, v, _ => by simp [SMap.insert, Sorted]
  | (k0, v0) :: r, k, v, hs => by
    simp only [SMap.insert]
    have hs' := sorted_cons.mp hs
    by_cases c1 : k < k0
    · rw [if_pos c1, sorted_cons]
      refine ⟨?_, hs⟩
      intro x hx
      simp only [List.mem_cons] at hx
      rcases hx with rfl | hx
      · exact c1
      · have := hs'.1 x hx; omega
    · rw [if_neg c1]
      by_cases c2 : k = k0
      · rw [if_pos c2, sorted_cons]; subst c2; exact hs'
      · rw [if_neg c2, sorted_cons]
        refine ⟨?_, sorted_insert k v hs'.2⟩
        intro x hx
        rcases mem_insert hx with rfl | hx
        · simp only; omega
        · exact hs'.1 x hx

/-- inserting above every key appends -/
theorem insert_above : ∀ {m : SMap α} {k : Nat} (v : α), (∀ x ∈ m, x.1 < k) → insert m k v = m ++ [(k, v)]
  | [], _, _, _ => rfl
  | (k0, v0) :: r, k, v, h => by
    have h0 := h (k0, v0) (by simp)
    simp only at h0
    simp only [SMap.insert]
    rw [if_neg (by omega), if_neg (by omega), insert_above v (fun x hx => h x (List.mem_cons_of_mem _ hx))]
    rfl

/-! #### erase -/
theorem mem_erase : ∀ {m : SMap α} {k : Nat} {x : Nat × α}, x ∈ erase m k → x ∈ m
  | [], _, _, h => by cases h
  | (k0, v0) :: r, k, x, h => by
    simp only [SMap.erase] at h
    by_cases c : k0 = k
    · rw [if_pos c] at h; exact List.mem_cons_of_mem _ h
    · rw [if_neg c] at h
      simp only [List.mem_cons] at h ⊢
      rcases h with h | h
      · exact Or.inl h
      · exact Or.inr (mem_erase h)

theorem sorted_erase : ∀ {m : SMap α} (k : Nat), Sorted m → Sorted (erase m k)
  | [], _, _ => sorted_nil
  | (k0, v0) :: r, k, hs => by
    simp only [SMap.erase]
    have hs' := sorted_cons.mp hs
    by_cases c : k0 = k
    · rw [if_pos c]; exact hs'.2
    · rw [if_neg c, sorted_cons]
      exact ⟨fun x hx => hs'.1 x (mem_erase hx), sorted_erase k hs'.2⟩

theorem find?_erase_ne : ∀ (m : SMap α) {k k' : Nat}, k ≠ k' → find? (erase m k) k' = find? m k'
  | [], _, _, _ => rfl
  | (k0, v0) :: r, k, k', h => by
    simp only [SMap.erase]
    by_cases c : k0 = k
    · rw [if_pos c, find?_cons, if_neg (by omega)]
    · rw [if_neg c, find?_cons, find?_cons, find?_erase_ne r h]

theorem find?_erase_self : ∀ {m : SMap α} (k : Nat), Sorted m → find? (erase m k) k = none
  | [], _, _ => rfl
  | (k0, v0) :: r, k, hs => by
    simp only [SMap.erase]
    have hs' := sorted_cons.mp hs
    by_cases c : k0 = k
    · rw [if_pos c]; subst c; exact find?_none_of_lt hs'.1
    · rw [if_neg c, find?_cons, if_neg c]; exact find?_erase_self k hs'.2

theorem find?_erase {m : SMap α} (hs : Sorted m) (k k' : Nat) :
    find? (erase m k) k' = if k = k' then none else find? m k' := by
  by_cases c : k = k'
  · subst c; rw [if_pos rfl]; exact find?_erase_self k hs
  · rw [if_neg c]; exact find?_erase_ne m c

/-- whatever is found after an erase was there before (no sortedness needed for `k' ≠ k`) -/
theorem find?_erase_some {m : SMap α} (hs : Sorted m) {k k' : Nat} {v : α}
    (h : find? (erase m k) k' = some v) : k ≠ k' ∧ find? m k' = some v := by
  rw [find?_erase hs] at h
  by_cases c : k = k'
  · rw [if_pos c] at h; cases h
  · rw [if_neg c] at h; exact ⟨c, h⟩



/-! ## Part 2 : SendChannelReliable -/

/-- total length of the stored messages -/
def msum : SMap Unacked → Nat
  | [] => 0
  | (_, u) :: r => u.msg.length + msum r

@[simp] theorem msum_nil : msum [] = 0 := rfl
@[simp] theorem msum_cons (k : Nat) (u : Unacked) (r : SMap Unacked) : msum ((k, u) :: r) = u.msg.length + msum r := rfl

theorem msum_append : ∀ (a b : SMap Unacked), msum (a ++ b) = msum a + msum b
  | [], b => by simp
  | (k, u) :: a, b => by simp only [List.cons_append, msum_cons, msum_append a b]; omega

theorem msum_erase : ∀ {m : SMap Unacked} {k : Nat} {u : Unacked}, find? m k = some u →
    msum (erase m k) + u.msg.length = msum m
  | [], _, _, h => by simp at h
  | (k0, u0) :: r, k, u, h => by
    rw [find?_cons] at h
    simp only [SMap.erase]
    by_cases c : k0 = k
    · rw [if_pos c] at h ⊢; cases h; simp only [msum_cons]; omega
    · rw [if_neg c] at h ⊢
      have := msum_erase h
      simp only [msum_cons]; omega

theorem msum_insert_replace : ∀ {m : SMap Unacked} {k : Nat} {u : Unacked} (v : Unacked), Sorted m → find? m k = some u →
    msum (insert m k v) + u.msg.length = msum m + v.msg.length
  | [], _, _, _, _, h => by simp at h
  | (k0, u0) :: r, k, u, v, hs, h => by
    rw [find?_cons] at h
    have hs' := sorted_cons.mp hs
    simp only [SMap.insert]
    by_cases c : k0 = k
    · rw [if_pos c] at h; cases h
      rw [if_neg (by omega), if_pos c.symm]
      simp only [msum_cons]; omega
    · rw [if_neg c] at h
      have hm := hs'.1 _ (find?_some_mem h)
      simp only at hm
      rw [if_neg (by omega), if_neg (by omega)]
      have := msum_insert_replace v hs'.2 h
      simp only [msum_cons]; omega

theorem msum_ge {m : SMap Unacked} {k : Nat} {u : Unacked} (h : find? m k = some u) : u.msg.length ≤ msum m := by
  have := msum_erase h; omega

/-! ### per-entry well-formedness -/
def _root_.RenetVerif.Unacked.OK : Unacked → Prop
  | .small m _ => m.length ≤ SLICE_SIZE
  | .sliced m n numAcked _ acked lastSent =>
    SLICE_SIZE < m.length ∧ n = divCeil m.length SLICE_SIZE ∧ acked.length = n ∧ lastSent.length = n ∧
    numAcked = acked.count true ∧ numAcked < n

theorem _root_.RenetVerif.Unacked.OK.two_le {m : Bytes} {n k nx : Nat} {a : List Bool} {ls : List (Option Nat)}
    (h : (Unacked.sliced m n k nx a ls).OK) : 2 ≤ n := by
  obtain ⟨h1, h2, -⟩ := h
  simp only [divCeil, SLICE_SIZE] at h1 h2
  omega

def _root_.RenetVerif.Unacked.IsSmall : Unacked → Prop
  | .small .. => True
  | .sliced .. => False

def _root_.RenetVerif.Unacked.SliceIdx (idx : Nat) : Unacked → Prop
  | .small .. => False
  | .sliced _ n .. => idx < n

/-- same kind, same payload, same slice count -/
def _root_.RenetVerif.Unacked.Kin : Unacked → Unacked → Prop
  | .small m _, .small m' _ => m = m'
  | .sliced m n _ _ _ _, .sliced m' n' _ _ _ _ => m = m' ∧ n = n'
  | _, _ => False

theorem _root_.RenetVerif.Unacked.Kin.refl : ∀ (u : Unacked), u.Kin u
  | .small .. => rfl
  | .sliced .. => ⟨rfl, rfl⟩

theorem _root_.RenetVerif.Unacked.Kin.trans : ∀ {a b c : Unacked}, a.Kin b → b.Kin c → a.Kin c
  | .small .., .small .., .small .., h1, h2 => Eq.trans h1 h2
  | .sliced .., .sliced .., .sliced .., h1, h2 => ⟨h1.1.trans h2.1, h1.2.trans h2.2⟩
  | .small .., .sliced .., _, h1, _ => h1.elim
  | .sliced .., .small .., _, h1, _ => h1.elim
  | .small .., .small .., .sliced .., _, h2 => h2.elim
  | .sliced .., .sliced .., .small .., _, h2 => h2.elim

theorem _root_.RenetVerif.Unacked.Kin.isSmall : ∀ {a b : Unacked}, a.Kin b → a.IsSmall → b.IsSmall
  | .small .., .small .., _, _ => trivial
  | .small .., .sliced .., h, _ => h.elim
  | .sliced .., _, _, h => h.elim

theorem _root_.RenetVerif.Unacked.Kin.sliceIdx {idx : Nat} : ∀ {a b : Unacked}, a.Kin b → a.SliceIdx idx → b.SliceIdx idx
  | .sliced .., .sliced .., h, hi => by simp only [Unacked.SliceIdx] at hi ⊢; have := h.2; omega
  | .sliced .., .small .., h, _ => h.elim
  | .small .., _, _, h => h.elim

theorem _root_.RenetVerif.Unacked.Kin.msg : ∀ {a b : Unacked}, a.Kin b → a.msg = b.msg
  | .small .., .small .., h => h
  | .sliced .., .sliced .., h => h.1
  | .small .., .sliced .., h => h.elim
  | .sliced .., .small .., h => h.elim

/-! ### the channel invariant -/
structure _root_.RenetVerif.SendRel.Inv (s : SendRel) : Prop where
  sorted : Sorted s.unacked
  keys : ∀ x ∈ s.unacked, x.1 < s.nextId
  entries : ∀ x ∈ s.unacked, x.2.OK
  mem : s.mem = msum s.unacked
  bound : s.mem ≤ s.maxMem

theorem _root_.RenetVerif.SendRel.Inv.find_lt {s : SendRel} (h : s.Inv) {id : Nat} {u : Unacked} (hf : find? s.unacked id = some u) :
    id < s.nextId := h.keys _ (find?_some_mem hf)

theorem _root_.RenetVerif.SendRel.Inv.find_ok {s : SendRel} (h : s.Inv) {id : Nat} {u : Unacked} (hf : find? s.unacked id = some u) :
    u.OK := h.entries _ (find?_some_mem hf)

theorem _root_.RenetVerif.SendRel.Inv.find_nextId {s : SendRel} (h : s.Inv) : find? s.unacked s.nextId = none := by
  apply find?_none_of_forall_ne
  intro x hx; have := h.keys x hx; omega

/-- available memory is exactly the budget minus the bytes of the messages still stored -/
theorem _root_.RenetVerif.SendRel.Inv.available_eq {s : SendRel} (h : s.Inv) : s.available = s.maxMem - msum s.unacked := by
  unfold SendRel.available; rw [h.mem]

theorem SendRel.new_inv (ch resend maxMem : Nat) : (SendRel.new ch resend maxMem).Inv :=
  ⟨sorted_nil, fun _ h => (by cases h), fun _ h => (by cases h), rfl, Nat.zero_le _⟩

/-- what a recorded packet may say about a channel -/
def _root_.RenetVerif.SendRel.InfoOK (s : SendRel) : SentInfo → Prop
  | .relMsgs _ ids => ∀ id ∈ ids, id < s.nextId ∧ ∀ u, find? s.unacked id = some u → u.IsSmall
  | .relSlice _ id idx => id < s.nextId ∧ ∀ u, find? s.unacked id = some u → u.SliceIdx idx
  | _ => True

/-- one or more channel operations later: ids below the old `nextId` are gone or bound to an entry
    of the same kind/payload/slice count; nothing else about the channel identity changed -/
def _root_.RenetVerif.SendRel.Step (s s' : SendRel) : Prop :=
  s'.ch = s.ch ∧ s'.maxMem = s.maxMem ∧ s.nextId ≤ s'.nextId ∧
  ∀ id u', id < s.nextId → find? s'.unacked id = some u' → ∃ u, find? s.unacked id = some u ∧ u.Kin u'

theorem _root_.RenetVerif.SendRel.Step.refl (s : SendRel) : s.Step s :=
  ⟨rfl, rfl, Nat.le_refl _, fun _ u' _ h => ⟨u', h, Unacked.Kin.refl _⟩⟩

theorem _root_.RenetVerif.SendRel.Step.trans {a b c : SendRel} (h1 : a.Step b) (h2 : b.Step c) : a.Step c := by
  obtain ⟨a1, a2, a3, a4⟩ := h1
  obtain ⟨b1, b2, b3, b4⟩ := h2
  refine ⟨b1.trans a1, b2.trans a2, Nat.le_trans a3 b3, ?_⟩
  intro id u'' hid hf
  obtain ⟨u', hf', k'⟩ := b4 id u'' (by omega) hf
  obtain ⟨u, hf0, k0⟩ := a4 id u' hid hf'
  exact ⟨u, hf0, k0.trans k'⟩

theorem _root_.RenetVerif.SendRel.InfoOK.step {s s' : SendRel} (h : s.Step s') : ∀ {i : SentInfo}, s.InfoOK i → s'.InfoOK i
  | .relMsgs _ ids, hi => by
    intro id hid
    obtain ⟨h1, h2⟩ := hi id hid
    refine ⟨Nat.lt_of_lt_of_le h1 h.2.2.1, ?_⟩
    intro u' hf
    obtain ⟨u, hf0, k⟩ := h.2.2.2 id u' h1 hf
    exact k.isSmall (h2 u hf0)
  | .relSlice _ id idx, hi => by
    obtain ⟨h1, h2⟩ := hi
    refine ⟨Nat.lt_of_lt_of_le h1 h.2.2.1, ?_⟩
    intro u' hf
    obtain ⟨u, hf0, k⟩ := h.2.2.2 id u' h1 hf
    exact k.sliceIdx (h2 u hf0)
  | .none, _ => trivial
  | .ack _, _ => trivial

/-! ### send_message -/
theorem newSliced_ok (m : Bytes) (h : SLICE_SIZE < m.length) : (Unacked.newSliced m).OK := by
  unfold Unacked.newSliced
  refine ⟨h, rfl, by simp, by simp, by simp [List.count_replicate], ?_⟩
  simp only [divCeil, SLICE_SIZE] at h ⊢; omega

theorem SendRel.sendMessage_spec {s s' : SendRel} {m : Bytes} (h : s.Inv) (hs : s.sendMessage m = .ok s') :
    s'.Inv ∧ s.Step s' ∧ s'.mem = s.mem + m.length ∧ s'.nextId = s.nextId + 1 ∧
    (∃ u, u.msg = m ∧ find? s'.unacked s.nextId = some u) ∧
    (∀ id, id ≠ s.nextId → find? s'.unacked id = find? s.unacked id) := by
  unfold SendRel.sendMessage at hs
  by_cases c : s.mem + m.length > s.maxMem
  · rw [if_pos c] at hs; cases hs
  · rw [if_neg c] at hs
    simp only [Except.ok.injEq] at hs
    subst hs
    have hu : (if m.length > SLICE_SIZE then Unacked.newSliced m else Unacked.small m none).OK ∧
        (if m.length > SLICE_SIZE then Unacked.newSliced m else Unacked.small m none).msg = m := by
      by_cases c2 : m.length > SLICE_SIZE
      · rw [if_pos c2]; exact ⟨newSliced_ok m c2, rfl⟩
      · rw [if_neg c2]; exact ⟨by simp only [Unacked.OK]; omega, rfl⟩
    generalize (if m.length > SLICE_SIZE then Unacked.newSliced m else Unacked.small m none) = u at hu
    refine ⟨⟨?_, ?_, ?_, ?_, ?_⟩, ⟨rfl, rfl, by dsimp only; omega, ?_⟩, rfl, rfl, ⟨u, hu.2, find?_insert_self _ _ _⟩, ?_⟩
    · exact sorted_insert _ _ h.sorted
    · intro x hx
      rcases mem_insert hx with rfl | hx
      · dsimp only; omega
      · have := h.keys x hx; dsimp only; omega
    · intro x hx
      rcases mem_insert hx with rfl | hx
      · exact hu.1
      · exact h.entries x hx
    · dsimp only
      rw [insert_above u h.keys, msum_append, h.mem]
      simp only [msum_cons, msum_nil, hu.2]; omega
    · dsimp only; omega
    · intro id u' hid hf
      dsimp only at hf
      rw [find?_insert_ne _ _ (by omega)] at hf
      exact ⟨u', hf, Unacked.Kin.refl _⟩
    · intro id hid
      exact find?_insert_ne _ _ (fun e => hid e.symm)



/-! ### get_packets_to_send (channel) -/

/-- what `get_packets_to_send` may change in an entry: send times and the round-robin cursor -/
def _root_.RenetVerif.Unacked.Sim : Unacked → Unacked → Prop
  | .small m _, .small m' _ => m = m'
  | .sliced m n k _ a ls, .sliced m' n' k' _ a' ls' => m = m' ∧ n = n' ∧ k = k' ∧ a = a' ∧ ls.length = ls'.length
  | _, _ => False

theorem _root_.RenetVerif.Unacked.Sim.kin : ∀ {a b : Unacked}, a.Sim b → a.Kin b
  | .small .., .small .., h => h
  | .sliced .., .sliced .., h => ⟨h.1, h.2.1⟩
  | .small .., .sliced .., h => h.elim
  | .sliced .., .small .., h => h.elim

theorem _root_.RenetVerif.Unacked.Sim.ok : ∀ {a b : Unacked}, a.Sim b → a.OK → b.OK
  | .small .., .small .., h, ho => by simp only [Unacked.Sim] at h; subst h; exact ho
  | .sliced .., .sliced .., h, ho => by
    obtain ⟨rfl, rfl, rfl, rfl, h5⟩ := h
    obtain ⟨o1, o2, o3, o4, o5, o6⟩ := ho
    exact ⟨o1, o2, o3, by omega, o5, o6⟩
  | .small .., .sliced .., h, _ => h.elim
  | .sliced .., .small .., h, _ => h.elim

def MapSim : SMap Unacked → SMap Unacked → Prop
  | [], [] => True
  | (k, u) :: r, (k', u') :: r' => k = k' ∧ u.Sim u' ∧ MapSim r r'
  | [], _ :: _ => False
  | _ :: _, [] => False

theorem _root_.RenetVerif.Unacked.Sim.refl : ∀ (u : Unacked), u.Sim u
  | .small .. => rfl
  | .sliced .. => ⟨rfl, rfl, rfl, rfl, rfl⟩

theorem MapSim.refl : ∀ (a : SMap Unacked), MapSim a a
  | [] => trivial
  | (_, u) :: r => ⟨rfl, Unacked.Sim.refl u, MapSim.refl r⟩

theorem MapSim.find : ∀ {a b : SMap Unacked}, MapSim a b → ∀ id,
    (find? a id = none ∧ find? b id = none) ∨ ∃ u u', find? a id = some u ∧ find? b id = some u' ∧ u.Sim u'
  | [], [], _, _ => Or.inl ⟨rfl, rfl⟩
  | (k, u) :: r, (k', u') :: r', h, id => by
    obtain ⟨rfl, h2, h3⟩ := h
    simp only [find?_cons]
    by_cases c : k = id
    · simp only [if_pos c]; exact Or.inr ⟨u, u', rfl, rfl, h2⟩
    · simp only [if_neg c]; exact MapSim.find h3 id
  | [], _ :: _, h, _ => h.elim
  | _ :: _, [], h, _ => h.elim

theorem MapSim.msum : ∀ {a b : SMap Unacked}, MapSim a b → msum a = msum b
  | [], [], _ => rfl
  | (k, u) :: r, (k', u') :: r', h => by
    simp only [msum_cons, MapSim.msum h.2.2, h.2.1.kin.msg]
  | [], _ :: _, h => h.elim
  | _ :: _, [], h => h.elim

theorem MapSim.mem : ∀ {a b : SMap Unacked}, MapSim a b → ∀ x' ∈ b, ∃ x ∈ a, x.1 = x'.1 ∧ x.2.Sim x'.2
  | [], [], _, _, hx => by cases hx
  | (k, u) :: r, (k', u') :: r', h, x', hx => by
    simp only [List.mem_cons] at hx
    rcases hx with rfl | hx
    · exact ⟨(k, u), by simp, h.1, h.2.1⟩
    · obtain ⟨x, hx1, hx2⟩ := MapSim.mem h.2.2 x' hx
      exact ⟨x, List.mem_cons_of_mem _ hx1, hx2⟩
  | [], _ :: _, h, _, _ => h.elim
  | _ :: _, [], h, _, _ => h.elim

theorem MapSim.sorted : ∀ {a b : SMap Unacked}, MapSim a b → Sorted a → Sorted b
  | [], [], _, _ => sorted_nil
  | (k, u) :: r, (k', u') :: r', h, hs => by
    rw [sorted_cons] at hs ⊢
    obtain ⟨rfl, h2, h3⟩ := h
    refine ⟨?_, MapSim.sorted h3 hs.2⟩
    intro x' hx'
    obtain ⟨x, hx1, hx2, -⟩ := MapSim.mem h3 x' hx'
    have := hs.1 x hx1; omega
  | [], _ :: _, h, _ => h.elim
  | _ :: _, [], h, _ => h.elim

/-- a packet emitted by the reliable send channel `ch` speaks about messages really stored in `U` -/
def PktOK (ch : Nat) (U : SMap Unacked) : Packet → Prop
  | .smallReliable _ ch' msgs => ch' = ch ∧ ∀ x ∈ msgs, ∃ ls, find? U x.1 = some (.small x.2 ls)
  | .reliableSlice _ ch' sl => ch' = ch ∧ sl.sliceIndex < sl.numSlices ∧
      ∃ m k nx a ls, find? U sl.messageId = some (.sliced m sl.numSlices k nx a ls) ∧
        sl.payload = sliceBytes m sl.numSlices sl.sliceIndex
  | _ => False

theorem PktOK.mapSim {ch : Nat} {a b : SMap Unacked} (h : MapSim a b) : ∀ {p : Packet}, PktOK ch a p → PktOK ch b p
  | .smallReliable _ _ msgs, hp => by
    refine ⟨hp.1, fun x hx => ?_⟩
    obtain ⟨ls, hf⟩ := hp.2 x hx
    rcases h.find x.1 with ⟨h1, _⟩ | ⟨u, u', h1, h2, h3⟩
    · rw [hf] at h1; cases h1
    · rw [hf] at h1; cases h1
      cases u' with
      | small m' ls' => simp only [Unacked.Sim] at h3; subst h3; exact ⟨ls', h2⟩
      | sliced => exact h3.elim
  | .reliableSlice _ _ sl, hp => by
    obtain ⟨h0, h1, m, k, nx, a, ls, hf, hpay⟩ := hp
    refine ⟨h0, h1, ?_⟩
    rcases h.find sl.messageId with ⟨h1, _⟩ | ⟨u, u', h1, h2, h3⟩
    · rw [hf] at h1; cases h1
    · rw [hf] at h1; cases h1
      cases u' with
      | small => exact h3.elim
      | sliced m' n' k' nx' a' ls' =>
        obtain ⟨rfl, rfl, rfl, rfl, -⟩ := h3
        exact ⟨_, _, _, _, _, h2, hpay⟩
  | .smallUnreliable .., hp => hp.elim
  | .unreliableSlice .., hp => hp.elim
  | .ack .., hp => hp.elim

/-- loop invariant of one `get_packets_to_send` -/
def GPOK (ch : Nat) (U : SMap Unacked) (seq0 : Nat) (gp : GP) : Prop :=
  (∀ p ∈ gp.packets, PktOK ch U p ∧ seq0 ≤ p.sequence ∧ p.sequence < gp.seq) ∧
  (∀ x ∈ gp.small, ∃ ls, find? U x.1 = some (.small x.2 ls)) ∧ seq0 ≤ gp.seq

def dueOpt (now resend : Nat) : Option Nat → Bool
  | some t => !decide (now - t < resend)
  | none => true

theorem slicedLoop_cons (ch id now resend : Nat) (msg : Bytes) (n start : Nat) (acked : List Bool) (i0 : Nat)
    (rest : List Nat) (ls : List (Option Nat)) (next : Nat) (gp : GP) :
    slicedLoop ch id now resend msg n start acked (i0 :: rest) (ls, next, gp) =
      if gp.avail < SLICE_SIZE then (ls, next, gp) else
      if acked.getD ((start + i0) % n) false = true then slicedLoop ch id now resend msg n start acked rest (ls, next, gp) else
      if (!dueOpt now resend (ls.getD ((start + i0) % n) none)) = true then
        slicedLoop ch id now resend msg n start acked rest (ls, next, gp)
      else
        slicedLoop ch id now resend msg n start acked rest
          (ls.set ((start + i0) % n) (some now), (start + i0) % n + 1 % n,
           { gp with
              avail := gp.avail - (sliceBytes msg n ((start + i0) % n)).length,
              packets := gp.packets ++ [Packet.reliableSlice gp.seq ch ⟨id, (start + i0) % n, n, sliceBytes msg n ((start + i0) % n)⟩],
              seq := gp.seq + 1 }) := by
  rfl

/-- the state after queueing small message `(id, m)` (flushing the current packet first when it is full) -/
def smallQueue (ch id : Nat) (m : Bytes) (gp : GP) : GP :=
  let gp1 : GP := { gp with avail := gp.avail - m.length }
  let ser := m.length + varintLen m.length + varintLen id
  let gp2 := if gp1.smallBytes + ser > SLICE_SIZE then flushSmall ch gp1 else gp1
  { gp2 with smallBytes := gp2.smallBytes + ser, small := gp2.small ++ [(id, m)] }

theorem relLoop_small (ch now resend id : Nat) (m : Bytes) (lastSent : Option Nat) (rest : SMap Unacked) (gp : GP) :
    relLoop ch now resend ((id, .small m lastSent) :: rest) gp =
      if gp.avail < m.length ∨ dueOpt now resend lastSent = false then
        ((id, .small m lastSent) :: (relLoop ch now resend rest gp).1, (relLoop ch now resend rest gp).2)
      else
        ((id, .small m (some now)) :: (relLoop ch now resend rest (smallQueue ch id m gp)).1,
         (relLoop ch now resend rest (smallQueue ch id m gp)).2) := by
  cases lastSent <;> rfl

theorem relLoop_sliced (ch now resend id : Nat) (m : Bytes) (n numAcked next : Nat) (acked : List Bool)
    (lastSent : List (Option Nat)) (rest : SMap Unacked) (gp : GP) :
    relLoop ch now resend ((id, .sliced m n numAcked next acked lastSent) :: rest) gp =
      let r := slicedLoop ch id now resend m n next acked (List.range n) (lastSent, next, gp)
      ((id, .sliced m n numAcked r.2.1 acked r.1) :: (relLoop ch now resend rest r.2.2).1,
       (relLoop ch now resend rest r.2.2).2) := by
  rfl

theorem slicedLoop_spec (ch id now resend : Nat) (msg : Bytes) (n start : Nat) (acked : List Bool)
    (U : SMap Unacked) (seq0 : Nat) (hn : 0 < n)
    (hU : ∃ k nx a ls, find? U id = some (.sliced msg n k nx a ls)) :
    ∀ (l : List Nat) (ls : List (Option Nat)) (next : Nat) (gp : GP) (r : List (Option Nat) × Nat × GP),
      slicedLoop ch id now resend msg n start acked l (ls, next, gp) = r → GPOK ch U seq0 gp →
      r.1.length = ls.length ∧ GPOK ch U seq0 r.2.2 ∧ r.2.2.small = gp.small ∧ r.2.2.smallBytes = gp.smallBytes ∧
      gp.seq ≤ r.2.2.seq
  | [], ls, next, gp, r, hr, hg => by
    simp only [slicedLoop] at hr; subst hr; exact ⟨rfl, hg, rfl, rfl, Nat.le_refl _⟩
  | i0 :: rest, ls, next, gp, r, hr, hg => by
    rw [slicedLoop_cons] at hr
    have ihA := slicedLoop_spec ch id now resend msg n start acked U seq0 hn hU rest ls next gp r
    split at hr
    · subst hr; exact ⟨rfl, hg, rfl, rfl, Nat.le_refl _⟩
    · split at hr
      · exact ihA hr hg
      · split at hr
        · exact ihA hr hg
        · have hg' : GPOK ch U seq0 { gp with
              avail := gp.avail - (sliceBytes msg n ((start + i0) % n)).length,
              packets := gp.packets ++ [Packet.reliableSlice gp.seq ch ⟨id, (start + i0) % n, n, sliceBytes msg n ((start + i0) % n)⟩],
              seq := gp.seq + 1 } := by
            obtain ⟨g1, g2, g3⟩ := hg
            refine ⟨?_, g2, (by dsimp only; omega)⟩
            intro p hp
            simp only [List.mem_append, List.mem_singleton] at hp
            rcases hp with hp | rfl
            · obtain ⟨a1, a2, a3⟩ := g1 p hp
              exact ⟨a1, a2, (by dsimp only; omega)⟩
            · refine ⟨⟨rfl, Nat.mod_lt _ hn, ?_⟩, g3, (by simp [Packet.sequence])⟩
              obtain ⟨k, nx, a, ls0, hf⟩ := hU
              exact ⟨msg, k, nx, a, ls0, hf, rfl⟩
          have ih := slicedLoop_spec ch id now resend msg n start acked U seq0 hn hU rest _ _ _ r hr hg'
          obtain ⟨i1, i2, i3, i4, i5⟩ := ih
          refine ⟨(by rw [i1, List.length_set]), i2, i3, i4, ?_⟩
          dsimp only at i5; omega

theorem flushSmall_ok {ch : Nat} {U : SMap Unacked} {seq0 : Nat} {gp : GP} (hg : GPOK ch U seq0 gp) :
    GPOK ch U seq0 (flushSmall ch gp) := by
  obtain ⟨g1, g2, g3⟩ := hg
  unfold flushSmall
  refine ⟨?_, (fun x hx => by cases hx), (by dsimp only; omega)⟩
  intro p hp
  simp only [List.mem_append, List.mem_singleton] at hp
  rcases hp with hp | rfl
  · obtain ⟨a1, a2, a3⟩ := g1 p hp
    exact ⟨a1, a2, (by dsimp only; omega)⟩
  · exact ⟨⟨rfl, g2⟩, g3, (by simp [Packet.sequence])⟩

theorem flushSmall_seq (ch : Nat) (gp : GP) : (flushSmall ch gp).seq = gp.seq + 1 := rfl

theorem smallQueue_ok {ch : Nat} {U : SMap Unacked} {seq0 id : Nat} {m : Bytes} {gp : GP} (hg : GPOK ch U seq0 gp)
    (hsm : ∃ ls, find? U id = some (.small m ls)) :
    GPOK ch U seq0 (smallQueue ch id m gp) ∧ gp.seq ≤ (smallQueue ch id m gp).seq := by
  have key : ∀ g0 : GP, GPOK ch U seq0 g0 →
      GPOK ch U seq0 { g0 with smallBytes := g0.smallBytes + (m.length + varintLen m.length + varintLen id),
                                small := g0.small ++ [(id, m)] } := by
    intro g0 ⟨g1, g2, g3⟩
    refine ⟨g1, ?_, g3⟩
    intro x hx
    simp only [List.mem_append, List.mem_singleton] at hx
    rcases hx with hx | rfl
    · exact g2 x hx
    · exact hsm
  have hg1 : GPOK ch U seq0 { gp with avail := gp.avail - m.length } := hg
  unfold smallQueue
  dsimp only
  split
  · exact ⟨key _ (flushSmall_ok hg1), by simp only [flushSmall]; omega⟩
  · exact ⟨key _ hg1, Nat.le_refl _⟩

theorem relLoop_spec (ch now resend : Nat) (U : SMap Unacked) (seq0 : Nat) :
    ∀ (l : SMap Unacked) (gp : GP),
      (∀ x ∈ l, find? U x.1 = some x.2) → (∀ x ∈ l, x.2.OK) → GPOK ch U seq0 gp →
      MapSim l (relLoop ch now resend l gp).1 ∧ GPOK ch U seq0 (relLoop ch now resend l gp).2 ∧
      gp.seq ≤ (relLoop ch now resend l gp).2.seq
  | [], gp, _, _, hg => ⟨trivial, hg, Nat.le_refl _⟩
  | (id, .small m lastSent) :: rest, gp, hU, hok, hg => by
    have hU' : ∀ x ∈ rest, find? U x.1 = some x.2 := fun x hx => hU x (List.mem_cons_of_mem _ hx)
    have hok' : ∀ x ∈ rest, x.2.OK := fun x hx => hok x (List.mem_cons_of_mem _ hx)
    rw [relLoop_small]
    by_cases c0 : gp.avail < m.length ∨ dueOpt now resend lastSent = false
    · simp only [if_pos c0]
      obtain ⟨i1, i2, i3⟩ := relLoop_spec ch now resend U seq0 rest gp hU' hok' hg
      exact ⟨⟨rfl, rfl, i1⟩, i2, i3⟩
    · simp only [if_neg c0]
      obtain ⟨q1, q2⟩ := smallQueue_ok (id := id) (m := m) hg ⟨lastSent, hU (id, .small m lastSent) (by simp)⟩
      obtain ⟨i1, i2, i3⟩ := relLoop_spec ch now resend U seq0 rest _ hU' hok' q1
      exact ⟨⟨rfl, rfl, i1⟩, i2, by omega⟩
  | (id, .sliced m n numAcked next acked lastSent) :: rest, gp, hU, hok, hg => by
    have hU' : ∀ x ∈ rest, find? U x.1 = some x.2 := fun x hx => hU x (List.mem_cons_of_mem _ hx)
    have hok' : ∀ x ∈ rest, x.2.OK := fun x hx => hok x (List.mem_cons_of_mem _ hx)
    have h0 := hok (id, .sliced m n numAcked next acked lastSent) (by simp)
    have hn : 0 < n := by have := Unacked.OK.two_le h0; omega
    have hf := hU (id, .sliced m n numAcked next acked lastSent) (by simp)
    rw [relLoop_sliced]
    obtain ⟨s1, s2, -, -, s5⟩ := slicedLoop_spec ch id now resend m n next acked U seq0 hn ⟨_, _, _, _, hf⟩
      (List.range n) lastSent next gp _ rfl hg
    obtain ⟨i1, i2, i3⟩ := relLoop_spec ch now resend U seq0 rest _ hU' hok' s2
    refine ⟨⟨rfl, ⟨rfl, rfl, rfl, rfl, s1.symm⟩, i1⟩, i2, ?_⟩
    dsimp only
    omega

theorem SendRel.getPackets_spec {s : SendRel} (h : s.Inv) (seq avail now : Nat) :
    ∀ (s' : SendRel) (ps : List Packet) (seq' avail' : Nat), s.getPackets seq avail now = (s', ps, seq', avail') →
      s'.Inv ∧ s.Step s' ∧ s'.mem = s.mem ∧ s'.nextId = s.nextId ∧ MapSim s.unacked s'.unacked ∧ seq ≤ seq' ∧
      ∀ p ∈ ps, PktOK s'.ch s'.unacked p ∧ seq ≤ p.sequence ∧ p.sequence < seq' := by
  intro s' ps seq' avail' hr
  unfold SendRel.getPackets at hr
  split at hr
  · simp only [Prod.mk.injEq] at hr
    obtain ⟨rfl, rfl, rfl, rfl⟩ := hr
    exact ⟨h, SendRel.Step.refl _, rfl, rfl, MapSim.refl _, Nat.le_refl _, fun p hp => by cases hp⟩
  · have hg0 : GPOK s.ch s.unacked seq ⟨[], [], 0, seq, avail⟩ :=
      ⟨fun p hp => (by cases hp), fun x hx => (by cases hx), Nat.le_refl _⟩
    obtain ⟨i1, i2, i3⟩ := relLoop_spec s.ch now s.resend s.unacked seq s.unacked _
      (fun x hx => mem_find?_of_sorted h.sorted hx) h.entries hg0
    generalize relLoop s.ch now s.resend s.unacked ⟨[], [], 0, seq, avail⟩ = rr at hr i1 i2 i3
    obtain ⟨un, gp⟩ := rr
    simp only [Prod.mk.injEq] at hr
    obtain ⟨rfl, rfl, rfl, rfl⟩ := hr
    · have i2' : GPOK s.ch s.unacked seq (if gp.small.isEmpty then gp else flushSmall s.ch gp) := by
        split
        · exact i2
        · exact flushSmall_ok i2
      have i3' : seq ≤ (if gp.small.isEmpty then gp else flushSmall s.ch gp).seq := i2'.2.2
      refine ⟨⟨i1.sorted h.sorted, ?_, ?_, ?_, h.bound⟩, ⟨rfl, rfl, Nat.le_refl _, ?_⟩, rfl, rfl, i1, i3', ?_⟩
      · intro x' hx'
        obtain ⟨x, hx1, hx2, -⟩ := i1.mem x' hx'
        have := h.keys x hx1; dsimp only; omega
      · intro x' hx'
        obtain ⟨x, hx1, -, hx3⟩ := i1.mem x' hx'
        exact hx3.ok (h.entries x hx1)
      · dsimp only; rw [← i1.msum]; exact h.mem
      · intro id u' _ hf
        dsimp only at hf
        rcases i1.find id with ⟨_, h2⟩ | ⟨u, u'', h1, h2, h3⟩
        · rw [hf] at h2; cases h2
        · rw [hf] at h2; cases h2; exact ⟨u, h1, h3.kin⟩
      · intro p hp
        obtain ⟨a1, a2, a3⟩ := i2'.1 p hp
        exact ⟨a1.mapSim i1, a2, a3⟩



/-! ### acknowledgements (channel) -/

theorem count_set_true {l : List Bool} {i : Nat} (h : l[i]? = some false) :
    (l.set i true).count true = l.count true + 1 := by
  obtain ⟨hi, he⟩ := List.getElem?_eq_some_iff.mp h
  rw [List.count_set hi]; simp [he]

/-- releasing an entry: memory accounting cannot underflow, the invariant survives -/
theorem _root_.RenetVerif.SendRel.Inv.release {s : SendRel} (h : s.Inv) {id : Nat} {u : Unacked} (hf : find? s.unacked id = some u) :
    u.msg.length ≤ s.mem ∧
    ({ s with unacked := erase s.unacked id, mem := s.mem - u.msg.length } : SendRel).Inv ∧
    s.Step { s with unacked := erase s.unacked id, mem := s.mem - u.msg.length } := by
  have hge := msum_ge hf
  have he := msum_erase hf
  have hm := h.mem
  have hb := h.bound
  refine ⟨by omega, ⟨sorted_erase _ h.sorted, fun x hx => h.keys x (mem_erase hx),
    fun x hx => h.entries x (mem_erase hx), by dsimp only; omega, by dsimp only; omega⟩,
    ⟨rfl, rfl, Nat.le_refl _, ?_⟩⟩
  intro id' u' _ hf'
  exact ⟨u', (find?_erase_some h.sorted hf').2, Unacked.Kin.refl _⟩

/-- replacing an entry by one of the same kind and payload -/
theorem _root_.RenetVerif.SendRel.Inv.replace {s : SendRel} (h : s.Inv) {id : Nat} {u v : Unacked} (hf : find? s.unacked id = some u)
    (hk : u.Kin v) (hv : v.OK) :
    ({ s with unacked := SMap.insert s.unacked id v } : SendRel).Inv ∧
    s.Step { s with unacked := SMap.insert s.unacked id v } := by
  have hi := msum_insert_replace v h.sorted hf
  have hm := h.mem
  have hmsg := hk.msg
  refine ⟨⟨sorted_insert _ _ h.sorted, ?_, ?_, by dsimp only; rw [hmsg] at hi; omega, h.bound⟩,
    ⟨rfl, rfl, Nat.le_refl _, ?_⟩⟩
  · intro x hx
    rcases mem_insert hx with rfl | hx
    · exact h.find_lt hf
    · exact h.keys x hx
  · intro x hx
    rcases mem_insert hx with rfl | hx
    · exact hv
    · exact h.entries x hx
  · intro id' u' _ hf'
    dsimp only at hf'
    rw [find?_insert] at hf'
    by_cases c : id = id'
    · rw [if_pos c] at hf'; cases hf'; subst c; exact ⟨u, hf, hk⟩
    · rw [if_neg c] at hf'; exact ⟨u', hf', Unacked.Kin.refl _⟩

/-- `process_message_ack` on an id that is absent or bound to a small message never panics -/
theorem SendRel.processMessageAck_spec {s : SendRel} (h : s.Inv) (id : Nat)
    (hk : ∀ u, find? s.unacked id = some u → u.IsSmall) :
    ∃ s', s.processMessageAck id = .ok s' ∧ s'.Inv ∧ s.Step s' ∧
      ((find? s.unacked id = none ∧ s' = s) ∨
       ∃ m ls, find? s.unacked id = some (.small m ls) ∧ m.length ≤ s.mem ∧
         s' = { s with unacked := erase s.unacked id, mem := s.mem - m.length }) := by
  unfold SendRel.processMessageAck
  cases hf : find? s.unacked id with
  | none => exact ⟨s, rfl, h, SendRel.Step.refl _, Or.inl ⟨rfl, rfl⟩⟩
  | some u =>
    cases u with
    | sliced => exact (hk _ hf).elim
    | small m ls =>
      obtain ⟨r1, r2, r3⟩ := h.release hf
      simp only [Unacked.msg] at r1 r2 r3
      refine ⟨_, ?_, r2, r3, Or.inr ⟨m, ls, rfl, r1, rfl⟩⟩
      simp only [Res.csub, if_pos r1, Res.bind_ok, Res.pure_eq]

/-- `process_slice_ack` on an id that is absent or bound to a sliced message with `idx < n` never panics -/
theorem SendRel.processSliceAck_spec {s : SendRel} (h : s.Inv) (id idx : Nat)
    (hk : ∀ u, find? s.unacked id = some u → u.SliceIdx idx) :
    ∃ s', s.processSliceAck id idx = .ok s' ∧ s'.Inv ∧ s.Step s' ∧
      ((find? s.unacked id = none ∧ s' = s) ∨
       ∃ m n k nx acked ls, find? s.unacked id = some (.sliced m n k nx acked ls) ∧
         ((acked[idx]? = some true ∧ s' = s) ∨
          (acked[idx]? = some false ∧ k + 1 = n ∧ m.length ≤ s.mem ∧
             s' = { s with unacked := erase s.unacked id, mem := s.mem - m.length }) ∨
          (acked[idx]? = some false ∧ k + 1 ≠ n ∧
             s' = { s with unacked := SMap.insert s.unacked id (.sliced m n (k + 1) nx (acked.set idx true) ls) }))) := by
  unfold SendRel.processSliceAck
  cases hf : find? s.unacked id with
  | none => exact ⟨s, rfl, h, SendRel.Step.refl _, Or.inl ⟨rfl, rfl⟩⟩
  | some u =>
    cases u with
    | small => exact (hk _ hf).elim
    | sliced m n k nx acked ls =>
      have hidx : idx < n := hk _ hf
      obtain ⟨o1, o2, o3, o4, o5, o6⟩ := h.find_ok hf
      have hlt : idx < acked.length := by omega
      simp only
      cases hb : acked[idx]? with
      | none => rw [List.getElem?_eq_none_iff] at hb; omega
      | some b =>
        cases b with
        | true => exact ⟨s, rfl, h, SendRel.Step.refl _, Or.inr ⟨m, n, k, nx, acked, ls, rfl, Or.inl ⟨hb, rfl⟩⟩⟩
        | false =>
          simp only
          by_cases c : k + 1 = n
          · rw [if_pos c]
            obtain ⟨r1, r2, r3⟩ := h.release hf
            simp only [Unacked.msg] at r1 r2 r3
            refine ⟨_, ?_, r2, r3, Or.inr ⟨m, n, k, nx, acked, ls, rfl, Or.inr (Or.inl ⟨hb, c, r1, rfl⟩)⟩⟩
            simp only [Res.csub, if_pos r1, Res.bind_ok, Res.pure_eq]
          · rw [if_neg c]
            have hcnt := count_set_true hb
            have hle : (acked.set idx true).count true ≤ (acked.set idx true).length := List.count_le_length
            rw [List.length_set] at hle
            have hv : (Unacked.sliced m n (k + 1) nx (acked.set idx true) ls).OK :=
              ⟨o1, o2, by rw [List.length_set]; exact o3, o4, by omega, by omega⟩
            obtain ⟨r2, r3⟩ := h.replace hf (v := .sliced m n (k + 1) nx (acked.set idx true) ls) ⟨rfl, rfl⟩ hv
            exact ⟨_, rfl, r2, r3, Or.inr ⟨m, n, k, nx, acked, ls, rfl, Or.inr (Or.inr ⟨hb, c, rfl⟩)⟩⟩

/-! #### consequences used at connection level -/

/-- slice `i` of message `id` is stored and not yet acknowledged -/
def _root_.RenetVerif.SendRel.Pending (s : SendRel) (id i : Nat) : Prop :=
  ∃ m n k nx acked ls, find? s.unacked id = some (.sliced m n k nx acked ls) ∧ acked[i]? = some false

/-- generic description of one acknowledgement step on message `id`:
    other ids untouched, memory never grows and shrinks only by releasing `id` -/
structure _root_.RenetVerif.SendRel.AckStep (s s' : SendRel) (id : Nat) : Prop where
  others : ∀ id', id' ≠ id → find? s'.unacked id' = find? s.unacked id'
  memLe : s'.mem ≤ s.mem
  memLt : s'.mem < s.mem → (∃ u, find? s.unacked id = some u) ∧ find? s'.unacked id = none
  gone : ∀ id', find? s.unacked id' = none → find? s'.unacked id' = none

theorem _root_.RenetVerif.SendRel.AckStep.refl (s : SendRel) (id : Nat) : s.AckStep s id :=
  ⟨fun _ _ => rfl, Nat.le_refl _, fun h => absurd h (Nat.lt_irrefl _), fun _ h => h⟩

theorem SendRel.ackStep_release {s : SendRel} (h : s.Inv) {id : Nat} {u : Unacked} (hf : find? s.unacked id = some u) :
    s.AckStep { s with unacked := erase s.unacked id, mem := s.mem - u.msg.length } id := by
  refine ⟨fun id' hne => find?_erase_ne _ (fun e => hne e.symm), by dsimp only; omega,
    fun _ => ⟨⟨u, hf⟩, find?_erase_self _ h.sorted⟩, ?_⟩
  intro id' hn
  dsimp only
  rw [find?_erase h.sorted]
  split
  · rfl
  · exact hn

theorem SendRel.processMessageAck_step {s s' : SendRel} (h : s.Inv) {id : Nat}
    (hk : ∀ u, find? s.unacked id = some u → u.IsSmall) (hr : s.processMessageAck id = .ok s') :
    s.AckStep s' id ∧ (∀ id' i, s.Pending id' i → s'.Pending id' i) := by
  obtain ⟨s2, e, -, -, hd⟩ := SendRel.processMessageAck_spec h id hk
  rw [e] at hr; cases hr
  rcases hd with ⟨-, rfl⟩ | ⟨m, ls, hf, -, rfl⟩
  · exact ⟨SendRel.AckStep.refl _ _, fun _ _ hp => hp⟩
  · refine ⟨SendRel.ackStep_release h hf, ?_⟩
    intro id' i ⟨m', n', k', nx', a', ls', hf', ha'⟩
    have hne : id ≠ id' := by
      intro e; subst e; rw [hf] at hf'; cases hf'
    exact ⟨m', n', k', nx', a', ls', by dsimp only; rw [find?_erase_ne _ hne]; exact hf', ha'⟩

theorem SendRel.processSliceAck_step {s s' : SendRel} (h : s.Inv) {id idx : Nat}
    (hk : ∀ u, find? s.unacked id = some u → u.SliceIdx idx) (hr : s.processSliceAck id idx = .ok s') :
    s.AckStep s' id ∧ (∀ id' i, s.Pending id' i → (id' = id ∧ i = idx) ∨ s'.Pending id' i) := by
  obtain ⟨s2, e, -, -, hd⟩ := SendRel.processSliceAck_spec h id idx hk
  rw [e] at hr; cases hr
  rcases hd with ⟨-, rfl⟩ | ⟨m, n, k, nx, acked, ls, hf, hd⟩
  · exact ⟨SendRel.AckStep.refl _ _, fun _ _ hp => Or.inr hp⟩
  · rcases hd with ⟨-, rfl⟩ | ⟨hb, hkn, -, rfl⟩ | ⟨hb, -, rfl⟩
    · exact ⟨SendRel.AckStep.refl _ _, fun _ _ hp => Or.inr hp⟩
    · refine ⟨SendRel.ackStep_release h hf, ?_⟩
      intro id' i ⟨m', n', k', nx', a', ls', hf', ha'⟩
      by_cases hne : id = id'
      · subst hne
        rw [hf] at hf'; cases hf'
        by_cases hi : i = idx
        · exact Or.inl ⟨rfl, hi⟩
        · -- all slices but `idx` are already acknowledged: `k + 1 = n`
          exfalso
          obtain ⟨o1, o2, o3, o4, o5, o6⟩ := h.find_ok hf
          have hcnt := count_set_true hb
          have hall : (acked.set idx true).count true = (acked.set idx true).length := by
            rw [List.length_set]; omega
          rw [List.count_eq_length] at hall
          have hi' : i < acked.length := (List.getElem?_eq_some_iff.mp ha').1
          have : (acked.set idx true)[i]? = some false := by
            rw [List.getElem?_set_ne (fun e => hi e.symm)]; exact ha'
          have hm := List.mem_of_getElem? this
          have := hall false hm
          cases this
      · exact Or.inr ⟨m', n', k', nx', a', ls', by dsimp only; rw [find?_erase_ne _ hne]; exact hf', ha'⟩
    · refine ⟨⟨?_, Nat.le_refl _, fun hlt => absurd hlt (Nat.lt_irrefl _), ?_⟩, ?_⟩
      · intro id' hne
        exact find?_insert_ne _ _ (fun e => hne e.symm)
      · intro id' hn
        dsimp only
        rw [find?_insert]
        split
        · rename_i e; subst e; rw [hf] at hn; cases hn
        · exact hn
      · intro id' i ⟨m', n', k', nx', a', ls', hf', ha'⟩
        by_cases hne : id = id'
        · subst hne
          rw [hf] at hf'; cases hf'
          by_cases hi : i = idx
          · exact Or.inl ⟨rfl, hi⟩
          · refine Or.inr ⟨m, n, k + 1, nx, acked.set idx true, ls, find?_insert_self _ _ _, ?_⟩
            rw [List.getElem?_set_ne (fun e => hi e.symm)]; exact ha'
        · exact Or.inr ⟨m', n', k', nx', a', ls', by dsimp only; rw [find?_insert_ne _ _ hne]; exact hf', ha'⟩

/-- sending and (re)transmitting never un-marks or drops a pending slice -/
theorem SendRel.sendMessage_pending {s s' : SendRel} {m : Bytes} (h : s.Inv) (hs : s.sendMessage m = .ok s')
    {id i : Nat} (hp : s.Pending id i) : s'.Pending id i := by
  obtain ⟨m', n', k', nx', a', ls', hf', ha'⟩ := hp
  obtain ⟨-, -, -, -, -, hfind⟩ := SendRel.sendMessage_spec h hs
  have : id ≠ s.nextId := by have := h.find_lt hf'; omega
  exact ⟨m', n', k', nx', a', ls', by rw [hfind id this]; exact hf', ha'⟩

theorem MapSim.pending {s s' : SendRel} (hsim : MapSim s.unacked s'.unacked) {id i : Nat} (hp : s.Pending id i) :
    s'.Pending id i := by
  obtain ⟨m', n', k', nx', a', ls', hf', ha'⟩ := hp
  rcases hsim.find id with ⟨h1, _⟩ | ⟨u, u', h1, h2, h3⟩
  · rw [hf'] at h1; cases h1
  · rw [hf'] at h1; cases h1
    cases u' with
    | small => exact h3.elim
    | sliced m2 n2 k2 nx2 a2 ls2 =>
      obtain ⟨rfl, rfl, rfl, rfl, -⟩ := h3
      exact ⟨_, _, _, _, _, _, h2, ha'⟩

/-- `unacked` keys only grow under send / get_packets -/
theorem MapSim.contains {a b : SMap Unacked} (hsim : MapSim a b) (id : Nat) : SMap.contains b id = SMap.contains a id := by
  unfold SMap.contains
  rcases hsim.find id with ⟨h1, h2⟩ | ⟨u, u', h1, h2, _⟩
  · rw [h1, h2]
  · rw [h1, h2]; rfl



/-! ## Part 3 : RenetClient -/

def chanOf : SentInfo → Option Nat
  | .relMsgs ch _ => some ch
  | .relSlice ch _ _ => some ch
  | _ => Option.none

/-- a recorded packet is consistent with the reliable send channels -/
def InfoOKC (sr : SMap SendRel) (info : SentInfo) : Prop :=
  ∀ ch, chanOf info = some ch → ∃ s, find? sr ch = some s ∧ s.InfoOK info

/-- every channel present before is present after and is a `Step` later; no channel appears -/
def SRStep (sr sr' : SMap SendRel) : Prop :=
  (∀ ch, (find? sr' ch).isSome = (find? sr ch).isSome) ∧
  ∀ ch s s', find? sr ch = some s → find? sr' ch = some s' → s.Step s'

theorem SRStep.refl (sr : SMap SendRel) : SRStep sr sr :=
  ⟨fun _ => rfl, fun _ s s' h h' => by rw [h] at h'; cases h'; exact SendRel.Step.refl _⟩

theorem SRStep.trans {a b c : SMap SendRel} (h1 : SRStep a b) (h2 : SRStep b c) : SRStep a c := by
  refine ⟨fun ch => (h2.1 ch).trans (h1.1 ch), ?_⟩
  intro ch s s'' hs hs''
  have := h1.1 ch
  rw [hs] at this
  cases hb : find? b ch with
  | none => rw [hb] at this; cases this
  | some s' => exact (h1.2 ch s s' hs hb).trans (h2.2 ch s' s'' hb hs'')

theorem SRStep.update {sr : SMap SendRel} {ch : Nat} {s s' : SendRel} (hf : find? sr ch = some s) (hst : s.Step s') :
    SRStep sr (SMap.insert sr ch s') := by
  refine ⟨?_, ?_⟩
  · intro ch'
    rw [find?_insert]
    by_cases c : ch = ch'
    · rw [if_pos c, ← c, hf]; rfl
    · rw [if_neg c]
  · intro ch' s0 s0' h0 h0'
    rw [find?_insert] at h0'
    by_cases c : ch = ch'
    · rw [if_pos c] at h0'; cases h0'; subst c; rw [hf] at h0; cases h0; exact hst
    · rw [if_neg c, h0] at h0'; cases h0'; exact SendRel.Step.refl _

theorem InfoOKC.step {sr sr' : SMap SendRel} (h : SRStep sr sr') {info : SentInfo} (hi : InfoOKC sr info) :
    InfoOKC sr' info := by
  intro ch hch
  obtain ⟨s, hf, hok⟩ := hi ch hch
  have := h.1 ch
  rw [hf] at this
  cases hb : find? sr' ch with
  | none => rw [hb] at this; cases this
  | some s' => exact ⟨s', rfl, hok.step (h.2 ch s s' hf hb)⟩

/-- all reliable send channels satisfy the channel invariant and know their own id -/
def ChansOK (sr : SMap SendRel) : Prop := ∀ ch s, find? sr ch = some s → s.Inv ∧ s.ch = ch

theorem ChansOK.update {sr : SMap SendRel} (h : ChansOK sr) {ch : Nat} {s' : SendRel} (hi : s'.Inv) (hc : s'.ch = ch) :
    ChansOK (SMap.insert sr ch s') := by
  intro ch' s0 h0
  rw [find?_insert] at h0
  by_cases c : ch = ch'
  · rw [if_pos c] at h0; cases h0; subst c; exact ⟨hi, hc⟩
  · rw [if_neg c] at h0; exact h ch' s0 h0

structure _root_.RenetVerif.Conn.SendInv (c : Conn) : Prop where
  chans : ChansOK c.sendRel
  sentSorted : Sorted c.sent
  sentOK : ∀ x ∈ c.sent, x.1 < c.packetSeq ∧ InfoOKC c.sendRel x.2.2
  order : ∀ x ∈ c.order, if x.1 = true then (find? c.sendRel x.2).isSome = true else (find? c.sendUnrel x.2).isSome = true

/-- the send-side fields (everything `SendInv` talks about) are equal -/
def _root_.RenetVerif.Conn.SendSame (c c' : Conn) : Prop :=
  c'.sendRel = c.sendRel ∧ c'.sendUnrel = c.sendUnrel ∧ c'.sent = c.sent ∧ c'.packetSeq = c.packetSeq ∧ c'.order = c.order

theorem _root_.RenetVerif.Conn.SendSame.refl (c : Conn) : c.SendSame c := ⟨rfl, rfl, rfl, rfl, rfl⟩

theorem _root_.RenetVerif.Conn.SendSame.trans {a b c : Conn} (h1 : a.SendSame b) (h2 : b.SendSame c) : a.SendSame c := by
  obtain ⟨a1, a2, a3, a4, a5⟩ := h1
  obtain ⟨b1, b2, b3, b4, b5⟩ := h2
  exact ⟨b1.trans a1, b2.trans a2, b3.trans a3, b4.trans a4, b5.trans a5⟩

theorem _root_.RenetVerif.Conn.SendInv.same {c c' : Conn} (h : c.SendInv) (hs : c.SendSame c') : c'.SendInv := by
  obtain ⟨a1, a2, a3, a4, a5⟩ := hs
  obtain ⟨h1, h2, h3, h4⟩ := h
  exact ⟨a1 ▸ h1, a3 ▸ h2, by rw [a1, a3, a4]; exact h3, by rw [a1, a2, a5]; exact h4⟩

theorem _root_.RenetVerif.Conn.disconnectWith_same (c : Conn) (r : Reason) :
    c.SendSame (c.disconnectWith r) ∧ (c.disconnectWith r).pendingAcks = c.pendingAcks ∧
    (c.disconnectWith r).recvRel = c.recvRel ∧ (c.disconnectWith r).recvUnrel = c.recvUnrel := by
  unfold Conn.disconnectWith
  split
  · exact ⟨Conn.SendSame.refl _, rfl, rfl, rfl⟩
  · exact ⟨⟨rfl, rfl, rfl, rfl, rfl⟩, rfl, rfl, rfl⟩

/-- replacing one reliable send channel by a later `Step` of itself -/
theorem _root_.RenetVerif.Conn.SendInv.updateChan {c : Conn} (h : c.SendInv) {ch : Nat} {s s' : SendRel}
    (hf : find? c.sendRel ch = some s) (hi : s'.Inv) (hst : s.Step s') :
    ({ c with sendRel := SMap.insert c.sendRel ch s' } : Conn).SendInv := by
  have hsr := SRStep.update hf hst
  refine ⟨h.chans.update hi (hst.1.trans (h.chans ch s hf).2), h.sentSorted, ?_, ?_⟩
  · intro x hx
    obtain ⟨a, b⟩ := h.sentOK x hx
    exact ⟨a, b.step hsr⟩
  · intro x hx
    have := h.order x hx
    dsimp only
    split
    · rename_i hb; rw [if_pos hb] at this; rw [hsr.1]; exact this
    · rename_i hb; rw [if_neg hb] at this; exact this

/-! ### send_message / receive_message / update -/

theorem Conn.sendMessage_inv {c c' : Conn} {ch : Nat} {m : Bytes} (h : c.SendInv) (hr : c.sendMessage ch m = .ok c') :
    c'.SendInv := by
  unfold Conn.sendMessage at hr
  split at hr
  · cases hr; exact h
  · split at hr
    · rename_i s hf
      split at hr
      · rename_i s' hs
        cases hr
        obtain ⟨i1, i2, -⟩ := SendRel.sendMessage_spec (h.chans ch s hf).1 hs
        exact h.updateChan hf i1 i2
      · cases hr
        exact h.same (c.disconnectWith_same _).1
    · split at hr
      · rename_i su hfu
        cases hr
        obtain ⟨h1, h2, h3, h4⟩ := h
        refine ⟨h1, h2, h3, ?_⟩
        intro x hx
        have := h4 x hx
        dsimp only
        split
        · rename_i hb; rw [if_pos hb] at this; exact this
        · rename_i hb; rw [if_neg hb] at this
          rw [find?_insert]
          split
          · rfl
          · exact this
      · cases hr

/-- `send_message` never removes an unacknowledged message -/
theorem Conn.sendMessage_keeps {c c' : Conn} {ch0 : Nat} {m : Bytes} (h : c.SendInv) (hr : c.sendMessage ch0 m = .ok c')
    {ch : Nat} {s : SendRel} (hs : find? c.sendRel ch = some s) :
    ∃ s', find? c'.sendRel ch = some s' ∧ s.mem ≤ s'.mem ∧ s'.maxMem = s.maxMem ∧
      (∀ id u, find? s.unacked id = some u → find? s'.unacked id = some u) ∧
      (∀ id i, s.Pending id i → s'.Pending id i) := by
  have triv : ∃ s', find? c.sendRel ch = some s' ∧ s.mem ≤ s'.mem ∧ s'.maxMem = s.maxMem ∧
      (∀ id u, find? s.unacked id = some u → find? s'.unacked id = some u) ∧
      (∀ id i, s.Pending id i → s'.Pending id i) :=
    ⟨s, hs, Nat.le_refl _, rfl, fun _ _ h => h, fun _ _ h => h⟩
  unfold Conn.sendMessage at hr
  split at hr
  · cases hr; exact triv
  · split at hr
    · rename_i s0 hf
      split at hr
      · rename_i s0' hs0
        cases hr
        dsimp only
        rw [find?_insert]
        by_cases cc : ch0 = ch
        · subst cc
          rw [hs] at hf; cases hf
          rw [if_pos rfl]
          have hinv := (h.chans ch0 s hs).1
          obtain ⟨i1, i2, i3, i4, i5, i6⟩ := SendRel.sendMessage_spec hinv hs0
          refine ⟨s0', rfl, by omega, i2.2.1, ?_, fun id i hp => SendRel.sendMessage_pending hinv hs0 hp⟩
          intro id u hu
          have : id ≠ s.nextId := by have := hinv.find_lt hu; omega
          rw [i6 id this]; exact hu
        · rw [if_neg cc]; exact triv
      · cases hr
        rw [(c.disconnectWith_same _).1.1]; exact triv
    · split at hr
      · cases hr; exact triv
      · cases hr

theorem Conn.receiveMessage_same {c c' : Conn} {ch : Nat} {m : Option Bytes} (hr : c.receiveMessage ch = .ok (c', m)) :
    c.SendSame c' ∧ c'.pendingAcks = c.pendingAcks := by
  unfold Conn.receiveMessage at hr
  split at hr
  · cases hr; exact ⟨Conn.SendSame.refl _, rfl⟩
  · split at hr
    · rename_i r hf
      cases hrr : r.receive with
      | ok x => rw [hrr] at hr; simp only [Res.bind_ok, Res.pure_eq] at hr; cases hr; exact ⟨⟨rfl, rfl, rfl, rfl, rfl⟩, rfl⟩
      | err e => exact e.elim
      | panic s => rw [hrr] at hr; cases hr
    · split at hr
      · rename_i r hf
        cases hrr : r.receive with
        | ok x => rw [hrr] at hr; simp only [Res.bind_ok, Res.pure_eq] at hr; cases hr; exact ⟨⟨rfl, rfl, rfl, rfl, rfl⟩, rfl⟩
        | err e => exact e.elim
        | panic s => rw [hrr] at hr; cases hr
      · cases hr

theorem Conn.update_spec {c c' : Conn} {dt : Nat} (hr : c.update dt = .ok c') :
    c'.sendRel = c.sendRel ∧ c'.sendUnrel = c.sendUnrel ∧ c'.packetSeq = c.packetSeq ∧ c'.order = c.order ∧
    c'.pendingAcks = c.pendingAcks ∧
    c'.sent = c.sent.dropWhile (fun (_, (t, _)) => c.now + dt - t ≥ DISCARD_AFTER_NS) := by
  unfold Conn.update at hr
  dsimp only at hr
  cases hd : Conn.discardAll (c.now + dt) c.recvUnrel with
  | ok ru => rw [hd] at hr; simp only [Res.bind_ok, Res.pure_eq] at hr; cases hr; exact ⟨rfl, rfl, rfl, rfl, rfl, rfl⟩
  | err e => exact e.elim
  | panic s => rw [hd] at hr; cases hr

theorem Conn.update_inv {c c' : Conn} {dt : Nat} (h : c.SendInv) (hr : c.update dt = .ok c') : c'.SendInv := by
  obtain ⟨e1, e2, e3, e4, -, e6⟩ := Conn.update_spec hr
  obtain ⟨h1, h2, h3, h4⟩ := h
  have hsub := List.dropWhile_sublist (l := c.sent) (fun (_, (t, _)) => c.now + dt - t ≥ DISCARD_AFTER_NS)
  refine ⟨e1 ▸ h1, ?_, ?_, by rw [e1, e2, e4]; exact h4⟩
  · rw [e6]; exact List.Pairwise.sublist hsub h2
  · rw [e6, e1, e3]
    intro x hx
    exact h3 x (hsub.subset hx)



/-! ### get_packets_to_send (connection) -/

def isAckPkt : Packet → Bool
  | .ack .. => true
  | _ => false

theorem _root_.RenetVerif.Unacked.Sim.trans : ∀ {a b c : Unacked}, a.Sim b → b.Sim c → a.Sim c
  | .small .., .small .., .small .., h1, h2 => Eq.trans h1 h2
  | .sliced .., .sliced .., .sliced .., h1, h2 =>
    ⟨h1.1.trans h2.1, h1.2.1.trans h2.2.1, h1.2.2.1.trans h2.2.2.1, h1.2.2.2.1.trans h2.2.2.2.1, h1.2.2.2.2.trans h2.2.2.2.2⟩
  | .small .., .sliced .., _, h1, _ => h1.elim
  | .sliced .., .small .., _, h1, _ => h1.elim
  | .small .., .small .., .sliced .., _, h2 => h2.elim
  | .sliced .., .sliced .., .small .., _, h2 => h2.elim

theorem MapSim.trans : ∀ {a b c : SMap Unacked}, MapSim a b → MapSim b c → MapSim a c
  | [], [], [], _, _ => trivial
  | (_, _) :: _, (_, _) :: _, (_, _) :: _, h1, h2 => ⟨h1.1.trans h2.1, h1.2.1.trans h2.2.1, MapSim.trans h1.2.2 h2.2.2⟩
  | [], _ :: _, _, h1, _ => h1.elim
  | _ :: _, [], _, h1, _ => h1.elim
  | [], [], _ :: _, _, h2 => h2.elim
  | _ :: _, _ :: _, [], _, h2 => h2.elim

/-- relation between the reliable send channels before and after `get_packets_to_send` -/
def SRGet (sr sr' : SMap SendRel) : Prop :=
  SRStep sr sr' ∧ ∀ ch s s', find? sr ch = some s → find? sr' ch = some s' →
    MapSim s.unacked s'.unacked ∧ s'.mem = s.mem

theorem SRGet.refl (sr : SMap SendRel) : SRGet sr sr :=
  ⟨SRStep.refl _, fun _ s s' h h' => by rw [h] at h'; cases h'; exact ⟨MapSim.refl _, rfl⟩⟩

theorem SRGet.trans {a b c : SMap SendRel} (h1 : SRGet a b) (h2 : SRGet b c) : SRGet a c := by
  refine ⟨h1.1.trans h2.1, ?_⟩
  intro ch s s'' hs hs''
  have := h1.1.1 ch
  rw [hs] at this
  cases hb : find? b ch with
  | none => rw [hb] at this; cases this
  | some s' =>
    obtain ⟨a1, a2⟩ := h1.2 ch s s' hs hb
    obtain ⟨b1, b2⟩ := h2.2 ch s' s'' hb hs''
    exact ⟨a1.trans b1, b2.trans a2⟩

theorem SRGet.update {sr : SMap SendRel} {ch : Nat} {s s' : SendRel} (hf : find? sr ch = some s) (hst : s.Step s')
    (hsim : MapSim s.unacked s'.unacked) (hm : s'.mem = s.mem) : SRGet sr (SMap.insert sr ch s') := by
  refine ⟨SRStep.update hf hst, ?_⟩
  intro ch' s0 s0' h0 h0'
  rw [find?_insert] at h0'
  by_cases c : ch = ch'
  · rw [if_pos c] at h0'; cases h0'; subst c; rw [hf] at h0; cases h0; exact ⟨hsim, hm⟩
  · rw [if_neg c, h0] at h0'; cases h0'; exact ⟨MapSim.refl _, rfl⟩

/-- the info recorded for a non-ack packet is consistent with the channels -/
def PInfoOK (sr : SMap SendRel) (p : Packet) : Prop :=
  isAckPkt p = false ∧ ∀ info, Conn.sentInfoOf p = .ok info → InfoOKC sr info

theorem PInfoOK.step {sr sr' : SMap SendRel} (h : SRStep sr sr') {p : Packet} (hp : PInfoOK sr p) : PInfoOK sr' p :=
  ⟨hp.1, fun info hi => (hp.2 info hi).step h⟩

theorem sentInfoOf_of_not_ack : ∀ {p : Packet}, isAckPkt p = false → ∃ info, Conn.sentInfoOf p = .ok info
  | .smallReliable .., _ => ⟨_, rfl⟩
  | .smallUnreliable .., _ => ⟨_, rfl⟩
  | .reliableSlice .., _ => ⟨_, rfl⟩
  | .unreliableSlice .., _ => ⟨_, rfl⟩
  | .ack .., h => by cases h

/-- a packet emitted by reliable channel `s` (registered under its own id) records a consistent info -/
theorem PktOK.pinfo {sr : SMap SendRel} {s : SendRel} (hf : find? sr s.ch = some s) (hi : s.Inv) :
    ∀ {p : Packet}, PktOK s.ch s.unacked p → PInfoOK sr p
  | .smallReliable _ ch' msgs, hp => by
    obtain ⟨rfl, hm⟩ := hp
    refine ⟨rfl, ?_⟩
    intro info hinfo
    simp only [Conn.sentInfoOf, Res.ok.injEq] at hinfo
    subst hinfo
    intro ch hch
    simp only [chanOf, Option.some.injEq] at hch
    subst hch
    refine ⟨s, hf, ?_⟩
    intro id hid
    simp only [List.mem_map] at hid
    obtain ⟨x, hx, rfl⟩ := hid
    obtain ⟨ls, hfx⟩ := hm x hx
    refine ⟨hi.find_lt hfx, ?_⟩
    intro u hu
    rw [hfx] at hu; cases hu; trivial
  | .reliableSlice _ ch' sl, hp => by
    obtain ⟨rfl, hidx, m, k, nx, a, ls, hfx, -⟩ := hp
    refine ⟨rfl, ?_⟩
    intro info hinfo
    simp only [Conn.sentInfoOf, Res.ok.injEq] at hinfo
    subst hinfo
    intro ch hch
    simp only [chanOf, Option.some.injEq] at hch
    subst hch
    refine ⟨s, hf, hi.find_lt hfx, ?_⟩
    intro u hu
    rw [hfx] at hu; cases hu; exact hidx
  | .smallUnreliable .., hp => hp.elim
  | .unreliableSlice .., hp => hp.elim
  | .ack .., hp => hp.elim

/-! #### unreliable channels: only sequence numbers matter here -/
def UP (seq0 : Nat) (pk : List Packet) (seq : Nat) : Prop :=
  (∀ p ∈ pk, Conn.sentInfoOf p = .ok .none ∧ isAckPkt p = false ∧ seq0 ≤ p.sequence ∧ p.sequence < seq) ∧ seq0 ≤ seq

theorem UP.append {seq0 : Nat} {pk : List Packet} {seq : Nat} {ps : List Packet} {sq : Nat} (h : UP seq0 pk seq)
    (hps : ∀ p ∈ ps, Conn.sentInfoOf p = .ok .none ∧ isAckPkt p = false ∧ seq ≤ p.sequence ∧ p.sequence < sq) (hle : seq ≤ sq) :
    UP seq0 (pk ++ ps) sq := by
  refine ⟨?_, Nat.le_trans h.2 hle⟩
  intro p hp
  simp only [List.mem_append] at hp
  rcases hp with hp | hp
  · obtain ⟨a1, a2, a3, a4⟩ := h.1 p hp
    exact ⟨a1, a2, a3, by omega⟩
  · obtain ⟨a1, a2, a3, a4⟩ := hps p hp
    exact ⟨a1, a2, by have := h.2; omega, a4⟩

theorem unrelSlices_spec (ch id : Nat) (m : Bytes) (n : Nat) : ∀ (l : List Nat) (seq : Nat) (p : Packet),
    p ∈ unrelSlices ch id m n l seq →
    Conn.sentInfoOf p = .ok .none ∧ isAckPkt p = false ∧ seq ≤ p.sequence ∧ p.sequence < seq + l.length
  | [], _, _, h => by cases h
  | i :: rest, seq, p, h => by
    simp only [unrelSlices, List.mem_cons] at h
    rcases h with rfl | h
    · exact ⟨rfl, rfl, Nat.le_refl _, by simp [Packet.sequence]⟩
    · obtain ⟨a1, a2, a3, a4⟩ := unrelSlices_spec ch id m n rest (seq + 1) p h
      refine ⟨a1, a2, by omega, by simp only [List.length_cons]; omega⟩

theorem unrelLoop_spec (ch seq0 : Nat) : ∀ (l : List Bytes) (g : GPU), UP seq0 g.packets g.seq →
    UP seq0 (unrelLoop ch l g).packets (unrelLoop ch l g).seq
  | [], _, h => h
  | m :: rest, g, h => by
    rw [unrelLoop]
    dsimp only
    split
    · exact unrelLoop_spec ch seq0 rest _ h
    · split
      · apply unrelLoop_spec
        dsimp only
        refine h.append ?_ (by omega)
        intro p hp
        have := unrelSlices_spec _ _ _ _ _ _ p hp
        simpa using this
      · apply unrelLoop_spec
        dsimp only
        split
        · dsimp only
          refine h.append ?_ (Nat.le_succ _)
          intro p hp
          simp only [List.mem_singleton] at hp
          subst hp
          exact ⟨rfl, rfl, Nat.le_refl _, by simp [Packet.sequence]⟩
        · exact h

theorem SendUnrel.getPackets_spec (s : SendUnrel) (seq avail : Nat) :
    ∀ (s' : SendUnrel) (ps : List Packet) (seq' avail' : Nat), s.getPackets seq avail = (s', ps, seq', avail') →
      UP seq ps seq' := by
  intro s' ps seq' avail' hr
  unfold SendUnrel.getPackets at hr
  have h0 : UP seq (⟨[], [], 0, seq, avail, s.slicedId, s.mem⟩ : GPU).packets (⟨[], [], 0, seq, avail, s.slicedId, s.mem⟩ : GPU).seq :=
    ⟨fun p hp => (by cases hp), Nat.le_refl _⟩
  have h1 := unrelLoop_spec s.ch seq s.queue _ h0
  generalize unrelLoop s.ch s.queue ⟨[], [], 0, seq, avail, s.slicedId, s.mem⟩ = g at hr h1
  dsimp only at hr
  simp only [Prod.mk.injEq] at hr
  obtain ⟨-, rfl, rfl, -⟩ := hr
  split
  · exact h1
  · dsimp only
    refine h1.append ?_ (Nat.le_succ _)
    intro p hp
    simp only [List.mem_singleton] at hp
    subst hp
    exact ⟨rfl, rfl, Nat.le_refl _, by simp [Packet.sequence]⟩

/-! #### the channel loop -/
def OrderOK (ord : List (Bool × Nat)) (sr : SMap SendRel) (su : SMap SendUnrel) : Prop :=
  ∀ x ∈ ord, if x.1 = true then (find? sr x.2).isSome = true else (find? su x.2).isSome = true

theorem Conn.chanLoop_spec (now seq0 : Nat) : ∀ (ord : List (Bool × Nat)) (sr : SMap SendRel) (su : SMap SendUnrel)
    (pk : List Packet) (seq avail : Nat),
    ChansOK sr → OrderOK ord sr su → seq0 ≤ seq → (∀ p ∈ pk, PInfoOK sr p ∧ seq0 ≤ p.sequence ∧ p.sequence < seq) →
    ∃ sr' su' pk' seq' avail', Conn.chanLoop now ord (sr, su, pk, seq, avail) = .ok (sr', su', pk', seq', avail') ∧
      ChansOK sr' ∧ SRGet sr sr' ∧ (∀ ch, (find? su' ch).isSome = (find? su ch).isSome) ∧
      (∀ p ∈ pk', PInfoOK sr' p ∧ seq0 ≤ p.sequence ∧ p.sequence < seq') ∧ seq ≤ seq'
  | [], sr, su, pk, seq, avail, hc, _, _, hp =>
    ⟨sr, su, pk, seq, avail, rfl, hc, SRGet.refl _, fun _ => rfl, hp, Nat.le_refl _⟩
  | (true, ch) :: rest, sr, su, pk, seq, avail, hc, ho, hlo, hp => by
    have h0 := ho (true, ch) (by simp)
    simp only [if_true] at h0
    cases hf : find? sr ch with
    | none => rw [hf] at h0; cases h0
    | some s =>
      obtain ⟨hinv, hch⟩ := hc ch s hf
      cases hg : s.getPackets seq avail now with
      | mk s' r1 =>
        obtain ⟨ps, seq1, avail1⟩ := r1
        obtain ⟨g1, g2, g3, g4, g5, g6, g7⟩ := SendRel.getPackets_spec hinv seq avail now s' ps seq1 avail1 hg
        have hch' : s'.ch = ch := g2.1.trans hch
        have hget := SRGet.update hf g2 g5 g3
        have hc1 : ChansOK (SMap.insert sr ch s') := hc.update g1 hch'
        have ho1 : OrderOK rest (SMap.insert sr ch s') su := by
          intro x hx
          have := ho x (List.mem_cons_of_mem _ hx)
          split
          · rename_i hb; rw [if_pos hb] at this; rw [hget.1.1]; exact this
          · rename_i hb; rw [if_neg hb] at this; exact this
        have hp1 : ∀ p ∈ pk ++ ps, PInfoOK (SMap.insert sr ch s') p ∧ seq0 ≤ p.sequence ∧ p.sequence < seq1 := by
          intro p hpp
          simp only [List.mem_append] at hpp
          rcases hpp with hpp | hpp
          · obtain ⟨a1, a2, a3⟩ := hp p hpp
            exact ⟨a1.step hget.1, a2, by omega⟩
          · obtain ⟨a1, a2, a3⟩ := g7 p hpp
            refine ⟨PktOK.pinfo (sr := SMap.insert sr ch s') (s := s') ?_ g1 a1, by omega, a3⟩
            rw [hch']; exact find?_insert_self _ _ _
        obtain ⟨sr', su', pk', seq', avail', e, r1, r2, r3, r4, r5⟩ :=
          Conn.chanLoop_spec now seq0 rest (SMap.insert sr ch s') su (pk ++ ps) seq1 avail1 hc1 ho1 (by omega) hp1
        refine ⟨sr', su', pk', seq', avail', ?_, r1, hget.trans r2, r3, r4, by omega⟩
        simp only [Conn.chanLoop, hf, hg]
        exact e
  | (false, ch) :: rest, sr, su, pk, seq, avail, hc, ho, hlo, hp => by
    have h0 := ho (false, ch) (by simp)
    simp only [Bool.false_eq_true, if_false] at h0
    cases hf : find? su ch with
    | none => rw [hf] at h0; cases h0
    | some s =>
      cases hg : s.getPackets seq avail with
      | mk s' r1 =>
        obtain ⟨ps, seq1, avail1⟩ := r1
        have hup := SendUnrel.getPackets_spec s seq avail s' ps seq1 avail1 hg
        have hsome : ∀ ch', (find? (SMap.insert su ch s') ch').isSome = (find? su ch').isSome := by
          intro ch'
          rw [find?_insert]
          by_cases c : ch = ch'
          · rw [if_pos c, ← c, hf]; rfl
          · rw [if_neg c]
        have ho1 : OrderOK rest sr (SMap.insert su ch s') := by
          intro x hx
          have := ho x (List.mem_cons_of_mem _ hx)
          split
          · rename_i hb; rw [if_pos hb] at this; exact this
          · rename_i hb; rw [if_neg hb] at this; rw [hsome]; exact this
        have hp1 : ∀ p ∈ pk ++ ps, PInfoOK sr p ∧ seq0 ≤ p.sequence ∧ p.sequence < seq1 := by
          intro p hpp
          simp only [List.mem_append] at hpp
          rcases hpp with hpp | hpp
          · obtain ⟨a1, a2, a3⟩ := hp p hpp
            exact ⟨a1, a2, by have := hup.2; omega⟩
          · obtain ⟨a1, a2, a3, a4⟩ := hup.1 p hpp
            refine ⟨⟨a2, ?_⟩, by omega, a4⟩
            intro info hi
            rw [a1] at hi; cases hi
            intro ch' hch'; cases hch'
        obtain ⟨sr', su', pk', seq', avail', e, r1, r2, r3, r4, r5⟩ :=
          Conn.chanLoop_spec now seq0 rest sr (SMap.insert su ch s') (pk ++ ps) seq1 avail1 hc ho1 (by have := hup.2; omega) hp1
        refine ⟨sr', su', pk', seq', avail', ?_, r1, r2, fun ch' => (r3 ch').trans (hsome ch'), r4,
          by have := hup.2; omega⟩
        simp only [Conn.chanLoop, hf, hg]
        exact e

theorem Conn.recordSent_spec (now : Nat) : ∀ (pk : List Packet) (m m' : SMap (Nat × SentInfo)),
    Conn.recordSent now pk m = .ok m' → Sorted m →
    Sorted m' ∧ ∀ x ∈ m', x ∈ m ∨ ∃ p ∈ pk, x.1 = p.sequence ∧ Conn.sentInfoOf p = .ok x.2.2
  | [], m, m', h, hs => by
    simp only [Conn.recordSent, Res.ok.injEq] at h; subst h
    exact ⟨hs, fun x hx => Or.inl hx⟩
  | p :: rest, m, m', h, hs => by
    simp only [Conn.recordSent] at h
    cases hi : Conn.sentInfoOf p with
    | err e => exact e.elim
    | panic s => rw [hi] at h; cases h
    | ok info =>
      rw [hi] at h
      simp only [Res.bind_ok] at h
      obtain ⟨r1, r2⟩ := Conn.recordSent_spec now rest _ m' h (sorted_insert _ _ hs)
      refine ⟨r1, ?_⟩
      intro x hx
      rcases r2 x hx with hx | ⟨q, hq, hq2⟩
      · rcases mem_insert hx with rfl | hx
        · exact Or.inr ⟨p, by simp, rfl, hi⟩
        · exact Or.inl hx
      · exact Or.inr ⟨q, List.mem_cons_of_mem _ hq, hq2⟩

theorem Conn.recordSent_ok (now : Nat) : ∀ (pk : List Packet) (m : SMap (Nat × SentInfo)),
    (∀ p ∈ pk, ∃ info, Conn.sentInfoOf p = .ok info) → ∃ m', Conn.recordSent now pk m = .ok m'
  | [], m, _ => ⟨m, rfl⟩
  | p :: rest, m, h => by
    obtain ⟨info, hi⟩ := h p (by simp)
    simp only [Conn.recordSent, hi, Res.bind_ok]
    exact Conn.recordSent_ok now rest _ (fun q hq => h q (List.mem_cons_of_mem _ hq))

/-- entries whose key is not the sequence number of a recorded packet are untouched -/
theorem Conn.recordSent_keeps (now : Nat) : ∀ (pk : List Packet) (m m' : SMap (Nat × SentInfo)),
    Conn.recordSent now pk m = .ok m' → ∀ k, (∀ p ∈ pk, p.sequence ≠ k) → find? m' k = find? m k
  | [], m, m', h, _, _ => by
    simp only [Conn.recordSent, Res.ok.injEq] at h; subst h; rfl
  | p :: rest, m, m', h, k, hk => by
    simp only [Conn.recordSent] at h
    cases hi : Conn.sentInfoOf p with
    | err e => exact e.elim
    | panic s => rw [hi] at h; cases h
    | ok info =>
      rw [hi] at h
      simp only [Res.bind_ok] at h
      rw [Conn.recordSent_keeps now rest _ m' h k (fun q hq => hk q (List.mem_cons_of_mem _ hq))]
      exact find?_insert_ne _ _ (hk p (by simp))

/-- the ack packet appended by `get_packets_to_send` can always be recorded when the pending list is well formed -/
theorem sentInfoOf_ack {seq : Nat} {l : List AckRange} (hw : Acks.WF l) (hne : l ≠ []) :
    ∃ largest, Conn.sentInfoOf (.ack seq l) = .ok (.ack largest) := by
  have hpos : ∀ r ∈ l, r.1 < r.2 := by
    intro r hr
    induction l with
    | nil => cases hr
    | cons a t ih =>
      rw [Acks.wf_cons_iff] at hw
      simp only [List.mem_cons] at hr
      rcases hr with rfl | hr
      · exact hw.1
      · cases t with
        | nil => cases hr
        | cons b t' => exact ih hw.2.1 (by simp) hr
  cases hl : l.getLast? with
  | none => rw [List.getLast?_eq_none_iff] at hl; exact absurd hl hne
  | some r =>
    obtain ⟨s, e⟩ := r
    have := hpos (s, e) (List.mem_of_getLast? hl)
    simp only at this
    refine ⟨e - 1, ?_⟩
    simp only [Conn.sentInfoOf, hl, Res.csub]
    rw [if_pos (by omega)]
    rfl

/-- Characterisation of `get_packets_to_send` on a live connection: everything up to serialisation
    succeeds; the only possible unwinding is inside `serialiseAll` (varint ≥ 2^62: see C16). -/
theorem Conn.getPacketsToSend_char {c : Conn} (h : c.SendInv) (hw : Acks.WF c.pendingAcks) (hd : c.isDisconnected = false) :
    ∃ (c1 : Conn) (pk0 : List Packet) (seq0 : Nat),
      c.getPacketsToSend =
        (match Conn.serialiseAll (if c.pendingAcks.isEmpty then pk0 else pk0 ++ [Packet.ack seq0 c.pendingAcks]) with
         | .ok bs => .ok (c1, bs)
         | .err e => .ok (c1.disconnectWith (.packetSer e), [])
         | .panic s => .panic s) ∧
      c1.SendInv ∧ (∀ p ∈ pk0, isAckPkt p = false) ∧ c1.pendingAcks = c.pendingAcks ∧
      SRGet c.sendRel c1.sendRel ∧ c.packetSeq ≤ c1.packetSeq ∧ c1.order = c.order ∧
      c1.recvRel = c.recvRel ∧ c1.recvUnrel = c.recvUnrel ∧ c1.status = c.status ∧
      -- every new entry of the sent table describes a packet of this very flush, under that packet's number
      (∀ x ∈ c1.sent, x ∈ c.sent ∨
        ∃ p ∈ (if c.pendingAcks.isEmpty then pk0 else pk0 ++ [Packet.ack seq0 c.pendingAcks]),
          x.1 = p.sequence ∧ c.packetSeq ≤ p.sequence ∧ Conn.sentInfoOf p = .ok x.2.2) ∧
      -- and no older entry is overwritten
      (∀ k v, find? c.sent k = some v → find? c1.sent k = some v) := by
  obtain ⟨h1, h2, h3, h4⟩ := h
  obtain ⟨sr, su, pk0, seq0, avail0, e, r1, r2, r3, r4, r5⟩ :=
    Conn.chanLoop_spec c.now c.packetSeq c.order c.sendRel c.sendUnrel [] c.packetSeq c.budget h1 h4 (Nat.le_refl _)
      (fun p hp => by cases hp)
  -- the final list of packets and sequence number
  have hinfo : ∀ p ∈ (if c.pendingAcks.isEmpty then pk0 else pk0 ++ [Packet.ack seq0 c.pendingAcks]),
      ∃ info, Conn.sentInfoOf p = .ok info := by
    intro p hp
    split at hp
    · exact sentInfoOf_of_not_ack (r4 p hp).1.1
    · rename_i hne
      simp only [List.mem_append, List.mem_singleton] at hp
      rcases hp with hp | rfl
      · exact sentInfoOf_of_not_ack (r4 p hp).1.1
      · obtain ⟨l, hl⟩ := sentInfoOf_ack (seq := seq0) hw (by intro e0; rw [e0] at hne; exact hne rfl)
        exact ⟨_, hl⟩
  obtain ⟨sent, hsent⟩ := Conn.recordSent_ok c.now _ c.sent hinfo
  obtain ⟨s1, s2⟩ := Conn.recordSent_spec c.now _ c.sent sent hsent h2
  refine ⟨{ c with sendRel := sr, sendUnrel := su,
                   packetSeq := if c.pendingAcks.isEmpty then seq0 else seq0 + 1, sent := sent }, pk0, seq0, ?_, ?_,
    fun p hp => (r4 p hp).1.1, rfl, r2, ?_, rfl, rfl, rfl, rfl, ?_, ?_⟩
  · unfold Conn.getPacketsToSend
    rw [hd]
    simp only [Bool.false_eq_true, if_false, e, Res.bind_ok]
    cases hE : c.pendingAcks.isEmpty
    · simp only [hE, Bool.false_eq_true, if_false] at hsent ⊢
      rw [hsent]
      simp only [Res.bind_ok]
      cases Conn.serialiseAll (pk0 ++ [Packet.ack seq0 c.pendingAcks]) <;> rfl
    · simp only [hE, if_true] at hsent ⊢
      rw [hsent]
      simp only [Res.bind_ok]
      cases Conn.serialiseAll pk0 <;> rfl
  · refine ⟨r1, s1, ?_, ?_⟩
    · intro x hx
      dsimp only
      rcases s2 x hx with hx | ⟨p, hp, hp1, hp2⟩
      · obtain ⟨a1, a2⟩ := h3 x hx
        refine ⟨?_, a2.step r2.1⟩
        split <;> omega
      · split at hp
        · obtain ⟨⟨-, b1⟩, -, b2⟩ := r4 p hp
          rename_i hem
          rw [if_pos hem]
          exact ⟨by omega, b1 _ hp2⟩
        · rename_i hem
          rw [if_neg hem]
          simp only [List.mem_append, List.mem_singleton] at hp
          rcases hp with hp | rfl
          · obtain ⟨⟨-, b1⟩, -, b2⟩ := r4 p hp
            exact ⟨by omega, b1 _ hp2⟩
          · refine ⟨by rw [hp1]; simp [Packet.sequence], ?_⟩
            obtain ⟨l, hl⟩ := sentInfoOf_ack (seq := seq0) hw (by intro e0; rw [e0] at hem; exact hem rfl)
            rw [hl] at hp2
            simp only [Res.ok.injEq] at hp2
            rw [← hp2]
            intro ch hch; cases hch
    · intro x hx
      have := h4 x hx
      dsimp only
      split
      · rename_i hb; rw [if_pos hb] at this; rw [r2.1.1]; exact this
      · rename_i hb; rw [if_neg hb] at this; rw [r3]; exact this
  · dsimp only
    split <;> omega
  · intro x hx
    rcases s2 x hx with hx | ⟨p, hp, hp1, hp2⟩
    · exact Or.inl hx
    · refine Or.inr ⟨p, hp, hp1, ?_, hp2⟩
      split at hp
      · exact (r4 p hp).2.1
      · simp only [List.mem_append, List.mem_singleton] at hp
        rcases hp with hp | rfl
        · exact (r4 p hp).2.1
        · exact r5
  · intro k v hk
    have hlt := (h3 _ (find?_some_mem hk)).1
    dsimp only at hlt ⊢
    rw [Conn.recordSent_keeps c.now _ c.sent sent hsent k ?_]
    · exact hk
    · intro p hp
      have : c.packetSeq ≤ p.sequence := by
        split at hp
        · exact (r4 p hp).2.1
        · simp only [List.mem_append, List.mem_singleton] at hp
          rcases hp with hp | rfl
          · exact (r4 p hp).2.1
          · exact r5
      omega



/-! ### what the decoder guarantees about an ack packet -/

theorem decAckRest_wf : ∀ (n prev : Nat) (b : Bytes) (acc ranges : List AckRange) (rest : Bytes),
    decAckRest n prev b acc = .ok (ranges, rest) → Acks.WF acc → (∃ r t, acc = r :: t ∧ r.1 = prev) → Acks.WF ranges
  | 0, _, _, _, _, _, h, hw, _ => by
    simp only [decAckRest, Except.ok.injEq, Prod.mk.injEq] at h
    rw [← h.1]; exact hw
  | n + 1, prev, b, acc, ranges, rest, h, hw, hh => by
    simp only [decAckRest, bind, Except.bind] at h
    split at h
    · cases h
    · rename_i x hx
      obtain ⟨gap, b1⟩ := x
      simp only at h
      split at h
      · cases h
      · rename_i hgap
        split at h
        · cases h
        · rename_i y hy
          obtain ⟨size, b2⟩ := y
          simp only at h
          split at h
          · cases h
          · rename_i hsize
            refine decAckRest_wf n _ b2 _ ranges rest h ?_ ⟨_, _, rfl, rfl⟩
            obtain ⟨r, t, rfl, hr⟩ := hh
            rw [Acks.wf_cons_iff]
            refine ⟨by dsimp only; omega, hw, ?_⟩
            intro r2 hr2
            simp only [List.head?_cons, Option.some.injEq] at hr2
            subst hr2
            dsimp only; omega

theorem decode_ack_wf {b : Bytes} {seq : Nat} {ranges : List AckRange} {rest : Bytes}
    (h : Packet.decode b = .ok (.ack seq ranges, rest)) : Acks.WF ranges := by
  unfold Packet.decode at h
  simp only [bind, Except.bind] at h
  split at h
  · cases h
  · rename_i x hx
    obtain ⟨ty, b0⟩ := x
    simp only at h
    split at h
    iterate 4
      · repeat' (first | (cases h; done) | split at h)
        all_goals (simp only [pure, Except.pure, Except.ok.injEq, Prod.mk.injEq] at h; exact absurd h.1 (by simp))
    · repeat' (first | (cases h; done) | split at h)
      rename_i hlt _ v hdec
      simp only [pure, Except.pure, Except.ok.injEq, Prod.mk.injEq, Packet.ack.injEq] at h
      obtain ⟨⟨-, rfl⟩, -⟩ := h
      exact decAckRest_wf _ _ _ _ v.1 v.2 hdec (by simp only [Acks.WF]; omega) ⟨_, _, rfl, rfl⟩
    · cases h

theorem fromBytes_ack_wf {b : Bytes} {seq : Nat} {ranges : List AckRange}
    (h : Packet.fromBytes b = .ok (.ack seq ranges)) : Acks.WF ranges := by
  unfold Packet.fromBytes at h
  split at h
  · rename_i p rest hd
    simp only [Except.ok.injEq] at h
    subst h
    exact decode_ack_wf hd
  · cases h

/-! ### which sequence numbers an ack packet acknowledges -/

theorem Acks.wf_pos : ∀ {l : List AckRange}, Acks.WF l → ∀ r ∈ l, r.1 < r.2
  | [], _, _, hr => by cases hr
  | a :: t, hw, r, hr => by
    rw [Acks.wf_cons_iff] at hw
    simp only [List.mem_cons] at hr
    rcases hr with rfl | hr
    · exact hw.1
    · exact Acks.wf_pos hw.2.1 r hr

theorem Acks.wf_above : ∀ {l : List AckRange} {r : AckRange}, Acks.WF (r :: l) → ∀ x, Acks.Mem x l → r.2 < x
  | [], _, _, _, hx => by cases hx
  | r2 :: t, r, hw, x, hx => by
    rw [Acks.wf_cons_iff] at hw
    have h1 := hw.2.2 r2 rfl
    simp only [Acks.mem_cons] at hx
    rcases hx with hx | hx
    · omega
    · have := Acks.wf_above hw.2.1 x hx
      have h3 := Acks.wf_pos hw.2.1 r2 (by simp)
      omega

theorem Acks.mem_iff_exists {x : Nat} : ∀ {l : List AckRange}, Acks.Mem x l ↔ ∃ r ∈ l, r.1 ≤ x ∧ x < r.2
  | [] => by simp
  | a :: t => by
    simp only [Acks.mem_cons, List.mem_cons, Acks.mem_iff_exists (l := t)]
    constructor
    · rintro (h | ⟨r, hr, h⟩)
      · exact ⟨a, Or.inl rfl, h⟩
      · exact ⟨r, Or.inr hr, h⟩
    · rintro ⟨r, rfl | hr, h⟩
      · exact Or.inl h
      · exact Or.inr ⟨r, hr, h⟩

theorem keys_filter_spec {α : Type} (p : Nat × α → Bool) {m : SMap α} (hs : Sorted m) :
    ((m.filter p).map (·.1)).Nodup ∧ ∀ x ∈ (m.filter p).map (·.1), ∃ v, find? m x = some v ∧ p (x, v) = true := by
  refine ⟨?_, ?_⟩
  · unfold List.Nodup
    rw [List.pairwise_map]
    exact (List.Pairwise.filter p hs).imp (fun h => Nat.ne_of_lt h)
  · intro x hx
    simp only [List.mem_map, List.mem_filter] at hx
    obtain ⟨⟨k, v⟩, ⟨hm, hp⟩, rfl⟩ := hx
    exact ⟨v, mem_find?_of_sorted hs hm, hp⟩

theorem Conn.newAcks_spec {sent : SMap (Nat × SentInfo)} (hs : Sorted sent) : ∀ (ranges : List AckRange), Acks.WF ranges →
    ∃ L, Conn.newAcks sent ranges = .ok L ∧ L.Nodup ∧ ∀ x ∈ L, (∃ v, find? sent x = some v) ∧ Acks.Mem x ranges
  | [], _ => ⟨[], rfl, List.nodup_nil, fun _ hx => by cases hx⟩
  | (s, e) :: rest, hw => by
    have hpos := Acks.wf_pos hw (s, e) (by simp)
    simp only at hpos
    obtain ⟨L, hL, hnd, hmem⟩ := Conn.newAcks_spec hs rest (Acks.wf_tail hw)
    obtain ⟨k1, k2⟩ := keys_filter_spec (fun (x : Nat × Nat × SentInfo) => decide (s ≤ x.1 ∧ x.1 < e)) hs
    refine ⟨(sent.filter (fun (x : Nat × Nat × SentInfo) => decide (s ≤ x.1 ∧ x.1 < e))).map (·.1) ++ L, ?_, ?_, ?_⟩
    · simp only [Conn.newAcks]
      rw [if_neg (by omega), hL]
      rfl
    · rw [List.nodup_append]
      refine ⟨k1, hnd, ?_⟩
      intro a ha b hb hab
      subst hab
      obtain ⟨v, -, hp⟩ := k2 a ha
      simp only [decide_eq_true_eq] at hp
      have := Acks.wf_above hw a (hmem a hb).2
      simp only at this
      omega
    · intro x hx
      simp only [List.mem_append] at hx
      rcases hx with hx | hx
      · obtain ⟨v, hv, hp⟩ := k2 x hx
        simp only [decide_eq_true_eq] at hp
        exact ⟨⟨v, hv⟩, Or.inl hp⟩
      · exact ⟨(hmem x hx).1, Or.inr (hmem x hx).2⟩

/-! ### processing acknowledgements -/

/-- accumulated effect of acknowledging the messages `ids` on one channel -/
structure _root_.RenetVerif.SendRel.AckSteps (s s' : SendRel) (ids : List Nat) : Prop where
  others : ∀ id', id' ∉ ids → find? s'.unacked id' = find? s.unacked id'
  memLe : s'.mem ≤ s.mem
  memLt : s'.mem < s.mem → ∃ id, find? s.unacked id ≠ none ∧ find? s'.unacked id = none
  gone : ∀ id', find? s.unacked id' = none → find? s'.unacked id' = none
  pend : ∀ id i, s.Pending id i → s'.Pending id i

theorem Conn.ackMsgLoop_spec {ch : Nat} : ∀ (ids : List Nat) {s : SendRel}, s.Inv → s.InfoOK (.relMsgs ch ids) →
    ∃ s', Conn.ackMsgLoop s ids = .ok s' ∧ s'.Inv ∧ s.Step s' ∧ s.AckSteps s' ids
  | [], s, hi, _ =>
    ⟨s, rfl, hi, SendRel.Step.refl _, ⟨fun _ _ => rfl, Nat.le_refl _, fun h => absurd h (Nat.lt_irrefl _), fun _ h => h,
      fun _ _ h => h⟩⟩
  | id :: rest, s, hi, hok => by
    have hk : ∀ u, find? s.unacked id = some u → u.IsSmall := (hok id (by simp)).2
    obtain ⟨s1, e1, i1, st1, -⟩ := SendRel.processMessageAck_spec hi id hk
    obtain ⟨a1, p1⟩ := SendRel.processMessageAck_step hi hk e1
    have hok1 : s1.InfoOK (.relMsgs ch rest) :=
      SendRel.InfoOK.step st1 (i := .relMsgs ch rest) (fun id' h' => hok id' (List.mem_cons_of_mem _ h'))
    obtain ⟨s', e2, i2, st2, a2⟩ := Conn.ackMsgLoop_spec rest i1 hok1
    refine ⟨s', ?_, i2, st1.trans st2, ⟨?_, Nat.le_trans a2.memLe a1.memLe, ?_, fun id' h => a2.gone id' (a1.gone id' h),
      fun id' i h => a2.pend id' i (p1 id' i h)⟩⟩
    · simp only [Conn.ackMsgLoop, e1, Res.bind_ok]; exact e2
    · intro id' hn
      simp only [List.mem_cons, not_or] at hn
      rw [a2.others id' hn.2, a1.others id' hn.1]
    · intro hlt
      by_cases c : s1.mem < s.mem
      · obtain ⟨⟨u, hu⟩, hn⟩ := a1.memLt c
        exact ⟨id, by rw [hu]; simp, a2.gone id hn⟩
      · obtain ⟨id2, h1, h2⟩ := a2.memLt (by omega)
        refine ⟨id2, ?_, h2⟩
        intro hnone
        exact h1 (a1.gone id2 hnone)

/-- the recorded packet `info` carried message `id` of channel `ch` (whole, or one of its slices) -/
def Names (info : SentInfo) (ch id : Nat) : Prop :=
  (∃ ids, info = .relMsgs ch ids ∧ id ∈ ids) ∨ ∃ idx, info = .relSlice ch id idx

/-- effect on channel `ch` of acknowledging the packets `L`, all recorded in `S` -/
structure ChanEff (S : SMap (Nat × SentInfo)) (L : List Nat) (ch : Nat) (s s' : SendRel) : Prop where
  gone : ∀ id, find? s.unacked id = none → find? s'.unacked id = none
  just : ∀ id, find? s.unacked id ≠ none → find? s'.unacked id = none →
    ∃ seq ∈ L, ∃ t info, find? S seq = some (t, info) ∧ Names info ch id
  memLe : s'.mem ≤ s.mem
  maxMem : s'.maxMem = s.maxMem
  memLt : s'.mem < s.mem → ∃ id, find? s.unacked id ≠ none ∧ find? s'.unacked id = none
  pend : ∀ id i, s.Pending id i → s'.Pending id i ∨ ∃ seq ∈ L, ∃ t, find? S seq = some (t, .relSlice ch id i)

theorem ChanEff.refl (S : SMap (Nat × SentInfo)) (L : List Nat) (ch : Nat) (s : SendRel) : ChanEff S L ch s s :=
  ⟨fun _ h => h, fun _ h1 h2 => absurd h2 h1, Nat.le_refl _, rfl, fun h => absurd h (Nat.lt_irrefl _), fun _ _ h => Or.inl h⟩

theorem ChanEff.trans {S S' : SMap (Nat × SentInfo)} {L1 L2 : List Nat} {ch : Nat} {a b c : SendRel}
    (hS : ∀ k v, find? S' k = some v → find? S k = some v)
    (h1 : ChanEff S L1 ch a b) (h2 : ChanEff S' L2 ch b c) : ChanEff S (L1 ++ L2) ch a c := by
  refine ⟨fun id h => h2.gone id (h1.gone id h), ?_, Nat.le_trans h2.memLe h1.memLe, h2.maxMem.trans h1.maxMem, ?_, ?_⟩
  · intro id hin hout
    by_cases c1 : find? b.unacked id = none
    · obtain ⟨seq, hs, t, info, hf, hn⟩ := h1.just id hin c1
      exact ⟨seq, List.mem_append_left _ hs, t, info, hf, hn⟩
    · obtain ⟨seq, hs, t, info, hf, hn⟩ := h2.just id c1 hout
      exact ⟨seq, List.mem_append_right _ hs, t, info, hS _ _ hf, hn⟩
  · intro hlt
    by_cases c1 : b.mem < a.mem
    · obtain ⟨id, i1, i2⟩ := h1.memLt c1
      exact ⟨id, i1, h2.gone id i2⟩
    · obtain ⟨id, i1, i2⟩ := h2.memLt (by omega)
      exact ⟨id, fun hn => i1 (h1.gone id hn), i2⟩
  · intro id i hp
    rcases h1.pend id i hp with hp1 | ⟨seq, hs, t, hf⟩
    · rcases h2.pend id i hp1 with hp2 | ⟨seq, hs, t, hf⟩
      · exact Or.inl hp2
      · exact Or.inr ⟨seq, List.mem_append_right _ hs, t, hS _ _ hf⟩
    · exact Or.inr ⟨seq, List.mem_append_left _ hs, t, hf⟩

/-- effect of the ack branch on the whole connection -/
structure ConnEff (S : SMap (Nat × SentInfo)) (L : List Nat) (c c' : Conn) : Prop where
  chan : ∀ ch s, find? c.sendRel ch = some s → ∃ s', find? c'.sendRel ch = some s' ∧ ChanEff S L ch s s'
  nochan : ∀ ch, find? c.sendRel ch = none → find? c'.sendRel ch = none
  acksWF : Acks.WF c.pendingAcks → Acks.WF c'.pendingAcks
  acksSub : ∀ x, Acks.Mem x c'.pendingAcks → Acks.Mem x c.pendingAcks
  frame : c'.recvRel = c.recvRel ∧ c'.recvUnrel = c.recvUnrel ∧ c'.status = c.status ∧ c'.now = c.now ∧
    c'.budget = c.budget ∧ c'.packetSeq = c.packetSeq ∧ c'.order = c.order ∧ c'.sendUnrel = c.sendUnrel

theorem ConnEff.refl (S : SMap (Nat × SentInfo)) (L : List Nat) (c : Conn) : ConnEff S L c c :=
  ⟨fun _ s h => ⟨s, h, ChanEff.refl _ _ _ _⟩, fun _ h => h, fun h => h, fun _ h => h, rfl, rfl, rfl, rfl, rfl, rfl, rfl, rfl⟩

theorem ConnEff.trans {S S' : SMap (Nat × SentInfo)} {L1 L2 : List Nat} {a b c : Conn}
    (hS : ∀ k v, find? S' k = some v → find? S k = some v)
    (h1 : ConnEff S L1 a b) (h2 : ConnEff S' L2 b c) : ConnEff S (L1 ++ L2) a c := by
  refine ⟨?_, fun ch h => h2.nochan ch (h1.nochan ch h), fun h => h2.acksWF (h1.acksWF h),
    fun x h => h1.acksSub x (h2.acksSub x h), ?_⟩
  · intro ch s hs
    obtain ⟨s1, hs1, e1⟩ := h1.chan ch s hs
    obtain ⟨s2, hs2, e2⟩ := h2.chan ch s1 hs1
    exact ⟨s2, hs2, e1.trans hS e2⟩
  · obtain ⟨a1, a2, a3, a4, a5, a6, a7, a8⟩ := h1.frame
    obtain ⟨b1, b2, b3, b4, b5, b6, b7, b8⟩ := h2.frame
    exact ⟨b1.trans a1, b2.trans a2, b3.trans a3, b4.trans a4, b5.trans a5, b6.trans a6, b7.trans a7, b8.trans a8⟩

/-- updating one channel: effect on the connection from the effect on that channel -/
theorem ConnEff.ofChan {S : SMap (Nat × SentInfo)} {L : List Nat} {c : Conn} {sent' : SMap (Nat × SentInfo)} {ch : Nat}
    {s s' : SendRel} (hf : find? c.sendRel ch = some s) (he : ChanEff S L ch s s') :
    ConnEff S L c { c with sent := sent', sendRel := SMap.insert c.sendRel ch s' } := by
  refine ⟨?_, ?_, fun h => h, fun _ h => h, rfl, rfl, rfl, rfl, rfl, rfl, rfl, rfl⟩
  · intro ch' s0 h0
    dsimp only
    rw [find?_insert]
    by_cases cc : ch = ch'
    · subst cc; rw [hf] at h0; cases h0; rw [if_pos rfl]; exact ⟨s', rfl, he⟩
    · rw [if_neg cc]; exact ⟨s0, h0, ChanEff.refl _ _ _ _⟩
  · intro ch' h0
    dsimp only
    rw [find?_insert]
    by_cases cc : ch = ch'
    · subst cc; rw [hf] at h0; cases h0
    · rw [if_neg cc]; exact h0

theorem _root_.RenetVerif.Conn.SendInv.eraseSent {c : Conn} (h : c.SendInv) (seq : Nat) : ({ c with sent := erase c.sent seq } : Conn).SendInv :=
  ⟨h.chans, sorted_erase _ h.sentSorted, fun x hx => h.sentOK x (mem_erase hx), h.order⟩

/-- **one acknowledged packet**: under the invariant `ackOne` never panics on a recorded sequence number -/
theorem Conn.ackOne_spec {c : Conn} (h : c.SendInv) {seq : Nat} (hin : ∃ v, find? c.sent seq = some v) :
    ∃ c', Conn.ackOne c seq = .ok c' ∧ c'.SendInv ∧ c'.sent = erase c.sent seq ∧ ConnEff c.sent [seq] c c' := by
  obtain ⟨⟨t, info⟩, hv⟩ := hin
  have hinfo := (h.sentOK _ (find?_some_mem hv)).2
  simp only at hinfo
  have h1 := h.eraseSent seq
  unfold Conn.ackOne
  rw [hv]
  simp only
  cases info with
  | none =>
    exact ⟨_, rfl, h1, rfl, ⟨fun ch s hs => ⟨s, hs, ChanEff.refl _ _ _ _⟩, fun _ h => h, fun h => h, fun _ h => h,
      rfl, rfl, rfl, rfl, rfl, rfl, rfl, rfl⟩⟩
  | ack largest =>
    exact ⟨_, rfl, h1.same ⟨rfl, rfl, rfl, rfl, rfl⟩, rfl, ⟨fun ch s hs => ⟨s, hs, ChanEff.refl _ _ _ _⟩, fun _ h => h,
      fun hw => Acks.ackedLargest_wf _ _ hw, fun x hx => Acks.ackedLargest_mem_sub _ _ x hx,
      rfl, rfl, rfl, rfl, rfl, rfl, rfl, rfl⟩⟩
  | relMsgs ch ids =>
    obtain ⟨s, hf, hok⟩ := hinfo ch rfl
    simp only [hf]
    obtain ⟨hinv, hch⟩ := h.chans ch s hf
    obtain ⟨s', e, i1, st, as⟩ := Conn.ackMsgLoop_spec ids hinv hok
    rw [e]
    refine ⟨_, rfl, h1.updateChan hf i1 st, rfl, ConnEff.ofChan hf ⟨as.gone, ?_, as.memLe, st.2.1, as.memLt, fun id i hp => Or.inl (as.pend id i hp)⟩⟩
    intro id hin hout
    refine ⟨seq, by simp, t, _, hv, Or.inl ⟨ids, rfl, ?_⟩⟩
    apply Classical.byContradiction
    intro hni
    rw [as.others id hni] at hout
    exact hin hout
  | relSlice ch id idx =>
    obtain ⟨s, hf, hok⟩ := hinfo ch rfl
    simp only [hf]
    obtain ⟨hinv, hch⟩ := h.chans ch s hf
    obtain ⟨s', e, i1, st, -⟩ := SendRel.processSliceAck_spec hinv id idx hok.2
    obtain ⟨as, pe⟩ := SendRel.processSliceAck_step hinv hok.2 e
    rw [e]
    refine ⟨_, rfl, h1.updateChan hf i1 st, rfl, ConnEff.ofChan hf ⟨as.gone, ?_, as.memLe, st.2.1, ?_, ?_⟩⟩
    · intro id' hin hout
      refine ⟨seq, by simp, t, _, hv, Or.inr ⟨idx, ?_⟩⟩
      by_cases cc : id' = id
      · rw [cc]
      · rw [as.others id' cc] at hout; exact absurd hout hin
    · intro hlt
      obtain ⟨⟨u, hu⟩, hn⟩ := as.memLt hlt
      exact ⟨id, by rw [hu]; simp, hn⟩
    · intro id' i hp
      rcases pe id' i hp with ⟨rfl, rfl⟩ | hp'
      · exact Or.inr ⟨seq, by simp, t, hv⟩
      · exact Or.inl hp'

/-- **the whole ack loop** never panics when the list has no duplicates and names recorded packets -/
theorem Conn.ackLoop_spec : ∀ (L : List Nat) {c : Conn}, c.SendInv → L.Nodup → (∀ x ∈ L, ∃ v, find? c.sent x = some v) →
    ∃ c', Conn.ackLoop c L = .ok c' ∧ c'.SendInv ∧ ConnEff c.sent L c c' ∧
      (∀ k v, find? c'.sent k = some v → find? c.sent k = some v)
  | [], c, h, _, _ => ⟨c, rfl, h, ConnEff.refl _ _ _, fun _ _ h => h⟩
  | seq :: rest, c, h, hnd, hin => by
    obtain ⟨c1, e1, i1, hs1, eff1⟩ := Conn.ackOne_spec h (hin seq (by simp))
    rw [List.nodup_cons] at hnd
    have hmono : ∀ k v, find? c1.sent k = some v → find? c.sent k = some v := by
      intro k v hk
      rw [hs1] at hk
      exact (find?_erase_some h.sentSorted hk).2
    have hin1 : ∀ x ∈ rest, ∃ v, find? c1.sent x = some v := by
      intro x hx
      obtain ⟨v, hv⟩ := hin x (List.mem_cons_of_mem _ hx)
      refine ⟨v, ?_⟩
      rw [hs1, find?_erase_ne _ (by intro e; subst e; exact hnd.1 hx)]
      exact hv
    obtain ⟨c', e2, i2, eff2, m2⟩ := Conn.ackLoop_spec rest i1 hnd.2 hin1
    refine ⟨c', ?_, i2, eff1.trans hmono eff2, fun k v hk => hmono k v (m2 k v hk)⟩
    simp only [Conn.ackLoop, e1, Res.bind_ok]; exact e2



/-! ### process_packet -/

theorem Conn.same_dw {c c2 : Conn} {X : List AckRange} (r : Reason) (h1 : c.SendSame c2) (h2 : c2.pendingAcks = X) :
    c.SendSame (c2.disconnectWith r) ∧ (c2.disconnectWith r).pendingAcks = X := by
  obtain ⟨a, b, -, -⟩ := c2.disconnectWith_same r
  exact ⟨h1.trans a, b.trans h2⟩

/-- the three ways `process_packet` can return normally -/
theorem Conn.processPacket_cases {c c' : Conn} {bytes : Bytes} (hr : c.processPacket bytes = .ok c') :
    (c.SendSame c' ∧ c'.pendingAcks = c.pendingAcks ∧ (c.isDisconnected = true ∨ ∃ e, Packet.fromBytes bytes = .error e)) ∨
    (∃ p, Packet.fromBytes bytes = .ok p ∧ isAckPkt p = false ∧ c.SendSame c' ∧
      c'.pendingAcks = Acks.add ACK_RANGE_CAP p.sequence c.pendingAcks) ∨
    (∃ aseq ranges L, c.isDisconnected = false ∧ Packet.fromBytes bytes = .ok (.ack aseq ranges) ∧
      Conn.newAcks c.sent ranges = .ok L ∧
      Conn.ackLoop { c with pendingAcks := Acks.add ACK_RANGE_CAP aseq c.pendingAcks } L = .ok c') := by
  unfold Conn.processPacket at hr
  split at hr
  · cases hr; exact Or.inl ⟨Conn.SendSame.refl _, rfl, Or.inl ‹_›⟩
  · rename_i hdis
    split at hr
    · rename_i e he
      cases hr
      obtain ⟨a, b, -, -⟩ := c.disconnectWith_same (.packetDeser e)
      exact Or.inl ⟨a, b, Or.inr ⟨e, he⟩⟩
    · rename_i p hp
      dsimp only at hr
      have base : c.SendSame { c with pendingAcks := Acks.add ACK_RANGE_CAP p.sequence c.pendingAcks } := ⟨rfl, rfl, rfl, rfl, rfl⟩
      split at hr
      iterate 4
        · refine Or.inr (Or.inl ⟨_, hp, rfl, ?_⟩)
          repeat' (first | (cases hr; done) | split at hr)
          all_goals (simp only [Res.ok.injEq] at hr; subst hr)
          all_goals first
            | exact ⟨⟨rfl, rfl, rfl, rfl, rfl⟩, rfl⟩
            | exact Conn.same_dw _ ⟨rfl, rfl, rfl, rfl, rfl⟩ rfl
      · rename_i aseq ranges
        refine Or.inr (Or.inr ⟨aseq, ranges, ?_⟩)
        cases hn : Conn.newAcks c.sent ranges with
        | ok L =>
          rw [hn] at hr
          simp only [Res.bind_ok] at hr
          exact ⟨L, by simpa using hdis, hp, rfl, hr⟩
        | err e => exact e.elim
        | panic s => rw [hn] at hr; cases hr

theorem Conn.processPacket_ack_eq {c : Conn} {bytes : Bytes} {aseq : Nat} {ranges : List AckRange}
    (hd : c.isDisconnected = false) (hp : Packet.fromBytes bytes = .ok (.ack aseq ranges)) :
    c.processPacket bytes =
      (Conn.newAcks c.sent ranges >>= fun L =>
        Conn.ackLoop { c with pendingAcks := Acks.add ACK_RANGE_CAP aseq c.pendingAcks } L) := by
  unfold Conn.processPacket
  rw [hd, hp]
  rfl

/-- **the ack branch never panics** and re-establishes the invariant, for any ack packet the decoder accepts -/
theorem Conn.processPacket_ack_spec {c : Conn} {bytes : Bytes} {aseq : Nat} {ranges : List AckRange} (h : c.SendInv)
    (hd : c.isDisconnected = false) (hp : Packet.fromBytes bytes = .ok (.ack aseq ranges)) :
    ∃ L c', Conn.newAcks c.sent ranges = .ok L ∧ c.processPacket bytes = .ok c' ∧ c'.SendInv ∧
      ConnEff c.sent L { c with pendingAcks := Acks.add ACK_RANGE_CAP aseq c.pendingAcks } c' ∧
      (∀ x ∈ L, (∃ v, find? c.sent x = some v) ∧ Acks.Mem x ranges) ∧
      (∀ k v, find? c'.sent k = some v → find? c.sent k = some v) := by
  have hw := fromBytes_ack_wf hp
  obtain ⟨L, hL, hnd, hmem⟩ := Conn.newAcks_spec h.sentSorted ranges hw
  have h1 : ({ c with pendingAcks := Acks.add ACK_RANGE_CAP aseq c.pendingAcks } : Conn).SendInv :=
    h.same ⟨rfl, rfl, rfl, rfl, rfl⟩
  obtain ⟨c', e, i, eff, mono⟩ := Conn.ackLoop_spec L h1 hnd (fun x hx => (hmem x hx).1)
  refine ⟨L, c', hL, ?_, i, eff, hmem, mono⟩
  rw [Conn.processPacket_ack_eq hd hp, hL]
  exact e

/-- `SendInv` is preserved by `process_packet` for every byte string -/
theorem Conn.processPacket_inv {c c' : Conn} {bytes : Bytes} (h : c.SendInv) (hr : c.processPacket bytes = .ok c') :
    c'.SendInv := by
  rcases Conn.processPacket_cases hr with ⟨hs, -, -⟩ | ⟨p, -, -, hs, -⟩ | ⟨aseq, ranges, L, hd, hp, -, -⟩
  · exact h.same hs
  · exact h.same hs
  · obtain ⟨L', c2, -, e, i, -⟩ := Conn.processPacket_ack_spec h hd hp
    rw [e] at hr; cases hr; exact i

/-- receive-side sub-steps of `process_packet` (proved panic-free in Lemmas/RecvInv under the receive invariants) -/
def RecvNoPanic (c : Conn) : Packet → Prop
  | .smallReliable _ ch msgs => ∀ r, find? c.recvRel ch = some r → ∀ s, Conn.relMsgLoop r msgs ≠ .panic s
  | .reliableSlice _ ch sl => ∀ r, find? c.recvRel ch = some r → ∀ s, r.processSlice sl ≠ .panic s
  | .unreliableSlice _ ch sl => ∀ r, find? c.recvUnrel ch = some r → ∀ s, r.processSlice sl c.now ≠ .panic s
  | _ => True

/-- composition: if the receive-side sub-steps do not panic then `process_packet` does not panic -/
theorem Conn.processPacket_no_panic {c : Conn} {bytes : Bytes} (h : c.SendInv)
    (hrecv : ∀ p, Packet.fromBytes bytes = .ok p → RecvNoPanic c p) : ∃ c', c.processPacket bytes = .ok c' := by
  cases hd : c.isDisconnected with
  | true => exact ⟨c, by unfold Conn.processPacket; rw [hd]; rfl⟩
  | false =>
    cases hp : Packet.fromBytes bytes with
    | error e => exact ⟨_, by unfold Conn.processPacket; rw [hd, hp]; rfl⟩
    | ok p =>
      have hr := hrecv p hp
      cases p with
      | ack aseq ranges =>
        obtain ⟨L, c', -, e, -⟩ := Conn.processPacket_ack_spec h hd hp
        exact ⟨c', e⟩
      | smallReliable seq ch msgs =>
        unfold Conn.processPacket; rw [hd, hp]
        simp only [Bool.false_eq_true, if_false]
        cases hf : find? c.recvRel ch with
        | none => exact ⟨_, rfl⟩
        | some r =>
          simp only
          cases hl : Conn.relMsgLoop r msgs with
          | ok r' => exact ⟨_, rfl⟩
          | err e => exact ⟨_, rfl⟩
          | panic s => exact absurd hl (hr r hf s)
      | smallUnreliable seq ch msgs =>
        unfold Conn.processPacket; rw [hd, hp]
        simp only [Bool.false_eq_true, if_false]
        cases hf : find? c.recvUnrel ch with
        | none => exact ⟨_, rfl⟩
        | some r => exact ⟨_, rfl⟩
      | reliableSlice seq ch sl =>
        unfold Conn.processPacket; rw [hd, hp]
        simp only [Bool.false_eq_true, if_false]
        cases hf : find? c.recvRel ch with
        | none => exact ⟨_, rfl⟩
        | some r =>
          simp only
          cases hl : r.processSlice sl with
          | ok r' => exact ⟨_, rfl⟩
          | err e => exact ⟨_, rfl⟩
          | panic s => exact absurd hl (hr r hf s)
      | unreliableSlice seq ch sl =>
        unfold Conn.processPacket; rw [hd, hp]
        simp only [Bool.false_eq_true, if_false]
        cases hf : find? c.recvUnrel ch with
        | none => exact ⟨_, rfl⟩
        | some r =>
          simp only
          cases hl : r.processSlice sl c.now with
          | ok r' => exact ⟨_, rfl⟩
          | err e => exact ⟨_, rfl⟩
          | panic s => exact absurd hl (hr r hf s)

/-- hostile ack packets / undecodable datagrams never panic -/
theorem Conn.processPacket_no_panic_ack {c : Conn} {bytes : Bytes} (h : c.SendInv)
    (hk : (∃ e, Packet.fromBytes bytes = .error e) ∨ ∃ aseq ranges, Packet.fromBytes bytes = .ok (.ack aseq ranges)) :
    ∃ c', c.processPacket bytes = .ok c' := by
  apply Conn.processPacket_no_panic h
  intro p hp
  rcases hk with ⟨e, he⟩ | ⟨aseq, ranges, ha⟩
  · rw [he] at hp; cases hp
  · rw [ha] at hp; cases hp; trivial

/-- per-channel effect of any successful `process_packet` -/
theorem Conn.processPacket_eff {c c' : Conn} {bytes : Bytes} (h : c.SendInv) (hr : c.processPacket bytes = .ok c') :
    (c'.sendRel = c.sendRel) ∨
    ∃ aseq ranges L, Packet.fromBytes bytes = .ok (.ack aseq ranges) ∧
      (∀ x ∈ L, Acks.Mem x ranges) ∧
      ∀ ch s, find? c.sendRel ch = some s → ∃ s', find? c'.sendRel ch = some s' ∧ ChanEff c.sent L ch s s' := by
  rcases Conn.processPacket_cases hr with ⟨hs, -, -⟩ | ⟨p, -, -, hs, -⟩ | ⟨aseq, ranges, L, hd, hp, -, -⟩
  · exact Or.inl hs.1
  · exact Or.inl hs.1
  · obtain ⟨L', c2, -, e, -, eff, hmem, -⟩ := Conn.processPacket_ack_spec h hd hp
    rw [e] at hr; cases hr
    exact Or.inr ⟨aseq, ranges, L', hp, fun x hx => (hmem x hx).2, fun ch s hs => eff.chan ch s hs⟩

/-- pending acks after `process_packet`: a subset of the old ones plus the sequence number just parsed -/
theorem Conn.processPacket_acks {c c' : Conn} {bytes : Bytes} (h : c.SendInv) (hw : Acks.WF c.pendingAcks)
    (hr : c.processPacket bytes = .ok c') :
    Acks.WF c'.pendingAcks ∧
    ∀ x, Acks.Mem x c'.pendingAcks → Acks.Mem x c.pendingAcks ∨ ∃ p, Packet.fromBytes bytes = .ok p ∧ x = p.sequence := by
  rcases Conn.processPacket_cases hr with ⟨-, hs, -⟩ | ⟨p, hp, -, -, hs⟩ | ⟨aseq, ranges, L, hd, hp, -, -⟩
  · rw [hs]; exact ⟨hw, fun x hx => Or.inl hx⟩
  · rw [hs]
    refine ⟨Acks.add_wf _ _ _ hw, fun x hx => ?_⟩
    rcases Acks.add_mem_sub _ _ _ hw x hx with h1 | h1
    · exact Or.inl h1
    · exact Or.inr ⟨p, hp, h1⟩
  · obtain ⟨L', c2, -, e, -, eff, -, -⟩ := Conn.processPacket_ack_spec h hd hp
    rw [e] at hr; cases hr
    refine ⟨eff.acksWF (Acks.add_wf _ _ _ hw), fun x hx => ?_⟩
    have := eff.acksSub x hx
    dsimp only at this
    rcases Acks.add_mem_sub _ _ _ hw x this with h1 | h1
    · exact Or.inl h1
    · exact Or.inr ⟨_, hp, h1⟩



/-! ## Part 4 : derived statements -/

theorem foldl_insert_find {α β : Type} (key : β → Nat) (val : β → α) : ∀ (l : List β) (m0 : SMap α) (k : Nat) (v : α),
    find? (l.foldl (fun m c => SMap.insert m (key c) (val c)) m0) k = some v →
    find? m0 k = some v ∨ ∃ c ∈ l, key c = k ∧ val c = v
  | [], _, _, _, h => Or.inl h
  | c :: l, m0, k, v, h => by
    simp only [List.foldl_cons] at h
    rcases foldl_insert_find key val l _ k v h with h1 | ⟨c', hc', h2⟩
    · rw [find?_insert] at h1
      by_cases e : key c = k
      · rw [if_pos e] at h1
        simp only [Option.some.injEq] at h1
        exact Or.inr ⟨c, by simp, e, h1⟩
      · rw [if_neg e] at h1; exact Or.inl h1
    · exact Or.inr ⟨c', List.mem_cons_of_mem _ hc', h2⟩

theorem foldl_insert_isSome {α β : Type} (key : β → Nat) (val : β → α) : ∀ (l : List β) (m0 : SMap α) (k : Nat),
    ((find? m0 k).isSome = true ∨ ∃ c ∈ l, key c = k) →
    (find? (l.foldl (fun m c => SMap.insert m (key c) (val c)) m0) k).isSome = true
  | [], m0, k, h => by
    rcases h with h | ⟨c, hc, _⟩
    · exact h
    · cases hc
  | c :: l, m0, k, h => by
    simp only [List.foldl_cons]
    apply foldl_insert_isSome key val l
    rcases h with h | ⟨c', hc', e⟩
    · left
      rw [find?_insert]
      split
      · rfl
      · exact h
    · simp only [List.mem_cons] at hc'
      rcases hc' with rfl | hc'
      · left; rw [find?_insert, if_pos e]; rfl
      · exact Or.inr ⟨c', hc', e⟩

/-- the invariant holds for every freshly configured connection (any channel configuration, duplicates included) -/
theorem Conn.fromChannels_inv (budget : Nat) (send recv : List ChanCfg) : (Conn.fromChannels budget send recv).SendInv := by
  refine ⟨?_, sorted_nil, fun x hx => (by cases hx), ?_⟩
  · intro ch s hf
    simp only [Conn.fromChannels] at hf
    rcases foldl_insert_find (fun c : ChanCfg => c.id) (fun c => SendRel.new c.id c.resend c.maxMem) _ _ ch s hf with h | ⟨c, -, h1, h2⟩
    · cases h
    · subst h2; exact ⟨SendRel.new_inv _ _ _, h1⟩
  · intro x hx
    simp only [Conn.fromChannels, List.mem_map] at hx
    obtain ⟨cfg, hcfg, rfl⟩ := hx
    dsimp only
    split
    · rename_i hb
      simp only [Conn.fromChannels]
      exact foldl_insert_isSome (fun c : ChanCfg => c.id) (fun c => SendRel.new c.id c.resend c.maxMem) _ _ _
        (Or.inr ⟨cfg, List.mem_filter.mpr ⟨hcfg, hb⟩, rfl⟩)
    · rename_i hb
      simp only [Conn.fromChannels]
      refine foldl_insert_isSome (fun c : ChanCfg => c.id) (fun c => SendUnrel.new c.id c.maxMem) _ _ _
        (Or.inr ⟨cfg, List.mem_filter.mpr ⟨hcfg, ?_⟩, rfl⟩)
      simpa [bne] using hb

theorem Conn.fromChannels_acks (budget : Nat) (send recv : List ChanCfg) :
    Acks.WF (Conn.fromChannels budget send recv).pendingAcks := trivial

/-- what `get_packets_to_send` does to the send side, whenever it returns -/
theorem Conn.getPacketsToSend_spec {c c' : Conn} {out : List Bytes} (h : c.SendInv) (hw : Acks.WF c.pendingAcks)
    (hr : c.getPacketsToSend = .ok (c', out)) :
    c'.SendInv ∧ c'.pendingAcks = c.pendingAcks ∧ SRGet c.sendRel c'.sendRel ∧ c.packetSeq ≤ c'.packetSeq := by
  cases hd : c.isDisconnected with
  | true =>
    unfold Conn.getPacketsToSend at hr
    rw [hd] at hr
    simp only [if_true, Res.ok.injEq, Prod.mk.injEq] at hr
    obtain ⟨rfl, -⟩ := hr
    exact ⟨h, rfl, SRGet.refl _, Nat.le_refl _⟩
  | false =>
    obtain ⟨c1, pk0, seq0, e, i, -, a, g, sq, -⟩ := Conn.getPacketsToSend_char h hw hd
    rw [e] at hr
    split at hr
    · simp only [Res.ok.injEq, Prod.mk.injEq] at hr
      obtain ⟨rfl, -⟩ := hr
      exact ⟨i, a, g, sq⟩
    · simp only [Res.ok.injEq, Prod.mk.injEq] at hr
      obtain ⟨rfl, -⟩ := hr
      obtain ⟨s1, s2, -, -⟩ := Conn.disconnectWith_same c1 (.packetSer ‹_›)
      exact ⟨i.same s1, s2.trans a, s1.1 ▸ g, s1.2.2.2.1 ▸ sq⟩
    · cases hr

/-- per-channel view of `SRGet`: nothing is released, nothing is un-marked, memory is unchanged -/
theorem SRGet.keeps {sr sr' : SMap SendRel} (hg : SRGet sr sr') {ch : Nat} {s : SendRel} (hs : find? sr ch = some s) :
    ∃ s', find? sr' ch = some s' ∧ s'.mem = s.mem ∧ s'.maxMem = s.maxMem ∧
      (∀ id, SMap.contains s'.unacked id = SMap.contains s.unacked id) ∧ (∀ id i, s.Pending id i → s'.Pending id i) := by
  have := hg.1.1 ch
  rw [hs] at this
  cases hb : find? sr' ch with
  | none => rw [hb] at this; cases this
  | some s' =>
    obtain ⟨a1, a2⟩ := hg.2 ch s s' hs hb
    exact ⟨s', rfl, a2, (hg.1.2 ch s s' hs hb).2.1, fun id => a1.contains id, fun id i hp => a1.pending hp⟩

/-- on a live connection with pending acks, the packets handed to serialisation end with an ack packet
    whose ranges are exactly the pending list; all other packets are not ack packets -/
theorem Conn.getPacketsToSend_ack {c c' : Conn} {out : List Bytes} (h : c.SendInv) (hw : Acks.WF c.pendingAcks)
    (hd : c.isDisconnected = false) (hne : c.pendingAcks ≠ []) (hr : c.getPacketsToSend = .ok (c', out)) :
    ∃ pk0 seq0, (∀ p ∈ pk0, isAckPkt p = false) ∧
      (Conn.serialiseAll (pk0 ++ [Packet.ack seq0 c.pendingAcks]) = .ok out ∨
       ∃ e, Conn.serialiseAll (pk0 ++ [Packet.ack seq0 c.pendingAcks]) = .err e ∧ out = []) := by
  obtain ⟨c1, pk0, seq0, e, -, na, -⟩ := Conn.getPacketsToSend_char h hw hd
  have hemp : c.pendingAcks.isEmpty = false := by
    cases hl : c.pendingAcks with
    | nil => exact absurd hl hne
    | cons a t => rfl
  rw [e, hemp] at hr
  simp only [Bool.false_eq_true, if_false] at hr
  refine ⟨pk0, seq0, na, ?_⟩
  split at hr
  · rename_i bs hbs
    simp only [Res.ok.injEq, Prod.mk.injEq] at hr
    exact Or.inl (hr.2 ▸ hbs)
  · rename_i e1 he1
    simp only [Res.ok.injEq, Prod.mk.injEq] at hr
    exact Or.inr ⟨e1, he1, hr.2.symm⟩
  · cases hr

/-! ### what goes on the wire for the pending acks -/

theorem serialiseAll_append_ok : ∀ (a : List Packet) (p : Packet) (out : List Bytes),
    Conn.serialiseAll (a ++ [p]) = .ok out →
    ∃ bs b, out = bs ++ [b] ∧ p.toBytes SER_BUFFER = .ok b ∧ Conn.serialiseAll a = .ok bs
  | [], p, out, h => by
    simp only [List.nil_append, Conn.serialiseAll] at h
    cases hb : p.toBytes SER_BUFFER with
    | ok b =>
      rw [hb] at h
      simp only [Res.bind_ok, Res.pure_eq, Res.ok.injEq] at h
      exact ⟨[], b, by rw [← h]; rfl, rfl, rfl⟩
    | err e => rw [hb] at h; cases h
    | panic s => rw [hb] at h; cases h
  | q :: a, p, out, h => by
    simp only [List.cons_append, Conn.serialiseAll] at h
    cases hb : q.toBytes SER_BUFFER with
    | ok b0 =>
      rw [hb] at h
      simp only [Res.bind_ok] at h
      cases hrest : Conn.serialiseAll (a ++ [p]) with
      | ok bs0 =>
        rw [hrest] at h
        simp only [Res.bind_ok, Res.pure_eq, Res.ok.injEq] at h
        obtain ⟨bs, b, e1, e2, e3⟩ := serialiseAll_append_ok a p bs0 hrest
        refine ⟨b0 :: bs, b, by rw [← h, e1]; rfl, e2, ?_⟩
        simp only [Conn.serialiseAll, hb, e3, Res.bind_ok, Res.pure_eq]
      | err e => rw [hrest] at h; cases h
      | panic s => rw [hrest] at h; cases h
    | err e => rw [hb] at h; cases h
    | panic s => rw [hb] at h; cases h

theorem Acks.wf_le_last : ∀ {l : List AckRange}, Acks.WF l → ∀ x, l.getLast? = some x → ∀ r ∈ l, r.2 ≤ x.2
  | [], _, _, _, _, hr => by cases hr
  | [a], _, x, hx, r, hr => by
    simp only [List.getLast?_singleton, Option.some.injEq] at hx
    simp only [List.mem_singleton] at hr
    subst hx hr; exact Nat.le_refl _
  | a :: b :: t, hw, x, hx, r, hr => by
    rw [Acks.wf_cons_iff] at hw
    have hx' : (b :: t).getLast? = some x := by simpa using hx
    have ih := Acks.wf_le_last hw.2.1 x hx'
    simp only [List.mem_cons] at hr
    rcases hr with rfl | hr
    · have h1 := hw.2.2 b rfl
      have h2 := Acks.wf_pos hw.2.1 b (by simp)
      have h3 := ih b (by simp)
      omega
    · exact ih r (by simpa using hr)

theorem enc_ack_bounds {seq : Nat} {l : List AckRange} {b : Bytes} (h : (Packet.ack seq l).enc = .ok b) :
    seq ≤ Varint.MAX ∧ ∃ x, l.getLast? = some x ∧ x.2 - 1 ≤ Varint.MAX := by
  simp only [Packet.enc] at h
  by_cases hs : seq ≤ Varint.MAX
  · refine ⟨hs, ?_⟩
    rw [putVarint_ok hs] at h
    simp only [Res.bind_ok] at h
    cases hr : l.reverse with
    | nil => rw [hr] at h; cases h
    | cons x d =>
      obtain ⟨ls, le⟩ := x
      rw [hr] at h
      simp only at h
      have hlast : l.getLast? = some (ls, le) := by
        rw [← List.head?_reverse, hr]; rfl
      refine ⟨(ls, le), hlast, ?_⟩
      by_cases h1 : 1 ≤ le
      · by_cases h2 : ls ≤ le - 1
        · by_cases h3 : le - 1 ≤ Varint.MAX
          · exact h3
          · simp [Res.csub, h1, h2, putVarint, h3] at h
        · simp [Res.csub, h1, h2] at h
      · simp [Res.csub, h1] at h
  · simp [putVarint, hs] at h

/-- whenever the ack packet built from a well-formed pending list fits the buffer, what is put on the wire
    decodes to exactly that list -/
theorem wire_ack_decodes {cap seq : Nat} {l : List AckRange} {b : Bytes} (hw : Acks.WF l) (hne : l ≠ [])
    (h : (Packet.ack seq l).toBytes cap = .ok b) : Packet.fromBytes b = .ok (.ack seq l) := by
  unfold Packet.toBytes at h
  cases he : (Packet.ack seq l).enc with
  | err e => rw [he] at h; cases h
  | panic s => rw [he] at h; cases h
  | ok b0 =>
    rw [he] at h
    simp only [Res.bind_ok] at h
    split at h
    · simp only [Res.pure_eq, Res.ok.injEq] at h
      subst h
      obtain ⟨hs, x, hx, hx2⟩ := enc_ack_bounds he
      have hb : ∀ r ∈ l, r.2 ≤ Varint.MAX + 1 := by
        intro r hr
        have := Acks.wf_le_last hw x hx r hr
        omega
      obtain ⟨b', hb', hd⟩ := Packet.fromBytes_enc (.ack seq l) ⟨hs, Acks.ackWF_of_wf l hne hw hb⟩
      rw [he] at hb'; cases hb'
      exact hd
    · cases h

/-- **the acknowledgement put on the wire denotes exactly the pending list** -/
theorem Conn.getPacketsToSend_wire_ack {c c' : Conn} {out : List Bytes} (h : c.SendInv) (hw : Acks.WF c.pendingAcks)
    (hd : c.isDisconnected = false) (hne : c.pendingAcks ≠ []) (hr : c.getPacketsToSend = .ok (c', out))
    (hout : out ≠ []) :
    ∃ seq0 b, out.getLast? = some b ∧ Packet.fromBytes b = .ok (.ack seq0 c.pendingAcks) := by
  obtain ⟨pk0, seq0, -, hs⟩ := Conn.getPacketsToSend_ack h hw hd hne hr
  rcases hs with hs | ⟨e, -, he⟩
  · obtain ⟨bs, b, e1, e2, -⟩ := serialiseAll_append_ok pk0 _ out hs
    refine ⟨seq0, b, by rw [e1]; simp, wire_ack_decodes hw hne e2⟩
  · exact absurd he hout

end SI
end RenetVerif
