import RenetVerif.Lemmas.NcTable
namespace RenetVerif.Netcode
namespace NS
open RenetVerif

/-! ## Part 3 : `process_packet` -/

/-- the MAC of a private connect token: its last 16 bytes -/
def tokenMac (data : Bytes) : Bytes := data.drop (C.NETCODE_CONNECT_TOKEN_PRIVATE_BYTES - C.NETCODE_MAC_BYTES)

/-- the half-open session `handle_connection_request` stores for a token `t` presented from `addr` -/
def mkPending (now : Nat) (addr : Addr) (expire : Nat) (t : PrivateConnectToken) : Connection :=
  { confirmed := false, sequence := 0, clientId := t.clientId
    lastPacketReceivedTime := now, lastPacketSendTime := now, addr
    state := .pendingResponse, sendKey := t.serverToClientKey
    receiveKey := t.clientToServerKey, timeoutSeconds := t.timeoutSeconds
    expireTimestamp := expire, userData := t.userData, replayProtection := RP.new }

/-- the private token opens under the server's key (AAD = version ‖ protocol id ‖ expiry) to the token `t` -/
def TokenOpens (a : AEAD) (s : NetcodeServer) (expire : Nat) (xnonce data : Bytes) (t : PrivateConnectToken) : Prop :=
  ∃ plain, a.xopen s.connectKey xnonce (PrivateConnectToken.additionalData s.protocolId expire) data = some plain ∧
    PrivateConnectToken.read (plain ++ data.drop plain.length) = some t

/-- Every check a connection request (fields `v pid expire xnonce data`, source `addr`) passes before the server
    answers it with a challenge or a denial. -/
structure Accepted (a : AEAD) (s : NetcodeServer) (addr : Addr) (v : Bytes) (pid expire : Nat) (xnonce data : Bytes)
    (t : PrivateConnectToken) : Prop where
  version : v = C.NETCODE_VERSION_INFO
  protocol : pid = s.protocolId
  unexpired : asSecs s.currentTime < expire
  opens : TokenOpens a s expire xnonce data t
  host : s.secure = true → ∃ x, some x ∈ t.serverAddresses ∧ x ∈ s.publicAddresses
  addrFree : findClientByAddr s.clients addr = none
  idFree : findClientById s.clients t.clientId = none
  room : (pendingFind s.pendingClients addr).isSome ∨ s.pendingClients.length < C.NETCODE_MAX_PENDING_CLIENTS
  /-- the token-to-address binding: no entry of the table carries this token's MAC with another address -/
  binding : (s.findOrAddConnectTokenEntry ⟨s.currentTime, addr, tokenMac data⟩).2 = true

/-- the token-entry table after an accepted request: untouched, or the new entry written where no entry had its MAC -/
def EntryStep (s s1 : NetcodeServer) (ne : ConnectTokenEntry) : Prop :=
  s1 = s ∨ ((∀ e, some e ∈ s.connectTokenEntries → e.mac ≠ ne.mac) ∧
            ∃ k, s1 = { s with connectTokenEntries := s.connectTokenEntries.set k (some ne) })

/-- the possible outcomes of `handle_connection_request` -/
inductive HcrOut (a : AEAD) (s : NetcodeServer) (addr : Addr) (v : Bytes) (pid expire : Nat) (xnonce data : Bytes) :
    NetcodeServer.SRes → Prop
  /-- a check failed (the request is not `Accepted`): nothing changes -/
  | err (e : NetcodeError) : (∀ t, ¬ Accepted a s addr v pid expire xnonce data t) →
      HcrOut a s addr v pid expire xnonce data (.err (e, s))
  /-- already connected / pending map full / token bound to another address (not `Accepted`): nothing changes -/
  | none : (∀ t, ¬ Accepted a s addr v pid expire xnonce data t) →
      HcrOut a s addr v pid expire xnonce data (.ok (.none, s))
  | deniedErr (t : PrivateConnectToken) (s1 : NetcodeServer) (e : NetcodeError) :
      Accepted a s addr v pid expire xnonce data t → EntryStep s s1 ⟨s.currentTime, addr, tokenMac data⟩ →
      countConnected s.clients ≥ s.maxClients →
      Packet.connectionDenied.encode a C.NETCODE_MAX_PACKET_BYTES s.protocolId
        (some (s.globalSequence, t.serverToClientKey)) = .err e →
      HcrOut a s addr v pid expire xnonce data
        (.err (e, { s1 with pendingClients := pendingRemove s1.pendingClients addr }))
  /-- the server is full: the half-open session of this address (if any) is dropped, `ConnectionDenied` goes out -/
  | denied (t : PrivateConnectToken) (s1 : NetcodeServer) (out : Bytes) :
      Accepted a s addr v pid expire xnonce data t → EntryStep s s1 ⟨s.currentTime, addr, tokenMac data⟩ →
      countConnected s.clients ≥ s.maxClients →
      Packet.connectionDenied.encode a C.NETCODE_MAX_PACKET_BYTES s.protocolId
        (some (s.globalSequence, t.serverToClientKey)) = .ok out →
      HcrOut a s addr v pid expire xnonce data
        (.ok (.packetToSend addr out, { s1 with pendingClients := pendingRemove s1.pendingClients addr
                                                globalSequence := s.globalSequence + 1 }))
  | challengeErr (t : PrivateConnectToken) (s1 : NetcodeServer) (e : NetcodeError) :
      Accepted a s addr v pid expire xnonce data t → EntryStep s s1 ⟨s.currentTime, addr, tokenMac data⟩ →
      countConnected s.clients < s.maxClients →
      (ChallengeToken.generate a t.clientId t.userData (s.challengeSequence + 1) s.challengeKey = .err e ∨
        ∃ pkt, ChallengeToken.generate a t.clientId t.userData (s.challengeSequence + 1) s.challengeKey = .ok pkt ∧
          pkt.encode a C.NETCODE_MAX_PACKET_BYTES s.protocolId (some (s.globalSequence, t.serverToClientKey)) = .err e) →
      HcrOut a s addr v pid expire xnonce data
        (.err (e, { s1 with challengeSequence := s.challengeSequence + 1 }))
  /-- a challenge goes out and the half-open session of this address is (re)created from the token -/
  | challenge (t : PrivateConnectToken) (s1 : NetcodeServer) (pkt : Packet) (out : Bytes) :
      Accepted a s addr v pid expire xnonce data t → EntryStep s s1 ⟨s.currentTime, addr, tokenMac data⟩ →
      countConnected s.clients < s.maxClients →
      ChallengeToken.generate a t.clientId t.userData (s.challengeSequence + 1) s.challengeKey = .ok pkt →
      pkt.encode a C.NETCODE_MAX_PACKET_BYTES s.protocolId (some (s.globalSequence, t.serverToClientKey)) = .ok out →
      HcrOut a s addr v pid expire xnonce data
        (.ok (.packetToSend addr out,
              { s1 with challengeSequence := s.challengeSequence + 1, globalSequence := s.globalSequence + 1
                        pendingClients := pendingSet s1.pendingClients addr (mkPending s.currentTime addr expire t) }))

theorem tokenOpens_unique {a : AEAD} {s : NetcodeServer} {expire : Nat} {xnonce data : Bytes}
    {t t' : PrivateConnectToken} (h : TokenOpens a s expire xnonce data t) (h' : TokenOpens a s expire xnonce data t') :
    t = t' := by
  obtain ⟨p, h1, h2⟩ := h
  obtain ⟨p', h1', h2'⟩ := h'
  rw [h1] at h1'; cases h1'
  rw [h2] at h2'; cases h2'; rfl

theorem lift_ok {α} (s : NetcodeServer) (x : α) : NetcodeServer.lift s (.ok x : NRes α) = .ok x := rfl
theorem lift_err {α} (s : NetcodeServer) (e : NetcodeError) : NetcodeServer.lift s (.err e : NRes α) = .err (e, s) := rfl

theorem generate_ne_panic (a : AEAD) (id : Nat) (ud : Bytes) (cs : Nat) (k : Bytes) (m : String) :
    ChallengeToken.generate a id ud cs k ≠ .panic m := by
  unfold ChallengeToken.generate
  refine bind_ne_panic (io?_ne_panic _ _) fun w => bind_ne_panic (io?_ne_panic _ _) fun w' => by simp

theorem entryStep_fields {s s1 : NetcodeServer} {ne : ConnectTokenEntry} (h : EntryStep s s1 ne) :
    s1.clients = s.clients ∧ s1.pendingClients = s.pendingClients ∧ s1.protocolId = s.protocolId ∧
    s1.connectKey = s.connectKey ∧ s1.maxClients = s.maxClients ∧ s1.challengeSequence = s.challengeSequence ∧
    s1.challengeKey = s.challengeKey ∧ s1.publicAddresses = s.publicAddresses ∧ s1.currentTime = s.currentTime ∧
    s1.globalSequence = s.globalSequence ∧ s1.secure = s.secure := by
  rcases h with rfl | ⟨_, k, rfl⟩ <;> simp

theorem incU64_out_dup {ε} {x : Nat} {site : String} {X : Res ε Nat} (h : (incU64 x site : Res ε Nat) = X) :
    X = .ok (x + 1) ∨ (X = .panic site ∧ ¬ x < U64_MAX) := by
  unfold incU64 at h
  split at h
  · left; exact h.symm
  · right; exact ⟨h.symm, by omega⟩

/-- an outcome of `handle_connection_request`, or an unwinding because one of the two `u64` counters is full -/
def HcrOut' (a : AEAD) (s : NetcodeServer) (addr : Addr) (v : Bytes) (pid expire : Nat) (xnonce data : Bytes)
    (R : NetcodeServer.SRes) : Prop :=
  HcrOut a s addr v pid expire xnonce data R ∨
    ((∃ m, R = .panic m) ∧ (∃ t, Accepted a s addr v pid expire xnonce data t) ∧
      ¬ (s.globalSequence < U64_MAX ∧ s.challengeSequence < U64_MAX))

/-- `handle_connection_request`, symbolically executed.  Needs: the token blob is long enough to carry a MAC (true of
    every decoded request: 1024 bytes).  The only way to unwind is a full `u64` counter. -/
theorem hcr_spec (a : AEAD) (s : NetcodeServer) (addr : Addr) (v : Bytes) (pid expire : Nat) (xnonce data : Bytes)
    (hd : C.NETCODE_MAC_BYTES ≤ data.length) :
    HcrOut' a s addr v pid expire xnonce data
      (NetcodeServer.handleConnectionRequest a s addr v pid expire xnonce data) := by
  unfold NetcodeServer.handleConnectionRequest
  split
  · rename_i h; exact Or.inl (.err _ fun t ha => h ha.version)
  rename_i hv
  split
  · rename_i h; exact Or.inl (.err _ fun t ha => h ha.protocol)
  rename_i hp
  split
  · rename_i h; exact Or.inl (.err _ fun t ha => by have := ha.unexpired; omega)
  rename_i hx
  unfold PrivateConnectToken.decode
  rw [if_neg (by omega)]
  cases hxo : a.xopen s.connectKey xnonce (PrivateConnectToken.additionalData s.protocolId expire) data with
  | none => exact Or.inl (.err _ fun t ha => by obtain ⟨p, h1, _⟩ := ha.opens; rw [hxo] at h1; cases h1)
  | some plain =>
    simp only
    cases hrd : PrivateConnectToken.read (plain ++ data.drop plain.length) with
    | none =>
      exact Or.inl (.err _ fun t ha => by
        obtain ⟨p, h1, h2⟩ := ha.opens; rw [hxo] at h1; cases h1; rw [hrd] at h2; cases h2)
    | some t =>
      have hopens : TokenOpens a s expire xnonce data t := ⟨plain, hxo, hrd⟩
      simp only
      split
      · rename_i h
        refine Or.inl (.err _ fun t' ha => ?_)
        have := tokenOpens_unique hopens ha.opens; subst this
        obtain ⟨x, hx1, hx2⟩ := ha.host h.1
        have h2 := h.2
        simp only [Bool.not_eq_true', List.any_eq_false] at h2
        have := h2 (some x) hx1
        simp [hx2] at this
      rename_i hhost
      split
      · rename_i h
        refine Or.inl (.none fun t' ha => ?_)
        have := tokenOpens_unique hopens ha.opens; subst this
        rw [ha.idFree, ha.addrFree] at h
        simp at h
      rename_i hfree
      split
      · rename_i h
        refine Or.inl (.none fun t' ha => ?_)
        rcases ha.room with h' | h'
        · have h1 := h.1
          cases hpf : pendingFind s.pendingClients addr with
          | none => rw [hpf] at h'; cases h'
          | some q => rw [hpf] at h1; cases h1
        · have := h.2; omega
      rename_i hroom
      have hacc : (s.findOrAddConnectTokenEntry ⟨s.currentTime, addr, tokenMac data⟩).2 = true →
          Accepted a s addr v pid expire xnonce data t := by
        intro hb
        refine ⟨by simpa using hv, by simpa using hp, by omega, ⟨plain, hxo, hrd⟩, ?_, ?_, ?_, ?_, hb⟩
        · intro hs
          simp only [hs, true_and, Bool.not_eq_true', Bool.not_eq_false] at hhost
          rw [List.any_eq_true] at hhost
          obtain ⟨h, hh, hc⟩ := hhost
          cases h with
          | none => simp at hc
          | some x => exact ⟨x, hh, by simpa using hc⟩
        · cases h : findClientByAddr s.clients addr with
          | none => rfl
          | some p => simp [h] at hfree
        · cases h : findClientById s.clients t.clientId with
          | none => rfl
          | some p => simp [h] at hfree
        · cases h : pendingFind s.pendingClients addr with
          | some p => left; rfl
          | none =>
            right
            simp only [h, Option.isNone_none, true_and] at hroom
            omega
      rcases findOrAdd_spec s ⟨s.currentTime, addr, tokenMac data⟩ with ⟨e, he, hm, heq⟩ | ⟨hn, k, heq⟩
      · -- an entry with this MAC exists
        have heq' : s.findOrAddConnectTokenEntry ⟨s.currentTime, addr,
            data.drop (C.NETCODE_CONNECT_TOKEN_PRIVATE_BYTES - C.NETCODE_MAC_BYTES)⟩ = _ := heq
        by_cases hadr : e.address = addr
        · have hacc := hacc (by rw [heq]; simp [hadr])
          rw [heq']
          simp only [hadr, decide_true, Bool.not_true, Bool.false_eq_true, if_false]
          split
          · rename_i hfull
            cases hen : Packet.connectionDenied.encode a C.NETCODE_MAX_PACKET_BYTES s.protocolId
                (some (s.globalSequence, t.serverToClientKey)) with
            | panic m => exact absurd hen (encode_ne_panic _ _ _ _ _ _)
            | err e' => exact Or.inl (.deniedErr t s e' hacc (Or.inl rfl) hfull hen)
            | ok out =>
              simp only [lift_ok, bind_ok']
              generalize hinc : (incU64 s.globalSequence _ : Res (NetcodeError × NetcodeServer) Nat) = X
              rcases incU64_out hinc with rfl | ⟨rfl, hn⟩
              · simp only [bind_ok', pure_eq']
                exact Or.inl (.denied t s out hacc (Or.inl rfl) hfull hen)
              · exact Or.inr ⟨⟨_, rfl⟩, ⟨t, hacc⟩, fun h => hn h.1⟩
          · rename_i hfull
            generalize hinc : (incU64 s.challengeSequence _ : Res (NetcodeError × NetcodeServer) Nat) = X
            rcases incU64_out hinc with rfl | ⟨rfl, hn⟩
            case inr => exact Or.inr ⟨⟨_, rfl⟩, ⟨t, hacc⟩, fun h => hn h.2⟩
            simp only [bind_ok']
            cases hgen : ChallengeToken.generate a t.clientId t.userData (s.challengeSequence + 1) s.challengeKey with
            | panic m => exact absurd hgen (generate_ne_panic _ _ _ _ _ _)
            | err e' => exact Or.inl (.challengeErr t s e' hacc (Or.inl rfl) (by omega) (Or.inl hgen))
            | ok pkt =>
              simp only [lift_ok, bind_ok']
              cases hen : pkt.encode a C.NETCODE_MAX_PACKET_BYTES s.protocolId
                  (some (s.globalSequence, t.serverToClientKey)) with
              | panic m => exact absurd hen (encode_ne_panic _ _ _ _ _ _)
              | err e' => exact Or.inl (.challengeErr t s e' hacc (Or.inl rfl) (by omega) (Or.inr ⟨pkt, hgen, hen⟩))
              | ok out =>
                simp only [lift_ok, bind_ok']
                generalize hinc2 : (incU64 s.globalSequence _ : Res (NetcodeError × NetcodeServer) Nat) = X2
                rcases incU64_out hinc2 with rfl | ⟨rfl, hn⟩
                · simp only [bind_ok', pure_eq']
                  exact Or.inl (.challenge t s pkt out hacc (Or.inl rfl) (by omega) hgen hen)
                · exact Or.inr ⟨⟨_, rfl⟩, ⟨t, hacc⟩, fun h => hn h.1⟩
        · rw [heq']
          simp only [hadr, decide_false, Bool.not_false, if_true]
          refine Or.inl (.none fun t' ha => ?_)
          have := ha.binding
          rw [heq] at this
          simp [hadr] at this
      · -- no entry with this MAC: it is recorded
        have heq' : s.findOrAddConnectTokenEntry ⟨s.currentTime, addr,
            data.drop (C.NETCODE_CONNECT_TOKEN_PRIVATE_BYTES - C.NETCODE_MAC_BYTES)⟩ = _ := heq
        have hacc := hacc (by rw [heq])
        have hstep : EntryStep s _ ⟨s.currentTime, addr, tokenMac data⟩ := Or.inr ⟨hn, k, rfl⟩
        rw [heq']
        simp only [Bool.not_true, Bool.false_eq_true, if_false]
        split
        · rename_i hfull
          cases hen : Packet.connectionDenied.encode a C.NETCODE_MAX_PACKET_BYTES s.protocolId
              (some (s.globalSequence, t.serverToClientKey)) with
          | panic m => exact absurd hen (encode_ne_panic _ _ _ _ _ _)
          | err e' => exact Or.inl (.deniedErr t _ e' hacc hstep hfull hen)
          | ok out =>
            simp only [lift_ok, bind_ok']
            generalize hinc : (incU64 s.globalSequence _ : Res (NetcodeError × NetcodeServer) Nat) = X
            rcases incU64_out hinc with rfl | ⟨rfl, hn⟩
            · simp only [bind_ok', pure_eq']
              exact Or.inl (.denied t _ out hacc hstep hfull hen)
            · exact Or.inr ⟨⟨_, rfl⟩, ⟨t, hacc⟩, fun h => hn h.1⟩
        · rename_i hfull
          generalize hinc : (incU64 s.challengeSequence _ : Res (NetcodeError × NetcodeServer) Nat) = X
          rcases incU64_out hinc with rfl | ⟨rfl, hn⟩
          case inr => exact Or.inr ⟨⟨_, rfl⟩, ⟨t, hacc⟩, fun h => hn h.2⟩
          simp only [bind_ok']
          cases hgen : ChallengeToken.generate a t.clientId t.userData (s.challengeSequence + 1) s.challengeKey with
          | panic m => exact absurd hgen (generate_ne_panic _ _ _ _ _ _)
          | err e' => exact Or.inl (.challengeErr t _ e' hacc hstep (by omega) (Or.inl hgen))
          | ok pkt =>
            simp only [lift_ok, bind_ok']
            cases hen : pkt.encode a C.NETCODE_MAX_PACKET_BYTES s.protocolId
                (some (s.globalSequence, t.serverToClientKey)) with
            | panic m => exact absurd hen (encode_ne_panic _ _ _ _ _ _)
            | err e' => exact Or.inl (.challengeErr t _ e' hacc hstep (by omega) (Or.inr ⟨pkt, hgen, hen⟩))
            | ok out =>
              simp only [lift_ok, bind_ok']
              generalize hinc2 : (incU64 s.globalSequence _ : Res (NetcodeError × NetcodeServer) Nat) = X2
              rcases incU64_out hinc2 with rfl | ⟨rfl, hn⟩
              · simp only [bind_ok', pure_eq']
                exact Or.inl (.challenge t _ pkt out hacc hstep (by omega) hgen hen)
              · exact Or.inr ⟨⟨_, rfl⟩, ⟨t, hacc⟩, fun h => hn h.1⟩

theorem pendingSet_pendingSet (m : Pending) (ad : Addr) (x y : Connection) :
    pendingSet (pendingSet m ad x) ad y = pendingSet m ad y := by
  induction m with
  | nil => simp [pendingSet]
  | cons p rest ih =>
    obtain ⟨a0, c0⟩ := p
    simp only [pendingSet]
    split
    · simp [pendingSet, *]
    · simp [pendingSet, *]

theorem pendingRemove_pendingSet (m : Pending) (ad : Addr) (x : Connection) :
    pendingRemove (pendingSet m ad x) ad = pendingRemove m ad := by
  unfold pendingRemove
  induction m with
  | nil => simp [pendingSet]
  | cons p rest ih =>
    obtain ⟨a0, c0⟩ := p
    simp only [pendingSet]
    split
    · rename_i h; simp [List.filter_cons, h]
    · rename_i h
      simp only [List.filter_cons]
      rw [ih]

/-- a connected session after an authentic keep-alive / payload: window advanced, receive timer refreshed -/
abbrev refreshed (c : Connection) (w : RP) (now : Nat) : Connection :=
  { c with replayProtection := w, lastPacketReceivedTime := now, confirmed := true }

/-- a half-open session after any decodable datagram from its address -/
abbrev touched (p : Connection) (w : RP) (now : Nat) : Connection :=
  { p with replayProtection := w, lastPacketReceivedTime := now }

/-- the connected session a half-open session turns into -/
abbrev promoted (p : Connection) (w : RP) (now : Nat) : Connection :=
  { p with replayProtection := w, lastPacketReceivedTime := now, state := .connected, lastPacketSendTime := now
           sequence := p.sequence + 1 }

/-- what `process_packet` makes of a `handle_connection_request` result -/
def HcrRes (R : NetcodeServer.SRes) (r : ServerResult) (s' : NetcodeServer) : Prop :=
  R = .ok (r, s') ∨ (r = .none ∧ ∃ e, R = .err (e, s'))

/-- The possible outcomes `(result, new state)` of `process_packet` on a datagram `buf` from `addr` (for a server
    satisfying `ServerInv`, with room in its two global counters). -/
inductive PPOut (a : AEAD) (s : NetcodeServer) (addr : Addr) (buf : Bytes) : ServerResult → NetcodeServer → Prop
  | short : buf.length < 2 + C.NETCODE_MAC_BYTES → PPOut a s addr buf .none s
  /- datagram from a connected address: decoded with that session's key and window -/
  | connErr (i : Nat) (c : Connection) (e : NetcodeError) (w' : RP) :
      findClientByAddr s.clients addr = some (i, c) →
      Packet.decode a buf s.protocolId (some c.receiveKey) (some c.replayProtection) = (.err e, some w') →
      PPOut a s addr buf .none { s with clients := s.clients.set i (some { c with replayProtection := w' }) }
  | connDisconnect (i : Nat) (c : Connection) (sq : Nat) (w' : RP) :
      findClientByAddr s.clients addr = some (i, c) →
      Packet.decode a buf s.protocolId (some c.receiveKey) (some c.replayProtection) = (.ok (sq, .disconnect), some w') →
      PPOut a s addr buf (.clientDisconnected c.clientId addr none) { s with clients := s.clients.set i none }
  | connPayload (i : Nat) (c : Connection) (sq : Nat) (p : Bytes) (w' : RP) :
      findClientByAddr s.clients addr = some (i, c) →
      Packet.decode a buf s.protocolId (some c.receiveKey) (some c.replayProtection) = (.ok (sq, .payload p), some w') →
      PPOut a s addr buf (.payload c.clientId p)
        { s with clients := s.clients.set i (some (refreshed c w' s.currentTime)) }
  | connKeepAlive (i : Nat) (c : Connection) (sq ci mc : Nat) (w' : RP) :
      findClientByAddr s.clients addr = some (i, c) →
      Packet.decode a buf s.protocolId (some c.receiveKey) (some c.replayProtection) = (.ok (sq, .keepAlive ci mc), some w') →
      PPOut a s addr buf .none
        { s with clients := s.clients.set i (some (refreshed c w' s.currentTime)) }
  | connOther (i : Nat) (c : Connection) (sq : Nat) (pk : Packet) (w' : RP) :
      findClientByAddr s.clients addr = some (i, c) →
      Packet.decode a buf s.protocolId (some c.receiveKey) (some c.replayProtection) = (.ok (sq, pk), some w') →
      pk.packetType ≠ .disconnect → pk.packetType ≠ .payload → pk.packetType ≠ .keepAlive →
      PPOut a s addr buf .none { s with clients := s.clients.set i (some { c with replayProtection := w' }) }
  /- datagram from an address with a half-open session `p`: decoded with that session's key and window -/
  | pendErr (p : Connection) (e : NetcodeError) (w' : RP) :
      findClientByAddr s.clients addr = none → pendingFind s.pendingClients addr = some p →
      Packet.decode a buf s.protocolId (some p.receiveKey) (some p.replayProtection) = (.err e, some w') →
      PPOut a s addr buf .none
        { s with pendingClients := pendingSet s.pendingClients addr { p with replayProtection := w' } }
  | pendRequest (p : Connection) (sq : Nat) (v : Bytes) (pid expire : Nat) (xnonce data : Bytes) (w' : RP)
      (R : NetcodeServer.SRes) (r : ServerResult) (s' : NetcodeServer) :
      findClientByAddr s.clients addr = none → pendingFind s.pendingClients addr = some p →
      Packet.decode a buf s.protocolId (some p.receiveKey) (some p.replayProtection) =
        (.ok (sq, .connectionRequest v pid expire xnonce data), some w') →
      HcrOut a { s with pendingClients := pendingSet s.pendingClients addr (touched p w' s.currentTime) }
        addr v pid expire xnonce data R →
      HcrRes R r s' → PPOut a s addr buf r s'
  | pendOther (p : Connection) (sq : Nat) (pk : Packet) (w' : RP) :
      findClientByAddr s.clients addr = none → pendingFind s.pendingClients addr = some p →
      Packet.decode a buf s.protocolId (some p.receiveKey) (some p.replayProtection) = (.ok (sq, pk), some w') →
      pk.packetType ≠ .connectionRequest → pk.packetType ≠ .response →
      PPOut a s addr buf .none
        { s with pendingClients := pendingSet s.pendingClients addr (touched p w' s.currentTime) }
  /-- a response whose challenge token does not open under the challenge key, or names another id / user data -/
  | respRejected (p : Connection) (sq ts : Nat) (td : Bytes) (w' : RP) :
      findClientByAddr s.clients addr = none → pendingFind s.pendingClients addr = some p →
      Packet.decode a buf s.protocolId (some p.receiveKey) (some p.replayProtection) =
        (.ok (sq, .response ts td), some w') →
      (∀ ct, ChallengeToken.decode a td ts s.challengeKey = .ok ct → ct.clientId ≠ p.clientId ∨ ct.userData ≠ p.userData) →
      PPOut a s addr buf .none
        { s with pendingClients := pendingSet s.pendingClients addr (touched p w' s.currentTime) }
  /-- a matching response, but the id got connected meanwhile, or encoding the answer failed: the half-open session
      is dropped, nobody is connected -/
  | respDropped (p : Connection) (sq ts : Nat) (td : Bytes) (w' : RP) :
      findClientByAddr s.clients addr = none → pendingFind s.pendingClients addr = some p →
      Packet.decode a buf s.protocolId (some p.receiveKey) (some p.replayProtection) =
        (.ok (sq, .response ts td), some w') →
      ChallengeToken.decode a td ts s.challengeKey = .ok ⟨p.clientId, p.userData⟩ →
      ((findClientSlotById s.clients p.clientId).isSome = true ∨
        (∃ e, Packet.connectionDenied.encode a C.NETCODE_MAX_PACKET_BYTES s.protocolId
                (some (s.globalSequence, p.sendKey)) = .err e) ∨
        (∃ i e, firstFreeSlot s.clients = some i ∧
          (Packet.keepAlive (i % 2 ^ 32) (s.maxClients % 2 ^ 32)).encode a C.NETCODE_MAX_PACKET_BYTES s.protocolId
            (some (p.sequence, p.sendKey)) = .err e)) →
      PPOut a s addr buf .none { s with pendingClients := pendingRemove s.pendingClients addr }
  /-- a matching response but no free slot: `ConnectionDenied` -/
  | respFull (p : Connection) (sq ts : Nat) (td : Bytes) (w' : RP) (out : Bytes) :
      findClientByAddr s.clients addr = none → pendingFind s.pendingClients addr = some p →
      Packet.decode a buf s.protocolId (some p.receiveKey) (some p.replayProtection) =
        (.ok (sq, .response ts td), some w') →
      ChallengeToken.decode a td ts s.challengeKey = .ok ⟨p.clientId, p.userData⟩ →
      findClientById s.clients p.clientId = none → firstFreeSlot s.clients = none →
      Packet.connectionDenied.encode a C.NETCODE_MAX_PACKET_BYTES s.protocolId (some (s.globalSequence, p.sendKey)) = .ok out →
      PPOut a s addr buf (.packetToSend addr out)
        { s with pendingClients := pendingRemove s.pendingClients addr, globalSequence := s.globalSequence + 1 }
  /-- a matching response and a free slot: the half-open session becomes connected -/
  | respConnected (p : Connection) (sq ts : Nat) (td : Bytes) (w' : RP) (i : Nat) (out : Bytes) :
      findClientByAddr s.clients addr = none → pendingFind s.pendingClients addr = some p →
      Packet.decode a buf s.protocolId (some p.receiveKey) (some p.replayProtection) =
        (.ok (sq, .response ts td), some w') →
      ChallengeToken.decode a td ts s.challengeKey = .ok ⟨p.clientId, p.userData⟩ →
      findClientById s.clients p.clientId = none → firstFreeSlot s.clients = some i →
      (Packet.keepAlive (i % 2 ^ 32) (s.maxClients % 2 ^ 32)).encode a C.NETCODE_MAX_PACKET_BYTES s.protocolId
        (some (p.sequence, p.sendKey)) = .ok out →
      PPOut a s addr buf (.clientConnected p.clientId addr p.userData out)
        { s with pendingClients := pendingRemove s.pendingClients addr
                 clients := s.clients.set i (some (promoted p w' s.currentTime)) }
  /- datagram from an unknown address: decoded without key -/
  | newErr (e : NetcodeError) :
      findClientByAddr s.clients addr = none → pendingFind s.pendingClients addr = none →
      (Packet.decode a buf s.protocolId none none).1 = .err e → PPOut a s addr buf .none s
  | newRequest (sq : Nat) (v : Bytes) (pid expire : Nat) (xnonce data : Bytes) (R : NetcodeServer.SRes)
      (r : ServerResult) (s' : NetcodeServer) :
      findClientByAddr s.clients addr = none → pendingFind s.pendingClients addr = none →
      (Packet.decode a buf s.protocolId none none).1 = .ok (sq, .connectionRequest v pid expire xnonce data) →
      HcrOut a s addr v pid expire xnonce data R → HcrRes R r s' → PPOut a s addr buf r s'

theorem cdecode_ne_panic (a : AEAD) (td : Bytes) (ts : Nat) (k : Bytes) (h : C.NETCODE_MAC_BYTES ≤ td.length) (m : String) :
    ChallengeToken.decode a td ts k ≠ .panic m := by
  unfold ChallengeToken.decode Packet.openBody
  rw [if_neg (by omega)]
  cases a.open k (Packet.nonce ts) [] td with
  | none => simp
  | some plain => simp only [bind_ok']; exact io?_ne_panic _ _

/-- an outcome of `process_packet_internal`, or an unwinding because one of the two `u64` counters is full -/
def PPIOut' (a : AEAD) (s : NetcodeServer) (addr : Addr) (buf : Bytes) (R : NetcodeServer.SRes) : Prop :=
  (∃ r s', HcrRes R r s' ∧ PPOut a s addr buf r s') ∨
    ((∃ m, R = .panic m) ∧ ¬ (s.globalSequence < U64_MAX ∧ s.challengeSequence < U64_MAX))

/-- `process_packet_internal`, symbolically executed -/
theorem ppi_spec (a : AEAD) {s : NetcodeServer} (hi : ServerInv s) (addr : Addr) (buf : Bytes) :
    PPIOut' a s addr buf (s.processPacketInternal a addr buf) := by
  unfold NetcodeServer.processPacketInternal
  split
  · exact Or.inl ⟨_, _, Or.inr ⟨rfl, _, rfl⟩, .short ‹_›⟩
  cases hfa : findClientByAddr s.clients addr with
  | some ic =>
    -- connected address
    obtain ⟨i, c⟩ := ic
    obtain ⟨hat, had⟩ := findAddr_some hfa
    have hst := hi.slots.conn i c hat
    obtain ⟨w', hw⟩ := decode_rp_some a buf s.protocolId (some c.receiveKey) c.replayProtection
    have hnp := decode_ne_panic a buf s.protocolId (some c.receiveKey) (some c.replayProtection)
    cases hdec : Packet.decode a buf s.protocolId (some c.receiveKey) (some c.replayProtection) with
    | mk r rp =>
      rw [hdec] at hw hnp; simp only at hw hnp; subst hw
      simp only [hdec, Option.getD_some]
      cases r with
      | panic m => exact absurd rfl (hnp m)
      | err e => exact Or.inl ⟨_, _, Or.inr ⟨rfl, _, rfl⟩, .connErr i c e w' hfa hdec⟩
      | ok sp =>
        obtain ⟨sq, pk⟩ := sp
        simp only
        split
        case h_2 hns => exact absurd hst (hns · )
        cases pk with
        | disconnect =>
          refine Or.inl ⟨_, _, Or.inl ?_, .connDisconnect i c sq w' hfa hdec⟩
          simp only [List.set_set]
        | payload p =>
          refine Or.inl ⟨_, _, Or.inl ?_, .connPayload i c sq p w' hfa hdec⟩
          simp only [List.set_set]
        | keepAlive ci mc =>
          refine Or.inl ⟨_, _, Or.inl ?_, .connKeepAlive i c sq ci mc w' hfa hdec⟩
          simp only [List.set_set]
        | connectionRequest v pid e x d =>
          exact Or.inl ⟨_, _, Or.inl rfl, .connOther i c sq _ w' hfa hdec (by simp [Packet.packetType]) (by simp [Packet.packetType])
            (by simp [Packet.packetType])⟩
        | connectionDenied =>
          exact Or.inl ⟨_, _, Or.inl rfl, .connOther i c sq _ w' hfa hdec (by simp [Packet.packetType]) (by simp [Packet.packetType])
            (by simp [Packet.packetType])⟩
        | challenge ts td =>
          exact Or.inl ⟨_, _, Or.inl rfl, .connOther i c sq _ w' hfa hdec (by simp [Packet.packetType]) (by simp [Packet.packetType])
            (by simp [Packet.packetType])⟩
        | response ts td =>
          exact Or.inl ⟨_, _, Or.inl rfl, .connOther i c sq _ w' hfa hdec (by simp [Packet.packetType]) (by simp [Packet.packetType])
            (by simp [Packet.packetType])⟩
  | none =>
    simp only
    cases hpf : pendingFind s.pendingClients addr with
    | some p =>
      -- half-open address
      simp only
      have hpok := hi.pend (addr, p) (pendingFind_mem hpf)
      obtain ⟨w', hw⟩ := decode_rp_some a buf s.protocolId (some p.receiveKey) p.replayProtection
      have hnp := decode_ne_panic a buf s.protocolId (some p.receiveKey) (some p.replayProtection)
      cases hdec : Packet.decode a buf s.protocolId (some p.receiveKey) (some p.replayProtection) with
      | mk r rp =>
        rw [hdec] at hw hnp; simp only at hw hnp; subst hw
        simp only [Option.getD_some]
        cases r with
        | panic m => exact absurd rfl (hnp m)
        | err e => exact Or.inl ⟨_, _, Or.inr ⟨rfl, _, rfl⟩, .pendErr p e w' hfa hpf hdec⟩
        | ok sp =>
          obtain ⟨sq, pk⟩ := sp
          simp only [pendingSet_pendingSet]
          cases pk with
          | connectionRequest v pid e x d =>
            simp only
            obtain ⟨_, _, _, hdd | hdd⟩ := decode_ok hdec
            · obtain ⟨v', pi', e', x', d', hpk, _, _, _, hlen⟩ := hdd
              cases hpk
              rcases hcr_spec a { s with pendingClients := pendingSet s.pendingClients addr (touched p w' s.currentTime) }
                addr v pid e x d (by rw [hlen]; decide) with hspec | ⟨⟨m, hm⟩, _, hn⟩
              case inr => exact Or.inr ⟨⟨m, by rw [hm]⟩, hn⟩
              cases hR : NetcodeServer.handleConnectionRequest a
                  { s with pendingClients := pendingSet s.pendingClients addr (touched p w' s.currentTime) }
                  addr v pid e x d with
              | ok rs =>
                obtain ⟨r, s'⟩ := rs
                exact Or.inl ⟨r, s', Or.inl rfl, .pendRequest p sq v pid e x d w' _ r s' hfa hpf hdec hspec (Or.inl hR)⟩
              | err es =>
                obtain ⟨er, s'⟩ := es
                exact Or.inl ⟨.none, s', Or.inr ⟨rfl, er, rfl⟩, .pendRequest p sq v pid e x d w' _ .none s' hfa hpf hdec hspec (Or.inr ⟨rfl, er, hR⟩)⟩
              | panic m =>
                rw [hR] at hspec; cases hspec
            · obtain ⟨ty, _, _, _, hty, hne, _⟩ := hdd
              simp [Packet.packetType] at hty; exact absurd hty.symm hne
          | response ts td =>
            simp only
            have htd : C.NETCODE_MAC_BYTES ≤ td.length := by
              obtain ⟨_, _, _, hdd | hdd⟩ := decode_ok hdec
              · obtain ⟨_, _, _, _, _, hpk, _⟩ := hdd; cases hpk
              · obtain ⟨ty, _, _, plain, _, _, _, _, _, _, _, _, hrd⟩ := hdd
                rw [(read_ok hrd).2.2.1 ts td rfl]; decide
            cases hct : ChallengeToken.decode a td ts s.challengeKey with
            | panic m => exact absurd hct (cdecode_ne_panic a td ts _ htd m)
            | err e =>
              refine Or.inl ⟨_, _, Or.inr ⟨rfl, _, rfl⟩, .respRejected p sq ts td w' hfa hpf hdec ?_⟩
              intro ct h; rw [hct] at h; cases h
            | ok ct =>
              simp only [lift_ok, bind_ok']
              split
              · rename_i hmis
                refine Or.inl ⟨_, _, Or.inl rfl, .respRejected p sq ts td w' hfa hpf hdec ?_⟩
                intro ct' h; rw [hct] at h; cases h; exact hmis
              · rename_i hmatch
                have h1 : ct.clientId = p.clientId := by
                  cases Decidable.em (ct.clientId = p.clientId) with
                  | inl h => exact h
                  | inr h => exact absurd (Or.inl h) hmatch
                have h2 : ct.userData = p.userData := by
                  cases Decidable.em (ct.userData = p.userData) with
                  | inl h => exact h
                  | inr h => exact absurd (Or.inr h) hmatch
                have hct' : ChallengeToken.decode a td ts s.challengeKey = .ok ⟨p.clientId, p.userData⟩ := by
                  rw [hct, ← h1, ← h2]
                simp only [pendingRemove_pendingSet, h1, h2]
                split
                · rename_i hdup
                  exact Or.inl ⟨_, _, Or.inl rfl, .respDropped p sq ts td w' hfa hpf hdec hct' (Or.inl hdup)⟩
                · rename_i hnd
                  have hidn : findClientById s.clients p.clientId = none := by
                    rw [findSlot_isSome] at hnd
                    cases h : findClientById s.clients p.clientId with
                    | none => rfl
                    | some x => simp [h] at hnd
                  cases hff : firstFreeSlot s.clients with
                  | none =>
                    simp only
                    cases hen : Packet.connectionDenied.encode a C.NETCODE_MAX_PACKET_BYTES s.protocolId
                        (some (s.globalSequence, p.sendKey)) with
                    | panic m => exact absurd hen (encode_ne_panic _ _ _ _ _ _)
                    | err e =>
                      exact Or.inl ⟨_, _, Or.inr ⟨rfl, _, rfl⟩,
                        .respDropped p sq ts td w' hfa hpf hdec hct' (Or.inr (Or.inl ⟨e, hen⟩))⟩
                    | ok out =>
                      simp only [lift_ok, bind_ok']
                      generalize hinc : (incU64 s.globalSequence _ : Res (NetcodeError × NetcodeServer) Nat) = X
                      rcases incU64_out hinc with rfl | ⟨rfl, hn⟩
                      · simp only [bind_ok', pure_eq']
                        exact Or.inl ⟨_, _, Or.inl rfl, .respFull p sq ts td w' out hfa hpf hdec hct' hidn hff hen⟩
                      · exact Or.inr ⟨⟨_, rfl⟩, fun h => hn h.1⟩
                  | some i =>
                    simp only
                    cases hen : (Packet.keepAlive (i % 2 ^ 32) (s.maxClients % 2 ^ 32)).encode a
                        C.NETCODE_MAX_PACKET_BYTES s.protocolId (some (p.sequence, p.sendKey)) with
                    | panic m => exact absurd hen (encode_ne_panic _ _ _ _ _ _)
                    | err e =>
                      exact Or.inl ⟨_, _, Or.inr ⟨rfl, _, rfl⟩,
                        .respDropped p sq ts td w' hfa hpf hdec hct' (Or.inr (Or.inr ⟨i, e, hff, hen⟩))⟩
                    | ok out =>
                      have hsq : p.sequence < U64_MAX := by rw [hpok.seq]; decide
                      simp only [lift_ok, bind_ok', incU64_ok _ hsq, pure_eq']
                      exact Or.inl ⟨_, _, Or.inl rfl, .respConnected p sq ts td w' i out hfa hpf hdec hct' hidn hff hen⟩
          | connectionDenied =>
            exact Or.inl ⟨_, _, Or.inl rfl, .pendOther p sq _ w' hfa hpf hdec (by simp [Packet.packetType]) (by simp [Packet.packetType])⟩
          | challenge ts td =>
            exact Or.inl ⟨_, _, Or.inl rfl, .pendOther p sq _ w' hfa hpf hdec (by simp [Packet.packetType]) (by simp [Packet.packetType])⟩
          | keepAlive ci mc =>
            exact Or.inl ⟨_, _, Or.inl rfl, .pendOther p sq _ w' hfa hpf hdec (by simp [Packet.packetType]) (by simp [Packet.packetType])⟩
          | payload pl =>
            exact Or.inl ⟨_, _, Or.inl rfl, .pendOther p sq _ w' hfa hpf hdec (by simp [Packet.packetType]) (by simp [Packet.packetType])⟩
          | disconnect =>
            exact Or.inl ⟨_, _, Or.inl rfl, .pendOther p sq _ w' hfa hpf hdec (by simp [Packet.packetType]) (by simp [Packet.packetType])⟩
    | none =>
      -- unknown address
      simp only
      have hnp := decode_ne_panic a buf s.protocolId none none
      cases hdec : Packet.decode a buf s.protocolId none none with
      | mk r rp =>
        rw [hdec] at hnp; simp only at hnp
        cases r with
        | panic m => exact absurd rfl (hnp m)
        | err e => exact Or.inl ⟨_, _, Or.inr ⟨rfl, _, rfl⟩, .newErr e hfa hpf (by rw [hdec])⟩
        | ok sp =>
          obtain ⟨sq, pk⟩ := sp
          obtain ⟨v, pid, e, x, d, hpk, hlen⟩ := decode_nokey_ok hdec
          subst hpk
          simp only
          rcases hcr_spec a s addr v pid e x d (by rw [hlen]; decide) with hspec | ⟨⟨m, hm⟩, _, hn⟩
          case inr => exact Or.inr ⟨⟨m, by rw [hm]⟩, hn⟩
          cases hR : NetcodeServer.handleConnectionRequest a s addr v pid e x d with
          | ok rs =>
            obtain ⟨r, s'⟩ := rs
            exact Or.inl ⟨r, s', Or.inl rfl, .newRequest sq v pid e x d _ r s' hfa hpf (by rw [hdec]) hspec (Or.inl hR)⟩
          | err es =>
            obtain ⟨er, s'⟩ := es
            exact Or.inl ⟨.none, s', Or.inr ⟨rfl, er, rfl⟩, .newRequest sq v pid e x d _ .none s' hfa hpf (by rw [hdec]) hspec (Or.inr ⟨rfl, er, hR⟩)⟩
          | panic m =>
            rw [hR] at hspec; cases hspec

/-- an outcome of `process_packet`, or an unwinding because one of the two `u64` counters is full -/
def PPOut' (a : AEAD) (s : NetcodeServer) (addr : Addr) (buf : Bytes) (R : Res Empty (ServerResult × NetcodeServer)) :
    Prop :=
  (∃ r s', R = .ok (r, s') ∧ PPOut a s addr buf r s') ∨
    ((∃ m, R = .panic m) ∧ ¬ (s.globalSequence < U64_MAX ∧ s.challengeSequence < U64_MAX))

/-- `process_packet`, symbolically executed: its outcome is one of `PPOut`; it can only unwind on a full counter. -/
theorem pp_spec' (a : AEAD) {s : NetcodeServer} (hi : ServerInv s) (addr : Addr) (buf : Bytes) :
    PPOut' a s addr buf (s.processPacket a addr buf) := by
  rcases ppi_spec a hi addr buf with ⟨r, s', hR, hout⟩ | ⟨⟨m, hm⟩, hn⟩
  · refine Or.inl ⟨r, s', ?_, hout⟩
    unfold NetcodeServer.processPacket
    rcases hR with h | ⟨rfl, e, h⟩
    · rw [h]
    · rw [h]
  · refine Or.inr ⟨⟨m, ?_⟩, hn⟩
    unfold NetcodeServer.processPacket
    rw [hm]

/-- whenever `process_packet` returns, its outcome is one of `PPOut` -/
theorem pp_ok {a : AEAD} {s s' : NetcodeServer} {addr : Addr} {buf : Bytes} {r : ServerResult} (hi : ServerInv s)
    (h : s.processPacket a addr buf = .ok (r, s')) : PPOut a s addr buf r s' := by
  rcases pp_spec' a hi addr buf with ⟨r', s'', h', hout⟩ | ⟨⟨m, hm⟩, _⟩
  · rw [h] at h'; cases h'; exact hout
  · rw [h] at hm; cases hm

/-- with room in the two counters `process_packet` returns -/
theorem pp_spec (a : AEAD) {s : NetcodeServer} (hi : ServerInv s) (hg : s.globalSequence < U64_MAX)
    (hc : s.challengeSequence < U64_MAX) (addr : Addr) (buf : Bytes) :
    ∃ r s', s.processPacket a addr buf = .ok (r, s') ∧ PPOut a s addr buf r s' := by
  rcases pp_spec' a hi addr buf with h | ⟨_, hn⟩
  · exact h
  · exact absurd ⟨hg, hc⟩ hn

/-! ### `process_packet` preserves the invariant -/

theorem leVal_lt : ∀ (b : Bytes), leVal b < 256 ^ b.length
  | [] => by simp [leVal]
  | x :: r => by
    have ih := leVal_lt r
    have hx := x.toNat_lt
    simp only [leVal, List.length_cons, Nat.pow_succ]
    omega

theorem readI32_lt {src r : Bytes} {t : Int} (h : readI32 src = some (t, r)) : t < 2 ^ 31 := by
  unfold readI32 at h
  cases hu : readU 4 src with
  | none => rw [hu] at h; cases h
  | some p =>
    obtain ⟨v, r'⟩ := p
    rw [hu] at h
    simp only [Option.some.injEq, Prod.mk.injEq] at h
    obtain ⟨rfl, _⟩ := h
    obtain ⟨hv, _, hl⟩ := readU_some hu
    have hlt : v < 2 ^ 32 := by
      have := leVal_lt (src.take 4)
      rw [List.length_take, Nat.min_eq_left hl] at this
      rw [hv]; exact this
    unfold i32OfU32
    split <;> omega

theorem privateRead_tmo {src : Bytes} {t : PrivateConnectToken} (h : PrivateConnectToken.read src = some t) :
    t.timeoutSeconds < 2 ^ 31 := by
  unfold PrivateConnectToken.read at h
  simp only [Option.bind_eq_bind, Option.bind_eq_some_iff, Option.pure_def, Option.some.injEq, Prod.exists] at h
  obtain ⟨id, r1, h1, tm, r2, h2, sa, r3, h3, k1, r4, h4, k2, r5, h5, ud, r6, h6, rfl⟩ := h
  exact readI32_lt h2

theorem EntryStep.inv {s s1 : NetcodeServer} {ne : ConnectTokenEntry} (hi : ServerInv s) (h : EntryStep s s1 ne) :
    ServerInv s1 := by
  rcases h with rfl | ⟨hn, k, rfl⟩
  · exact hi
  · exact hi.setEntry k hn

/-- `handle_connection_request` (called for an address that is not connected) preserves the invariant -/
theorem hcr_inv {a : AEAD} {s : NetcodeServer} {addr : Addr} {v : Bytes} {pid expire : Nat} {xnonce data : Bytes}
    {R : NetcodeServer.SRes} {r : ServerResult} {s' : NetcodeServer} (hi : ServerInv s)
    (ho : HcrOut a s addr v pid expire xnonce data R) (hr : HcrRes R r s') : ServerInv s' := by
  cases ho with
  | err e => rcases hr with h | ⟨_, e', h⟩ <;> cases h; exact hi
  | none => rcases hr with h | ⟨_, e', h⟩ <;> cases h; exact hi
  | deniedErr t s1 e hacc hstep hfull =>
    rcases hr with h | ⟨_, e', h⟩ <;> cases h
    exact (hstep.inv hi).removePending addr
  | denied t s1 out hacc hstep hfull hen =>
    rcases hr with h | ⟨_, e', h⟩ <;> cases h
    exact ((hstep.inv hi).removePending addr).congr rfl rfl rfl rfl rfl
  | challengeErr t s1 e hacc hstep hfull =>
    rcases hr with h | ⟨_, e', h⟩ <;> cases h
    exact (hstep.inv hi).congr rfl rfl rfl rfl rfl
  | challenge t s1 pkt out hacc hstep hfull hgen hen =>
    rcases hr with h | ⟨_, e', h⟩ <;> cases h
    have hf := entryStep_fields hstep
    have h1 := hstep.inv hi
    obtain ⟨plain, _, hrd⟩ := hacc.opens
    have hp : PendOK s1.clients s1.currentTime addr (mkPending s.currentTime addr expire t) := by
      refine ⟨rfl, rfl, rfl, ⟨?_, ?_, privateRead_tmo hrd⟩, ?_⟩
      · show s.currentTime ≤ s1.currentTime; rw [hf.2.2.2.2.2.2.2.2.1]; exact Nat.le_refl _
      · show s.currentTime ≤ s1.currentTime; rw [hf.2.2.2.2.2.2.2.2.1]; exact Nat.le_refl _
      · rw [hf.1]; exact findAddr_none.mp hacc.addrFree
    have := h1.setPending hp (by rw [hf.2.1]; exact hacc.room)
    exact this.congr rfl rfl rfl rfl rfl

theorem touched_inv {s : NetcodeServer} (hi : ServerInv s) {addr : Addr} {p : Connection}
    (hpf : pendingFind s.pendingClients addr = some p) (w : RP) :
    ServerInv { s with pendingClients := pendingSet s.pendingClients addr (touched p w s.currentTime) } := by
  obtain ⟨a1, a2, a3, a4, a5⟩ := hi.pend (addr, p) (pendingFind_mem hpf)
  exact hi.setPending ⟨a1, a2, a3, ⟨Nat.le_refl _, a4.send, a4.tmo⟩, a5⟩ (Or.inl (by rw [hpf]; rfl))

/-- every outcome of `process_packet` satisfies the invariant again -/
theorem ppOut_inv {a : AEAD} {s : NetcodeServer} {addr : Addr} {buf : Bytes} {r : ServerResult} {s' : NetcodeServer}
    (hi : ServerInv s) (ho : PPOut a s addr buf r s') : ServerInv s' := by
  cases ho with
  | short _ => exact hi
  | connErr i c e w' hfa hdec =>
    have hat := (findAddr_some hfa).1
    exact hi.refreshSlot hat rfl (hi.slots.conn i c hat)
      ⟨(hi.slotsOK i c hat).recv, (hi.slotsOK i c hat).send, (hi.slotsOK i c hat).tmo⟩
  | connDisconnect i c sq w' hfa hdec => exact hi.dropSlot i
  | connPayload i c sq p w' hfa hdec =>
    have hat := (findAddr_some hfa).1
    exact hi.refreshSlot hat rfl (hi.slots.conn i c hat)
      ⟨Nat.le_refl _, (hi.slotsOK i c hat).send, (hi.slotsOK i c hat).tmo⟩
  | connKeepAlive i c sq ci mc w' hfa hdec =>
    have hat := (findAddr_some hfa).1
    exact hi.refreshSlot hat rfl (hi.slots.conn i c hat)
      ⟨Nat.le_refl _, (hi.slotsOK i c hat).send, (hi.slotsOK i c hat).tmo⟩
  | connOther i c sq pk w' hfa hdec _ _ _ =>
    have hat := (findAddr_some hfa).1
    exact hi.refreshSlot hat rfl (hi.slots.conn i c hat)
      ⟨(hi.slotsOK i c hat).recv, (hi.slotsOK i c hat).send, (hi.slotsOK i c hat).tmo⟩
  | pendErr p e w' hfa hpf hdec =>
    obtain ⟨a1, a2, a3, a4, a5⟩ := hi.pend (addr, p) (pendingFind_mem hpf)
    exact hi.setPending ⟨a1, a2, a3, ⟨a4.recv, a4.send, a4.tmo⟩, a5⟩ (Or.inl (by rw [hpf]; rfl))
  | pendRequest p sq v pid expire xnonce data w' R _ _ hfa hpf hdec hout hres =>
    exact hcr_inv (touched_inv hi hpf w') hout hres
  | pendOther p sq pk w' hfa hpf hdec _ _ => exact touched_inv hi hpf w'
  | respRejected p sq ts td w' hfa hpf hdec _ => exact touched_inv hi hpf w'
  | respDropped p sq ts td w' hfa hpf hdec _ => exact hi.removePending addr
  | respFull p sq ts td w' out hfa hpf hdec _ _ _ _ =>
    exact (hi.removePending addr).congr rfl rfl rfl rfl rfl
  | respConnected p sq ts td w' i out hfa hpf hdec hct hid hff hen =>
    obtain ⟨a1, a2, a3, a4, a5⟩ := hi.pend (addr, p) (pendingFind_mem hpf)
    exact hi.connect (c := promoted p w' s.currentTime) (findById_none.mp hid) (findAddr_none.mp hfa) a1 rfl
      ⟨Nat.le_refl _, Nat.le_refl _, a4.tmo⟩
  | newErr e hfa hpf hdec => exact hi
  | newRequest sq v pid expire xnonce data R _ _ hfa hpf hdec hout hres => exact hcr_inv hi hout hres

/-- **`process_packet` preserves the invariant for every source address and every datagram** and does not unwind
    while the two global counters have room. -/
theorem processPacket_inv (a : AEAD) {s : NetcodeServer} (hi : ServerInv s) (hg : s.globalSequence < U64_MAX)
    (hc : s.challengeSequence < U64_MAX) (addr : Addr) (buf : Bytes) :
    ∃ r s', s.processPacket a addr buf = .ok (r, s') ∧ ServerInv s' := by
  obtain ⟨r, s', h, ho⟩ := pp_spec a hi hg hc addr buf
  exact ⟨r, s', h, ppOut_inv hi ho⟩

end NS
end RenetVerif.Netcode
