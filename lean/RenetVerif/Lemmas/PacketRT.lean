import RenetVerif.Lemmas.Varint
namespace RenetVerif
open Varint

theorem putVarint_ok {v : Nat} (h : v ≤ MAX) : putVarint v = .ok (enc v) := by simp [putVarint, h]

theorem putVarint_eq_ok {v : Nat} {b : Bytes} (h : putVarint v = .ok b) : v ≤ MAX ∧ b = enc v := by
  unfold putVarint at h; split at h
  · cases h; exact ⟨by assumption, rfl⟩
  · cases h

theorem getVarint_enc {v : Nat} (rest : Bytes) (h : v ≤ MAX) : getVarint (enc v ++ rest) = .ok (v, rest) := by
  simp [getVarint, get_enc v rest h]

theorem getU8_cons (x : UInt8) (rest : Bytes) : getU8 (x :: rest) = .ok (x.toNat, rest) := rfl

theorem getU16_u16be {n : Nat} (rest : Bytes) (h : n < 65536) : getU16 (u16be n ++ rest) = .ok (n, rest) := by
  simp [u16be, getU16, UInt8.toNat_ofNat']; omega

theorem getBytesVar_enc (m rest : Bytes) (h : m.length ≤ MAX) :
    getBytesVar (enc m.length ++ (m ++ rest)) = .ok (m, rest) := by
  simp [getBytesVar, getVarint_enc _ h]

/-! ### small messages -/
def SmallRelWF (msgs : List (Nat × Bytes)) : Prop := ∀ x ∈ msgs, x.1 ≤ MAX ∧ x.2.length ≤ MAX
def SmallUnrelWF (msgs : List Bytes) : Prop := ∀ x ∈ msgs, x.length ≤ MAX

theorem encSmallRel_rt (msgs : List (Nat × Bytes)) (h : SmallRelWF msgs) :
    ∃ b, encSmallRel msgs = .ok b ∧ ∀ rest, decSmallRel msgs.length (b ++ rest) = .ok (msgs, rest) := by
  induction msgs with
  | nil => exact ⟨[], rfl, fun _ => rfl⟩
  | cons x xs ih =>
    obtain ⟨id, m⟩ := x
    have hx := h (id, m) (by simp)
    obtain ⟨b, hb, hd⟩ := ih (fun y hy => h y (by simp [hy]))
    refine ⟨enc id ++ enc m.length ++ m ++ b, ?_, ?_⟩
    · simp [encSmallRel, putVarint_ok hx.1, putVarint_ok hx.2, hb]
    · intro rest
      simp only [List.length_cons, decSmallRel, List.append_assoc]
      rw [getVarint_enc _ hx.1]
      simp only [bind, Except.bind]
      rw [getBytesVar_enc _ _ hx.2]
      simp only [hd rest]
      rfl

theorem encSmallUnrel_rt (msgs : List Bytes) (h : SmallUnrelWF msgs) :
    ∃ b, encSmallUnrel msgs = .ok b ∧ ∀ rest, decSmallUnrel msgs.length (b ++ rest) = .ok (msgs, rest) := by
  induction msgs with
  | nil => exact ⟨[], rfl, fun _ => rfl⟩
  | cons m xs ih =>
    have hx := h m (by simp)
    obtain ⟨b, hb, hd⟩ := ih (fun y hy => h y (by simp [hy]))
    refine ⟨enc m.length ++ m ++ b, ?_, ?_⟩
    · simp [encSmallUnrel, putVarint_ok hx, hb]
    · intro rest
      simp only [List.length_cons, decSmallUnrel, List.append_assoc]
      rw [getBytesVar_enc _ _ hx]
      simp only [bind, Except.bind, hd rest]
      rfl

/-! ### ack ranges -/
/-- descending chain below `prev`: non-empty ranges, each ending strictly below the previous start
    minus one (non-adjacent) -/
def DescWF : Nat → List AckRange → Prop
  | _, [] => True
  | prev, (s, e) :: d => s < e ∧ e < prev ∧ DescWF s d

theorem encAckRest_rt (d : List AckRange) : ∀ (prev : Nat) (acc : List AckRange), prev ≤ MAX + 1 → DescWF prev d →
    ∃ b, encAckRest prev d = .ok b ∧ ∀ rest, decAckRest d.length prev (b ++ rest) acc = .ok (d.reverse ++ acc, rest) := by
  induction d with
  | nil => intro prev acc _ _; exact ⟨[], rfl, fun _ => rfl⟩
  | cons x d ih =>
    intro prev acc hp hwf
    obtain ⟨s, e⟩ := x
    obtain ⟨h1, h2, h3⟩ := hwf
    obtain ⟨b, hb, hd⟩ := ih s ((s, e) :: acc) (by omega) h3
    have hgap : prev - e - 1 ≤ MAX := by omega
    have hsize : e - 1 - s ≤ MAX := by omega
    refine ⟨enc (prev - e - 1) ++ enc (e - 1 - s) ++ b, ?_, ?_⟩
    · simp only [encAckRest, Res.csub]
      have c1 : e ≤ prev := by omega
      have c2 : 1 ≤ prev - e := by omega
      have c3 : 1 ≤ e := by omega
      have c4 : s ≤ e - 1 := by omega
      simp [c1, c2, c3, c4, putVarint_ok hgap, putVarint_ok hsize, hb]
    · intro rest
      simp only [List.length_cons, decAckRest, List.append_assoc]
      rw [getVarint_enc _ hgap]
      simp only [bind, Except.bind]
      have : ¬ prev < 2 + (prev - e - 1) := by omega
      simp only [this, ↓reduceIte]
      rw [getVarint_enc _ hsize]
      have e1 : prev - (prev - e - 1) - 2 = e - 1 := by omega
      simp only [e1]
      have : ¬ e - 1 < e - 1 - s := by omega
      simp only [this, ↓reduceIte]
      have e2 : e - 1 - (e - 1 - s) = s := by omega
      have e3 : e - 1 + 1 = e := by omega
      simp only [e2, e3, hd rest, List.reverse_cons, List.append_assoc, List.singleton_append]

/-- what the encoder needs of an ack list (stated on the reversed = newest-first list) -/
def AckWF (ranges : List AckRange) : Prop :=
  ∃ ls le d, ranges.reverse = (ls, le) :: d ∧ ls < le ∧ le ≤ MAX + 1 ∧ DescWF ls d

/-! ### packets -/
def Packet.WF : Packet → Prop
  | .smallReliable seq ch msgs => seq ≤ MAX ∧ ch < 256 ∧ msgs.length < 65536 ∧ SmallRelWF msgs
  | .smallUnreliable seq ch msgs => seq ≤ MAX ∧ ch < 256 ∧ msgs.length < 65536 ∧ SmallUnrelWF msgs
  | .reliableSlice seq ch sl => seq ≤ MAX ∧ ch < 256 ∧ sl.messageId ≤ MAX ∧ sl.sliceIndex ≤ MAX ∧
      1 ≤ sl.numSlices ∧ sl.numSlices ≤ C.MAX_NUM_SLICES ∧ 1 ≤ sl.payload.length ∧ sl.payload.length ≤ C.SLICE_SIZE
  | .unreliableSlice seq ch sl => seq ≤ MAX ∧ ch < 256 ∧ sl.messageId ≤ MAX ∧ sl.sliceIndex ≤ MAX ∧
      1 ≤ sl.numSlices ∧ sl.numSlices ≤ C.MAX_NUM_SLICES ∧ sl.payload.length ≤ MAX
  | .ack seq ranges => seq ≤ MAX ∧ AckWF ranges

theorem chByte {ch : Nat} (h : ch < 256) : (UInt8.ofNat ch).toNat = ch := by
  simp [UInt8.toNat_ofNat']; omega

/-- Round trip: a well-formed packet encodes without panic, and decoding the encoding (followed by
    anything) gives back the packet and the remaining bytes. -/
theorem Packet.decode_enc (p : Packet) (h : p.WF) :
    ∃ b, p.enc = .ok b ∧ ∀ rest, Packet.decode (b ++ rest) = .ok (p, rest) := by
  cases p with
  | smallReliable seq ch msgs =>
    obtain ⟨h1, h2, h3, h4⟩ := h
    obtain ⟨b, hb, hd⟩ := encSmallRel_rt msgs h4
    refine ⟨_, by simp [Packet.enc, putVarint_ok h1, hb]; rfl, ?_⟩
    intro rest
    simp only [Packet.decode, List.cons_append, List.append_assoc, getU8_cons, bind, Except.bind]
    simp only [show (0 : UInt8).toNat = 0 from rfl]
    rw [getVarint_enc _ h1]
    simp only [getU8_cons, chByte h2]
    rw [getU16_u16be _ h3]
    simp only [hd rest]
    rfl
  | smallUnreliable seq ch msgs =>
    obtain ⟨h1, h2, h3, h4⟩ := h
    obtain ⟨b, hb, hd⟩ := encSmallUnrel_rt msgs h4
    refine ⟨_, by simp [Packet.enc, putVarint_ok h1, hb]; rfl, ?_⟩
    intro rest
    simp only [Packet.decode, List.cons_append, List.append_assoc, getU8_cons, bind, Except.bind]
    simp only [show (1 : UInt8).toNat = 1 from rfl]
    rw [getVarint_enc _ h1]
    simp only [getU8_cons, chByte h2]
    rw [getU16_u16be _ h3]
    simp only [hd rest]
    rfl
  | reliableSlice seq ch sl =>
    obtain ⟨h1, h2, h3, h4, h5, h6, h7, h8⟩ := h
    have hn : sl.numSlices ≤ MAX := by unfold C.MAX_NUM_SLICES at h6; unfold MAX; omega
    have hl : sl.payload.length ≤ MAX := by unfold C.SLICE_SIZE at h8; unfold MAX; omega
    refine ⟨_, by simp [Packet.enc, encSlice, putVarint_ok h1, putVarint_ok h3, putVarint_ok h4, putVarint_ok hn, putVarint_ok hl]; rfl, ?_⟩
    intro rest
    simp only [Packet.decode, List.cons_append, List.append_assoc, getU8_cons, bind, Except.bind]
    simp only [show (2 : UInt8).toNat = 2 from rfl]
    rw [getVarint_enc _ h1]
    simp only [getU8_cons, chByte h2]
    rw [getVarint_enc _ h3]; simp only []
    rw [getVarint_enc _ h4]; simp only []
    rw [getVarint_enc _ hn]; simp only []
    have : ¬ (sl.numSlices = 0 ∨ sl.numSlices > C.MAX_NUM_SLICES) := by omega
    simp only [this, ↓reduceIte]
    rw [getBytesVar_enc _ _ hl]
    have e1 : sl.payload.isEmpty = false := by
      cases hp : sl.payload with
      | nil => simp [hp] at h7
      | cons _ _ => rfl
    have : ¬ sl.payload.length > C.SLICE_SIZE := by omega
    simp [e1, this]
    rfl
  | unreliableSlice seq ch sl =>
    obtain ⟨h1, h2, h3, h4, h5, h6, hl⟩ := h
    have hn : sl.numSlices ≤ MAX := by unfold C.MAX_NUM_SLICES at h6; unfold MAX; omega
    refine ⟨_, by simp [Packet.enc, encSlice, putVarint_ok h1, putVarint_ok h3, putVarint_ok h4, putVarint_ok hn, putVarint_ok hl]; rfl, ?_⟩
    intro rest
    simp only [Packet.decode, List.cons_append, List.append_assoc, getU8_cons, bind, Except.bind]
    simp only [show (3 : UInt8).toNat = 3 from rfl]
    rw [getVarint_enc _ h1]
    simp only [getU8_cons, chByte h2]
    rw [getVarint_enc _ h3]; simp only []
    rw [getVarint_enc _ h4]; simp only []
    rw [getVarint_enc _ hn]; simp only []
    have : ¬ (sl.numSlices = 0 ∨ sl.numSlices > C.MAX_NUM_SLICES) := by omega
    simp only [this, ↓reduceIte]
    rw [getBytesVar_enc _ _ hl]
    rfl
  | ack seq ranges =>
    obtain ⟨h1, ls, le, d, hrev, hlt, hle, hd⟩ := h
    obtain ⟨b, hb, hdec⟩ := encAckRest_rt d ls [(ls, le)] (by omega) hd
    have c1 : 1 ≤ le := by omega
    have c2 : ls ≤ le - 1 := by omega
    have hle1 : le - 1 ≤ MAX := by omega
    have hsz : le - 1 - ls ≤ MAX := by omega
    have hlen : d.length ≤ MAX := by
      -- every range of the chain is non-empty and they are disjoint below `ls ≤ MAX`
      have : ∀ (d : List AckRange) (prev : Nat), DescWF prev d → d.length ≤ prev := by
        intro d
        induction d with
        | nil => intro prev _; exact Nat.zero_le _
        | cons x d ih =>
          intro prev hw
          obtain ⟨s, e⟩ := x
          obtain ⟨a, b, c⟩ := hw
          have := ih s c
          simp only [List.length_cons]; omega
      have := this d ls hd
      omega
    refine ⟨[4] ++ Varint.enc seq ++ Varint.enc (le - 1) ++ Varint.enc (le - 1 - ls) ++ Varint.enc d.length ++ b, ?_, ?_⟩
    · simp [Packet.enc, putVarint_ok h1, hrev, Res.csub, c1, c2, putVarint_ok hle1, putVarint_ok hsz, putVarint_ok hlen, hb]
    · intro rest
      simp only [Packet.decode, List.cons_append, List.nil_append, List.append_assoc, getU8_cons, bind, Except.bind]
      simp only [show (4 : UInt8).toNat = 4 from rfl]
      rw [getVarint_enc _ h1]; simp only []
      rw [getVarint_enc _ hle1]; simp only []
      rw [getVarint_enc _ hsz]; simp only []
      rw [getVarint_enc _ hlen]; simp only []
      have : ¬ le - 1 < le - 1 - ls := by omega
      simp only [this, ↓reduceIte]
      have e2 : le - 1 - (le - 1 - ls) = ls := by omega
      have e3 : le - 1 + 1 = le := by omega
      simp only [e2, e3, hdec rest]
      have : d.reverse ++ [(ls, le)] = ranges := by
        have := congrArg List.reverse hrev
        simpa using this.symm
      simp [this]
      rfl

theorem Packet.fromBytes_enc (p : Packet) (h : p.WF) : ∃ b, p.enc = .ok b ∧ Packet.fromBytes b = .ok p := by
  obtain ⟨b, hb, hd⟩ := Packet.decode_enc p h
  refine ⟨b, hb, ?_⟩
  have := hd []
  simp only [List.append_nil] at this
  simp [Packet.fromBytes, this]

end RenetVerif
